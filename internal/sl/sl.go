// Package sl holds the harness-side helpers around the real interpreter:
// evaluation with outcome classification and an independent renderer of
// slip objects (a type switch that never calls slip's Printer or Equal).
package sl

import (
	"fmt"
	"math"
	"math/big"
	"runtime"
	"strconv"
	"strings"

	"github.com/ohler55/slip"
	_ "github.com/ohler55/slip/pkg"      // all functions
	_ "github.com/ohler55/slip/pkg/repl" // the repl package too, as in the slip command, so that every build of every check sees the same set of packages and hooks
)

// Err describes a non-value outcome.
type Err struct {
	Class    string   `json:"class"`
	Chain    []string `json:"-"`
	Msg      string   `json:"msg"`
	Internal bool     `json:"internal,omitempty"` // a Go runtime fault, dressed up or raw
	Partial  bool     `json:"partial,omitempty"`  // reader: incomplete input
	GoType   string   `json:"gotype,omitempty"`
}

func (e *Err) String() string {
	if e == nil {
		return "<no error>"
	}
	s := e.Class + ": " + e.Msg
	if e.Internal {
		s = "INTERNAL " + s
	}
	return s
}

// IsA tells whether the condition's class chain contains class.
func (e *Err) IsA(class string) bool {
	for _, c := range e.Chain {
		if c == class {
			return true
		}
	}
	return false
}

var internalMarks = []string{
	"runtime error:", "interface conversion:", "hash of unhashable", "nil pointer dereference",
	"index out of range", "slice bounds out of range", "invalid memory address", "makeslice:",
	"assignment to entry in nil map", "reflect:", "integer divide by zero", "negative shift amount",
	"strings: negative Repeat", "bytes.Buffer", "out of memory",
}

// LooksInternal tells whether a message is the text of a Go runtime fault.
func LooksInternal(msg string) bool {
	for _, m := range internalMarks {
		if strings.Contains(msg, m) {
			return true
		}
	}
	return false
}

// Classify turns a recovered panic value into an Err.
func Classify(r any) *Err {
	switch tr := r.(type) {
	case nil:
		return nil
	case *slip.PartialPanic:
		return &Err{Class: "partial", Chain: []string{"partial"}, Msg: tr.Error(), Partial: true}
	case *slip.Panic:
		e := &Err{Msg: tr.Message}
		for _, h := range tr.Hierarchy() {
			e.Chain = append(e.Chain, string(h))
		}
		if 0 < len(e.Chain) {
			e.Class = e.Chain[0]
		}
		if e.Msg == "" && tr.Condition != nil {
			if m, has := tr.Condition.SlotValue(slip.Symbol("message")); has {
				if s, ok := m.(slip.String); ok {
					e.Msg = string(s)
				}
			}
		}
		if LooksInternal(e.Msg) {
			e.Internal = true
		}
		return e
	case slip.Instance:
		e := &Err{}
		for _, h := range tr.Hierarchy() {
			e.Chain = append(e.Chain, string(h))
		}
		if 0 < len(e.Chain) {
			e.Class = e.Chain[0]
		}
		if m, has := tr.SlotValue(slip.Symbol("message")); has {
			if s, ok := m.(slip.String); ok {
				e.Msg = string(s)
			}
		}
		if LooksInternal(e.Msg) {
			e.Internal = true
		}
		return e
	case runtime.Error:
		return &Err{Class: "go-runtime-error", Chain: []string{"go-runtime-error"}, Msg: tr.Error(), Internal: true, GoType: fmt.Sprintf("%T", r)}
	case error:
		msg := tr.Error()
		return &Err{Class: "go-error", Chain: []string{"go-error"}, Msg: msg, Internal: true, GoType: fmt.Sprintf("%T", r)}
	default:
		msg := fmt.Sprint(r)
		return &Err{Class: "go-panic", Chain: []string{"go-panic"}, Msg: msg, Internal: true, GoType: fmt.Sprintf("%T", r)}
	}
}

// Catch runs fn and classifies whatever it panics with.
func Catch(fn func()) (err *Err) {
	defer func() {
		if r := recover(); r != nil {
			err = Classify(r)
		}
	}()
	fn()
	return nil
}

// Eval reads and evaluates every form of src in scope; the value of the last
// form is returned.
func Eval(scope *slip.Scope, src string) (result slip.Object, err *Err) {
	err = Catch(func() {
		code := slip.ReadString(src, scope)
		result = code.Eval(scope, nil)
	})
	return
}

// EvalCompiled is Eval with Code.Compile applied first.
func EvalCompiled(scope *slip.Scope, src string) (result slip.Object, err *Err) {
	err = Catch(func() {
		code := slip.ReadString(src, scope)
		code.Compile()
		result = code.Eval(scope, nil)
	})
	return
}

// Reset restores the interpreter globals a case may have changed.
func Reset() {
	slip.CurrentPackage = &slip.UserPkg
}

// Show renders an object with the harness's own printer.
func Show(obj slip.Object) string {
	var b strings.Builder
	show(&b, obj, 0)
	return b.String()
}

// ShowAll renders a result that may be multiple values as a list of strings.
func ShowAll(obj slip.Object) []string {
	if vs, ok := obj.(slip.Values); ok {
		out := make([]string, len(vs))
		for i, v := range vs {
			out[i] = Show(v)
		}
		return out
	}
	return []string{Show(obj)}
}

func show(b *strings.Builder, obj slip.Object, depth int) {
	if 200 < depth {
		b.WriteString("#<deep>")
		return
	}
	switch to := obj.(type) {
	case nil:
		b.WriteString("nil")
	case slip.Fixnum:
		b.WriteString(strconv.FormatInt(int64(to), 10))
	case *slip.Bignum:
		b.WriteString((*big.Int)(to).String())
	case *slip.Ratio:
		b.WriteString((*big.Rat)(to).Num().String())
		b.WriteByte('/')
		b.WriteString((*big.Rat)(to).Denom().String())
	case slip.SingleFloat:
		b.WriteString(fmtFloat(float64(to), 32))
		b.WriteByte('f')
	case slip.DoubleFloat:
		b.WriteString(fmtFloat(float64(to), 64))
		b.WriteByte('d')
	case *slip.LongFloat:
		b.WriteString((*big.Float)(to).Text('g', -1))
		b.WriteByte('L')
	case slip.String:
		b.WriteString(strconv.Quote(string(to)))
	case slip.Character:
		b.WriteString("#\\")
		if to <= ' ' || to == 0x7f || 0xa0 == to {
			fmt.Fprintf(b, "U+%04X", rune(to))
		} else {
			b.WriteRune(rune(to))
		}
	case slip.Symbol:
		b.WriteString(strings.ToLower(string(to)))
	case slip.List:
		if len(to) == 0 {
			b.WriteString("nil")
			return
		}
		b.WriteByte('(')
		for i, e := range to {
			if 0 < i {
				b.WriteByte(' ')
			}
			if t, ok := e.(slip.Tail); ok {
				b.WriteString(". ")
				show(b, t.Value, depth+1)
				continue
			}
			show(b, e, depth+1)
		}
		b.WriteByte(')')
	case slip.Tail:
		b.WriteString(". ")
		show(b, to.Value, depth+1)
	case slip.Values:
		b.WriteString("#<values")
		for _, e := range to {
			b.WriteByte(' ')
			show(b, e, depth+1)
		}
		b.WriteByte('>')
	case *slip.Vector:
		b.WriteString("#(")
		for i, e := range to.AsList() {
			if 0 < i {
				b.WriteByte(' ')
			}
			show(b, e, depth+1)
		}
		b.WriteByte(')')
	case *slip.Array:
		fmt.Fprintf(b, "#%dA", to.Rank())
		show(b, to.AsList(), depth+1)
	case slip.Octets:
		b.WriteString("#o(")
		for i, e := range to {
			if 0 < i {
				b.WriteByte(' ')
			}
			b.WriteString(strconv.Itoa(int(e)))
		}
		b.WriteByte(')')
	case *slip.BitVector:
		b.WriteString("#*")
		for i := 0; i < to.Length(); i++ {
			if to.At(uint(i)) {
				b.WriteByte('1')
			} else {
				b.WriteByte('0')
			}
		}
	case slip.Complex:
		fmt.Fprintf(b, "#C(%v %v)", real(complex128(to)), imag(complex128(to)))
	default:
		if obj == slip.True {
			b.WriteByte('t')
			return
		}
		h := obj.Hierarchy()
		if 0 < len(h) {
			b.WriteString("#<" + string(h[0]) + ">")
		} else {
			fmt.Fprintf(b, "#<%T>", obj)
		}
	}
}

func fmtFloat(f float64, bits int) string {
	switch {
	case math.IsNaN(f):
		return "NaN"
	case math.IsInf(f, 1):
		return "+Inf"
	case math.IsInf(f, -1):
		return "-Inf"
	}
	s := strconv.FormatFloat(f, 'g', -1, bits)
	if f == 0 && math.Signbit(f) {
		s = "-0"
	}
	return s
}

// Kind names the representation class of an object.
func Kind(obj slip.Object) string {
	switch to := obj.(type) {
	case nil:
		return "null"
	case slip.Fixnum:
		return "fixnum"
	case *slip.Bignum:
		return "bignum"
	case *slip.Ratio:
		return "ratio"
	case slip.SingleFloat:
		return "single-float"
	case slip.DoubleFloat:
		return "double-float"
	case *slip.LongFloat:
		return "long-float"
	case slip.String:
		return "string"
	case slip.Character:
		return "character"
	case slip.Symbol:
		if strings.HasPrefix(string(to), ":") {
			return "keyword"
		}
		return "symbol"
	case slip.List:
		if len(to) == 0 {
			return "null"
		}
		return "cons"
	case *slip.Vector:
		return "vector"
	case *slip.Array:
		return "array"
	case slip.Values:
		return "values"
	case slip.Octets:
		return "octets"
	case *slip.BitVector:
		return "bit-vector"
	}
	if obj == slip.True {
		return "t"
	}
	if h := obj.Hierarchy(); 0 < len(h) {
		return string(h[0])
	}
	return fmt.Sprintf("%T", obj)
}
