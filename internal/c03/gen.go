package c03

import (
	"fmt"
	"math"
	"math/big"
	"math/rand/v2"
	"os"
	"strconv"
	"strings"
	"sync"
	"unicode"

	"verif/internal/fw"
)

// ---- code point pools ----

type runePool struct {
	class string
	runes []rune
}

var (
	poolByClass = map[string]*runePool{}
	pools       []*runePool // deterministic order
	probeRunes  []rune      // non-ASCII representatives for the deterministic probe block
)

func isScalar(r rune) bool { return 0 <= r && r <= unicode.MaxRune && !(0xd800 <= r && r <= 0xdfff) }

func initPools() {
	if pools != nil {
		return
	}
	// sample the non-ASCII scalar values with a fixed stride, classify, keep up to 48 per class
	add := func(r rune) {
		c := runeClass(r)
		p := poolByClass[c]
		if p == nil {
			p = &runePool{class: c}
			poolByClass[c] = p
			pools = append(pools, p)
		}
		if len(p.runes) < 48 {
			p.runes = append(p.runes, r)
		}
	}
	for r := rune(0x80); r < 0x3000; r++ {
		add(r)
	}
	for r := rune(0x3000); r <= unicode.MaxRune; r += 7 {
		if isScalar(r) {
			add(r)
		}
	}
	for _, r := range []rune{0x2028, 0x2029, 0xfeff, 0xfffd, 0xffff, 0xfffe, 0x10000, 0x10ffff, 0xd7ff, 0xe000, 0x3000, 0x1f600, 0xe0001, 0x200b, 0x00ad, 0x0130, 0x017f, 0x212a} {
		add(r)
	}
	seen := map[rune]bool{}
	for _, p := range pools {
		for _, i := range []int{0, len(p.runes) / 2, len(p.runes) - 1} {
			if r := p.runes[i]; !seen[r] {
				seen[r] = true
				probeRunes = append(probeRunes, r)
			}
		}
	}
	for _, r := range []rune{0x2028, 0x2029, 0xfeff, 0xfffd, 0xffff, 0x10000, 0x10ffff, 0xd7ff, 0xe000, 0x1f600, 0x200b, 0x00ad, 0x0130, 0x017f, 0x212a, 0x00e9, 0x00df, 0x65e5} {
		if !seen[r] {
			seen[r] = true
			probeRunes = append(probeRunes, r)
		}
	}
}

// randRune draws a code point: ASCII of every class, or a non-ASCII class sample, or any scalar value.
func randRune(r *rand.Rand) rune {
	switch r.IntN(10) {
	case 0, 1, 2, 3:
		return rune('a' + r.IntN(26))
	case 4:
		return rune(r.IntN(128))
	case 5:
		return rune(0x20 + r.IntN(0x5f))
	case 6, 7:
		p := pools[r.IntN(len(pools))]
		return p.runes[r.IntN(len(p.runes))]
	case 8:
		return rune(0x80 + r.IntN(0x2f80))
	}
	for {
		c := rune(r.IntN(unicode.MaxRune + 1))
		if isScalar(c) {
			return c
		}
	}
}

// ---- numbers ----

func pow2(k uint) *big.Int { return new(big.Int).Lsh(big.NewInt(1), k) }

var intGrid []string

func initInts() {
	if intGrid != nil {
		return
	}
	seen := map[string]bool{}
	add := func(x *big.Int) {
		for _, v := range []*big.Int{x, new(big.Int).Neg(x)} {
			s := v.String()
			if !seen[s] {
				seen[s] = true
				intGrid = append(intGrid, s)
			}
		}
	}
	add(big.NewInt(0))
	for _, v := range []int64{1, 2, 7, 9, 10, 11, 35, 36, 37, 100, 255, 256, 1295, 1296, 46655, 1000000} {
		add(big.NewInt(v))
	}
	for _, k := range []uint{7, 8, 15, 16, 31, 32, 53, 62, 63, 64, 65, 100, 127, 128, 199, 200} {
		p := pow2(k)
		add(p)
		add(new(big.Int).Add(p, big.NewInt(1)))
		add(new(big.Int).Sub(p, big.NewInt(1)))
	}
	for _, n := range []int64{15, 18, 19, 20, 30, 60} {
		add(new(big.Int).Exp(big.NewInt(10), big.NewInt(n), nil))
	}
	for _, n := range []int64{12, 13, 40} {
		add(new(big.Int).Exp(big.NewInt(36), big.NewInt(n), nil))
	}
}

func randBig(r *rand.Rand, maxBits int) *big.Int {
	bits := 1 + r.IntN(maxBits)
	x := new(big.Int)
	for i := 0; i < bits; i += 32 {
		x.Lsh(x, 32)
		x.Or(x, big.NewInt(int64(r.Uint32())))
	}
	if x.BitLen() > bits {
		x.Rsh(x, uint(x.BitLen()-bits))
	}
	if r.IntN(2) == 0 {
		x.Neg(x)
	}
	return x
}

func randInt(r *rand.Rand) *O {
	switch r.IntN(5) {
	case 0:
		return leaf("int", intGrid[r.IntN(len(intGrid))])
	case 1:
		return leaf("int", strconv.Itoa(r.IntN(2001)-1000))
	case 2:
		x, _ := new(big.Int).SetString(intGrid[r.IntN(len(intGrid))], 10)
		return leaf("int", x.Add(x, big.NewInt(int64(r.IntN(9)-4))).String())
	}
	return leaf("int", randBig(r, 200).String())
}

func randRatio(r *rand.Rand) *O {
	for {
		var n, d *big.Int
		if r.IntN(3) == 0 {
			n, d = big.NewInt(int64(r.IntN(2001)-1000)), big.NewInt(int64(1+r.IntN(1000)))
		} else {
			n, d = randBig(r, 140), randBig(r, 140)
		}
		d.Abs(d)
		if d.Sign() == 0 {
			continue
		}
		q := new(big.Rat).SetFrac(n, d)
		if q.IsInt() {
			continue
		}
		return leaf("ratio", q.RatString())
	}
}

var ratioGrid = []string{"1/2", "-1/2", "1/3", "22/7", "-22/7", "35/36", "1/36", "255/256", "-1295/1296",
	"18446744073709551617/2", "-18446744073709551617/2", "1/18446744073709551616", "-1/18446744073709551616",
	"9223372036854775807/9223372036854775806", "9223372036854775808/9223372036854775807", "-9223372036854775809/2",
	"1/100000000000000000000", "340282366920938463463374607431768211457/340282366920938463463374607431768211456", "10/3", "1/10"}

func f32text(f float32) string { return strconv.FormatFloat(float64(f), 'g', -1, 32) }
func f64text(f float64) string { return strconv.FormatFloat(f, 'g', -1, 64) }

var sfGrid, dfGrid, lfGrid []string

func initFloats() {
	if sfGrid != nil {
		return
	}
	for _, f := range []float32{0, float32(math.Copysign(0, -1)), 1, -1, 1.5, -1.5, 0.1, 0.5, 2, 10, 100, 1e7, 1e10, 1e20, 1e21, 1e22, 1e-4, 1e-5, 1e-7, 123456.7, 16777216,
		math.MaxFloat32, -math.MaxFloat32, math.SmallestNonzeroFloat32, -math.SmallestNonzeroFloat32,
		math.Float32frombits(0x00800000), math.Float32frombits(0x007fffff), math.Float32frombits(0x00000002), 3.1415927, 1e38, 1e-38, 1e-40, 0.33333334, 65536, 1234567, 12345678, 0.000123} {
		sfGrid = append(sfGrid, f32text(f))
	}
	for _, f := range []float64{0, math.Copysign(0, -1), 1, -1, 1.5, -1.5, 0.1, 0.5, 2, 10, 100, 1e7, 1e10, 1e15, 1e16, 1e20, 1e21, 1e22, 1e23, 1e100, 1e-4, 1e-5, 1e-7, 1e-100, 123456.7,
		9007199254740992, 9007199254740994, 123456789012345680, math.MaxFloat64, -math.MaxFloat64, math.SmallestNonzeroFloat64, -math.SmallestNonzeroFloat64,
		math.Float64frombits(0x0010000000000000), math.Float64frombits(0x000fffffffffffff), math.Float64frombits(2), math.Pi, 0.30000000000000004, 1e300, 1e-300, 1e-310,
		0.3333333333333333, 4294967296, 1234567.125, 0.000123, float64(float32(0.1)), 1e308, 5e-324} {
		dfGrid = append(dfGrid, f64text(f))
	}
	mk := func(prec uint, s string) {
		f, _, err := big.ParseFloat(s, 10, prec, big.ToNearestEven)
		if err != nil {
			panic(err)
		}
		lfGrid = append(lfGrid, longText(f))
	}
	for _, prec := range []uint{64, 113, 200, 53, 24} {
		for _, s := range []string{"1.5", "1", "-1", "0.1", "0", "10", "100", "1e10", "1e20", "1e21", "1e22", "1e100", "1e-5", "1e-100", "123456789.123456789", "0.333333333333333333333333333333333333",
			"3.14159265358979323846264338327950288", "1e400", "-1e-400", "18446744073709551616", "18446744073709551617", "0.5", "-0.000123", "1e4000"} {
			mk(prec, s)
		}
	}
	nz := new(big.Float).SetPrec(64)
	nz.Neg(nz)
	lfGrid = append(lfGrid, longText(nz))
}

func randFloat(r *rand.Rand) *O {
	switch r.IntN(9) {
	case 0:
		return leaf("sf", sfGrid[r.IntN(len(sfGrid))])
	case 1:
		return leaf("df", dfGrid[r.IntN(len(dfGrid))])
	case 2:
		return leaf("lf", lfGrid[r.IntN(len(lfGrid))])
	case 3, 4:
		for {
			f := math.Float32frombits(r.Uint32())
			if !math.IsNaN(float64(f)) && !math.IsInf(float64(f), 0) {
				return leaf("sf", f32text(f))
			}
		}
	case 5, 6:
		for {
			f := math.Float64frombits(r.Uint64())
			if !math.IsNaN(f) && !math.IsInf(f, 0) {
				return leaf("df", f64text(f))
			}
		}
	case 7:
		// short decimal values
		f := float64(r.IntN(2000001)-1000000) / math.Pow(10, float64(r.IntN(7)))
		if r.IntN(2) == 0 {
			return leaf("sf", f32text(float32(f)))
		}
		return leaf("df", f64text(f))
	}
	// long float: random mantissa, precision and exponent
	prec := []uint{24, 53, 64, 100, 113, 200, 256}[r.IntN(7)]
	m := new(big.Float).SetPrec(prec).SetInt(randBig(r, int(prec)+r.IntN(20)))
	exp := r.IntN(60) - 30
	if r.IntN(6) == 0 {
		exp = r.IntN(3000) - 1500
	}
	m.SetMantExp(m, exp-int(prec)/2)
	return leaf("lf", longText(m))
}

// ---- text ----

func randPlainName(r *rand.Rand) string {
	for {
		if s := randPlainName1(r); !numericLooking(s) {
			return s
		}
	}
}

func randPlainName1(r *rand.Rand) string {
	n := 1 + r.IntN(8)
	var b strings.Builder
	b.WriteByte(byte('a' + r.IntN(26)))
	for i := 1; i < n; i++ {
		switch r.IntN(8) {
		case 0:
			b.WriteByte(byte('0' + r.IntN(10)))
		case 1:
			punct := cleanNamePunct
			if avoidInit(); !avoidQuestionSym {
				punct += "?"
			}
			b.WriteByte(punct[r.IntN(len(punct))])
		case 2:
			b.WriteByte(byte('A' + r.IntN(26)))
		default:
			b.WriteByte(byte('a' + r.IntN(26)))
		}
	}
	return b.String()
}

func randString(r *rand.Rand) *O {
	n := r.IntN(13)
	if r.IntN(12) == 0 {
		n = 30 + r.IntN(120)
	}
	rs := make([]rune, n)
	for i := range rs {
		rs[i] = randRune(r)
	}
	return leaf("str", string(rs))
}

func randChar(r *rand.Rand) *O {
	return leaf("chr", strconv.Itoa(int(randRune(r))))
}

// randSymbol: any name at all (classified afterwards as clean or dirty).
func randAnyName(r *rand.Rand) string {
	if r.IntN(3) == 0 {
		return randPlainName(r)
	}
	n := r.IntN(7)
	rs := make([]rune, n)
	for i := range rs {
		rs[i] = randRune(r)
	}
	return string(rs)
}

// ---- objects ----

type genOpts struct {
	clean    bool // avoid the constructs listed as known findings
	radix    bool // the object will be printed with *print-radix* t
	escape   bool // the object will be printed with *print-readably* nil
	pretty   bool // the object will be printed with *print-pretty* t
	maxDepth int
	maxWidth int
}

func randLeaf(r *rand.Rand, g genOpts) *O {
	for try := 0; ; try++ {
		var o *O
		switch r.IntN(16) {
		case 0, 1:
			o = randInt(r)
		case 2:
			o = randRatio(r)
		case 3, 4:
			o = randFloat(r)
		case 5, 6:
			o = randString(r)
		case 7:
			o = randChar(r)
		case 8, 9, 10:
			switch {
			case g.clean && !g.pretty && r.IntN(3) == 0:
				// a name that needs |...|: fine in flat printing (under pretty it is a known finding)
				rs := []rune(randPlainName(r))
				for k := 1 + r.IntN(2); 0 < k; k-- {
					at := r.IntN(len(rs) + 1)
					rs = append(rs[:at], append([]rune{rune(flatOnlyNameChars[r.IntN(len(flatOnlyNameChars))])}, rs[at:]...)...)
				}
				o = leaf("sym", string(rs))
			case g.clean:
				o = leaf("sym", randPlainName(r))
			default:
				o = leaf("sym", strings.TrimLeft(randAnyName(r), ":"))
			}
		case 11, 12:
			if g.clean {
				o = leaf("kw", randPlainName(r))
			} else {
				o = leaf("kw", randAnyName(r))
			}
		case 13:
			o = &O{K: "nil"}
		case 14:
			o = &O{K: "t"}
		default:
			o = leaf("int", strconv.Itoa(r.IntN(21)-10))
		}
		if o.K == "sym" && (strings.EqualFold(o.V, "t") || strings.EqualFold(o.V, "nil")) {
			continue // these names denote the objects t and nil, not symbols of their own
		}
		if !g.clean || dirtyLeaf(o, g) == "" {
			return o
		}
		if 40 < try {
			return leaf("int", "1")
		}
		if o.K == "str" && try%2 == 1 {
			// keep the string, drop the code points on the avoid list
			var keep []rune
			for _, q := range o.V {
				if !dirtyStringRune(q, g) {
					keep = append(keep, q)
				}
			}
			return leaf("str", string(keep))
		}
	}
}

func randObj(r *rand.Rand, g genOpts, depth int) *O {
	avoidInit()
	if g.maxDepth <= depth || (0 < depth && r.IntN(5) < 2+depth/2) {
		return randLeaf(r, g)
	}
	switch k := r.IntN(10); {
	case k < 5: // list
		n := 1 + r.IntN(g.maxWidth)
		o := &O{K: "list"}
		for i := 0; i < n; i++ {
			o.E = append(o.E, randObj(r, g, depth+1))
		}
		if r.IntN(5) == 0 {
			t := randLeaf(r, g)
			if r.IntN(6) == 0 {
				t = &O{K: "vec", E: []*O{randLeaf(r, g)}}
			}
			if t.K != "nil" {
				o.T = t
			}
		}
		return o
	case k < 8: // vector
		n := r.IntN(g.maxWidth + 1)
		o := &O{K: "vec", E: []*O{}}
		for i := 0; i < n; i++ {
			o.E = append(o.E, randObj(r, g, depth+1))
		}
		return o
	default: // array of rank 0, 2 or 3
		rank := []int{2, 2, 3, 0}[r.IntN(4)]
		if g.clean && rank == 0 {
			rank = 2
		}
		if g.clean && g.radix && avoidArrayRadix {
			// #nA is printed with the rank in *print-base* (known finding): vector instead
			n := 1 + r.IntN(g.maxWidth)
			o := &O{K: "vec", E: []*O{}}
			for i := 0; i < n; i++ {
				o.E = append(o.E, randObj(r, g, depth+1))
			}
			return o
		}
		o := &O{K: "arr", D: []int{}, E: []*O{}}
		total := 1
		for i := 0; i < rank; i++ {
			d := 1 + r.IntN(3)
			if !g.clean && r.IntN(12) == 0 {
				d = 0
			}
			o.D = append(o.D, d)
			total *= d
		}
		for i := 0; i < total; i++ {
			o.E = append(o.E, randObj(r, g, depth+2))
		}
		return o
	}
}

// ---- avoid set (constructs listed as open findings; see findings/C03.json) ----

const cleanNamePunct = "-*+<>=_$%^~."

// flatOnlyNameChars make a symbol name need |...|; such symbols round-trip
// when printed flat and are a known finding only under *print-pretty* t.
const flatOnlyNameChars = " \t\n\r\"'(),;`#!&/[]{}\x7f"

// Three entries of the avoid set follow known_findings.json: once the finding
// is no longer open the construct is generated in the clean stream as well.
var (
	avoidOnce        sync.Once
	avoidRatioRadix  bool
	avoidArrayRadix  bool
	avoidQuestionSym bool
)

func avoidInit() {
	avoidOnce.Do(func() {
		// Default: avoid. The entries are lifted only when the findings file was
		// read and parsed, lists findings of this check, and none of the open
		// ones matches (a file caught in the middle of being rewritten must not
		// change the case list).
		avoidRatioRadix, avoidArrayRadix, avoidQuestionSym = true, true, true
		root := os.Getenv("VERIF_ROOT")
		if root == "" {
			root = "."
		}
		fs := fw.LoadFindings(root+"/known_findings.json", "C03")
		if len(fs) == 0 {
			return
		}
		avoidRatioRadix = fw.MatchFinding(fs, "obj=ratio cfg=radix ctx=top mode=any class=small fail=read-error:parse-error") != nil
		avoidArrayRadix = fw.MatchFinding(fs, "obj=struct cfg=radix ctx=as-is mode=any class=#2A(fixnum) fail=read-error:parse-error") != nil
		avoidQuestionSym = fw.MatchFinding(fs, "obj=sym cfg=any ctx=top mode=any class=constituent:U+003F fail=read-error:parse-error") != nil
	})
}

// dirtyLeaf names the known finding a leaf would run into under the kind of
// configuration g describes ("" when clean). The clean stream never generates
// such leaves; the dirty stream generates everything.
func dirtyLeaf(o *O, g genOpts) string {
	avoidInit()
	switch o.K {
	case "sym", "kw":
		if o.V == "" {
			if o.K == "sym" && !g.pretty {
				return ""
			}
			return o.K + "-empty"
		}
		if o.K == "sym" && numericLooking(o.V) {
			return "sym-numeric-looking"
		}
		for _, r := range o.V {
			switch {
			case 'a' <= r && r <= 'z', 'A' <= r && r <= 'Z', '0' <= r && r <= '9':
			case r < 0x80 && strings.ContainsRune(cleanNamePunct, r):
			case r == '?' && !avoidQuestionSym:
			case o.K == "sym" && !g.pretty && r < 0x80 && strings.ContainsRune(flatOnlyNameChars, r):
			default:
				return o.K + "-special-char"
			}
		}
	case "chr":
		n, _ := strconv.Atoi(o.V)
		if dirtyChar(rune(n)) {
			return "chr-unreadable"
		}
	case "str":
		for _, r := range o.V {
			if dirtyStringRune(r, g) {
				return "str-raw-in-escape-mode"
			}
		}
	case "ratio":
		if g.radix && avoidRatioRadix {
			return "ratio-with-radix"
		}
	case "sf":
		if g.escape {
			return "float-in-escape-mode"
		}
	case "df":
		if g.escape && o.leafClass() != "fraction" {
			return "float-in-escape-mode"
		}
	case "lf":
		if g.escape {
			return "float-in-escape-mode"
		}
		if !cleanLong(parseLong(o.V)) {
			return "long-float-precision"
		}
	}
	return ""
}

// dirtyChar: characters the reader does not accept after #\ (known finding).
func dirtyChar(r rune) bool {
	return r == 0 || (r < 0x80 && strings.ContainsRune("!\"$%&'();?[\\]`{}", r))
}

// dirtyStringRune: with *print-readably* nil strings are written raw (known finding).
func dirtyStringRune(r rune, g genOpts) bool {
	if !g.escape {
		return false
	}
	return r == '"' || r == '\\' || (r < 0x20 && r != '\t' && r != '\n' && r != '\r')
}

// cleanLong tells whether a long float survives the known finding that the
// reader derives the precision of a long float from the number of digits
// written: the shortest decimal text must denote the value exactly and the
// value must fit the precision the reader will pick (3.32 bits per mantissa
// character).
func cleanLong(f *big.Float) bool {
	if f.Sign() == 0 {
		return !f.Signbit()
	}
	text := f.Text('e', -1)
	mant := text[:strings.IndexByte(text, 'e')]
	q, ok := new(big.Rat).SetString(text)
	if !ok {
		return false
	}
	exact, _ := f.Rat(nil)
	if q.Cmp(exact) != 0 {
		return false
	}
	cnt := len(mant)
	if mant[0] == '-' {
		cnt--
	}
	prec := uint(3.3 * float64(cnt))
	if prec < 1 {
		return false
	}
	g := new(big.Float).SetPrec(prec).SetMode(big.ToNearestAway)
	g.SetRat(exact)
	return g.Cmp(f) == 0
}

// ---- deterministic probe catalogue ----

type probe struct {
	o   *O
	ctx []int // contexts to run in
}

var (
	catalogue []probe
	allCtx    = []int{0, 1, 2, 3, 4, 5, 6, 7, 8, 9}
	fewCtx    = []int{0, 2}
)

const nCtx = 10

// placements put a leaf at the first, a middle and the last position of
// lists, dotted lists, vectors and arrays of rank 2 and 3 (contexts 100+).
var placements = []struct {
	kind   string
	dims   []int
	n      int
	pos    int // -1: the dotted tail
	dotted bool
}{
	{"list", nil, 3, 0, false}, {"list", nil, 3, 1, false}, {"list", nil, 3, 2, false},
	{"list", nil, 2, 0, true}, {"list", nil, 2, 1, true}, {"list", nil, 2, -1, true}, {"list", nil, 3, 1, true},
	{"vec", nil, 3, 0, false}, {"vec", nil, 3, 1, false}, {"vec", nil, 3, 2, false},
	{"arr", []int{2, 3}, 6, 0, false}, {"arr", []int{2, 3}, 6, 4, false}, {"arr", []int{2, 3}, 6, 5, false},
	{"arr", []int{2, 2, 3}, 12, 0, false}, {"arr", []int{2, 2, 3}, 12, 10, false}, {"arr", []int{2, 2, 3}, 12, 11, false},
}

func inPlacement(l *O, p int) *O {
	pl := placements[p]
	fill := []*O{leaf("sym", "p"), leaf("int", "2"), leaf("str", "s"), leaf("sym", "q"), leaf("int", "3"), leaf("kw", "k")}
	o := &O{K: pl.kind, E: []*O{}}
	if pl.dims != nil {
		o.D = append([]int{}, pl.dims...)
	}
	for i := 0; i < pl.n; i++ {
		if i == pl.pos {
			o.E = append(o.E, l.clone())
		} else {
			o.E = append(o.E, fill[i%len(fill)].clone())
		}
	}
	if pl.dotted {
		o.T = leaf("sym", "z")
		if pl.pos == -1 && l.K != "nil" {
			o.T = l.clone()
		}
	}
	return o
}

// inContext wraps a leaf in one of the fixed container contexts.
func inContext(l *O, ctx int) *O {
	if 100 <= ctx {
		return inPlacement(l, ctx-100)
	}
	a := func() *O { return leaf("sym", "a") }
	one := func() *O { return leaf("int", "1") }
	switch ctx {
	case 0:
		return l.clone()
	case 1:
		return &O{K: "list", E: []*O{l.clone()}}
	case 2:
		return &O{K: "list", E: []*O{a(), l.clone(), leaf("str", "s"), leaf("int", "2")}}
	case 3:
		if l.K == "nil" {
			return &O{K: "list", E: []*O{one(), l.clone()}}
		}
		return &O{K: "list", E: []*O{one()}, T: l.clone()}
	case 4:
		return &O{K: "vec", E: []*O{l.clone()}}
	case 5:
		return &O{K: "vec", E: []*O{one(), l.clone(), a()}}
	case 6:
		return &O{K: "arr", D: []int{2, 2}, E: []*O{l.clone(), one(), leaf("int", "2"), l.clone()}}
	case 7:
		return &O{K: "list", E: []*O{{K: "list", E: []*O{l.clone(), a()}}, {K: "vec", E: []*O{a(), l.clone()}}}}
	case 8:
		// a long flat list: line breaks at every margin
		o := &O{K: "list"}
		for i := 0; i < 14; i++ {
			if i%3 == 1 {
				o.E = append(o.E, l.clone())
			} else {
				o.E = append(o.E, leaf("sym", fmt.Sprintf("elem-%d", i)))
			}
		}
		return o
	case 9:
		// escaped strings before the leaf: the reader's escape buffer must not leak into the next token
		return &O{K: "list", E: []*O{leaf("str", "line1\nline2"), l.clone(), leaf("str", "q\"uote\\"), l.clone(), a()}}
	}
	panic("ctx")
}

func initCatalogue() {
	if catalogue != nil {
		return
	}
	initPools()
	initInts()
	initFloats()
	add := func(ctx []int, os ...*O) {
		for _, o := range os {
			catalogue = append(catalogue, probe{o, ctx})
		}
	}
	add(allCtx, &O{K: "nil"}, &O{K: "t"})
	for _, v := range intGrid {
		ctx := fewCtx
		if len(v) < 4 || strings.HasPrefix(v, "18446744073709551616") || strings.HasPrefix(v, "-9223372036854775808") {
			ctx = allCtx
		}
		add(ctx, leaf("int", v))
	}
	for i, v := range ratioGrid {
		ctx := fewCtx
		if i < 3 || i == 9 {
			ctx = allCtx
		}
		add(ctx, leaf("ratio", v))
	}
	for i, v := range sfGrid {
		ctx := fewCtx
		if i < 5 {
			ctx = allCtx
		}
		add(ctx, leaf("sf", v))
	}
	for i, v := range dfGrid {
		ctx := fewCtx
		if i < 5 {
			ctx = allCtx
		}
		add(ctx, leaf("df", v))
	}
	for i, v := range lfGrid {
		ctx := fewCtx
		if i < 5 {
			ctx = allCtx
		}
		add(ctx, leaf("lf", v))
	}
	// characters: every ASCII code point, then representatives of every non-ASCII class
	for c := rune(0); c < 128; c++ {
		ctx := fewCtx
		if c == 0 || c == ' ' || c == 'a' || c == 'A' || c == '(' || c == '"' || c == '\n' || c == '|' {
			ctx = allCtx
		}
		add(ctx, leaf("chr", strconv.Itoa(int(c))))
	}
	for _, c := range probeRunes {
		add(fewCtx, leaf("chr", strconv.Itoa(int(c))))
	}
	// strings
	add(allCtx, leaf("str", ""), leaf("str", "s"), leaf("str", "two words"), leaf("str", `say "hi"`), leaf("str", `back\slash`), leaf("str", "line1\nline2"))
	add(fewCtx, leaf("str", "tab\there"), leaf("str", " lead"), leaf("str", "trail "), leaf("str", "(paren)"), leaf("str", ";semi"), leaf("str", "#|x|#"),
		leaf("str", "|pipe|"), leaf("str", "'q`b,c"), leaf("str", `A`), leaf("str", `\`), leaf("str", `"`), leaf("str", `\"`), leaf("str", `a\`), leaf("str", `\\`),
		leaf("str", "日本語"), leaf("str", "😀"), leaf("str", "MiXed Case"), leaf("str", strings.Repeat("long string ", 20)), leaf("str", "\r\n"), leaf("str", "\x00"))
	for c := rune(0); c < 128; c++ {
		add(fewCtx, leaf("str", "a"+string(c)+"b"))
		if !('b' <= c && c <= 'z') && !('B' <= c && c <= 'Z') && !('1' <= c && c <= '9') {
			add([]int{0}, leaf("str", string(c)))
		}
	}
	for _, c := range probeRunes {
		add(fewCtx, leaf("str", "a"+string(c)+"b"))
	}
	// symbols
	add(allCtx, leaf("sym", "a"), leaf("sym", "foo-bar"), leaf("sym", "Foo"), leaf("sym", "FOO"), leaf("sym", "fooBar"), leaf("sym", "foo bar"), leaf("sym", "Foo Bar"), leaf("sym", ""),
		leaf("sym", "a(b"), leaf("sym", "1"), leaf("sym", "a?"), leaf("sym", "a|b"), leaf("sym", "é"))
	for c := rune(0); c < 128; c++ {
		if ('b' <= c && c <= 'z') || ('B' <= c && c <= 'Z') || ('1' <= c && c <= '9') {
			continue
		}
		s := string(c)
		add(fewCtx, leaf("sym", "a"+s+"b"))
		if c == ':' {
			add([]int{2}, leaf("sym", "a"+s))
			continue // a leading colon makes a keyword
		}
		add([]int{2}, leaf("sym", s), leaf("sym", s+"a"), leaf("sym", "a"+s))
	}
	for _, c := range probeRunes {
		add([]int{2}, leaf("sym", "a"+string(c)+"b"), leaf("kw", "a"+string(c)+"b"))
	}
	for _, s := range []string{"1", "-1", "+1", "1.", "1.5", "1e5", "1d0", "1/2", "1f0", "1l0", "1s0", "-1.5e-3", ".", "..", "...",
		"@2024-01-01", "@2024-01-01T10:00:00Z", "@x", "+", "-", "1+", "1-", "-a", "+a", "a.b", ".a", "a.", "1a", "a1", "12ab", "e1", "ff", "zz", "1e", "1/", "/2", "1/0", "0x10",
		"quote", "function", "lambda", "a:b", "a::b", "cl:car", "#a", "a#", "a'b", "&rest", "*print-base*", "1_000", "١", "1.e5", "+.5", ".5", "-.5e1"} {
		add(fewCtx, leaf("sym", s))
	}
	// keywords
	for _, s := range []string{"k", "key-word", "K", "Key", "a1", "1", "a b", "a(b", "", "a:b", ":a", "a?", "a|b", "é", "a.b", "+", "nil", "t", "a\"b", "a;b", "a'b", "a\\b", "A B", "1.5", "a#b", "#a"} {
		ctx := fewCtx
		if len(s) < 2 || s == "a b" || s == "Key" {
			ctx = allCtx
		}
		add(ctx, leaf("kw", s))
	}
	// containers as such (context 0 = as is; 1, 2, 7 = nested)
	cc := []int{0, 1, 2, 4, 6, 7}
	e := func(k string, es ...*O) *O { return &O{K: k, E: append([]*O{}, es...)} }
	s := func(n string) *O { return leaf("sym", n) }
	i := func(n int) *O { return leaf("int", strconv.Itoa(n)) }
	add(cc,
		e("vec"),
		e("vec", i(1)),
		e("vec", e("vec"), e("vec", e("vec"))),
		e("vec", &O{K: "nil"}, &O{K: "nil"}),
		e("list", &O{K: "nil"}),
		e("list", &O{K: "nil"}, &O{K: "nil"}),
		e("list", e("list", e("list", e("list", s("deep"))))),
		&O{K: "list", E: []*O{s("a")}, T: s("b")},
		&O{K: "list", E: []*O{s("a"), s("b")}, T: s("c")},
		&O{K: "list", E: []*O{s("a")}, T: leaf("str", "s")},
		&O{K: "list", E: []*O{s("a")}, T: i(1)},
		&O{K: "list", E: []*O{s("a")}, T: e("vec", i(1))},
		&O{K: "list", E: []*O{e("list", s("a")), e("list", s("b"))}, T: s("c")},
		&O{K: "list", E: []*O{{K: "list", E: []*O{s("a")}, T: s("b")}, {K: "list", E: []*O{s("c")}, T: s("d")}}},
		&O{K: "arr", D: []int{}, E: []*O{i(7)}},
		&O{K: "arr", D: []int{}, E: []*O{{K: "nil"}}},
		&O{K: "arr", D: []int{}, E: []*O{e("list", i(1), i(2))}},
		&O{K: "arr", D: []int{1, 1}, E: []*O{i(1)}},
		&O{K: "arr", D: []int{2, 3}, E: []*O{i(1), i(2), i(3), i(4), i(5), i(6)}},
		&O{K: "arr", D: []int{3, 2}, E: []*O{i(1), i(2), i(3), i(4), i(5), i(6)}},
		&O{K: "arr", D: []int{2, 1, 2}, E: []*O{i(1), i(2), i(3), i(4)}},
		&O{K: "arr", D: []int{1, 2, 3}, E: []*O{i(1), i(2), i(3), i(4), i(5), i(6)}},
		&O{K: "arr", D: []int{2, 2}, E: []*O{e("list", i(1)), e("list", i(2), i(3)), s("x"), e("vec", i(4))}},
		&O{K: "arr", D: []int{2, 2}, E: []*O{{K: "nil"}, i(1), i(2), i(3)}},
		&O{K: "arr", D: []int{2, 2}, E: []*O{i(1), {K: "nil"}, i(2), i(3)}},
		&O{K: "arr", D: []int{2, 2}, E: []*O{{K: "nil"}, {K: "nil"}, {K: "nil"}, {K: "nil"}}},
		&O{K: "arr", D: []int{2, 2, 2}, E: []*O{{K: "nil"}, {K: "nil"}, {K: "nil"}, {K: "nil"}, {K: "nil"}, {K: "nil"}, {K: "nil"}, {K: "nil"}}},
		&O{K: "arr", D: []int{2, 2}, E: []*O{e("list", i(1), i(2)), e("list", i(1), i(2)), e("list", i(1), i(2)), e("list", i(1), i(2))}},
		&O{K: "arr", D: []int{0, 0}, E: []*O{}},
		&O{K: "arr", D: []int{2, 0}, E: []*O{}},
		&O{K: "arr", D: []int{0, 2}, E: []*O{}},
		&O{K: "arr", D: []int{1, 0, 2}, E: []*O{}},
		&O{K: "arr", D: []int{2, 2}, E: []*O{{K: "arr", D: []int{1, 1}, E: []*O{i(1)}}, i(2), i(3), e("vec")}},
		e("list", s("a"), s("."), s("b")),
		e("list", s("a"), s("b"), s("."), s("c")),
		e("vec", s("a"), s("."), s("b")),
		e("list", s("quote"), s("a")),
		e("list", s("function"), s("car")),
		e("list", s("lambda"), e("list", s("x")), s("x")),
		e("list", s("defun"), s("f"), e("list", s("x")), leaf("str", "doc"), e("list", s("+"), s("x"), i(1))),
		e("list", s("let"), e("list", e("list", s("x"), i(1))), s("x")),
	)
	// every leaf with a listed finding at the first, a middle and the last position of every kind of container,
	// so that failures that depend on where the leaf sits show on every seed
	var placeCtx []int
	for k := range placements {
		placeCtx = append(placeCtx, 100+k)
	}
	for _, n := range []string{".", "..", "...", "1", "-1", "1.5", "1/2", "1e5", "1d0", "+1", "@2024-01-01", "", "foo bar", "a(b", "a)b", "a;b", "a'b", "a`b", "a,b", "a\"b", "a#b",
		"a|b", "a\\b", "a?b", "a!b", "a&b", "a/b", "a[b", "a{b", "a\tb", "a\nb", "a\x01b", "a\x7fb", "\u00e9", "(", ")", "'", ";", "quote"} {
		add(placeCtx, leaf("sym", n))
	}
	for _, n := range []string{"", "a b", "a(b", "a?b", "a|b", "\u00e9", "1"} {
		add(placeCtx, leaf("kw", n))
	}
	add(placeCtx, leaf("chr", "0"), leaf("chr", "40"), leaf("chr", "41"), leaf("chr", "59"), leaf("chr", "34"), leaf("chr", "92"),
		leaf("str", "q\"uote"), leaf("str", "back\\slash"), leaf("str", "ctl\x01"), leaf("ratio", "1/2"), leaf("ratio", "-18446744073709551617/2"),
		leaf("sf", "1.5"), leaf("sf", "1"), leaf("df", "1"), leaf("df", "1.5"), leaf("lf", lfGrid[3]), leaf("lf", lfGrid[1]),
		&O{K: "nil"}, &O{K: "t"}, &O{K: "arr", D: []int{}, E: []*O{leaf("int", "7")}}, &O{K: "arr", D: []int{2, 0}, E: []*O{}}, &O{K: "vec", E: []*O{}})

	// wide and deep structures for the layout tree
	wide := &O{K: "list"}
	for k := 0; k < 6; k++ {
		row := &O{K: "list"}
		for j := 0; j < 6; j++ {
			row.E = append(row.E, leaf("sym", fmt.Sprintf("item-%d-%d", k, j)))
		}
		wide.E = append(wide.E, row)
	}
	add([]int{0, 1, 4}, wide)
	deep := leaf("sym", "bottom")
	for k := 0; k < 4; k++ {
		deep = &O{K: "list", E: []*O{leaf("sym", fmt.Sprintf("level-%d", k)), deep, leaf("str", "after")}}
	}
	add([]int{0, 1, 4}, deep)
}

// probeCfgs is the fixed configuration sub-grid every probe runs under.
func probeCfgs(l *O) []Cfg {
	type br struct {
		b int
		r bool
	}
	bases := []br{{10, false}, {16, true}}
	cases := []string{"downcase"}
	isNum := false
	var walk func(o *O)
	walk = func(o *O) {
		switch o.K {
		case "int", "ratio":
			isNum = true
		case "sym", "kw", "nil", "t":
			cases = []string{"downcase", "upcase", "capitalize"}
		}
		for _, e := range o.E {
			walk(e)
		}
		if o.T != nil {
			walk(o.T)
		}
	}
	walk(l)
	if isNum {
		bases = []br{{10, false}, {10, true}, {2, true}, {3, true}, {8, true}, {16, true}, {36, true}, {7, true}, {11, true}}
	}
	var out []Cfg
	for _, mode := range []string{"readably", "escape"} {
		for _, pm := range []int{-1, 120, 20, 1} {
			for _, cs := range cases {
				for _, b := range bases {
					c := defaultCfg()
					c.Mode, c.Case, c.Base, c.Radix = mode, cs, b.b, b.r
					if 0 <= pm {
						c.Pretty, c.Margin = true, pm
					}
					out = append(out, c)
				}
			}
		}
	}
	return out
}
