// Package c03 monitors the print -> read round trip of readable data under the
// printer control variables that are documented to keep output readable.
package c03

import (
	"fmt"
	"math"
	"math/big"
	"strconv"
	"strings"
	"unicode"

	"github.com/ohler55/slip"
)

// O is the harness-side description of a readable object. Objects are built
// from it as Go values, so the reader is not involved on the way in.
type O struct {
	// K: nil t int ratio sf df lf str chr sym kw list vec arr
	K string `json:"k"`
	// V: int decimal text; ratio "n/d"; sf/df shortest decimal text of the
	// exact value; lf "prec:mantissa-exponent" (big.Float 'p' text); str the
	// text; chr the code point in decimal; sym/kw the name (kw without colon).
	V string `json:"v,omitempty"`
	E []*O   `json:"e,omitempty"` // elements (row-major for arr)
	T *O     `json:"t,omitempty"` // dotted tail of a list
	D []int  `json:"d,omitempty"` // dimensions of arr
}

func leaf(k, v string) *O { return &O{K: k, V: v} }

func (o *O) composite() bool { return o.K == "list" || o.K == "vec" || o.K == "arr" }

// clone makes a deep copy.
func (o *O) clone() *O {
	if o == nil {
		return nil
	}
	c := &O{K: o.K, V: o.V, T: o.T.clone()}
	if o.D != nil {
		c.D = append([]int{}, o.D...)
	}
	for _, e := range o.E {
		c.E = append(c.E, e.clone())
	}
	return c
}

// key is a compact structural rendering used for distinctness and for memoising.
func (o *O) key() string {
	var b strings.Builder
	o.keyTo(&b)
	return b.String()
}

func (o *O) keyTo(b *strings.Builder) {
	b.WriteString(o.K)
	if o.V != "" || o.K == "str" || o.K == "sym" {
		b.WriteString(strconv.Quote(o.V))
	}
	if o.D != nil {
		fmt.Fprint(b, o.D)
	}
	if o.E != nil || o.composite() {
		b.WriteByte('[')
		for _, e := range o.E {
			e.keyTo(b)
			b.WriteByte(' ')
		}
		b.WriteByte(']')
	}
	if o.T != nil {
		b.WriteByte('.')
		o.T.keyTo(b)
	}
}

// size is the number of nodes.
func (o *O) size() int {
	n := 1
	for _, e := range o.E {
		n += e.size()
	}
	if o.T != nil {
		n += o.T.size()
	}
	return n
}

func (o *O) depth() int {
	d := 0
	for _, e := range o.E {
		if x := e.depth(); d < x {
			d = x
		}
	}
	if o.T != nil {
		if x := o.T.depth(); d < x {
			d = x
		}
	}
	return d + 1
}

func parseLong(v string) *big.Float {
	i := strings.IndexByte(v, ':')
	prec, _ := strconv.Atoi(v[:i])
	f, _, err := big.ParseFloat(v[i+1:], 0, uint(prec), big.ToNearestEven)
	if err != nil {
		panic("bad long float " + v)
	}
	return f
}

func longText(f *big.Float) string {
	return fmt.Sprintf("%d:%s", f.Prec(), f.Text('p', 0))
}

// build makes the slip object. Every call makes fresh containers.
func (o *O) build() slip.Object {
	switch o.K {
	case "nil":
		return nil
	case "t":
		return slip.True
	case "int":
		bi, ok := new(big.Int).SetString(o.V, 10)
		if !ok {
			panic("bad int " + o.V)
		}
		if bi.IsInt64() {
			return slip.Fixnum(bi.Int64())
		}
		return (*slip.Bignum)(bi)
	case "ratio":
		q, ok := new(big.Rat).SetString(o.V)
		if !ok || q.IsInt() {
			panic("bad ratio " + o.V)
		}
		return (*slip.Ratio)(q)
	case "sf":
		f, err := strconv.ParseFloat(o.V, 32)
		if err != nil {
			panic("bad sf " + o.V)
		}
		return slip.SingleFloat(float32(f))
	case "df":
		f, err := strconv.ParseFloat(o.V, 64)
		if err != nil {
			panic("bad df " + o.V)
		}
		return slip.DoubleFloat(f)
	case "lf":
		return (*slip.LongFloat)(parseLong(o.V))
	case "str":
		return slip.String(o.V)
	case "chr":
		n, _ := strconv.Atoi(o.V)
		return slip.Character(rune(n))
	case "sym":
		return slip.Symbol(o.V)
	case "kw":
		return slip.Symbol(":" + o.V)
	case "list":
		if len(o.E) == 0 {
			return nil
		}
		l := make(slip.List, 0, len(o.E)+1)
		for _, e := range o.E {
			l = append(l, e.build())
		}
		if o.T != nil {
			l = append(l, slip.Tail{Value: o.T.build()})
		}
		return l
	case "vec":
		l := make(slip.List, 0, len(o.E))
		for _, e := range o.E {
			l = append(l, e.build())
		}
		return slip.NewVector(len(l), slip.TrueSymbol, nil, l, true)
	case "arr":
		a := slip.NewArray(append([]int{}, o.D...), slip.TrueSymbol, nil, nil, true)
		for i, e := range o.E {
			a.MajorSet(i, e.build())
		}
		return a
	}
	panic("bad kind " + o.K)
}

// kindOf names the representation class of a slip object in the harness's
// own terms (type switch; no call into slip's type machinery).
func kindOf(obj slip.Object) string {
	switch to := obj.(type) {
	case nil:
		return "nil"
	case slip.Fixnum:
		return "fixnum"
	case *slip.Bignum:
		return "bignum"
	case *slip.Ratio:
		return "ratio"
	case slip.SingleFloat:
		return "single-float"
	case slip.DoubleFloat:
		return "double-float"
	case *slip.LongFloat:
		return "long-float"
	case slip.String:
		return "string"
	case slip.Character:
		return "character"
	case slip.Symbol:
		if strings.HasPrefix(string(to), ":") {
			return "keyword"
		}
		return "symbol"
	case slip.List:
		if len(to) == 0 {
			return "nil"
		}
		return "list"
	case slip.Tail:
		return "tail"
	case *slip.Vector:
		return "vector"
	case *slip.Array:
		return "array"
	}
	if obj == slip.True {
		return "t"
	}
	return fmt.Sprintf("other<%T>", obj)
}

// diff is the first difference found between the original and the object
// read back.
type diff struct {
	what string // type | value | length | dims | tail
	path string // where: e.g. /2/0
	a, b string // kinds (for type) or renderings
}

func (d *diff) String() string {
	return fmt.Sprintf("%s differs at %s: original %s, read back %s", d.what, orRoot(d.path), d.a, d.b)
}

func orRoot(p string) string {
	if p == "" {
		return "<top>"
	}
	return p
}

// same is the harness's own equality: same type (float format and integer
// representation class included) and same value. Symbols compare without
// regard to case because slip's symbols are case-insensitive; everything
// else is exact (floats by bits, long floats by exact value).
func same(a, b slip.Object, path string) *diff {
	ka, kb := kindOf(a), kindOf(b)
	if ka != kb {
		return &diff{what: "type", path: path, a: ka, b: kb}
	}
	val := func(eq bool) *diff {
		if eq {
			return nil
		}
		return &diff{what: "value", path: path, a: ka + " " + show(a), b: kb + " " + show(b)}
	}
	switch ta := a.(type) {
	case nil:
		return nil
	case slip.Fixnum:
		return val(ta == b.(slip.Fixnum))
	case *slip.Bignum:
		x, y := (*big.Int)(ta), (*big.Int)(b.(*slip.Bignum))
		if y.IsInt64() {
			return &diff{what: "type", path: path, a: "bignum", b: "bignum(non-canonical)"}
		}
		return val(x.Cmp(y) == 0)
	case *slip.Ratio:
		x, y := (*big.Rat)(ta), (*big.Rat)(b.(*slip.Ratio))
		if y.IsInt() {
			return &diff{what: "type", path: path, a: "ratio", b: "ratio(non-canonical)"}
		}
		return val(x.Cmp(y) == 0)
	case slip.SingleFloat:
		return val(math.Float32bits(float32(ta)) == math.Float32bits(float32(b.(slip.SingleFloat))))
	case slip.DoubleFloat:
		return val(math.Float64bits(float64(ta)) == math.Float64bits(float64(b.(slip.DoubleFloat))))
	case *slip.LongFloat:
		x, y := (*big.Float)(ta), (*big.Float)(b.(*slip.LongFloat))
		return val(x.Cmp(y) == 0 && x.Signbit() == y.Signbit())
	case slip.String:
		return val(ta == b.(slip.String))
	case slip.Character:
		return val(ta == b.(slip.Character))
	case slip.Symbol:
		return val(strings.EqualFold(string(ta), string(b.(slip.Symbol))))
	case slip.List:
		return sameSeq(ta, b.(slip.List), path)
	case slip.Tail:
		return same(ta.Value, b.(slip.Tail).Value, path+"/tail")
	case *slip.Vector:
		return sameSeq(ta.AsList(), b.(*slip.Vector).AsList(), path)
	case *slip.Array:
		tb := b.(*slip.Array)
		da, db := ta.Dimensions(), tb.Dimensions()
		if fmt.Sprint(da) != fmt.Sprint(db) {
			return &diff{what: "dims", path: path, a: fmt.Sprint(da), b: fmt.Sprint(db)}
		}
		n := 1
		for _, d := range da {
			n *= d
		}
		for i := 0; i < n; i++ {
			if d := same(ta.MajorGet(i), tb.MajorGet(i), fmt.Sprintf("%s/%d", path, i)); d != nil {
				return d
			}
		}
		return nil
	}
	if a == slip.True {
		return nil
	}
	return &diff{what: "type", path: path, a: ka, b: kb}
}

func sameSeq(a, b slip.List, path string) *diff {
	if len(a) != len(b) {
		return &diff{what: "length", path: path, a: fmt.Sprintf("%d elements %s", len(a), trunc(show(a), 120)),
			b: fmt.Sprintf("%d elements %s", len(b), trunc(show(b), 120))}
	}
	for i := range a {
		if d := same(a[i], b[i], fmt.Sprintf("%s/%d", path, i)); d != nil {
			return d
		}
	}
	return nil
}

func trunc(s string, n int) string {
	if len(s) <= n {
		return s
	}
	return s[:n] + "..."
}

// show renders an object with the harness's own renderer (exact, unambiguous;
// not slip syntax).
func show(obj slip.Object) string {
	var b strings.Builder
	showTo(&b, obj)
	return b.String()
}

func showTo(b *strings.Builder, obj slip.Object) {
	switch to := obj.(type) {
	case nil:
		b.WriteString("nil")
	case slip.Fixnum:
		b.WriteString(strconv.FormatInt(int64(to), 10))
	case *slip.Bignum:
		b.WriteString((*big.Int)(to).String())
	case *slip.Ratio:
		b.WriteString((*big.Rat)(to).Num().String() + "/" + (*big.Rat)(to).Denom().String())
	case slip.SingleFloat:
		fmt.Fprintf(b, "%sf[%08x]", strconv.FormatFloat(float64(to), 'g', -1, 32), math.Float32bits(float32(to)))
	case slip.DoubleFloat:
		fmt.Fprintf(b, "%sd[%016x]", strconv.FormatFloat(float64(to), 'g', -1, 64), math.Float64bits(float64(to)))
	case *slip.LongFloat:
		fmt.Fprintf(b, "%sL[prec %d]", (*big.Float)(to).Text('g', -1), (*big.Float)(to).Prec())
	case slip.String:
		b.WriteString(strconv.QuoteToASCII(string(to)))
	case slip.Character:
		fmt.Fprintf(b, "#\\U+%04X", rune(to))
	case slip.Symbol:
		b.WriteString("sym" + strconv.QuoteToASCII(string(to)))
	case slip.List:
		b.WriteByte('(')
		for i, e := range to {
			if 0 < i {
				b.WriteByte(' ')
			}
			showTo(b, e)
		}
		b.WriteByte(')')
	case slip.Tail:
		b.WriteString(". ")
		showTo(b, to.Value)
	case *slip.Vector:
		b.WriteString("#vec(")
		for i, e := range to.AsList() {
			if 0 < i {
				b.WriteByte(' ')
			}
			showTo(b, e)
		}
		b.WriteByte(')')
	case *slip.Array:
		fmt.Fprintf(b, "#array%v", to.Dimensions())
		b.WriteByte('[')
		n := 1
		for _, d := range to.Dimensions() {
			n *= d
		}
		for i := 0; i < n; i++ {
			if 0 < i {
				b.WriteByte(' ')
			}
			showTo(b, to.MajorGet(i))
		}
		b.WriteByte(']')
	default:
		if obj == slip.True {
			b.WriteString("t")
			return
		}
		fmt.Fprintf(b, "#<%T>", obj)
	}
}

// ---- feature classes (used for signatures and for the avoid set) ----

// runeClass names the class of a code point as "<syntax group>:<code point or
// sub-class>". The groups are the standard syntax types of the Lisp reader.
func runeClass(r rune) string {
	switch {
	case 'a' <= r && r <= 'z':
		return "constituent:lower"
	case 'A' <= r && r <= 'Z':
		return "constituent:upper"
	case '0' <= r && r <= '9':
		return "constituent:digit"
	case r == '\t' || r == '\n' || r == '\f' || r == '\r' || r == ' ':
		return fmt.Sprintf("whitespace:U+%04X", r)
	case r < 0x20 || r == 0x7f:
		return fmt.Sprintf("control:U+%04X", r)
	case strings.ContainsRune("\"'(),;`", r):
		return fmt.Sprintf("terminating-macro:U+%04X", r)
	case r == '#':
		return "non-terminating-macro:U+0023"
	case r == '\\':
		return "single-escape:U+005C"
	case r == '|':
		return "multiple-escape:U+007C"
	case r < 0x80:
		return fmt.Sprintf("constituent:U+%04X", r)
	}
	zone := "bmp"
	switch {
	case r < 0xa0:
		return "nonascii:c1"
	case r < 0x100:
		zone = "latin1"
	case 0xffff < r:
		zone = "astral"
	}
	return "nonascii:" + zone + "-" + category(r)
}

var catTables = []struct {
	name string
	t    *unicode.RangeTable
}{
	{"Lu", unicode.Lu}, {"Ll", unicode.Ll}, {"Lt", unicode.Lt}, {"Lm", unicode.Lm}, {"Lo", unicode.Lo},
	{"Mn", unicode.Mn}, {"Mc", unicode.Mc}, {"Me", unicode.Me},
	{"Nd", unicode.Nd}, {"Nl", unicode.Nl}, {"No", unicode.No},
	{"Pc", unicode.Pc}, {"Pd", unicode.Pd}, {"Ps", unicode.Ps}, {"Pe", unicode.Pe}, {"Pi", unicode.Pi}, {"Pf", unicode.Pf}, {"Po", unicode.Po},
	{"Sm", unicode.Sm}, {"Sc", unicode.Sc}, {"Sk", unicode.Sk}, {"So", unicode.So},
	{"Zs", unicode.Zs}, {"Zl", unicode.Zl}, {"Zp", unicode.Zp},
	{"Cc", unicode.Cc}, {"Cf", unicode.Cf}, {"Co", unicode.Co}, {"Cs", unicode.Cs},
}

func category(r rune) string {
	for _, c := range catTables {
		if unicode.Is(c.t, r) {
			return c.name
		}
	}
	return "Cn"
}

// textClass summarises a symbol name or string content by the sorted set of
// classes of its code points; plain letters and digits are left out unless
// nothing else is there. coarse folds every non-ASCII code point into one class.
func textClass(s string, coarse bool) string {
	if s == "" {
		return "empty"
	}
	seen := map[string]bool{}
	var cls, plain []string
	for _, r := range s {
		c := runeClass(r)
		if coarse && 0x80 <= r {
			c = "nonascii"
		}
		if seen[c] {
			continue
		}
		seen[c] = true
		if c == "constituent:lower" || c == "constituent:upper" || c == "constituent:digit" {
			plain = append(plain, c)
			continue
		}
		cls = append(cls, c)
	}
	if len(cls) == 0 {
		sortStrings(plain)
		return strings.Join(plain, "+")
	}
	sortStrings(cls)
	if 3 < len(cls) {
		cls = append(cls[:3], "more")
	}
	return strings.Join(cls, "+")
}

func sortStrings(a []string) {
	for i := 1; i < len(a); i++ {
		for j := i; 0 < j && a[j] < a[j-1]; j-- {
			a[j], a[j-1] = a[j-1], a[j]
		}
	}
}

// numericLooking tells whether a symbol name would be taken for a number (or
// slip's @time literal, or the consing dot, or t/nil) by a Lisp reader.
func numericLooking(s string) bool {
	if s == "." || strings.EqualFold(s, "t") || strings.EqualFold(s, "nil") {
		return true
	}
	if strings.HasPrefix(s, "@") && 1 < len(s) && '0' <= s[1] && s[1] <= '9' {
		return true
	}
	ls := strings.ToLower(s)
	i := 0
	if i < len(ls) && (ls[i] == '+' || ls[i] == '-') {
		i++
	}
	if i < len(ls) && ls[i] == '.' {
		i++
	}
	if len(ls) <= i || !('0' <= ls[i] && ls[i] <= '9') {
		return false
	}
	// digits with optional . / exponent marker
	for _, c := range ls[i:] {
		if !('0' <= c && c <= '9' || c == '.' || c == '/' || c == '+' || c == '-' || strings.ContainsRune("esfdl", c)) {
			return false
		}
	}
	return true
}

// leafKind and leafClass name a leaf for signatures: the kind of object and
// the class of its value within that kind.
func (o *O) leafKind() string {
	switch o.K {
	case "int":
		bi, _ := new(big.Int).SetString(o.V, 10)
		if !bi.IsInt64() {
			return "bignum"
		}
		return "fixnum"
	case "sf":
		return "single-float"
	case "df":
		return "double-float"
	case "lf":
		return "long-float"
	}
	return o.K
}

func (o *O) leafClass() string {
	switch o.K {
	case "int":
		if strings.HasPrefix(o.V, "-") {
			return "negative"
		}
		return "non-negative"
	case "ratio":
		c := "small"
		if 37 < len(o.V) {
			c = "big"
		} else {
			q, _ := new(big.Rat).SetString(o.V)
			if !q.Num().IsInt64() || !q.Denom().IsInt64() {
				c = "big"
			}
		}
		if strings.HasPrefix(o.V, "-") {
			c += "-negative"
		}
		return c
	case "sf", "df":
		bits := 64
		if o.K == "sf" {
			bits = 32
		}
		f, _ := strconv.ParseFloat(o.V, bits)
		return floatClass(f, bits)
	case "lf":
		f := parseLong(o.V)
		switch {
		case f.Sign() == 0:
			return "zero"
		case f.IsInt():
			return "integral"
		}
		return "fraction"
	case "str":
		return textClass(o.V, false)
	case "chr":
		n, _ := strconv.Atoi(o.V)
		if n < 0x80 {
			c := runeClass(rune(n))
			return c[:strings.IndexByte(c, ':')] + fmt.Sprintf(":U+%04X", n) // every ASCII character is its own class after #\
		}
		return runeClass(rune(n))
	case "sym", "kw":
		if o.K == "sym" && numericLooking(o.V) {
			return "numeric-looking"
		}
		return textClass(o.V, true)
	}
	return "-"
}

func floatClass(f float64, bits int) string {
	af := math.Abs(f)
	minNormal := math.Float64frombits(0x0010000000000000)
	if bits == 32 {
		minNormal = float64(math.Float32frombits(0x00800000))
	}
	switch {
	case f == 0 && math.Signbit(f):
		return "negzero"
	case f == 0:
		return "zero"
	case af < minNormal:
		return "subnormal"
	case af == math.Trunc(af) && af < 1e15:
		return "integral"
	}
	return "fraction"
}

// shape renders the structure of a (minimised) object in terms of leaf
// kinds; runs of equal children are collapsed.
func (o *O) shape() string {
	if !o.composite() {
		if c := o.leafClass(); c != "-" && !(o.K == "int" && o.V == "1") {
			return o.leafKind() + "[" + c + "]"
		}
		return o.leafKind()
	}
	var parts []string
	for _, e := range o.E {
		s := e.shape()
		if 0 < len(parts) && parts[len(parts)-1] == s {
			continue
		}
		parts = append(parts, s)
	}
	body := strings.Join(parts, " ")
	switch o.K {
	case "list":
		if o.T != nil {
			body += " . " + o.T.shape()
		}
		if len(o.E) == 0 {
			return "nil"
		}
		return "(" + body + ")"
	case "vec":
		return "#(" + body + ")"
	}
	zero := ""
	for _, d := range o.D {
		if d == 0 {
			zero = ":empty"
		}
	}
	return fmt.Sprintf("#%dA%s(%s)", len(o.D), zero, body)
}
