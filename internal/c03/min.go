package c03

import (
	"fmt"
	"sort"
	"strings"
)

// The minimiser turns a failing (object, configuration) pair into the
// smallest pair that still fails in the same way; the signature is computed
// from that minimal pair, so that it names the failing construct and not
// the case.

// plainLeaf is the least interesting leaf of a kind.
func plainLeaf(k string) *O {
	switch k {
	case "int":
		return leaf("int", "1")
	case "ratio":
		return leaf("ratio", "1/2")
	case "sf":
		return leaf("sf", "1.5")
	case "df":
		return leaf("df", "1.5")
	case "lf":
		return leaf("lf", "64:0x.cp+1")
	case "str":
		return leaf("str", "s")
	case "chr":
		return leaf("chr", "97")
	case "sym":
		return leaf("sym", "a")
	case "kw":
		return leaf("kw", "k")
	}
	return nil
}

// variants lists the one-step simplifications of the node itself (not of its
// descendants). inside tells whether the node has a parent.
func (o *O) variants(inside bool) []*O {
	var out []*O
	if o.composite() {
		// hoist a child
		for _, e := range o.E {
			out = append(out, e.clone())
		}
		if o.T != nil {
			out = append(out, o.T.clone())
			c := o.clone()
			c.T = nil
			out = append(out, c)
		}
		switch o.K {
		case "list", "vec":
			min := 0
			if o.K == "list" && o.T != nil {
				min = 1
			}
			if min < len(o.E) {
				for i := range o.E {
					c := o.clone()
					c.E = append(c.E[:i], c.E[i+1:]...)
					if len(c.E) < 1 && o.K == "list" {
						continue // that is nil, a different kind of object
					}
					if len(c.E) < min {
						continue
					}
					out = append(out, c)
				}
			}
		case "arr":
			// smaller array of the same rank: keep the first slice of an axis
			for ax := range o.D {
				if o.D[ax] <= 1 {
					continue
				}
				out = append(out, o.sliceAxis(ax))
			}
			v := &O{K: "vec"}
			for _, e := range o.E {
				v.E = append(v.E, e.clone())
			}
			out = append(out, v)
		}
		return out
	}
	if p := plainLeaf(o.K); p != nil && p.V != o.V {
		out = append(out, p)
	}
	switch o.K {
	case "int":
		if strings.HasPrefix(o.V, "-") {
			out = append(out, leaf("int", o.V[1:]))
		}
		for _, v := range []string{"18446744073709551616", "-18446744073709551616", "-1"} {
			if v != o.V && len(v) < len(o.V) {
				out = append(out, leaf("int", v))
			}
		}
	case "ratio":
		if strings.HasPrefix(o.V, "-") {
			out = append(out, leaf("ratio", o.V[1:]))
		}
		for _, v := range []string{"18446744073709551617/2", "1/18446744073709551616", "-1/2"} {
			if v != o.V && len(v) < len(o.V) {
				out = append(out, leaf("ratio", v))
			}
		}
	case "str", "sym", "kw":
		rs := []rune(o.V)
		if 1 < len(rs) {
			for i := range rs {
				c := append(append([]rune{}, rs[:i]...), rs[i+1:]...)
				if o.K == "sym" && c[0] == ':' {
					continue // that would be a keyword
				}
				out = append(out, leaf(o.K, string(c)))
			}
		}
	}
	if inside && !(o.K == "int" && o.V == "1") {
		out = append(out, leaf("int", "1"))
	}
	return out
}

func (o *O) sliceAxis(ax int) *O {
	nd := append([]int{}, o.D...)
	nd[ax] = 1
	c := &O{K: "arr", D: nd}
	// enumerate indices of the new array in row-major order
	total := 1
	for _, d := range nd {
		total *= d
	}
	for i := 0; i < total; i++ {
		// decode i in nd, encode in o.D
		rem := i
		idx := make([]int, len(nd))
		for a := len(nd) - 1; 0 <= a; a-- {
			if nd[a] != 0 {
				idx[a] = rem % nd[a]
				rem /= nd[a]
			}
		}
		j := 0
		for a := range o.D {
			j = j*o.D[a] + idx[a]
		}
		c.E = append(c.E, o.E[j].clone())
	}
	return c
}

// shrinks lists every tree obtained by one simplification step somewhere in o.
func (o *O) shrinks() []*O {
	var out []*O
	for _, v := range o.variants(false) {
		out = append(out, v)
	}
	o.walkShrinks(o, &out)
	return out
}

// walkShrinks appends copies of root in which one descendant of n is simplified.
func (o *O) walkShrinks(root *O, out *[]*O) {
	replaceAndCollect := func(slot **O) {
		orig := *slot
		for _, v := range orig.variants(true) {
			*slot = v
			*out = append(*out, root.clone())
		}
		*slot = orig
		orig.walkShrinks(root, out)
	}
	for i := range o.E {
		replaceAndCollect(&o.E[i])
	}
	if o.T != nil {
		replaceAndCollect(&o.T)
	}
}

type minimiser struct {
	st    *stats
	memo  map[string]string // pair key -> failure kind
	calls int
}

func (m *minimiser) kindOf(o *O, c Cfg) string {
	k := o.key() + c.String()
	if v, ok := m.memo[k]; ok {
		return v
	}
	m.calls++
	v := ""
	if f := judge(o, c, m.st); f != nil {
		v = f.kind
	}
	m.memo[k] = v
	return v
}

const maxMinCalls = 40000

// minimiseObj returns the smallest object found that still fails under c
// (in any way: the minimal form decides the failure kind that is reported).
func (m *minimiser) minimiseObj(o *O, c Cfg) *O {
	o = o.clone()
	for m.calls < maxMinCalls {
		progress := false
		for _, cand := range o.shrinks() {
			if cand.size() > o.size() || cand.key() == o.key() {
				continue
			}
			if m.kindOf(cand, c) != "" {
				o = cand
				progress = true
				break
			}
		}
		if !progress {
			break
		}
	}
	return o
}

// minimiseCfg resets every configuration dimension the failure does not depend on.
func (m *minimiser) minimiseCfg(o *O, c Cfg) Cfg {
	if c.Via == "wire" {
		return c
	}
	// The entry points differ in how they report one and the same failure
	// (read-from-string turns an incomplete form into an error): any failure
	// through the plain entry points stands for the failure seen.
	nc := c
	nc.Via = "append"
	if nc != c && m.kindOf(o, nc) != "" {
		c = nc
	}
	nc = c
	nc.Read = "readstring"
	if nc != c && m.kindOf(o, nc) != "" {
		c = nc
	}
	// every other dimension is reset only if the failure stays the same
	kind := m.kindOf(o, c)
	try := func(nc Cfg) {
		if nc != c && m.kindOf(o, nc) == kind {
			c = nc
		}
	}
	nc = c
	nc.Pretty, nc.Margin = false, 120
	try(nc)
	nc = c
	nc.Margin = 120
	try(nc)
	nc = c
	nc.Case = "downcase"
	try(nc)
	nc = c
	nc.Base, nc.Radix = 10, false
	try(nc)
	if c.Radix {
		nc = c
		nc.Base = 10
		try(nc)
	}
	return c
}

// cfgPart names the configuration dimensions the failure depends on.
func (m *minimiser) cfgPart(o *O, c Cfg) string {
	kind := m.kindOf(o, c)
	var parts []string
	if c.Via != "append" {
		parts = append(parts, "via="+c.Via)
	}
	if c.Read != "readstring" {
		parts = append(parts, "read="+c.Read)
	}
	if c.Pretty {
		if c.Margin != 120 {
			parts = append(parts, "pretty:margin-dependent")
		} else {
			parts = append(parts, "pretty")
		}
	}
	if c.Case != "downcase" {
		parts = append(parts, "case="+c.Case)
	}
	switch {
	case c.Base == 10 && !c.Radix:
	case c.Base == 10:
		parts = append(parts, "radix")
	default:
		// which bases fail?
		var failing []int
		for b := 2; b <= 36; b++ {
			if b == 10 {
				continue
			}
			nc := c
			nc.Base = b
			if m.kindOf(o, nc) == kind {
				failing = append(failing, b)
			}
		}
		name := "base"
		switch {
		case len(failing) == 34:
			parts = append(parts, name+"=non-decimal")
		case 0 < len(failing):
			s := fmt.Sprintf("%s=%d", name, failing[0])
			if 1 < len(failing) {
				s += "+"
			}
			parts = append(parts, s)
		default:
			parts = append(parts, fmt.Sprintf("%s=%d", name, c.Base))
		}
	}
	sort.Strings(parts)
	if len(parts) == 0 {
		return "any"
	}
	return strings.Join(parts, ",")
}
