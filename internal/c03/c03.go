package c03

import (
	"bytes"
	"encoding/json"
	"fmt"
	"hash/fnv"
	"math/rand/v2"
	"strconv"
	"strings"

	"github.com/ohler55/slip"
	"github.com/ohler55/slip/pkg/swank"

	"verif/internal/fw"
	"verif/internal/sl"
)

// Case is one monitored unit.
//
//	probe: one catalogue object in one container context under the fixed probe sub-grid of configurations
//	pair:  one generated object under one configuration (all three print entry points are compared)
//	grid:  one generated object under the FULL configuration grid
//	chars: every code point of a range as a character and inside a string
//	wire:  one message through swank WriteWireMessage / ReadWireMessage
type Case struct {
	Kind   string `json:"kind"`
	Obj    *O     `json:"obj,omitempty"`
	Cfg    *Cfg   `json:"cfg,omitempty"`
	Ctx    int    `json:"ctx,omitempty"`
	From   int    `json:"from,omitempty"`
	To     int    `json:"to,omitempty"`
	Stride int    `json:"stride,omitempty"`
	Dirty  string `json:"dirty,omitempty"` // the known-finding construct planted in this case ("" = clean stream)
}

type probeRef struct {
	cat int
	ctx int
}

var (
	probeList  []probeRef
	charBlocks [][3]int // from, to, stride
	wireFixed  []*O
)

func setup() {
	if probeList != nil {
		return
	}
	initCatalogue()
	for i, p := range catalogue {
		for _, ctx := range p.ctx {
			probeList = append(probeList, probeRef{i, ctx})
		}
	}
	initWire()
}

func charPlan(tier string) [][3]int {
	var out [][3]int
	if tier == "thorough" {
		for from := 0; from < 0x110000; from += 4096 {
			out = append(out, [3]int{from, from + 4096, 1})
		}
		return out
	}
	for from := 0; from < 0x3000; from += 1024 {
		out = append(out, [3]int{from, from + 1024, 1})
	}
	for from := 0x3000; from < 0x110000; from += 0x8000 {
		out = append(out, [3]int{from, from + 0x8000, 53})
	}
	return out
}

type plan struct {
	probes, chars, wire, random int
	gridEvery                   int // every k-th random case is a full-grid case
}

func planOf(tier string) plan {
	setup()
	p := plan{probes: len(probeList), chars: len(charPlan(tier)), wire: len(wireFixed) + 300, random: 24000, gridEvery: 1500}
	if tier == "thorough" {
		p.wire = len(wireFixed) + 3000
		p.random = 400000
		p.gridEvery = 1300
	}
	return p
}

func nCases(tier string) int {
	p := planOf(tier)
	return p.probes + p.chars + p.wire + p.random
}

func gen(r *rand.Rand, i int, tier string) Case {
	p := planOf(tier)
	if i < p.probes {
		pr := probeList[i]
		return Case{Kind: "probe", Obj: catalogue[pr.cat].o.clone(), Ctx: pr.ctx}
	}
	i -= p.probes
	if i < p.chars {
		b := charPlan(tier)[i]
		return Case{Kind: "chars", From: b[0], To: b[1], Stride: b[2]}
	}
	i -= p.chars
	if i < p.wire {
		if i < len(wireFixed) {
			return Case{Kind: "wire", Obj: wireFixed[i].clone()}
		}
		if r.IntN(100) < 15 {
			return Case{Kind: "wire", Obj: randWire(r, 0, false), Dirty: "wire-raw-string"}
		}
		return Case{Kind: "wire", Obj: randWire(r, 0, true)}
	}
	i -= p.wire
	if i%p.gridEvery == 7 {
		// full grid: the object must be clean under radix and under escape mode
		g := genOpts{clean: true, radix: true, escape: true, pretty: true, maxDepth: 3, maxWidth: 5}
		kind := "grid"
		if (i/p.gridEvery)%3 == 2 {
			// arrays, ratios and all floats over the part of the grid where they are not on the avoid list
			g.radix, g.escape = false, false
			kind = "grid-plain"
		}
		var o *O
		for {
			o = randObj(r, g, 0)
			if 4 <= o.size() && o.size() <= 40 {
				break
			}
		}
		return Case{Kind: kind, Obj: o}
	}
	return genPair(r)
}

func genPair(r *rand.Rand) Case {
	c := defaultCfg()
	g := genOpts{clean: true, maxDepth: 4, maxWidth: 6}
	dirty := false
	if r.IntN(100) < 12 {
		dirty = true
		g.clean = false
	}
	if r.IntN(4) != 0 {
		c.Radix = true
		c.Base = 2 + r.IntN(35)
		if r.IntN(6) == 0 {
			c.Base = []int{2, 8, 10, 16, 36}[r.IntN(5)]
		}
	}
	if r.IntN(5) == 0 {
		c.Mode = "escape"
	}
	g.radix, g.escape = c.Radix, c.Mode == "escape"
	c.Case = []string{"downcase", "upcase", "capitalize"}[r.IntN(3)]
	if r.IntN(3) != 0 {
		c.Pretty = true
		switch r.IntN(4) {
		case 0:
			c.Margin = 1 + r.IntN(200)
		case 1:
			c.Margin = 1 + r.IntN(30)
		case 2:
			c.Margin = 20 + r.IntN(80)
		default:
			c.Margin = 120
		}
	} else {
		c.Margin = 1 + r.IntN(200)
	}
	c.Via = []string{"append", "append", "append", "keys", "keys", "vars", "vars", "global"}[r.IntN(8)]
	if r.IntN(5) == 0 {
		c.Read = "rfs"
	}
	g.pretty = c.Pretty
	var o *O
	for {
		o = randObj(r, g, 0)
		if o.size() <= 120 {
			break
		}
	}
	d := ""
	if dirty {
		d = plantedDirt(o, g)
		if d == "" {
			d = "none"
		}
	}
	return Case{Kind: "pair", Obj: o, Cfg: &c, Dirty: d}
}

// plantedDirt names the avoid-set constructs present in o.
func plantedDirt(o *O, g genOpts) string {
	set := map[string]bool{}
	var walk func(o *O)
	walk = func(o *O) {
		if !o.composite() {
			if d := dirtyLeaf(o, g); d != "" {
				set[d] = true
			}
		}
		if o.K == "arr" {
			if len(o.D) == 0 {
				set["arr-rank0"] = true
			} else if g.radix && avoidArrayRadix {
				set["arr-rank-with-radix"] = true
			}
			for _, d := range o.D {
				if d == 0 {
					set["arr-empty"] = true
				}
			}
		}
		for _, e := range o.E {
			walk(e)
		}
		if o.T != nil {
			walk(o.T)
		}
	}
	walk(o)
	var out []string
	for k := range set {
		out = append(out, k)
	}
	sortStrings(out)
	return strings.Join(out, ",")
}

// ---- wire messages ----

func initWire() {
	e := func(es ...*O) *O { return &O{K: "list", E: es} }
	s := func(n string) *O { return leaf("sym", n) }
	k := func(n string) *O { return leaf("kw", n) }
	str := func(n string) *O { return leaf("str", n) }
	i := func(n int) *O { return leaf("int", strconv.Itoa(n)) }
	wireFixed = []*O{
		e(k("emacs-rex"), e(s("swank:connection-info")), str("cl-user"), &O{K: "t"}, i(1)),
		e(k("return"), e(k("ok"), &O{K: "nil"}), i(1)),
		e(k("return"), e(k("ok"), str("3")), i(2)),
		e(k("emacs-rex"), e(s("swank:interactive-eval"), str("(+ 1 2)")), str("cl-user"), &O{K: "t"}, i(3)),
		e(k("emacs-rex"), e(s("swank:interactive-eval"), str(`(print "hi")`)), str("cl-user"), &O{K: "t"}, i(4)),
		e(k("write-string"), str("hello\n")),
		e(k("write-string"), str(`a "quoted" word`)),
		e(k("write-string"), str(`back\slash`)),
		e(k("return"), e(k("abort"), str("error: \"x\" is unbound")), i(5)),
		e(k("emacs-rex"), e(s("swank:completions"), str("pri"), str("cl-user")), str("cl-user"), &O{K: "t"}, i(6)),
		e(k("return"), e(k("ok"), e(e(str("print"), str("prin1"), str("princ")), str("pri"))), i(6)),
		e(k("indentation-update"), e(&O{K: "list", E: []*O{str("with-foo")}, T: i(1)})),
		e(k("emacs-rex"), e(s("swank:describe-symbol"), str("Foo Bar")), k("cl-user"), i(7), i(18446744073709551)),
		e(k("debug"), i(1), i(1), e(str("The variable X is unbound."), str("   [Condition of type UNBOUND-VARIABLE]"), &O{K: "nil"}),
			e(e(str("ABORT"), str("Return to top level."))), e(e(i(0), str("(eval x)"))), e(i(8))),
		e(k("new-features"), e(s("a"), s("b"))),
		e(k("ping"), i(1), i(42)),
		e(k("emacs-pong"), i(1), i(42)),
		str("just a string"),
		i(5),
		s("sym"),
		e(k("write-string"), str("日本語 😀")),
		e(k("write-string"), str(strings.Repeat("0123456789", 30))),
		e(k("presentation-start"), i(1), k("repl-result")),
		e(k("return"), e(k("ok"), e(leaf("df", "1.5"), leaf("ratio", "1/2"), leaf("chr", "97"))), i(9)),
	}
	// every ASCII code point inside the text of a :write-string message
	for c := rune(0); c < 128; c++ {
		wireFixed = append(wireFixed, e(k("write-string"), str("a"+string(c)+"b")))
	}
	initPools()
	for _, c := range probeRunes {
		wireFixed = append(wireFixed, e(k("write-string"), str("a"+string(c)+"b")))
	}
}

func randWire(r *rand.Rand, depth int, clean bool) *O {
	initPools()
	initInts()
	initFloats()
	leafW := func() *O {
		switch r.IntN(10) {
		case 0, 1:
			return leaf("kw", randPlainName(r))
		case 2:
			if r.IntN(2) == 0 {
				return leaf("sym", "swank:"+randPlainName(r))
			}
			return leaf("sym", randPlainName(r))
		case 3, 4, 5:
			// text as a user would type it into the REPL
			n := r.IntN(20)
			rs := make([]rune, n)
			for i := range rs {
				switch r.IntN(12) {
				case 0:
					rs[i] = '"'
				case 1:
					rs[i] = '\\'
				case 2:
					rs[i] = '\n'
				case 3:
					rs[i] = ' '
				case 4:
					rs[i] = rune("()#;|'`,"[r.IntN(8)])
				case 5:
					rs[i] = randRune(r)
				default:
					rs[i] = rune('a' + r.IntN(26))
				}
				if clean && dirtyStringRune(rs[i], genOpts{escape: true}) {
					rs[i] = ' '
				}
			}
			return leaf("str", string(rs))
		case 6:
			return &O{K: "nil"}
		case 7:
			return &O{K: "t"}
		}
		return leaf("int", strconv.Itoa(r.IntN(100000)))
	}
	if 2 < depth || (0 < depth && r.IntN(3) == 0) {
		return leafW()
	}
	o := &O{K: "list"}
	if depth == 0 {
		o.E = append(o.E, leaf("kw", []string{"emacs-rex", "return", "write-string", "debug", "ok"}[r.IntN(5)]))
	}
	n := 1 + r.IntN(5)
	for i := 0; i < n; i++ {
		o.E = append(o.E, randWire(r, depth+1, clean))
	}
	return o
}

func judgeWire(o *O, st *stats) *failure {
	x := o.build()
	if st != nil {
		st.pairs++
	}
	var buf bytes.Buffer
	var werr error
	if e := sl.Catch(func() { werr = swank.WriteWireMessage(&buf, x) }); e != nil {
		return &failure{errKind("wire-write", e), fmt.Sprintf("WriteWireMessage(%s) panicked: %s", show(x), e)}
	}
	if werr != nil {
		return &failure{"wire-write-error", fmt.Sprintf("WriteWireMessage(%s): %v", show(x), werr)}
	}
	text := buf.String()
	var back slip.Object
	var rerr error
	scope := slip.NewScope()
	if e := sl.Catch(func() { back, rerr = swank.ReadWireMessage(&buf, scope) }); e != nil {
		return &failure{errKind("wire-read", e), fmt.Sprintf("ReadWireMessage of %q panicked: %s", text, e)}
	}
	if rerr != nil {
		return &failure{"wire-read-error", fmt.Sprintf("message %s was framed as %q; ReadWireMessage fails: %v", show(x), text, rerr)}
	}
	if d := same(x, back, ""); d != nil {
		k := "wire-" + d.what
		switch d.what {
		case "type":
			k = "wire-type:" + d.a + "->" + d.b
		case "value":
			k = "wire-value:" + strings.SplitN(d.a, " ", 2)[0]
		}
		return &failure{k, fmt.Sprintf("message %s was framed as %q and read back as %s; %s", show(x), text, trunc(show(back), 300), d)}
	}
	if buf.Len() != 0 {
		return &failure{"wire-leftover", fmt.Sprintf("message %s framed as %q: %d bytes left unread", show(x), text, buf.Len())}
	}
	return nil
}

// ---- execution ----

type runner struct {
	x    *fw.Ctx
	st   stats
	min  *minimiser
	memo map[string][]string // leaf key + cfg -> signatures (nil: the leaf holds in canonical contexts)
	sigs map[string]int
	nmin int
	// structs: minimal failing structures found so far in this case
	structs []*O
	// clean: the case comes from a stream that avoids the known findings
	clean bool
}

func newRunner(x *fw.Ctx) *runner {
	r := &runner{x: x, memo: map[string][]string{}, sigs: map[string]int{}}
	r.min = &minimiser{st: &r.st, memo: map[string]string{}}
	return r
}

const maxMinPerCase = 40

// check judges one pair and reports a violation under its signature.
func (r *runner) check(o *O, c Cfg) bool {
	f := judge(o, c, &r.st)
	if f == nil {
		return true
	}
	r.explain(o, c, f)
	return false
}

// canon finds the canonical context in which leaf l fails under c: alone, or
// as the only element of a list.
func (r *runner) canon(l *O, c Cfg) (co *O, ctx string) {
	if r.min.kindOf(l, c) != "" {
		return l, "top"
	}
	lst := &O{K: "list", E: []*O{l}}
	if r.min.kindOf(lst, c) != "" {
		return lst, "list"
	}
	return nil, ""
}

func leavesOf(o *O, fn func(l *O)) {
	if !o.composite() {
		fn(o)
	}
	for _, e := range o.E {
		leavesOf(e, fn)
	}
	if o.T != nil {
		leavesOf(o.T, fn)
	}
}

// neutralise replaces every occurrence of the leaves in set by a filler.
func neutralise(o *O, set map[string]bool) *O {
	if !o.composite() {
		if set[o.K+"\x00"+o.V] {
			return leaf("int", "1")
		}
		return o.clone()
	}
	c := &O{K: o.K, V: o.V, D: o.D, E: []*O{}}
	for _, e := range o.E {
		c.E = append(c.E, neutralise(e, set))
	}
	if o.T != nil {
		c.T = neutralise(o.T, set)
	}
	return c
}

// containsShape tells whether o has a sub-object of the same kind (and rank) as m.
func containsShape(o *O, m *O) bool {
	if o.K == m.K && len(o.D) == len(m.D) && (o.T != nil) == (m.T != nil) {
		return true
	}
	for _, e := range o.E {
		if containsShape(e, m) {
			return true
		}
	}
	return o.T != nil && containsShape(o.T, m)
}

func plainRune(r rune) bool { return 'a' <= r && r <= 'z' || '0' <= r && r <= '9' }

// report files a violation under the signature computed from the minimal
// failing pair (co under c).
func (r *runner) report(co *O, ctx string, c Cfg, orig *failure) string {
	mc := r.min.minimiseCfg(co, c)
	kind := r.min.kindOf(co, mc)
	mode := mc.Mode
	if mc.Via == "wire" {
		mode = "-"
	} else {
		fc := mc
		if fc.Mode == "readably" {
			fc.Mode = "escape"
		} else {
			fc.Mode = "readably"
		}
		if r.min.kindOf(co, fc) == kind {
			mode = "any"
		}
	}
	var sig string
	switch ctx {
	case "top":
		sig = fmt.Sprintf("obj=%s cfg=%s ctx=top mode=%s class=%s fail=%s", co.leafKind(), r.min.cfgPart(co, mc), mode, co.leafClass(), kind)
	case "list":
		sig = fmt.Sprintf("obj=%s cfg=%s ctx=list mode=%s class=%s fail=%s", co.E[0].leafKind(), r.min.cfgPart(co, mc), mode, co.E[0].leafClass(), kind)
	default:
		if cl := r.nestedCulprit(co, mc); cl != nil {
			// one leaf is responsible, whatever the container: name the leaf and the failure family
			sig = fmt.Sprintf("obj=%s cfg=%s ctx=nested mode=%s class=%s fail=%s", cl.leafKind(), r.min.cfgPart(co, mc), mode, cl.leafClass(), family(kind))
		} else {
			sig = fmt.Sprintf("obj=struct cfg=%s ctx=as-is mode=%s class=%s fail=%s", r.min.cfgPart(co, mc), mode, co.shape(), kind)
		}
	}
	r.sigs[sig]++
	if r.sigs[sig] == 1 {
		msg := orig.msg
		if mf := judge(co, mc, nil); mf != nil {
			w := Case{Kind: "pair", Obj: co, Cfg: &mc}
			if mc.Via == "wire" {
				w = Case{Kind: "wire", Obj: co}
			}
			wj, _ := json.Marshal(w)
			msg = mf.msg + "\n   seen in: " + trunc(orig.msg, 1500) + "\n   witness: " + string(wj)
		}
		r.x.Fail(sig, "%s", msg)
	}
	return sig
}

// family is the coarse class of a failure kind used where the exact kind
// depends on the container the responsible leaf sits in.
func family(kind string) string {
	switch {
	case strings.HasSuffix(kind, "-internal"):
		return kind
	case strings.HasPrefix(kind, "wire-read"), strings.HasPrefix(kind, "wire-write"):
		return "wire-error"
	case strings.HasPrefix(kind, "wire-"):
		return "wire-value"
	case strings.HasPrefix(kind, "print-"):
		return "print-error"
	case strings.HasPrefix(kind, "read-"):
		return "read-error"
	case strings.HasPrefix(kind, "pretty-"):
		return "pretty"
	}
	return "value"
}

// neutralLeaf is an unsuspicious leaf of the same kind as l that is neither l
// nor the minimiser's filler.
func neutralLeaf(l *O) *O {
	switch l.K {
	case "int":
		return leaf("int", "7")
	case "nil", "t":
		return leaf("sym", "a")
	}
	return plainLeaf(l.K)
}

func substitute(o *O, l *O, by *O) *O {
	if !o.composite() {
		if o.K == l.K && o.V == l.V {
			return by.clone()
		}
		return o.clone()
	}
	c := &O{K: o.K, V: o.V, D: o.D, E: []*O{}}
	for _, e := range o.E {
		c.E = append(c.E, substitute(e, l, by))
	}
	if o.T != nil {
		c.T = substitute(o.T, l, by)
	}
	return c
}

// nestedCulprit finds the one leaf of a minimal failing structure whose
// replacement by an unsuspicious leaf of the same kind makes the failure go
// away; nil if there is no such leaf or more than one.
func (r *runner) nestedCulprit(mo *O, c Cfg) *O {
	if !mo.composite() {
		return nil
	}
	var found []*O
	seen := map[string]bool{}
	leavesOf(mo, func(l *O) {
		k := l.K + "\x00" + l.V
		if seen[k] || isFiller(l) {
			return
		}
		seen[k] = true
		by := neutralLeaf(l)
		if by == nil || (by.K == l.K && by.V == l.V) {
			return
		}
		if r.min.kindOf(substitute(mo, l, by), c) == "" {
			found = append(found, l)
		}
	})
	if len(found) == 1 {
		return found[0]
	}
	return nil
}

func isFiller(l *O) bool { return l.K == "int" && l.V == "1" }

// explainLeaf reports every way leaf l fails under c in a canonical context
// and tells whether it does.
func (r *runner) explainLeaf(l *O, c Cfg, orig *failure) bool {
	key := l.K + "\x00" + l.V + "\x00" + c.String()
	if sigs, ok := r.memo[key]; ok {
		for _, s := range sigs {
			r.sigs[s]++
		}
		return 0 < len(sigs)
	}
	var sigs []string
	cur := l
	for round := 0; round < 4 && cur != nil; round++ {
		co, ctx := r.canon(cur, c)
		if co == nil {
			break
		}
		r.min.calls = 0
		mo := r.min.minimiseObj(co, c)
		r.st.minimised++
		mctx := ctx
		if !mo.composite() {
			mctx = "top"
		} else if !(mo.K == "list" && len(mo.E) == 1 && mo.T == nil && !mo.E[0].composite()) {
			mctx = "as-is"
		}
		sigs = append(sigs, r.report(mo, mctx, c, orig))
		// a second cause in the same text? remove the code points of the minimal form and retry
		next := (*O)(nil)
		ml := mo
		if mctx == "list" {
			ml = mo.E[0]
		}
		if mctx != "as-is" && (cur.K == "str" || cur.K == "sym" || cur.K == "kw") && ml.K == cur.K && ml.V != "" {
			drop := map[rune]bool{}
			for _, q := range ml.V {
				if !plainRune(q) {
					drop[q] = true
				}
			}
			var keep []rune
			for _, q := range cur.V {
				if !drop[q] {
					keep = append(keep, q)
				}
			}
			for cur.K == "sym" && 0 < len(keep) && keep[0] == ':' {
				keep = keep[1:] // a leading colon would make a keyword of it
			}
			if 0 < len(drop) && 0 < len(keep) && len(keep) < len([]rune(cur.V)) {
				next = leaf(cur.K, string(keep))
			}
		}
		cur = next
	}
	r.memo[key] = sigs
	return 0 < len(sigs)
}

// explain computes the signature(s) of a failing pair: every leaf that fails
// by itself (alone or in a one-element list) is minimised and reported under
// its own signature; if the object still fails with those leaves replaced by
// fillers, the smallest failing structure is reported.
func (r *runner) explain(o *O, c Cfg, f *failure) {
	if r.min.kindOf(o, c) == "" {
		// the same pair holds when it is judged a second time: the failure depends on state outside the pair
		sig := "obj=any cfg=any ctx=any mode=any class=not-reproducible fail=" + f.kind
		r.sigs[sig]++
		if r.sigs[sig] == 1 {
			r.x.Fail(sig, "%s\n   (the same pair held when judged again in the same process)", f.msg)
		}
		return
	}
	bad := map[string]bool{}
	seen := map[string]bool{}
	leavesOf(o, func(l *O) {
		k := l.K + "\x00" + l.V
		if seen[k] {
			return
		}
		seen[k] = true
		if r.explainLeaf(l, c, f) {
			bad[k] = true
		}
	})
	rest := o
	if 0 < len(bad) {
		rest = neutralise(o, bad)
		if r.min.kindOf(rest, c) == "" {
			return
		}
	}
	if !rest.composite() {
		return
	}
	skey := "struct\x00" + rest.key() + c.String()
	if sigs, ok := r.memo[skey]; ok {
		for _, s := range sigs {
			r.sigs[s]++
		}
		return
	}
	// a structure already found minimal in this case that also fails under c explains this failure too
	var mo *O
	for _, prev := range r.structs {
		if containsShape(rest, prev) && r.min.kindOf(prev, c) != "" {
			mo = prev
			break
		}
	}
	if mo == nil {
		if maxMinPerCase <= r.nmin {
			r.x.Cover("violations-not-minimised")
			return
		}
		r.nmin++
		r.min.calls = 0
		mo = r.min.minimiseObj(rest, c)
		r.st.minimised++
		r.structs = append(r.structs, mo)
	}
	ctx := "as-is"
	if !mo.composite() {
		ctx = "top"
	} else if mo.K == "list" && len(mo.E) == 1 && mo.T == nil && !mo.E[0].composite() {
		ctx = "list"
	}
	r.memo[skey] = []string{r.report(mo, ctx, c, f)}
}

func (r *runner) finish() {
	if r.clean {
		for sig, n := range r.sigs {
			r.x.CoverN("violation-in-clean-stream:"+sig, n)
		}
	}
	r.x.CoverN("pairs-judged", r.st.pairs)
	r.x.CoverN("pretty-vs-flat-compared", r.st.prettyPairs)
	r.x.CoverN("pretty-text-differs-from-flat", r.st.prettyDiffers)
	if 0 < r.st.minimised {
		r.x.CoverN("violations-minimised", r.st.minimised)
	}
}

func coverObj(x *fw.Ctx, o *O) {
	seen := map[string]bool{}
	var walk func(o *O, d int)
	maxd := 0
	walk = func(o *O, d int) {
		if maxd < d {
			maxd = d
		}
		k := o.K
		if o.K == "arr" {
			k = fmt.Sprintf("arr-rank%d", len(o.D))
		}
		if o.K == "list" && o.T != nil {
			k = "dotted-list"
		}
		if o.K == "int" {
			k = o.leafClass()
		}
		if !seen[k] {
			seen[k] = true
			x.Cover("has:" + k)
		}
		for _, e := range o.E {
			walk(e, d+1)
		}
		if o.T != nil {
			walk(o.T, d+1)
		}
	}
	walk(o, 1)
	x.Cover(fmt.Sprintf("depth:%d", maxd))
}

func coverCfg(x *fw.Ctx, c Cfg) {
	x.Cover("mode:" + c.Mode)
	x.Cover("via:" + c.Via)
	x.Cover("read:" + c.Read)
	x.Cover("case:" + c.Case)
	if c.Radix {
		x.Cover(fmt.Sprintf("base+radix:%d", c.Base))
	} else {
		x.Cover(fmt.Sprintf("base-plain:%d", c.Base))
	}
	if c.Pretty {
		x.Cover(fmt.Sprintf("pretty-margin:%d-%d", (c.Margin-1)/20*20+1, (c.Margin-1)/20*20+20))
	} else {
		x.Cover("flat")
	}
}

func hashOf(s string) uint64 {
	h := fnv.New64a()
	h.Write([]byte(s))
	return h.Sum64()
}

func exec(x *fw.Ctx, c Case) {
	setup()
	r := newRunner(x)
	defer r.finish()
	x.Cover("kind:" + c.Kind)
	switch c.Kind {
	case "probe":
		o := inContext(c.Obj, c.Ctx)
		coverObj(x, o)
		x.Cover(fmt.Sprintf("probe-context:%d", c.Ctx))
		ok := 0
		cfgs := probeCfgs(c.Obj)
		for _, cfg := range cfgs {
			if r.check(o, cfg) {
				ok++
			}
		}
		x.Observe(map[string]any{"object": show(o.build()), "configurations": len(cfgs), "held": ok})
	case "pair":
		coverObj(x, c.Obj)
		coverCfg(x, *c.Cfg)
		if c.Dirty != "" {
			x.Cover("dirty-stream")
			for _, d := range strings.Split(c.Dirty, ",") {
				x.Cover("avoided-in-clean-stream:" + d)
			}
		} else {
			x.Cover("clean-stream")
			r.clean = true
		}
		cfg := *c.Cfg
		held := r.check(c.Obj, cfg)
		obs := map[string]any{"object": trunc(show(c.Obj.build()), 400), "cfg": cfg.String(), "held": held}
		if t, e := printText(c.Obj.build(), cfg); e == nil {
			obs["text"] = trunc(t, 400)
			// the three public entry points agree on the text
			if cfg.Via != "append" {
				ac := cfg
				ac.Via = "append"
				if at, e2 := printText(c.Obj.build(), ac); e2 == nil {
					if at == t {
						x.Cover("entry-points-agree")
					} else {
						x.Cover("entry-points-disagree:" + cfg.Via)
					}
				}
			}
		}
		x.Observe(obs)
	case "grid", "grid-plain":
		r.clean = true
		coverObj(x, c.Obj)
		n, ok := 0, 0
		modes, first := []string{"readably", "escape"}, 2
		if c.Kind == "grid-plain" {
			modes, first = []string{"readably"}, 37
		}
		for _, mode := range modes {
			for base := first; base <= 37; base++ {
				for _, cs := range []string{"downcase", "upcase", "capitalize"} {
					cfg := defaultCfg()
					cfg.Mode, cfg.Case, cfg.Base, cfg.Radix = mode, cs, base, true
					if base == 37 {
						cfg.Base, cfg.Radix = 10, false
					}
					for m := 0; m <= 200; m++ {
						cfg.Pretty, cfg.Margin = 0 < m, m
						if m == 0 {
							cfg.Margin = 120
						}
						n++
						if r.check(c.Obj, cfg) {
							ok++
						}
					}
				}
			}
		}
		x.CoverN("grid-configurations", n)
		x.Observe(map[string]any{"object": trunc(show(c.Obj.build()), 400), "configurations": n, "held": ok})
	case "chars":
		n, ok := 0, 0
		stride := c.Stride
		if stride < 1 {
			stride = 1
		}
		rd, es := defaultCfg(), defaultCfg()
		es.Mode = "escape"
		pr := defaultCfg()
		pr.Pretty, pr.Margin = true, 8
		for cp := c.From; cp < c.To; cp += stride {
			if !isScalar(rune(cp)) {
				continue
			}
			n++
			good := true
			ch := leaf("chr", strconv.Itoa(cp))
			st := leaf("str", "a"+string(rune(cp))+"b")
			good = r.check(ch, rd) && good
			good = r.check(ch, es) && good
			good = r.check(&O{K: "list", E: []*O{ch, st, ch}}, pr) && good
			good = r.check(st, rd) && good
			good = r.check(st, es) && good
			if good {
				ok++
			}
		}
		x.CoverN("code-points", n)
		x.CoverN("code-points-held", ok)
		if n == 0 {
			x.Trivial()
		}
		x.Observe(map[string]any{"range": fmt.Sprintf("U+%04X..U+%04X step %d", c.From, c.To-1, stride), "code-points": n, "held": ok})
	case "wire":
		coverObj(x, c.Obj)
		if c.Dirty != "" {
			x.Cover("dirty-stream")
			x.Cover("avoided-in-clean-stream:" + c.Dirty)
		} else if len(wireFixed) <= x.Index-planOf(x.Tier).probes-planOf(x.Tier).chars {
			r.clean = true
		}
		cfg := defaultCfg()
		cfg.Via = "wire"
		held := r.check(c.Obj, cfg)
		x.Observe(map[string]any{"message": trunc(show(c.Obj.build()), 400), "held": held})
	default:
		x.Fail("harness-bad-case", "unknown case kind %q", c.Kind)
	}
}

func init() {
	fw.Register(fw.Spec[Case]{
		ID: "C03",
		Rule: "case = probe (catalogue leaf x container context x fixed configuration sub-grid; deterministic, same for every seed) | " +
			"chars (code point range: each scalar value as character and inside a string) | wire (swank message) | " +
			"pair (seeded object of depth <= 4, width <= 6 built as Go values x seeded printer configuration x print entry point) | " +
			"grid (seeded object x the full grid base 2..36+radix and 10 plain x 3 cases x flat and pretty at every margin 1..200 x readably/escape); " +
			"distinct = distinct case JSON; non-trivial = at least one print->read pair was judged. " +
			"Avoid set: 88% of the pair cases, all grid cases and 85% of the seeded wire messages (the clean stream) leave out the constructs listed as open findings " +
			"(symbol and keyword names outside letters, digits and -*+<>=_$%^~. ; characters the reader rejects after #\\; long floats whose shortest text is not exact at the precision the reader derives; " +
			"rank-0 and zero-extent arrays; under *print-pretty* t symbol names that need |...|; ratios and arrays of rank >= 2 under *print-radix* t and ? in names only while those findings are open; under *print-readably* nil strings holding \" \\ or control characters and every float but fractional doubles); " +
			"the remaining cases (the dirty stream) and the probe block generate them all",
		N:        nCases,
		Gen:      gen,
		Exec:     exec,
		Init:     setup,
		Batch:    400,
		HangSecs: 300,
		Assumptions: []string{
			"objects are built as Go values with slip's public constructors; only canonical representations are generated (small integers as Fixnum, ratios in lowest terms, rank-1 arrays as Vector)",
			"symbols are compared without regard to case (slip's symbols are case-insensitive); everything else exactly (floats by bits, long floats by exact value and sign)",
			"the harness's own structural comparison (type switch) is the trusted base; slip's Equal and printer are not used by the oracle",
		},
	})
}
