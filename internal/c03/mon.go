package c03

import (
	"fmt"
	"math"
	"strings"

	"github.com/ohler55/slip"

	"verif/internal/sl"
)

// Cfg is one setting of the printer control variables plus the public entry
// point used to print and to read.
type Cfg struct {
	Mode   string `json:"mode"`   // readably: *print-readably* t; escape: *print-readably* nil, *print-escape* t
	Base   int    `json:"base"`   // *print-base*
	Radix  bool   `json:"radix"`  // *print-radix*; when false and base /= 10 the text is read with *read-base* = base
	Case   string `json:"case"`   // downcase upcase capitalize
	Pretty bool   `json:"pretty"` // *print-pretty*
	Margin int    `json:"margin"` // *print-right-margin*
	Via    string `json:"via"`    // append: Printer.Append on a configured copy; keys: write-to-string keywords; vars: let-bound *print-...*
	Read   string `json:"read"`   // readstring: slip.ReadString; rfs: (read-from-string ...)
}

func defaultCfg() Cfg {
	return Cfg{Mode: "readably", Base: 10, Case: "downcase", Margin: 120, Via: "append", Read: "readstring"}
}

func (c Cfg) String() string {
	return fmt.Sprintf("{%s base=%d radix=%v case=%s pretty=%v margin=%d via=%s read=%s}",
		c.Mode, c.Base, c.Radix, c.Case, c.Pretty, c.Margin, c.Via, c.Read)
}

func (c Cfg) readBase() int {
	if !c.Radix {
		return c.Base
	}
	return 10
}

func lispBool(b bool) string {
	if b {
		return "t"
	}
	return "nil"
}

// printText prints obj under c through the chosen public entry point.
func printText(obj slip.Object, c Cfg) (text string, err *sl.Err) {
	switch c.Via {
	case "keys":
		scope := slip.NewScope()
		scope.Let(slip.Symbol("c03-x"), obj)
		src := fmt.Sprintf("(write-to-string c03-x :readably %s :escape t :array t :base %d :radix %s :case :%s :pretty %s :right-margin %d)",
			lispBool(c.Mode == "readably"), c.Base, lispBool(c.Radix), c.Case, lispBool(c.Pretty), c.Margin)
		res, e := sl.Eval(scope, src)
		if e != nil {
			return "", e
		}
		s, ok := res.(slip.String)
		if !ok {
			return "", &sl.Err{Class: "harness", Msg: "write-to-string did not return a string: " + show(res)}
		}
		return string(s), nil
	case "global":
		// the global printer variables are set with setq; the printer is restored afterwards
		saved := *slip.DefaultPrinter()
		defer func() { *slip.DefaultPrinter() = saved }()
		scope := slip.NewScope()
		scope.Let(slip.Symbol("c03-x"), obj)
		src := fmt.Sprintf("(progn (setq *print-readably* %s *print-escape* t *print-array* t *print-base* %d *print-radix* %s "+
			"*print-case* :%s *print-pretty* %s *print-right-margin* %d) (write-to-string c03-x))",
			lispBool(c.Mode == "readably"), c.Base, lispBool(c.Radix), c.Case, lispBool(c.Pretty), c.Margin)
		res, e := sl.Eval(scope, src)
		if e != nil {
			return "", e
		}
		s, ok := res.(slip.String)
		if !ok {
			return "", &sl.Err{Class: "harness", Msg: "write-to-string did not return a string: " + show(res)}
		}
		return string(s), nil
	case "vars":
		scope := slip.NewScope()
		scope.Let(slip.Symbol("c03-x"), obj)
		fn := "write-to-string"
		if c.Mode == "readably" && c.Margin%2 == 1 {
			fn = "prin1-to-string" // documented: as if *print-escape* and *print-readably* are true
		}
		src := fmt.Sprintf("(let ((*print-readably* %s) (*print-escape* t) (*print-array* t) (*print-base* %d) (*print-radix* %s) "+
			"(*print-case* :%s) (*print-pretty* %s) (*print-right-margin* %d)) (%s c03-x))",
			lispBool(c.Mode == "readably"), c.Base, lispBool(c.Radix), c.Case, lispBool(c.Pretty), c.Margin, fn)
		res, e := sl.Eval(scope, src)
		if e != nil {
			return "", e
		}
		s, ok := res.(slip.String)
		if !ok {
			return "", &sl.Err{Class: "harness", Msg: fn + " did not return a string: " + show(res)}
		}
		return string(s), nil
	}
	p := *slip.DefaultPrinter()
	p.Readably = c.Mode == "readably"
	p.ReadablyError = true
	p.Escape = true
	p.Array = true
	p.Base = uint(c.Base)
	p.Radix = c.Radix
	p.Case = slip.Symbol(":" + c.Case)
	p.Pretty = c.Pretty
	p.RightMargin = uint(c.Margin)
	p.Length, p.Level, p.Lines = math.MaxInt, math.MaxInt, math.MaxInt
	p.Prec = -1
	err = sl.Catch(func() {
		text = string(p.Append(nil, obj, 0))
	})
	return
}

// readBack reads text under the reader configuration matching c.
func readBack(text string, c Cfg) (objs []slip.Object, err *sl.Err) {
	scope := slip.NewScope()
	if rb := c.readBase(); rb != 10 {
		scope.Let(slip.Symbol("*read-base*"), slip.Fixnum(rb))
	}
	if c.Read == "rfs" {
		scope.Let(slip.Symbol("c03-s"), slip.String(text))
		res, e := sl.Eval(scope, "(multiple-value-list (read-from-string c03-s))")
		if e != nil {
			return nil, e
		}
		l, _ := res.(slip.List)
		if len(l) < 1 {
			return nil, nil
		}
		return []slip.Object{l[0]}, nil
	}
	err = sl.Catch(func() {
		code := slip.ReadString(text, scope)
		objs = []slip.Object(code)
	})
	return
}

// failure is the monitor's verdict on one (object, configuration) pair.
type failure struct {
	kind string // narrow failure kind; the first part of the signature
	msg  string
}

func errKind(prefix string, e *sl.Err) string {
	switch {
	case e.Internal:
		return prefix + "-internal"
	case e.Partial:
		return prefix + "-partial"
	}
	return prefix + "-error:" + e.Class
}

// judge runs one print -> read round trip on the real code and applies the
// relation oracle. It returns nil when the pair holds.
func judge(o *O, c Cfg, st *stats) *failure {
	if c.Via == "wire" {
		return judgeWire(o, st)
	}
	x := o.build()
	text, perr := printText(x, c)
	if st != nil {
		st.pairs++
	}
	if perr != nil {
		return &failure{errKind("print", perr), fmt.Sprintf("printing %s under %s failed: %s", show(x), c, perr)}
	}
	if d := same(o.build(), x, ""); d != nil {
		return &failure{"print-mutated", fmt.Sprintf("printing under %s changed the object itself: %s", c, d)}
	}
	objs, rerr := readBack(text, c)
	if rerr != nil {
		return &failure{errKind("read", rerr), fmt.Sprintf("%s printed under %s as %q cannot be read back: %s", show(x), c, text, rerr)}
	}
	switch {
	case len(objs) == 0:
		return &failure{"read-count:0", fmt.Sprintf("%s printed under %s as %q reads back as nothing", show(x), c, text)}
	case 1 < len(objs):
		return &failure{"read-count:many", fmt.Sprintf("%s printed under %s as %q reads back as %d objects: %s",
			show(x), c, text, len(objs), trunc(show(slip.List(objs)), 300))}
	}
	if d := same(x, objs[0], ""); d != nil {
		k := d.what
		switch d.what {
		case "type":
			k = "type:" + d.a + "->" + d.b
		case "value":
			k = "value:" + strings.SplitN(d.a, " ", 2)[0]
		}
		return &failure{k, fmt.Sprintf("%s printed under %s as %q reads back as %s; %s", show(x), c, text, trunc(show(objs[0]), 300), d)}
	}
	if c.Pretty {
		// pretty printing changes only white space
		fc := c
		fc.Pretty = false
		flat, ferr := printText(o.build(), fc)
		if st != nil {
			st.pairs++
			st.prettyPairs++
		}
		if ferr == nil {
			if skeleton(flat) != skeleton(text) {
				return &failure{"pretty-not-only-whitespace", fmt.Sprintf("%s: pretty text %q and flat text %q differ in more than white space (%s)",
					show(x), text, flat, c)}
			}
			if st != nil && flat != text {
				st.prettyDiffers++
			}
			fobjs, e := readBack(flat, fc)
			if e == nil && len(fobjs) == 1 {
				if d := same(fobjs[0], objs[0], ""); d != nil {
					return &failure{"pretty-reads-differently", fmt.Sprintf("%s: pretty text %q and flat text %q read back to different objects: %s",
						show(x), text, flat, d)}
				}
			}
		}
	}
	return nil
}

// skeleton removes the white space the printer may insert between tokens:
// spaces and newlines outside "strings", |symbols| and #\x character tokens.
func skeleton(s string) string {
	var b strings.Builder
	rs := []rune(s)
	for i := 0; i < len(rs); i++ {
		r := rs[i]
		switch r {
		case '"', '|':
			b.WriteRune(r)
			for i++; i < len(rs); i++ {
				b.WriteRune(rs[i])
				if rs[i] == '\\' && i+1 < len(rs) {
					i++
					b.WriteRune(rs[i])
					continue
				}
				if rs[i] == r {
					break
				}
			}
		case '#':
			b.WriteRune(r)
			if i+2 < len(rs) && rs[i+1] == '\\' {
				b.WriteRune(rs[i+1])
				b.WriteRune(rs[i+2])
				i += 2
			}
		case ' ', '\n':
		default:
			b.WriteRune(r)
		}
	}
	return b.String()
}

// stats are per-case monitor counters.
type stats struct {
	pairs         int
	prettyPairs   int
	prettyDiffers int
	minimised     int
	attributed    int
}
