package c08

import (
	"fmt"
	"os"
	"strings"

	"github.com/ohler55/slip"

	"verif/internal/fw"
)

// Definition order with callees that are NOT made by defun: struct accessors
// and constructors, slot readers and accessors of a class, generic functions
// (defgeneric + defmethod, or defmethod alone), flavor methods reached by
// send, macros stay first. A program is a list of definition forms and a main
// form; every permutation of the definitions, evaluated form by form, each
// form compiled before it is evaluated, as one code object, compiled as a
// whole, or loaded from a file, must give the value the textual order (every
// callee defined before its callers) gives, on every one of three
// evaluations of the main form. Relation monitor, no reference model: the
// textual order is what the forms mean.

type kindProg struct {
	name string
	defs []string
	main string
	// first[j] = i: definition i is a prerequisite of definition j by the language (the flavor
	// of a flavor method, the defgeneric its defmethods extend); such pairs keep their order,
	// the property is about callers and callees
	first map[int]int
}

var kindProgs = []kindProg{
	{"struct-accessor", []string{
		"(defstruct @s x y)",
		"(defun @f0 (p) (+ (@s-x p) (* 10 (@s-y p))))",
		"(defun @f1 (a) (@f0 (make-@s :x a :y 2)))"},
		"(list (@f1 1) (@f1 5))", nil},
	{"struct-predicate-copier", []string{
		"(defstruct @s x)",
		"(defun @f0 (p) (list (@s-p p) (@s-p 3) (@s-x (copy-@s p))))"},
		"(@f0 (make-@s :x 4))", nil},
	{"class-reader", []string{
		"(defclass @c () ((a :initarg :a :reader @ra) (b :initarg :b :accessor @ab)))",
		"(defun @f0 (o) (list (@ra o) (@ab o)))",
		"(defun @f1 (v) (let ((o (make-instance '@c :a v :b 2))) (setf (@ab o) (+ v 10)) (@f0 o)))"},
		"(list (@f1 1) (@f1 5))", nil},
	{"defgeneric-defmethod", []string{
		"(defgeneric @g (x))",
		"(defmethod @g ((x fixnum)) (list 'n x))",
		"(defmethod @g ((x string)) (list 's x))",
		"(defun @f0 (a) (list (@g a) (@g \"q\")))"},
		"(list (@f0 1) (@f0 2))", map[int]int{1: 0, 2: 0}},
	{"defmethod-alone", []string{
		"(defmethod @g ((x t)) (list 'any x))",
		"(defun @f0 (a) (@g (+ a 1)))",
		"(defun @f1 (a) (list (@f0 a) (funcall #'@g a) (mapcar #'@g (list a a))))"},
		"(list (@f1 1) (@f1 2))", nil},
	{"flavor-method", []string{
		"(defflavor @fl ((v 3)) () :gettable-instance-variables :settable-instance-variables)",
		"(defmethod (@fl :twice) (k) (* k v 2))",
		"(defun @f0 (a) (let ((i (make-instance '@fl))) (send i :set-v a) (list (send i :v) (send i :twice 5))))"},
		"(list (@f0 1) (@f0 4))", map[int]int{1: 0}},
	{"defun-calls-defun-calls-struct", []string{
		"(defstruct @s x)",
		"(defun @f0 (p) (@s-x p))",
		"(defun @f1 (p) (1+ (@f0 p)))",
		"(defun @f2 (a) (@f1 (make-@s :x a)))"},
		"(list (@f2 1) (@f2 7))", nil},
	{"function-and-variable-of-one-name", []string{
		"(defun @n () @n)",
		"(defvar @n 7)",
		"(defun @f0 (a) (list (@n) @n (+ a @n)))"},
		"(list (@f0 1) (@f0 2))", nil},
	{"function-and-constant-of-one-name", []string{
		"(defun @m () @m)",
		"(defconstant @m 9)",
		"(defun @f0 () (list (@m) @m))"},
		"(@f0)", nil},
	// argument values that are not self-evaluating: a symbol, a list that looks like a call, a
	// quote form - whichever function is defined first, they arrive as they are
	{"data-arguments", []string{
		"(defun @f0 (y) y)",
		"(defun @f1 (x) (list 'got (@f0 x)))",
		"(defun @f2 (x z) (list (@f1 x) (@f0 z) (@f1 (list x z))))"},
		"(let ((foo 42) (z 3)) (list (@f1 'foo) (@f1 '(+ 1 2)) (@f2 'z ''q) (@f1 (list '+ foo z)) (@f2 '(list 1) 'foo)))", nil},
	{"data-arguments-self-call", []string{
		"(defun @f0 (x acc) (if (consp x) (@f0 (cdr x) (cons (car x) acc)) (list acc x)))",
		"(defun @f1 (x) (@f0 x (list 'end)))"},
		"(let ((a 1) (b 2)) (list (@f1 '(a b (+ a b))) (@f1 '(quote a)) (@f0 '(b) 'a)))", nil},
	{"data-arguments-optional-key-rest", []string{
		"(defun @f0 (a &optional (b 'nb) &key (c 'nc)) (list a b c))",
		"(defun @f1 (&rest r) r)",
		"(defun @f2 (x) (list (@f0 x) (@f0 x x) (@f0 x x :c x) (@f1 x 'y x) (apply #'@f1 x (list x)) (funcall #'@f0 x)))"},
		"(let ((s 5)) (list (@f2 's) (@f2 '(car s))))", nil},
	{"constant-and-parameter", []string{
		"(defconstant @k 7)",
		"(defparameter *@p* 2)",
		"(defun @f0 (a) (+ a @k *@p*))"},
		"(list (@f0 1) (@f0 2))", nil},
}

// histProgs: histories with fmakunbound between definitions: the forms are evaluated in order
// (form by form, or each compiled first), `defs` before them in every order; the last form's
// value is given by the language: a caller always runs the CURRENT definition of its callee.
type histProg struct {
	name  string
	defs  []string
	steps []string
	want  string
}

var histProgs = []histProg{
	{"fmakunbound-then-defun", []string{"(defun @f1 (a) (list 1 a))", "(defun @f0 (a) (@f1 a))"},
		[]string{"(@f0 1)", "(fmakunbound '@f1)", "(defun @f1 (a) (list 2 a))", "(list (@f0 1) (@f1 3))"}, "((2 1) (2 3))"},
	{"fmakunbound-twice", []string{"(defun @f1 () 'one)", "(defun @f0 () (@f1))"},
		[]string{"(@f0)", "(defun @f1 () 'two)", "(@f0)", "(fmakunbound '@f1)", "(defun @f1 () 'three)", "(@f0)", "(fmakunbound '@f1)", "(defun @f1 () 'four)", "(list (@f0) (funcall #'@f0) (@f1))"}, "(four four four)"},
	{"fmakunbound-caller-uncalled", []string{"(defun @f1 (a) (* a 2))", "(defun @f0 (a) (+ 1 (@f1 a)))"},
		[]string{"(fmakunbound '@f1)", "(defun @f1 (a) (* a 3))", "(@f0 5)"}, "16"},
	{"fmakunbound-macro-then-defun", []string{"(defun @f0 (a) (list (@f1 a)))", "(defun @f1 (a) a)"},
		[]string{"(@f0 1)", "(fmakunbound '@f1)", "(defun @f1 (a) (- a))", "(@f0 1)"}, "(-1)"},
}

var kindModes = []string{"repl", "crepl", "eval", "compile", "load"}

func kindCases() []Case {
	var out []Case
	for i := range kindProgs {
		out = append(out, Case{Kind: "kinds", K: i})
	}
	for i := range histProgs {
		out = append(out, Case{Kind: "kinds", K: 1000 + i})
	}
	return out
}

func execHist(x *fw.Ctx, hp histProg) {
	x.Cover("kinds-history:" + hp.name)
	for _, perm := range perms(len(hp.defs)) {
		for _, compile := range []bool{false, true} {
			w := newWorld(20000)
			var forms []string
			for _, i := range perm {
				forms = append(forms, hp.defs[i])
			}
			forms = append(forms, hp.steps...)
			var last obs
			failed := ""
			for _, f := range forms {
				src := w.name(f)
				last = w.do(func() slip.Object {
					code := slip.ReadString(src, w.scope)
					if compile {
						code.Compile()
					}
					return code.Eval(w.scope, nil)
				})
				if last.err != nil {
					failed = src + ": " + last.err.String()
					break
				}
			}
			x.Cover("kinds-history-evaluations")
			got := last.val
			if failed != "" {
				got = "error at " + failed
			}
			if got != hp.want {
				x.Fail(fmt.Sprintf("kinds history=%s fail=stale-or-wrong", hp.name), "definitions in the order %v (compiled=%v), then %s: the last form gives %s, the language gives %s", perm, compile, strings.Join(hp.steps, " "), got, hp.want)
				return
			}
		}
	}
}

func execKinds(x *fw.Ctx, c Case) {
	if 1000 <= c.K {
		execHist(x, histProgs[c.K-1000])
		return
	}
	kp := kindProgs[c.K]
	x.Cover("kinds:" + kp.name)
	run := func(perm []int, mode string) (string, bool) {
		w := newWorld(20000)
		var forms []string
		for _, i := range perm {
			forms = append(forms, w.name(kp.defs[i]))
		}
		main := w.name(kp.main)
		var vals []string
		eval := func(src string, compile bool) obs {
			return w.do(func() slip.Object {
				code := slip.ReadString(src, w.scope)
				if compile {
					code.Compile()
				}
				return code.Eval(w.scope, nil)
			})
		}
		switch mode {
		case "repl", "crepl":
			for _, f := range forms {
				if o := eval(f, mode == "crepl"); o.err != nil {
					return "definition failed: " + f + ": " + o.err.String(), false
				}
			}
		case "eval", "compile":
			if o := eval(strings.Join(forms, "\n"), mode == "compile"); o.err != nil {
				return "definitions failed: " + o.err.String(), false
			}
		case "load":
			file := fmt.Sprintf("c08-kinds-%s.lisp", w.sfx)
			if err := os.WriteFile(file, []byte(strings.Join(forms, "\n")+"\n"), 0o644); err != nil {
				return "harness: " + err.Error(), false
			}
			if o := eval(fmt.Sprintf("(load %q)", file), false); o.err != nil {
				return "load failed: " + o.err.String(), false
			}
		}
		for k := 0; k < 3; k++ {
			o := eval(main, mode == "crepl" || mode == "compile")
			if o.err != nil {
				return fmt.Sprintf("evaluation %d of the main form failed: %s", k+1, o.err.String()), false
			}
			vals = append(vals, o.val)
		}
		return strings.Join(vals, " | "), true
	}
	n := len(kp.defs)
	ident := make([]int, n)
	for i := range ident {
		ident[i] = i
	}
	want, ok := run(ident, "repl")
	if !ok {
		x.Fail("kinds prog="+kp.name+" fail=textual-order", "the program does not run in its textual order: %s", want)
		return
	}
	x.Observe(map[string]any{"program": kp.defs, "main": kp.main, "textual-order-gives": want})
	for _, perm := range perms(n) {
		pos := make([]int, n)
		for at, i := range perm {
			pos[i] = at
		}
		admissible := true
		for j, i := range kp.first {
			if pos[j] < pos[i] {
				admissible = false
			}
		}
		if !admissible {
			continue
		}
		x.Cover("kinds-orders")
		for _, mode := range kindModes {
			got, ok := run(perm, mode)
			x.Cover("kinds-evaluations")
			x.Cover("kinds-mode:" + mode)
			if !ok || got != want {
				x.Fail(fmt.Sprintf("kinds prog=%s mode=%s fail=differs-from-textual-order", kp.name, mode),
					"definitions in the order %v (%s): %s; the textual order gives %s; definitions: %s; main: %s", perm, mode, got, want, strings.Join(kp.defs, " "), kp.main)
				break
			}
		}
	}
}
