// Package ref is the reference evaluator of check C08: a small lexically
// scoped Lisp interpreter for the program subset the C08 generator emits
// (defun, calls with arguments, let/let*, if/cond/when/unless, and/or,
// progn, setq, dotimes, small-integer arithmetic, list construction, trace
// markers, funcall/apply, global variables, ordinary lambda lists with
// &optional / &rest / &key and init forms, ignore-errors around a call that
// does not fit the callee's lambda list). It is written from the language
// definition and does not import slip.
package ref

import (
	"fmt"
	"strconv"
	"strings"
)

// Node is a parsed s-expression: an integer, a symbol or a list.
type Node struct {
	Kind byte // 'i' integer, 's' symbol, 'l' list
	Int  int64
	Sym  string
	List []*Node
}

// Parse reads all forms of src.
func Parse(src string) ([]*Node, error) {
	p := &parser{src: src}
	var out []*Node
	for {
		p.skip()
		if len(p.src) <= p.pos {
			return out, nil
		}
		n, err := p.form()
		if err != nil {
			return nil, err
		}
		out = append(out, n)
	}
}

// MustParse is Parse for generator output.
func MustParse(src string) []*Node {
	ns, err := Parse(src)
	if err != nil {
		panic(fmt.Sprintf("c08/ref: %s in %q", err, src))
	}
	return ns
}

type parser struct {
	src string
	pos int
}

func (p *parser) skip() {
	for p.pos < len(p.src) {
		switch p.src[p.pos] {
		case ' ', '\n', '\t', '\r':
			p.pos++
		default:
			return
		}
	}
}

func sym(s string) *Node { return &Node{Kind: 's', Sym: s} }

func (p *parser) form() (*Node, error) {
	p.skip()
	if len(p.src) <= p.pos {
		return nil, fmt.Errorf("unexpected end")
	}
	c := p.src[p.pos]
	switch {
	case c == '(':
		p.pos++
		n := &Node{Kind: 'l'}
		for {
			p.skip()
			if len(p.src) <= p.pos {
				return nil, fmt.Errorf("unclosed list")
			}
			if p.src[p.pos] == ')' {
				p.pos++
				return n, nil
			}
			e, err := p.form()
			if err != nil {
				return nil, err
			}
			n.List = append(n.List, e)
		}
	case c == ')':
		return nil, fmt.Errorf("unexpected )")
	case c == '\'':
		p.pos++
		e, err := p.form()
		if err != nil {
			return nil, err
		}
		return &Node{Kind: 'l', List: []*Node{sym("quote"), e}}, nil
	case c == '`' || c == ',':
		head := "backquote"
		p.pos++
		if c == ',' {
			head = "comma"
			if p.pos < len(p.src) && p.src[p.pos] == '@' {
				head = "comma-at"
				p.pos++
			}
		}
		e, err := p.form()
		if err != nil {
			return nil, err
		}
		return &Node{Kind: 'l', List: []*Node{sym(head), e}}, nil
	case c == '#' && p.pos+1 < len(p.src) && p.src[p.pos+1] == '\'':
		p.pos += 2
		e, err := p.form()
		if err != nil {
			return nil, err
		}
		return &Node{Kind: 'l', List: []*Node{sym("function"), e}}, nil
	}
	start := p.pos
	for p.pos < len(p.src) && !strings.ContainsRune(" \n\t\r()'`,", rune(p.src[p.pos])) {
		p.pos++
	}
	tok := p.src[start:p.pos]
	if i, err := strconv.ParseInt(tok, 10, 64); err == nil {
		return &Node{Kind: 'i', Int: i}, nil
	}
	return sym(strings.ToLower(tok)), nil
}

// Val is a value of the reference evaluator: int64, Nil, T, *List, Symbol, *Closure.
type Val interface{}

type (
	// Nil is the empty list / false.
	Nil struct{}
	// T is true.
	T struct{}
	// Symbol is a quoted symbol (used as a function designator).
	Symbol string
	// List is a proper, non-empty list.
	List struct{ Elems []Val }
	// Closure is a lambda with its lexical environment.
	Closure struct {
		LL   *LambdaList
		Body []*Node
		Env  *env
	}
)

// Param is an &optional or &key parameter with its init form (nil = none).
type Param struct {
	Name string
	Init *Node
}

// LambdaList is an ordinary lambda list: required parameters, &optional
// parameters, a &rest parameter and &key parameters.
type LambdaList struct {
	Req    []string
	Opt    []Param
	Rest   string
	HasKey bool
	Keys   []Param
}

// ArityError is the failure of a call whose arguments do not fit the lambda
// list of the callee (the one failure generated programs provoke on purpose,
// inside ignore-errors).
type ArityError struct{ Msg string }

// Show renders a value the way the harness renders slip objects (sl.Show).
func Show(v Val) string {
	switch tv := v.(type) {
	case int64:
		return strconv.FormatInt(tv, 10)
	case Nil:
		return "nil"
	case T:
		return "t"
	case Symbol:
		return string(tv)
	case *List:
		var b strings.Builder
		b.WriteByte('(')
		for i, e := range tv.Elems {
			if 0 < i {
				b.WriteByte(' ')
			}
			b.WriteString(Show(e))
		}
		b.WriteByte(')')
		return b.String()
	case *Closure:
		return "#<lambda>"
	}
	return fmt.Sprintf("#<%T>", v)
}

// Func is a user function.
type Func struct {
	LL   *LambdaList
	Body []*Node
	Env  *env // lexical environment of the defun form (a defun inside let/let*/lambda closes over it)
}

// Macro is a user macro whose body is one backquote template: (defmacro name
// (p... [&rest r]) `template). A use is expanded afresh at every evaluation:
// the template is copied with the (unevaluated) argument forms put in place
// of ,p and spliced in place of ,@r, then the copy is evaluated in the
// environment of the use.
type Macro struct {
	Params []string
	Rest   string
	Tmpl   *Node
}

type env struct {
	vars   map[string]Val
	parent *env
}

func (e *env) lookup(name string) (*env, bool) {
	for ; e != nil; e = e.parent {
		if _, ok := e.vars[name]; ok {
			return e, true
		}
	}
	return nil, false
}

// Error is an evaluation failure of the reference (should not happen on
// generated programs; the check treats it as a harness fault).
type Error struct{ Msg string }

func (e *Error) Error() string { return e.Msg }

// Budget is raised when the step budget is exhausted.
type Budget struct{}

// Machine holds the global state of one program instance: functions,
// global variables, the trace and a step counter.
type Machine struct {
	Funcs   map[string]*Func
	Macros  map[string]*Macro
	Globals map[string]Val
	Trace   []int64
	Steps   int
	Max     int
}

// New returns an empty machine with a step budget.
func New(max int) *Machine {
	return &Machine{Funcs: map[string]*Func{}, Macros: map[string]*Macro{}, Globals: map[string]Val{}, Max: max}
}

func fail(format string, a ...any) { panic(&Error{Msg: fmt.Sprintf(format, a...)}) }

// Top evaluates one top-level form (defun, defvar, defparameter or an
// expression) and returns its value.
func (m *Machine) Top(n *Node) (v Val, err error) {
	defer func() {
		if r := recover(); r != nil {
			switch tr := r.(type) {
			case *Error:
				err = tr
			case *ArityError:
				err = &Error{Msg: "arity: " + tr.Msg}
			case Budget:
				err = &Error{Msg: "budget"}
			default:
				panic(r)
			}
		}
	}()
	return m.eval(n, nil), nil
}

// small keeps the reference inside the range where it is exact and where
// the interpreter's integer representation is not in question (C05): a
// result beyond 2^40 ends the evaluation like an exhausted budget.
func small(v int64) int64 {
	if v > 1<<40 || v < -(1<<40) {
		panic(Budget{})
	}
	return v
}

func truth(b bool) Val {
	if b {
		return T{}
	}
	return Nil{}
}

func isTrue(v Val) bool {
	_, isNil := v.(Nil)
	return !isNil
}

func asInt(v Val, who string) int64 {
	i, ok := v.(int64)
	if !ok {
		fail("%s: %s is not an integer", who, Show(v))
	}
	return i
}

func asList(v Val, who string) []Val {
	switch tv := v.(type) {
	case Nil:
		return nil
	case *List:
		return tv.Elems
	}
	fail("%s: %s is not a list", who, Show(v))
	return nil
}

func mkList(elems []Val) Val {
	if len(elems) == 0 {
		return Nil{}
	}
	return &List{Elems: elems}
}

func (m *Machine) body(forms []*Node, e *env) Val {
	var v Val = Nil{}
	for _, f := range forms {
		v = m.eval(f, e)
	}
	return v
}

func (m *Machine) getVar(name string, e *env) Val {
	if fe, ok := e.lookup(name); ok {
		return fe.vars[name]
	}
	if v, ok := m.Globals[name]; ok {
		return v
	}
	fail("variable %s is unbound", name)
	return nil
}

func (m *Machine) setVar(name string, v Val, e *env) {
	if fe, ok := e.lookup(name); ok {
		fe.vars[name] = v
		return
	}
	if _, ok := m.Globals[name]; ok {
		m.Globals[name] = v
		return
	}
	fail("setq of undeclared variable %s", name)
}

func (m *Machine) callUser(name string, args []Val) Val {
	fn := m.Funcs[name]
	if fn == nil {
		fail("function %s is not defined", name)
	}
	return m.body(fn.Body, m.bind(name, fn.LL, args, fn.Env))
}

func (m *Machine) apply(f Val, args []Val) Val {
	switch tf := f.(type) {
	case Symbol:
		return m.ordinary(string(tf), args)
	case *Closure:
		return m.body(tf.Body, m.bind("lambda", tf.LL, args, tf.Env))
	}
	fail("%s is not a function designator", Show(f))
	return nil
}

// bind makes the environment of a call (CLHS 3.4.1): required parameters,
// then &optional parameters, the &rest list, then &key parameters, from left
// to right; the init form of an absent parameter is evaluated with the
// parameters before it bound. Dialect (slip documents it for defun): with
// &key any other keyword is allowed and ignored. Of a keyword given twice the
// leftmost counts.
func (m *Machine) bind(who string, ll *LambdaList, args []Val, parent *env) *env {
	ne := &env{vars: map[string]Val{}, parent: parent}
	if len(args) < len(ll.Req) {
		panic(&ArityError{Msg: fmt.Sprintf("%s called with %d arguments, needs %d", who, len(args), len(ll.Req))})
	}
	for i, p := range ll.Req {
		ne.vars[p] = args[i]
	}
	args = args[len(ll.Req):]
	for _, p := range ll.Opt {
		switch {
		case 0 < len(args):
			ne.vars[p.Name] = args[0]
			args = args[1:]
		case p.Init != nil:
			ne.vars[p.Name] = m.eval(p.Init, ne)
		default:
			ne.vars[p.Name] = Nil{}
		}
	}
	if ll.Rest != "" {
		ne.vars[ll.Rest] = mkList(append([]Val{}, args...))
	}
	if !ll.HasKey {
		if ll.Rest == "" && 0 < len(args) {
			panic(&ArityError{Msg: fmt.Sprintf("%s called with %d arguments too many", who, len(args))})
		}
		return ne
	}
	if len(args)%2 != 0 {
		panic(&ArityError{Msg: fmt.Sprintf("%s called with an odd number of keyword arguments", who)})
	}
	for i := 0; i < len(args); i += 2 {
		if k, ok := args[i].(Symbol); !ok || !strings.HasPrefix(string(k), ":") {
			panic(&ArityError{Msg: fmt.Sprintf("%s called with %s where a keyword is expected", who, Show(args[i]))})
		}
	}
	for _, p := range ll.Keys {
		found := false
		for i := 0; i < len(args); i += 2 {
			if string(args[i].(Symbol)) == ":"+p.Name {
				ne.vars[p.Name] = args[i+1]
				found = true
				break
			}
		}
		switch {
		case found:
		case p.Init != nil:
			ne.vars[p.Name] = m.eval(p.Init, ne)
		default:
			ne.vars[p.Name] = Nil{}
		}
	}
	return ne
}

// lambdaList parses an ordinary lambda list.
func lambdaList(n *Node) *LambdaList {
	ll := &LambdaList{}
	mode := 0
	for _, p := range n.List {
		if p.Kind == 's' && strings.HasPrefix(p.Sym, "&") {
			switch p.Sym {
			case "&optional":
				mode = 1
			case "&rest", "&body":
				mode = 2
			case "&key":
				mode = 3
				ll.HasKey = true
			default:
				fail("lambda list keyword %s is not supported", p.Sym)
			}
			continue
		}
		var pm Param
		switch {
		case p.Kind == 's':
			pm.Name = p.Sym
		case p.Kind == 'l' && len(p.List) == 2 && p.List[0].Kind == 's' && 0 < mode:
			pm.Name, pm.Init = p.List[0].Sym, p.List[1]
		default:
			fail("unsupported parameter in lambda list")
		}
		switch mode {
		case 0:
			ll.Req = append(ll.Req, pm.Name)
		case 1:
			ll.Opt = append(ll.Opt, pm)
		case 2:
			if pm.Init != nil || ll.Rest != "" {
				fail("bad &rest parameter")
			}
			ll.Rest = pm.Name
		case 3:
			ll.Keys = append(ll.Keys, pm)
		}
	}
	return ll
}

func (m *Machine) eval(n *Node, e *env) Val {
	m.Steps++
	if m.Max < m.Steps {
		panic(Budget{})
	}
	switch n.Kind {
	case 'i':
		return n.Int
	case 's':
		switch n.Sym {
		case "nil":
			return Nil{}
		case "t":
			return T{}
		}
		if strings.HasPrefix(n.Sym, ":") {
			return Symbol(n.Sym) // a keyword evaluates to itself
		}
		return m.getVar(n.Sym, e)
	}
	if len(n.List) == 0 {
		return Nil{}
	}
	head := n.List[0]
	a := n.List[1:]
	if head.Kind == 'l' {
		// ((lambda (p...) body...) args...)
		f := m.eval(head, e)
		return m.apply(f, m.args(a, e))
	}
	if head.Kind != 's' {
		fail("bad operator")
	}
	if i := strings.IndexByte(head.Sym, ':'); 0 < i {
		// a package qualified operator names the same function as the bare one
		h2 := *head
		h2.Sym = strings.TrimLeft(head.Sym[i:], ":")
		head = &h2
	}
	if mac := m.Macros[head.Sym]; mac != nil {
		return m.eval(mac.expand(a), e)
	}
	switch head.Sym {
	case "defmacro":
		mac := &Macro{}
		ps := a[1].List
		for i := 0; i < len(ps); i++ {
			if ps[i].Sym == "&rest" || ps[i].Sym == "&body" {
				mac.Rest = ps[i+1].Sym
				break
			}
			mac.Params = append(mac.Params, ps[i].Sym)
		}
		t := a[2]
		if t.Kind != 'l' || len(t.List) != 2 || t.List[0].Sym != "backquote" {
			fail("defmacro body is not a backquote template")
		}
		mac.Tmpl = t.List[1]
		m.Macros[a[0].Sym] = mac
		delete(m.Funcs, a[0].Sym)
		return Symbol(a[0].Sym)
	case "quote":
		return m.quoted(a[0])
	case "function":
		if a[0].Kind == 's' {
			return Symbol(a[0].Sym)
		}
		return m.eval(a[0], e)
	case "lambda":
		return &Closure{LL: lambdaList(a[0]), Body: a[1:], Env: e}
	case "defun":
		m.Funcs[a[0].Sym] = &Func{LL: lambdaList(a[1]), Body: a[2:], Env: e}
		delete(m.Macros, a[0].Sym)
		return Symbol(a[0].Sym)
	case "ignore-errors":
		// only the failure of a call to fit the callee's lambda list is an
		// expected error of generated programs
		return m.ignoreArity(a, e)
	case "defvar", "defconstant":
		if _, has := m.Globals[a[0].Sym]; !has {
			m.Globals[a[0].Sym] = m.eval(a[1], e)
		}
		return Symbol(a[0].Sym)
	case "defparameter":
		m.Globals[a[0].Sym] = m.eval(a[1], e)
		return Symbol(a[0].Sym)
	case "if":
		if isTrue(m.eval(a[0], e)) {
			return m.eval(a[1], e)
		}
		if 2 < len(a) {
			return m.eval(a[2], e)
		}
		return Nil{}
	case "cond":
		for _, cl := range a {
			v := m.eval(cl.List[0], e)
			if isTrue(v) {
				if len(cl.List) == 1 {
					return v
				}
				return m.body(cl.List[1:], e)
			}
		}
		return Nil{}
	case "when":
		if isTrue(m.eval(a[0], e)) {
			return m.body(a[1:], e)
		}
		return Nil{}
	case "unless":
		if !isTrue(m.eval(a[0], e)) {
			return m.body(a[1:], e)
		}
		return Nil{}
	case "and":
		var v Val = T{}
		for _, x := range a {
			if v = m.eval(x, e); !isTrue(v) {
				return Nil{}
			}
		}
		return v
	case "or":
		for _, x := range a {
			if v := m.eval(x, e); isTrue(v) {
				return v
			}
		}
		return Nil{}
	case "progn":
		return m.body(a, e)
	case "let", "let*":
		ne := &env{vars: map[string]Val{}, parent: e}
		for _, b := range a[0].List {
			var (
				name string
				v    Val = Nil{}
			)
			if b.Kind == 's' {
				name = b.Sym
			} else {
				name = b.List[0].Sym
				if 1 < len(b.List) {
					if head.Sym == "let" {
						v = m.eval(b.List[1], e)
					} else {
						v = m.eval(b.List[1], ne)
					}
				}
			}
			ne.vars[name] = v
		}
		return m.body(a[1:], ne)
	case "setq":
		var v Val = Nil{}
		for i := 0; i+1 < len(a); i += 2 {
			v = m.eval(a[i+1], e)
			m.setVar(a[i].Sym, v, e)
		}
		return v
	case "dotimes":
		spec := a[0].List
		cnt := asInt(m.eval(spec[1], e), "dotimes")
		ne := &env{vars: map[string]Val{spec[0].Sym: int64(0)}, parent: e}
		for i := int64(0); i < cnt; i++ {
			ne.vars[spec[0].Sym] = i
			m.body(a[1:], ne)
		}
		if 2 < len(spec) {
			ne.vars[spec[0].Sym] = cnt
			return m.eval(spec[2], ne)
		}
		return Nil{}
	}
	// ordinary functions: arguments are evaluated left to right
	return m.ordinary(head.Sym, m.args(a, e))
}

// ordinary applies an ordinary function (a built-in of the subset, else a function of the
// program) to evaluated arguments: the operator of a call form, or a function designator
// handed to funcall / apply (#'+, 'list, #'f).
func (m *Machine) ordinary(name string, args []Val) Val {
	head := &Node{Kind: 's', Sym: name}
	switch head.Sym {
	case "vtr":
		m.Trace = append(m.Trace, asInt(args[0], "vtr"))
		return args[1]
	case "+":
		var s int64
		for _, x := range args {
			s = small(s + asInt(x, "+"))
		}
		return s
	case "*":
		s := int64(1)
		for _, x := range args {
			s = small(s * asInt(x, "*"))
		}
		return s
	case "-":
		if len(args) == 1 {
			return -asInt(args[0], "-")
		}
		s := asInt(args[0], "-")
		for _, x := range args[1:] {
			s = small(s - asInt(x, "-"))
		}
		return s
	case "1+":
		return asInt(args[0], "1+") + 1
	case "1-":
		return asInt(args[0], "1-") - 1
	case "=", "<", ">", "<=", ">=":
		res := true
		for i := 0; i+1 < len(args); i++ {
			x, y := asInt(args[i], head.Sym), asInt(args[i+1], head.Sym)
			var ok bool
			switch head.Sym {
			case "=":
				ok = x == y
			case "<":
				ok = x < y
			case ">":
				ok = x > y
			case "<=":
				ok = x <= y
			case ">=":
				ok = x >= y
			}
			if !ok {
				res = false
			}
		}
		return truth(res)
	case "zerop":
		return truth(asInt(args[0], "zerop") == 0)
	case "not", "null":
		return truth(!isTrue(args[0]))
	case "list":
		return mkList(args)
	case "cons":
		return mkList(append([]Val{args[0]}, asList(args[1], "cons")...))
	case "append":
		var all []Val
		for _, x := range args {
			all = append(all, asList(x, "append")...)
		}
		return mkList(all)
	case "reverse":
		l := asList(args[0], "reverse")
		out := make([]Val, len(l))
		for i, x := range l {
			out[len(l)-1-i] = x
		}
		return mkList(out)
	case "length":
		return int64(len(asList(args[0], "length")))
	case "car", "first":
		l := asList(args[0], "car")
		if len(l) == 0 {
			return Nil{}
		}
		return l[0]
	case "cdr", "rest":
		l := asList(args[0], "cdr")
		if len(l) < 2 {
			return Nil{}
		}
		return mkList(append([]Val{}, l[1:]...))
	case "funcall":
		return m.apply(args[0], args[1:])
	case "apply":
		last := asList(args[len(args)-1], "apply")
		all := append(append([]Val{}, args[1:len(args)-1]...), last...)
		return m.apply(args[0], all)
	}
	return m.callUser(head.Sym, args)
}

func (m *Machine) ignoreArity(forms []*Node, e *env) (v Val) {
	defer func() {
		if r := recover(); r != nil {
			if _, ok := r.(*ArityError); !ok {
				panic(r)
			}
			v = Nil{}
		}
	}()
	return m.body(forms, e)
}

func (m *Machine) args(a []*Node, e *env) []Val {
	out := make([]Val, len(a))
	for i, x := range a {
		out[i] = m.eval(x, e)
	}
	return out
}

func (m *Machine) quoted(n *Node) Val {
	switch n.Kind {
	case 'i':
		return n.Int
	case 's':
		switch n.Sym {
		case "nil":
			return Nil{}
		case "t":
			return T{}
		}
		return Symbol(n.Sym)
	}
	elems := make([]Val, len(n.List))
	for i, x := range n.List {
		elems[i] = m.quoted(x)
	}
	return mkList(elems)
}

// Calls lists the user functions (symbols starting with prefix) called
// directly — as operator, or through #'name / 'name — in the forms, with the
// number of arguments written at each operator-position call (-1 for a
// designator use).
func Calls(forms []*Node, prefix string) map[string][]int {
	out := map[string][]int{}
	var walk func(n *Node)
	walk = func(n *Node) {
		if n.Kind != 'l' || len(n.List) == 0 {
			return
		}
		h := n.List[0]
		if h.Kind == 's' {
			switch {
			case strings.HasPrefix(h.Sym, prefix):
				out[h.Sym] = append(out[h.Sym], len(n.List)-1)
			case (h.Sym == "function" || h.Sym == "quote") && len(n.List) == 2 && n.List[1].Kind == 's':
				if strings.HasPrefix(n.List[1].Sym, prefix) {
					out[n.List[1].Sym] = append(out[n.List[1].Sym], -1)
				}
				return
			}
		}
		for _, x := range n.List {
			walk(x)
		}
	}
	for _, f := range forms {
		walk(f)
	}
	return out
}

// LambdaHeadFree tells whether the forms contain ((lambda (params) body...)
// args...) - a lambda in operator position - with a body form that is a bare
// symbol other than one of the lambda's own parameters or a *global*.
func LambdaHeadFree(forms []*Node) bool {
	found := false
	var walk func(n *Node)
	walk = func(n *Node) {
		if n.Kind != 'l' || len(n.List) == 0 {
			return
		}
		if h := n.List[0]; h.Kind == 'l' && 2 < len(h.List) && h.List[0].Kind == 's' && h.List[0].Sym == "lambda" {
			own := map[string]bool{"nil": true, "t": true}
			for _, p := range h.List[1].List {
				own[p.Sym] = true
			}
			for _, b := range h.List[2:] {
				if b.Kind == 's' && !own[b.Sym] && !strings.HasPrefix(b.Sym, "*") {
					found = true
				}
			}
		}
		for _, x := range n.List {
			walk(x)
		}
	}
	for _, f := range forms {
		walk(f)
	}
	return found
}

func (mac *Macro) expand(args []*Node) *Node {
	if len(args) < len(mac.Params) || (mac.Rest == "" && len(args) != len(mac.Params)) {
		fail("macro called with %d arguments", len(args))
	}
	bind := map[string]*Node{}
	for i, p := range mac.Params {
		bind[p] = args[i]
	}
	var rest []*Node
	if mac.Rest != "" {
		rest = args[len(mac.Params):]
	}
	var walk func(n *Node) *Node
	walk = func(n *Node) *Node {
		if n.Kind != 'l' {
			return n
		}
		if len(n.List) == 2 && n.List[0].Kind == 's' && n.List[0].Sym == "comma" {
			x := n.List[1]
			if x.Kind == 's' {
				if f, ok := bind[x.Sym]; ok {
					return f
				}
				if x.Sym == mac.Rest {
					return &Node{Kind: 'l', List: append([]*Node{}, rest...)}
				}
			}
			fail("unsupported comma expression in macro template")
		}
		out := &Node{Kind: 'l'}
		for _, x := range n.List {
			if x.Kind == 'l' && len(x.List) == 2 && x.List[0].Kind == 's' && x.List[0].Sym == "comma-at" {
				y := x.List[1]
				if y.Kind == 's' && y.Sym == mac.Rest {
					out.List = append(out.List, rest...)
					continue
				}
				fail("unsupported comma-at expression in macro template")
			}
			out.List = append(out.List, walk(x))
		}
		return out
	}
	return walk(mac.Tmpl)
}
