package c08

import (
	"fmt"
	"math/rand/v2"
	"sort"
	"strings"

	"github.com/ohler55/slip"

	"verif/internal/fw"
	"verif/internal/sl"
)

// ---- case kind "reeval": model-free relation monitor ----
//
// A reeval case is a tree of form templates (depth <= 3). Every argument
// form is written as a list, so that there is something for the evaluator to
// compile and cache in place; every form binds its own fresh data, so that
// its meaning does not depend on outside state. The oracle needs no model:
// the same code object evaluated 1..5 times (in list form, after
// Code.Compile, as CompileString object, as the body of a defun called 5
// times, the defun delivered in list form or compiled) must give the same
// value and the same marker trace every time, and the same as a fresh
// read+eval of the same text.

// RNode is one node of a reeval form tree: template Form#V with the forms
// that fill its holes.
type RNode struct {
	Form string  `json:"form"`
	V    int     `json:"v,omitempty"`
	Kids []RNode `json:"kids,omitempty"`
}

// tmpl is an argument template of one form. In the text, %a is a hole for a
// form of any value, %i a hole for an integer-valued form, %k a fresh
// trace-marker number. ret: "int" (fits any hole) or "any".
type tmpl struct {
	form string
	ret  string
	text string
}

// The committed template table. Several templates per form are allowed.
var tmpls = []tmpl{
	// multiple values
	{"multiple-value-call", "any", "(multiple-value-call #'list %a (values %a %i) (floor %i 3))"},
	{"multiple-value-call", "any", "(multiple-value-call (lambda (a b) (list b a)) (values %a %a))"},
	{"multiple-value-call", "int", "(multiple-value-call #'+ %i (values %i 2) %i)"},
	{"multiple-value-bind", "any", "(multiple-value-bind (q r) (floor (+ %i 7) 3) (list q r %a))"},
	{"multiple-value-bind", "any", "(multiple-value-bind (a b) (values %a %a) (vtr %k (list b a)))"},
	{"multiple-value-list", "any", "(multiple-value-list (values %a %a))"},
	{"multiple-value-list", "any", "(multiple-value-list (floor %i 2))"},
	{"multiple-value-prog1", "any", "(multiple-value-list (multiple-value-prog1 (values %a %a) (vtr %k %i)))"},
	{"multiple-value-setq", "any", "(let ((a 0) (b 0)) (multiple-value-setq (a b) (values %a %a)) (list a b))"},
	{"nth-value", "any", "(nth-value 1 (values %a %a %a))"},
	{"nth-value", "int", "(nth-value (if (< %i 100) 0 1) (floor %i 4))"},
	// sequencing
	{"progn", "any", "(progn %a %a)"},
	{"prog1", "any", "(prog1 %a %a)"},
	{"prog2", "any", "(prog2 %a %a %a)"},
	// conditionals
	{"if", "any", "(if (< %i %i) %a %a)"},
	{"if", "any", "(if %a %a %a)"},
	{"when", "any", "(when (<= %i 99) (vtr %k %a) %a)"},
	{"unless", "any", "(unless (> %i 99) (vtr %k %a) %a)"},
	{"cond", "any", "(cond ((< %i 0) %a) ((= %i %i) %a) (t %a))"},
	{"cond", "any", "(cond ((null %a) 1) (t %a))"},
	{"case", "any", "(case %i (1 %a) ((2 3) %a) (t %a))"},
	{"ecase", "any", "(ecase (if (< %i 100) 1 2) (1 %a) (2 %a))"},
	{"typecase", "any", "(typecase %a (integer %a) (list %a) (t %a))"},
	{"etypecase", "any", "(etypecase %i (integer %a))"},
	{"and", "any", "(and %a %a)"},
	{"and", "any", "(and (< %i 100) (vtr %k %a))"},
	{"or", "any", "(or (null %a) %a)"},
	{"or", "any", "(or (< %i 0) %a)"},
	// binding and assignment
	{"let", "any", "(let ((a %a) (b %i)) (list a (+ b 1)))"},
	{"let*", "any", "(let* ((a %i) (b (+ a %i))) (list a b %a))"},
	{"setq", "any", "(let ((a 1) (b 2)) (setq a %a b %i) (list a b))"},
	{"psetq", "any", "(let ((a 1) (b 2)) (psetq a b b (+ a %i)) (list a b))"},
	{"setf", "any", "(let ((l (list 1 2 3))) (setf (car l) %a) l)"},
	{"setf", "any", "(let ((l (list 1 2 3))) (setf (nth 1 l) %a) l)"},
	{"setf", "any", "(let ((h (make-hash-table))) (setf (gethash 1 h) %a) (gethash 1 h))"},
	{"setf", "any", "(let ((a 1)) (setf a %a) a)"},
	{"psetf", "any", "(let ((a 1) (b 2)) (psetf a b b %a) (list a b))"},
	{"shiftf", "any", "(let ((l (list 1 %a 3 4))) (shiftf (nth 0 l) (nth 1 l) (nth 2 l)) l)"},
	{"rotatef", "any", "(let ((l (list %a %a 3))) (rotatef (nth 0 l) (nth 1 l)) l)"},
	{"incf", "int", "(let ((a %i)) (incf a %i) (incf a) a)"},
	{"decf", "int", "(let ((a %i)) (decf a %i) (decf a) a)"},
	{"push", "any", "(let ((l (list 1))) (push %a l) (push %a l) l)"},
	{"pop", "any", "(let ((l (list %a %a 3))) (list (pop l) l))"},
	{"pushnew", "any", "(let ((l (list 1 2))) (pushnew %i l) l)"},
	{"progv", "any", "(progv (list 'c8pv1 'c8pv2) (list %a %a) (list c8pv1 c8pv2))"},
	{"defparameter", "any", "(progn (defparameter *c8-par* %a) *c8-par*)"},
	{"defun", "any", "(progn (defun c8-helper (a) (list a %a)) (c8-helper %a))"},
	{"defun", "any", "(progn (let ((base %i)) (defun c8-closure (k) (list k base %a))) (c8-closure %a))"},
	{"defun", "any", "(let ((a %i)) (let* ((b (+ a 1))) (defun c8-closure2 () (list a b))) (list (c8-closure2) %a))"},
	// macros: c8-mac is defined once per worker process (initWorker), so its template is shared by
	// every expansion of every evaluation; the defmacro template defines and uses a macro in one form
	{"c8-mac", "int", "(c8-mac %i %i)"},
	{"c8-mac", "any", "(let ((v %i)) (list (c8-mac v %i) (c8-mac %i v)))"},
	{"defmacro", "any", "(progn (defmacro c8-mac2 (a) `(let ((w ,a)) (list w (list (+ w 1) (quote (1 2)))))) (list (c8-mac2 %i) (c8-mac2 %i) %a))"},
	// iteration
	{"dolist", "int", "(let ((acc 0)) (dolist (el (list %i %i %i) acc) (setq acc (+ acc (vtr %k el)))))"},
	{"dotimes", "any", "(let ((acc nil)) (dotimes (i (length (list %a %a)) acc) (setq acc (cons (vtr %k i) acc))))"},
	{"do", "any", "(do ((i 0 (+ i 1)) (acc nil (cons %a acc))) ((>= i 2) acc) (vtr %k i))"},
	{"do*", "any", "(do* ((i 0 (+ i 1)) (acc (list %a) (cons i acc))) ((>= i 2) acc) (vtr %k %i))"},
	{"loop", "any", "(let ((n 0)) (loop (setq n (+ n 1)) (when (< 1 n) (return %a))))"},
	{"prog", "any", "(prog ((a %i) (b 2)) (setq a (+ a b)) (return (list a %a)))"},
	{"prog*", "any", "(prog* ((a %i) (b (+ a 1))) (return (list a b %a)))"},
	{"tagbody", "any", "(let ((n 0)) (tagbody top (setq n (+ n 1)) (when (< n 3) (go top))) (list n %a))"},
	{"dovector", "int", "(let ((sum 0)) (dovector (el (vector %i %i) sum) (setq sum (+ sum el))))"},
	// control transfer and conditions
	{"block", "any", "(block blk (vtr %k %a) (return-from blk %a) 1)"},
	{"return", "any", "(block nil (return %a) 1)"},
	{"unwind-protect", "any", "(let ((a 0)) (list (unwind-protect %a (setq a (vtr %k %i))) a))"},
	{"ignore-errors", "any", "(ignore-errors %a)"},
	{"ignore-errors", "any", "(list (ignore-errors (car %i)) %a)"},
	{"recover", "any", "(recover rec (list %a) (vtr %k 1) (car %i))"},
	{"recover", "any", "(recover rec 0 %a %a)"},
	// functions
	{"lambda", "any", "((lambda (a b) (list b a)) %a %a)"},
	{"lambda", "any", "(funcall (lambda (a b) (list a b)) %a %a)"},
	{"function", "int", "(funcall (function +) %i %i)"},
	{"function", "int", "(apply #'+ %i (list %i %i))"},
	{"quote", "any", "(cons %a (quote (1 2)))"},
	{"backquote", "any", "`(1 ,%a ,@(list %a %a))"},
	{"the", "int", "(the integer %i)"},
	{"eval", "int", "(eval (list '+ %i %i))"},
	{"declare", "any", "(let ((a %a)) (declare (ignorable a)) a)"},
	// plain functions that take function arguments (lambdas written in place)
	{"mapcar", "any", "(mapcar (lambda (el) (+ el %i)) (list %i %i))"},
	{"mapc", "any", "(mapc (lambda (el) (vtr %k el)) (list %a %a))"},
	{"reduce", "int", "(reduce (lambda (a b) (+ a b)) (list %i %i %i))"},
	// property lists and list surgery (macro kind in slip)
	{"getf", "any", "(getf (list :a %a :b %a) :b)"},
	{"remf", "any", "(let ((pl (list :a %a :b 2))) (remf pl :a) pl)"},
	{"get", "any", "(let ((pl (list 'a 1 'b 2))) (setf (get pl 'b) %a) (list (get pl 'b) pl))"},
	{"remprop", "any", "(let ((pl (list 'a %a 'b 2))) (list (remprop pl 'a) pl))"},
	{"append", "any", "(append (list %a) (list %a %a))"},
	{"nconc", "any", "(nconc (list %a) (list %a))"},
	{"revappend", "any", "(revappend (list %a %a) (list %a))"},
	{"nreconc", "any", "(nreconc (list %a %a) (list %a))"},
	{"rplaca", "any", "(rplaca (list 1 2) %a)"},
	{"rplacd", "any", "(rplacd (list 1 2) (list %a))"},
	{"add", "any", "(add (list %a) %a %a)"},
	{"addf", "any", "(let ((l (list 1))) (addf l %a %a) l)"},
	{"addnew", "any", "(let ((l (list 1 2))) (addnew %i l) l)"},
	// streams and strings
	{"with-output-to-string", "any", "(with-output-to-string (s) (format s \"~a-~a\" %a %i))"},
	{"with-input-from-string", "any", "(with-input-from-string (s \"12 34\") (list (read s) (read s) %a))"},
	{"with-open-stream", "any", "(with-open-stream (s (make-string-input-stream \"7 8\")) (list (read s) %a))"},
	{"with-open-stream", "any", "(with-open-stream (s (make-string-input-stream (format nil \"~d 8\" %i))) (list (read s) %a))"},
	{"with-input-from-string", "any", "(with-input-from-string (s (format nil \"~d 34\" %i)) (list (read s) (read s) %a))"},
	{"with-input-from-octets", "any", "(with-input-from-octets (s (coerce (list (mod %i 200) 2) 'octets)) (list (read-byte s) (read-byte s) %a))"},
	{"with-standard-io-syntax", "any", "(with-standard-io-syntax (format nil \"~a\" %a))"},
	{"base64-encode", "any", "(list (base64-encode (format nil \"~a\" %i)) %a)"},
	{"base64-decode", "any", "(list (base64-decode (base64-encode (format nil \"~a\" %i))) %a)"},
	{"with-mutex-lock", "any", "(let ((m (make-mutex))) (with-mutex-lock m (vtr %k %a) %a))"},
}

// leaves fill the holes at the bottom: list-written forms with small data.
var (
	intLeaves = []string{"(+ 2 3)", "(vtr %k 4)", "(* 2 3)", "(length (list 1 2))", "(- 9 (vtr %k 2))", "(car (list 1 2))", "(c8n)", "(+ 1 (c8n))", "(vtr %k (c8n))"}
	anyLeaves = []string{"(list 1 2)", "(vtr %k (list 3))", "(+ 1 (vtr %k 6))", "(cons 1 (list 2))", "(car (list (list 5) 6))", "(null (list))", "(list (c8n))", "(c8n)"}
)

var tmplIndex = map[string][]int{} // form -> indices into tmpls

func init() {
	for i, t := range tmpls {
		tmplIndex[t.form] = append(tmplIndex[t.form], i)
	}
}

func tmplOf(form string, v int) *tmpl {
	ix := tmplIndex[form]
	if len(ix) == 0 {
		return nil
	}
	return &tmpls[ix[v%len(ix)]]
}

// holes lists the hole kinds ('a' or 'i') of a template text in order.
func holes(text string) []byte {
	var out []byte
	for i := 0; i+1 < len(text); i++ {
		if text[i] == '%' && (text[i+1] == 'a' || text[i+1] == 'i') {
			out = append(out, text[i+1])
		}
	}
	return out
}

// render produces the source text of a tree; marker numbers are assigned in
// order of appearance.
func (n *RNode) render(k *int) string {
	var text string
	switch n.Form {
	case "int-leaf":
		text = intLeaves[n.V%len(intLeaves)]
	case "any-leaf":
		text = anyLeaves[n.V%len(anyLeaves)]
	default:
		t := tmplOf(n.Form, n.V)
		if t == nil {
			return "(list)"
		}
		text = t.text
	}
	var b strings.Builder
	kid := 0
	for i := 0; i < len(text); i++ {
		if text[i] == '%' && i+1 < len(text) {
			switch text[i+1] {
			case 'k':
				*k++
				fmt.Fprint(&b, *k)
				i++
				continue
			case 'a', 'i':
				if kid < len(n.Kids) {
					b.WriteString(n.Kids[kid].render(k))
				} else if text[i+1] == 'i' {
					b.WriteString("(+ 1 1)")
				} else {
					b.WriteString("(list 0)")
				}
				kid++
				i++
				continue
			}
		}
		b.WriteByte(text[i])
	}
	return b.String()
}

func leafFor(kind byte, v int) RNode {
	if kind == 'i' {
		return RNode{Form: "int-leaf", V: v}
	}
	return RNode{Form: "any-leaf", V: v}
}

// withLeaves builds template ti with every hole filled by a leaf.
func withLeaves(ti, salt int) RNode {
	t := tmpls[ti]
	n := RNode{Form: t.form, V: variantOf(ti)}
	for j, h := range holes(t.text) {
		n.Kids = append(n.Kids, leafFor(h, salt+j))
	}
	return n
}

func variantOf(ti int) int {
	for v, x := range tmplIndex[tmpls[ti].form] {
		if x == ti {
			return v
		}
	}
	return 0
}

// fits tells whether template inner may fill a hole of kind h.
func fits(inner int, h byte) bool { return h == 'a' || tmpls[inner].ret == "int" }

// reevalBlock is the size of the deterministic block: one inventory case,
// every template alone, every ordered pair (outer, inner).
func reevalBlock() int { return 1 + len(tmpls) + len(tmpls)*len(tmpls) }

// reevalDet builds deterministic case j of the block.
func reevalDet(j int) Case {
	if j == 0 {
		return Case{Kind: "reeval-inventory"}
	}
	j--
	if j < len(tmpls) {
		n := withLeaves(j, j)
		return Case{Kind: "reeval", Tree: &n}
	}
	j -= len(tmpls)
	outer, inner := j/len(tmpls), j%len(tmpls)
	n := withLeaves(outer, j)
	// the inner template goes into the first hole it fits (rotating with the pair number)
	hs := holes(tmpls[outer].text)
	placed := false
	for off := 0; off < len(hs) && !placed; off++ {
		h := (inner + off) % len(hs)
		if fits(inner, hs[h]) {
			n.Kids[h] = withLeaves(inner, j+1)
			placed = true
		}
	}
	if !placed {
		// an any-valued form in an integer-only template: use its length as list
		w := RNode{Form: "int-of", Kids: []RNode{withLeaves(inner, j+1)}}
		n.Kids[inner%len(hs)] = w
	}
	return Case{Kind: "reeval", Tree: &n}
}

// "int-of" adapts an any-valued form to an integer hole without losing its
// evaluation: (length (list X)).
func init() {
	tmpls = append(tmpls, tmpl{"int-of", "int", "(length (list %a))"})
	tmplIndex["int-of"] = []int{len(tmpls) - 1}
}

// reevalRand builds a seeded composition of depth <= 3.
func reevalRand(r *rand.Rand) Case {
	var build func(h byte, d int) RNode
	build = func(h byte, d int) RNode {
		if d == 0 || r.IntN(5) == 0 {
			return leafFor(h, r.IntN(12))
		}
		ti := r.IntN(len(tmpls))
		var n RNode
		if !fits(ti, h) {
			return RNode{Form: "int-of", Kids: []RNode{build('a', d)}}
		}
		t := tmpls[ti]
		n = RNode{Form: t.form, V: variantOf(ti)}
		for _, hk := range holes(t.text) {
			n.Kids = append(n.Kids, build(hk, d-1))
		}
		return n
	}
	var n RNode
	for {
		n = build('a', 3)
		if n.Form != "int-leaf" && n.Form != "any-leaf" {
			break
		}
	}
	return Case{Kind: "reeval", Tree: &n}
}

// ---- the oracle ----

type robs struct {
	vals  string
	trace string
	err   string
}

func (o robs) String() string {
	if o.err != "" {
		return "error " + o.err
	}
	return fmt.Sprintf("%s trace %s", o.vals, o.trace)
}

func reevalDo(scope *slip.Scope, fn func() slip.Object) robs {
	trace = trace[:0]
	sl.Reset()
	var res slip.Object
	err := sl.Catch(func() { res = fn() })
	o := robs{trace: fmt.Sprint(trace)}
	if err != nil {
		o.err = err.Class
		if err.Internal {
			o.err = "internal:" + err.Class
		}
		return o
	}
	o.vals = strings.Join(sl.ShowAll(res), " ; ")
	return o
}

// reevalCheck runs all treatments of one form text; it returns "" when every
// evaluation agrees, else the failure kind and a description.
func reevalCheck(text string) (kind, msg string, base robs, evals int) {
	scope := slip.NewScope()
	scope.Let(slip.Symbol("*error-output*"), &slip.OutputStream{Writer: discard{}})
	// evaluation k of every treatment runs with (c8n) = k; it is compared with a fresh read+eval
	// of the same text under the same (c8n)
	fresh := map[int]robs{}
	freshAt := func(k int) robs {
		if r, ok := fresh[k]; ok {
			return r
		}
		c8epoch = int64(k)
		r := reevalDo(scope, func() slip.Object { return slip.ReadString(text, scope).Eval(scope, nil) })
		evals++
		fresh[k] = r
		return r
	}
	base = freshAt(1)
	for k := 2; k <= 5; k++ {
		freshAt(k)
	}
	differ := func(o, want robs) string {
		switch {
		case o.err != want.err:
			return "error"
		case o.vals != want.vals:
			return "value"
		case o.trace != want.trace:
			return "trace"
		}
		return ""
	}
	judge := func(treat string, k int, o robs) bool {
		evals++
		want := freshAt(k)
		if d := differ(o, want); d != "" {
			kind = d
			msg = fmt.Sprintf("%s, evaluation %d: %s; fresh read+eval of the same text under the same (c8n): %s", treat, k, o, want)
			return false
		}
		return true
	}
	c8epoch = 1
	// a second fresh read+eval of the same text
	if !judge("second fresh read+eval of the same text", 1, reevalDo(scope, func() slip.Object { c8epoch = 1; return slip.ReadString(text, scope).Eval(scope, nil) })) {
		kind = "fresh-" + kind
		return
	}
	const K = 5
	// the same Code object in list form
	code := slip.ReadString(text, scope)
	for k := 1; k <= K; k++ {
		if !judge("same Code object (list form)", k, reevalDo(scope, func() slip.Object { c8epoch = int64(k); return code.Eval(scope, nil) })) {
			return
		}
	}
	// after Code.Compile
	var ccode slip.Code
	if o := reevalDo(scope, func() slip.Object { ccode = slip.ReadString(text, scope); ccode.Compile(); return nil }); o.err != "" {
		kind, msg = "error", "Code.Compile: "+o.String()
		return
	}
	for k := 1; k <= K; k++ {
		if !judge("same Code object after Code.Compile", k, reevalDo(scope, func() slip.Object { c8epoch = int64(k); return ccode.Eval(scope, nil) })) {
			return
		}
	}
	// CompileString object
	var cobj slip.Object
	if o := reevalDo(scope, func() slip.Object { cobj = slip.CompileString(text, scope); return nil }); o.err != "" {
		kind, msg = "error", "CompileString: "+o.String()
		return
	}
	for k := 1; k <= K; k++ {
		if !judge("CompileString object", k, reevalDo(scope, func() slip.Object {
			if cobj == nil {
				return nil
			}
			c8epoch = int64(k)
			return cobj.Eval(scope, 0)
		})) {
			return
		}
	}
	// the form as the body of a defun called K times (defun in list form, then compiled)
	for _, compiled := range []bool{false, true} {
		counter++
		name := fmt.Sprintf("c8r%d", counter)
		def := fmt.Sprintf("(defun %s () %s)", name, text)
		treat := "body of a defun (list form) called again"
		if compiled {
			treat = "body of a defun (delivered through Code.Compile) called again"
		}
		if o := reevalDo(scope, func() slip.Object {
			c := slip.ReadString(def, scope)
			if compiled {
				c.Compile()
			}
			return c.Eval(scope, nil)
		}); o.err != "" {
			kind, msg = "error", treat+": defun failed: "+o.String()
			return
		}
		call := "(" + name + ")"
		for k := 1; k <= K; k++ {
			if !judge(treat, k, reevalDo(scope, func() slip.Object { c8epoch = int64(k); return slip.ReadString(call, scope).Eval(scope, nil) })) {
				return
			}
		}
	}
	return
}

type discard struct{}

func (discard) Write(p []byte) (int, error) { return len(p), nil }

// culprit finds a minimal failing subtree: a node whose text fails the
// oracle while none of its children's texts do.
func culprit(n *RNode) *RNode {
	for i := range n.Kids {
		k := 0
		if kind, _, _, _ := reevalCheck(n.Kids[i].render(&k)); kind != "" {
			return culprit(&n.Kids[i])
		}
	}
	return n
}

type skipper interface{ SkipArgEval(int) bool }

// inventory enumerates, from the running interpreter, every function whose
// FuncDoc says macro or whose instances skip the evaluation of some argument
// (those are the forms that receive raw list arguments and may cache compiled
// versions in place) and reports which of them the template table drives.
func inventory(x *fw.Ctx) {
	var names []string
	for _, p := range slip.AllPackages() {
		pkg := p
		pkg.EachFuncInfo(func(fi *slip.FuncInfo) {
			if fi.Pkg != pkg {
				return
			}
			macro := fi.Doc != nil && fi.Doc.Kind == slip.MacroSymbol
			skips := false
			userDefined := false
			_ = sl.Catch(func() {
				f := fi.Create(slip.List{})
				if _, dyn := f.(*slip.Dynamic); dyn && !strings.HasPrefix(fi.Name, "c8-") {
					userDefined = true // a macro or function an earlier case of this worker defined
				}
				if sk, ok := f.(skipper); ok {
					for i := 0; i < 6; i++ {
						skips = skips || sk.SkipArgEval(i)
					}
				}
			})
			if (macro || skips) && !userDefined {
				names = append(names, fi.Name)
			}
		})
	}
	sort.Strings(names)
	used := map[string]bool{}
	for _, t := range tmpls {
		used[t.form] = true
		// forms used inside the text of other templates
		for name := range tmplIndex {
			if strings.Contains(t.text, "("+name+" ") {
				used[name] = true
			}
		}
	}
	for _, extra := range []string{"go", "return-from", "comma", "comma-at", "ignorable"} {
		used[extra] = true // driven inside the tagbody, block and backquote templates
	}
	for _, name := range names {
		if used[name] {
			x.Cover("reeval-templated:" + name)
		} else {
			x.Cover("reeval-not-templated:" + name)
		}
	}
	for name := range tmplIndex {
		found := false
		for _, n := range names {
			found = found || n == name
		}
		if !found && name != "int-of" {
			x.Cover("reeval-templated-plain-function:" + name)
		}
	}
	x.CoverN("reeval-candidate-forms", len(names))
	x.Observe(map[string]any{"candidate_forms": len(names), "templates": len(tmpls)})
}

func execReeval(x *fw.Ctx, c Case) {
	if c.Kind == "reeval-inventory" {
		inventory(x)
		return
	}
	if c.Tree == nil {
		x.Fail("harness: reeval case without tree", "")
		return
	}
	k := 0
	text := c.Tree.render(&k)
	x.Cover("kind:reeval")
	var cover func(n *RNode, depth int)
	maxDepth := 0
	cover = func(n *RNode, depth int) {
		if n.Form == "int-of" {
			depth-- // the adapter is not a form under test
		} else if n.Form != "int-leaf" && n.Form != "any-leaf" {
			x.Cover("reeval-form:" + n.Form)
			maxDepth = max(maxDepth, depth)
		}
		for i := range n.Kids {
			cover(&n.Kids[i], depth+1)
		}
	}
	cover(c.Tree, 1)
	x.Cover(fmt.Sprintf("reeval-depth:%d", maxDepth))
	kind, msg, base, evals := reevalCheck(text)
	x.CoverN("reeval-evaluations", evals)
	x.Observe(map[string]any{"text": text, "fresh": base.String(), "evaluations": evals})
	if base.err != "" {
		x.Trivial()
		x.Cover("reeval-baseline-is-error:" + base.err)
		if maxDepth == 1 {
			// a template on leaf data must evaluate: otherwise the table is wrong
			x.Fail("harness: reeval template does not evaluate form="+c.Tree.Form, "%s => %s", text, base)
		}
	}
	if kind == "" {
		return
	}
	cn := culprit(c.Tree)
	ck := 0
	ctext := cn.render(&ck)
	ckind, cmsg, _, _ := reevalCheck(ctext)
	if ckind == "" { // not reproducible in isolation: report the whole form
		cn, ctext, ckind, cmsg = c.Tree, text, kind, msg
	}
	if ctext == text {
		x.Fail(fmt.Sprintf("reeval form=%s fail=%s", cn.Form, ckind), "%s: %s", ctext, cmsg)
		return
	}
	x.Fail(fmt.Sprintf("reeval form=%s fail=%s", cn.Form, ckind), "%s: %s (smallest failing sub-form of %s: %s)", ctext, cmsg, text, msg)
}
