package c08

import (
	"fmt"
	"math/rand/v2"
	"strings"
)

// Ver is one version of a function: parameter names and body forms (source
// text; user functions are written @f0, @f1, ..., globals *@g0*, ..., variables @a,
// @v1, ...: every treatment replaces @ by its own fresh prefix).
type Ver struct {
	Params []string `json:"params"`
	// Tail: the part of the lambda list behind the required parameters
	// (&optional / &rest / &key with init forms); it may differ from version to
	// version, every call site of the program fits every version.
	Tail string `json:"tail,omitempty"`
	// Macro: this version is a defmacro of the same call shape whose body is the
	// backquote template Body (probe only).
	Macro bool   `json:"macro,omitempty"`
	Body  string `json:"body"`
	// Wrap: the binding forms the defun is written inside, outermost first,
	// each without its closing parenthesis, e.g. "(let ((@a 50))"; the
	// function body uses those variables (a closure).
	Wrap []string `json:"wrap,omitempty"`
}

// Fn is one top-level function definition with the versions used for
// redefinition (version 0 is the original).
type Fn struct {
	Ret  string `json:"ret"` // int | list
	Rec  int    `json:"rec"` // -1, or the index of the function it calls recursively
	Vers []Ver  `json:"vers"`
}

// Step is one step of an evaluation history.
type Step struct {
	Op       string `json:"op"`            // run | redef | remac (Fn = macro index)
	Obj      int    `json:"obj,omitempty"` // run: -1 = fresh code object of the main form, else re-evaluate object #obj
	Fn       int    `json:"fn,omitempty"`  // redef: function index
	Ver      int    `json:"ver,omitempty"` // redef: version index
	Compiled bool   `json:"compiled,omitempty"`
	Via      string `json:"via,omitempty"` // redef: how the new definition is delivered: "" (read, Compiled or not, eval) | evalfn | cstring | load
}

// Mac is one macro of a program: (defmacro @macK (params [&rest r]) `template).
// In template texts ,@ua is the comma form of parameter @ua and ,%@ubody the
// comma-at form (the % becomes @ when the text is instantiated).
type Mac struct {
	Kind    string   `json:"kind"` // expr | body | quote
	Ret     string   `json:"ret"`
	Params  []string `json:"params"`
	Rest    string   `json:"rest,omitempty"`
	BodyVar string   `json:"bodyvar,omitempty"` // kind body: the variable the template binds for the body forms
	Vers    []string `json:"vers"`              // template of each version (version 0 is the original)
}

// Case is one generated multi-definition program with an evaluation history.
type Case struct {
	Kind    string  `json:"kind"` // args | noargs | probe | reeval | reeval-inventory
	Fns     []Fn    `json:"fns"`
	Macs    []Mac   `json:"macs,omitempty"`
	Globals []int64 `json:"globals"` // initial values of *@g0*, *@g1*, ...
	Main    string  `json:"main"`
	K       int     `json:"k"`              // evaluations of the same code object
	Long    bool    `json:"long,omitempty"` // callee-first order, form-by-form modes: 100 evaluations of the same object
	Hist    []Step  `json:"hist,omitempty"`
	Tree    *RNode  `json:"tree,omitempty"` // kind reeval: the form tree
	// GLast: the global variables are defined AFTER the functions (and macros) that refer to
	// them, GKind[k] names the defining form of *@gk* (defvar | defconstant;
	// a constant only when the program never assigns the variable)
	GLast bool     `json:"glast,omitempty"`
	GKind []string `json:"gkind,omitempty"`
	Qual  bool     `json:"qual,omitempty"` // a third of the calls of ordinary functions are written package qualified (cl:+, cl-user:f)
}

type sig struct {
	nparams int
	ret     string
	rec     int // -1 or partner/self index
	group   int // highest index of the recursion group (or own index)
	// the part of the lambda list that changes between versions
	fam    string      // "" fixed | opt (&optional / &rest) | key (&key / &rest &key / &rest)
	shapes []tailShape // one per version
	extra  int         // fam opt: every version takes up to this many arguments behind the required ones
	over   int         // fam opt: some version rejects this many arguments behind the required ones (0 = none does)
	pool   []string    // fam key: the keyword names of all versions
}

type tparam struct {
	name   string
	hasDef bool
}

// tailShape is the shape of one version's lambda list behind the required
// parameters; the init forms are written when the version is generated.
type tailShape struct {
	opts   []tparam
	rest   string
	hasKey bool
	keys   []tparam
}

func (t tailShape) capacity() int {
	if t.rest != "" || t.hasKey {
		return 99
	}
	return len(t.opts)
}

func (t tailShape) key() string {
	return fmt.Sprint(len(t.opts), t.rest != "", t.hasKey, t.keys)
}

type gen struct {
	r      *rand.Rand
	sigs   []sig
	nglob  int
	gfirst int // first global usable by random code (global 0 is the counter in noargs recursion)
	tr     int
	nv     int
	noargs bool
	shaped bool // functions have &optional / &rest / &key parts that change with the version
	rich   bool // use the wider set of special forms
	macs   []Mac
	maxMac int // macros with an index below this may be used in the code being generated
}

type scope struct {
	ints  []string // readable integer variables
	mut   []string // assignable integer variables
	calls []int    // functions that may be called here
}

func (sc scope) with(v string, mutable bool) scope {
	n := scope{calls: sc.calls}
	n.ints = append(append([]string{}, sc.ints...), v)
	n.mut = append([]string{}, sc.mut...)
	if mutable {
		n.mut = append(n.mut, v)
	}
	return n
}

func (g *gen) fresh() string {
	g.nv++
	return fmt.Sprintf("@v%d", g.nv)
}

func (g *gen) tracer(x string) string {
	g.tr++
	return fmt.Sprintf("(vtr %d %s)", g.tr, x)
}

func (g *gen) lit() string { return fmt.Sprint(g.r.IntN(10)) }

func (g *gen) global() string {
	return fmt.Sprintf("*@g%d*", g.gfirst+g.r.IntN(g.nglob-g.gfirst))
}

func (g *gen) hasGlobal() bool { return g.gfirst < g.nglob }

// leaf is an integer leaf.
func (g *gen) leaf(sc scope) string {
	n := g.r.IntN(10)
	switch {
	case n < 5 && 0 < len(sc.ints):
		return sc.ints[g.r.IntN(len(sc.ints))]
	case n < 6 && g.hasGlobal():
		return g.global()
	}
	return g.lit()
}

func (g *gen) callsOf(sc scope, ret string) []int {
	var out []int
	for _, j := range sc.calls {
		if g.sigs[j].ret == ret {
			out = append(out, j)
		}
	}
	return out
}

// call renders a call of function j.
func (g *gen) call(sc scope, j, d int) string {
	s := g.sigs[j]
	var args []string
	for k := 0; k < s.nparams; k++ {
		if k == 0 && 0 <= s.rec {
			a := fmt.Sprint(g.r.IntN(4))
			if g.r.IntN(4) == 0 {
				a = g.tracer(a)
			}
			args = append(args, a)
			continue
		}
		args = append(args, g.intExpr(sc, d-1))
	}
	args = append(args, g.tailArgs(sc, j, d, false)...)
	return g.callForm(j, args)
}

// tailArgs renders the arguments behind the required ones of a call of
// function j that fits every version of j: up to sig.extra positional ones
// (fam opt), keyword pairs from the pool of all versions (fam key: slip
// allows and ignores a keyword the current version does not declare). over:
// as many positional arguments as some version rejects (the call is written
// inside ignore-errors).
func (g *gen) tailArgs(sc scope, j, d int, over bool) []string {
	s := g.sigs[j]
	var args []string
	small := func() string { return g.intExpr(sc, min(d-1, 1)) }
	switch s.fam {
	case "opt":
		n := g.r.IntN(s.extra + 1)
		if over {
			n = s.over
		}
		for k := 0; k < n; k++ {
			args = append(args, small())
		}
	case "key":
		ks := append([]string{}, s.pool...)
		g.r.Shuffle(len(ks), func(a, b int) { ks[a], ks[b] = ks[b], ks[a] })
		for _, k := range ks[:g.r.IntN(len(ks)+1)] {
			args = append(args, ":"+k, small())
		}
	}
	return args
}

// guarded renders (list (ignore-errors call)) for a call with more positional
// arguments than some version of the callee takes: nil while the current
// version rejects it, the value once a version accepts it.
func (g *gen) guarded(sc scope, d int) string {
	var cand []int
	for _, j := range sc.calls {
		if 0 < g.sigs[j].over {
			cand = append(cand, j)
		}
	}
	if len(cand) == 0 {
		return ""
	}
	j := cand[g.r.IntN(len(cand))]
	s := g.sigs[j]
	var args []string
	for k := 0; k < s.nparams; k++ {
		if k == 0 && 0 <= s.rec {
			args = append(args, fmt.Sprint(g.r.IntN(4)))
			continue
		}
		args = append(args, g.intExpr(sc, min(d-1, 1)))
	}
	args = append(args, g.tailArgs(sc, j, d, true)...)
	return fmt.Sprintf("(list (ignore-errors %s))", g.callForm(j, args))
}

func (g *gen) callForm(j int, args []string) string {
	s := g.sigs[j]
	var form string
	style := g.r.IntN(16)
	if len(args) == 0 && style < 2 {
		// avoided: (funcall f) without arguments is rejected by slip (a C04 matter)
		style = 2
	}
	switch style {
	case 0:
		form = fmt.Sprintf("(funcall #'@f%d%s)", j, sp(args))
	case 1:
		form = fmt.Sprintf("(funcall '@f%d%s)", j, sp(args))
	case 2:
		form = fmt.Sprintf("(apply #'@f%d (list%s))", j, sp(args))
	default:
		form = fmt.Sprintf("(@f%d%s)", j, sp(args))
	}
	if g.noargs && 0 <= s.rec {
		// recursion on the global counter: set it before the call
		form = fmt.Sprintf("(progn (setq *@g0* %d) %s)", g.r.IntN(4), form)
	}
	return form
}

func sp(args []string) string {
	if len(args) == 0 {
		return ""
	}
	return " " + strings.Join(args, " ")
}

func (g *gen) intExpr(sc scope, d int) string {
	if d <= 0 {
		return g.leaf(sc)
	}
	for {
		if 0 < g.maxMac && g.r.IntN(9) == 0 {
			if u := g.macroUse(sc, d, "int"); u != "" {
				return u
			}
		}
		switch g.r.IntN(21) {
		case 0, 1, 2:
			return g.leaf(sc)
		case 3, 4:
			op := []string{"+", "-", "+"}[g.r.IntN(3)]
			return fmt.Sprintf("(%s %s %s)", op, g.intExpr(sc, d-1), g.intExpr(sc, d-1))
		case 5:
			if g.r.IntN(2) == 0 {
				return fmt.Sprintf("(* %s %d)", g.intExpr(sc, d-1), 1+g.r.IntN(3))
			}
			return fmt.Sprintf("(%s %s)", []string{"1+", "1-"}[g.r.IntN(2)], g.intExpr(sc, d-1))
		case 6, 7:
			return fmt.Sprintf("(if %s %s %s)", g.boolExpr(sc, d-1), g.intExpr(sc, d-1), g.intExpr(sc, d-1))
		case 8, 9:
			return g.letExpr(sc, d, "int")
		case 10:
			return g.prognExpr(sc, d, "int")
		case 11, 12, 13, 14:
			if cs := g.callsOf(sc, "int"); 0 < len(cs) {
				return g.call(sc, cs[g.r.IntN(len(cs))], d)
			}
		case 15, 16:
			return g.tracer(g.intExpr(sc, d-1))
		case 17:
			if g.rich {
				return fmt.Sprintf("(cond (%s %s) (%s %s) (t %s))", g.boolExpr(sc, d-1), g.intExpr(sc, d-1),
					g.boolExpr(sc, d-1), g.intExpr(sc, d-1), g.intExpr(sc, d-1))
			}
		case 18:
			return fmt.Sprintf("(length %s)", g.listExpr(sc, d-1))
		case 19, 20:
			if g.rich && 0 < len(sc.mut) && g.r.IntN(2) == 0 {
				return fmt.Sprintf("(setq %s %s)", sc.mut[g.r.IntN(len(sc.mut))], g.intExpr(sc, d-1))
			}
			if g.rich {
				// a lambda applied on the spot; its body may use the enclosing variables
				v := g.fresh()
				body := g.intExpr(sc.with(v, true), d-1)
				head := g.r.IntN(2) == 0
				if head {
					return fmt.Sprintf("((lambda (%s) %s) %s)", v, body, g.intExpr(sc, d-1))
				}
				return fmt.Sprintf("(funcall (lambda (%s) %s) %s)", v, body, g.intExpr(sc, d-1))
			}
		}
	}
}

func (g *gen) boolExpr(sc scope, d int) string {
	switch g.r.IntN(12) {
	case 0:
		if 0 < d {
			return fmt.Sprintf("(not %s)", g.boolExpr(sc, d-1))
		}
	case 1:
		if 0 < d {
			return fmt.Sprintf("(and %s %s)", g.boolExpr(sc, d-1), g.boolExpr(sc, d-1))
		}
	case 2:
		if 0 < d {
			return fmt.Sprintf("(or %s %s)", g.boolExpr(sc, d-1), g.boolExpr(sc, d-1))
		}
	case 3:
		return fmt.Sprintf("(zerop %s)", g.intExpr(sc, d))
	case 4:
		if 0 < d {
			return fmt.Sprintf("(null %s)", g.listExpr(sc, d-1))
		}
	}
	op := []string{"=", "<", ">", "<=", ">="}[g.r.IntN(5)]
	return fmt.Sprintf("(%s %s %s)", op, g.intExpr(sc, d), g.intExpr(sc, d))
}

func (g *gen) anyExpr(sc scope, d int) string {
	if g.r.IntN(4) == 0 {
		return g.listExpr(sc, d)
	}
	return g.intExpr(sc, d)
}

func (g *gen) listExpr(sc scope, d int) string {
	if d <= 0 {
		if g.r.IntN(3) == 0 {
			return "nil"
		}
		return fmt.Sprintf("(list %s)", g.leaf(sc))
	}
	for {
		if 0 < g.maxMac && g.r.IntN(9) == 0 {
			if u := g.macroUse(sc, d, "list"); u != "" {
				return u
			}
		}
		if g.shaped && g.r.IntN(8) == 0 {
			if u := g.guarded(sc, d); u != "" {
				return u
			}
		}
		switch g.r.IntN(16) {
		case 0, 1, 2, 3, 4:
			n := g.r.IntN(4)
			var el []string
			for k := 0; k < n; k++ {
				el = append(el, g.anyExpr(sc, d-1))
			}
			return fmt.Sprintf("(list%s)", sp(el))
		case 5, 6:
			return fmt.Sprintf("(cons %s %s)", g.anyExpr(sc, d-1), g.listExpr(sc, d-1))
		case 7:
			return fmt.Sprintf("(if %s %s %s)", g.boolExpr(sc, d-1), g.listExpr(sc, d-1), g.listExpr(sc, d-1))
		case 8:
			return g.letExpr(sc, d, "list")
		case 9:
			return g.prognExpr(sc, d, "list")
		case 10, 11, 12:
			if cs := g.callsOf(sc, "list"); 0 < len(cs) {
				return g.call(sc, cs[g.r.IntN(len(cs))], d)
			}
		case 13:
			return g.tracer(g.listExpr(sc, d-1))
		case 14:
			return fmt.Sprintf("(append %s %s)", g.listExpr(sc, d-1), g.listExpr(sc, d-1))
		case 15:
			return fmt.Sprintf("(reverse %s)", g.listExpr(sc, d-1))
		}
	}
}

func (g *gen) expr(sc scope, d int, ret string) string {
	if ret == "list" {
		return g.listExpr(sc, d)
	}
	return g.intExpr(sc, d)
}

func (g *gen) letExpr(sc scope, d int, ret string) string {
	kind := "let"
	if g.r.IntN(3) == 0 {
		kind = "let*"
	}
	n := 1 + g.r.IntN(2)
	inner := sc
	var binds []string
	for k := 0; k < n; k++ {
		v := g.fresh()
		init := sc
		if kind == "let*" {
			init = inner
		}
		binds = append(binds, fmt.Sprintf("(%s %s)", v, g.intExpr(init, d-1)))
		inner = inner.with(v, true)
	}
	var body []string
	if g.r.IntN(3) == 0 {
		body = append(body, g.stmt(inner, d-1))
	}
	body = append(body, g.expr(inner, d-1, ret))
	return fmt.Sprintf("(%s (%s) %s)", kind, strings.Join(binds, " "), strings.Join(body, " "))
}

func (g *gen) prognExpr(sc scope, d int, ret string) string {
	n := 1 + g.r.IntN(2)
	var body []string
	for k := 0; k < n; k++ {
		body = append(body, g.stmt(sc, d-1))
	}
	body = append(body, g.expr(sc, d-1, ret))
	return fmt.Sprintf("(progn %s)", strings.Join(body, " "))
}

// stmt is a form evaluated for effect (trace markers, assignments, calls).
func (g *gen) stmt(sc scope, d int) string {
	for {
		switch g.r.IntN(10) {
		case 0, 1, 2:
			return g.tracer(g.anyExpr(sc, d))
		case 3:
			if 0 < len(sc.mut) {
				return fmt.Sprintf("(setq %s %s)", sc.mut[g.r.IntN(len(sc.mut))], g.intExpr(sc, d))
			}
		case 4:
			if g.hasGlobal() {
				return fmt.Sprintf("(setq %s %s)", g.global(), g.intExpr(sc, d))
			}
		case 5:
			if g.rich {
				w := []string{"when", "unless"}[g.r.IntN(2)]
				return fmt.Sprintf("(%s %s %s)", w, g.boolExpr(sc, d), g.tracer(g.anyExpr(sc, d)))
			}
		case 6:
			if g.rich {
				v := g.fresh()
				return fmt.Sprintf("(dotimes (%s %d) %s)", v, g.r.IntN(4), g.tracer(g.anyExpr(sc.with(v, false), d)))
			}
		case 7, 8:
			if 0 < len(sc.calls) {
				return g.call(sc, sc.calls[g.r.IntN(len(sc.calls))], d)
			}
		case 9:
			return g.anyExpr(sc, d)
		}
	}
}

// macroUse renders a use of one of the usable macros with result type ret.
func (g *gen) macroUse(sc scope, d int, ret string) string {
	var cand []int
	for k := 0; k < g.maxMac; k++ {
		if g.macs[k].Ret == ret {
			cand = append(cand, k)
		}
	}
	if len(cand) == 0 {
		return ""
	}
	k := cand[g.r.IntN(len(cand))]
	m := g.macs[k]
	switch m.Kind {
	case "quote":
		arg := []string{"7", "(+ 1 (* 2 3))", "(- 9 4)", "(* (+ 1 1) 3)"}[g.r.IntN(4)]
		return fmt.Sprintf("(@mac%d %s)", k, arg)
	case "body":
		inner := sc.with(m.BodyVar, false)
		return fmt.Sprintf("(@mac%d %s %s %s)", k, g.intExpr(sc, d-1), g.stmt(inner, d-1), g.intExpr(inner, d-1))
	}
	var args []string
	for range m.Params {
		args = append(args, g.intExpr(sc, d-1))
	}
	return fmt.Sprintf("(@mac%d%s)", k, sp(args))
}

// template generates one backquote template for macro k. Every template
// binds a variable inside the expansion and holds comma-free sub-lists with
// nested calls that depend on that binding.
func (g *gen) template(k int) string {
	m := g.macs[k]
	saved := g.maxMac
	g.maxMac = k // a template may use the macros before it
	defer func() { g.maxMac = saved }()
	v := g.fresh()
	// quoted data inside a template, spelled (quote x) or 'x: both are data of the expansion
	q := func(x string) string {
		if g.r.IntN(2) == 0 {
			return "'" + x
		}
		return "(quote " + x + ")"
	}
	switch m.Kind {
	case "quote":
		return fmt.Sprintf("`(let ((%s ,@ua)) (list %s %s (list (+ %s 1) %s)))", v, q(",@ua"), v, v, q("(k 1)"))
	case "body":
		g.tr++
		return fmt.Sprintf("`(let ((%s ,@ua)) (vtr %d (list (+ %s 1) (* %s 2))) ,%%@ubody)", m.BodyVar, g.tr, m.BodyVar, m.BodyVar)
	}
	sc := scope{ints: []string{v, v}}
	for _, p := range m.Params {
		sc.ints = append(sc.ints, ","+p)
	}
	// a function named with #' inside the template: (funcall #'+ ...) for (+ ...)
	fn := func(op string) string {
		if g.r.IntN(3) == 0 {
			return "funcall #'" + op
		}
		return op
	}
	if m.Ret == "int" {
		return fmt.Sprintf("`(let ((%s ,@ua)) (%s %s (* %s %d) %s))", v, fn("+"), v, v, 2+g.r.IntN(3), g.intExpr(sc, 2))
	}
	return fmt.Sprintf("`(let ((%s ,@ua)) (%s %s (list (+ %s 1) %s) %s))", v, fn("list"), v, v, q("(1 2)"), g.anyExpr(sc, 2))
}

var paramNames = [][]string{{"@a", "@b", "@c"}, {"@x", "@y", "@z"}, {"@p", "@q", "@r"}, {"@i", "@j", "@k"}}

// version generates one version of function i.
func (g *gen) version(i, ver int) Ver {
	s := g.sigs[i]
	names := paramNames[(i+ver)%len(paramNames)]
	var ps []string
	for k := 0; k < s.nparams; k++ {
		ps = append(ps, names[k])
	}
	sc := scope{}
	for j := s.group + 1; j < len(g.sigs); j++ {
		sc.calls = append(sc.calls, j)
	}
	d := 2 + g.r.IntN(2)
	// one definition in three is written inside let / let* / nested lets and
	// uses their variables; half of those variables carry a name that callers
	// use for their own parameters
	var wrap []string
	var cvars []string
	if g.r.IntN(3) == 0 {
		own := map[string]bool{"@n": true, "@m": true}
		for _, p := range ps {
			own[p] = true
		}
		name := func() string {
			if g.r.IntN(2) == 0 {
				for tries := 0; tries < 6; tries++ {
					c := paramNames[g.r.IntN(len(paramNames))][g.r.IntN(3)]
					if !own[c] {
						own[c] = true
						return c
					}
				}
			}
			return g.fresh()
		}
		v1, v2 := name(), name()
		switch g.r.IntN(4) {
		case 0:
			wrap = []string{fmt.Sprintf("(let ((%s %d))", v1, 10+g.r.IntN(90))}
			cvars = []string{v1}
		case 1:
			wrap = []string{fmt.Sprintf("(let ((%s %d) (%s %d))", v1, 10+g.r.IntN(90), v2, 10+g.r.IntN(90))}
			cvars = []string{v1, v2}
		case 2:
			wrap = []string{fmt.Sprintf("(let* ((%s %d) (%s (+ %s %d)))", v1, 10+g.r.IntN(90), v2, v1, 1+g.r.IntN(9))}
			cvars = []string{v1, v2}
		default:
			wrap = []string{fmt.Sprintf("(let ((%s %d))", v1, 10+g.r.IntN(90)), fmt.Sprintf("(let ((%s (* %s 2)))", v2, v1)}
			cvars = []string{v1, v2}
		}
		for _, cv := range cvars {
			sc = sc.with(cv, false)
		}
	}
	// closed makes the result depend on the closed-over variables
	closed := func(e string) string {
		for _, cv := range cvars {
			if s.ret == "int" {
				e = fmt.Sprintf("(+ %s %s)", e, cv)
			} else {
				e = fmt.Sprintf("(cons %s %s)", cv, e)
			}
		}
		return e
	}
	// the part of the lambda list behind the required parameters: init forms
	// use the required parameters, the closed-over variables, globals, markers
	var (
		tailSrc  string
		tailVars []string
		tailed   = func(e string) string { return e }
	)
	if s.fam != "" {
		var req []string
		if s.rec < 0 || g.noargs {
			req = ps
		} else {
			req = ps[1:] // the first one is renamed to the counter below
		}
		tailSrc, tailVars, tailed = g.tail(s, s.shapes[ver], append(append([]string{}, req...), cvars...))
	}
	if s.rec < 0 {
		for _, p := range ps {
			sc = sc.with(p, true)
		}
		for _, tv := range tailVars {
			sc = sc.with(tv, true)
		}
		var body []string
		if g.r.IntN(3) == 0 {
			body = append(body, g.stmt(sc, d-1))
		}
		body = append(body, tailed(closed(g.expr(sc, d, s.ret))))
		return Ver{Params: ps, Tail: tailSrc, Body: strings.Join(body, " "), Wrap: wrap}
	}
	// recursion on a decreasing counter
	var counter, dec, pre string
	if g.noargs {
		counter = "*@g0*"
		pre = "(setq *@g0* (- *@g0* 1)) "
	} else {
		counter = []string{"@n", "@m"}[ver%2]
		ps[0] = counter
		dec = fmt.Sprintf("(- %s 1)", counter)
		sc = sc.with(counter, false)
		for _, p := range ps[1:] {
			sc = sc.with(p, true)
		}
	}
	for _, tv := range tailVars {
		sc = sc.with(tv, true)
	}
	base := tailed(closed(g.expr(sc, d-1, s.ret)))
	var rargs []string
	if !g.noargs {
		rargs = append(rargs, dec)
		for k := 1; k < g.sigs[s.rec].nparams; k++ {
			rargs = append(rargs, g.intExpr(sc, 1))
		}
		rargs = append(rargs, g.tailArgs(sc, s.rec, 2, false)...)
	}
	rcall := fmt.Sprintf("(@f%d%s)", s.rec, sp(rargs))
	var step string
	if s.ret == "int" {
		switch g.r.IntN(5) {
		case 0:
			step = rcall
		case 1:
			step = fmt.Sprintf("(+ %s %s)", g.intExpr(sc, d-1), rcall)
		case 2:
			step = fmt.Sprintf("(+ %s %s)", rcall, g.intExpr(sc, d-1))
		case 3:
			v := g.fresh()
			step = fmt.Sprintf("(let ((%s %s)) %s)", v, rcall, g.intExpr(sc.with(v, true), d-1))
		default:
			step = g.tracer(rcall)
		}
	} else {
		switch g.r.IntN(4) {
		case 0:
			step = rcall
		case 1:
			step = fmt.Sprintf("(cons %s %s)", g.anyExpr(sc, d-1), rcall)
		case 2:
			step = fmt.Sprintf("(list %s %s)", g.anyExpr(sc, d-1), rcall)
		default:
			step = fmt.Sprintf("(append %s %s)", rcall, g.listExpr(sc, d-1))
		}
	}
	if pre != "" {
		step = "(progn " + pre + step + ")"
	}
	var body string
	switch g.r.IntN(5) {
	case 0:
		body = fmt.Sprintf("(if (<= %s 0) %s %s)", counter, base, step)
	case 1:
		body = fmt.Sprintf("(if (> %s 0) %s %s)", counter, step, base)
	case 2:
		body = fmt.Sprintf("(cond ((<= %s 0) %s) (t %s))", counter, base, step)
	case 3:
		// the recursive call is evaluated as an ordinary argument: (or (and stop base...) step) shapes
		v := g.fresh()
		body = fmt.Sprintf("(let ((%s (<= %s 0))) (if %s %s %s))", v, counter, v, base, step)
	default:
		body = fmt.Sprintf("(if (<= %s 0) %s (progn %s %s))", counter, base, g.tracer(counter), step)
	}
	return Ver{Params: ps, Tail: tailSrc, Body: body, Wrap: wrap}
}

// tail writes the lambda-list tail of one version: the source text, the
// integer variables it binds (parameters with an init form: always an
// integer) and a wrapper that makes the result depend on every tail parameter.
func (g *gen) tail(s sig, t tailShape, vars []string) (src string, ints []string, tailed func(string) string) {
	initForm := func() string {
		n := g.r.IntN(8)
		switch {
		case n < 2 && 0 < len(vars):
			return fmt.Sprintf("(+ %s %d)", vars[g.r.IntN(len(vars))], 1+g.r.IntN(9))
		case n < 3 && 0 < len(vars):
			return vars[g.r.IntN(len(vars))]
		case n < 4 && g.hasGlobal():
			return g.global()
		case n < 5:
			return g.tracer(fmt.Sprint(10 + g.r.IntN(90)))
		case n < 6:
			return fmt.Sprintf("(* %d %d)", 2+g.r.IntN(8), 2+g.r.IntN(8))
		}
		return fmt.Sprint(10 + g.r.IntN(90))
	}
	var parts, uses []string // uses: per tail parameter, how the result depends on it (%s = the value so far)
	param := func(p tparam) {
		if !p.hasDef {
			parts = append(parts, p.name)
			if s.ret == "int" {
				uses = append(uses, fmt.Sprintf("(+ %%s (if %s %s 0))", p.name, p.name))
			} else {
				uses = append(uses, fmt.Sprintf("(cons %s %%s)", p.name))
			}
			return
		}
		parts = append(parts, fmt.Sprintf("(%s %s)", p.name, initForm()))
		ints = append(ints, p.name)
		if s.ret == "int" {
			uses = append(uses, fmt.Sprintf("(+ %%s %s)", p.name))
		} else {
			uses = append(uses, fmt.Sprintf("(cons %s %%s)", p.name))
		}
	}
	if 0 < len(t.opts) {
		parts = append(parts, "&optional")
		for _, p := range t.opts {
			param(p)
		}
	}
	if t.rest != "" {
		parts = append(parts, "&rest", t.rest)
		if s.ret == "int" {
			uses = append(uses, fmt.Sprintf("(+ %%s (length %s))", t.rest))
		} else {
			uses = append(uses, fmt.Sprintf("(append %s %%s)", t.rest))
		}
	}
	if t.hasKey {
		parts = append(parts, "&key")
		for _, p := range t.keys {
			param(p)
		}
	}
	tailed = func(e string) string {
		for _, u := range uses {
			e = fmt.Sprintf(u, e)
		}
		return e
	}
	return strings.Join(parts, " "), ints, tailed
}

// planShapes decides the lambda-list tails of all versions of function i.
func (g *gen) planShapes(i, nver int) {
	s := &g.sigs[i]
	r := g.r
	def := func() bool { return r.IntN(4) != 0 }
	switch s.fam {
	case "opt":
		// floor: every version takes at least this many arguments behind the required ones
		floor := r.IntN(3)
		for v := 0; v < nver; v++ {
			var t tailShape
			for tries := 0; tries < 4; tries++ {
				t = tailShape{}
				nopt := r.IntN(3)
				rest := r.IntN(3) == 0
				if !rest && nopt < floor {
					nopt = floor
				}
				names := []string{"@o1", "@o2"}
				if v%2 == 1 && r.IntN(2) == 0 {
					names = []string{"@u1", "@u2"}
				}
				for k := 0; k < nopt; k++ {
					t.opts = append(t.opts, tparam{names[k], def()})
				}
				if rest {
					t.rest = []string{"@rs", "@rt"}[r.IntN(2)]
				}
				if v == 0 || len(t.opts) != len(s.shapes[v-1].opts) || (t.rest != "") != (s.shapes[v-1].rest != "") {
					break
				}
				// the same shape again: accepted after 4 tries (only the init forms change)
			}
			s.shapes = append(s.shapes, t)
		}
		s.extra = 99
		minFinite := 99
		for _, t := range s.shapes {
			s.extra = min(s.extra, t.capacity())
			if t.rest == "" {
				minFinite = min(minFinite, len(t.opts))
			}
		}
		s.extra = min(s.extra, 3)
		if minFinite < 4 {
			s.over = minFinite + 1
		}
	case "key":
		all := []string{"@ka", "@kb", "@kc", "@kd"}
		r.Shuffle(len(all), func(a, b int) { all[a], all[b] = all[b], all[a] })
		s.pool = all[:3+r.IntN(2)]
		cur := append([]string{}, s.pool[:1+r.IntN(2)]...)
		rest := ""
		for v := 0; v < nver; v++ {
			if 0 < v {
				var outside []string
				for _, k := range s.pool {
					in := false
					for _, c := range cur {
						in = in || c == k
					}
					if !in {
						outside = append(outside, k)
					}
				}
				switch op := r.IntN(7); {
				case op < 2 && 0 < len(outside): // grow
					cur = append(cur, outside[r.IntN(len(outside))])
					r.Shuffle(len(cur), func(a, b int) { cur[a], cur[b] = cur[b], cur[a] })
				case op < 3 && 1 < len(cur): // shrink
					k := r.IntN(len(cur))
					cur = append(append([]string{}, cur[:k]...), cur[k+1:]...)
				case op < 5 && 0 < len(outside): // rename one
					cur = append([]string{}, cur...)
					cur[r.IntN(len(cur))] = outside[r.IntN(len(outside))]
				case op < 6: // &rest added or removed
					if rest == "" {
						rest = "@rs"
					} else {
						rest = ""
					}
				default: // same keys in another order, new init forms
					cur = append([]string{}, cur...)
					r.Shuffle(len(cur), func(a, b int) { cur[a], cur[b] = cur[b], cur[a] })
				}
			}
			t := tailShape{rest: rest, hasKey: true}
			if 0 < v && r.IntN(10) == 0 {
				// &rest alone: the keyword pairs of the call sites are its elements
				t = tailShape{rest: "@rt"}
			} else {
				for _, k := range cur {
					t.keys = append(t.keys, tparam{k, def()})
				}
			}
			s.shapes = append(s.shapes, t)
		}
	}
}

// genCase builds one program. class: 0 = functions with arguments, 1 = all
// functions without parameters (forward references without arguments).
func genCase(r *rand.Rand, noargs bool, multiRedef bool) Case {
	g := &gen{r: r, noargs: noargs, rich: r.IntN(3) != 0}
	// half of the programs with arguments have functions whose lambda list has an
	// &optional / &rest / &key part that changes from version to version
	g.shaped = !noargs && r.IntN(2) == 0
	n := 2 + r.IntN(3)
	g.sigs = make([]sig, n)
	for i := range g.sigs {
		np := 0
		if !noargs {
			np = 1 + r.IntN(3)
			if r.IntN(6) == 0 {
				np = 0
			}
		}
		ret := "int"
		if r.IntN(3) == 0 {
			ret = "list"
		}
		g.sigs[i] = sig{nparams: np, ret: ret, rec: -1, group: i}
		if g.shaped {
			g.sigs[i].fam = []string{"", "opt", "key", "opt", "key"}[r.IntN(5)]
		}
	}
	var shapedFns []int
	for i := range g.sigs {
		if g.sigs[i].fam != "" {
			shapedFns = append(shapedFns, i)
		}
	}
	// recursion shape
	switch r.IntN(4) {
	case 0: // dag only
	case 1: // self recursion
		i := r.IntN(n)
		g.sigs[i].rec = i
	default: // mutual recursion of a pair
		i := r.IntN(n - 1)
		j := i + 1 + r.IntN(n-1-i)
		g.sigs[i].rec, g.sigs[j].rec = j, i
		g.sigs[i].group, g.sigs[j].group = j, j
		g.sigs[j].ret = g.sigs[i].ret
	}
	for i := range g.sigs {
		if 0 <= g.sigs[i].rec && !noargs && g.sigs[i].nparams == 0 {
			g.sigs[i].nparams = 1
		}
	}
	c := Case{Kind: "args"}
	g.nglob = r.IntN(3)
	if noargs {
		c.Kind = "noargs"
		g.nglob = 1 + r.IntN(3)
		g.gfirst = 1
	}
	for k := 0; k < g.nglob; k++ {
		c.Globals = append(c.Globals, int64(r.IntN(10)))
	}
	// macros: two programs in five have 1-2
	if r.IntN(5) < 2 {
		nm := 1 + r.IntN(2)
		for k := 0; k < nm; k++ {
			m := Mac{Kind: "expr", Ret: "int", Params: []string{"@ua"}}
			switch r.IntN(6) {
			case 0:
				m.Kind, m.Ret = "quote", "list"
			case 1:
				m.Kind, m.Rest, m.BodyVar = "body", "@ubody", fmt.Sprintf("@uv%d", k)
			default:
				if r.IntN(3) == 0 {
					m.Ret = "list"
				}
				if r.IntN(3) != 0 {
					m.Params = append(m.Params, "@ub")
				}
			}
			g.macs = append(g.macs, m)
		}
	}
	nverMac := make([]int, len(g.macs))
	for k := range nverMac {
		nverMac[k] = 1
	}
	// history first (it decides how many versions each function needs)
	nver := make([]int, n)
	for i := range nver {
		nver[i] = 1
	}
	nobj := 0
	run := func(obj int) {
		st := Step{Op: "run", Obj: obj, Compiled: r.IntN(2) == 0}
		if obj < 0 {
			nobj++
		}
		c.Hist = append(c.Hist, st)
	}
	run(-1)
	nred := 1 + r.IntN(3)
	last := -1
	for k := 0; k < nred; k++ {
		if 0 < len(g.macs) && r.IntN(3) == 0 {
			// redefine a macro
			mk := r.IntN(len(g.macs))
			c.Hist = append(c.Hist, Step{Op: "remac", Fn: mk, Ver: nverMac[mk], Compiled: r.IntN(2) == 0})
			nverMac[mk]++
			run(r.IntN(nobj))
			run(-1)
			continue
		}
		f := r.IntN(n)
		if 0 < len(shapedFns) && r.IntN(4) != 0 {
			f = shapedFns[r.IntN(len(shapedFns))]
		}
		if multiRedef {
			if 0 <= last && r.IntN(3) != 0 {
				f = last
			}
		} else {
			// each function is redefined at most once
			tries := 0
			for 1 < nver[f] && tries < 8 {
				f = r.IntN(n)
				tries++
			}
			if 1 < nver[f] {
				break
			}
		}
		last = f
		st := Step{Op: "redef", Fn: f, Ver: nver[f], Compiled: r.IntN(2) == 0}
		if via := r.IntN(8); via < 3 {
			st.Via = []string{"evalfn", "cstring", "load"}[via]
		}
		c.Hist = append(c.Hist, st)
		nver[f]++
		switch r.IntN(3) {
		case 0:
			run(-1)
		case 1:
			run(r.IntN(nobj))
		default:
			run(r.IntN(nobj))
			run(-1)
		}
	}
	for o := 0; o < nobj; o++ {
		run(o)
	}
	run(-1)
	// macro templates
	for k := range g.macs {
		for v := 0; v < nverMac[k]; v++ {
			g.macs[k].Vers = append(g.macs[k].Vers, g.template(k))
		}
	}
	g.maxMac = len(g.macs)
	// functions
	for i := range g.sigs {
		g.planShapes(i, nver[i])
	}
	for i := range g.sigs {
		fn := Fn{Ret: g.sigs[i].ret, Rec: g.sigs[i].rec}
		for v := 0; v < nver[i]; v++ {
			fn.Vers = append(fn.Vers, g.version(i, v))
		}
		c.Fns = append(c.Fns, fn)
	}
	// main form: a list of calls
	msc := scope{}
	for j := 0; j < n; j++ {
		msc.calls = append(msc.calls, j)
	}
	var el []string
	el = append(el, g.call(msc, 0, 2))
	m := 1 + r.IntN(3)
	for k := 0; k < m; k++ {
		switch r.IntN(4) {
		case 0:
			el = append(el, g.anyExpr(msc, 2))
		default:
			el = append(el, g.call(msc, r.IntN(n), 2))
		}
	}
	for _, i := range shapedFns {
		// a function whose lambda list changes is called from the main form as well
		if 1 < nver[i] && r.IntN(4) != 0 {
			el = append(el, g.call(msc, i, 2))
		}
	}
	if g.shaped && r.IntN(2) == 0 {
		if u := g.guarded(msc, 2); u != "" {
			el = append(el, u)
		}
	}
	r.Shuffle(len(el), func(a, b int) { el[a], el[b] = el[b], el[a] })
	c.Main = fmt.Sprintf("(list%s)", sp(el))
	if 0 < len(g.macs) && !strings.Contains(c.Main, "(@mac") && !bodiesUse(c.Fns) {
		// make sure a macro is used at least at one site
		if u := g.macroUse(msc, 2, g.macs[0].Ret); u != "" {
			c.Main = fmt.Sprintf("(list %s %s)", u, c.Main)
		}
	}
	c.Macs = g.macs
	c.K = 2 + r.IntN(4)
	c.Long = r.IntN(12) == 0
	return c
}

func bodiesUse(fns []Fn) bool {
	for _, fn := range fns {
		if strings.Contains(fn.Vers[0].Body, "(@mac") {
			return true
		}
	}
	return false
}
