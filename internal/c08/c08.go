// Package c08 monitors that the meaning of a multi-definition program does
// not depend on the order of its top-level definitions, on compilation, or on
// how often a code object has been evaluated: every treatment of one program
// is run on the real interpreter and must agree with a reference evaluator
// (package ref) and therefore with every other treatment.
package c08

import (
	"fmt"
	"io"
	"math/rand/v2"
	"os"
	"path/filepath"
	"sort"
	"strings"

	"github.com/ohler55/slip"

	"verif/internal/c08/ref"
	"verif/internal/fw"
	"verif/internal/sl"
)

// ---- harness builtins registered with the real interpreter ----

var (
	trace   []int64
	outVal  slip.Object
	outSet  bool
	counter int // suffix counter for fresh names (per worker process)
)

type vtr struct{ slip.Function }

func (f *vtr) Call(s *slip.Scope, args slip.List, depth int) slip.Object {
	slip.CheckArgCount(s, depth, f, args, 2, 2)
	if k, ok := args[0].(slip.Fixnum); ok {
		trace = append(trace, int64(k))
	} else {
		trace = append(trace, -999)
	}
	return args[1]
}

type vout struct{ slip.Function }

// c8n is (c8n): the harness's evaluation number, an input that differs from one evaluation of
// a code object to the next (the reeval monitor sets it before every evaluation), so that a
// VALUE cached in a form instead of the form's compiled code shows.
type c8n struct{ slip.Function }

var c8epoch int64

func (f *c8n) Call(s *slip.Scope, args slip.List, depth int) slip.Object {
	return slip.Fixnum(c8epoch)
}

func (f *vout) Call(s *slip.Scope, args slip.List, depth int) slip.Object {
	slip.CheckArgCount(s, depth, f, args, 1, 1)
	outVal, outSet = args[0], true
	return args[0]
}

func initWorker() {
	// redefinition warnings of defun go to *error-output*
	slip.ErrorOutput = &slip.OutputStream{Writer: io.Discard}
	defer func() {
		// helper macro of the reeval templates: a template with a binding and comma-free nested calls
		sc := slip.NewScope()
		_ = sl.Catch(func() {
			slip.ReadString("(defmacro c8-mac (a b) `(let ((v ,a)) (+ v (* v 2) (car (list ,b (+ v 1))))))", sc).Eval(sc, nil)
		})
	}()
	slip.Define(
		func(args slip.List) slip.Object {
			f := vtr{Function: slip.Function{Name: "vtr", Args: args}}
			f.Self = &f
			return &f
		},
		&slip.FuncDoc{Name: "vtr", Kind: slip.FunctionSymbol, Return: "object",
			Args: []*slip.DocArg{{Name: "k", Type: "fixnum"}, {Name: "value", Type: "object"}},
			Text: "verification trace marker: records k, returns value"}, &slip.UserPkg)
	slip.Define(
		func(args slip.List) slip.Object {
			f := c8n{Function: slip.Function{Name: "c8n", Args: args}}
			f.Self = &f
			return &f
		},
		&slip.FuncDoc{Name: "c8n", Kind: slip.FunctionSymbol, Return: "fixnum", Text: "verification: the number of the evaluation under way"}, &slip.UserPkg)
	slip.Define(
		func(args slip.List) slip.Object {
			f := vout{Function: slip.Function{Name: "vout", Args: args}}
			f.Self = &f
			return &f
		},
		&slip.FuncDoc{Name: "vout", Kind: slip.FunctionSymbol, Return: "object",
			Args: []*slip.DocArg{{Name: "value", Type: "object"}},
			Text: "verification result sink"}, &slip.UserPkg)
}

// ---- one world = one treatment: fresh names, fresh scope ----

type world struct {
	scope  *slip.Scope
	sfx    string
	steps  int
	budget int
	over   bool
}

func newWorld(budget int) *world {
	counter++
	w := &world{scope: slip.NewScope(), sfx: fmt.Sprintf("q%dx", counter), budget: budget}
	w.scope.Let(slip.Symbol("*error-output*"), &slip.OutputStream{Writer: io.Discard})
	w.scope.InterruptCheck = func() {
		w.steps++
		if w.budget < w.steps {
			w.over = true
			panic("c08-step-budget")
		}
	}
	return w
}

func (w *world) name(src string) string { return instantiate(src, w.sfx) }

// instantiate replaces the name marker @ by a prefix; ,% in case texts is the
// comma-at of macro templates (written that way because @ is the marker).
func instantiate(src, prefix string) string {
	if qualOn {
		src = qualify(src)
	}
	return strings.ReplaceAll(strings.ReplaceAll(src, "@", prefix), ",%", ",@")
}

// qualOn: the case under execution writes part of its calls package
// qualified (Case.Qual). A qualified name means the same function as the bare
// one: cl:+ is +, cl-user:f is the f of the user package, whether the call
// is evaluated from the list form, compiled, or compiled before f exists.
var qualOn bool

var qualOps = map[string]bool{"+": true, "-": true, "*": true, "1+": true, "1-": true, "list": true, "cons": true, "length": true,
	"append": true, "reverse": true, "zerop": true, "null": true, "not": true, "=": true, "<": true, ">": true, "<=": true, ">=": true}

// qualify rewrites, deterministically, about a third of the operator
// positions that hold an ordinary CL function (-> cl:op or common-lisp:op)
// or a function of the program (@fN -> cl-user:@fN). Special forms, macros
// of the program, quoted lists and #'f are left alone.
func qualify(src string) string {
	var b strings.Builder
	n := uint32(len(src))
	for i := 0; i < len(src); i++ {
		b.WriteByte(src[i])
		if src[i] != '(' || 0 < i && (src[i-1] == '\'' || src[i-1] == '`') {
			continue
		}
		j := i + 1
		for j < len(src) && src[j] != ' ' && src[j] != ')' && src[j] != '(' {
			j++
		}
		op := src[i+1 : j]
		n = n*2654435761 + uint32(j)
		if n>>8%3 != 0 {
			continue
		}
		switch {
		case qualOps[op]:
			b.WriteString([]string{"cl:", "common-lisp:"}[n>>12%2])
		case strings.HasPrefix(op, "@f") && 2 < len(op) && '0' <= op[2] && op[2] <= '9':
			b.WriteString([]string{"cl-user:", "common-lisp-user:", "cl-user::"}[n>>12%3])
		}
	}
	return b.String()
}

// parse reads case text for the reference evaluator (names get the prefix r_).
func parse(src string) []*ref.Node { return ref.MustParse(instantiate(src, "r_")) }

func macroSrc(k int, m Mac, ver int) string {
	ps := strings.Join(m.Params, " ")
	if m.Rest != "" {
		ps += " &rest " + m.Rest
	}
	return fmt.Sprintf("(defmacro @mac%d (%s) %s)", k, ps, m.Vers[ver])
}

// observation of one evaluation
type obs struct {
	val   string
	trace []int64
	err   *sl.Err
	over  bool
}

func (w *world) do(fn func() slip.Object) obs {
	trace = trace[:0]
	w.steps = 0
	w.over = false
	sl.Reset()
	var res slip.Object
	err := sl.Catch(func() { res = fn() })
	o := obs{err: err, over: w.over, trace: append([]int64{}, trace...)}
	if err == nil {
		// keywords in a value (a &rest list of keyword arguments) carry the world's name prefix
		o.val = strings.ReplaceAll(sl.Show(res), ":"+w.sfx, ":r_")
	}
	return o
}

func defunSrc(i int, v Ver) string {
	ll := strings.Join(v.Params, " ")
	if v.Tail != "" {
		ll = strings.TrimSpace(ll + " " + v.Tail)
	}
	def := fmt.Sprintf("(defun @f%d (%s) %s)", i, ll, v.Body)
	if v.Macro {
		def = fmt.Sprintf("(defmacro @f%d (%s) %s)", i, ll, v.Body)
	}
	if 0 < len(v.Wrap) {
		def = strings.Join(v.Wrap, " ") + " " + def + strings.Repeat(")", len(v.Wrap))
	}
	return def
}

// tailInfo is what a redefinition can change about the way a function takes
// its arguments.
type tailInfo struct {
	nopt   int
	rest   bool
	hasKey bool
	keys   string // sorted key names
	macro  bool
	text   string
}

func tailOf(v Ver) tailInfo {
	ti := tailInfo{macro: v.Macro, text: v.Tail}
	mode := ""
	var keys []string
	for _, n := range ref.MustParse("(" + instantiate(v.Tail, "r_") + ")")[0].List {
		name := n.Sym
		if n.Kind == 'l' && 0 < len(n.List) {
			name = n.List[0].Sym
		}
		switch {
		case strings.HasPrefix(name, "&"):
			mode = name
			ti.hasKey = ti.hasKey || name == "&key"
		case mode == "&optional":
			ti.nopt++
		case mode == "&rest":
			ti.rest = true
		case mode == "&key":
			keys = append(keys, name)
		}
	}
	sort.Strings(keys)
	ti.keys = strings.Join(keys, ",")
	return ti
}

// reshapes in the order in which they name a signature.
var reshapes = []string{"keys", "optional", "rest", "kind", "init"}

// reshape names what the step from version a to version b of a function
// changes about its lambda list ("" = only parameter names or nothing).
func reshape(a, b Ver) string {
	ta, tb := tailOf(a), tailOf(b)
	switch {
	case ta.hasKey != tb.hasKey || ta.keys != tb.keys:
		return "keys"
	case ta.nopt != tb.nopt:
		return "optional"
	case ta.rest != tb.rest:
		return "rest"
	case ta.macro != tb.macro:
		return "kind"
	case ta.text != tb.text:
		return "init"
	}
	return ""
}

// gkinds holds Case.GKind of the case under execution (nil: every global is a defvar).
var gkinds []string

func globalSrc(k int, v int64) string {
	kind := "defvar"
	if k < len(gkinds) {
		kind = gkinds[k]
	}
	return fmt.Sprintf("(%s *@g%d* %d)", kind, k, v)
}

// pickGKinds: how each global is defined when the globals come after the functions.
func pickGKinds(r *rand.Rand, c *Case) {
	text := c.Main
	for _, fn := range c.Fns {
		for _, v := range fn.Vers {
			text += " " + v.Body
		}
	}
	for _, m := range c.Macs {
		text += " " + strings.Join(m.Vers, " ")
	}
	for _, st := range c.Hist {
		text += " " + st.Op
	}
	c.GKind = nil
	for k := range c.Globals {
		// not defparameter: the modes that evaluate the whole text again would reset the variable
		kinds := []string{"defvar"}
		if !strings.Contains(text, fmt.Sprintf("(setq *@g%d*", k)) {
			kinds = append(kinds, "defconstant")
		}
		c.GKind = append(c.GKind, kinds[r.IntN(len(kinds))])
	}
}

// ---- expectations from the reference evaluator ----

type want struct {
	val   string
	trace []int64
}

const refBudget = 6000

func refRun(m *ref.Machine, main *ref.Node) (want, error) {
	m.Trace = m.Trace[:0]
	m.Steps = 0
	v, err := m.Top(main)
	if err != nil {
		return want{}, err
	}
	return want{val: ref.Show(v), trace: append([]int64{}, m.Trace...)}, nil
}

func refDefine(m *ref.Machine, c Case) error {
	for k, v := range c.Globals {
		if _, err := m.Top(parse(globalSrc(k, v))[0]); err != nil {
			return err
		}
	}
	for k, mac := range c.Macs {
		if _, err := m.Top(parse(macroSrc(k, mac, 0))[0]); err != nil {
			return err
		}
	}
	for i, fn := range c.Fns {
		if _, err := m.Top(parse(defunSrc(i, fn.Vers[0]))[0]); err != nil {
			return err
		}
	}
	return nil
}

// ---- permutations ----

// perms lists the permutations of 0..n-1 in lexicographic order: the first
// is the identity (callers before callees, since calls go to higher
// indices), the last the reverse (callees first).
func perms(n int) [][]int {
	p := make([]int, n)
	for i := range p {
		p[i] = i
	}
	var out [][]int
	for {
		out = append(out, append([]int{}, p...))
		i := n - 2
		for 0 <= i && p[i+1] < p[i] {
			i--
		}
		if i < 0 {
			return out
		}
		j := n - 1
		for p[j] < p[i] {
			j--
		}
		p[i], p[j] = p[j], p[i]
		for a, b := i+1, n-1; a < b; a, b = a+1, b-1 {
			p[a], p[b] = p[b], p[a]
		}
	}
}

// fwdInfo describes the forward references of the program when its functions
// are defined in the order perm. fwdArgs: some function body calls - in
// operator position and with at least one argument - a function that is not
// yet defined when the caller is defined (a later one, or the function
// itself). fwdAny: the same without the argument condition. fwd[f]: f is
// referenced that way before its own definition is complete.
func fwdInfo(c Case, perm []int) (fwdArgs, fwdAny bool, fwd []int) {
	pos := make([]int, len(c.Fns))
	for k, i := range perm {
		pos[i] = k
	}
	fwd = make([]int, len(c.Fns))
	for i, fn := range c.Fns {
		calls := ref.Calls(parse(fn.Vers[0].Body), "r_f")
		for name, argcs := range calls {
			var j int
			_, _ = fmt.Sscanf(name, "r_f%d", &j)
			if pos[j] < pos[i] {
				continue
			}
			for _, n := range argcs {
				if n < 0 {
					continue // #'f or 'f: looked up when evaluated
				}
				fwdAny = true
				fwd[j] = 1
				if 0 < n {
					fwdArgs = true
				}
			}
		}
	}
	return
}

var modes = []string{"repl", "crepl", "eval", "compile", "cstring", "evalfn", "premain", "load"}

// Case list layout: the probes, the deterministic reeval block (inventory,
// every template alone, every ordered pair of templates), then seeded cases:
// programs and reeval compositions alternate.
func nCases(tier string) int {
	if tier == "thorough" {
		return len(probes) + reevalBlock() + 48000
	}
	return len(probes) + reevalBlock() + 4000
}

func genC(r *rand.Rand, i int, tier string) Case {
	if i < len(probes) {
		return probes[i]
	}
	i -= len(probes)
	if i < reevalBlock() {
		return reevalDet(i)
	}
	i -= reevalBlock()
	if i%2 == 1 {
		return reevalRand(r)
	}
	i /= 2
	noargs := i%6 == 0
	multi := i%2 == 1
	c := genCase(r, noargs, multi)
	c.Qual = i%5 == 2
	if i%3 == 1 && 0 < len(c.Globals) {
		c.GLast = true
		pickGKinds(r, &c)
	}
	return c
}

// every fixed probe program is also run with package qualified calls
func init() {
	n := len(probes)
	for _, p := range probes[:n] {
		p.Qual = true
		probes = append(probes, p)
	}
	probes = append(probes, kindCases()...)
}

// probes are fixed cases at the start of every case list: one minimal
// program per listed finding, so that the findings are re-observed (and
// their signatures produced) whatever the seed.
var probes = []Case{
	{ // a macro argument form that is evaluated and also handed out as quoted data
		Kind: "probe",
		Macs: []Mac{{Kind: "quote", Ret: "list", Params: []string{"@ua"},
			Vers: []string{"`(let ((@v ,@ua)) (list (quote ,@ua) @v (list (+ @v 1) (quote (k 1)))))"}}},
		Fns: []Fn{
			{Ret: "list", Rec: -1, Vers: []Ver{{Params: []string{"@a"}, Body: "(list @a (@mac0 (* (+ 1 1) 3)))"}}},
			{Ret: "int", Rec: -1, Vers: []Ver{{Params: []string{"@k"}, Body: "(+ @k 1)"}}},
		},
		Main: "(list (@f0 1) (@mac0 (+ 1 (* 2 3))) (@f1 2))", K: 3,
		Hist: []Step{{Op: "run", Obj: -1}, {Op: "run", Obj: 0}},
	},
	{ // a macro whose template binds v and holds comma-free sub-lists with nested calls on v; used at
		// several sites, from two functions and the main form, under callers' variables named v; redefined
		Kind: "probe",
		Macs: []Mac{{Kind: "expr", Ret: "int", Params: []string{"@ua", "@ub"},
			Vers: []string{"`(let ((@v ,@ua)) (+ @v (* @v 2) ,@ub))", "`(let ((@v ,@ua)) (- (* @v (+ @v 1)) ,@ub))"}}},
		Fns: []Fn{
			{Ret: "list", Rec: -1, Vers: []Ver{{Params: []string{"@v"}, Body: "(list (@mac0 @v 1) (@mac0 (+ @v 1) @v) (@f1 @v))"}}},
			{Ret: "int", Rec: -1, Vers: []Ver{{Params: []string{"@k"}, Body: "(let ((@v 50)) (+ @v (@mac0 @k @v)))"}}},
		},
		Main: "(list (@f0 2) (@mac0 3 4) (@f1 5) (@mac0 3 4))", K: 4,
		Hist: []Step{{Op: "run", Obj: -1}, {Op: "run", Obj: 0}, {Op: "remac", Fn: 0, Ver: 1}, {Op: "run", Obj: 0}, {Op: "run", Obj: -1, Compiled: true}},
	},
	{ // a defun inside a let that uses the let's variable, under a name the caller also uses; redefined once
		Kind: "probe",
		Fns: []Fn{
			{Ret: "list", Rec: -1, Vers: []Ver{{Params: []string{"@a"}, Body: "(list (@f1 @a) @a)"}}},
			{Ret: "int", Rec: -1, Vers: []Ver{
				{Params: []string{"@k"}, Body: "(* @k @a)", Wrap: []string{"(let ((@a 100))"}},
				{Params: []string{"@k"}, Body: "(+ @k @a @b)", Wrap: []string{"(let ((@a 7))", "(let* ((@b (+ @a 1)))"}}}},
		},
		Main: "(list (@f0 2) (@f1 3))", K: 3,
		Hist: []Step{{Op: "run", Obj: -1}, {Op: "redef", Fn: 1, Ver: 1}, {Op: "run", Obj: 0}, {Op: "run", Obj: -1, Compiled: true}},
	},
	{ // a call with arguments compiled before the callee is defined
		Kind: "probe",
		Fns: []Fn{
			{Ret: "list", Rec: -1, Vers: []Ver{{Params: []string{"@x"}, Body: "(@f1 @x 2)"}}},
			{Ret: "list", Rec: -1, Vers: []Ver{{Params: []string{"@a", "@b"}, Body: "(list @a @b)"}}},
		},
		Main: "(list (@f0 1))", K: 2,
		Hist: []Step{{Op: "run", Obj: -1}},
	},
	{ // a caller created after the first redefinition of its callee, run after the second
		Kind: "probe",
		Fns: []Fn{
			{Ret: "list", Rec: -1, Vers: []Ver{{Params: []string{"@x"}, Body: "(list (@f1 @x))"}}},
			{Ret: "int", Rec: -1, Vers: []Ver{{Params: []string{"@a"}, Body: "(+ @a 1)"}, {Params: []string{"@a"}, Body: "(+ @a 2)"}, {Params: []string{"@a"}, Body: "(+ @a 3)"}}},
		},
		Main: "(list (@f1 10) (@f0 20))", K: 2,
		Hist: []Step{{Op: "run", Obj: -1}, {Op: "redef", Fn: 1, Ver: 1}, {Op: "run", Obj: -1}, {Op: "redef", Fn: 1, Ver: 2},
			{Op: "run", Obj: 0}, {Op: "run", Obj: 1}, {Op: "run", Obj: -1}},
	},
	{ // a lambda in operator position whose body is a bare variable of the enclosing function
		Kind: "probe",
		Fns: []Fn{
			{Ret: "int", Rec: -1, Vers: []Ver{{Params: []string{"@a", "@b"}, Body: "((lambda (@v1) @a) @b)"}, {Params: []string{"@a", "@b"}, Body: "((lambda (@v1) @b) @a)"}}},
			{Ret: "int", Rec: -1, Vers: []Ver{{Params: nil, Body: "(vtr 1 (vtr 2 7))"}}},
		},
		Main: "(list (@f0 3 4) (@f1))", K: 3,
		Hist: []Step{{Op: "run", Obj: -1}, {Op: "redef", Fn: 0, Ver: 1}, {Op: "run", Obj: 0}, {Op: "run", Obj: -1}},
	},
	{ // &key parameters that grow, are renamed, shrink and give way to &rest; every call site fits every
		// version (slip allows and ignores other keywords); called before and after each redefinition
		Kind: "probe",
		Fns: []Fn{
			{Ret: "list", Rec: -1, Vers: []Ver{{Params: []string{"@x"},
				Body: "(list (@f1 @x :@kb @x) (@f1 @x :@ka 2 :@kc 3) (@f1 @x) (funcall #'@f1 @x :@kc 8))"}}},
			{Ret: "list", Rec: -1, Vers: []Ver{
				{Params: []string{"@a"}, Tail: "&key (@ka 5)", Body: "(list @a @ka)"},
				{Params: []string{"@a"}, Tail: "&key (@ka 5) (@kb 7)", Body: "(list @a @ka @kb)"},
				{Params: []string{"@a"}, Tail: "&key (@kc 1) (@kb (+ @a 1))", Body: "(list @a @kc @kb)"},
				{Params: []string{"@a"}, Tail: "&key @kb", Body: "(list @a @kb)"},
				{Params: []string{"@a"}, Tail: "&rest @rs &key (@ka 9)", Body: "(list @a @ka @rs)"},
				{Params: []string{"@a"}, Tail: "&rest @rs", Body: "(list @a @rs)"},
				{Params: []string{"@a"}, Tail: "&key (@kc (vtr 7 4)) @ka", Body: "(list @a @kc @ka)"}}},
		},
		Main: "(list (@f0 1) (@f1 2 :@ka 3) (@f1 2 :@kb 4 :@ka 6) (funcall #'@f1 3 :@kc 8) (apply #'@f1 (list 4 :@kb 5)) (@f1 5))", K: 3,
		Hist: []Step{{Op: "run", Obj: -1}, {Op: "run", Obj: 0},
			{Op: "redef", Fn: 1, Ver: 1}, {Op: "run", Obj: 0}, {Op: "run", Obj: -1, Compiled: true},
			{Op: "redef", Fn: 1, Ver: 2, Compiled: true}, {Op: "run", Obj: 0}, {Op: "run", Obj: 1}, {Op: "run", Obj: -1},
			{Op: "redef", Fn: 1, Ver: 3, Via: "evalfn"}, {Op: "run", Obj: 2}, {Op: "run", Obj: -1},
			{Op: "redef", Fn: 1, Ver: 4, Via: "load"}, {Op: "run", Obj: 0}, {Op: "run", Obj: -1, Compiled: true},
			{Op: "redef", Fn: 1, Ver: 5, Via: "cstring"}, {Op: "run", Obj: 1}, {Op: "run", Obj: -1},
			{Op: "redef", Fn: 1, Ver: 6}, {Op: "run", Obj: 0}, {Op: "run", Obj: 3}, {Op: "run", Obj: -1}},
	},
	{ // &optional parameters added and removed behind the required one, &rest added; call sites that fit every
		// version, and call sites inside ignore-errors that only some versions accept
		Kind: "probe",
		Fns: []Fn{
			{Ret: "list", Rec: -1, Vers: []Ver{{Params: []string{"@x"},
				Body: "(list (@f1 @x) (@f2 @x) (@f2 @x (+ @x 1)) (list (ignore-errors (@f1 @x 8))) (list (ignore-errors (@f2 @x 8 9))))"}}},
			{Ret: "list", Rec: -1, Vers: []Ver{
				{Params: []string{"@a"}, Body: "(list @a)"},
				{Params: []string{"@a"}, Tail: "&optional (@o1 (+ @a 10))", Body: "(list @a @o1)"},
				{Params: []string{"@a"}, Tail: "&rest @rs", Body: "(list @a @rs)"},
				{Params: []string{"@a"}, Body: "(list @a 0)"}}},
			{Ret: "list", Rec: -1, Vers: []Ver{
				{Params: []string{"@a"}, Tail: "&optional (@o1 3)", Body: "(list @a @o1)"},
				{Params: []string{"@a"}, Tail: "&optional (@o1 4) (@o2 @a)", Body: "(list @a @o1 @o2)"},
				{Params: []string{"@a"}, Tail: "&optional @o1 &rest @rs", Body: "(list @a @o1 @rs)"},
				{Params: []string{"@a"}, Tail: "&optional (@u1 6)", Body: "(list @a @u1)"}}},
		},
		Main: "(list (@f0 1) (@f1 2) (@f2 3) (@f2 4 5) (list (ignore-errors (@f1 5 6))) (list (ignore-errors (@f2 5 6 7))) (list (ignore-errors (funcall #'@f1 1 2 3))))", K: 3,
		Hist: []Step{{Op: "run", Obj: -1}, {Op: "run", Obj: 0},
			{Op: "redef", Fn: 1, Ver: 1}, {Op: "run", Obj: 0}, {Op: "run", Obj: -1, Compiled: true},
			{Op: "redef", Fn: 2, Ver: 1, Compiled: true}, {Op: "run", Obj: 0}, {Op: "run", Obj: 1}, {Op: "run", Obj: -1},
			{Op: "redef", Fn: 1, Ver: 2, Via: "evalfn"}, {Op: "redef", Fn: 2, Ver: 2, Via: "load"}, {Op: "run", Obj: 0}, {Op: "run", Obj: -1, Compiled: true},
			{Op: "redef", Fn: 1, Ver: 3}, {Op: "redef", Fn: 2, Ver: 3, Via: "cstring"}, {Op: "run", Obj: 0}, {Op: "run", Obj: 2}, {Op: "run", Obj: -1}},
	},
	{ // only the init forms change: a literal, a global that every call changes, a variable of the enclosing let
		Kind: "probe", Globals: []int64{3},
		Fns: []Fn{
			{Ret: "list", Rec: -1, Vers: []Ver{{Params: []string{"@x"}, Body: "(list (@f1 @x) (@f1 @x :@ka 1) (@f2 @x) (@f2 @x 2))"}}},
			{Ret: "list", Rec: -1, Vers: []Ver{
				{Params: []string{"@a"}, Tail: "&key (@ka *@g0*)", Body: "(progn (setq *@g0* (+ *@g0* 1)) (list @a @ka))"},
				{Params: []string{"@a"}, Tail: "&key (@ka (* *@g0* 2))", Body: "(progn (setq *@g0* (+ *@g0* 1)) (list @a @ka))"},
				{Params: []string{"@a"}, Tail: "&key (@ka (+ @c @a))", Body: "(list @a @ka @c)", Wrap: []string{"(let ((@c 40))"}},
				{Params: []string{"@a"}, Tail: "&key (@ka 77)", Body: "(list @a @ka)"}}},
			{Ret: "list", Rec: -1, Vers: []Ver{
				{Params: []string{"@a"}, Tail: "&optional (@o1 (vtr 5 11))", Body: "(list @a @o1)"},
				{Params: []string{"@a"}, Tail: "&optional (@o1 (vtr 6 (+ @a *@g0*)))", Body: "(list @a @o1)"},
				{Params: []string{"@a"}, Tail: "&optional (@o1 12)", Body: "(list @a @o1)"}}},
		},
		Main: "(list (@f0 1) (@f1 2) (@f1 3 :@ka 4) (@f2 5) (@f2 6 7))", K: 4,
		Hist: []Step{{Op: "run", Obj: -1}, {Op: "run", Obj: 0},
			{Op: "redef", Fn: 1, Ver: 1}, {Op: "redef", Fn: 2, Ver: 1, Compiled: true}, {Op: "run", Obj: 0}, {Op: "run", Obj: -1, Compiled: true}, {Op: "run", Obj: 1},
			{Op: "redef", Fn: 1, Ver: 2}, {Op: "redef", Fn: 2, Ver: 2, Via: "evalfn"}, {Op: "run", Obj: 0}, {Op: "run", Obj: 1}, {Op: "run", Obj: -1},
			{Op: "redef", Fn: 1, Ver: 3, Via: "load"}, {Op: "run", Obj: 0}, {Op: "run", Obj: 2}, {Op: "run", Obj: -1}},
	},
	{ // a function becomes a macro of the same call shape and a function again; it is called from the main form
		// only and after a change of kind only code objects made after it are run (code processed while the name
		// was of the other kind has no defined meaning)
		Kind: "probe",
		Fns: []Fn{
			{Ret: "list", Rec: -1, Vers: []Ver{
				{Params: []string{"@a"}, Body: "(list @a (+ @a 1))"},
				{Params: []string{"@a"}, Macro: true, Body: "`(list ,@a (+ ,@a 2))"},
				{Params: []string{"@a"}, Body: "(list @a (+ @a 3))"}}},
			{Ret: "int", Rec: -1, Vers: []Ver{{Params: []string{"@k"}, Body: "(+ @k 1)"}}},
		},
		Main: "(list (@f0 (vtr 1 2)) (@f0 3) (@f1 4))", K: 3,
		Hist: []Step{{Op: "run", Obj: -1}, {Op: "run", Obj: 0},
			{Op: "redef", Fn: 0, Ver: 1}, {Op: "run", Obj: -1}, {Op: "run", Obj: 1}, {Op: "run", Obj: -1, Compiled: true},
			{Op: "redef", Fn: 0, Ver: 2, Compiled: true}, {Op: "run", Obj: -1}, {Op: "run", Obj: 3}, {Op: "run", Obj: -1, Compiled: true}},
	},
}

func yn(b bool) string {
	if b {
		return "y"
	}
	return "n"
}

func eqTrace(a, b []int64) bool {
	if len(a) != len(b) {
		return false
	}
	for i := range a {
		if a[i] != b[i] {
			return false
		}
	}
	return true
}

// judge compares one observation with the expectation; returns the failure
// kind ("" = agrees).
func judge(o obs, w want) (kind, detail string) {
	switch {
	case o.over:
		return "runaway", "evaluation exceeded the step budget (reference needed far fewer steps)"
	case o.err != nil && o.err.Internal:
		return "internal-fault", o.err.String()
	case o.err != nil:
		return "error:" + o.err.Class, o.err.String()
	case o.val != w.val:
		return "value", fmt.Sprintf("value %s, expected %s", o.val, w.val)
	case !eqTrace(o.trace, w.trace):
		return "trace", fmt.Sprintf("trace %v, expected %v (value %s)", o.trace, w.trace, o.val)
	}
	return "", ""
}

type failure struct {
	sig, msg string
}

func exec(x *fw.Ctx, c Case) {
	if strings.HasPrefix(c.Kind, "reeval") {
		execReeval(x, c)
		return
	}
	if c.Kind == "kinds" {
		execKinds(x, c)
		return
	}
	qualOn = c.Qual
	gkinds = c.GKind
	defer func() { qualOn, gkinds = false, nil }()
	if c.Qual {
		x.Cover("program:with-package-qualified-calls")
		q := qualify(c.Main)
		for _, fn := range c.Fns {
			for _, v := range fn.Vers {
				q += qualify(v.Body)
			}
		}
		x.CoverN("package-qualified-call-sites:builtin", strings.Count(q, "(cl:")+strings.Count(q, "(common-lisp:"))
		x.CoverN("package-qualified-call-sites:program-function", strings.Count(q, "(cl-user:")+strings.Count(q, "(common-lisp-user:"))
	}
	n := len(c.Fns)
	mainNode := parse(c.Main)[0]
	x.Cover("kind:" + c.Kind)
	x.Cover(fmt.Sprintf("defs:%d", n))
	for _, fn := range c.Fns {
		switch {
		case fn.Rec < 0:
			x.Cover("fn:plain")
		case c.Fns[fn.Rec].Rec == fn.Rec:
			x.Cover("fn:self-recursive")
		default:
			x.Cover("fn:mutually-recursive")
		}
	}
	// a macro that both evaluates its argument form and hands it out as quoted data
	quotedCode := false
	for _, mac := range c.Macs {
		x.Cover("macro:" + mac.Kind)
		quotedCode = quotedCode || mac.Kind == "quote"
	}
	if 0 < len(c.Macs) {
		x.Cover("program:with-macros")
		uses := strings.Count(c.Main, "(@mac")
		for _, fn := range c.Fns {
			uses += strings.Count(fn.Vers[0].Body, "(@mac")
		}
		x.CoverN("macro-use-sites", uses)
	}
	nested := false // some original definition is written inside let / let*
	for _, fn := range c.Fns {
		for vi, v := range fn.Vers {
			if 0 < len(v.Wrap) {
				x.Cover(fmt.Sprintf("fn:defun-inside-let depth=%d", len(v.Wrap)))
				if vi == 0 {
					nested = true
				} else {
					x.Cover("hist:redefinition-inside-let")
				}
			}
		}
	}

	shapedProg := false
	for _, fn := range c.Fns {
		for vi, v := range fn.Vers {
			ti := tailOf(v)
			if v.Tail != "" {
				shapedProg = true
				x.Cover(fmt.Sprintf("fn:lambda-list optional=%d rest=%s key=%s", ti.nopt, yn(ti.rest), yn(ti.hasKey)))
			}
			if 0 < vi {
				if k := reshape(fn.Vers[vi-1], v); k != "" {
					x.Cover("version-changes-lambda-list:" + k)
				}
			}
		}
	}
	if shapedProg {
		x.Cover("program:with-optional-rest-key-parameters")
		guarded := strings.Count(c.Main, "(ignore-errors")
		for _, fn := range c.Fns {
			guarded += strings.Count(fn.Vers[0].Body, "(ignore-errors")
		}
		x.CoverN("call-sites-beyond-some-version's-lambda-list (inside ignore-errors)", guarded)
	}

	// ---------- family A: order x delivery mode x k evaluations ----------
	m := ref.New(refBudget)
	if err := refDefine(m, c); err != nil {
		x.Fail("harness: reference cannot define", "%s", err)
		return
	}
	var wantA []want
	slipBudget := 1000
	nref := c.K
	if c.Long {
		nref = 100
	}
	for k := 0; k < nref; k++ {
		w, err := refRun(m, mainNode)
		if err != nil {
			if err.Error() == "budget" && c.K <= k {
				// the long re-evaluation stops where steps or magnitudes leave the small range
				x.Cover("long-reevaluation-cut-short")
				break
			}
			if err.Error() == "budget" {
				x.Trivial()
				x.Cover("skipped:reference-budget-or-magnitude")
				return
			}
			x.Fail("harness: reference cannot evaluate", "%s: %s", c.Main, err)
			return
		}
		// slip counts function evaluations only, the reference every node
		if slipBudget < 3*m.Steps+1000 {
			slipBudget = 3*m.Steps + 1000
		}
		wantA = append(wantA, w)
	}
	if len(wantA[0].trace) < 2 {
		x.Trivial()
	}
	x.CoverN("ref:trace-markers", len(wantA[0].trace))

	mainArgs := false
	for _, argcs := range ref.Calls([]*ref.Node{mainNode}, "r_f") {
		for _, a := range argcs {
			if 0 < a {
				mainArgs = true
			}
		}
	}
	// a lambda in operator position whose body form is a bare outer variable
	lamfree := ref.LambdaHeadFree([]*ref.Node{mainNode})
	for _, fn := range c.Fns {
		for _, v := range fn.Vers {
			if ref.LambdaHeadFree(parse(v.Body)) {
				lamfree = true
			}
		}
	}
	x.Cover("program:lamfree=" + yn(lamfree))
	x.Cover("avoided:funcall-without-arguments (C04 matter)")
	var fails []failure
	okCount, total := 0, 0
	fwdCache := map[string]bool{}
	observeOnly := false
	reshaped := "" // histories: the most telling lambda-list change among the redefinitions so far
	record := func(perm []int, mode, at string, rebind int, o obs, w want, src string) {
		if observeOnly {
			if kind, _ := judge(o, w); kind == "" {
				x.Cover("macro-after-users (not judged): agrees")
			} else {
				x.Cover("macro-after-users (not judged): differs, " + strings.SplitN(kind, ":", 2)[0])
			}
			return
		}
		total++
		pk := fmt.Sprint(perm)
		fa, has := fwdCache[pk]
		if !has {
			fa, _, _ = fwdInfo(c, perm)
			fwdCache[pk] = fa
		}
		if mode == "premain" && mainArgs {
			fa = true // the main form itself was compiled before its callees existed
		}
		rd := "0"
		switch {
		case rebind == 1:
			rd = "1"
		case 1 < rebind:
			rd = "2+"
		}
		cell := fmt.Sprintf("lamfree=%s fwdargs=%s rebind=%s", yn(lamfree), yn(fa), rd)
		if reshaped != "" {
			cell += " reshape=" + reshaped
		}
		if quotedCode {
			cell = "quoted-code=y " + cell
		}
		if c.Qual {
			cell = "qualified=y " + cell
		}
		if c.GLast && !nested && mode != "premain" && !strings.HasPrefix(mode, "hist") {
			cell = "globals-last=y " + cell
		}
		x.Cover("evals: " + cell)
		kind, detail := judge(o, w)
		if kind == "" {
			okCount++
			x.Cover("agree: " + cell)
			return
		}
		fails = append(fails, failure{
			sig: fmt.Sprintf("%s mode=%s at=%s fail=%s", cell, mode, at, kind),
			msg: fmt.Sprintf("order %v mode %s %s: %s; program: %s", perm, mode, at, detail, src),
		})
	}

	ps := perms(n)
	if x.Tier != "thorough" && 10 < len(ps) {
		// quick tier: 10 of the 24 orders of 4 definitions (first = callers
		// first, last = callees first, and every third in between)
		var sub [][]int
		for k, p := range ps {
			if k == 0 || k == len(ps)-1 || k%3 == 1 {
				sub = append(sub, p)
			}
		}
		ps = sub
	}
	x.CoverN("orders", len(ps))
	for pi, perm := range ps {
		fa, fany, _ := fwdInfo(c, perm)
		x.Cover("order:fwdargs=" + yn(fa) + ",fwdany=" + yn(fany))
		runModes := modes
		if 0 < len(c.Macs) && (pi == 0 || pi == len(ps)-1) {
			// macros written after the functions that use them: a use compiled before
			// its macro exists has no defined meaning, so these runs are observed and
			// counted but not judged
			runModes = append(append([]string{}, modes...), "repl/macros-last", "compile/macros-last")
		}
		for _, mode := range runModes {
			macrosLast := strings.HasSuffix(mode, "/macros-last")
			mode = strings.TrimSuffix(mode, "/macros-last")
			observeOnly = macrosLast
			if mode == "load" && pi != 0 && pi != len(ps)-1 && pi != len(ps)/2 {
				continue
			}
			if mode == "cstring" && nested {
				// CompileString hands back the last form only: a defun that is not a
				// top-level form is never evaluated in this mode
				x.Cover("mode-not-applicable:cstring (defun inside let)")
				continue
			}
			x.Cover("mode:" + mode)
			w := newWorld(slipBudget)
			var forms []string
			glast := c.GLast && !nested
			if !glast {
				for k, v := range c.Globals {
					forms = append(forms, w.name(globalSrc(k, v)))
				}
			}
			if !macrosLast {
				for k, mac := range c.Macs {
					forms = append(forms, w.name(macroSrc(k, mac, 0)))
				}
			}
			for _, i := range perm {
				forms = append(forms, w.name(defunSrc(i, c.Fns[i].Vers[0])))
			}
			if macrosLast {
				for k, mac := range c.Macs {
					forms = append(forms, w.name(macroSrc(k, mac, 0)))
				}
			}
			if glast {
				// the variables the functions refer to are defined after them
				x.Cover("order:globals-after-functions")
				for k, v := range c.Globals {
					forms = append(forms, w.name(globalSrc(k, v)))
					x.Cover("global-defined-late-by:" + strings.Fields(globalSrc(k, v))[0][1:])
				}
			}
			mainSrc := w.name(c.Main)
			whole := strings.Join(forms, "\n") + "\n" + mainSrc
			at := func(k int) string {
				if k == 0 {
					return "first"
				}
				return "reeval"
			}
			switch mode {
			case "repl", "crepl", "evalfn", "premain":
				var code slip.Code
				if mode == "premain" {
					// the calling form is compiled before any callee exists; its macros
					// are defined first (a use compiled before its macro has no defined meaning)
					for k, mac := range c.Macs {
						msrc := w.name(macroSrc(k, mac, 0))
						_ = w.do(func() slip.Object { return slip.ReadString(msrc, w.scope).Eval(w.scope, nil) })
					}
					if o := w.do(func() slip.Object {
						code = slip.ReadString(mainSrc, w.scope)
						code.Compile()
						return nil
					}); o.err != nil || o.over {
						record(perm, mode, "compile-main", 0, o, want{val: "\x00"}, mainSrc)
						continue
					}
				}
				failed := false
				for _, f := range forms {
					src := f
					if mode == "evalfn" {
						src = "(eval '" + f + ")"
					}
					o := w.do(func() slip.Object {
						code := slip.ReadString(src, w.scope)
						if mode == "crepl" {
							code.Compile()
						}
						return code.Eval(w.scope, nil)
					})
					if o.err != nil || o.over {
						record(perm, mode, "define", 0, o, want{val: "\x00"}, src)
						failed = true
						break
					}
				}
				if failed {
					continue
				}
				src := mainSrc
				if mode == "evalfn" {
					src = "(eval '" + mainSrc + ")"
				}
				o := w.do(func() slip.Object {
					if mode != "premain" {
						code = slip.ReadString(src, w.scope)
					}
					if mode == "crepl" {
						code.Compile()
					}
					return code.Eval(w.scope, nil)
				})
				record(perm, mode, at(0), 0, o, wantA[0], whole)
				kmax := c.K
				if c.Long && pi == len(ps)-1 && mode != "evalfn" {
					kmax = len(wantA)
				}
				for k := 1; k < kmax && o.err == nil && !o.over; k++ {
					o = w.do(func() slip.Object { return code.Eval(w.scope, nil) })
					record(perm, mode, at(k), 0, o, wantA[k], whole)
				}
				if c.K < kmax {
					x.Cover("long-reevaluation:" + mode)
				}
			case "eval", "compile":
				var code slip.Code
				o := w.do(func() slip.Object {
					code = slip.ReadString(whole, w.scope)
					if mode == "compile" {
						code.Compile()
					}
					return code.Eval(w.scope, nil)
				})
				record(perm, mode, at(0), 0, o, wantA[0], whole)
				for k := 1; k < c.K && o.err == nil && !o.over; k++ {
					o = w.do(func() slip.Object { return code.Eval(w.scope, nil) })
					record(perm, mode, at(k), 0, o, wantA[k], whole)
				}
			case "cstring":
				var obj slip.Object
				o := w.do(func() slip.Object {
					obj = slip.CompileString(whole, w.scope)
					return obj.Eval(w.scope, 0)
				})
				record(perm, mode, at(0), 0, o, wantA[0], whole)
				for k := 1; k < c.K && o.err == nil && !o.over; k++ {
					o = w.do(func() slip.Object { return obj.Eval(w.scope, 0) })
					record(perm, mode, at(k), 0, o, wantA[k], whole)
				}
			case "load":
				dir := os.Getenv("VERIF_WORKDIR")
				if dir == "" {
					dir = os.TempDir()
				}
				path := filepath.Join(dir, "c08-"+w.sfx+".lisp")
				text := strings.Join(forms, "\n") + "\n(vout " + mainSrc + ")\n"
				if err := os.WriteFile(path, []byte(text), 0o644); err != nil {
					x.Fail("harness: cannot write load file", "%s", err)
					return
				}
				for k := 0; k < 2 && k < c.K; k++ {
					outSet = false
					o := w.do(func() slip.Object {
						code := slip.ReadString(fmt.Sprintf("(load %q)", path), w.scope)
						code.Eval(w.scope, nil)
						if !outSet {
							return slip.Symbol("no-result-recorded")
						}
						return outVal
					})
					record(perm, mode, at(k), 0, o, wantA[k], text)
					if o.err != nil || o.over {
						break
					}
				}
				_ = os.Remove(path)
			}
		}
	}
	observeOnly = false

	// ---------- family B: histories with redefinition ----------
	// callee-first order (the last permutation) and caller-first order (the
	// first), two ways of delivering the definitions each
	type hrun struct {
		perm  []int
		dmode string
	}
	dmodes := []string{"repl", "crepl", "compile"}
	hruns := []hrun{{ps[len(ps)-1], "repl"}, {ps[0], "crepl"}, {ps[len(ps)-1], "compile"},
		{ps[0], dmodes[(len(c.Main)+len(c.Hist))%3]}}
	for _, hr := range hruns {
		{
			perm, dmode := hr.perm, hr.dmode
			reshaped = ""
			_, _, fwd := fwdInfo(c, perm)
			x.Cover("hist:defs-" + dmode)
			hm := ref.New(refBudget)
			if err := refDefine(hm, c); err != nil {
				x.Fail("harness: reference cannot define", "%s", err)
				return
			}
			w := newWorld(slipBudget)
			var forms []string
			for k, v := range c.Globals {
				forms = append(forms, w.name(globalSrc(k, v)))
			}
			for k, mac := range c.Macs {
				forms = append(forms, w.name(macroSrc(k, mac, 0)))
			}
			for _, i := range perm {
				forms = append(forms, w.name(defunSrc(i, c.Fns[i].Vers[0])))
			}
			log := []string{strings.Join(forms, " ")}
			var o obs
			if dmode == "compile" {
				o = w.do(func() slip.Object {
					code := slip.ReadString(strings.Join(forms, "\n"), w.scope)
					code.Compile()
					return code.Eval(w.scope, nil)
				})
			} else {
				for _, f := range forms {
					o = w.do(func() slip.Object {
						code := slip.ReadString(f, w.scope)
						if dmode == "crepl" {
							code.Compile()
						}
						return code.Eval(w.scope, nil)
					})
					if o.err != nil || o.over {
						break
					}
				}
			}
			if o.err != nil || o.over {
				record(perm, "hist-"+dmode, "define", 0, o, want{val: "\x00"}, log[0])
				continue
			}
			var objs []slip.Code
			curVer := make([]int, n)
			redefs := 0
			redefCount := make([]int, n)
			maxRedef := 0 // max over functions of (referenced before defined) + (times redefined)
			for _, v := range fwd {
				maxRedef = max(maxRedef, v)
			}
			mainSrc := w.name(c.Main)
			dead := false
			for si, st := range c.Hist {
				if dead {
					break
				}
				switch st.Op {
				case "redef":
					src := w.name(defunSrc(st.Fn, c.Fns[st.Fn].Vers[st.Ver]))
					if _, err := hm.Top(parse(defunSrc(st.Fn, c.Fns[st.Fn].Vers[st.Ver]))[0]); err != nil {
						x.Fail("harness: reference cannot redefine", "%s", err)
						return
					}
					via := st.Via
					if via == "cstring" && 0 < len(c.Fns[st.Fn].Vers[st.Ver].Wrap) {
						via = "" // CompileString hands back the last top-level form only
					}
					log = append(log, fmt.Sprintf("[redef compiled=%v via=%s] %s", st.Compiled, via, src))
					redefs++
					redefCount[st.Fn]++
					maxRedef = max(maxRedef, fwd[st.Fn]+redefCount[st.Fn])
					x.Cover(fmt.Sprintf("hist:redef#%d", min(redefCount[st.Fn], 3)))
					x.Cover("hist:redef-delivered-via:" + via)
					if k := reshape(c.Fns[st.Fn].Vers[curVer[st.Fn]], c.Fns[st.Fn].Vers[st.Ver]); k != "" {
						x.Cover("hist:redef-changes-lambda-list:" + k)
						for _, name := range reshapes {
							if name == reshaped || name == k {
								reshaped = name
								break
							}
						}
					}
					curVer[st.Fn] = st.Ver
					o = w.do(func() slip.Object {
						switch via {
						case "evalfn":
							return slip.ReadString("(eval '"+src+")", w.scope).Eval(w.scope, nil)
						case "cstring":
							return slip.CompileString(src, w.scope).Eval(w.scope, 0)
						case "load":
							dir := os.Getenv("VERIF_WORKDIR")
							if dir == "" {
								dir = os.TempDir()
							}
							path := filepath.Join(dir, fmt.Sprintf("c08-%s-redef%d.lisp", w.sfx, si))
							if err := os.WriteFile(path, []byte(src+"\n"), 0o644); err != nil {
								panic("c08: cannot write load file: " + err.Error())
							}
							defer func() { _ = os.Remove(path) }()
							return slip.ReadString(fmt.Sprintf("(load %q)", path), w.scope).Eval(w.scope, nil)
						}
						code := slip.ReadString(src, w.scope)
						if st.Compiled {
							code.Compile()
						}
						return code.Eval(w.scope, nil)
					})
					if o.err != nil || o.over {
						record(perm, "hist-"+dmode, "redefine", maxRedef, o, want{val: "\x00"}, strings.Join(log, " ;; "))
						dead = true
					}
				case "remac":
					text := macroSrc(st.Fn, c.Macs[st.Fn], st.Ver)
					src := w.name(text)
					if _, err := hm.Top(parse(text)[0]); err != nil {
						x.Fail("harness: reference cannot redefine macro", "%s", err)
						return
					}
					log = append(log, fmt.Sprintf("[macro redefined compiled=%v] %s", st.Compiled, src))
					redefs++
					x.Cover("hist:macro-redefinition")
					o = w.do(func() slip.Object {
						code := slip.ReadString(src, w.scope)
						if st.Compiled {
							code.Compile()
						}
						return code.Eval(w.scope, nil)
					})
					if o.err != nil || o.over {
						record(perm, "hist-"+dmode, "redefine-macro", maxRedef, o, want{val: "\x00"}, strings.Join(log, " ;; "))
						dead = true
					}
				case "run":
					exp, err := refRun(hm, mainNode)
					if err != nil {
						if err.Error() == "budget" {
							x.Cover("skipped:reference-budget-in-history")
							dead = true
							continue
						}
						x.Fail("harness: reference cannot evaluate", "history step %d: %s", si, err)
						return
					}
					w.budget = 3*hm.Steps + 1000
					at := "fresh"
					if st.Obj < 0 {
						log = append(log, fmt.Sprintf("[run fresh object #%d compiled=%v]", len(objs), st.Compiled))
						o = w.do(func() slip.Object {
							code := slip.ReadString(mainSrc, w.scope)
							if st.Compiled {
								code.Compile()
							}
							objs = append(objs, code)
							return code.Eval(w.scope, nil)
						})
					} else {
						at = "reuse"
						log = append(log, fmt.Sprintf("[re-run object #%d]", st.Obj))
						o = w.do(func() slip.Object { return objs[st.Obj].Eval(w.scope, nil) })
					}
					x.Cover("hist:run-" + at)
					if 0 < redefs {
						at += "-after-redef"
					}
					record(perm, "hist-"+dmode, at, maxRedef, o, exp, strings.Join(log, " ;; ")+" ;; main: "+mainSrc)
					if o.err != nil || o.over {
						dead = true
					}
				}
			}
		}
	}

	x.CoverN("treatment-evaluations", total)
	x.CoverN("treatment-evaluations-agreeing", okCount)
	x.Observe(map[string]any{"main": c.Main, "expected": wantA[0].val, "expected_trace": wantA[0].trace,
		"treatment_evaluations": total, "agreeing": okCount})
	if len(fails) == 0 {
		return
	}
	all := ""
	if okCount == 0 {
		// every treatment disagrees with the reference in some way: the
		// disagreement may not be about order/compilation/re-evaluation at all
		all = " all-treatments-disagree"
	}
	seen := map[string]bool{}
	for _, f := range fails {
		if seen[f.sig] {
			continue
		}
		seen[f.sig] = true
		x.Fail(f.sig+all, "%s (%d of %d treatment evaluations agree with the reference)", f.msg, okCount, total)
	}
}

func init() {
	fw.Register(fw.Spec[Case]{
		ID: "C08",
		Rule: "case kinds: (A) programs - " +
			"10 fixed probe programs (macro argument evaluated and quoted; macro whose template binds v around comma-free nested calls, used at several sites " +
			"and redefined; defun inside a let using its variable under a name the caller also uses and redefined; forward call with arguments; caller " +
			"created between two redefinitions; lambda head with a bare outer variable; &key parameters that grow, are renamed, shrink and give way to &rest over " +
			"6 redefinitions; &optional parameters added and removed and &rest added, with call sites inside ignore-errors that only some versions accept; " +
			"redefinitions that change only init forms - literal, global changed by every call, variable of an enclosing let; a function that becomes a macro of " +
			"the same call shape and a function again, run from code objects made after each change of kind), then seeded programs of 2-4 defuns (DAG calls, self recursion, mutual " +
			"recursion on a decreasing counter; arguments, let/let*, if/cond/when/unless, and/or, setq, dotimes, funcall/apply, lambda forms, list building, trace " +
			"markers, 0-3 global variables; one definition in three is written inside let / let* / nested lets and uses their variables, half of which are named " +
			"like the parameters of callers; two programs in five also have 1-2 defmacros with backquote templates - comma, comma-at of a &rest body that " +
			"uses the template's variable, (quote ,arg), comma-free sub-lists with nested calls on a variable bound inside the expansion, a macro used inside " +
			"another's template - used from functions and the main form) plus a main form; macros are written before the functions (a use compiled before its " +
			"macro has no defined meaning; two orders per program are also run with the macros last, counted but not judged); each program is run under the orders of its defuns (all; quick tier: 10 of the 24 orders of 4 " +
			"defuns) x 8 delivery modes (form by form, form by form compiled, whole Code evaluated, Code.Compile, CompileString - not for programs with a defun " +
			"inside let -, (eval 'form), main form compiled before its callees exist, load of a file) x k=2..5 (one case in 12: up to 100) evaluations of the same " +
			"code object, and under 4 redefinition histories (fresh / re-used, compiled / list-form main objects, 1-3 redefinitions with renamed parameters and " +
			"changed enclosing lets, one step in three of them a macro redefinition; every second history redefines one function repeatedly; three redefinitions in eight are delivered through (eval 'form), CompileString or load of a file); " +
			"in half of the programs with arguments three functions in five have a lambda-list part behind the required parameters that CHANGES from version to version: " +
			"0-2 &optional parameters and/or &rest (added, removed, renamed), or &key parameters from a pool of 3-4 names (grow, shrink, rename, reorder, &rest added or " +
			"removed, &rest alone), three parameters in four with an init form (literal, required parameter, variable of the enclosing let, global, marker); every call " +
			"site (main form, callers' bodies, recursive calls, funcall/apply) fits every version - up to the smallest number of extra positional arguments, keyword pairs " +
			"from the whole pool (slip documents that other keywords are allowed) - so the same sites run before and after each redefinition, and (list (ignore-errors call)) " +
			"sites pass more positional arguments than some version takes (nil while rejected); the number of required parameters never changes; " +
			"every name is fresh per treatment. One case in six has only " +
			"parameterless functions (recursion on a global counter). (funcall f) without arguments is never generated (C04); 'x inside a backquote template is " +
			"never generated (slip drops the quote, a reader matter), (quote x) is. Programs with a macro that evaluates and quotes its argument " +
			"(one macro in six) are marked quoted-code=y (a repaired finding). &optional next to &key, &key without names, &aux and init forms that look at other " +
			"optional/key parameters are never generated (C04 matters). " +
			"(B) reeval, a model-free relation monitor over the forms that receive raw list arguments (enumerated at run time from FuncDoc kind / SkipEval; the ones " +
			"without a committed argument template are counted as reeval-not-templated:<name>): a deterministic block (every template on leaf data, every ordered pair " +
			"of templates) then seeded compositions of depth <= 3 with all arguments written as lists and all data bound inside the form; the same Code object " +
			"evaluated 5 times in list form, after Code.Compile, as CompileString object, and as the body of a defun (list form and compiled) called 5 times must give " +
			"the value and marker trace of a fresh read+eval of the same text. Seeded cases alternate A and B. " +
			"distinct = distinct case; non-trivial = A: the main form produces at least 2 trace markers, B: the fresh evaluation is not an error",
		N:     nCases,
		Gen:   genC,
		Exec:  exec,
		Init:  initWorker,
		Batch: 100,
		Assumptions: []string{
			"the reference evaluator (internal/c08/ref, no slip import) implements the CL meaning of the generated subset; lambda lists per CLHS 3.4.1 with slip's documented dialect: with &key other keywords are allowed and ignored",
			"treatments are isolated by fresh function and variable names per treatment",
			"integers stay small (no overflow: C05) and programs have no free variables (scoping: C01)",
		},
	})
}
