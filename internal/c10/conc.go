package c10

import (
	"bytes"
	"fmt"
	"math/rand/v2"
	"reflect"
	"runtime"
	"strconv"
	"strings"
	"sync"
	"sync/atomic"
	"time"
	"unsafe"

	"github.com/anishathalye/porcupine"
	"github.com/ohler55/slip"

	"verif/internal/c10/ref"
	"verif/internal/fw"
	"verif/internal/sl"
)

// ---------------------------------------------------------------------------
// the schedule hook (slip.VerifHook, build tag verif)
//
// Two uses: (1) seeded perturbation of goroutines that registered themselves
// (nothing / Gosched / 10-200us sleep, per-goroutine PRNG; readers of the
// registry take only a read lock, which gives no happens-before edge between
// them, so the perturbation hides nothing from the race detector); (2) a
// one-shot "park" action run by the first generic call that reaches a point
// after it is armed (directed interleavings).

type pstate struct {
	rng *rand.Rand
}

var (
	pmu     sync.RWMutex
	pstates = map[int64]*pstate{}
	parkArm atomic.Pointer[func(point string)]
	// nRegistered is written only while no registered goroutine runs slip
	// code (before the start barrier, after the join).
	nRegistered atomic.Int64
)

func gid() int64 {
	var buf [64]byte
	b := buf[:runtime.Stack(buf[:], false)]
	b = bytes.TrimPrefix(b, []byte("goroutine "))
	if i := bytes.IndexByte(b, ' '); 0 < i {
		b = b[:i]
	}
	n, _ := strconv.ParseInt(string(b), 10, 64)
	return n
}

func installHook() {
	slip.VerifHook = func(point string) {
		if f := parkArm.Swap(nil); f != nil {
			(*f)(point)
			return
		}
		if nRegistered.Load() == 0 {
			return
		}
		pmu.RLock()
		ps := pstates[gid()]
		pmu.RUnlock()
		if ps == nil {
			return
		}
		switch k := ps.rng.IntN(8); {
		case k < 3:
		case k < 5:
			runtime.Gosched()
		default:
			time.Sleep(time.Duration(10+ps.rng.IntN(190)) * time.Microsecond)
		}
	}
}

func registerG(seed uint64, id int) *pstate {
	ps := &pstate{rng: rand.New(rand.NewPCG(seed, uint64(id)+1))}
	pmu.Lock()
	pstates[gid()] = ps
	pmu.Unlock()
	return ps
}

func unregisterG() {
	pmu.Lock()
	delete(pstates, gid())
	pmu.Unlock()
}

// ---------------------------------------------------------------------------
// directed interleavings ("park"): the caller is stopped between the lookup of
// the effective method and its execution; another goroutine changes the method
// table; the caller resumes. The observed outcome must be the reference
// outcome for the table before the changes or after some prefix of them.

var parkCases []Case

func init() {
	type pre struct {
		ar    int
		defs  []string
		call  string
		specs []string
	}
	pres := []pre{
		{1, []string{"Dp0"}, "C3", []string{"0", "1"}},
		{1, []string{"Dp0", "Db0", "Da1"}, "C3", []string{"0", "1"}},
		{1, []string{"Dpt"}, "C1", []string{"0", "1"}},
		{1, []string{"Dp0", "Dp1"}, "C1", []string{"0", "1"}},
		{1, []string{"Dp0", "Dw1"}, "C2", []string{"0", "1"}},
		{2, []string{"Dp00", "Db10"}, "C31", []string{"00", "10"}},
		// the single-method fast path: the caller is stopped after it has
		// picked the default caller
		{1, []string{"Dpt"}, "C1", []string{"t", "1"}},
		{2, []string{"Dptt"}, "C13", []string{"tt", "1t"}},
	}
	for _, p := range pres {
		var alpha []string
		specs := p.specs
		for _, k := range []string{"D", "R"} {
			for _, q := range []string{"p", "b", "a"} {
				for _, s := range specs {
					alpha = append(alpha, k+q+s)
				}
			}
		}
		var seqs [][]string
		for _, a := range alpha {
			seqs = append(seqs, []string{a})
		}
		for _, a := range alpha {
			for _, b := range alpha {
				if a != b {
					seqs = append(seqs, []string{a, b})
				}
			}
		}
		for _, warm := range []bool{false, true} {
			for _, sq := range seqs {
				caller := []string{p.call}
				if warm {
					caller = []string{p.call, p.call}
				}
				parkCases = append(parkCases, Case{Kind: "park", Fam: "clos", Ar: p.ar, Note: "park", Pre: p.defs,
					Thr: [][]string{caller, sq}, Sweep: true})
			}
		}
	}
}

func execPark(x *fw.Ctx, c Case) {
	g, err := newGF(c.Fam, c.Ar)
	if err != nil {
		x.Fail("defgeneric-error", "defgeneric failed: %s", err)
		return
	}
	st := ref.New()
	for _, s := range c.Pre {
		o := parseOp(s)
		g.ver++
		m := &ref.Method{Qual: o.qual, Spec: o.spec, Ver: g.ver, Body: o.body}
		if _, err := sl.Eval(g.scope, defSrc(g.name, g.fam, m)); err != nil {
			x.Fail("defmethod-error qual="+o.qual, "%s", err)
			return
		}
		st.Define(m)
	}
	caller, definer := c.Thr[0], c.Thr[1]
	// warm-up calls fill the cache
	for _, s := range caller[:len(caller)-1] {
		o := parseOp(s)
		got := g.call(g.scope, o.spec, 0)
		if fail, msg := judge(st, st.Dispatch(o.spec), got); fail != "" {
			x.Fail("call "+fail, "warm-up call %s with methods %s: %s", s, st, msg)
			return
		}
	}
	// the states the parked call may legitimately observe
	states := []*ref.State{st.Clone()}
	type step struct {
		src string
		rem bool
	}
	var steps []step
	cur := st.Clone()
	changeKinds := map[byte]bool{}
	for _, s := range definer {
		o := parseOp(s)
		if o.kind == 'D' {
			g.ver++
			m := &ref.Method{Qual: o.qual, Spec: o.spec, Ver: g.ver, Body: o.body}
			steps = append(steps, step{src: defSrc(g.name, g.fam, m)})
			cur.Define(m)
		} else {
			steps = append(steps, step{src: remSrc(g.name, g.fam, o.qual, o.spec), rem: true})
			cur.Remove(o.qual, o.spec)
		}
		changeKinds[o.kind] = true
		states = append(states, cur.Clone())
	}
	var defErr *sl.Err
	var point string
	dscope := world.NewScope()
	action := func(p string) {
		point = p
		done := make(chan struct{})
		go func() {
			defer close(done)
			for _, s := range steps {
				if _, e := sl.Eval(dscope, s.src); e != nil && defErr == nil {
					defErr = e
				}
			}
		}()
		<-done
	}
	last := parseOp(caller[len(caller)-1])
	parkArm.Store(&action)
	got := g.call(g.scope, last.spec, 0)
	parkArm.Store(nil)
	if point == "" {
		x.Fail("park hook-not-reached", "the generic call passed no yield point")
		return
	}
	x.Cover("park:" + point)
	x.Cover("calls")
	if defErr != nil {
		x.Fail("park definer-error", "definition during the parked call failed: %s", defErr)
		return
	}
	matched := -1
	for i, s := range states {
		if fail, _ := judge(s, s.Dispatch(last.spec), got); fail == "" {
			matched = i
			break
		}
	}
	x.Observe(map[string]any{"generic": g.name, "parked-at": point, "observed": got, "matches-prefix": matched})
	if matched < 0 {
		kind := "def"
		if changeKinds['R'] {
			kind = "rem"
			if changeKinds['D'] {
				kind = "mixed"
			}
		}
		var alts []string
		for i, s := range states {
			w := s.Dispatch(last.spec)
			alts = append(alts, fmt.Sprintf("after %d change(s): %v %s%s", i, w.Trace, w.Value, w.Err))
		}
		x.Fail("park torn-call change="+kind,
			"methods [%s]; call %s stopped at %s while another goroutine did [%s]; the call then ran %v => %s %v, which matches the table at no point of that sequence (%s)",
			strings.Join(c.Pre, " "), caller[len(caller)-1], point, strings.Join(definer, " "), got.Trace, got.Value, got.Err, strings.Join(alts, "; "))
	} else {
		x.Cover(fmt.Sprintf("park:matches-prefix=%d/%d", matched, len(states)-1))
	}
	// the very next calls must see the final table
	for _, t := range classTuples(c.Ar) {
		g2 := g.call(g.scope, t, 0)
		x.Cover("calls")
		if fail, msg := judge(cur, cur.Dispatch(t), g2); fail != "" {
			x.Fail("call "+fail, "call %s after a change made during another call (methods now %s): %s", callOp(t), cur, msg)
		}
	}
}

// ---------------------------------------------------------------------------
// concurrent histories

func genConc(r *rand.Rand, i int, tier string) Case {
	ar := 1 + r.IntN(2)
	c := Case{Kind: "conc", Fam: "clos", Ar: ar, Note: "conc", PSeed: r.Uint64()}
	if r.IntN(5) == 0 {
		return genConcFast(r, c)
	}
	// :around methods in one case out of three
	quals := []string{ref.Primary, ref.Before, ref.After}
	if r.IntN(3) == 0 {
		quals = allQuals
		c.Note = "conc-around"
	}
	st := ref.New()
	nPre := 1 + r.IntN(4)
	for k := 0; k < nPre; k++ {
		q := quals[r.IntN(len(quals))]
		if k == 0 {
			q = ref.Primary
		}
		spec := randSpec(r, ar)
		if k == 0 {
			for j := range spec {
				if spec[j] != ref.T {
					spec[j] = r.IntN(2)
				}
			}
		}
		st.Define(&ref.Method{Qual: q, Spec: spec})
		c.Pre = append(c.Pre, defOp(q, spec, ref.BodyFlat))
	}
	nThr := 2 + r.IntN(7) // 2..8 goroutines
	nDef := 1
	if 4 <= nThr && r.IntN(4) == 0 {
		nDef = 2
	}
	total := 8 + r.IntN(23) // 8..30 ops
	c.Thr = make([][]string, nThr)
	for n := 0; n < total; n++ {
		t := r.IntN(nThr)
		if t < nDef {
			// definer
			if r.IntN(3) == 0 && 0 < len(st.M) {
				var ms []*ref.Method
				for _, m := range st.M {
					ms = append(ms, m)
				}
				sortMethods(ms)
				m := ms[r.IntN(len(ms))]
				c.Thr[t] = append(c.Thr[t], remOp(m.Qual, m.Spec))
				st.Remove(m.Qual, m.Spec)
				continue
			}
			q := quals[r.IntN(len(quals))]
			spec := randSpec(r, ar)
			st.Define(&ref.Method{Qual: q, Spec: spec})
			c.Thr[t] = append(c.Thr[t], defOp(q, spec, ref.BodyFlat))
			continue
		}
		c.Thr[t] = append(c.Thr[t], callOp(randArgs(r, ar)))
	}
	return c
}

// genConcFast: histories around the single-method fast path: the table
// holds 0..2 methods most of the time, mostly primaries on t, and one definer
// moves it 0 -> 1 -> 2 -> 1 -> 0 while the other goroutines call.
func genConcFast(r *rand.Rand, c Case) Case {
	c.Note = "conc-fastpath"
	ar := c.Ar
	tspec := make([]int, ar)
	for i := range tspec {
		tspec[i] = ref.T
	}
	spec := func() []int {
		if r.IntN(2) == 0 {
			return tspec
		}
		s := make([]int, ar)
		for i := range s {
			s[i] = []int{ref.T, 0, 1}[r.IntN(3)]
		}
		return s
	}
	qual := func() string {
		if r.IntN(4) == 0 {
			return allQuals[r.IntN(4)]
		}
		return ref.Primary
	}
	st := ref.New()
	if r.IntN(2) == 0 {
		st.Define(&ref.Method{Qual: ref.Primary, Spec: tspec})
		c.Pre = []string{defOp(ref.Primary, tspec, 0)}
	}
	nThr := 3 + r.IntN(5)
	total := 10 + r.IntN(21)
	c.Thr = make([][]string, nThr)
	for n := 0; n < total; n++ {
		t := r.IntN(nThr)
		if t != 0 && r.IntN(3) != 0 {
			c.Thr[t] = append(c.Thr[t], callOp(randArgs(r, ar)))
			continue
		}
		// the definer (also gets the ops the callers declined, so that the table changes often)
		if 0 < len(st.M) && (2 <= len(st.M) || r.IntN(2) == 0) {
			var ms []*ref.Method
			for _, m := range st.M {
				ms = append(ms, m)
			}
			sortMethods(ms)
			m := ms[r.IntN(len(ms))]
			c.Thr[0] = append(c.Thr[0], remOp(m.Qual, m.Spec))
			st.Remove(m.Qual, m.Spec)
			continue
		}
		q, sp := qual(), spec()
		st.Define(&ref.Method{Qual: q, Spec: sp})
		c.Thr[0] = append(c.Thr[0], defOp(q, sp, ref.BodyFlat))
	}
	return c
}

type cinput struct {
	kind byte
	m    *ref.Method // D
	qual string      // R
	spec []int       // R: specializers, C: classes
	src  string
	lbl  string     // the op as written in the case (find-method and remove-method of one R op are two operations)
	st0  *ref.State // I: the initial table
	// exempt (relaxed check only): the call overlaps a change of the table
	exempt bool
}

type coutput struct {
	obs   observed // C
	found bool     // F
	err   *sl.Err
}

type stateBox struct {
	st  *ref.State
	str string
}

func box(st *ref.State) *stateBox { return &stateBox{st: st, str: st.String()} }

var concModel = porcupine.Model{
	Init: func() interface{} { return box(ref.New()) },
	Step: func(state interface{}, input interface{}, output interface{}) (bool, interface{}) {
		sb := state.(*stateBox)
		in := input.(*cinput)
		out := output.(*coutput)
		switch in.kind {
		case 'I': // initial table
			return true, box(in.st0)
		case 'D':
			if out.err != nil {
				return false, sb
			}
			n := sb.st.Clone()
			n.Define(in.m)
			return true, box(n)
		case 'F': // find-method: reads the table
			if out.err != nil {
				return false, sb
			}
			return sb.st.Has(in.qual, in.spec) == out.found, sb
		case 'R': // remove-method of a method object found earlier: deletes the slot if it is still there
			if out.err != nil {
				return false, sb
			}
			if !sb.st.Has(in.qual, in.spec) {
				return true, sb
			}
			n := sb.st.Clone()
			n.Remove(in.qual, in.spec)
			return true, box(n)
		}
		if in.exempt {
			return true, sb
		}
		fail, _ := judge(sb.st, sb.st.Dispatch(in.spec), out.obs)
		return fail == "", sb
	},
	Equal: func(a, b interface{}) bool { return a.(*stateBox).str == b.(*stateBox).str },
	Hash:  func(a interface{}) uint64 { return fw.Hash64([]byte(a.(*stateBox).str)) },
}

func execConc(x *fw.Ctx, c Case) {
	g, err := newGF(c.Fam, c.Ar)
	if err != nil {
		x.Fail("defgeneric-error", "defgeneric failed: %s", err)
		return
	}
	st := ref.New()
	hasAround := false
	for _, s := range c.Pre {
		o := parseOp(s)
		g.ver++
		m := &ref.Method{Qual: o.qual, Spec: o.spec, Ver: g.ver, Body: o.body}
		if _, err := sl.Eval(g.scope, defSrc(g.name, g.fam, m)); err != nil {
			x.Fail("defmethod-error qual="+o.qual, "%s", err)
			return
		}
		st.Define(m)
		hasAround = hasAround || o.qual == ref.Around
	}
	// Everything a goroutine evaluates is read (and argument objects are
	// made) here, sequentially: the goroutines only evaluate.
	type prepared struct {
		in    *cinput
		code  slip.Code
		first slip.Object
		buf   *[]string
		// R ops: find-method first (in/code), then remove-method (in2/code2) if it found the method
		in2   *cinput
		code2 slip.Code
	}
	plan := make([][]prepared, len(c.Thr))
	scopes := make([]*slip.Scope, len(c.Thr))
	var uniq int64
	nOps := 0
	for t, ops := range c.Thr {
		scopes[t] = world.NewScope()
		for k, s := range ops {
			o := parseOp(s)
			p := prepared{in: &cinput{kind: o.kind, qual: o.qual, spec: o.spec, lbl: s}}
			switch o.kind {
			case 'D':
				g.ver++
				p.in.m = &ref.Method{Qual: o.qual, Spec: o.spec, Ver: g.ver, Body: o.body}
				p.in.src = defSrc(g.name, g.fam, p.in.m)
				hasAround = hasAround || o.qual == ref.Around
			case 'R':
				// two slip operations, recorded separately: a remove by another
				// goroutine may legitimately fall between them
				scopes[t].Let(slip.Symbol("c10m"), nil)
				p.in.kind = 'F'
				p.in.lbl = s + "/find-method"
				p.in.src = findSrc(g.name, g.fam, o.qual, o.spec)
				p.in2 = &cinput{kind: 'R', qual: o.qual, spec: o.spec, lbl: s + "/remove-method", src: "(remove-method '" + g.name + " c10m)"}
				if e := sl.Catch(func() { p.code2 = slip.ReadString(p.in2.src, scopes[t]) }); e != nil {
					x.Fail("harness-read", "%s: %s", p.in2.src, e)
					return
				}
			case 'C':
				var b strings.Builder
				b.WriteString("(" + g.name)
				for i, cl := range o.spec {
					uniq++
					obj := argObj(g.fam, cl, uniq)
					if i == 0 {
						p.first = obj
						p.buf = expectTrace(obj)
					}
					v := fmt.Sprintf("%s%d", params[i], k)
					scopes[t].Let(slip.Symbol(v), obj)
					b.WriteString(" " + v)
				}
				b.WriteString(")")
				p.in.src = b.String()
			}
			if e := sl.Catch(func() { p.code = slip.ReadString(p.in.src, scopes[t]) }); e != nil {
				x.Fail("harness-read", "%s: %s", p.in.src, e)
				return
			}
			plan[t] = append(plan[t], p)
			nOps++
		}
	}
	var clock atomic.Int64
	results := make([][]porcupine.Operation, len(c.Thr))
	start := make(chan struct{})
	var wg, ready sync.WaitGroup
	for t := range plan {
		wg.Add(1)
		ready.Add(1)
		go func(t int) {
			defer wg.Done()
			ps := registerG(c.PSeed, t)
			defer unregisterG()
			ready.Done()
			<-start
			for _, p := range plan[t] {
				switch ps.rng.IntN(4) {
				case 0:
					runtime.Gosched()
				case 1:
					time.Sleep(time.Duration(ps.rng.IntN(100)) * time.Microsecond)
				}
				do := func(in *cinput, code slip.Code) (*coutput, slip.Object) {
					out := &coutput{}
					var call, ret int64
					if !c.NoLin {
						call = clock.Add(1)
					}
					var res slip.Object
					out.err = sl.Catch(func() { res = code.Eval(scopes[t], nil) })
					if !c.NoLin {
						ret = clock.Add(1)
					}
					results[t] = append(results[t], porcupine.Operation{ClientId: t, Input: in, Call: call, Output: out, Return: ret})
					return out, res
				}
				out, res := do(p.in, p.code)
				switch p.in.kind {
				case 'C':
					out.obs = observed{Trace: *p.buf, Err: out.err}
					if out.err == nil {
						out.obs.Value = sl.Show(res)
					}
				case 'F':
					out.found = out.err == nil && res != nil
					if out.found {
						do(p.in2, p.code2)
					}
				}
			}
		}(t)
	}
	ready.Wait()
	nRegistered.Store(int64(len(plan)))
	close(start)
	wg.Wait()
	nRegistered.Store(0)
	for k := range traces {
		delete(traces, k)
	}

	// after the join: every class tuple once more, sequentially; these calls
	// are part of the history (they overlap nothing)
	var sweep []porcupine.Operation
	var sweepOps []string
	for _, t := range classTuples(c.Ar) {
		uniq++
		call := clock.Add(1)
		got := g.call(g.scope, t, uniq)
		ret := clock.Add(1)
		sweep = append(sweep, porcupine.Operation{ClientId: len(c.Thr), Input: &cinput{kind: 'C', spec: t, src: callOp(t), lbl: callOp(t)},
			Call: call, Output: &coutput{obs: got, err: got.Err}, Return: ret})
		sweepOps = append(sweepOps, callOp(t))
	}
	results = append(results, sweep)
	c.Thr = append(c.Thr, sweepOps)

	hist := []porcupine.Operation{{ClientId: len(c.Thr), Input: &cinput{kind: 'I', st0: st.Clone()}, Call: -2, Output: &coutput{}, Return: -1}}
	var lines []string
	for t := range results {
		for _, op := range results[t] {
			hist = append(hist, op)
			in, out := op.Input.(*cinput), op.Output.(*coutput)
			ln := fmt.Sprintf("g%d [%d,%d] %s", t, op.Call, op.Return, in.lbl)
			switch in.kind {
			case 'C':
				ln += fmt.Sprintf(" => %v %s", out.obs.Trace, out.obs.Value)
				if out.err != nil {
					ln += " " + out.err.Class
				}
				x.Cover("calls")
				x.Cover("conc:calls")
				x.CoverN("markers", len(out.obs.Trace))
			case 'F':
				ln += fmt.Sprintf(" => found=%v", out.found)
				x.Cover("conc:find-method")
			case 'R':
				x.Cover("conc:remove-method")
			default:
				x.Cover("conc:defmethod")
			}
			if out.err != nil && in.kind != 'C' {
				ln += " ERROR " + out.err.String()
			}
			lines = append(lines, ln)
		}
	}
	x.Cover(fmt.Sprintf("conc:goroutines=%d", len(c.Thr)-1))
	x.CoverN("conc:ops", nOps)
	x.Observe(map[string]any{"generic": g.name, "initial": st.String(), "history": lines})
	// internal faults are violations whatever the linearization
	for _, op := range hist[1:] {
		out := op.Output.(*coutput)
		if out.err != nil && out.err.Internal {
			ar := "no"
			if hasAround {
				ar = "yes"
			}
			x.Fail("conc internal-fault arounds="+ar, "%s => %s; initial methods [%s]; history (logical clock):\n  %s",
				op.Input.(*cinput).src, out.err, st, strings.Join(lines, "\n  "))
			return
		}
		if out.err != nil && op.Input.(*cinput).kind != 'C' {
			x.Fail("conc definer-error", "%s => %s", op.Input.(*cinput).src, out.err)
			return
		}
	}
	if c.NoLin {
		x.Cover("conc:race-detector-only")
		return
	}
	res := porcupine.CheckOperationsTimeout(concModel, hist, 20*time.Second)
	switch res {
	case porcupine.Ok:
		x.Cover("porcupine-ok")
	case porcupine.Unknown:
		x.Cover("porcupine-unknown")
	default:
		// Which calls cannot be explained? Relaxed check: calls that overlap a
		// change of the table are exempt. If the history is still not
		// linearizable, a call that overlapped no change saw a table that
		// never existed at that time (stale); otherwise only calls in flight
		// during a change are wrong (torn).
		nExempt := 0
		for i := range hist {
			in := hist[i].Input.(*cinput)
			if in.kind != 'C' {
				continue
			}
			for j := range hist {
				if k := hist[j].Input.(*cinput).kind; (k == 'D' || k == 'R') && hist[i].Call <= hist[j].Return && hist[j].Call <= hist[i].Return {
					in.exempt = true
					nExempt++
					break
				}
			}
		}
		relaxed := porcupine.CheckOperationsTimeout(concModel, hist, 20*time.Second)
		ar := "no"
		if hasAround {
			ar = "yes"
		}
		switch relaxed {
		case porcupine.Unknown:
			x.Cover("porcupine-unknown")
		case porcupine.Ok:
			x.Fail("conc torn-call arounds="+ar,
				"a call in flight while the method table changed ran a combination of methods that matches the table at no point (no linearization explains every call; "+
					"it does when the %d calls overlapping a change are exempted); initial methods [%s]; history (logical clock):\n  %s",
				nExempt, st, strings.Join(lines, "\n  "))
		default:
			x.Fail("conc stale-call arounds="+ar,
				"a call that overlaps no defmethod/remove-method disagrees with every table reachable at that time; initial methods [%s]; history (logical clock):\n  %s",
				st, strings.Join(lines, "\n  "))
		}
	}
}

// ---------------------------------------------------------------------------
// class (re)definition while calls are in flight ("cdag")
//
// One goroutine evaluates defclass forms (redefinitions with another
// superclass list, new classes) while the others call the generic function
// with instances made before the start. The method table does not change. A
// call must return what the reference dispatcher gives for the precedence
// list its argument had before, between or after the definitions: never a
// mixture, never an internal fault. The precedence lists an instance goes
// through are obtained by evaluating the same defclass sequence beforehand,
// sequentially, on a twin set of classes. No logical clock is used, so the
// harness does not order the goroutines.

func genCDag(r *rand.Rand) Case {
	ar := 1 + r.IntN(2)
	c := Case{Kind: "cdag", Fam: "dag", Ar: ar, Note: "cdag-redefine", PSeed: r.Uint64()}
	onlyNew := r.IntN(3) == 0
	if onlyNew {
		c.Note = "cdag-new-classes"
	}
	nCls := 3 + r.IntN(3)
	supers := map[int][]int{}
	for k := 0; k < nCls; k++ {
		supers[k] = randSupers(r, k)
		if 0 < k && len(supers[k]) == 0 && r.IntN(4) != 0 {
			supers[k] = []int{r.IntN(k)}
		}
		c.Pre = append(c.Pre, classOp(k, supers[k]))
	}
	for k := 3 + r.IntN(4); 0 < k; k-- {
		q := allQuals[r.IntN(4)]
		if k%2 == 1 {
			q = ref.Primary
		}
		sp := make([]int, ar)
		for i := range sp {
			if r.IntN(6) == 0 {
				sp[i] = ref.T
			} else {
				sp[i] = r.IntN(nCls)
			}
		}
		c.Pre = append(c.Pre, defOp(q, sp, ref.BodyFlat))
	}
	nThr := 3 + r.IntN(5)
	c.Thr = make([][]string, nThr)
	top := nCls
	for k := 2 + r.IntN(5); 0 < k; k-- {
		if onlyNew || r.IntN(4) == 0 {
			if top < 9 {
				c.Thr[0] = append(c.Thr[0], classOp(top, randSupers(r, top)))
				top++
			}
			continue
		}
		cl := r.IntN(nCls)
		sup := randSupers(r, cl)
		if old := supers[cl]; len(old) == 2 && r.IntN(3) == 0 {
			sup = []int{old[1], old[0]}
		}
		supers[cl] = sup
		c.Thr[0] = append(c.Thr[0], classOp(cl, sup))
	}
	// The callers use instances of classes the definer does not redefine
	// itself (their superclasses may be redefined): an instance of a class
	// that is replaced keeps the original class and shares the cache key with
	// instances of the new one, which is a listed finding of its own.
	redef := map[int]bool{}
	for _, s := range c.Thr[0] {
		redef[parseOp(s).spec[0]] = true
	}
	var free []int
	for k := 0; k < nCls; k++ {
		if !redef[k] {
			free = append(free, k)
		}
	}
	if len(free) == 0 {
		free = []int{nCls - 1}
		var keep []string
		for _, s := range c.Thr[0] {
			if parseOp(s).spec[0] != nCls-1 {
				keep = append(keep, s)
			}
		}
		c.Thr[0] = keep
	}
	for n := 6 + r.IntN(18); 0 < n; n-- {
		t := 1 + r.IntN(nThr-1)
		a := make([]int, ar)
		for i := range a {
			a[i] = free[r.IntN(len(free))]
		}
		c.Thr[t] = append(c.Thr[t], callOp(a))
	}
	return c
}

func execCDag(x *fw.Ctx, c Case) {
	g, err := newGF("dag", c.Ar)
	if err != nil {
		x.Fail("defgeneric-error", "defgeneric failed: %s", err)
		return
	}
	twin := &gfun{name: g.name + "t", fam: "dag/" + g.name + "t", ar: c.Ar, scope: g.scope, orig: map[int]slip.Object{}}
	st := ref.New()
	for _, s := range c.Pre {
		o := parseOp(s)
		if o.kind == 'K' {
			for _, w := range []*gfun{g, twin} {
				if e := w.defclass(o.spec[0], o.supers); e != nil {
					x.Fail("defclass-error", "%s: %s", s, e)
					return
				}
			}
			continue
		}
		g.ver++
		m := &ref.Method{Qual: o.qual, Spec: o.spec, Ver: g.ver, Body: o.body}
		if _, e := sl.Eval(g.scope, defSrc(g.name, g.fam, m)); e != nil {
			x.Fail("defmethod-error qual="+o.qual, "%s", e)
			return
		}
		st.Define(m)
	}
	start := append([]int{}, g.defined...)
	// the precedence lists the instances made now go through (twin classes)
	lists := map[int][][]int{}
	record := func() bool {
		for _, k := range start {
			cpl, e := twin.cplOf(twin.orig[k])
			if e != nil {
				x.Fail("dag instance-error", "%s", e)
				return false
			}
			dup := false
			for _, l := range lists[k] {
				dup = dup || fmt.Sprint(l) == fmt.Sprint(cpl)
			}
			if !dup {
				lists[k] = append(lists[k], cpl)
			}
		}
		return true
	}
	if !record() {
		return
	}
	for _, s := range c.Thr[0] {
		o := parseOp(s)
		if e := twin.defclass(o.spec[0], o.supers); e != nil {
			x.Fail("defclass-error", "%s (twin): %s", s, e)
			return
		}
		if !record() {
			return
		}
	}
	type prepared struct {
		op    string
		code  slip.Code
		cls   []int
		first slip.Object
		buf   *[]string
		got   observed
	}
	plan := make([][]*prepared, len(c.Thr))
	scopes := make([]*slip.Scope, len(c.Thr))
	for t, ops := range c.Thr {
		scopes[t] = world.NewScope()
		for k, s := range ops {
			o := parseOp(s)
			p := &prepared{op: s}
			var src string
			if o.kind == 'K' {
				names := make([]string, len(o.supers))
				for i, sp := range o.supers {
					names[i] = specName(g.fam, sp)
				}
				src = fmt.Sprintf("(defclass %s (%s) ())", specName(g.fam, o.spec[0]), strings.Join(names, " "))
			} else {
				var b strings.Builder
				b.WriteString("(" + g.name)
				p.cls = o.spec
				for i, cl := range o.spec {
					obj, e := g.dagObj(cl, false)
					if e != nil {
						x.Fail("dag instance-error", "%s", e)
						return
					}
					if i == 0 {
						p.first = obj
						p.buf = expectTrace(obj)
					}
					v := fmt.Sprintf("%s%d", params[i], k)
					scopes[t].Let(slip.Symbol(v), obj)
					b.WriteString(" " + v)
				}
				b.WriteString(")")
				src = b.String()
			}
			if e := sl.Catch(func() { p.code = slip.ReadString(src, scopes[t]) }); e != nil {
				x.Fail("harness-read", "%s: %s", src, e)
				return
			}
			plan[t] = append(plan[t], p)
		}
	}
	begin := make(chan struct{})
	// marks[t] is stored by goroutine t after each of its operations and read
	// by the harness only before it releases a leaked lock: that orders what
	// the goroutine did inside the abandoned critical section before the
	// release (no edge between the goroutines themselves)
	marks := make([]atomic.Int64, len(plan))
	var wg, ready sync.WaitGroup
	for t := range plan {
		wg.Add(1)
		ready.Add(1)
		go func(t int) {
			defer wg.Done()
			ps := registerG(c.PSeed, t)
			defer unregisterG()
			ready.Done()
			<-begin
			for _, p := range plan[t] {
				switch ps.rng.IntN(4) {
				case 0:
					runtime.Gosched()
				case 1:
					time.Sleep(time.Duration(ps.rng.IntN(100)) * time.Microsecond)
				}
				var res slip.Object
				p.got.Err = sl.Catch(func() { res = p.code.Eval(scopes[t], nil) })
				if p.buf != nil {
					p.got.Trace = *p.buf
					if p.got.Err == nil {
						p.got.Value = sl.Show(res)
					}
				}
				marks[t].Add(1)
			}
		}(t)
	}
	ready.Wait()
	nRegistered.Store(int64(len(plan)))
	close(begin)
	// The goroutines make a few dozen trivial calls. If they have not all
	// returned after 15 s and nobody can take the generic function's lock,
	// a call left it locked (it panicked between Lock and Unlock): every
	// other caller waits for it for good. The harness then releases the lock
	// itself so that the goroutines can be joined.
	done := make(chan struct{})
	go func() { wg.Wait(); close(done) }()
	select {
	case <-done:
	case <-time.After(15 * time.Second):
		stuck := true
		for k := 0; k < 20 && stuck; k++ {
			stuck = lockLeaked(g.name)
			time.Sleep(100 * time.Millisecond)
		}
		if stuck {
			x.Fail("dispatch-lock-leak cdag", "class definitions [%s] while %d goroutines call %s: the calls never return; "+
				"every caller waits for the generic function's lock, which an earlier call did not release", strings.Join(c.Thr[0], " "), len(plan)-1, g.name)
			for k := 0; k < 100; k++ {
				select {
				case <-done:
					k = 100
				case <-time.After(100 * time.Millisecond):
					if lockLeaked(g.name) {
						for t := range marks {
							marks[t].Load()
						}
						forceUnlock(g.name)
					}
				}
			}
		}
		<-done
	}
	nRegistered.Store(0)
	for k := range traces {
		delete(traces, k)
	}
	var lines []string
	for t := range plan {
		for _, p := range plan[t] {
			ln := fmt.Sprintf("g%d %s", t, p.op)
			if p.buf != nil {
				ln += fmt.Sprintf(" => %v %s", p.got.Trace, p.got.Value)
			}
			if p.got.Err != nil {
				ln += " " + p.got.Err.String()
			}
			lines = append(lines, ln)
		}
	}
	x.Observe(map[string]any{"generic": g.name, "methods": st.String(), "history": lines})
	x.Cover(fmt.Sprintf("cdag:goroutines=%d", len(plan)))
	for t := range plan {
		for _, p := range plan[t] {
			if p.got.Err != nil && p.got.Err.Internal {
				x.Fail("call-on-unfinished-class diff=internal-fault cdag", "%s => %s (class definitions in flight: [%s]); methods [%s]; history:\n  %s",
					p.op, p.got.Err, strings.Join(c.Thr[0], " "), st, strings.Join(lines, "\n  "))
				if lockLeaked(g.name) {
					forceUnlock(g.name)
				}
				return
			}
			if p.buf == nil {
				x.Cover("cdag:defclass")
				if p.got.Err != nil {
					x.Fail("cdag defclass-error", "%s => %s", p.op, p.got.Err)
					return
				}
				continue
			}
			x.Cover("calls")
			x.Cover("cdag:calls")
			x.CoverN("markers", len(p.got.Trace))
			// some combination of the lists each argument went through must explain the call
			ok := false
			var tried []string
			var walk func(i int, cpls [][]int)
			walk = func(i int, cpls [][]int) {
				if ok {
					return
				}
				if i == len(p.cls) {
					want := st.DispatchCPL(cpls)
					if fail, _ := judge(st, want, p.got); fail == "" {
						ok = true
					} else if len(tried) < 6 {
						tried = append(tried, fmt.Sprintf("%v: %v %s%s", cpls, want.Trace, want.Value, want.Err))
					}
					return
				}
				for _, l := range lists[p.cls[i]] {
					walk(i+1, append(append([][]int{}, cpls...), l))
				}
			}
			walk(0, nil)
			if !ok {
				x.Fail("cdag mixed-call", "call %s ran %v => %s %v: no precedence list its arguments had before, between or after the class definitions [%s] explains it (%s); methods [%s]",
					p.op, p.got.Trace, p.got.Value, p.got.Err, strings.Join(c.Thr[0], " "), strings.Join(tried, "; "), st)
			}
		}
	}
	// after the join: new instances of every class, judged against the
	// precedence lists slip reports now
	for _, k := range g.defined {
		cls := make([]int, c.Ar)
		for i := range cls {
			cls[i] = k
		}
		for rot := 0; rot < c.Ar; rot++ {
			objs := make([]slip.Object, c.Ar)
			cpls := make([][]int, c.Ar)
			for i := range cls {
				cl := g.defined[(indexIn(g.defined, k)+i*rot)%len(g.defined)]
				var e *sl.Err
				if objs[i], e = g.dagObj(cl, false); e == nil {
					cpls[i], e = g.cplOf(objs[i])
				}
				if e != nil {
					x.Fail("dag instance-error", "%s", e)
					return
				}
			}
			got := g.callObjs(g.scope, objs)
			x.Cover("calls")
			if fail, msg := judge(st, st.DispatchCPL(cpls), got); fail != "" {
				x.Fail("cdag stale-after-defclass "+fail, "call on new instances (precedence lists %v) after the goroutines were joined, class definitions made while calls were in flight: [%s]; methods [%s]: %s",
					cpls, strings.Join(c.Thr[0], " "), st, msg)
			}
		}
	}
}

func indexIn(xs []int, v int) int {
	for i, e := range xs {
		if e == v {
			return i
		}
	}
	return 0
}

// auxLock gives the harness access to the (unexported) mutex of a generic
// function, only to find out whether a call left it locked and to release it
// again so that the worker does not hang on a listed finding.
func auxLock(name string) *sync.Mutex {
	fi := slip.FindFunc(name)
	if fi == nil || fi.Aux == nil {
		return nil
	}
	v := reflect.ValueOf(fi.Aux)
	if v.Kind() != reflect.Pointer || v.Elem().Kind() != reflect.Struct {
		return nil
	}
	f := v.Elem().FieldByName("moo")
	if !f.IsValid() || f.Type() != reflect.TypeOf(sync.Mutex{}) {
		return nil
	}
	return (*sync.Mutex)(unsafe.Pointer(f.UnsafeAddr()))
}

// lockLeaked tells whether the generic function's lock cannot be taken. Only
// meaningful when no call can legitimately be inside the critical section
// (sequential cases; concurrent cases after a long stall).
func lockLeaked(name string) bool {
	mu := auxLock(name)
	if mu == nil {
		return false
	}
	if mu.TryLock() {
		mu.Unlock()
		return false
	}
	return true
}

func forceUnlock(name string) {
	if mu := auxLock(name); mu != nil {
		_ = sl.Catch(func() { mu.Unlock() })
	}
}
