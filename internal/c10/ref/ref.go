// Package ref is the cache-free reference dispatcher of check C10. It is
// written from the property statement and design/generics.md (standard method
// combination, argument precedence left to right) and does not import slip.
//
// Classes come in chains: level 0 is the root of the chain (least specific),
// level 3 the leaf. A specializer is a chain level or T (the class t, less
// specific than every chain class). An argument class is a chain level (the
// most specific class of the object) or Out (an object of an unrelated class:
// only t is in its precedence list besides classes nobody specializes on).
package ref

import (
	"fmt"
	"sort"
	"strings"
)

const (
	// T is the specializer t.
	T = 9
	// Out is the argument class outside the chain.
	Out = 9
)

// Qualifiers.
const (
	Primary = "primary"
	Before  = "before"
	After   = "after"
	Around  = "around"
)

// Around body variants.
const (
	BodyNext   = 0 // (call-next-method <same args>), wraps the value
	BodyStop   = 1 // does not call the next method
	BodyGuard  = 2 // (if (next-method-p) (call-next-method ...) "none")
	BodyNoArgs = 3 // (call-next-method) with no arguments: same arguments
	BodyFlat   = 4 // as BodyNext, written with function calls only (no let)
	BodyTwice  = 5 // calls the next method twice; the value of the second call is wrapped
)

// Method is one defined method.
type Method struct {
	Qual string
	Spec []int
	Ver  int // distinguishes a replacement from the method it replaced
	Body int // around body variant
}

// Key identifies the slot a method occupies in the generic function.
func Key(qual string, spec []int) string {
	var b strings.Builder
	b.WriteString(qual)
	for _, s := range spec {
		fmt.Fprintf(&b, "/%d", s)
	}
	return b.String()
}

// Tag is what a method body reports: qualifier letter, specializers, version.
func Tag(qual string, spec []int, ver int) string {
	var b strings.Builder
	b.WriteByte(map[string]byte{Primary: 'p', Before: 'b', After: 'a', Around: 'w'}[qual])
	for _, s := range spec {
		if s == T {
			b.WriteString(".t")
		} else {
			fmt.Fprintf(&b, ".%d", s)
		}
	}
	fmt.Fprintf(&b, "#%d", ver)
	return b.String()
}

// State is the set of methods of one generic function.
type State struct {
	M map[string]*Method
	// Fam is the class family of the arguments: "" for a chain, "dia" for
	// the diamond 3 > 2 > 1 > 0 in which the classes 2 and 1 are unrelated
	// siblings below 0 and 3 inherits from both (precedence list 3 2 1 0).
	Fam string
}

// New returns the empty method set over a class chain.
func New() *State { return &State{M: map[string]*Method{}} }

// NewFam returns the empty method set over the given class family.
func NewFam(fam string) *State {
	st := New()
	if fam == "dia" {
		st.Fam = fam
	}
	return st
}

// Clone copies the state.
func (st *State) Clone() *State {
	c := NewFam(st.Fam)
	for k, m := range st.M {
		c.M[k] = m
	}
	return c
}

// Define adds or replaces a method.
func (st *State) Define(m *Method) { st.M[Key(m.Qual, m.Spec)] = m }

// Remove deletes a method; tells whether it was there.
func (st *State) Remove(qual string, spec []int) bool {
	k := Key(qual, spec)
	_, has := st.M[k]
	delete(st.M, k)
	return has
}

// Has tells whether the method exists.
func (st *State) Has(qual string, spec []int) bool {
	_, has := st.M[Key(qual, spec)]
	return has
}

// String is a canonical rendering of the state (sorted tags).
func (st *State) String() string {
	tags := make([]string, 0, len(st.M))
	for _, m := range st.M {
		t := Tag(m.Qual, m.Spec, m.Ver)
		if m.Qual == Around {
			t += fmt.Sprintf("~%d", m.Body)
		}
		tags = append(tags, t)
	}
	sort.Strings(tags)
	return strings.Join(tags, " ")
}

// applicable tells whether the class spec is in the precedence list of an
// object whose class is arg.
func (st *State) applicable(spec, arg int) bool {
	if spec == T {
		return true
	}
	if arg == Out {
		return false
	}
	if st.Fam == "dia" {
		return spec == arg || spec == 0 || arg == 3
	}
	return spec <= arg
}

func rank(spec int) int {
	if spec == T {
		return -1
	}
	return spec
}

// moreSpecific orders two applicable methods: the first required argument in
// which the specializers differ decides.
func moreSpecific(a, b *Method) bool {
	for i := range a.Spec {
		if ra, rb := rank(a.Spec[i]), rank(b.Spec[i]); ra != rb {
			return rb < ra
		}
	}
	return false
}

// Applicable returns the applicable methods with the given qualifier, most
// specific first.
func (st *State) Applicable(qual string, args []int) []*Method {
	var ms []*Method
	for _, m := range st.M {
		if m.Qual != qual || len(m.Spec) != len(args) {
			continue
		}
		ok := true
		for i, s := range m.Spec {
			if !st.applicable(s, args[i]) {
				ok = false
				break
			}
		}
		if ok {
			ms = append(ms, m)
		}
	}
	sort.Slice(ms, func(i, j int) bool { return moreSpecific(ms[i], ms[j]) })
	return ms
}

// Outcome is what a call must look like.
type Outcome struct {
	Trace []string
	// Value is the rendering of the returned value; "" when Err is set.
	Value string
	// Err: "" | "no-applicable-method" | "no-next-method".
	Err string
	// NoPrimary: methods are applicable but no primary is. The property does
	// not say what the value is then (ANSI CL signals an error, slip runs the
	// daemons and returns nil); see Alt.
	NoPrimary bool
	// NArounds, NBefores, NAfters, NPrimaries: applicable counts.
	NArounds, NBefores, NAfters, NPrimaries int
}

type noNext struct{}

// Dispatch computes the outcome of a call with arguments of the given classes.
func (st *State) Dispatch(args []int) (out Outcome) {
	arounds := st.Applicable(Around, args)
	befores := st.Applicable(Before, args)
	primaries := st.Applicable(Primary, args)
	afters := st.Applicable(After, args)
	out.NArounds, out.NBefores, out.NAfters, out.NPrimaries = len(arounds), len(befores), len(afters), len(primaries)
	if len(arounds)+len(befores)+len(primaries)+len(afters) == 0 {
		out.Err = "no-applicable-method"
		return
	}
	out.NoPrimary = len(primaries) == 0
	emit := func(s string) { out.Trace = append(out.Trace, s) }
	inner := func() string {
		for _, m := range befores {
			emit(Tag(m.Qual, m.Spec, m.Ver))
		}
		v := "nil"
		if 0 < len(primaries) {
			m := primaries[0]
			emit(Tag(m.Qual, m.Spec, m.Ver))
			v = `"` + Tag(m.Qual, m.Spec, m.Ver) + `"`
		}
		for i := len(afters) - 1; 0 <= i; i-- {
			m := afters[i]
			emit(Tag(m.Qual, m.Spec, m.Ver))
		}
		return v
	}
	hasInner := 0 < len(befores)+len(primaries)+len(afters)
	var walk func(i int) string
	walk = func(i int) string {
		if len(arounds) <= i {
			if !hasInner {
				panic(noNext{})
			}
			return inner()
		}
		m := arounds[i]
		tag := Tag(m.Qual, m.Spec, m.Ver)
		emit(tag + "<")
		switch m.Body {
		case BodyStop:
			return `"` + tag + `"`
		case BodyGuard:
			if i+1 < len(arounds) || hasInner {
				v := walk(i + 1)
				emit(tag + ">")
				return `("` + tag + `" ` + v + `)`
			}
			emit(tag + ">")
			return `("` + tag + `" "none")`
		}
		if m.Body == BodyTwice {
			walk(i + 1)
		}
		v := walk(i + 1)
		emit(tag + ">")
		return `("` + tag + `" ` + v + `)`
	}
	func() {
		defer func() {
			if r := recover(); r != nil {
				if _, ok := r.(noNext); !ok {
					panic(r)
				}
				out.Err = "no-next-method"
			}
		}()
		out.Value = walk(0)
	}()
	return
}
