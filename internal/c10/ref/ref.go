// Package ref is the cache-free reference dispatcher of check C10. It is
// written from the property statement and design/generics.md (standard method
// combination, argument precedence left to right) and does not import slip.
//
// Classes come in chains: level 0 is the root of the chain (least specific),
// level 3 the leaf. A specializer is a chain level or T (the class t, less
// specific than every chain class). An argument class is a chain level (the
// most specific class of the object) or Out (an object of an unrelated class:
// only t is in its precedence list besides classes nobody specializes on).
package ref

import (
	"fmt"
	"sort"
	"strings"
)

const (
	// T is the specializer t.
	T = 9
	// Out is the argument class outside the chain.
	Out = 9
)

// Qualifiers.
const (
	Primary = "primary"
	Before  = "before"
	After   = "after"
	Around  = "around"
)

// Around body variants.
const (
	BodyNext   = 0 // (call-next-method <same args>), wraps the value
	BodyStop   = 1 // does not call the next method
	BodyGuard  = 2 // (if (next-method-p) (call-next-method ...) "none")
	BodyNoArgs = 3 // (call-next-method) with no arguments: same arguments
	BodyFlat   = 4 // as BodyNext, written with function calls only (no let)
	BodyTwice  = 5 // calls the next method twice; the value of the second call is wrapped
)

// Method is one defined method.
type Method struct {
	Qual string
	Spec []int
	Ver  int // distinguishes a replacement from the method it replaced
	Body int // around body variant
	// Bare: unspecialised required parameters are written as bare symbols, x
	// instead of (x t) (a rendering hint, no effect on the dispatch)
	Bare bool
}

// Key identifies the slot a method occupies in the generic function.
func Key(qual string, spec []int) string {
	var b strings.Builder
	b.WriteString(qual)
	for _, s := range spec {
		fmt.Fprintf(&b, "/%d", s)
	}
	return b.String()
}

// Tag is what a method body reports: qualifier letter, specializers, version.
func Tag(qual string, spec []int, ver int) string {
	var b strings.Builder
	b.WriteByte(map[string]byte{Primary: 'p', Before: 'b', After: 'a', Around: 'w'}[qual])
	for _, s := range spec {
		if s == T {
			b.WriteString(".t")
		} else {
			fmt.Fprintf(&b, ".%d", s)
		}
	}
	fmt.Fprintf(&b, "#%d", ver)
	return b.String()
}

// State is the set of methods of one generic function.
type State struct {
	M map[string]*Method
	// Fam is the class family of the arguments: "" for a chain, "dia" for
	// the diamond 3 > 2 > 1 > 0 in which the classes 2 and 1 are unrelated
	// siblings below 0 and 3 inherits from both (precedence list 3 2 1 0).
	Fam string
}

// New returns the empty method set over a class chain.
func New() *State { return &State{M: map[string]*Method{}} }

// NewFam returns the empty method set over the given class family.
func NewFam(fam string) *State {
	st := New()
	if fam == "dia" {
		st.Fam = fam
	}
	return st
}

// Clone copies the state.
func (st *State) Clone() *State {
	c := NewFam(st.Fam)
	for k, m := range st.M {
		c.M[k] = m
	}
	return c
}

// Define adds or replaces a method.
func (st *State) Define(m *Method) { st.M[Key(m.Qual, m.Spec)] = m }

// Remove deletes a method; tells whether it was there.
func (st *State) Remove(qual string, spec []int) bool {
	k := Key(qual, spec)
	_, has := st.M[k]
	delete(st.M, k)
	return has
}

// Has tells whether the method exists.
func (st *State) Has(qual string, spec []int) bool {
	_, has := st.M[Key(qual, spec)]
	return has
}

// String is a canonical rendering of the state (sorted tags).
func (st *State) String() string {
	tags := make([]string, 0, len(st.M))
	for _, m := range st.M {
		t := Tag(m.Qual, m.Spec, m.Ver)
		if m.Qual == Around {
			t += fmt.Sprintf("~%d", m.Body)
		}
		tags = append(tags, t)
	}
	sort.Strings(tags)
	return strings.Join(tags, " ")
}

// CPL returns the class precedence list (as specializer values, most specific
// first, t last) of an object whose class is arg, for the built-in families.
func (st *State) CPL(arg int) []int {
	var l []int
	switch {
	case arg == Out:
	case st.Fam == "dia":
		switch arg {
		case 3:
			l = []int{3, 2, 1, 0}
		case 0:
			l = []int{0}
		default:
			l = []int{arg, 0}
		}
	default:
		for k := arg; 0 <= k; k-- {
			l = append(l, k)
		}
	}
	return append(l, T)
}

// pos is the position of the class spec in a precedence list, -1 if it is
// not in it (t is in every list, after everything else).
func pos(cpl []int, spec int) int {
	for k, c := range cpl {
		if c == spec {
			return k
		}
	}
	if spec == T {
		return len(cpl)
	}
	return -1
}

// applicableCPL returns the methods with the given qualifier whose every
// specializer is in the precedence list of the corresponding argument, most
// specific first: the first required argument in which the specializers
// differ decides, the one earlier in that argument's list wins.
func (st *State) applicableCPL(qual string, cpls [][]int) []*Method {
	var ms []*Method
	for _, m := range st.M {
		if m.Qual != qual || len(m.Spec) != len(cpls) {
			continue
		}
		ok := true
		for i, s := range m.Spec {
			if pos(cpls[i], s) < 0 {
				ok = false
				break
			}
		}
		if ok {
			ms = append(ms, m)
		}
	}
	sort.Slice(ms, func(a, b int) bool {
		for i := range cpls {
			if pa, pb := pos(cpls[i], ms[a].Spec[i]), pos(cpls[i], ms[b].Spec[i]); pa != pb {
				return pa < pb
			}
		}
		return false
	})
	return ms
}

// Applicable returns the applicable methods with the given qualifier, most
// specific first, for arguments of the given classes of a built-in family.
func (st *State) Applicable(qual string, args []int) []*Method {
	return st.applicableCPL(qual, st.cpls(args))
}

func (st *State) cpls(args []int) [][]int {
	cpls := make([][]int, len(args))
	for i, a := range args {
		cpls[i] = st.CPL(a)
	}
	return cpls
}

// Outcome is what a call must look like.
type Outcome struct {
	Trace []string
	// Value is the rendering of the returned value; "" when Err is set.
	Value string
	// Err: "" | "no-applicable-method" | "no-next-method".
	Err string
	// NoPrimary: methods are applicable but no primary is. The property does
	// not say what the value is then (ANSI CL signals an error, slip runs the
	// daemons and returns nil); see Alt.
	NoPrimary bool
	// NArounds, NBefores, NAfters, NPrimaries: applicable counts.
	NArounds, NBefores, NAfters, NPrimaries int
}

type noNext struct{}

// Dispatch computes the outcome of a call with arguments of the given classes
// of a built-in family.
func (st *State) Dispatch(args []int) Outcome { return st.DispatchCPL(st.cpls(args)) }

// DispatchCPL computes the outcome of a call from the class precedence list
// of each required argument (specializer values, most specific first).
func (st *State) DispatchCPL(cpls [][]int) (out Outcome) {
	arounds := st.applicableCPL(Around, cpls)
	befores := st.applicableCPL(Before, cpls)
	primaries := st.applicableCPL(Primary, cpls)
	afters := st.applicableCPL(After, cpls)
	out.NArounds, out.NBefores, out.NAfters, out.NPrimaries = len(arounds), len(befores), len(afters), len(primaries)
	if len(arounds)+len(befores)+len(primaries)+len(afters) == 0 {
		out.Err = "no-applicable-method"
		return
	}
	out.NoPrimary = len(primaries) == 0
	emit := func(s string) { out.Trace = append(out.Trace, s) }
	inner := func() string {
		for _, m := range befores {
			emit(Tag(m.Qual, m.Spec, m.Ver))
		}
		v := "nil"
		if 0 < len(primaries) {
			m := primaries[0]
			emit(Tag(m.Qual, m.Spec, m.Ver))
			v = `"` + Tag(m.Qual, m.Spec, m.Ver) + `"`
		}
		for i := len(afters) - 1; 0 <= i; i-- {
			m := afters[i]
			emit(Tag(m.Qual, m.Spec, m.Ver))
		}
		return v
	}
	hasInner := 0 < len(befores)+len(primaries)+len(afters)
	var walk func(i int) string
	walk = func(i int) string {
		if len(arounds) <= i {
			if !hasInner {
				panic(noNext{})
			}
			return inner()
		}
		m := arounds[i]
		tag := Tag(m.Qual, m.Spec, m.Ver)
		emit(tag + "<")
		switch m.Body {
		case BodyStop:
			return `"` + tag + `"`
		case BodyGuard:
			if i+1 < len(arounds) || hasInner {
				v := walk(i + 1)
				emit(tag + ">")
				return `("` + tag + `" ` + v + `)`
			}
			emit(tag + ">")
			return `("` + tag + `" "none")`
		}
		if m.Body == BodyTwice {
			walk(i + 1)
		}
		v := walk(i + 1)
		emit(tag + ">")
		return `("` + tag + `" ` + v + `)`
	}
	func() {
		defer func() {
			if r := recover(); r != nil {
				if _, ok := r.(noNext); !ok {
					panic(r)
				}
				out.Err = "no-next-method"
			}
		}()
		out.Value = walk(0)
	}()
	return
}
