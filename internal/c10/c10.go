// Package c10 monitors generic-function dispatch of the real interpreter
// against a cache-free reference dispatcher (package ref): histories of
// defmethod / remove-method / call on one generic function, judged call by
// call (ordered trace emitted by the method bodies, returned value or
// condition), sequentially (bounded-exhaustive and random histories) and with
// calls and definitions issued from concurrent goroutines (race detector,
// linearizability of the recorded history).
package c10

import (
	"fmt"
	"math/rand/v2"
	"os"
	"runtime/debug"
	"strings"
	"sync/atomic"

	"github.com/ohler55/slip"

	"verif/internal/c10/ref"
	"verif/internal/fw"
	"verif/internal/sl"
)

// Case is one history over one fresh generic function.
//
// Ops are compact strings:
//
//	D<q><specs>[~<body>]  defmethod, q in p b a w, one spec char per required argument
//	R<q><specs>           remove-method of (find-method ...)
//	C<classes>            call with arguments of the given classes
//	K<class>:<supers>     (dag family) defclass of class <class> with the direct superclasses in that order
//	c<classes>            (dag family) call with the instances made when each class was first defined
//
// spec chars: 0..3 = chain level (0 root, 3 leaf), t = class t;
// class chars: 0..3 = an object whose class is that chain level, x = an
// object outside the chain.
type Case struct {
	Kind  string   `json:"kind"`            // seq | conc | park
	Fam   string   `json:"fam"`             // clos (defclass chain) | num (real > rational > integer > fixnum)
	Ar    int      `json:"ar"`              // number of required arguments
	Note  string   `json:"note,omitempty"`  // generator block
	Pre   []string `json:"pre,omitempty"`   // definitions made before the history starts
	Ops   []string `json:"ops,omitempty"`   // seq: the history; conc/park: unused
	Sweep bool     `json:"sweep,omitempty"` // seq: after the history call every class tuple once more
	InGF  bool     `json:"ingf,omitempty"`  // seq: Pre is given as :method options of the defgeneric form
	// Retained (dag family): the final sweep also calls with the instances
	// made before their classes were redefined
	Retained bool `json:"retained,omitempty"`
	// Bare (seq): every second method version writes its unspecialised
	// required parameters as bare symbols, x instead of (x t)
	Bare  bool       `json:"bare,omitempty"`
	Thr   [][]string `json:"thr,omitempty"`   // conc: one op list per goroutine; park: [caller, definer]
	PSeed uint64     `json:"pseed,omitempty"` // conc: seed of the schedule perturbation
	// NoLin (conc): no logical clock and no linearizability check: the
	// goroutines share nothing with the harness that would order them, so the
	// race detector sees every unordered pair of accesses inside slip
	NoLin bool `json:"nolin,omitempty"`
}

// ---------------------------------------------------------------------------
// op encoding

type op struct {
	kind   byte // D R C, and in the dag family c (call with the retained first instances) and K (defclass)
	qual   string
	spec   []int // specializers or argument classes; K: the class
	body   int
	supers []int // K: direct superclasses in order
}

var qualOf = map[byte]string{'p': ref.Primary, 'b': ref.Before, 'a': ref.After, 'w': ref.Around}
var letterOf = map[string]byte{ref.Primary: 'p', ref.Before: 'b', ref.After: 'a', ref.Around: 'w'}

func lvl(c byte) int {
	switch c {
	case 't', 'x':
		return ref.T
	}
	return int(c - '0')
}

func parseOp(s string) op {
	o := op{kind: s[0]}
	rest := s[1:]
	if o.kind == 'K' { // K<class>:<direct superclasses>
		o.spec = []int{int(rest[0] - '0')}
		for i := 2; i < len(rest); i++ {
			o.supers = append(o.supers, int(rest[i]-'0'))
		}
		return o
	}
	if o.kind != 'C' && o.kind != 'c' {
		o.qual = qualOf[rest[0]]
		rest = rest[1:]
	}
	if i := strings.IndexByte(rest, '~'); 0 <= i {
		o.body = int(rest[i+1] - '0')
		rest = rest[:i]
	}
	for i := 0; i < len(rest); i++ {
		o.spec = append(o.spec, lvl(rest[i]))
	}
	return o
}

func specStr(spec []int, out byte) string {
	b := make([]byte, len(spec))
	for i, s := range spec {
		if s == ref.T {
			b[i] = out
		} else {
			b[i] = byte('0' + s)
		}
	}
	return string(b)
}

func defOp(qual string, spec []int, body int) string {
	s := "D" + string(letterOf[qual]) + specStr(spec, 't')
	if qual == ref.Around && body != 0 {
		s += fmt.Sprintf("~%d", body)
	}
	return s
}

func remOp(qual string, spec []int) string { return "R" + string(letterOf[qual]) + specStr(spec, 't') }
func callOp(args []int) string             { return "C" + specStr(args, 'x') }
func origCallOp(args []int) string         { return "c" + specStr(args, 'x') }
func classOp(class int, supers []int) string {
	return fmt.Sprintf("K%d:%s", class, specStr(supers, 'x'))
}

// ---------------------------------------------------------------------------
// the world inside the worker: classes, trace function

var (
	world   *slip.Scope
	gfCount atomic.Int64
	clsName = map[string][]string{
		"clos": {"c10k0", "c10k1", "c10k2", "c10k3"},
		"num":  {"real", "rational", "integer", "fixnum"},
		"dia":  {"c10d0", "c10d1b", "c10d1a", "c10d2"},
	}
)

// traces collects what the method bodies report, keyed by the first argument
// of the generic function call. A buffer is registered for the object before
// the call is made (by the goroutine that owns the case, while no other
// goroutine of the case runs) and appended to only by the goroutine making the
// call, so the trace functions take no lock: a lock here would order the
// goroutines of a concurrent case and hide data races from the race detector.
var traces = map[any]*[]string{}

func expectTrace(obj slip.Object) *[]string {
	buf := new([]string)
	traces[keyOf(obj)] = buf
	return buf
}

func record(obj slip.Object, tag string) {
	if buf := traces[keyOf(obj)]; buf != nil {
		*buf = append(*buf, tag)
	}
}

type trFunc struct {
	slip.Function
}

// Call records (c10-tr tag obj).
func (f *trFunc) Call(s *slip.Scope, args slip.List, depth int) slip.Object {
	if len(args) != 2 {
		panic(fmt.Sprintf("c10-tr: %d arguments", len(args)))
	}
	tag, _ := args[0].(slip.String)
	record(args[1], string(tag))
	return nil
}

type outFunc struct {
	slip.Function
}

// Call records the out marker of an :around method and wraps the value:
// (c10-out tag value obj) => (tag value). It lets an :around body be written
// with function calls only (no special form whose arguments the evaluator
// compiles lazily in place, which is C17's concern, not this check's).
func (f *outFunc) Call(s *slip.Scope, args slip.List, depth int) slip.Object {
	if len(args) != 3 {
		panic(fmt.Sprintf("c10-out: %d arguments", len(args)))
	}
	tag, _ := args[0].(slip.String)
	record(args[2], string(tag)+">")
	return slip.List{tag, args[1]}
}

func keyOf(obj slip.Object) any {
	switch to := obj.(type) {
	case nil:
		return "nil"
	case slip.List:
		return "list"
	case slip.String:
		return "s:" + string(to)
	}
	return obj
}

func initWorld() {
	world = slip.NewScope()
	slip.CurrentPackage = &slip.UserPkg
	slip.Define(
		func(args slip.List) slip.Object {
			f := trFunc{Function: slip.Function{Name: "c10-tr", Args: args}}
			f.Self = &f
			return &f
		},
		&slip.FuncDoc{
			Name:   "c10-tr",
			Args:   []*slip.DocArg{{Name: "tag", Type: "string"}, {Name: "obj", Type: "object"}},
			Return: "nil",
			Text:   "records a trace marker for the call identified by obj (verification harness)",
		}, &slip.UserPkg)
	slip.Define(
		func(args slip.List) slip.Object {
			f := outFunc{Function: slip.Function{Name: "c10-out", Args: args}}
			f.Self = &f
			return &f
		},
		&slip.FuncDoc{
			Name:   "c10-out",
			Args:   []*slip.DocArg{{Name: "tag", Type: "string"}, {Name: "value", Type: "object"}, {Name: "obj", Type: "object"}},
			Return: "list",
			Text:   "records the out marker of an :around method and returns (tag value) (verification harness)",
		}, &slip.UserPkg)
	for _, src := range []string{
		"(defclass c10k0 () ())",
		"(defclass c10k1 (c10k0) ())",
		"(defclass c10k2 (c10k1) ())",
		"(defclass c10k3 (c10k2) ())",
		"(defclass c10kx () ())",
		"(defclass c10d0 () ())",
		"(defclass c10d1a (c10d0) ())",
		"(defclass c10d1b (c10d0) ())",
		"(defclass c10d2 (c10d1a c10d1b) ())",
	} {
		if _, err := sl.Eval(world, src); err != nil {
			panic("c10 world: " + src + ": " + err.String())
		}
	}
	fillPool()
	debug.SetGCPercent(400)
	installHook()
}

// ---------------------------------------------------------------------------
// rendering of ops as slip source

// specName names a specializer. In the dag family every generic function has
// its own classes (they are redefined by the history): fam is "dag/<prefix>".
func specName(fam string, s int) string {
	if s == ref.T {
		return "t"
	}
	if strings.HasPrefix(fam, "dag/") {
		return fmt.Sprintf("%sk%d", fam[4:], s)
	}
	return clsName[fam][s]
}

var params = []string{"x", "y", "z"}

func hasT(spec []int) bool {
	for _, s := range spec {
		if s == ref.T {
			return true
		}
	}
	return false
}

// bareSlots remembers, per generic function and specializer tuple, whether the
// first method defined for the tuple wrote an unspecialised parameter as a
// bare symbol (only used to word a failure message).
var bareSlots = map[string]bool{}

// lambdaList renders the specialized lambda list; an unspecialized required
// parameter is written as a bare symbol for every second method version
// (bare) and as (x t) otherwise.
func lambdaList(fam string, spec []int, bare bool) string {
	var b strings.Builder
	b.WriteByte('(')
	for i, s := range spec {
		if 0 < i {
			b.WriteByte(' ')
		}
		if s == ref.T && bare {
			b.WriteString(params[i])
			continue
		}
		fmt.Fprintf(&b, "(%s %s)", params[i], specName(fam, s))
	}
	b.WriteByte(')')
	return b.String()
}

func defSrc(gf, fam string, m *ref.Method) string {
	tag := ref.Tag(m.Qual, m.Spec, m.Ver)
	ll := lambdaList(fam, m.Spec, m.Bare)
	args := strings.Join(params[:len(m.Spec)], " ")
	switch m.Qual {
	case ref.Primary:
		return fmt.Sprintf(`(defmethod %s %s (c10-tr "%s" x) "%s")`, gf, ll, tag, tag)
	case ref.Before, ref.After:
		return fmt.Sprintf(`(defmethod %s :%s %s (c10-tr "%s" x))`, gf, m.Qual, ll, tag)
	}
	next := "(call-next-method " + args + ")"
	switch m.Body {
	case ref.BodyStop:
		return fmt.Sprintf(`(defmethod %s :around %s (c10-tr "%s<" x) "%s")`, gf, ll, tag, tag)
	case ref.BodyGuard:
		next = `(if (next-method-p) ` + next + ` "none")`
	case ref.BodyNoArgs:
		next = "(call-next-method)"
	case ref.BodyFlat:
		return fmt.Sprintf(`(defmethod %s :around %s (c10-tr "%s<" x) (c10-out "%s" %s x))`, gf, ll, tag, tag, next)
	case ref.BodyTwice:
		return fmt.Sprintf(`(defmethod %s :around %s (c10-tr "%s<" x) %s (let ((r %s)) (c10-tr "%s>" x) (list "%s" r)))`,
			gf, ll, tag, next, next, tag, tag)
	}
	return fmt.Sprintf(`(defmethod %s :around %s (c10-tr "%s<" x) (let ((r %s)) (c10-tr "%s>" x) (list "%s" r)))`,
		gf, ll, tag, next, tag, tag)
}

func findSrc(gf, fam, qual string, spec []int) string {
	q := "()"
	if qual != ref.Primary {
		q = "(:" + qual + ")"
	}
	names := make([]string, len(spec))
	for i, s := range spec {
		names[i] = specName(fam, s)
	}
	return fmt.Sprintf(`(setq c10m (find-method '%s '%s '(%s) nil))`, gf, q, strings.Join(names, " "))
}

func remSrc(gf, fam, qual string, spec []int) string {
	q := "()"
	if qual != ref.Primary {
		q = "(:" + qual + ")"
	}
	names := make([]string, len(spec))
	for i, s := range spec {
		names[i] = specName(fam, s)
	}
	return fmt.Sprintf(`(let ((m (find-method '%s '%s '(%s) nil))) (if m (progn (remove-method '%s m) 1) 0))`,
		gf, q, strings.Join(names, " "), gf)
}

// instance pool: objects of each chain class (index 4: the unrelated class),
// made once per worker; a case never uses the same object for two calls that
// can overlap.
const poolSize = 64

var pool = map[string]*[5][]slip.Object{}

func fillPool() {
	for _, fam := range []string{"clos", "dia"} {
		var p [5][]slip.Object
		for ci := 0; ci < 5; ci++ {
			name := "c10kx"
			if ci < 4 {
				name = clsName[fam][ci]
			}
			for k := 0; k < poolSize; k++ {
				obj, err := sl.Eval(world, "(make-instance '"+name+")")
				if err != nil {
					panic("make-instance: " + err.String())
				}
				p[ci] = append(p[ci], obj)
			}
		}
		pool[fam] = &p
	}
}

// argObj makes an argument object of the given class.
func argObj(fam string, class int, uniq int64) slip.Object {
	if fam == "num" {
		switch class {
		case 3:
			return slip.Fixnum(1000 + uniq)
		case 2:
			obj, _ := sl.Eval(world, fmt.Sprintf("%d", uniq)+"1180591620717411303424")
			return obj
		case 1:
			obj, _ := sl.Eval(world, fmt.Sprintf("%d/7", 7*uniq+1))
			return obj
		case 0:
			return slip.DoubleFloat(float64(uniq) + 0.5)
		}
		return slip.String(fmt.Sprintf("out-%d", uniq))
	}
	ci := class
	if class == ref.Out {
		ci = 4
	}
	return pool[fam][ci][int(uniq)%poolSize]
}

// ---------------------------------------------------------------------------
// one generic function under observation

type gfun struct {
	name  string
	fam   string
	ar    int
	scope *slip.Scope
	ver   int
	// dag family: the first instance of each class (made right after the
	// class was first defined; slip documents that existing objects keep
	// referring to the original class when the class is redefined)
	orig    map[int]slip.Object
	defined []int // classes defined so far, in order of first definition
}

// defclass (re)defines class k of a dag-family generic function.
func (g *gfun) defclass(k int, supers []int) *sl.Err {
	names := make([]string, len(supers))
	for i, s := range supers {
		names[i] = specName(g.fam, s)
	}
	_, err := sl.Eval(g.scope, fmt.Sprintf("(defclass %s (%s) ())", specName(g.fam, k), strings.Join(names, " ")))
	if err != nil {
		return err
	}
	if _, has := g.orig[k]; !has {
		obj, e := sl.Eval(g.scope, "(make-instance '"+specName(g.fam, k)+")")
		if e != nil {
			return e
		}
		g.orig[k] = obj
		g.defined = append(g.defined, k)
	}
	return nil
}

// dagObj returns an argument object of class k: the retained first instance
// or a new instance of the class as it is defined now.
func (g *gfun) dagObj(k int, orig bool) (slip.Object, *sl.Err) {
	if k == ref.Out {
		return pool["clos"][4][0], nil
	}
	if orig {
		if obj, has := g.orig[k]; has {
			return obj, nil
		}
	}
	return sl.Eval(g.scope, "(make-instance '"+specName(g.fam, k)+")")
}

// cplOf asks slip for the class precedence list of the object's class and
// maps it to specializer values (classes of this generic function, t last).
// The precedence list itself is C12's concern; this check takes it as given
// and judges the dispatch against it.
func (g *gfun) cplOf(obj slip.Object) ([]int, *sl.Err) {
	g.scope.Let(slip.Symbol("c10o"), obj)
	res, err := sl.Eval(g.scope, "(class-precedence (class-of c10o))")
	if err != nil {
		return nil, err
	}
	var cpl []int
	prefix := g.fam[4:] + "k"
	list, _ := res.(slip.List)
	for _, e := range list {
		if sym, ok := e.(slip.Symbol); ok && strings.HasPrefix(strings.ToLower(string(sym)), prefix) {
			cpl = append(cpl, int(sym[len(prefix)]-'0'))
		}
	}
	return append(cpl, ref.T), nil
}

// newGF defines a fresh generic function; methods are given as :method
// options of the defgeneric form.
func newGF(fam string, ar int, methods ...*ref.Method) (*gfun, *sl.Err) {
	g := &gfun{name: fmt.Sprintf("c10g%d", gfCount.Add(1)), fam: fam, ar: ar, scope: world.NewScope()}
	if fam == "dag" {
		g.fam = "dag/" + g.name
		g.orig = map[int]slip.Object{}
	}
	var b strings.Builder
	fmt.Fprintf(&b, "(defgeneric %s (%s)", g.name, strings.Join(params[:ar], " "))
	for _, m := range methods {
		b.WriteString(" " + strings.Replace(defSrc(g.name, g.fam, m), "(defmethod "+g.name, "(:method", 1))
	}
	b.WriteString(")")
	_, err := sl.Eval(g.scope, b.String())
	return g, err
}

type observed struct {
	Trace []string `json:"trace"`
	Value string   `json:"value,omitempty"`
	Err   *sl.Err  `json:"err,omitempty"`
}

// call makes the argument objects and calls the generic function in scope s.
func (g *gfun) call(s *slip.Scope, classes []int, uniq int64) observed {
	objs := make([]slip.Object, len(classes))
	for i, c := range classes {
		objs[i] = argObj(g.fam, c, uniq)
	}
	return g.callObjs(s, objs)
}

// callObjs calls the generic function with the given objects in scope s.
func (g *gfun) callObjs(s *slip.Scope, objs []slip.Object) observed {
	var src strings.Builder
	src.WriteString("(" + g.name)
	first := objs[0]
	for i, obj := range objs {
		s.Let(slip.Symbol(params[i]), obj)
		src.WriteString(" " + params[i])
	}
	src.WriteString(")")
	buf := expectTrace(first)
	res, err := sl.Eval(s, src.String())
	delete(traces, keyOf(first))
	o := observed{Trace: *buf, Err: err}
	if err == nil {
		o.Value = sl.Show(res)
	}
	return o
}

// ---------------------------------------------------------------------------
// judging one call

func aroundClass(n int) string {
	switch n {
	case 0, 1:
		return fmt.Sprint(n)
	}
	return "2+"
}

// diffKind names what differs between the expected and the observed trace: a
// marker of a method that is no longer defined (stale: a removed method or a
// replaced version ran), an expected marker that never shows up (missing), a
// marker of a defined but not applicable method (extra), a repetition, or order.
func diffKind(st *ref.State, want, got []string) string {
	inGot := map[string]int{}
	for _, t := range got {
		inGot[t]++
	}
	inWant := map[string]int{}
	for _, t := range want {
		inWant[t]++
	}
	current := map[string]bool{}
	for _, m := range st.M {
		current[ref.Tag(m.Qual, m.Spec, m.Ver)] = true
	}
	for _, t := range got {
		if inWant[t] == 0 && !current[strings.TrimRight(t, "<>")] {
			return "stale:" + t[:1]
		}
	}
	for _, t := range want {
		if inGot[t] == 0 {
			return "missing:" + t[:1]
		}
	}
	for _, t := range got {
		if inWant[t] == 0 {
			return "extra:" + t[:1]
		}
	}
	for _, t := range got {
		if inWant[t] < inGot[t] {
			return "repeated:" + t[:1]
		}
	}
	return "order"
}

func eqTrace(a, b []string) bool {
	if len(a) != len(b) {
		return false
	}
	for i := range a {
		if a[i] != b[i] {
			return false
		}
	}
	return true
}

// judge compares an observation with the reference outcome. It returns ""
// when they agree, else the failing-construct part of a signature.
func judge(st *ref.State, want ref.Outcome, got observed) (fail, msg string) {
	ar := " arounds=" + aroundClass(want.NArounds)
	if got.Err != nil && got.Err.Internal {
		return "diff=internal-fault" + ar, "internal fault: " + got.Err.String()
	}
	switch {
	case want.Err == "no-applicable-method":
		if got.Err == nil {
			return "diff=no-error expected=no-applicable-method", fmt.Sprintf("no method is applicable, call returned %s trace %v", got.Value, got.Trace)
		}
		okClass := false
		for _, c := range got.Err.Chain {
			if strings.Contains(c, "no-applicable-method") {
				okClass = true
			}
		}
		if !okClass {
			return "diff=error:" + got.Err.Class + " expected=no-applicable-method", "no method is applicable, got " + got.Err.String()
		}
		if 0 < len(got.Trace) {
			return "diff=" + diffKind(st, nil, got.Trace) + " expected=no-applicable-method", fmt.Sprintf("no method is applicable, but methods ran: %v", got.Trace)
		}
		return "", ""
	case want.Err == "no-next-method":
		// an :around method calls the next method and there is none
		if !eqTrace(want.Trace, got.Trace) {
			return "diff=" + diffKind(st, want.Trace, got.Trace) + ar, fmt.Sprintf("trace %v, expected %v then a no-next-method error", got.Trace, want.Trace)
		}
		if got.Err == nil {
			return "diff=no-error expected=no-next-method", fmt.Sprintf("call-next-method without a next method returned %s", got.Value)
		}
		return "", ""
	case want.NoPrimary:
		// The property does not pin the outcome when methods are applicable
		// but no primary is: ANSI CL signals an error before running anything,
		// slip runs the applicable methods. Both are accepted.
		if got.Err != nil && len(got.Trace) == 0 {
			return "", ""
		}
		if !eqTrace(want.Trace, got.Trace) {
			return "diff=" + diffKind(st, want.Trace, got.Trace) + ar + " no-primary", fmt.Sprintf("trace %v, expected %v", got.Trace, want.Trace)
		}
		return "", ""
	}
	if !eqTrace(want.Trace, got.Trace) {
		m := fmt.Sprintf("trace %v, expected %v", got.Trace, want.Trace)
		if got.Err != nil {
			m += "; call ended with " + got.Err.String()
		}
		return "diff=" + diffKind(st, want.Trace, got.Trace) + ar, m
	}
	if got.Err != nil {
		return "diff=error:" + got.Err.Class + ar, "call ended with " + got.Err.String() + fmt.Sprintf(" (trace %v as expected)", got.Trace)
	}
	if got.Value != want.Value {
		return "diff=value" + ar, fmt.Sprintf("returned %s, expected %s (trace %v as expected)", got.Value, want.Value, got.Trace)
	}
	return "", ""
}

// ---------------------------------------------------------------------------
// sequential histories

func classTuples(ar int) [][]int {
	cls := []int{0, 1, 2, 3, ref.Out}
	if ar == 1 {
		out := make([][]int, len(cls))
		for i, c := range cls {
			out[i] = []int{c}
		}
		return out
	}
	var out [][]int
	if ar == 3 {
		// a sample: every tuple over the root, the leaf and the unrelated class
		few := []int{0, 3, ref.Out}
		for _, a := range few {
			for _, b := range few {
				for _, c := range few {
					out = append(out, []int{a, b, c})
				}
			}
		}
		return append(out, []int{1, 2, 3}, []int{2, 1, 0}, []int{1, 1, 1}, []int{2, 2, 2})
	}
	for _, a := range cls {
		for _, b := range cls {
			out = append(out, []int{a, b})
		}
	}
	return out
}

func execSeq(x *fw.Ctx, c Case) {
	st := ref.NewFam(c.Fam)
	var inGF []*ref.Method
	if c.InGF {
		for k, s := range c.Pre {
			o := parseOp(s)
			m := &ref.Method{Qual: o.qual, Spec: o.spec, Ver: k + 1, Body: o.body}
			inGF = append(inGF, m)
			st.Define(m)
			x.Cover("defgeneric:method-option")
		}
	}
	g, err := newGF(c.Fam, c.Ar, inGF...)
	if err != nil {
		x.Fail("defgeneric-error", "defgeneric failed: %s", err)
		return
	}
	g.ver = len(inGF)
	var log []string
	x.Observe(map[string]any{"generic": g.name, "log": &log})
	lastMut := "none"
	nCalls, nMut, mutAfterCall := 0, 0, 0
	calledSince := false
	history := func(k int) string { return strings.Join(append(append([]string{}, c.Pre...), c.Ops[:k]...), " ") }
	dag := c.Fam == "dag"
	useOrig := false
	// dag family: classes redefined since their first instance was made; a
	// call with such an instance shares its cache key (the class name) with
	// instances of the new class (listed finding), which can also spoil later
	// calls until the cache is dropped
	redefined := map[int]bool{}
	stale, polluted := false, false
	sweepObj, sweepCPL := map[int]slip.Object{}, map[int][]int{}
	doCall := func(k int, classes []int, sweep bool) {
		var want ref.Outcome
		var got observed
		if dag {
			// the precedence lists are read from slip at the time of the call
			objs := make([]slip.Object, len(classes))
			cpls := make([][]int, len(classes))
			for i, cl := range classes {
				if sweep && !useOrig && sweepObj[cl] != nil {
					// the sweep makes one new instance per class and reuses it
					objs[i], cpls[i] = sweepObj[cl], sweepCPL[cl]
					continue
				}
				var e *sl.Err
				if objs[i], e = g.dagObj(cl, useOrig); e == nil {
					cpls[i], e = g.cplOf(objs[i])
				}
				if e != nil {
					x.Fail("dag instance-error", "class %d after [%s]: %s", cl, history(k), e)
					return
				}
				if sweep && !useOrig {
					sweepObj[cl], sweepCPL[cl] = objs[i], cpls[i]
				}
			}
			want = st.DispatchCPL(cpls)
			got = g.callObjs(g.scope, objs)
			if got.Err != nil && got.Err.Internal {
				// an argument whose class waits for an undefined superclass has
				// no precedence list (not even the class itself)
				unfinished := false
				for i, l := range cpls {
					unfinished = unfinished || (classes[i] != ref.Out && (len(l) == 1 || l[0] != classes[i]))
				}
				if unfinished {
					x.Fail("call-on-unfinished-class diff=internal-fault", "%s after [%s] (precedence lists %v): %s", callOp(classes), history(k), cpls, got.Err)
				}
				if lockLeaked(g.name) {
					x.Fail("dispatch-lock-leak", "%s after [%s] ended with %s and left the generic function's lock locked: every later call of %s would block for ever",
						callOp(classes), history(k), got.Err, g.name)
					forceUnlock(g.name)
				}
				if unfinished {
					nCalls++
					return
				}
			}
			stale = false
			if useOrig {
				x.Cover("call:retained-instance")
				for _, cl := range classes {
					stale = stale || redefined[cl]
				}
				if stale {
					x.Cover("call:retained-instance-of-redefined-class")
					defer func() { polluted = true }()
				}
			}
			if len(log) < 12 {
				log = append(log, fmt.Sprintf("precedence lists %v", cpls))
			}
		} else {
			want = st.Dispatch(classes)
			got = g.call(g.scope, classes, 0)
		}
		nCalls++
		calledSince = true
		x.Cover("calls")
		x.Cover(fmt.Sprintf("call:arounds=%s", aroundClass(want.NArounds)))
		if want.Err != "" {
			x.Cover("call:" + want.Err)
		} else if want.NoPrimary {
			x.Cover("call:no-primary")
		}
		if len(st.M) <= 2 {
			x.Cover(fmt.Sprintf("call:methods=%d", len(st.M)))
		} else {
			x.Cover("call:methods=3+")
		}
		x.CoverN("markers", len(got.Trace))
		if len(log) < 12 {
			log = append(log, fmt.Sprintf("%s => %v %s", callOp(classes), got.Trace, got.Value))
		}
		if fail, msg := judge(st, want, got); fail != "" {
			where := "call"
			if sweep {
				where = "sweep-call"
			}
			sig := "call " + fail
			if dag && strings.HasPrefix(lastMut, "K") {
				sig = "call-after-defclass " + fail
			}
			if useOrig && stale {
				where += " (instances made before their class was redefined)"
				sig = "retained-instance-call " + fail
			} else if polluted {
				where += " (after a call with an instance made before its class was redefined, no change of the table since)"
				sig = "call-after-retained-instance-call " + fail
			}
			x.Fail(sig, "%s %s after [%s] (last change: %s; methods now: %s): %s",
				where, callOp(classes), history(k), lastMut, st, msg)
		}
	}
	apply := func(k int, s string, pre bool) bool {
		o := parseOp(s)
		switch o.kind {
		case 'D':
			g.ver++
			m := &ref.Method{Qual: o.qual, Spec: o.spec, Ver: g.ver, Body: o.body, Bare: c.Bare && g.ver%2 == 0 && hasT(o.spec)}
			replaced := st.Has(o.qual, o.spec)
			src := defSrc(g.name, g.fam, m)
			if _, err := sl.Eval(g.scope, src); err != nil {
				x.Fail("defmethod-error qual="+o.qual, "%s failed after [%s]: %s", src, history(k), err)
				return false
			}
			if m.Bare {
				x.Cover("defmethod:unspecialised-parameter-as-symbol")
			}
			// slip keeps the lambda list of the first method defined for a
			// specializer tuple as long as any method for the tuple exists
			slot := g.name + "/" + specStr(o.spec, 't')
			anyForSlot := false
			for _, q := range allQuals {
				anyForSlot = anyForSlot || st.Has(q, o.spec)
			}
			if !anyForSlot {
				bareSlots[slot] = m.Bare
			}
			st.Define(m)
			polluted = false
			lastMut = s
			if replaced {
				lastMut += " (replacement)"
				x.Cover("defmethod:replace")
			}
			x.Cover("defmethod:" + o.qual)
		case 'R':
			src := remSrc(g.name, g.fam, o.qual, o.spec)
			res, err := sl.Eval(g.scope, src)
			if err != nil {
				x.Fail("remove-method-error qual="+o.qual, "%s failed after [%s]: %s", src, history(k), err)
				return false
			}
			wasBare := bareSlots[g.name+"/"+specStr(o.spec, 't')]
			had := st.Remove(o.qual, o.spec)
			if (sl.Show(res) == "1") != had {
				x.Fail("find-method present="+fmt.Sprint(had), "after [%s] find-method %s %v says present=%s, the method table says %v",
					history(k), o.qual, o.spec, sl.Show(res), had)
			}
			if had {
				lastMut = s
				polluted = false
				x.Cover("remove-method:" + o.qual)
				// the method must be gone; if it is not, every later call would
				// disagree for that one reason, so the case ends here
				if again, e := sl.Eval(g.scope, src); e == nil && sl.Show(again) == "1" {
					x.Fail("remove-method no-effect",
						"after [%s] %s: find-method still finds the method after remove-method returned (the first method defined for these specializers wrote an unspecialised parameter as a bare symbol: %v)",
						history(k), s, wasBare)
					return false
				}
			} else {
				x.Cover("remove-method:absent")
			}
		case 'C':
			doCall(k, o.spec, false)
			return true
		case 'c':
			useOrig = true
			doCall(k, o.spec, false)
			useOrig = false
			return true
		case 'K':
			_, redef := g.orig[o.spec[0]]
			if err := g.defclass(o.spec[0], o.supers); err != nil {
				x.Fail("defclass-error", "%s failed after [%s]: %s", s, history(k), err)
				return false
			}
			polluted = false
			if redef {
				redefined[o.spec[0]] = true
				x.Cover("defclass:redefine")
				lastMut = s
			} else {
				x.Cover("defclass:new")
				if 0 < nCalls {
					lastMut = s
				}
			}
		}
		if !pre {
			nMut++
			if calledSince {
				mutAfterCall++
				calledSince = false
			}
		}
		switch len(st.M) {
		case 0, 1, 2:
			x.Cover(fmt.Sprintf("table-size:%d", len(st.M)))
		default:
			x.Cover("table-size:3+")
		}
		return true
	}
	if !c.InGF {
		for _, s := range c.Pre {
			if !apply(0, s, true) {
				return
			}
		}
	}
	for k, s := range c.Ops {
		if !apply(k, s, false) {
			return
		}
	}
	if c.Sweep && dag {
		// every defined class, new instances then the retained ones
		cls := append(append([]int{}, g.defined...), ref.Out)
		for _, orig := range []bool{false, true} {
			if orig && !c.Retained {
				break
			}
			useOrig = orig
			for _, a := range cls {
				if c.Ar == 1 {
					doCall(len(c.Ops), []int{a}, true)
					continue
				}
				for bi, b := range cls {
					// two arguments: every pair when there are few classes, else
					// a fixed half of them; three arguments: the third follows
					if c.Ar == 2 && 4 < len(cls) && (a+bi)%2 == 1 {
						continue
					}
					t := []int{a, b}
					if c.Ar == 3 {
						if (a+bi)%2 == 1 {
							continue
						}
						t = append(t, cls[(a+b)%len(cls)])
					}
					doCall(len(c.Ops), t, true)
				}
			}
		}
		useOrig = false
	} else if c.Sweep {
		for _, t := range classTuples(c.Ar) {
			doCall(len(c.Ops), t, true)
		}
	}
	x.CoverN("changes-after-a-call", mutAfterCall)
	if nCalls == 0 || nMut == 0 {
		x.Trivial()
	}
}

// ---------------------------------------------------------------------------
// generator

type block struct {
	name  string
	fam   string
	ar    int
	pre   []string
	quals []string
	specs [][]int
	calls [][]int
	body  int
}

// The bounded-exhaustive blocks: every history of the tier's length over a
// 15-symbol alphabet (2 qualifiers x 3 specializer tuples x define/remove, 3
// argument class tuples), the last symbol being a call.
var blocks = []block{
	{name: "x1-pb", fam: "clos", ar: 1, quals: []string{ref.Primary, ref.Before},
		specs: [][]int{{0}, {1}, {2}}, calls: [][]int{{0}, {1}, {3}}},
	{name: "x1-pa-t", fam: "clos", ar: 1, quals: []string{ref.Primary, ref.After},
		specs: [][]int{{ref.T}, {0}, {2}}, calls: [][]int{{ref.Out}, {1}, {3}}},
	{name: "x1-ba", fam: "clos", ar: 1, pre: []string{"Dp0"}, quals: []string{ref.Before, ref.After},
		specs: [][]int{{0}, {1}, {3}}, calls: [][]int{{0}, {2}, {3}}},
	{name: "x1-pw", fam: "clos", ar: 1, quals: []string{ref.Primary, ref.Around},
		specs: [][]int{{ref.T}, {1}, {2}}, calls: [][]int{{0}, {1}, {3}}},
	{name: "x1-num", fam: "num", ar: 1, quals: []string{ref.Primary, ref.Before},
		specs: [][]int{{0}, {2}, {3}}, calls: [][]int{{0}, {2}, {3}}},
	{name: "x1-dia", fam: "dia", ar: 1, quals: []string{ref.Primary, ref.Before},
		specs: [][]int{{0}, {1}, {2}}, calls: [][]int{{1}, {2}, {3}}},
	{name: "x2-pb", fam: "clos", ar: 2, quals: []string{ref.Primary, ref.Before},
		specs: [][]int{{0, 0}, {1, 0}, {0, 1}}, calls: [][]int{{0, 0}, {1, 1}, {1, 0}}},
	{name: "x2-pa-t", fam: "clos", ar: 2, quals: []string{ref.Primary, ref.After},
		specs: [][]int{{ref.T, ref.T}, {2, 0}, {0, 2}}, calls: [][]int{{3, 3}, {2, 1}, {ref.Out, 0}}},
	{name: "x2-bw", fam: "clos", ar: 2, pre: []string{"Dp00"}, quals: []string{ref.Before, ref.Around},
		specs: [][]int{{1, 1}, {0, 3}, {2, ref.T}}, calls: [][]int{{3, 3}, {1, 3}, {2, 0}}},
}

func pow(b, e int) int {
	n := 1
	for ; 0 < e; e-- {
		n *= b
	}
	return n
}

func exhLen(tier string) int {
	if tier == "thorough" {
		return 5
	}
	return 4
}

func perBlock(tier string) int { return pow(15, exhLen(tier)-1) * 3 }

func (b *block) symbol(k int) string {
	switch {
	case k < 6:
		return defOp(b.quals[k/3], b.specs[k%3], b.body)
	case k < 12:
		k -= 6
		return remOp(b.quals[k/3], b.specs[k%3])
	}
	return callOp(b.calls[k-12])
}

func genExh(i int, tier string) Case {
	pb := perBlock(tier)
	b := &blocks[i/pb]
	k := i % pb
	L := exhLen(tier)
	ops := make([]string, L)
	ops[L-1] = b.symbol(12 + k%3)
	k /= 3
	for j := L - 2; 0 <= j; j-- {
		ops[j] = b.symbol(k % 15)
		k /= 15
	}
	return Case{Kind: "seq", Fam: b.fam, Ar: b.ar, Note: b.name, Pre: b.pre, Ops: ops}
}

var allQuals = []string{ref.Primary, ref.Before, ref.After, ref.Around}

func randSpec(r *rand.Rand, ar int) []int {
	s := make([]int, ar)
	for i := range s {
		if r.IntN(6) == 0 {
			s[i] = ref.T
		} else {
			s[i] = r.IntN(4)
		}
	}
	return s
}

func randArgs(r *rand.Rand, ar int) []int {
	s := make([]int, ar)
	for i := range s {
		if r.IntN(8) == 0 {
			s[i] = ref.Out
		} else {
			s[i] = r.IntN(4)
		}
	}
	return s
}

// genHistory produces a random history of n ops that continues from the
// methods in pre.
func genHistory(r *rand.Rand, fam string, ar, n int, pre []string) []string {
	st := ref.NewFam(fam)
	var ops []string
	// the population target changes along the history so that the table
	// repeatedly crosses 0 -> 1 -> 2 -> 1 methods and also grows large
	target := 1 + r.IntN(3)
	ver := 0
	for _, s := range pre {
		o := parseOp(s)
		ver++
		st.Define(&ref.Method{Qual: o.qual, Spec: o.spec, Ver: ver, Body: o.body})
	}
	for len(ops) < n {
		if r.IntN(12) == 0 {
			target = []int{0, 1, 2, 3, 6, 12}[r.IntN(6)]
		}
		switch k := r.IntN(10); {
		case k < 4: // call
			var args []int
			if 0 < len(st.M) && r.IntN(4) != 0 {
				// aim at an existing method: argument classes at or below its specializers
				var ms []*ref.Method
				for _, m := range st.M {
					ms = append(ms, m)
				}
				sortMethods(ms)
				m := ms[r.IntN(len(ms))]
				args = make([]int, ar)
				for i, s := range m.Spec {
					if s == ref.T {
						args[i] = randArgs(r, 1)[0]
					} else {
						args[i] = s + r.IntN(4-s)
					}
				}
			} else {
				args = randArgs(r, ar)
			}
			ops = append(ops, callOp(args))
		case k < 7 && len(st.M) < target || len(st.M) == 0 || (k < 5 && len(st.M) <= target): // define
			q := allQuals[r.IntN(4)]
			if r.IntN(3) == 0 {
				q = ref.Primary
			}
			spec := randSpec(r, ar)
			if 0 < len(st.M) && r.IntN(5) == 0 {
				// replace an existing method
				var ms []*ref.Method
				for _, m := range st.M {
					ms = append(ms, m)
				}
				sortMethods(ms)
				m := ms[r.IntN(len(ms))]
				q, spec = m.Qual, m.Spec
			}
			body := 0
			if q == ref.Around {
				body = []int{0, 0, 0, 1, 2, 3, 5}[r.IntN(7)]
			}
			ver++
			m := &ref.Method{Qual: q, Spec: spec, Ver: ver, Body: body}
			st.Define(m)
			ops = append(ops, defOp(q, spec, body))
		default: // remove
			if 0 < len(st.M) && r.IntN(8) != 0 {
				var ms []*ref.Method
				for _, m := range st.M {
					ms = append(ms, m)
				}
				sortMethods(ms)
				m := ms[r.IntN(len(ms))]
				st.Remove(m.Qual, m.Spec)
				ops = append(ops, remOp(m.Qual, m.Spec))
			} else {
				ops = append(ops, remOp(allQuals[r.IntN(4)], randSpec(r, ar)))
			}
		}
	}
	return ops[:n]
}

func sortMethods(ms []*ref.Method) {
	for i := 1; i < len(ms); i++ {
		for j := i; 0 < j && ref.Key(ms[j].Qual, ms[j].Spec) < ref.Key(ms[j-1].Qual, ms[j-1].Spec); j-- {
			ms[j], ms[j-1] = ms[j-1], ms[j]
		}
	}
}

type sizes struct{ exh, probes, short, long, conc, park, dag, cdag int }

func tierSizes(tier string) sizes {
	s := sizes{exh: len(blocks) * perBlock(tier), probes: len(probes)}
	if tier == "thorough" {
		s.short, s.long, s.conc, s.park, s.dag, s.cdag = 200000, 2000, 3000, len(parkCases), 30000, 1500
	} else {
		s.short, s.long, s.conc, s.park, s.dag, s.cdag = 12000, 150, 300, len(parkCases), 2000, 120
	}
	// development knob (never set by registered commands): C10_ONLY=conc
	// keeps only the probes, the directed interleavings and the concurrent
	// histories; C10_ONLY=seq drops the concurrent and the exhaustive blocks.
	switch os.Getenv("C10_ONLY") {
	case "conc":
		s.short, s.long, s.exh, s.dag = 0, 0, 0, 0
	case "seq": // probes, directed interleavings and random histories only
		s.conc, s.exh, s.cdag = 0, 0, 0
	case "dag": // probes and class redefinition histories only
		s.conc, s.exh, s.short, s.long, s.park = 0, 0, 0, 0, 0
	}
	return s
}

func nCases(tier string) int {
	s := tierSizes(tier)
	return s.probes + s.park + s.conc + s.cdag + s.dag + s.long + s.short + s.exh
}

// probes: deterministic, seed-independent cases for boundary situations: the
// single-method fast path (0 -> 1 -> 2 -> 1 methods on t), every around body
// variant, stacked :around methods (listed finding).
var probes = []Case{
	{Kind: "seq", Fam: "clos", Ar: 1, Note: "probe-fastpath", Sweep: true,
		Ops: []string{"Cx", "Dpt", "C0", "Cx", "Dp2", "C3", "C0", "Rp2", "C3", "Cx", "Dbt", "C1", "Rbt", "C1", "Rpt", "C1"}},
	{Kind: "seq", Fam: "clos", Ar: 2, Note: "probe-fastpath", Sweep: true,
		Ops: []string{"Cxx", "Dptt", "C00", "Dp2t", "C30", "C0x", "Rp2t", "C30", "Datt", "C11", "Ratt", "C11", "Rptt", "C11"}},
	{Kind: "seq", Fam: "num", Ar: 1, Note: "probe-fastpath", Sweep: true,
		Ops: []string{"Dpt", "C3", "Cx", "Dp3", "C3", "C2", "Rp3", "C3", "Dp0", "C0", "C1", "Rpt", "Cx", "C2"}},
	{Kind: "seq", Fam: "clos", Ar: 1, Note: "probe-around-bodies", Sweep: true,
		Ops: []string{"Dp0", "Dw1", "C3", "C0", "Dw1~1", "C3", "Dw1~2", "C3", "Dw1~3", "C3", "Rp0", "C3", "Dw1~2", "C3", "Db0", "C3", "Rw1", "C3"}},
	{Kind: "seq", Fam: "clos", Ar: 2, Note: "probe-around-bodies", Sweep: true,
		Ops: []string{"Dp00", "Dw10", "C33", "C03", "Dw10~1", "C33", "Dw10~2", "C13", "Dw10~3", "C13", "Da0t", "C2x", "Rw10", "C33"}},
	{Kind: "seq", Fam: "clos", Ar: 1, Note: "probe-around-bodies", Sweep: true,
		Ops: []string{"Dp0", "Db1", "Da0", "Dw1~5", "C3", "C0", "Rp0", "C3", "Rb1", "Ra0", "C3"}},
	{Kind: "seq", Fam: "dia", Ar: 1, Note: "probe-diamond", Sweep: true,
		Ops: []string{"Dp0", "Dp1", "Dp2", "C3", "C2", "C1", "C0", "Db1", "Db2", "Da1", "Da2", "C3", "C2", "C1", "Rp2", "C3", "C2", "Dp3", "C3"}},
	{Kind: "seq", Fam: "dia", Ar: 2, Note: "probe-diamond", Sweep: true,
		Ops: []string{"Dp00", "Dp12", "Dp21", "Db11", "Db22", "Da1t", "Dat2", "C33", "C12", "C21", "C11", "C22", "C30"}},
	{Kind: "seq", Fam: "clos", Ar: 2, Note: "probe-defgeneric-options", Sweep: true, InGF: true, Pre: []string{"Dp00", "Db10", "Da01", "Dp00"},
		Ops: []string{"C33", "C00", "Dp11", "C33", "Rb10", "C33", "Rp00", "C10"}},
	// class redefinition after the cache was warmed on several classes that
	// inherit from the redefined class: superclass removed / added / reordered,
	// new class defined; afterwards every class is called, in both orders
	{Kind: "seq", Fam: "dag", Ar: 1, Note: "probe-class-redefinition", Sweep: true,
		Ops: []string{"K0:", "K1:0", "K2:1", "K3:1", "Dp0", "Dp1", "Db0", "Da0", "C2", "C3", "C1", "C0", "K1:", "C2", "C3", "C1", "C0", "c2", "c3", "K1:0", "C3", "C2", "C1", "C0"}},
	{Kind: "seq", Fam: "dag", Ar: 1, Note: "probe-class-redefinition", Sweep: true,
		Ops: []string{"K0:", "K1:0", "K2:1", "K3:1", "Dp0", "Dp1", "Db0", "Da0", "C3", "C2", "C1", "K1:", "C0", "C1", "C3", "C2", "K1:0", "C0", "C1", "C2", "C3"}},
	{Kind: "seq", Fam: "dag", Ar: 1, Note: "probe-class-redefinition", Sweep: true,
		Ops: []string{"K0:", "K1:0", "K2:0", "K3:12", "K4:3", "Dp1", "Dp2", "Db1", "Db2", "Da1", "Da2", "Dw1", "Dw2", "C4", "C3", "C2", "K3:21", "C4", "C3", "C2", "C1", "K3:12", "C3", "C4"}},
	{Kind: "seq", Fam: "dag", Ar: 1, Note: "probe-class-redefinition", Sweep: true,
		Ops: []string{"K0:", "K1:", "K2:0", "K3:2", "Dp0", "Dp1", "Db1", "C3", "C2", "K2:01", "C3", "C2", "C1", "K4:3", "C4", "C3", "K2:1", "C4", "C3", "C2", "K2:", "C2", "C3", "C4"}},
	{Kind: "seq", Fam: "dag", Ar: 2, Note: "probe-class-redefinition", Sweep: true,
		Ops: []string{"K0:", "K1:0", "K2:1", "K3:1", "Dp00", "Dp10", "Dp01", "Db0t", "Dat1", "C23", "C32", "C22", "C11", "K1:", "C32", "C23", "C22", "C33", "C11", "K1:0", "C33", "C23"}},
	// a class is redefined with a superclass that is not defined yet: the
	// class and its subclasses have no precedence list until it is; a call
	// with an existing instance of a subclass (listed findings: internal
	// fault, and the generic function's lock stays locked)
	{Kind: "seq", Fam: "dag", Ar: 1, Note: "probe-unfinished-class",
		Ops: []string{"K0:", "K1:0", "K2:1", "Dp0", "Db1", "C2", "K1:7", "c2", "c2", "K7:", "C2", "c2", "C1", "C0"}},
	// instances that outlive a redefinition of their class keep the original
	// class; they share the cache key (the class name) with new instances
	{Kind: "seq", Fam: "dag", Ar: 1, Note: "probe-retained-instances", Retained: true,
		Ops: []string{"K0:", "K1:0", "Dp1", "Db0", "C1", "c1", "K1:", "C1", "c1", "C1", "Da0", "c1", "C1", "c1"}},
	{Kind: "seq", Fam: "dag", Ar: 2, Note: "probe-retained-instances", Retained: true, Sweep: true,
		Ops: []string{"K0:", "K1:0", "K2:1", "Dp00", "Dp11", "Db0t", "C21", "c21", "K1:", "C21", "c21", "c12", "C12", "K2:0", "c22", "C22", "C21"}},
	// methods whose unspecialised required parameter is a bare symbol: define, call, replace, remove
	{Kind: "seq", Fam: "clos", Ar: 1, Note: "probe-unspecialised-parameters", Bare: true, Sweep: true,
		Ops: []string{"Dp0", "Dpt", "C3", "Cx", "Dp1", "Dbt", "C3", "Cx", "Dpt", "Cx", "Rbt", "C1", "Rpt", "Cx", "C3"}},
	{Kind: "seq", Fam: "clos", Ar: 2, Note: "probe-unspecialised-parameters", Bare: true, Sweep: true,
		Ops: []string{"Dp00", "Dpt1", "C31", "Cx1", "Db2t", "Datt", "C23", "Cxx", "Dpt1", "Ratt", "C23", "Rb2t", "Rpt1", "C31"}},
	{Kind: "seq", Fam: "clos", Ar: 3, Note: "probe-unspecialised-parameters", Bare: true,
		Ops: []string{"Dp0tt", "Dpttt", "C000", "Cxxx", "Dpt1t", "Dbtt2", "C312", "Rpttt", "Cxxx", "Rbtt2", "C312"}},
	{Kind: "seq", Fam: "clos", Ar: 3, Note: "probe-three-arguments", Sweep: true,
		Ops: []string{"Dpttt", "C000", "Cx3x", "Dp0tt", "Dpt1t", "Dptt2", "C333", "C0x3", "Cx13", "Db1t1", "Datt0", "Dwt2t", "C333", "C123", "C210", "Rpttt", "C333", "Cxxx", "C0xx"}},
	{Kind: "seq", Fam: "clos", Ar: 1, Note: "probe-stacked-arounds",
		Ops: []string{"Dp0", "Dw0", "Dw1", "C3", "Dw2", "C3", "Dw3", "C3", "C1", "Rw1", "C3", "Dw0~1", "C3", "Dw2~2", "C3"}},
	{Kind: "seq", Fam: "clos", Ar: 2, Note: "probe-stacked-arounds",
		Ops: []string{"Dp00", "Dw00", "Dw10", "C33", "Dw01", "C33", "C03", "Dw11~2", "C33", "Rw00", "C33"}},
	{Kind: "seq", Fam: "clos", Ar: 2, Note: "probe-order", Sweep: true,
		Ops: []string{"Dp00", "Dp10", "Dp01", "Dp11", "Db00", "Db10", "Db01", "Db11", "Da00", "Da10", "Da01", "Da11", "Db3t", "Dat3", "Dp22", "C33", "C12", "C21"}},
}

func rep(n int, ops ...string) []string {
	var out []string
	for ; 0 < n; n-- {
		out = append(out, ops...)
	}
	return out
}

func init() {
	// concurrent probes (fixed for every seed): the shapes on which the
	// pinned tree has data races, so that the set of race signatures does not
	// depend on what the seeded generator happens to produce
	cp := func(ar int, pre []string, thr ...[]string) {
		for k := 0; k < 6; k++ {
			probes = append(probes, Case{Kind: "conc", Fam: "clos", Ar: ar, Note: "conc-probe", Pre: pre, Thr: thr, PSeed: uint64(1000 + k), NoLin: true})
		}
		// and with the logical clock and the linearizability check
		for k := 0; k < 3; k++ {
			probes = append(probes, Case{Kind: "conc", Fam: "clos", Ar: ar, Note: "conc-probe-lin", Pre: pre, Thr: thr, PSeed: uint64(2000 + k)})
		}
	}
	// callers only, through an :around method
	cp(1, []string{"Dp0", "Dw0~4"}, rep(5, "C3"), rep(5, "C2"), rep(5, "C3"), rep(5, "C1"))
	// callers only, through two stacked :around methods
	cp(1, []string{"Dp0", "Db1", "Dw0~4", "Dw1~4"}, rep(5, "C3"), rep(5, "C2"), rep(5, "C3"), rep(5, "C1"))
	// a definer changing daemons of an existing specializer tuple while calls run
	cp(1, []string{"Dp0"}, rep(3, "Db0", "Rb0", "Da0", "Ra0"), rep(6, "C3"), rep(6, "C1"), rep(6, "C3"))
	// replacement and removal of the primary method
	cp(1, []string{"Dp0", "Dp1"}, rep(3, "Dp1", "Rp1", "Dp1", "Db1"), rep(6, "C3"), rep(6, "C1"), rep(6, "C2"))
	// removal of everything under an :around method (call-next-method finds no next method)
	cp(1, []string{"Dp0", "Dw1~4"}, rep(4, "Rp0", "Dp0", "Da0"), rep(6, "C3"), rep(6, "C2"), rep(6, "C3"))
	// the single-method fast path (one primary on t): 0 -> 1 -> 2 -> 1 -> 0 methods while calls are in flight
	cp(1, nil, rep(3, "Dpt", "Dp1", "Rp1", "Rpt"), rep(6, "C3"), rep(6, "C1"), rep(6, "Cx"), rep(6, "C0"))
	cp(1, []string{"Dpt"}, rep(3, "Dbt", "Rbt", "Dp2", "Rp2"), rep(6, "C3"), rep(6, "C1"), rep(6, "Cx"))
	cp(2, []string{"Dptt"}, rep(3, "Dp1t", "Rp1t", "Rptt", "Dptt"), rep(5, "C33"), rep(5, "C0x"), rep(5, "C13"))
	// class definitions while calls are in flight (fixed shapes): a superclass
	// removed and added again, new classes only, two superclasses reordered
	cd := func(ar int, pre []string, thr ...[]string) {
		for k := 0; k < 32; k++ {
			probes = append(probes, Case{Kind: "cdag", Fam: "dag", Ar: ar, Note: "cdag-probe", Pre: pre, Thr: thr, PSeed: uint64(3000 + k)})
		}
	}
	cd(1, []string{"K0:", "K1:0", "K2:1", "K3:1", "Dp0", "Dp1", "Db0", "Da0"}, rep(3, "K1:", "K1:0"), rep(6, "C2"), rep(6, "C3"), rep(6, "C2"))
	cd(1, []string{"K0:", "K1:0", "K2:1", "K3:1", "Dp0", "Dp1", "Db0", "Da0"}, []string{"K4:1", "K5:4", "K6:", "K7:65"}, rep(6, "C2"), rep(6, "C3"), rep(6, "C1"))
	cd(1, []string{"K0:", "K1:0", "K2:0", "K3:12", "K4:3", "Dp1", "Dp2", "Db1", "Db2", "Da1", "Da2"}, rep(3, "K3:21", "K3:12"), rep(6, "C4"), rep(6, "C1"), rep(6, "C4"))
	cd(2, []string{"K0:", "K1:0", "K2:1", "Dp00", "Dp10", "Db01", "Dat1"}, rep(3, "K1:", "K1:0"), rep(5, "C22"), rep(5, "C20"), rep(5, "C02"))
	// two definers, two arguments
	cp(2, []string{"Dp00", "Db10"}, rep(3, "Da00", "Ra00", "Db00"), rep(3, "Rb10", "Db10", "Dp10"), rep(5, "C33"), rep(5, "C13"), rep(5, "C31"))
}

// randSupers picks 0..2 direct superclasses among the classes below k.
func randSupers(r *rand.Rand, k int) []int {
	if k == 0 {
		return nil
	}
	n := []int{0, 1, 1, 1, 2, 2}[r.IntN(6)]
	if k < n {
		n = k
	}
	var sup []int
	for len(sup) < n {
		c := r.IntN(k)
		dup := false
		for _, e := range sup {
			dup = dup || e == c
		}
		if !dup {
			sup = append(sup, c)
		}
	}
	return sup
}

// genDag: a history over a generic function whose argument classes form a
// DAG that the history itself redefines: after the cache has been warmed by
// calls on several classes a class gets another superclass list (superclass
// added, removed, reordered) or a new class is defined, then the classes are
// called again in random order. The oracle takes the precedence lists slip
// reports at the time of each call.
func genDag(r *rand.Rand) Case {
	ar := []int{1, 1, 1, 1, 1, 2, 2, 2, 2, 3}[r.IntN(10)]
	c := Case{Kind: "seq", Fam: "dag", Ar: ar, Note: "dag", Sweep: ar < 3 || r.IntN(3) == 0, Retained: r.IntN(4) == 0, Bare: r.IntN(2) == 0}
	nCls := 3 + r.IntN(3)
	supers := map[int][]int{}
	for k := 0; k < nCls; k++ {
		supers[k] = randSupers(r, k)
		if k == 1 || (1 < k && len(supers[k]) == 0 && r.IntN(3) != 0) {
			supers[k] = []int{r.IntN(k)}
		}
		c.Ops = append(c.Ops, classOp(k, supers[k]))
	}
	spec := func() []int {
		s := make([]int, ar)
		for i := range s {
			if r.IntN(5) == 0 || (2 < ar && r.IntN(2) == 0) {
				s[i] = ref.T
			} else {
				s[i] = r.IntN(nCls)
			}
		}
		return s
	}
	args := func() []int {
		a := make([]int, ar)
		for i := range a {
			if r.IntN(12) == 0 {
				a[i] = ref.Out
			} else {
				a[i] = r.IntN(nCls)
			}
		}
		return a
	}
	st := ref.New()
	for k := 2 + r.IntN(4); 0 < k; k-- {
		q := allQuals[r.IntN(4)]
		if k%2 == 0 {
			q = ref.Primary
		}
		sp := spec()
		st.Define(&ref.Method{Qual: q, Spec: sp})
		c.Ops = append(c.Ops, defOp(q, sp, 0))
	}
	n := 8 + r.IntN(18)
	for len(c.Ops) < nCls+n {
		switch k := r.IntN(20); {
		case k < 10:
			c.Ops = append(c.Ops, callOp(args()))
		case k < 12:
			if c.Retained {
				c.Ops = append(c.Ops, origCallOp(args()))
			} else {
				c.Ops = append(c.Ops, callOp(args()))
			}
		case k < 14:
			q := allQuals[r.IntN(4)]
			sp := spec()
			st.Define(&ref.Method{Qual: q, Spec: sp})
			c.Ops = append(c.Ops, defOp(q, sp, []int{0, 0, 2, 5}[r.IntN(4)]))
		case k < 15:
			var ms []*ref.Method
			for _, m := range st.M {
				ms = append(ms, m)
			}
			if 0 < len(ms) {
				sortMethods(ms)
				m := ms[r.IntN(len(ms))]
				st.Remove(m.Qual, m.Spec)
				c.Ops = append(c.Ops, remOp(m.Qual, m.Spec))
			}
		case k < 19:
			// warm the cache on a few classes, redefine one, call again
			for w := 2 + r.IntN(3); 0 < w; w-- {
				c.Ops = append(c.Ops, callOp(args()))
			}
			cl := r.IntN(nCls)
			sup := randSupers(r, cl)
			if old := supers[cl]; len(old) == 2 && r.IntN(3) == 0 {
				sup = []int{old[1], old[0]} // reorder
			}
			supers[cl] = sup
			c.Ops = append(c.Ops, classOp(cl, sup))
			for w := 2 + r.IntN(3); 0 < w; w-- {
				c.Ops = append(c.Ops, callOp(args()))
			}
		default:
			if nCls < 7 {
				supers[nCls] = randSupers(r, nCls)
				c.Ops = append(c.Ops, classOp(nCls, supers[nCls]))
				nCls++
			}
		}
	}
	return c
}

func gen(r *rand.Rand, i int, tier string) Case {
	s := tierSizes(tier)
	if i < s.probes {
		return probes[i]
	}
	i -= s.probes
	if i < s.park {
		return parkCases[i]
	}
	i -= s.park
	if i < s.conc {
		return genConc(r, i, tier)
	}
	i -= s.conc
	if i < s.cdag {
		return genCDag(r)
	}
	i -= s.cdag
	if i < s.dag {
		return genDag(r)
	}
	i -= s.dag
	fam := []string{"clos", "clos", "clos", "clos", "dia", "dia", "num"}[r.IntN(7)]
	ar := 1 + r.IntN(2)
	if r.IntN(8) == 0 {
		ar = 3 // three required arguments, often only some of them specialised
	}
	// one history in four starts from methods given as :method options of defgeneric
	var pre []string
	if r.IntN(4) == 0 {
		for k := 1 + r.IntN(3); 0 < k; k-- {
			pre = append(pre, defOp(allQuals[r.IntN(4)], randSpec(r, ar), 0))
		}
	}
	if i < s.long {
		return Case{Kind: "seq", Fam: fam, Ar: ar, Note: "long", Pre: pre, InGF: pre != nil, Ops: genHistory(r, fam, ar, 200, pre), Sweep: true, Bare: pre == nil && r.IntN(2) == 0}
	}
	i -= s.long
	if i < s.short {
		return Case{Kind: "seq", Fam: fam, Ar: ar, Note: "len7", Pre: pre, InGF: pre != nil, Ops: genHistory(r, fam, ar, 3+r.IntN(5), pre), Sweep: r.IntN(2) == 0, Bare: pre == nil && r.IntN(2) == 0}
	}
	i -= s.short
	return genExh(i, tier)
}

func exec(x *fw.Ctx, c Case) {
	x.Cover("kind:" + c.Kind + "/" + c.Note)
	switch c.Kind {
	case "seq":
		execSeq(x, c)
	case "conc":
		execConc(x, c)
	case "park":
		execPark(x, c)
	case "cdag":
		execCDag(x, c)
	default:
		x.Fail("harness-bad-case", "unknown kind %q", c.Kind)
	}
}

func init() {
	fw.Register(fw.Spec[Case]{
		ID: "C10",
		Rule: "a case is a history of defmethod / remove-method / call (and, in the dag family, defclass) on one fresh generic function with 1, 2 or 3 required arguments, " +
			"some of them unspecialised (written (x t) or as a bare symbol); argument classes: a chain of 4 defclass classes, a 4-class diamond, real>rational>integer>fixnum, plus t and an unrelated class, " +
			"or (dag family) a per-case DAG of 3-7 classes that the history redefines. Every call is judged against a cache-free reference dispatcher (ordered trace, value, condition); " +
			"in the dag family the reference takes the class precedence list slip reports for each argument at the time of the call. " +
			"Blocks: fixed probes (fast path 0->1->2->1 methods, :around body variants, stacked :around, three arguments, unspecialised parameters, class redefinition after the cache was warmed on several " +
			"subclasses: superclass removed / added / reordered, new class, every class called afterwards in both orders, instances that outlive their class, a class waiting for an undefined superclass; " +
			"concurrent probe shapes incl. the fast path 0->1->2->1->0 with calls in flight, each run race-detector-only and porcupine-checked; defclass with calls in flight); " +
			"directed interleavings (caller parked between effective-method lookup, or default-caller pick, and execution while definitions change); concurrent histories (<= 8 goroutines, <= 30 ops, " +
			"porcupine-checked, one in five around the single-method fast path); concurrent class definition histories (one goroutine evaluates defclass, the others call: each call must match the precedence " +
			"list its argument had before, between or after the definitions, and calls made after the join must match the final lists); random class redefinition histories (dag family, 10-35 ops, final sweep); " +
			"random histories of 200 ops and of length <= 7 over the full alphabet (one in four starting from :method options of defgeneric, one in two with bare-symbol parameters); " +
			"then ALL histories of length 4 (quick) / 5 (thorough) ending in a call over nine 15-symbol alphabets (2 qualifiers x 3 specializer tuples x define/remove, 3 call tuples). " +
			"distinct = distinct case JSON; non-trivial = at least one judged call and one change of the method table or class graph. " +
			"Minority treatment of the listed finding 'cache keyed by class name': instances retained across a redefinition of their own class are called in 1/4 of the dag histories; " +
			"concurrent callers use instances of classes the definer does not replace itself. A worker death or hang is a violation (crash:/hang: signature).",
		N:        nCases,
		Gen:      gen,
		Exec:     exec,
		Init:     initWorld,
		Race:     true,
		Batch:    750,
		HangSecs: 60,
		// a worker death (e.g. the Go runtime's fatal 'concurrent map read and
		// map write') or a hang is a violation, matched against crash:/hang: signatures
		CrashIsViolation: true,
		Assumptions: []string{
			"the reference dispatcher (internal/c10/ref, written from the property statement and design/generics.md) is the trusted oracle",
			"defclass chains give the class precedence list leaf..root, standard-object, t (checked by C12)",
			"call-next-method is generated only in :around methods (slip dialect, design/generics.md)",
			"when methods are applicable but no primary method is, both ANSI behaviour (error, nothing run) and slip's (run the daemons) are accepted",
			"dag family: the class precedence list of an argument is what (class-precedence (class-of x)) reports at the time of the call (its correctness is C12's concern); instances made before a redefinition keep the original class (defclass documentation)",
		},
	})
}
