// Package c13 monitors package visibility: after every step of a history of
// package operations, every name is resolved from every package in the real
// interpreter (unqualified, pkg:name, pkg::name; variables and functions) and
// compared with a reference model that recomputes visibility from the
// use/export graph (verif/internal/c13/model).
package c13

import (
	"fmt"
	"math/rand/v2"
	"os"
	"runtime/debug"
	"sort"
	"strings"

	"github.com/ohler55/slip"

	"verif/internal/c13/model"
	"verif/internal/fw"
	"verif/internal/sl"
)

// Case is one history. Init packages exist at the start (each created with
// (defpackage 'p (:use "cl")) and the history starts in package 0; Slots is
// the number of package names the history may create.
type Case struct {
	Mode string     `json:"m"` // exh | short | long | probe
	Init int        `json:"i"`
	Ops  []model.Op `json:"o"`
	// Strict: a probe history that holds on the tree although it passes
	// through an avoided class; a departure in it is reported with root=-
	// (new) instead of being counted under that class's finding.
	Strict bool `json:"s,omitempty"`
}

const slots = 3

var (
	varNames = []string{"v0", "v1"}
	funNames = []string{"f0", "f1"}
	allNames = []string{"v0", "v1", "f0", "f1"}
)

// ---------------------------------------------------------------------------
// bounded-exhaustive enumeration, reduced by the symmetry of renaming packages
// and names: a history is canonical when packages other than the start
// package and the names of each kind are first mentioned in index order.

type cstate struct{ cur, a, b, c int } // a: highest package index mentioned, b/c: number of var/func names mentioned

func min(a, b int) int {
	if a < b {
		return a
	}
	return b
}

func max(a, b int) int {
	if a < b {
		return b
	}
	return a
}

type cop struct {
	op   model.Op
	next cstate
}

// alphabet lists the operations allowed in canonical state st, in a fixed order.
func alphabet(st cstate) (out []cop) {
	pk := func(k string) {
		for q := 0; q <= min(st.a+1, slots-1); q++ {
			if q == st.cur {
				continue
			}
			n := st
			n.a = max(st.a, q)
			if k == "in" {
				n.cur = q
			}
			out = append(out, cop{model.Op{K: k, P: q}, n})
		}
	}
	vn := func(k string) {
		for j := 0; j <= min(st.b, len(varNames)-1); j++ {
			n := st
			n.b = max(st.b, j+1)
			out = append(out, cop{model.Op{K: k, N: varNames[j]}, n})
		}
	}
	fn := func(k string) {
		for j := 0; j <= min(st.c, len(funNames)-1); j++ {
			n := st
			n.c = max(st.c, j+1)
			out = append(out, cop{model.Op{K: k, N: funNames[j]}, n})
		}
	}
	pk("in")
	pk("use")
	pk("unuse")
	vn("export")
	fn("export")
	vn("unexport")
	fn("unexport")
	vn("setq")
	vn("defvar")
	fn("defun")
	vn("makunbound")
	fn("fmakunbound")
	return
}

var countMemo = map[[5]int]int{}

func countFrom(st cstate, l int) int {
	if l == 0 {
		return 1
	}
	key := [5]int{st.cur, st.a, st.b, st.c, l}
	if n, ok := countMemo[key]; ok {
		return n
	}
	n := 0
	for _, o := range alphabet(st) {
		n += countFrom(o.next, l-1)
	}
	countMemo[key] = n
	return n
}

func unrank(l, k int) []model.Op {
	st := cstate{}
	ops := make([]model.Op, 0, l)
	for ; 0 < l; l-- {
		for _, o := range alphabet(st) {
			n := countFrom(o.next, l-1)
			if k < n {
				ops = append(ops, o.op)
				st = o.next
				break
			}
			k -= n
		}
	}
	return ops
}

func exhLen(tier string) int {
	if tier == "thorough" {
		return 5
	}
	return 4
}

func exhCount(tier string) int {
	n := 0
	for l := 1; l <= exhLen(tier); l++ {
		n += countFrom(cstate{}, l)
	}
	return n
}

// ---------------------------------------------------------------------------
// deterministic probe block: hand-written histories, the same for every seed,
// one or more per construct the exhaustive depth does not reach (each avoided
// class is re-observed here on every run, and so is its clean neighbourhood).
// Syntax: "<init>| op; op; ..." with ops "in 1", "use 1", "unuse 1",
// "export v0", "unexport v0", "setq v0", "defvar v0", "defun f0",
// "makunbound v0", "fmakunbound f0", "import 1 f0",
// "defpackage 2 u=0,1 e=v0,f0".

var probes = []string{
	// plain visibility life cycle, variables and functions
	"3| setq v0; export v0; in 1; use 0; in 0; setq v0; unexport v0; export v0; in 1; in 2; use 1",
	"3| defun f0; export f0; in 1; use 0; in 0; defun f0; unexport f0; export f0; in 1; in 2; use 1",
	"3| setq v0; defun f0; export v0; export f0; in 1; use 0; in 2; use 0; in 0; unexport v0; unexport f0",
	"3| in 1; setq v0; setq v1; export v0; in 2; defun f0; defun f1; export f1; in 0; use 1; use 2; setq v0; defun f1",
	"3| use 1; use 2; in 1; setq v0; export v0; in 2; defun f0; export f0; in 0; in 1; makunbound v0; in 2; unexport f0",
	"2| setq v0; export v0; defun f0; export f0; defpackage 2 u=0; in 2; setq v1; defun f1; in 0",
	"1| setq v0; defpackage 1; defpackage 2 u=1; in 1; setq v0; export v0; in 2; in 0; use 1",
	// two used packages export the same name
	"3| setq v0; export v0; in 1; setq v0; export v0; in 2; use 0; use 1",
	// the avoided classes
	"3| use 1; defun f0; unuse 1",
	"3| defun f0; unuse 1",
	"3| setq v0; in 1; setq v0; export v0; in 0; use 1",
	"3| defun f0; in 1; defun f0; export f0; in 0; use 1",
	"3| setq v0; export v0; in 1; use 0; in 2; use 1",
	"2| setq v0; export v0; in 1; use 0; defpackage 2 u=1",
	"2| defpackage 2 e=f0; use 2; in 2; defun f0",
	"2| defpackage 2 u=0 e=f0; use 2; in 2; defun f0",
	"3| use 1; in 1; export f0; defun f0",
	"3| use 1; use 2; in 1; defun f0; export f0; setq v0; export v0; in 2; defun f0; export f0; in 0; in 1; unexport f0; in 0",
	"3| setq v0; export v0; in 1; use 0; unexport v0",
	"3| defun f0; export f0; in 1; use 0; unexport f0",
	"3| in 2; use 0; use 1; in 0; setq v0; export v0; in 1; setq v0; export v0; in 0; unexport v0",
	"3| use 1; in 1; setq v0; setq v0",
	"3| use 1; in 2; use 0; in 1; setq v1; export v1; in 0; setq v1",
	"3| defun f0; export f0; in 1; use 0; defun f0; in 0; unexport f0",
	"3| setq v0; export v0; in 1; use 0; makunbound v0",
	"3| defun f0; export f0; in 1; use 0; fmakunbound f0",
	"3| defun f0; export f0; in 1; use 0; in 0; fmakunbound f0",
	"3| use 1; setq v0; in 1; setq v0; export v0; in 0; makunbound v0",
	"3| use 1; defun f0; in 1; defun f0; export f0; in 0; fmakunbound f0",
	"3| in 2; use 0; use 1; in 0; setq v0; export v0; in 1; setq v0; export v0; in 0; makunbound v0",
	"3| in 1; defun f0; export f0; in 0; import 1 f0",
	"3| in 1; setq v0; in 0; import 1 v0; in 1; setq v0",
	"3| in 1; defun f1; export f1; fmakunbound f1; in 2; use 1; in 1; defun f1; unexport f1; in 2; defun f1",
	// export / unexport / define orderings on names that are not defined yet,
	// seen from a package that uses the defining one. They pass through the
	// avoided class export/undefined but hold on the tree: strict (a departure
	// here is new, e.g. a defun that inherits a stale export flag).
	"!3| in 1; use 0; in 0; export f0; unexport f0; defun f0",
	"!3| in 1; use 0; in 0; export f0; defun f0; unexport f0",
	"!3| in 1; use 0; in 0; export f0; defun f0",
	"!3| in 1; use 0; in 0; export f0; unexport f0; defun f0; export f0; unexport f0",
	"!3| in 1; use 0; in 0; export f0; unexport f0; defun f0; fmakunbound f0; defun f0",
	"!3| export f0; unexport f0; defun f0; in 1; use 0",
	"!3| export f0; defun f0; unexport f0; in 1; use 0",
	"!3| export f0; defun f0; in 1; use 0",
	"!3| in 1; use 0; in 0; export v0; unexport v0; defvar v0",
	"!3| in 1; use 0; in 0; export v0; defvar v0; unexport v0",
	"!3| in 1; use 0; in 0; export v0; defvar v0",
	"!3| in 1; use 0; in 0; export v0; unexport v0; setq v0",
	"!3| in 1; use 0; in 0; export v0; setq v0; unexport v0",
	"!3| in 1; use 0; in 0; export v0; unexport v0; setq v0; export v0; unexport v0",
	"!3| export v0; unexport v0; defvar v0; in 1; use 0",
	"!3| export v0; defvar v0; unexport v0; in 1; use 0",
	"!3| export v0; unexport v0; setq v0; in 1; use 0",
	"!3| export v0; setq v0; in 1; use 0",
	// the Go-level (*Package).Import: import then unuse, redefinition in the
	// home package, assignment through the import, not passed on to users
	"3| in 1; setq v0; in 0; import 1 v0; use 1; unuse 1",
	"3| in 1; setq v0; export v0; in 0; use 1; import 1 v0; unuse 1",
	"3| in 1; setq v0; in 0; import 1 v0; in 1; setq v0; in 0",
	"3| in 1; setq v0; in 0; import 1 v0; in 1; makunbound v0; setq v0; in 0",
	"3| in 1; defun f0; in 0; import 1 f0; in 1; defun f0; in 0",
	"3| in 1; defun f0; in 0; import 1 f0; in 1; fmakunbound f0; defun f0; in 0",
	"3| in 1; setq v0; in 0; import 1 v0; setq v0; in 1",
	"3| in 1; setq v0; defun f0; in 0; import 1 v0; import 1 f0; in 2; use 0",
	"3| in 1; setq v0; in 0; import 1 v0; in 1; unintern v0; in 0",
	// documented package functions outside the property's list
	"3| in 1; setq v0; export v0; in 0; use 1; delete 1; unuse 1; delete 1; defpackage 1; in 1; setq v1; in 0",
	"3| in 1; setq v0; export v0; defun f0; export f0; in 0; use 1; rename 1; in 1; setq v0; rename 1; in 0; unuse 1",
	"3| intern v0; in 1; setq v0; export v0; in 0; use 1; unintern v0; setq v0; unintern v0",
	"3| in 1; setq v0; export v0; in 0; use 1; intern v0; unintern v0",
	// a used package exports a name it does not define; the user unuses some
	// package (used or never used) and then defines the name itself; a third
	// package uses the user: the definition is the user's own and private
	"!3| in 1; export v0; in 0; use 1; unuse 2; setq v0; in 2; use 0; in 1; setq v0; in 0",
	"!3| in 1; export v0; in 0; use 1; unuse 2; defvar v0; in 2; use 0; in 1; setq v0; in 0",
	"!3| in 1; export f0; in 0; use 1; unuse 2; defun f0; in 2; use 0; in 1; defun f0; in 0",
	"!3| in 1; export v0; export f0; in 0; use 1; use 2; unuse 2; setq v0; defun f0; in 2; use 0",
	"!3| in 1; export v0; export f0; in 0; use 2; use 1; unuse 2; defvar v0; defun f0; in 2; use 0; in 1; setq v0; defun f0",
	"!3| in 1; export v0; export f0; in 0; use 1; setq v0; defun f0; in 2; use 0",
	// a symbol that exists (interned, unexported) before its definition
	"3| in 1; use 0; in 0; intern f0; defun f0; in 1",
	"3| intern f0; defun f0; in 1; use 0",
	"3| in 1; use 0; in 0; intern v0; defvar v0; in 1",
	"3| in 1; use 0; in 0; intern f0; export f0; defun f0; unexport f0; fmakunbound f0; intern f0; defun f0",
}

func parseProbe(src string) Case {
	c := Case{Mode: "probe"}
	if rest, strict := strings.CutPrefix(src, "!"); strict {
		c.Strict = true
		src = rest
	}
	head, body, _ := strings.Cut(src, "|")
	fmt.Sscan(head, &c.Init)
	for _, part := range strings.Split(body, ";") {
		f := strings.Fields(part)
		if len(f) == 0 {
			continue
		}
		op := model.Op{K: f[0]}
		switch f[0] {
		case "in", "use", "unuse", "delete", "rename":
			fmt.Sscan(f[1], &op.P)
		case "import":
			fmt.Sscan(f[1], &op.P)
			op.N = f[2]
		case "defpackage":
			fmt.Sscan(f[1], &op.P)
			for _, o := range f[2:] {
				if v, ok := strings.CutPrefix(o, "u="); ok {
					for _, u := range strings.Split(v, ",") {
						var q int
						fmt.Sscan(u, &q)
						op.Use = append(op.Use, q)
					}
				}
				if v, ok := strings.CutPrefix(o, "e="); ok {
					op.Exp = strings.Split(v, ",")
				}
			}
		default:
			op.N = f[1]
		}
		c.Ops = append(c.Ops, op)
	}
	return c
}

// ---------------------------------------------------------------------------
// sizes

func nShort(tier string) int {
	if tier == "thorough" {
		return 60000
	}
	return 12000
}

func nLong(tier string) int {
	if tier == "thorough" {
		return 6000
	}
	return 1200
}

func nCases(tier string) int {
	return len(probes) + exhCount(tier) + nShort(tier) + nLong(tier)
}

// ---------------------------------------------------------------------------
// avoid set: operation classes named by open known findings.

type avoidSet struct {
	exact  map[string]bool
	prefix []string
}

// has tells whether an operation class is named by an open known finding.
func (a *avoidSet) has(cls string) bool {
	if a.exact[cls] {
		return true
	}
	for _, p := range a.prefix {
		if strings.HasPrefix(cls, p) {
			return true
		}
	}
	return false
}

func (a *avoidSet) list() []string {
	out := append([]string{}, a.prefix...)
	for i := range out {
		out[i] += "*"
	}
	for k := range a.exact {
		out = append(out, k)
	}
	sort.Strings(out)
	return out
}

var avoid *avoidSet

// dirty loads the avoid set: the root classes of the open known findings of
// C13 ("root=<class> *" names one class, "root=<prefix>*" a family).
func dirty() *avoidSet {
	if avoid != nil {
		return avoid
	}
	avoid = &avoidSet{exact: map[string]bool{}}
	root := os.Getenv("VERIF_ROOT")
	if root == "" {
		root = "."
	}
	for _, f := range fw.LoadFindings(root+"/known_findings.json", "C13") {
		if !f.Open() {
			continue
		}
		flds := strings.Fields(f.Signature)
		if len(flds) == 0 {
			continue
		}
		v, ok := strings.CutPrefix(flds[0], "root=")
		if !ok || v == "" || v == "-" {
			continue
		}
		if p, isPrefix := strings.CutSuffix(v, "*"); isPrefix {
			avoid.prefix = append(avoid.prefix, p)
		} else {
			avoid.exact[v] = true
		}
	}
	return avoid
}

// ---------------------------------------------------------------------------
// random histories

var opKinds = []struct {
	k string
	w int
}{
	{"in", 10}, {"use", 10}, {"unuse", 7}, {"export", 12}, {"unexport", 7},
	{"setq", 10}, {"defvar", 4}, {"defun", 10}, {"makunbound", 5}, {"fmakunbound", 5},
	{"defpackage", 6},
}

// extKinds are only generated in histories with extended operations:
// documented package functions outside the property's list and the Go-level
// (*Package).Import.
var extKinds = []struct {
	k string
	w int
}{
	{"import", 6}, {"delete", 3}, {"rename", 3}, {"intern", 3}, {"unintern", 3},
}

func randOp(r *rand.Rand, w *model.World, ext bool) model.Op {
	total := 0
	for _, ok := range opKinds {
		total += ok.w
	}
	if ext {
		for _, ok := range extKinds {
			total += ok.w
		}
	}
	x := r.IntN(total)
	k := ""
	for _, ok := range opKinds {
		if x < ok.w {
			k = ok.k
			break
		}
		x -= ok.w
	}
	if k == "" {
		for _, ok := range extKinds {
			if x < ok.w {
				k = ok.k
				break
			}
			x -= ok.w
		}
	}
	op := model.Op{K: k}
	switch k {
	case "in", "use", "unuse", "import", "delete", "rename":
		op.P = r.IntN(slots)
		if k == "import" {
			op.N = fw.Pick(r, allNames)
		}
	case "export", "unexport":
		op.N = fw.Pick(r, allNames)
	case "setq", "defvar", "makunbound", "unintern":
		op.N = fw.Pick(r, varNames)
	case "intern":
		op.N = fw.Pick(r, allNames) // a function name too: the symbol exists before its defun
	case "defun", "fmakunbound":
		op.N = fw.Pick(r, funNames)
	case "defpackage":
		op.P = r.IntN(slots)
		for _, q := range w.Existing() {
			if r.IntN(3) == 0 {
				op.Use = append(op.Use, q)
			}
		}
		for _, n := range allNames {
			if r.IntN(3) == 0 {
				op.Exp = append(op.Exp, n)
			}
		}
	}
	return op
}

// genRandom builds a history of n steps by simulating the model: operations
// the property does not determine are not generated, and at most the
// operation classes in allow may be taken from the avoid set.
func genRandom(r *rand.Rand, n, init int, allow map[string]bool, ext bool) Case {
	w := model.New(slots, init)
	c := Case{Init: init}
	d := dirty()
	for step := 0; len(c.Ops) < n && step < n*20; step++ {
		op := randOp(r, w, ext)
		cls, ok := w.Classify(op)
		if !ok {
			continue
		}
		if d.has(cls) && !allow[avoidKey(d, cls)] {
			continue
		}
		if !w.ExpectError(op) {
			w.Apply(op, len(c.Ops)+1, len(c.Ops)+1)
		}
		c.Ops = append(c.Ops, op)
	}
	return c
}

// avoidKey names the avoid-set entry a class falls under.
func avoidKey(a *avoidSet, cls string) string {
	if a.exact[cls] {
		return cls
	}
	for _, p := range a.prefix {
		if strings.HasPrefix(cls, p) {
			return p + "*"
		}
	}
	return ""
}

func gen(r *rand.Rand, i int, tier string) Case {
	if i < len(probes) {
		return parseProbe(probes[i])
	}
	i -= len(probes)
	ne := exhCount(tier)
	// the long histories are spread evenly over the index space so that every
	// worker batch gets its share of them
	nl := nLong(tier)
	stride := (nCases(tier) - len(probes)) / nl
	if i%stride == 0 && i/stride < nl {
		i = ne + nShort(tier) + i/stride
	} else {
		i -= min((i+stride-1)/stride, nl)
	}
	if i < ne {
		for l := 1; l <= exhLen(tier); l++ {
			n := countFrom(cstate{}, l)
			if i < n {
				return Case{Mode: "exh", Init: slots, Ops: unrank(l, i)}
			}
			i -= n
		}
	}
	i -= ne
	// which avoided classes this history may contain: none for most, one for some
	allow := map[string]bool{}
	if keys := dirty().list(); 0 < len(keys) && r.IntN(4) == 0 {
		allow[fw.Pick(r, keys)] = true
	}
	if i < nShort(tier) {
		// lengths 5..8: the part of the stated bound beyond the exhaustive depth, sampled
		c := genRandom(r, 5+r.IntN(4), slots, allow, r.IntN(4) == 0)
		c.Mode = "short"
		return c
	}
	n := []int{12, 25, 50, 100, 200, 200}[r.IntN(6)]
	c := genRandom(r, n, 1+r.IntN(slots), allow, r.IntN(3) == 0)
	c.Mode = "long"
	return c
}

// ---------------------------------------------------------------------------
// the real interpreter

var seq int

type world struct {
	scope *slip.Scope
	names [slots]string
	evals int
	forms map[string]slip.Code // observation forms, read once per history
}

func (rw *world) eval(src string) (slip.Object, *sl.Err) {
	rw.evals++
	return sl.Eval(rw.scope, src)
}

// query evaluates an observation form (a symbol, a call without arguments or
// a predicate on a quoted symbol); the text is read once per history.
func (rw *world) query(src string) (result slip.Object, err *sl.Err) {
	rw.evals++
	code, ok := rw.forms[src]
	if !ok {
		if err = sl.Catch(func() { code = slip.ReadString(src, rw.scope) }); err != nil {
			return nil, err
		}
		rw.forms[src] = code
	}
	err = sl.Catch(func() { result = code.Eval(rw.scope, nil) })
	return
}

func (rw *world) render(op model.Op, val int) string {
	switch op.K {
	case "in":
		return fmt.Sprintf("(in-package '%s)", rw.names[op.P])
	case "use":
		return fmt.Sprintf("(use-package '%s)", rw.names[op.P])
	case "unuse":
		return fmt.Sprintf("(unuse-package '%s)", rw.names[op.P])
	case "export":
		return fmt.Sprintf("(export '%s)", op.N)
	case "unexport":
		return fmt.Sprintf("(unexport '%s)", op.N)
	case "setq":
		return fmt.Sprintf("(setq %s %d)", op.N, val)
	case "defvar":
		return fmt.Sprintf("(defvar %s %d)", op.N, val)
	case "defun":
		return fmt.Sprintf("(defun %s () %d)", op.N, val)
	case "makunbound":
		return fmt.Sprintf("(makunbound '%s)", op.N)
	case "fmakunbound":
		return fmt.Sprintf("(fmakunbound '%s)", op.N)
	case "defpackage":
		var b strings.Builder
		fmt.Fprintf(&b, "(defpackage '%s (:use \"cl\"", rw.names[op.P])
		for _, u := range op.Use {
			fmt.Fprintf(&b, " %q", rw.names[u])
		}
		b.WriteString(")")
		if 0 < len(op.Exp) {
			b.WriteString(" (:export")
			for _, n := range op.Exp {
				fmt.Fprintf(&b, " %q", n)
			}
			b.WriteString(")")
		}
		b.WriteString(")")
		return b.String()
	case "import":
		return fmt.Sprintf("#go: (*Package %s).Import(%s, %q)", "current", rw.names[op.P], op.N)
	case "delete":
		return fmt.Sprintf("(delete-package '%s)", rw.names[op.P])
	case "rename":
		return fmt.Sprintf("(rename-package '%s '%sr%d)", rw.names[op.P], rw.names[op.P], val)
	case "intern":
		return fmt.Sprintf("(intern %q)", op.N)
	case "unintern":
		return fmt.Sprintf("(unintern '%s)", op.N)
	}
	return "?"
}

// outcome of one resolution in slip
type outcome struct {
	bound bool
	val   int
	err   string
}

func (o outcome) String() string {
	switch {
	case o.bound:
		return fmt.Sprint(o.val)
	case o.err != "":
		return "error"
	}
	return "unbound"
}

func (rw *world) resolve(src string) outcome {
	obj, err := rw.query(src)
	if err != nil {
		return outcome{err: err.Class}
	}
	switch to := obj.(type) {
	case slip.Fixnum:
		return outcome{bound: true, val: int(to)}
	}
	if obj == slip.Unbound {
		return outcome{}
	}
	return outcome{bound: true, val: -1}
}

func (rw *world) truth(src string) (bool, bool) {
	obj, err := rw.query(src)
	if err != nil {
		return false, false
	}
	return obj != nil, true
}

type discrepancy struct {
	got, kind, via string
	msg            string
}

// classify names the way an observed outcome departs from the model.
func classify(w *model.World, from int, e model.Expect, o outcome) string {
	if !o.bound {
		if len(e.Must) == 1 && e.Must[0].Pkg == from {
			return "lost-own"
		}
		return "lost-visible"
	}
	pkg, live := w.Live(o.val)
	switch {
	case !live:
		return "stale-visible"
	case 0 < len(e.Must) && e.Must[0].Pkg == from:
		return "own-shadowed"
	case 0 < len(e.Must):
		return "wrong-definition"
	}
	_ = pkg
	return "hidden-visible"
}

// observe resolves every name from every package and returns the first
// departure from the model (in a fixed order), or nil.
func (rw *world) observe(x counter, w *model.World) *discrepancy {
	ex := w.Existing()
	// current package first
	order := []int{w.Cur}
	for _, p := range ex {
		if p != w.Cur {
			order = append(order, p)
		}
	}
	var first *discrepancy
	note := func(d *discrepancy) {
		if first == nil {
			first = d
		}
	}
	for _, p := range order {
		if _, err := rw.eval(fmt.Sprintf("(in-package '%s)", rw.names[p])); err != nil {
			note(&discrepancy{got: "in-package-error", kind: "-", via: "-", msg: err.String()})
			break
		}
		for _, n := range allNames {
			kind := model.KindOf(n)
			e := w.Resolve(p, n)
			var probe, form string
			if kind == model.Var {
				probe, form = fmt.Sprintf("(boundp '%s)", n), n
			} else {
				probe, form = fmt.Sprintf("(fboundp '%s)", n), "("+n+")"
			}
			o := rw.resolve(form)
			x.Cover("resolve:unq:" + kind.String())
			if o.bound {
				x.Cover("seen:bound")
			} else {
				x.Cover("seen:unbound")
			}
			ok := (o.bound && e.Accepts(o.val)) || (!o.bound && e.UnboundOK())
			if !ok {
				note(&discrepancy{got: classify(w, p, e, o), kind: kind.String(), via: "unq",
					msg: fmt.Sprintf("in p%d, %s => %s, model: %s", p, form, o, showExpect(e))})
			}
			if t, tok := rw.truth(probe); !tok || t != o.bound {
				// the predicate must agree with the evaluation
				if ok {
					note(&discrepancy{got: "predicate-disagrees", kind: kind.String(), via: "unq",
						msg: fmt.Sprintf("in p%d, %s => %v but %s => %s", p, probe, t, form, o)})
				}
			}
			for _, q := range ex {
				for vi, sep := range []string{"::", ":"} {
					var qe model.Expect
					via := "int"
					if vi == 0 {
						qe = w.Internal(q, n)
					} else {
						qe = w.External(p, q, n)
						via = "ext"
					}
					qform := rw.names[q] + sep + n
					if kind == model.Fun {
						qform = "(" + qform + ")"
					}
					qo := rw.resolve(qform)
					x.Cover("resolve:" + via + ":" + kind.String())
					if (qo.bound && qe.Accepts(qo.val)) || (!qo.bound && qe.UnboundOK()) {
						continue
					}
					note(&discrepancy{got: classify(w, q, qe, qo), kind: kind.String(), via: via,
						msg: fmt.Sprintf("in p%d, %s => %s, model: %s", p, strings.Replace(qform, rw.names[q], fmt.Sprintf("p%d", q), 1), qo, showExpect(qe))})
				}
			}
		}
		if first != nil {
			break
		}
	}
	if _, err := rw.eval(fmt.Sprintf("(in-package '%s)", rw.names[w.Cur])); err != nil && first == nil {
		first = &discrepancy{got: "in-package-error", kind: "-", via: "-", msg: err.String()}
	}
	return first
}

func showExpect(e model.Expect) string {
	var parts []string
	for _, c := range e.Must {
		parts = append(parts, fmt.Sprintf("%d (definition of p%d)", c.Val, c.Pkg))
	}
	s := strings.Join(parts, " or ")
	if len(e.Must) == 0 {
		s = "unbound/not accessible"
	}
	if 0 < len(e.May) {
		var m []string
		for _, c := range e.May {
			m = append(m, fmt.Sprint(c.Val))
		}
		s += " (also tolerated: " + strings.Join(m, ",") + ")"
	}
	return s
}

func (rw *world) cleanup() {
	sl.Reset()
	for _, name := range rw.names {
		if p := slip.FindPackage(name); p != nil {
			_ = sl.Catch(func() { slip.RemovePackage(p) })
		}
	}
}

// result of running one history against slip and the model
type result struct {
	sig, msg  string // violation, or sig == ""
	step      int    // number of operations executed
	trace     []string
	graph     string
	completed bool
	tainted   bool // an operation of an avoided class was executed
	skipped   bool // exhaustive case whose prefix already departs
}

// counter receives monitor counters; nil when a history is re-run for shrinking.
type counter interface {
	Cover(key string)
	CoverN(key string, n int)
}

type noCount struct{}

func (noCount) Cover(string)       {}
func (noCount) CoverN(string, int) {}

// run executes the history in fresh packages, comparing slip with the model
// after every step (exhaustive cases: before and after the last step), and
// stops at the first departure.
func run(x counter, c Case) (res result) {
	seq++
	rw := &world{scope: slip.NewScope(), forms: map[string]slip.Code{}}
	for i := range rw.names {
		rw.names[i] = fmt.Sprintf("k%dp%d", seq, i)
	}
	defer rw.cleanup()
	w := model.New(slots, c.Init)
	for i := 0; i < c.Init; i++ {
		if _, err := rw.eval(rw.render(model.Op{K: "defpackage", P: i}, 0)); err != nil {
			res.sig, res.msg = "setup-error", "defpackage failed: "+err.String()
			return
		}
	}
	if _, err := rw.eval(rw.render(model.Op{K: "in", P: 0}, 0)); err != nil {
		res.sig, res.msg = "setup-error", "in-package failed: "+err.String()
		return
	}
	d := dirty()
	root := "-"
	defer func() {
		x.CoverN("steps", res.step)
		x.CoverN("slip-evaluations", rw.evals)
		res.graph = w.Summary(allNames)
	}()
	// initial state
	if c.Mode == "exh" && 1 < len(c.Ops) {
		// looked at by the cases of length 1
	} else if dis := rw.observe(x, w); dis != nil {
		res.sig = "root=- after=setup got=" + dis.got + " kind=" + dis.kind + " via=" + dis.via
		res.msg = "fresh packages: " + dis.msg
		return
	}
	for si, op := range c.Ops {
		cls, ok := w.Classify(op)
		if !ok {
			x.Cover("truncated:" + cls)
			return
		}
		val := si + 1
		src := rw.render(op, val)
		res.trace = append(res.trace, src)
		wantErr := w.ExpectError(op)
		wantStatus := ""
		if op.K == "intern" && model.KindOf(op.N) == model.Var {
			wantStatus = internStatus(w, op.N) // slip's intern looks at variables only
		}
		var err *sl.Err
		var value slip.Object
		if op.K == "import" {
			err = sl.Catch(func() { slip.CurrentPackage.Import(slip.FindPackage(rw.names[op.P]), op.N) })
		} else {
			value, err = rw.eval(src)
		}
		var opDis *discrepancy
		switch {
		case wantErr && err == nil:
			opDis = &discrepancy{got: "operation-not-refused", kind: "-", via: "-", msg: src + " must be refused (package still in use)"}
		case wantErr:
			err = nil // refused as documented; nothing changes
		case err != nil:
		case op.K == "rename":
			old := rw.names[op.P]
			rw.names[op.P] = fmt.Sprintf("%sr%d", old, val)
			if t, ok := rw.truth(fmt.Sprintf("(find-package '%s)", old)); !ok || t {
				opDis = &discrepancy{got: "old-name-still-resolves", kind: "-", via: "-", msg: "(find-package '" + old + ") after " + src}
			}
		case wantStatus != "":
			got := "?"
			if vs, ok := value.(slip.Values); ok && len(vs) == 2 {
				got = sl.Show(vs[1])
			}
			if got != wantStatus {
				opDis = &discrepancy{got: "intern-status", kind: "var", via: "unq", msg: fmt.Sprintf("%s => status %s, model: %s", src, got, wantStatus)}
			}
		}
		if !wantErr {
			w.Apply(op, val, val)
		}
		res.step++
		x.Cover("op:" + cls)
		if d.has(cls) {
			x.Cover("avoided-class-executed:" + cls)
			if root == "-" && !c.Strict {
				root = cls
			}
		}
		last := si == len(c.Ops)-1
		var dis *discrepancy
		switch {
		case err != nil:
			dis = &discrepancy{got: "operation-error", kind: "-", via: "-", msg: src + " => " + err.String()}
		case opDis != nil:
			dis = opDis
		case c.Mode == "exh" && si < len(c.Ops)-2:
			// every prefix is a case of its own: an exhaustive case looks at
			// the state before and after its last operation only
			continue
		default:
			dis = rw.observe(x, w)
		}
		if dis == nil {
			continue
		}
		if c.Mode == "exh" && !last {
			// the prefix is a case of its own and reports this
			x.Cover("exh:prefix-already-departs")
			res.skipped = true
			return
		}
		res.sig = fmt.Sprintf("root=%s after=%s got=%s kind=%s via=%s", root, cls, dis.got, dis.kind, dis.via)
		res.msg = fmt.Sprintf("step %d %s: %s", si+1, src, dis.msg)
		return
	}
	res.completed = true
	res.tainted = root != "-"
	return
}

// internStatus is the second value (intern name) must return in the current
// package, or "" where the model leaves it open: :internal for an own
// definition, :inherited for a definition of a used package, nil when nothing
// of that name is accessible.
func internStatus(w *model.World, name string) string {
	c := w.Cur
	pk := w.Pkgs[c]
	if _, own := w.Own(c, name); own {
		return ":internal"
	}
	if pk.Exp[name] != model.No || pk.Interned[name] {
		return ""
	}
	if _, imp := pk.Imp[model.KindOf(name)][name]; imp {
		return ""
	}
	e := w.Resolve(c, name)
	switch {
	case len(e.Must) == 1 && len(e.May) == 0:
		return ":inherited"
	case len(e.Must) == 0 && len(e.May) == 0:
		for _, q := range pk.Uses {
			if w.Pkgs[q].Exp[name] != model.No {
				return ""
			}
		}
		return "nil"
	}
	return ""
}

// shrink removes operations from a failing history while it keeps failing
// with a departure in a history free of avoided classes; the result is only
// used to make the message of a new violation readable.
func shrink(c Case, failStep int) (Case, result) {
	best := Case{Mode: "shrunk", Init: c.Init, Strict: c.Strict, Ops: append([]model.Op{}, c.Ops[:failStep]...)}
	bres := run(noCount{}, best)
	if bres.sig == "" {
		return c, bres
	}
	budget := 100 // re-executions; must stay far below the no-progress watchdog
	chunk := len(best.Ops) / 2
	if chunk < 1 {
		chunk = 1
	}
	for 1 <= chunk && 0 < budget {
		progress := false
		for at := len(best.Ops) - chunk; 0 <= at && 0 < budget; at -= chunk {
			if len(best.Ops) < at+chunk {
				continue
			}
			try := Case{Mode: "shrunk", Init: best.Init, Strict: best.Strict}
			try.Ops = append(try.Ops, best.Ops[:at]...)
			try.Ops = append(try.Ops, best.Ops[at+chunk:]...)
			budget--
			if r := run(noCount{}, try); strings.HasPrefix(r.sig, "root=- ") && r.step == len(try.Ops) {
				best, bres = try, r
				progress = true
			}
		}
		if chunk == 1 {
			if !progress {
				break
			}
			continue
		}
		chunk /= 2
	}
	return best, bres
}

var shrunkInProcess int

func exec(x *fw.Ctx, c Case) {
	if c.Init < 1 || slots < c.Init || len(c.Ops) == 0 {
		x.Trivial()
		return
	}
	x.Cover("mode:" + c.Mode)
	if c.Mode == "short" || c.Mode == "long" {
		for _, a := range dirty().list() {
			x.Cover("avoided:" + a) // kept out of 3/4 of the seeded histories while its finding is open
		}
	}
	res := run(x, c)
	obs := map[string]any{"trace": res.trace, "graph": res.graph}
	x.Observe(obs)
	switch {
	case res.sig != "":
		msg := res.msg + " | history: " + strings.Join(res.trace, " ") + " | model graph: " + res.graph
		if strings.HasPrefix(res.sig, "root=- ") && 6 < res.step && shrunkInProcess < 3 {
			shrunkInProcess++
			if sc, sr := shrink(c, res.step); sr.sig != "" {
				msg = fmt.Sprintf("%s | SHRUNK to %d operations (%s): %s: %s | model graph: %s",
					res.msg, len(sc.Ops), sr.sig, strings.Join(sr.trace, " "), sr.msg, sr.graph)
			}
		}
		x.Fail(res.sig, "%s", msg)
	case res.completed:
		x.Cover("history-completed")
		if res.tainted {
			x.Cover("history-completed:after-an-avoided-class")
		} else {
			x.Cover("history-completed:clean")
		}
	}
	if res.step == 0 {
		x.Trivial()
	}
}

func init() {
	fw.Register(fw.Spec[Case]{
		ID: "C13",
		Rule: "a case is a history of package operations (in-package, use-package, unuse-package, export, unexport, setq, defvar, defun, makunbound, fmakunbound; " +
			"in the long block also defpackage with :use/:export and, in a third of them, delete-package, rename-package, intern, unintern and the Go-level Import) over 3 user packages x 2 variable x 2 function names, run in fresh packages; " +
			"block 0 = 74 hand-written probe histories (seed-independent; the strict ones pass through an avoided class but must hold); " +
			"block 1 = EVERY history of length 1..4 (quick) / 1..5 (thorough) up to renaming of packages and names (bounded-exhaustive: 73 246 / 1 520 638 cases; " +
			"each looks at the state before and after its last operation, its prefixes being cases of their own); " +
			"block 2 = seeded histories of length 5..8 (sampled, NOT exhaustive: the stated bound 8 is only reached this way); " +
			"block 3 = seeded histories of 12..200 steps; blocks 2 and 3 are checked after every step. " +
			"After a step every name is resolved from every package: unqualified (value and boundp/fboundp), p:name and p::name for every p. " +
			"Operation classes named by open known findings (evidence keys avoided:*) are generated in 1/4 of the seeded histories only (one class each); " +
			"a departure after such an operation carries its class as root= in the signature. " +
			"distinct = distinct history; non-trivial = at least one operation was executed and judged",
		N:    nCases,
		Gen:  gen,
		Exec: exec,
		Init: func() {
			debug.SetGCPercent(400)
			_, _ = sl.Eval(slip.NewScope(), "(setq *error-output* (make-broadcast-stream))")
		},
		Batch:    2000,
		HangSecs: 120,
		Assumptions: []string{
			"slip's behaviour is invariant under renaming of packages and names (symmetry reduction of the exhaustive block)",
			"histories are independent: each uses fresh package names and its packages are removed afterwards",
			"the reference model (internal/c13/model) is the trusted oracle; where the statement is silent (re-export of inherited names, export flag after makunbound, name conflicts between used packages) every reading is accepted",
		},
	})
}
