// Package c13 monitors package visibility: after every step of a history of
// package operations, every name is resolved from every package in the real
// interpreter (unqualified, pkg:name, pkg::name; variables and functions) and
// compared with a reference model that recomputes visibility from the
// use/export graph (verif/internal/c13/model).
package c13

import (
	"fmt"
	"math/rand/v2"
	"os"
	"runtime/debug"
	"sort"
	"strings"

	"github.com/ohler55/slip"

	"verif/internal/c13/model"
	"verif/internal/fw"
	"verif/internal/sl"
)

// Case is one history. Init packages exist at the start (each created with
// (defpackage 'p (:use "cl")) and the history starts in package 0; Slots is
// the number of package names the history may create.
type Case struct {
	Mode string     `json:"m"` // exh | short | long | probe
	Init int        `json:"i"`
	Ops  []model.Op `json:"o"`
	// Strict: a probe history that holds on the tree although it passes
	// through an avoided class; a departure in it is reported with root=-
	// (new) instead of being counted under that class's finding.
	Strict bool `json:"s,omitempty"`
	// Dual: the symbol b0, used as a variable AND as a function, is observed
	// too (export and unexport act on both definitions of the symbol).
	Dual bool `json:"d,omitempty"`
	// QSym: qualified symbols are also handed to symbol-value, boundp, fboundp.
	QSym bool `json:"q,omitempty"`
}

const slots = 3

var (
	varNames = []string{"v0", "v1"}
	funNames = []string{"f0", "f1"}
	allNames = []string{"v0", "v1", "f0", "f1"}
)

// dualName is spelled the same for its variable and its function; the model
// keeps them as the two names vb and fb.
const dualName = "b0"

// obsName is one definition looked at by the monitor: its spelling in the
// interpreter, its kind and its name in the model.
type obsName struct {
	spell string
	kind  model.Kind
	mname string
}

var (
	baseObs = []obsName{{"v0", model.Var, "v0"}, {"v1", model.Var, "v1"}, {"f0", model.Fun, "f0"}, {"f1", model.Fun, "f1"}}
	dualObs = append(append([]obsName{}, baseObs...), obsName{dualName, model.Var, "vb"}, obsName{dualName, model.Fun, "fb"})
)

// expand translates an operation of a case into the model operations it
// consists of: export/unexport of a list of names act name by name, an
// operation on the symbol b0 acts on its variable (vb), its function (fb) or,
// for export and unexport, on both. nil: not expressible.
func expand(op model.Op) (out []model.Op) {
	names := []string{op.N}
	if (op.K == "export" || op.K == "unexport") && strings.Contains(op.N, ",") {
		names = strings.Split(op.N, ",")
	}
	for _, n := range names {
		o := op
		o.N = n
		if n == dualName {
			switch op.K {
			case "setq", "defvar", "makunbound":
				o.N = "vb"
			case "defun", "fmakunbound":
				o.N = "fb"
			case "export", "unexport":
				o.N = "vb"
				out = append(out, o)
				o.N = "fb"
			default:
				return nil
			}
		}
		out = append(out, o)
	}
	return
}

// plan is what the model says about an operation before it is executed.
type plan struct {
	cls     string     // names the construct (after= in signatures, op: counters)
	parts   []string   // the classes matched against the avoid set
	ok      bool       // the property determines the outcome
	wantErr bool       // the operation must be refused and change nothing
	subs    []model.Op // model operations to apply
}

func routePrefix(op model.Op) string {
	if op.T == 0 {
		return ""
	}
	switch op.K {
	case "setq", "defvar", "defun", "makunbound", "fmakunbound":
		return "q:" // q::name
	}
	return "pa:" // package argument
}

// sibling tells whether a defining operation creates one kind of the symbol
// b0 while the symbol is exported and the package either defines the other
// kind already ("xs:") or sees the other kind through a package it uses
// ("xp:"); "" otherwise.
func sibling(w *model.World, sub model.Op, cls string) string {
	sib := model.Sibling(sub.N)
	if sib == "" || !strings.HasPrefix(cls, sub.K+"/new") {
		return ""
	}
	t := w.Cur
	if sub.T != 0 {
		t = sub.T - 1
	}
	if _, has := w.Own(t, sib); has {
		if w.Exp(t, sub.N) == model.Yes {
			return "xs:"
		}
		return ""
	}
	// the flag may also be one the model no longer insists on (after
	// makunbound/fmakunbound): the interpreter can still hold the placeholder
	if e := w.Resolve(t, sib); w.Exp(t, sub.N) != model.No && (0 < len(e.Must) || 0 < len(e.May)) {
		return "xp:"
	}
	return ""
}

// homeExported tells whether the definition a q::name form acts on belongs
// to a package that exports the name.
func homeExported(w *model.World, sub model.Op) bool {
	save := w.Cur
	w.Cur = sub.T - 1
	defer func() { w.Cur = save }()
	t, _, _ := w.Target(sub.N)
	return w.Exp(t, sub.N) == model.Yes
}

func planOp(w *model.World, op model.Op) (p plan) {
	if op.K == "defgv" {
		// (defun gv<name> () <name>): a body that reads the variable; no definition of
		// the monitored names changes, whether or not the variable exists yet
		e := w.Resolve(w.Cur, mnameOf(op.N, model.Var))
		switch {
		case len(e.Must) == 1 && len(e.May) == 0:
			p.cls = "defgv/resolved"
		case len(e.Must) == 0 && len(e.May) == 0:
			p.cls = "defgv/forward"
		default:
			p.cls = "defgv/ambiguous"
			return
		}
		p.ok = true
		p.parts = []string{p.cls}
		return
	}
	if op.K == "defg" {
		// (defun g<name> () (<name>)): a body that calls the function; no
		// definition of the monitored names changes
		e := w.Resolve(w.Cur, mnameOf(op.N, model.Fun))
		switch {
		case len(e.Must) == 1 && len(e.May) == 0:
			p.cls = "defg/resolved"
		case len(e.Must) == 0 && len(e.May) == 0:
			p.cls = "defg/forward"
		default:
			p.cls = "defg/ambiguous"
			return
		}
		p.ok = true
		p.parts = []string{p.cls}
		return
	}
	p.subs = expand(op)
	if len(p.subs) == 0 {
		p.cls = op.K + "/unsupported-name"
		return
	}
	mw := w
	if 1 < len(p.subs) {
		mw = w.Clone()
	}
	marker := ""
	for i, sub := range p.subs {
		cls, ok := mw.Classify(sub)
		if !ok {
			p.cls, p.subs = cls, nil
			return
		}
		if m := sibling(mw, sub, cls); m != "" {
			marker = m
		}
		if !contains(p.parts, cls) {
			p.parts = append(p.parts, cls)
		}
		if mw.ExpectError(sub) {
			p.wantErr = true
		}
		if i < len(p.subs)-1 {
			mw.Apply(sub, 0, 0)
		}
	}
	p.ok = true
	p.cls = p.parts[0]
	for _, c := range p.parts[1:] {
		p.cls += "&" + strings.TrimPrefix(c, op.K+"/")
	}
	if rp := routePrefix(op); rp != "" {
		if rp == "q:" && op.K != "makunbound" && op.K != "fmakunbound" && homeExported(w, p.subs[0]) {
			rp = "qx:" // the definition belongs to a package that exports the name
		}
		p.cls = rp + p.cls
		p.parts = append(p.parts, p.cls)
	}
	if marker != "" {
		p.cls = marker + p.cls
		p.parts = append(p.parts, p.cls)
	}
	if op.K == "defun" && op.V%2 == 1 {
		// the name written in upper case (an open finding: it is not folded)
		p.cls = "uc:" + p.cls
		p.parts = append(p.parts, p.cls)
	}
	return
}

func contains(xs []string, x string) bool {
	for _, y := range xs {
		if x == y {
			return true
		}
	}
	return false
}

// commit applies a planned operation to the model.
func commit(w *model.World, p plan, val int) {
	if p.wantErr {
		return
	}
	for _, sub := range p.subs {
		w.Apply(sub, val, val)
	}
}

func mnameOf(spell string, k model.Kind) string {
	if spell == dualName {
		if k == model.Var {
			return "vb"
		}
		return "fb"
	}
	return spell
}

// avoidedPart returns the first class of a plan that is named by an open finding.
func avoidedPart(d *avoidSet, p plan) string {
	for _, c := range p.parts {
		if d.has(c) {
			return c
		}
	}
	return ""
}

// ---------------------------------------------------------------------------
// bounded-exhaustive enumeration, reduced by the symmetry of renaming packages
// and names: a history is canonical when packages other than the start
// package and the names of each kind are first mentioned in index order.

type cstate struct{ cur, a, b, c int } // a: highest package index mentioned, b/c: number of var/func names mentioned

func min(a, b int) int {
	if a < b {
		return a
	}
	return b
}

func max(a, b int) int {
	if a < b {
		return b
	}
	return a
}

type cop struct {
	op   model.Op
	next cstate
}

// alphabet lists the operations allowed in canonical state st, in a fixed order.
func alphabet(st cstate) (out []cop) {
	pk := func(k string) {
		for q := 0; q <= min(st.a+1, slots-1); q++ {
			if q == st.cur {
				continue
			}
			n := st
			n.a = max(st.a, q)
			if k == "in" {
				n.cur = q
			}
			out = append(out, cop{model.Op{K: k, P: q}, n})
		}
	}
	vn := func(k string) {
		for j := 0; j <= min(st.b, len(varNames)-1); j++ {
			n := st
			n.b = max(st.b, j+1)
			out = append(out, cop{model.Op{K: k, N: varNames[j]}, n})
		}
	}
	fn := func(k string) {
		for j := 0; j <= min(st.c, len(funNames)-1); j++ {
			n := st
			n.c = max(st.c, j+1)
			out = append(out, cop{model.Op{K: k, N: funNames[j]}, n})
		}
	}
	pk("in")
	pk("use")
	pk("unuse")
	vn("export")
	fn("export")
	vn("unexport")
	fn("unexport")
	vn("setq")
	vn("defvar")
	fn("defun")
	vn("makunbound")
	fn("fmakunbound")
	return
}

var countMemo = map[[5]int]int{}

func countFrom(st cstate, l int) int {
	if l == 0 {
		return 1
	}
	key := [5]int{st.cur, st.a, st.b, st.c, l}
	if n, ok := countMemo[key]; ok {
		return n
	}
	n := 0
	for _, o := range alphabet(st) {
		n += countFrom(o.next, l-1)
	}
	countMemo[key] = n
	return n
}

func unrank(l, k int) []model.Op {
	st := cstate{}
	ops := make([]model.Op, 0, l)
	for ; 0 < l; l-- {
		for _, o := range alphabet(st) {
			n := countFrom(o.next, l-1)
			if k < n {
				ops = append(ops, o.op)
				st = o.next
				break
			}
			k -= n
		}
	}
	return ops
}

func exhLen(tier string) int {
	if tier == "thorough" {
		return 5
	}
	return 4
}

func exhCount(tier string) int {
	n := 0
	for l := 1; l <= exhLen(tier); l++ {
		n += countFrom(cstate{}, l)
	}
	return n
}

// ---------------------------------------------------------------------------
// deterministic probe block: hand-written histories, the same for every seed,
// one or more per construct the exhaustive depth does not reach (each avoided
// class is re-observed here on every run, and so is its clean neighbourhood).
// Syntax: "<init>| op; op; ..." with ops "in 1", "use 1", "unuse 1",
// "export v0", "unexport v0", "setq v0", "defvar v0", "defun f0",
// "makunbound v0", "fmakunbound f0", "import 1 f0",
// "defpackage 2 u=0,1 e=v0,f0".

var probes = []string{
	// plain visibility life cycle, variables and functions
	"3| setq v0; export v0; in 1; use 0; in 0; setq v0; unexport v0; export v0; in 1; in 2; use 1",
	"3| defun f0; export f0; in 1; use 0; in 0; defun f0; unexport f0; export f0; in 1; in 2; use 1",
	"3| setq v0; defun f0; export v0; export f0; in 1; use 0; in 2; use 0; in 0; unexport v0; unexport f0",
	"3| in 1; setq v0; setq v1; export v0; in 2; defun f0; defun f1; export f1; in 0; use 1; use 2; setq v0; defun f1",
	"3| use 1; use 2; in 1; setq v0; export v0; in 2; defun f0; export f0; in 0; in 1; makunbound v0; in 2; unexport f0",
	"2| setq v0; export v0; defun f0; export f0; defpackage 2 u=0; in 2; setq v1; defun f1; in 0",
	"1| setq v0; defpackage 1; defpackage 2 u=1; in 1; setq v0; export v0; in 2; in 0; use 1",
	// two used packages export the same name
	"3| setq v0; export v0; in 1; setq v0; export v0; in 2; use 0; use 1",
	// the avoided classes
	"3| use 1; defun f0; unuse 1",
	"3| defun f0; unuse 1",
	"3| setq v0; in 1; setq v0; export v0; in 0; use 1",
	"3| defun f0; in 1; defun f0; export f0; in 0; use 1",
	"3| setq v0; export v0; in 1; use 0; in 2; use 1",
	"2| setq v0; export v0; in 1; use 0; defpackage 2 u=1",
	"2| defpackage 2 e=f0; use 2; in 2; defun f0",
	"2| defpackage 2 u=0 e=f0; use 2; in 2; defun f0",
	"3| use 1; in 1; export f0; defun f0",
	"3| use 1; use 2; in 1; defun f0; export f0; setq v0; export v0; in 2; defun f0; export f0; in 0; in 1; unexport f0; in 0",
	"3| setq v0; export v0; in 1; use 0; unexport v0",
	"3| defun f0; export f0; in 1; use 0; unexport f0",
	"3| in 2; use 0; use 1; in 0; setq v0; export v0; in 1; setq v0; export v0; in 0; unexport v0",
	"3| use 1; in 1; setq v0; setq v0",
	"3| use 1; in 2; use 0; in 1; setq v1; export v1; in 0; setq v1",
	"3| defun f0; export f0; in 1; use 0; defun f0; in 0; unexport f0",
	"3| setq v0; export v0; in 1; use 0; makunbound v0",
	"3| defun f0; export f0; in 1; use 0; fmakunbound f0",
	"3| defun f0; export f0; in 1; use 0; in 0; fmakunbound f0",
	"3| use 1; setq v0; in 1; setq v0; export v0; in 0; makunbound v0",
	"3| use 1; defun f0; in 1; defun f0; export f0; in 0; fmakunbound f0",
	"3| in 2; use 0; use 1; in 0; setq v0; export v0; in 1; setq v0; export v0; in 0; makunbound v0",
	"3| in 1; defun f0; export f0; in 0; import 1 f0",
	"3| in 1; setq v0; in 0; import 1 v0; in 1; setq v0",
	"3| in 1; defun f1; export f1; fmakunbound f1; in 2; use 1; in 1; defun f1; unexport f1; in 2; defun f1",
	// export / unexport / define orderings on names that are not defined yet,
	// seen from a package that uses the defining one. They pass through the
	// avoided class export/undefined but hold on the tree: strict (a departure
	// here is new, e.g. a defun that inherits a stale export flag).
	"!3| in 1; use 0; in 0; export f0; unexport f0; defun f0",
	"!3| in 1; use 0; in 0; export f0; defun f0; unexport f0",
	"!3| in 1; use 0; in 0; export f0; defun f0",
	"!3| in 1; use 0; in 0; export f0; unexport f0; defun f0; export f0; unexport f0",
	"!3| in 1; use 0; in 0; export f0; unexport f0; defun f0; fmakunbound f0; defun f0",
	"!3| export f0; unexport f0; defun f0; in 1; use 0",
	"!3| export f0; defun f0; unexport f0; in 1; use 0",
	"!3| export f0; defun f0; in 1; use 0",
	"!3| in 1; use 0; in 0; export v0; unexport v0; defvar v0",
	"!3| in 1; use 0; in 0; export v0; defvar v0; unexport v0",
	"!3| in 1; use 0; in 0; export v0; defvar v0",
	"!3| in 1; use 0; in 0; export v0; unexport v0; setq v0",
	"!3| in 1; use 0; in 0; export v0; setq v0; unexport v0",
	"!3| in 1; use 0; in 0; export v0; unexport v0; setq v0; export v0; unexport v0",
	"!3| export v0; unexport v0; defvar v0; in 1; use 0",
	"!3| export v0; defvar v0; unexport v0; in 1; use 0",
	"!3| export v0; unexport v0; setq v0; in 1; use 0",
	"!3| export v0; setq v0; in 1; use 0",
	// the Go-level (*Package).Import: import then unuse, redefinition in the
	// home package, assignment through the import, not passed on to users
	"3| in 1; setq v0; in 0; import 1 v0; use 1; unuse 1",
	"3| in 1; setq v0; export v0; in 0; use 1; import 1 v0; unuse 1",
	"3| in 1; setq v0; in 0; import 1 v0; in 1; setq v0; in 0",
	"3| in 1; setq v0; in 0; import 1 v0; in 1; makunbound v0; setq v0; in 0",
	"3| in 1; defun f0; in 0; import 1 f0; in 1; defun f0; in 0",
	"3| in 1; defun f0; in 0; import 1 f0; in 1; fmakunbound f0; defun f0; in 0",
	"3| in 1; setq v0; in 0; import 1 v0; setq v0; in 1",
	"3| in 1; setq v0; defun f0; in 0; import 1 v0; import 1 f0; in 2; use 0",
	"3| in 1; setq v0; in 0; import 1 v0; in 1; unintern v0; in 0",
	// documented package functions outside the property's list
	"3| in 1; setq v0; export v0; in 0; use 1; delete 1; unuse 1; delete 1; defpackage 1; in 1; setq v1; in 0",
	"3| in 1; setq v0; export v0; defun f0; export f0; in 0; use 1; rename 1; in 1; setq v0; rename 1; in 0; unuse 1",
	"3| intern v0; in 1; setq v0; export v0; in 0; use 1; unintern v0; setq v0; unintern v0",
	"3| in 1; setq v0; export v0; in 0; use 1; intern v0; unintern v0",
	// a used package exports a name it does not define; the user unuses some
	// package (used or never used) and then defines the name itself; a third
	// package uses the user: the definition is the user's own and private
	"!3| in 1; export v0; in 0; use 1; unuse 2; setq v0; in 2; use 0; in 1; setq v0; in 0",
	"!3| in 1; export v0; in 0; use 1; unuse 2; defvar v0; in 2; use 0; in 1; setq v0; in 0",
	"!3| in 1; export f0; in 0; use 1; unuse 2; defun f0; in 2; use 0; in 1; defun f0; in 0",
	"!3| in 1; export v0; export f0; in 0; use 1; use 2; unuse 2; setq v0; defun f0; in 2; use 0",
	"!3| in 1; export v0; export f0; in 0; use 2; use 1; unuse 2; defvar v0; defun f0; in 2; use 0; in 1; setq v0; defun f0",
	"!3| in 1; export v0; export f0; in 0; use 1; setq v0; defun f0; in 2; use 0",
	// a symbol that exists (interned, unexported) before its definition
	"3| in 1; use 0; in 0; intern f0; defun f0; in 1",
	"3| intern f0; defun f0; in 1; use 0",
	"3| in 1; use 0; in 0; intern v0; defvar v0; in 1",
	"3| in 1; use 0; in 0; intern f0; export f0; defun f0; unexport f0; fmakunbound f0; intern f0; defun f0",
	// ---- round 3: the same operations by other routes
	// the optional package argument of export/unexport/use-package/unuse-package,
	// evaluated from another package, with every kind of designator; lists of names
	"3| setq v0; defun f0; in 1; export v0 @0; export f0 @0 #5; use 0 @2 #6; in 2; in 1; unexport v0,f0 @0 #2; unuse 0 @2 #9",
	"3| in 1; use 0 @2; use 1 @2 #7; in 0; setq v0; export v0; in 1; setq v0; export v0; in 0; unuse 1 @2 #13; unuse 0 @2",
	"3| setq v0; setq v1; defun f0; export v0,v1,f0; in 1; use 0; in 0; unexport v1,f0 #1; export f0,f1 #1; defun f1",
	"3| in 1; export v0 @1; setq v0; in 2; use 1 @2 #4; export v1 @1 #10; in 1; setq v1 #2",
	// q::name in setq, defvar, defun from another package (exported names)
	"3| setq v0; export v0; in 1; setq v0 @0; setq v0 @0 #2; setq v0 @0 #3; use 0; setq v0 @0",
	"3| in 1; defvar v0 @0; defun f0 @0; in 0; export v0; export f0; in 1; use 0; defun f0 @0; defvar v0 @0 #1; in 2; defun f1 @1; defvar v1 @1",
	"3| export v0; in 1; setq v0 @0; use 0",
	// ... the qualified forms that do not reach the package (avoided classes)
	"3| setq v0; in 1; setq v0 @0",
	"3| in 1; setq v0 @0",
	"3| setq v0; in 1; defvar v0 @0",
	"3| in 2; defvar v0; in 0; import 2 v0; in 2; defvar v0 @0",
	"3| in 2; setq v0; in 0; import 2 v0; in 2; setq v0 @0",
	"3| setq v0; defun f0; in 1; makunbound v0 @0; fmakunbound f0 @0",
	// equivalent spellings: defparameter, set, setf; strings, keywords, nicknames,
	// package objects and upper case as designators; make-package
	"3| setq v0 #1; setq v1 #2; setq v0 #3; defvar v1 #1; defun f0; export v0 #1; export f0 #2; export v1 #3; in 1 #1; use 0 #3; in 2 #2; use 0 #1; in 0 #3; unexport v0 #3; makunbound v1 #1; fmakunbound f0 #1",
	"1| setq v0 #2; export v0 #1; defpackage 1 u=0 #1; defpackage 2 u=0,1 #1; in 1 #2; setq v1 #1; in 2 #3; in 0 #2; delete 2 #1; delete 1 #3; defpackage 1 u=0",
	// operations that must be refused leave nothing behind
	"3| setq v0; export v0; in 1; use 0; fail use; fail unuse; fail in; fail export; fail unexport; fail setq; fail setq #1; fail defun; fail defpackage; fail delete; fail rename 0; fail rename 1; defpackage 0; defpackage 1 u=0 e=v1; in 0; setq v0",
	"3| fail setq; fail defun; setq v0; defun f0; fail setq; fail defun; export v0; fail export; fail unexport; in 1; fail use; use 0; fail unuse; fail in",
	// names of the locked package cl seen through a user package
	"3| locked fmakunbound; locked makunbound; locked unintern; locked unexport; locked defun; locked use-pa; locked fmakunbound-q; setq v0; export v0; in 1; use 0; locked fmakunbound; locked unexport",
	"3| locked unexport-pa",
	// a variable that a function body read before it was defined, then unuse-package of anything
	"3| defgv v0; setq v0; use 1; unuse 1; defgv v1; defvar v1; unuse 2",
	"3| defgv v0; defvar v0; export v0; in 1; use 0; unuse 0; in 0; unuse 1",
	// a package does not use itself
	"3| setq v0; export v0; use 0; unuse 0; in 1; use 0; use 1; unuse 1; use 1 @1; unuse 0 @0",
	// one symbol as variable and function: export and unexport act on both
	"d3| in 1; use 0; in 0; setq b0; defun b0; export b0; makunbound b0; fmakunbound b0; setq b0; defun b0; unexport b0",
	"d3| setq b0; defun b0; export b0; in 1; use 0; in 0; unexport b0; export b0; in 2; use 0; in 0; fmakunbound b0; in 1; makunbound b0",
	"d3| defun b0; export b0; setq b0; in 1; use 0; in 2; use 0; in 0; unexport b0",
	"d3| in 1; setq b0; defun b0; in 0; use 1; setq b0; defun b0; in 1; export b0; in 0; makunbound b0; fmakunbound b0",
	"d3| in 1; use 0; in 0; export b0; setq b0; defun b0",
	"d3| in 1; use 0; in 0; export b0; defun b0; setq b0",
	"d3| in 1; use 0; in 0; export b0; defun b0; defvar b0",
	// defun with the name in upper case (avoided class)
	"3| defun f0 #1",
	"3| defun f0; defun f0 #1; in 1; defun f1 @0 #1",
	// the placeholder of an exported, undefined symbol taken by its function
	// while a used package supplies the variable (avoided class)
	"d3| in 2; setq b0; in 0; use 2; export b0; in 2; export b0; in 0; defun b0; unexport b0",
	"d3| export b0; use 1; in 1; export b0; setq b0; in 0; fmakunbound b0; defun b0; unexport b0",
	// a function body that calls the function: redefinition, export, use, unuse
	"3| defun f0; defg f0; defun f0; in 1; in 0; export f0; in 1; use 0; defg f0; in 0; defun f0; in 1; unuse 0; in 0; defun f0",
	"3| defun f0; defg f0; fmakunbound f0",
	"3| defg f0; in 1; use 0",
	// qualified symbols handed to symbol-value, boundp and fboundp
	"q3| setq v0; defun f0; export v0; export f0; in 1; setq v1; defun f1",
}

func parseProbe(src string) Case {
	c := Case{Mode: "probe"}
	for {
		if rest, ok := strings.CutPrefix(src, "!"); ok {
			c.Strict, src = true, rest
		} else if rest, ok := strings.CutPrefix(src, "d"); ok {
			c.Dual, src = true, rest
		} else if rest, ok := strings.CutPrefix(src, "q"); ok {
			c.QSym, src = true, rest
		} else {
			break
		}
	}
	head, body, _ := strings.Cut(src, "|")
	fmt.Sscan(head, &c.Init)
	for _, part := range strings.Split(body, ";") {
		f := strings.Fields(part)
		if len(f) == 0 {
			continue
		}
		op := model.Op{K: f[0]}
		// trailing "@p" (the package acted on) and "#v" (spelling variant)
		for 1 < len(f) {
			last := f[len(f)-1]
			if v, ok := strings.CutPrefix(last, "@"); ok {
				fmt.Sscan(v, &op.T)
				op.T++
			} else if v, ok := strings.CutPrefix(last, "#"); ok {
				fmt.Sscan(v, &op.V)
			} else {
				break
			}
			f = f[:len(f)-1]
		}
		switch f[0] {
		case "locked":
			op.N = f[1]
		case "fail":
			op.N = f[1]
			if 2 < len(f) {
				fmt.Sscan(f[2], &op.P)
			}
		case "in", "use", "unuse", "delete", "rename":
			fmt.Sscan(f[1], &op.P)
		case "import":
			fmt.Sscan(f[1], &op.P)
			op.N = f[2]
		case "defpackage":
			fmt.Sscan(f[1], &op.P)
			for _, o := range f[2:] {
				if v, ok := strings.CutPrefix(o, "u="); ok {
					for _, u := range strings.Split(v, ",") {
						var q int
						fmt.Sscan(u, &q)
						op.Use = append(op.Use, q)
					}
				}
				if v, ok := strings.CutPrefix(o, "e="); ok {
					op.Exp = strings.Split(v, ",")
				}
			}
		default:
			op.N = f[1]
		}
		c.Ops = append(c.Ops, op)
	}
	return c
}

// ---------------------------------------------------------------------------
// deterministic block "dual": every sequence of operations on the symbol b0
// (a variable AND a function) in package 0 up to a length, with a package
// that uses package 0 from the start (even k) or only at the end (odd k).

var dualAlphabet = []string{"export", "unexport", "setq", "defvar", "defun", "makunbound", "fmakunbound"}

func dualLen(tier string) int {
	if tier == "thorough" {
		return 5
	}
	return 4
}

func dualCount(tier string) int {
	n, p := 0, 1
	for l := 1; l <= dualLen(tier); l++ {
		p *= len(dualAlphabet)
		n += p
	}
	return 2 * n
}

func dualCase(k int) Case {
	late := k%2 == 1
	k /= 2
	l, p := 1, len(dualAlphabet)
	for p <= k {
		k -= p
		l++
		p *= len(dualAlphabet)
	}
	body := make([]model.Op, l)
	for j := l - 1; 0 <= j; j-- {
		body[j] = model.Op{K: dualAlphabet[k%len(dualAlphabet)], N: dualName}
		k /= len(dualAlphabet)
	}
	edge := []model.Op{{K: "in", P: 1}, {K: "use", P: 0}, {K: "in", P: 0}}
	c := Case{Mode: "dual", Init: 2, Dual: true}
	if late {
		c.Ops = append(body, edge...)
	} else {
		c.Ops = append(edge, body...)
	}
	return c
}

// ---------------------------------------------------------------------------
// deterministic block "imp": the Go-level (*Package).Import. Package 1
// defines v0 and f0, package 2 uses package 0; then every sequence up to a
// length of: package 0 imports v0 / f0 from package 1, uses / unuses package
// 1, sets v0 / defines f0 itself; package 1 sets v0, defines f0, exports or
// unexports both names.

var impAlphabet = [][]model.Op{
	{{K: "in", P: 0}, {K: "import", P: 1, N: "v0"}},
	{{K: "in", P: 0}, {K: "import", P: 1, N: "f0"}},
	{{K: "in", P: 1}, {K: "setq", N: "v0"}},
	{{K: "in", P: 1}, {K: "defun", N: "f0"}},
	{{K: "in", P: 1}, {K: "export", N: "v0,f0"}},
	{{K: "in", P: 1}, {K: "unexport", N: "v0,f0"}},
	{{K: "in", P: 0}, {K: "use", P: 1}},
	{{K: "in", P: 0}, {K: "unuse", P: 1}},
	{{K: "in", P: 0}, {K: "setq", N: "v0"}},
	{{K: "in", P: 0}, {K: "defun", N: "f0"}},
}

func impLen(tier string) int {
	if tier == "thorough" {
		return 4
	}
	return 3
}

func impCount(tier string) int {
	n, p := 0, 1
	for l := 1; l <= impLen(tier); l++ {
		p *= len(impAlphabet)
		n += p
	}
	return n
}

func impCase(k int) Case {
	l, p := 1, len(impAlphabet)
	for p <= k {
		k -= p
		l++
		p *= len(impAlphabet)
	}
	letters := make([]int, l)
	for j := l - 1; 0 <= j; j-- {
		letters[j] = k % len(impAlphabet)
		k /= len(impAlphabet)
	}
	c := Case{Mode: "imp", Init: slots}
	c.Ops = []model.Op{{K: "in", P: 2}, {K: "use", P: 0}, {K: "in", P: 1}, {K: "setq", N: "v0"}, {K: "defun", N: "f0"}}
	cur := 1
	for _, li := range letters {
		for _, op := range impAlphabet[li] {
			if op.K == "in" {
				if op.P == cur {
					continue
				}
				cur = op.P
			}
			c.Ops = append(c.Ops, op)
		}
	}
	return c
}

// ---------------------------------------------------------------------------
// deterministic block "route": every canonical history of length 1..3 with
// its operations spelled by another route: the package an operation acts on
// given explicitly while another package is current (package argument,
// q::name), other designators (string, keyword nickname, package object,
// upper case, list) and equivalent forms (defparameter, set, setf).

const routeLen = 3

func routeRounds(tier string) int {
	if tier == "thorough" {
		return 4
	}
	return 1
}

func routeBase() int {
	n := 0
	for l := 1; l <= routeLen; l++ {
		n += countFrom(cstate{}, l)
	}
	return n
}

func routeCount(tier string) int { return routeBase() * routeRounds(tier) }

func routeCase(k int) Case {
	round := k / routeBase()
	k %= routeBase()
	rank := k
	var base []model.Op
	for l := 1; l <= routeLen; l++ {
		n := countFrom(cstate{}, l)
		if k < n {
			base = unrank(l, k)
			break
		}
		k -= n
	}
	c := Case{Mode: "route", Init: slots}
	cur := 0
	for j, op := range base {
		h := rank + 5*j + 7*round
		elsewhere := func(o model.Op) {
			other := (cur + 1 + (h/2)%2) % slots
			o.T = cur + 1
			c.Ops = append(c.Ops, model.Op{K: "in", P: other, V: (h / 4) % 4}, o, model.Op{K: "in", P: cur})
		}
		switch op.K {
		case "in":
			op.V = h % 4
			cur = op.P
			c.Ops = append(c.Ops, op)
		case "use", "unuse", "export", "unexport":
			op.V = h % 16
			if h%2 == 0 {
				elsewhere(op)
			} else {
				c.Ops = append(c.Ops, op)
			}
		case "setq":
			op.V = (h / 3) % 4
			if h%3 == 1 {
				elsewhere(op)
			} else {
				c.Ops = append(c.Ops, op)
			}
		case "defvar", "defun":
			if op.K == "defvar" {
				op.V = (h / 2) % 2 // upper case; for defun an open finding
			}
			if h%2 == 0 {
				elsewhere(op)
			} else {
				c.Ops = append(c.Ops, op)
			}
		default: // makunbound, fmakunbound: upper case only (the q:: forms are an open finding)
			op.V = h % 2
			c.Ops = append(c.Ops, op)
		}
	}
	return c
}

// ---------------------------------------------------------------------------
// sizes

func nShort(tier string) int {
	if tier == "thorough" {
		return 60000
	}
	return 12000
}

func nLong(tier string) int {
	if tier == "thorough" {
		return 6000
	}
	return 1200
}

// nFixed is the number of seed-independent cases ahead of the other blocks.
func nFixed(tier string) int {
	return len(probes) + dualCount(tier) + routeCount(tier) + impCount(tier)
}

func nCases(tier string) int {
	return nFixed(tier) + exhCount(tier) + nShort(tier) + nLong(tier)
}

// ---------------------------------------------------------------------------
// avoid set: operation classes named by open known findings.

type avoidSet struct {
	exact  map[string]bool
	prefix []string
}

// has tells whether an operation class is named by an open known finding.
func (a *avoidSet) has(cls string) bool {
	if a.exact[cls] {
		return true
	}
	for _, p := range a.prefix {
		if strings.HasPrefix(cls, p) {
			return true
		}
	}
	return false
}

func (a *avoidSet) list() []string {
	out := append([]string{}, a.prefix...)
	for i := range out {
		out[i] += "*"
	}
	for k := range a.exact {
		out = append(out, k)
	}
	sort.Strings(out)
	return out
}

var avoid *avoidSet

// dirty loads the avoid set: the root classes of the open known findings of
// C13 ("root=<class> *" names one class, "root=<prefix>*" a family).
func dirty() *avoidSet {
	if avoid != nil {
		return avoid
	}
	avoid = &avoidSet{exact: map[string]bool{}}
	root := os.Getenv("VERIF_ROOT")
	if root == "" {
		root = "."
	}
	for _, f := range fw.LoadFindings(root+"/known_findings.json", "C13") {
		if !f.Open() {
			continue
		}
		flds := strings.Fields(f.Signature)
		if len(flds) == 0 {
			continue
		}
		v, ok := strings.CutPrefix(flds[0], "root=")
		if !ok || v == "" || v == "-" {
			continue
		}
		if p, isPrefix := strings.CutSuffix(v, "*"); isPrefix {
			avoid.prefix = append(avoid.prefix, p)
		} else {
			avoid.exact[v] = true
		}
	}
	return avoid
}

// ---------------------------------------------------------------------------
// random histories

var opKinds = []struct {
	k string
	w int
}{
	{"in", 10}, {"use", 10}, {"unuse", 7}, {"export", 12}, {"unexport", 7},
	{"setq", 10}, {"defvar", 4}, {"defun", 10}, {"makunbound", 5}, {"fmakunbound", 5},
	{"defpackage", 6}, {"fail", 3}, {"defg", 2}, {"defgv", 2}, {"locked", 1},
}

// extKinds are only generated in histories with extended operations:
// documented package functions outside the property's list and the Go-level
// (*Package).Import.
var extKinds = []struct {
	k string
	w int
}{
	{"import", 6}, {"delete", 3}, {"rename", 3}, {"intern", 3}, {"unintern", 3},
}

// lockedKinds: operations on names of the locked package cl that are refused
// or ignored (unexport-pa was an open finding until 6778f59 and is generated like the others since).
var lockedKinds = []string{"fmakunbound", "fmakunbound-q", "makunbound", "unintern", "unexport", "unexport-pa", "defun", "use-pa"}

var failKinds = []string{"use", "unuse", "in", "export", "unexport", "setq", "defun", "defpackage", "delete", "rename"}

func randOp(r *rand.Rand, w *model.World, ext, dual bool) model.Op {
	total := 0
	for _, ok := range opKinds {
		total += ok.w
	}
	if ext {
		for _, ok := range extKinds {
			total += ok.w
		}
	}
	x := r.IntN(total)
	k := ""
	for _, ok := range opKinds {
		if x < ok.w {
			k = ok.k
			break
		}
		x -= ok.w
	}
	if k == "" {
		for _, ok := range extKinds {
			if x < ok.w {
				k = ok.k
				break
			}
			x -= ok.w
		}
	}
	// names: in a history that looks at the symbol b0 a third of the names are b0
	name := func(names []string) string {
		if dual && r.IntN(3) == 0 {
			return dualName
		}
		return fw.Pick(r, names)
	}
	op := model.Op{K: k}
	switch k {
	case "in", "use", "unuse", "import", "delete", "rename":
		op.P = r.IntN(slots)
		if k == "import" {
			op.N = fw.Pick(r, allNames)
		}
	case "export", "unexport":
		op.N = name(allNames)
		if r.IntN(8) == 0 { // a list of names
			op.N += "," + name(allNames)
		}
	case "setq", "defvar", "makunbound":
		op.N = name(varNames)
	case "unintern":
		op.N = fw.Pick(r, varNames)
	case "intern":
		op.N = fw.Pick(r, allNames) // a function name too: the symbol exists before its defun
	case "defun", "fmakunbound", "defg":
		op.N = name(funNames)
	case "defgv":
		op.N = name(varNames)
	case "fail":
		op.N = fw.Pick(r, failKinds)
		op.P = r.IntN(slots)
	case "locked":
		op.N = fw.Pick(r, lockedKinds)
	case "defpackage":
		op.P = r.IntN(slots)
		for _, q := range w.Existing() {
			if r.IntN(3) == 0 {
				op.Use = append(op.Use, q)
			}
		}
		for _, n := range allNames {
			if r.IntN(3) == 0 {
				op.Exp = append(op.Exp, n)
			}
		}
	}
	// routes: a third of the operations are spelled differently, a sixth of
	// those that can name the package they act on do so
	if r.IntN(3) == 0 {
		op.V = r.IntN(16)
		if k == "defun" && r.IntN(8) != 0 {
			op.V &^= 1 // mostly not in upper case (an open finding)
		}
	}
	if model.TakesTarget(k) && r.IntN(6) == 0 {
		op.T = 1 + r.IntN(slots)
	}
	return op
}

// genRandom builds a history of n steps by simulating the model: operations
// the property does not determine are not generated, and at most the
// operation classes in allow may be taken from the avoid set.
func genRandom(r *rand.Rand, n, init int, allow map[string]bool, ext, dual bool) Case {
	w := model.New(slots, init)
	c := Case{Init: init, Dual: dual}
	d := dirty()
	for step := 0; len(c.Ops) < n && step < n*20; step++ {
		op := randOp(r, w, ext, dual)
		p := planOp(w, op)
		if !p.ok {
			continue
		}
		if a := avoidedPart(d, p); a != "" && !allow[avoidKey(d, a)] {
			continue
		}
		if (p.cls == "defpackage/exists" || strings.HasSuffix(p.cls, "/self")) && r.IntN(8) != 0 {
			continue // refused or without effect: a few of them are enough
		}
		commit(w, p, len(c.Ops)+1)
		c.Ops = append(c.Ops, op)
	}
	return c
}

// avoidKey names the avoid-set entry a class falls under.
func avoidKey(a *avoidSet, cls string) string {
	if a.exact[cls] {
		return cls
	}
	for _, p := range a.prefix {
		if strings.HasPrefix(cls, p) {
			return p + "*"
		}
	}
	return ""
}

func gen(r *rand.Rand, i int, tier string) Case {
	if i < len(probes) {
		return parseProbe(probes[i])
	}
	i -= len(probes)
	if i < dualCount(tier) {
		return dualCase(i)
	}
	i -= dualCount(tier)
	if i < routeCount(tier) {
		return routeCase(i)
	}
	i -= routeCount(tier)
	if i < impCount(tier) {
		return impCase(i)
	}
	i -= impCount(tier)
	ne := exhCount(tier)
	// the long histories are spread evenly over the index space so that every
	// worker batch gets its share of them
	nl := nLong(tier)
	stride := (nCases(tier) - nFixed(tier)) / nl
	if i%stride == 0 && i/stride < nl {
		i = ne + nShort(tier) + i/stride
	} else {
		i -= min((i+stride-1)/stride, nl)
	}
	if i < ne {
		for l := 1; l <= exhLen(tier); l++ {
			n := countFrom(cstate{}, l)
			if i < n {
				return Case{Mode: "exh", Init: slots, Ops: unrank(l, i)}
			}
			i -= n
		}
	}
	i -= ne
	// which avoided classes this history may contain: none for most, one for some
	allow := map[string]bool{}
	if keys := dirty().list(); 0 < len(keys) && r.IntN(4) == 0 {
		allow[fw.Pick(r, keys)] = true
	}
	dual := r.IntN(3) == 0
	if i < nShort(tier) {
		// lengths 5..8: the part of the stated bound beyond the exhaustive depth, sampled
		c := genRandom(r, 5+r.IntN(4), slots, allow, r.IntN(4) == 0, dual)
		c.Mode = "short"
		return c
	}
	n := []int{12, 25, 50, 100, 200, 200}[r.IntN(6)]
	c := genRandom(r, n, 1+r.IntN(slots), allow, r.IntN(3) == 0, dual)
	c.Mode = "long"
	return c
}

// ---------------------------------------------------------------------------
// the real interpreter

var seq int

type world struct {
	scope *slip.Scope
	names [slots]string
	nicks [slots]string
	bogus string // a package name that never exists
	evals int
	forms map[string]slip.Code // observation forms, read once per history
	// gs: packages in which (defun g<name> () (<name>)) was evaluated
	gs [slots]map[string]bool
	// orphan: value tokens of deleted packages (their functions may live on in bodies)
	orphan map[int]bool
	rot    int // rotates the alternative observation routes; a function of the case
	cur    int // the model's current package
	obs    []obsName
	qsym   bool
	// departures seen through the additional routes body and qsym, which have
	// signatures of their own and do not end the history
	bodyDis, qsymDis []discrepancy
	staleSeen        map[string]bool
}

func (rw *world) eval(src string) (slip.Object, *sl.Err) {
	rw.evals++
	return sl.Eval(rw.scope, src)
}

// query evaluates an observation form (a symbol, a call without arguments or
// a predicate on a quoted symbol); the text is read once per history.
func (rw *world) query(src string) (result slip.Object, err *sl.Err) {
	rw.evals++
	code, ok := rw.forms[src]
	if !ok {
		if err = sl.Catch(func() { code = slip.ReadString(src, rw.scope) }); err != nil {
			return nil, err
		}
		rw.forms[src] = code
	}
	err = sl.Catch(func() { result = code.Eval(rw.scope, nil) })
	return
}

// resolveCompiled reads the form afresh, compiles it (Code.Compile, what load and defun
// bodies go through) and evaluates it: a qualified name has to mean the same then.
func (rw *world) resolveCompiled(src string) outcome {
	rw.evals++
	var obj slip.Object
	err := sl.Catch(func() {
		code := slip.ReadString(src, rw.scope)
		code.Compile()
		obj = code.Eval(rw.scope, nil)
	})
	if err != nil {
		return outcome{err: err.Class}
	}
	if n, ok := obj.(slip.Fixnum); ok {
		return outcome{bound: true, val: int(n)}
	}
	if obj == slip.Unbound {
		return outcome{}
	}
	return outcome{bound: true, val: -1}
}

// pkgD spells a package designator: quoted symbol, string, keyword of the
// nickname, package object found by the upper-case name.
func (rw *world) pkgD(p, v int) string {
	switch v % 4 {
	case 1:
		return fmt.Sprintf("%q", rw.names[p])
	case 2:
		return ":" + rw.nicks[p]
	case 3:
		return fmt.Sprintf("(find-package %q)", strings.ToUpper(rw.names[p]))
	}
	return "'" + rw.names[p]
}

// symD spells the names of export/unexport: quoted symbol, string, list, upper case.
func symD(n string, v int) string {
	if names := strings.Split(n, ","); 1 < len(names) {
		if v%2 == 1 {
			return "'(\"" + strings.Join(names, "\" \"") + "\")"
		}
		return "'(" + strings.Join(names, " ") + ")"
	}
	switch v % 4 {
	case 1:
		return fmt.Sprintf("%q", n)
	case 2:
		return "'(" + n + ")"
	case 3:
		return "'" + strings.ToUpper(n)
	}
	return "'" + n
}

func (rw *world) render(op model.Op, val int) string {
	// the package acted on, as an argument or as a prefix
	targ, qn := "", op.N
	if op.T != 0 {
		targ = " " + rw.pkgD(op.T-1, op.V/4)
		qn = rw.names[op.T-1] + "::" + op.N
	}
	upper := func(n string) string {
		if op.V%2 == 1 {
			return strings.ToUpper(n)
		}
		return n
	}
	switch op.K {
	case "in":
		return fmt.Sprintf("(in-package %s)", rw.pkgD(op.P, op.V))
	case "use":
		return fmt.Sprintf("(use-package %s%s)", rw.pkgD(op.P, op.V), targ)
	case "unuse":
		return fmt.Sprintf("(unuse-package %s%s)", rw.pkgD(op.P, op.V), targ)
	case "export":
		return fmt.Sprintf("(export %s%s)", symD(op.N, op.V), targ)
	case "unexport":
		return fmt.Sprintf("(unexport %s%s)", symD(op.N, op.V), targ)
	case "setq":
		v := op.V % 4
		if op.T != 0 && v == 1 {
			v = 0 // defparameter takes no qualified name
		}
		switch v {
		case 1:
			return fmt.Sprintf("(defparameter %s %d)", qn, val)
		case 2:
			return fmt.Sprintf("(set '%s %d)", qn, val)
		case 3:
			return fmt.Sprintf("(setf %s %d)", qn, val)
		}
		return fmt.Sprintf("(setq %s %d)", qn, val)
	case "defvar":
		return fmt.Sprintf("(defvar %s %d)", upper(qn), val)
	case "defun":
		return fmt.Sprintf("(defun %s () %d)", upper(qn), val)
	case "makunbound":
		return fmt.Sprintf("(makunbound '%s)", upper(qn))
	case "fmakunbound":
		return fmt.Sprintf("(fmakunbound '%s)", upper(qn))
	case "defg":
		return fmt.Sprintf("(defun g%s () (%s))", op.N, op.N)
	case "defgv":
		return fmt.Sprintf("(defun gv%s () %s)", op.N, op.N)
	case "defpackage":
		var b strings.Builder
		if op.V%2 == 1 && len(op.Exp) == 0 {
			fmt.Fprintf(&b, "(make-package '%s :nicknames '(%q) :use '(\"cl\"", rw.names[op.P], rw.nicks[op.P])
			for _, u := range op.Use {
				fmt.Fprintf(&b, " %q", rw.names[u])
			}
			b.WriteString("))")
			return b.String()
		}
		fmt.Fprintf(&b, "(defpackage '%s (:nicknames %q) (:use \"cl\"", rw.names[op.P], rw.nicks[op.P])
		for _, u := range op.Use {
			fmt.Fprintf(&b, " %q", rw.names[u])
		}
		b.WriteString(")")
		if 0 < len(op.Exp) {
			b.WriteString(" (:export")
			for _, n := range op.Exp {
				fmt.Fprintf(&b, " %q", n)
			}
			b.WriteString(")")
		}
		b.WriteString(")")
		return b.String()
	case "import":
		return fmt.Sprintf("#go: (*Package %s).Import(%s, %q)", "current", rw.names[op.P], op.N)
	case "delete":
		return fmt.Sprintf("(delete-package %s)", rw.pkgD(op.P, op.V))
	case "rename":
		return fmt.Sprintf("(rename-package %s '%sr%d)", rw.pkgD(op.P, op.V), rw.names[op.P], val)
	case "intern", "unintern":
		// their package argument takes no keyword
		if op.T != 0 && (op.V/4)%4 == 2 {
			targ = " " + rw.pkgD(op.T-1, 0)
		}
		if op.K == "intern" {
			return fmt.Sprintf("(intern %q%s)", op.N, targ)
		}
		return fmt.Sprintf("(unintern '%s%s)", op.N, targ)
	case "locked":
		switch op.N {
		case "fmakunbound":
			return "(fmakunbound 'car)"
		case "fmakunbound-q":
			return "(fmakunbound 'cl::car)"
		case "makunbound":
			return "(makunbound '*print-base*)"
		case "unintern":
			return "(unintern '*print-base*)"
		case "unexport":
			return "(unexport '(car *print-base*))"
		case "unexport-pa":
			return "(unexport 'car 'cl)"
		case "defun":
			return "(defun car (x) x)"
		case "use-pa":
			return fmt.Sprintf("(use-package '%s 'cl)", rw.names[rw.cur])
		}
	case "fail":
		switch op.N {
		case "use":
			return fmt.Sprintf("(use-package '%s)", rw.bogus)
		case "unuse":
			return fmt.Sprintf("(unuse-package '%s)", rw.bogus)
		case "in":
			return fmt.Sprintf("(in-package '%s)", rw.bogus)
		case "export":
			return "(export 5)"
		case "unexport":
			return "(unexport 5)"
		case "setq":
			return fmt.Sprintf("(setq %s (car 5))", varNames[op.V%2])
		case "defun":
			return fmt.Sprintf("(defun %s)", funNames[op.V%2])
		case "defpackage":
			return fmt.Sprintf("(defpackage '%s (:use \"cl\" %q) (:export \"v0\" \"f0\"))", rw.bogus, rw.bogus+"y")
		case "delete":
			return fmt.Sprintf("(delete-package '%s)", rw.bogus)
		case "rename":
			// the new name is taken by the package itself or by another one
			taken := rw.names[op.P]
			if op.V%2 == 1 {
				taken = rw.names[rw.cur]
			}
			return fmt.Sprintf("(rename-package '%s '%s)", rw.names[op.P], taken)
		}
	}
	return "?"
}

// outcome of one resolution in slip
type outcome struct {
	bound bool
	val   int
	err   string
}

func (o outcome) String() string {
	switch {
	case o.bound:
		return fmt.Sprint(o.val)
	case o.err != "":
		return "error"
	}
	return "unbound"
}

func (rw *world) resolve(src string) outcome {
	obj, err := rw.query(src)
	if err != nil {
		return outcome{err: err.Class}
	}
	switch to := obj.(type) {
	case slip.Fixnum:
		return outcome{bound: true, val: int(to)}
	}
	if obj == slip.Unbound {
		return outcome{}
	}
	return outcome{bound: true, val: -1}
}

func (rw *world) truth(src string) (bool, bool) {
	obj, err := rw.query(src)
	if err != nil {
		return false, false
	}
	return obj != nil, true
}

type discrepancy struct {
	got, kind, via string
	msg            string
	route          string // a departure of an additional route only (signature route=..)
}

// classify names the way an observed outcome departs from the model.
func classify(w *model.World, from int, e model.Expect, o outcome) string {
	if !o.bound {
		if len(e.Must) == 1 && e.Must[0].Pkg == from {
			return "lost-own"
		}
		return "lost-visible"
	}
	pkg, live := w.Live(o.val)
	switch {
	case !live:
		return "stale-visible"
	case 0 < len(e.Must) && e.Must[0].Pkg == from:
		return "own-shadowed"
	case 0 < len(e.Must):
		return "wrong-definition"
	}
	_ = pkg
	return "hidden-visible"
}

// pkgNames renders a list of packages as the sorted names of those that
// belong to the history (cl and other packages are left out).
func (rw *world) pkgNames(obj slip.Object) (out []string, ok bool) {
	list, isList := obj.(slip.List)
	if !isList && obj != nil {
		return nil, false
	}
	for _, e := range list {
		pk, isPkg := e.(*slip.Package)
		if !isPkg {
			return nil, false
		}
		for i, n := range rw.names {
			if pk.Name == n {
				out = append(out, fmt.Sprintf("p%d", i))
			}
		}
	}
	sort.Strings(out)
	return out, true
}

// observe resolves every name from every package and returns the first
// departure from the model (in a fixed order), or nil.
func (rw *world) observe(x counter, w *model.World) *discrepancy {
	ex := w.Existing()
	// current package first
	order := []int{w.Cur}
	for _, p := range ex {
		if p != w.Cur {
			order = append(order, p)
		}
	}
	var first *discrepancy
	note := func(d *discrepancy) {
		if first == nil {
			first = d
		}
	}
	judge := func(from int, e model.Expect, o outcome) bool {
		return (o.bound && e.Accepts(o.val)) || (!o.bound && e.UnboundOK())
	}
	pn := func(src string) string { // package names as p0, p1, .. in messages
		for i, n := range rw.names {
			src = strings.ReplaceAll(src, n, fmt.Sprintf("p%d", i))
			src = strings.ReplaceAll(src, strings.ToUpper(n), fmt.Sprintf("P%d", i))
			src = strings.ReplaceAll(src, rw.nicks[i], fmt.Sprintf("n%d", i))
		}
		return src
	}
	rw.rot++
	for pi, p := range order {
		if _, err := rw.eval(fmt.Sprintf("(in-package '%s)", rw.names[p])); err != nil {
			note(&discrepancy{got: "in-package-error", kind: "-", via: "-", msg: err.String()})
			break
		}
		for ni, n := range rw.obs {
			kind := n.kind
			e := w.Resolve(p, n.mname)
			var probe, form string
			if kind == model.Var {
				probe, form = fmt.Sprintf("(boundp '%s)", n.spell), n.spell
			} else {
				probe, form = fmt.Sprintf("(fboundp '%s)", n.spell), "("+n.spell+")"
			}
			o := rw.resolve(form)
			x.Cover("resolve:unq:" + kind.String())
			if o.bound {
				x.Cover("seen:bound")
			} else {
				x.Cover("seen:unbound")
			}
			ok := judge(p, e, o)
			if !ok {
				note(&discrepancy{got: classify(w, p, e, o), kind: kind.String(), via: "unq",
					msg: fmt.Sprintf("in p%d, %s => %s, model: %s", p, form, o, showExpect(e))})
			}
			if t, tok := rw.truth(probe); !tok || t != o.bound {
				// the predicate must agree with the evaluation
				if ok {
					note(&discrepancy{got: "predicate-disagrees", kind: kind.String(), via: "unq",
						msg: fmt.Sprintf("in p%d, %s => %v but %s => %s", p, probe, t, form, o)})
				}
			}
			// the same name by another route (current package of the history
			// only): symbol-value, funcall, function, apply, symbol-function
			rot := rw.rot + ni
			if pi == 0 {
				alt, route := fmt.Sprintf("(symbol-value '%s)", n.spell), "symbol-value"
				if kind == model.Fun {
					switch rot % 4 {
					case 0:
						alt, route = fmt.Sprintf("(funcall '%s)", n.spell), "funcall"
					case 1:
						alt, route = fmt.Sprintf("(funcall #'%s)", n.spell), "function"
					case 2:
						alt, route = fmt.Sprintf("(apply '%s nil)", n.spell), "apply"
					default:
						alt, route = fmt.Sprintf("(funcall (symbol-function '%s))", n.spell), "symbol-function"
					}
				}
				ao := rw.resolve(alt)
				x.Cover("alt:unq:" + route)
				if !judge(p, e, ao) {
					note(&discrepancy{got: classify(w, p, e, ao), kind: kind.String(), via: "unq/" + route,
						msg: fmt.Sprintf("in p%d, %s => %s, model: %s", p, alt, ao, showExpect(e))})
				}
			}
			for _, q := range ex {
				for vi, sep := range []string{"::", ":"} {
					var qe model.Expect
					via := "int"
					if vi == 0 {
						qe = w.Internal(q, n.mname)
					} else {
						qe = w.External(p, q, n.mname)
						via = "ext"
					}
					qform := rw.names[q] + sep + n.spell
					if kind == model.Fun {
						qform = "(" + qform + ")"
					}
					qo := rw.resolve(qform)
					x.Cover("resolve:" + via + ":" + kind.String())
					if !judge(q, qe, qo) {
						note(&discrepancy{got: classify(w, q, qe, qo), kind: kind.String(), via: via,
							msg: fmt.Sprintf("in p%d, %s => %s, model: %s", p, pn(qform), qo, showExpect(qe))})
					}
					// one of the two qualified forms also through the nickname
					// (upper case) or through funcall of the qualified symbol
					if pi == 0 && (rot+q+vi)%2 == 0 {
						alt, route := strings.ToUpper(rw.nicks[q])+sep+n.spell, "nickname"
						compiled := false
						if kind == model.Fun {
							alt = "(" + alt + ")"
							switch (rot / 2) % 4 {
							case 0:
								alt, route = fmt.Sprintf("(funcall '%s%s%s)", rw.names[q], sep, n.spell), "funcall"
							case 2:
								// the qualified call compiled before it is evaluated
								alt, route, compiled = "("+rw.names[q]+sep+n.spell+")", "compiled", true
							case 3:
								// the qualified call in the body of a function made on the spot
								alt, route = fmt.Sprintf("(funcall (lambda () (%s%s%s)))", rw.names[q], sep, n.spell), "lambda-body"
							}
						}
						ao := rw.resolve(alt)
						if compiled {
							ao = rw.resolveCompiled(alt)
						}
						x.Cover("alt:" + via + ":" + route)
						if !judge(q, qe, ao) {
							note(&discrepancy{got: classify(w, q, qe, ao), kind: kind.String(), via: via + "/" + route,
								msg: fmt.Sprintf("in p%d, %s => %s, model: %s", p, pn(alt), ao, showExpect(qe))})
						}
					}
					if rw.qsym && pi == 0 {
						// the qualified symbol as an argument of symbol-value, boundp, fboundp
						qs := rw.names[q] + sep + n.spell
						forms := []string{fmt.Sprintf("(boundp '%s)", qs), fmt.Sprintf("(symbol-value '%s)", qs)}
						if kind == model.Fun {
							forms = []string{fmt.Sprintf("(fboundp '%s)", qs)}
						}
						for fi, f := range forms {
							x.Cover("alt:qsym")
							var so outcome
							if fi == 0 {
								t, _ := rw.truth(f)
								so = qo
								so.bound = t
							} else {
								so = rw.resolve(f)
							}
							if so.bound != qo.bound || (so.bound && so.val != qo.val) {
								rw.qsymDis = append(rw.qsymDis, discrepancy{got: "route-disagrees", kind: kind.String(), via: via,
									route: "qsym:" + strings.Trim(strings.Fields(f)[0], "("),
									msg:   fmt.Sprintf("in p%d, %s => %s but %s => %s", p, pn(qform), qo, pn(f), so)})
							}
						}
					}
				}
			}
		}
		// the graph itself: package-use-list and package-used-by-list
		for vi, fn := range []string{"package-use-list", "package-used-by-list"} {
			obj, err := rw.query(fmt.Sprintf("(%s (find-package '%s))", fn, rw.names[p]))
			x.Cover("graph:" + fn)
			if err != nil {
				continue // the accessor is not this property's subject
			}
			got, ok := rw.pkgNames(obj)
			if !ok {
				continue
			}
			var want []string
			ids := w.UseList(p)
			if vi == 1 {
				ids = w.Users(p)
			}
			for _, q := range ids {
				if w.Pkgs[q].Exists {
					want = append(want, fmt.Sprintf("p%d", q))
				}
			}
			sort.Strings(want)
			if strings.Join(got, " ") != strings.Join(want, " ") {
				note(&discrepancy{got: "graph-differs", kind: "-", via: fn,
					msg: fmt.Sprintf("(%s p%d) => (%s), model: (%s)", fn, p, strings.Join(got, " "), strings.Join(want, " "))})
			}
		}
		// bodies that call a function: never a definition that no longer exists
		for _, gname := range sortedTrue(rw.gs[p]) {
			o := rw.resolve("(g" + gname + ")")
			x.Cover("body:call")
			if !o.bound || rw.orphan[o.val] {
				continue
			}
			x.Cover("body:value")
			if _, live := w.Live(o.val); !live && !rw.staleSeen[fmt.Sprint(p, gname, o.val)] {
				rw.staleSeen[fmt.Sprint(p, gname, o.val)] = true
				rw.bodyDis = append(rw.bodyDis, discrepancy{got: "stale-visible", kind: "func", via: "body", route: "body",
					msg: fmt.Sprintf("in p%d, (g%s) with the body (%s) => %d, a definition that no longer exists", p, gname, gname, o.val)})
			}
		}
		if first != nil {
			break
		}
	}
	if _, err := rw.eval(fmt.Sprintf("(in-package '%s)", rw.names[w.Cur])); err != nil && first == nil {
		first = &discrepancy{got: "in-package-error", kind: "-", via: "-", msg: err.String()}
	}
	return first
}

func sortedTrue(m map[string]bool) (out []string) {
	for k, v := range m {
		if v {
			out = append(out, k)
		}
	}
	sort.Strings(out)
	return
}

func showExpect(e model.Expect) string {
	var parts []string
	for _, c := range e.Must {
		parts = append(parts, fmt.Sprintf("%d (definition of p%d)", c.Val, c.Pkg))
	}
	s := strings.Join(parts, " or ")
	if len(e.Must) == 0 {
		s = "unbound/not accessible"
	}
	if 0 < len(e.May) {
		var m []string
		for _, c := range e.May {
			m = append(m, fmt.Sprint(c.Val))
		}
		s += " (also tolerated: " + strings.Join(m, ",") + ")"
	}
	return s
}

func (rw *world) cleanup() {
	sl.Reset()
	for _, name := range rw.names {
		if p := slip.FindPackage(name); p != nil {
			_ = sl.Catch(func() { slip.RemovePackage(p) })
		}
	}
}

// result of running one history against slip and the model
type result struct {
	sig, msg  string // violation, or sig == ""
	step      int    // number of operations executed
	trace     []string
	graph     string
	completed bool
	tainted   bool // an operation of an avoided class was executed
	skipped   bool // exhaustive case whose prefix already departs
	// departures seen through the additional routes (body, qsym); the history goes on
	extra []extraViol
}

type extraViol struct{ sig, msg string }

// counter receives monitor counters; nil when a history is re-run for shrinking.
type counter interface {
	Cover(key string)
	CoverN(key string, n int)
}

type noCount struct{}

func (noCount) Cover(string)       {}
func (noCount) CoverN(string, int) {}

// caseRot is a function of the case that varies the additional observation
// routes between cases (never taken from process state: a replay sees the same).
func caseRot(c Case) int {
	h := len(c.Ops) * 7
	for i, op := range c.Ops {
		h += (i + 1) * (len(op.K) + 3*op.P + 5*len(op.N))
		if 0 < len(op.N) {
			h += int(op.N[len(op.N)-1])
		}
	}
	return h % 1024
}

// run executes the history in fresh packages, comparing slip with the model
// after every step (exhaustive cases: before and after the last step), and
// stops at the first departure.
func run(x counter, c Case) (res result) {
	seq++
	rw := &world{scope: slip.NewScope(), forms: map[string]slip.Code{}, orphan: map[int]bool{}, staleSeen: map[string]bool{},
		rot: caseRot(c), obs: baseObs, qsym: c.QSym, bogus: fmt.Sprintf("k%dzz", seq)}
	if c.Dual {
		rw.obs = dualObs
	}
	for i := range rw.names {
		rw.names[i] = fmt.Sprintf("k%dp%d", seq, i)
		rw.nicks[i] = fmt.Sprintf("k%dn%d", seq, i)
		rw.gs[i] = map[string]bool{}
	}
	defer rw.cleanup()
	w := model.New(slots, c.Init)
	for i := 0; i < c.Init; i++ {
		if _, err := rw.eval(rw.render(model.Op{K: "defpackage", P: i}, 0)); err != nil {
			res.sig, res.msg = "setup-error", "defpackage failed: "+err.String()
			return
		}
	}
	if _, err := rw.eval(rw.render(model.Op{K: "in", P: 0}, 0)); err != nil {
		res.sig, res.msg = "setup-error", "in-package failed: "+err.String()
		return
	}
	d := dirty()
	root := "-"
	defer func() {
		x.CoverN("steps", res.step)
		x.CoverN("slip-evaluations", rw.evals)
		res.graph = w.Summary(model.Names)
	}()
	// departures of the additional routes: the first of each signature
	seenExtra := map[string]bool{}
	extras := func(after, src string, si int) {
		for _, list := range [][]discrepancy{rw.bodyDis, rw.qsymDis} {
			for _, dis := range list {
				sig := fmt.Sprintf("route=%s after=%s got=%s kind=%s", dis.route, after, dis.got, dis.kind)
				if dis.route != "body" {
					sig = fmt.Sprintf("route=%s got=%s kind=%s via=%s", dis.route, dis.got, dis.kind, dis.via)
				}
				if !seenExtra[sig] {
					seenExtra[sig] = true
					res.extra = append(res.extra, extraViol{sig, fmt.Sprintf("step %d %s: %s", si+1, src, dis.msg)})
				}
			}
		}
		rw.bodyDis, rw.qsymDis = nil, nil
	}
	// initial state
	if (c.Mode == "exh" && 1 < len(c.Ops)) || c.Mode == "dual" || c.Mode == "route" || c.Mode == "imp" {
		// looked at by the cases of length 1
	} else if dis := rw.observe(x, w); dis != nil {
		res.sig = "root=- after=setup got=" + dis.got + " kind=" + dis.kind + " via=" + dis.via
		res.msg = "fresh packages: " + dis.msg
		return
	}
	for si, op := range c.Ops {
		p := planOp(w, op)
		cls := p.cls
		if !p.ok {
			x.Cover("truncated:" + cls)
			return
		}
		val := si + 1
		rw.cur = w.Cur
		src := rw.render(op, val)
		res.trace = append(res.trace, src)
		wantErr := p.wantErr
		wantStatus := ""
		if op.K == "intern" && op.T == 0 && model.KindOf(op.N) == model.Var {
			wantStatus = internStatus(w, op.N) // slip's intern looks at variables only
		}
		var err *sl.Err
		var value slip.Object
		if op.K == "import" {
			err = sl.Catch(func() { slip.CurrentPackage.Import(slip.FindPackage(rw.names[op.P]), op.N) })
		} else {
			value, err = rw.eval(src)
		}
		var opDis *discrepancy
		switch {
		case op.K == "locked":
			// refused or ignored: the names of cl must be what they were
			err = nil
			v, e1 := rw.eval("(car '(7))")
			_, e2 := rw.eval("*print-base*")
			if e1 != nil || e2 != nil || sl.Show(v) != "7" {
				opDis = &discrepancy{got: "locked-package-changed", kind: "-", via: "-", msg: "after " + src + " in a user package (car '(7)) or *print-base* of the locked package cl is gone"}
				slip.CLPkg.Export("car") // repair for the histories that follow in this process
				slip.CLPkg.Export("*print-base*")
			}
		case wantErr && err == nil && (op.K == "fail" || op.K == "defpackage"):
			// whether the form must be refused is not this property's subject;
			// what an accepted one means is not stated
			x.Cover("truncated:" + cls + "-not-refused")
			return
		case wantErr && err == nil:
			opDis = &discrepancy{got: "operation-not-refused", kind: "-", via: "-", msg: src + " must be refused (package still in use)"}
		case wantErr:
			err = nil // refused as documented; nothing changes
			if op.K == "fail" {
				x.Cover("refused:" + op.N)
				if op.N == "defpackage" {
					if t, ok := rw.truth(fmt.Sprintf("(find-package '%s)", rw.bogus)); ok && t {
						opDis = &discrepancy{got: "refused-defpackage-left-a-package", kind: "-", via: "-", msg: "(find-package '" + rw.bogus + ") after the refused " + src}
					}
				}
			}
		case err != nil:
		case op.K == "rename":
			old := rw.names[op.P]
			rw.names[op.P] = fmt.Sprintf("%sr%d", old, val)
			if t, ok := rw.truth(fmt.Sprintf("(find-package '%s)", old)); !ok || t {
				opDis = &discrepancy{got: "old-name-still-resolves", kind: "-", via: "-", msg: "(find-package '" + old + ") after " + src}
			}
		case op.K == "defg":
			rw.gs[w.Cur][op.N] = true
		case op.K == "delete":
			rw.gs[op.P] = map[string]bool{}
			for tok, o := range w.Origin {
				if o.Pkg == op.P {
					rw.orphan[tok] = true
				}
			}
		case wantStatus != "":
			got := "?"
			if vs, ok := value.(slip.Values); ok && len(vs) == 2 {
				got = sl.Show(vs[1])
			}
			if got != wantStatus {
				opDis = &discrepancy{got: "intern-status", kind: "var", via: "unq", msg: fmt.Sprintf("%s => status %s, model: %s", src, got, wantStatus)}
			}
		}
		commit(w, p, val)
		res.step++
		x.Cover("op:" + cls)
		if op.V != 0 {
			x.Cover(fmt.Sprintf("spelling:%s#%d", op.K, op.V%4))
		}
		if strings.Contains(op.N, ",") {
			x.Cover("spelling:" + op.K + "-of-a-list")
		}
		if a := avoidedPart(d, p); a != "" {
			x.Cover("avoided-class-executed:" + a)
			if root == "-" && !c.Strict {
				root = a
			}
		}
		last := si == len(c.Ops)-1
		var dis *discrepancy
		switch {
		case err != nil:
			dis = &discrepancy{got: "operation-error", kind: "-", via: "-", msg: src + " => " + err.String()}
		case opDis != nil:
			dis = opDis
		case c.Mode == "exh" && si < len(c.Ops)-2:
			// every prefix is a case of its own: an exhaustive case looks at
			// the state before and after its last operation only
			continue
		default:
			dis = rw.observe(x, w)
			if root == "-" {
				extras(op.K, src, si)
			} else {
				rw.bodyDis, rw.qsymDis = nil, nil
			}
		}
		if dis == nil {
			continue
		}
		if c.Mode == "exh" && !last {
			// the prefix is a case of its own and reports this
			x.Cover("exh:prefix-already-departs")
			res.skipped = true
			return
		}
		res.sig = fmt.Sprintf("root=%s after=%s got=%s kind=%s via=%s", root, cls, dis.got, dis.kind, dis.via)
		res.msg = fmt.Sprintf("step %d %s: %s", si+1, src, dis.msg)
		return
	}
	res.completed = true
	res.tainted = root != "-"
	return
}

// internStatus is the second value (intern name) must return in the current
// package, or "" where the model leaves it open: :internal for an own
// definition, :inherited for a definition of a used package, nil when nothing
// of that name is accessible.
func internStatus(w *model.World, name string) string {
	c := w.Cur
	pk := w.Pkgs[c]
	if _, own := w.Own(c, name); own {
		return ":internal"
	}
	if pk.Exp[name] != model.No || pk.Interned[name] {
		return ""
	}
	if _, imp := pk.Imp[model.KindOf(name)][name]; imp {
		return ""
	}
	e := w.Resolve(c, name)
	switch {
	case len(e.Must) == 1 && len(e.May) == 0:
		return ":inherited"
	case len(e.Must) == 0 && len(e.May) == 0:
		for _, q := range pk.Uses {
			if w.Pkgs[q].Exp[name] != model.No {
				return ""
			}
		}
		return "nil"
	}
	return ""
}

// shrink removes operations from a failing history while it keeps failing
// with a departure in a history free of avoided classes; the result is only
// used to make the message of a new violation readable.
func shrink(c Case, failStep int) (Case, result) {
	best := Case{Mode: "shrunk", Init: c.Init, Strict: c.Strict, Dual: c.Dual, Ops: append([]model.Op{}, c.Ops[:failStep]...)}
	bres := run(noCount{}, best)
	if bres.sig == "" {
		return c, bres
	}
	budget := 100 // re-executions; must stay far below the no-progress watchdog
	chunk := len(best.Ops) / 2
	if chunk < 1 {
		chunk = 1
	}
	for 1 <= chunk && 0 < budget {
		progress := false
		for at := len(best.Ops) - chunk; 0 <= at && 0 < budget; at -= chunk {
			if len(best.Ops) < at+chunk {
				continue
			}
			try := Case{Mode: "shrunk", Init: best.Init, Strict: best.Strict, Dual: best.Dual}
			try.Ops = append(try.Ops, best.Ops[:at]...)
			try.Ops = append(try.Ops, best.Ops[at+chunk:]...)
			budget--
			if r := run(noCount{}, try); strings.HasPrefix(r.sig, "root=- ") && r.step == len(try.Ops) {
				best, bres = try, r
				progress = true
			}
		}
		if chunk == 1 {
			if !progress {
				break
			}
			continue
		}
		chunk /= 2
	}
	return best, bres
}

var shrunkInProcess int

func exec(x *fw.Ctx, c Case) {
	if c.Init < 1 || slots < c.Init || len(c.Ops) == 0 {
		x.Trivial()
		return
	}
	x.Cover("mode:" + c.Mode)
	if c.Mode == "short" || c.Mode == "long" {
		for _, a := range dirty().list() {
			x.Cover("avoided:" + a) // kept out of 3/4 of the seeded histories while its finding is open
		}
	}
	res := run(x, c)
	obs := map[string]any{"trace": res.trace, "graph": res.graph}
	x.Observe(obs)
	for _, e := range res.extra {
		x.Fail(e.sig, "%s | history: %s | model graph: %s", e.msg, strings.Join(res.trace, " "), res.graph)
	}
	switch {
	case res.sig != "":
		msg := res.msg + " | history: " + strings.Join(res.trace, " ") + " | model graph: " + res.graph
		if strings.HasPrefix(res.sig, "root=- ") && 6 < res.step && shrunkInProcess < 3 {
			shrunkInProcess++
			if sc, sr := shrink(c, res.step); sr.sig != "" {
				msg = fmt.Sprintf("%s | SHRUNK to %d operations (%s): %s: %s | model graph: %s",
					res.msg, len(sc.Ops), sr.sig, strings.Join(sr.trace, " "), sr.msg, sr.graph)
			}
		}
		x.Fail(res.sig, "%s", msg)
	case res.completed:
		x.Cover("history-completed")
		if res.tainted {
			x.Cover("history-completed:after-an-avoided-class")
		} else {
			x.Cover("history-completed:clean")
		}
	}
	if res.step == 0 {
		x.Trivial()
	}
}

func init() {
	fw.Register(fw.Spec[Case]{
		ID: "C13",
		Rule: "a case is a history of package operations (in-package, use-package, unuse-package, export, unexport, setq, defvar, defun, makunbound, fmakunbound; " +
			"in the seeded blocks also defpackage with :use/:export, operations that must be refused, a function body calling a monitored function and, in a third of the long ones, delete-package, rename-package, intern, unintern and the Go-level Import) " +
			"over 3 user packages x 2 variable x 2 function names (and, in the dual block and a third of the seeded histories, the symbol b0 that is a variable AND a function), run in fresh packages; " +
			"block 0 = hand-written probe histories (seed-independent; the strict ones pass through an avoided class but must hold); " +
			"block 0b 'dual' = EVERY sequence of length 1..4 (quick) / 1..5 (thorough) of export, unexport, setq, defvar, defun, makunbound, fmakunbound of b0 in a package another package uses from the start or only at the end; " +
			"block 0c 'route' = every canonical history of length 1..3 with its operations spelled by another route (package argument or q::name while another package is current, string/keyword-nickname/package-object/upper-case/list designators, defparameter/set/setf; 1 assignment of spellings quick, 4 thorough); " +
			"block 0d 'imp' = every sequence of length 1..3 (quick) / 1..4 (thorough) of 10 steps around the Go-level Import (import a variable/a function, use/unuse the package imported from, redefinition on either side, export/unexport of both names as a list) with a third package using the importer; " +
			"block 1 = EVERY history of length 1..4 (quick) / 1..5 (thorough) up to renaming of packages and names (bounded-exhaustive: 73 246 / 1 520 638 cases; " +
			"each looks at the state before and after its last operation, its prefixes being cases of their own); " +
			"block 2 = seeded histories of length 5..8 (sampled, NOT exhaustive: the stated bound 8 is only reached this way); " +
			"block 3 = seeded histories of 12..200 steps; blocks 0, 0b, 0c, 2 and 3 are checked after every step. " +
			"After a step every name is resolved from every package: unqualified (value and boundp/fboundp), p:name and p::name for every p; from the current package also through symbol-value, funcall, function, apply, symbol-function, the upper-case nickname and funcall of the qualified symbol (rotating); " +
			"package-use-list and package-used-by-list of every package are compared with the graph; a body compiled earlier must not call a definition that no longer exists. " +
			"Operation classes named by open known findings (evidence keys avoided:*) are generated in 1/4 of the seeded histories only (one class each); " +
			"a departure after such an operation carries its class as root= in the signature. " +
			"distinct = distinct history; non-trivial = at least one operation was executed and judged",
		N:    nCases,
		Gen:  gen,
		Exec: exec,
		Init: func() {
			debug.SetGCPercent(400)
			_, _ = sl.Eval(slip.NewScope(), "(setq *error-output* (make-broadcast-stream))")
		},
		Batch:    2000,
		HangSecs: 120,
		Assumptions: []string{
			"slip's behaviour is invariant under renaming of packages and names (symmetry reduction of the exhaustive block)",
			"histories are independent: each uses fresh package names and its packages are removed afterwards",
			"the reference model (internal/c13/model) is the trusted oracle; where the statement is silent (re-export of inherited names, export flag after makunbound, name conflicts between used packages) every reading is accepted",
			"an operation naming the package it acts on (package argument, q::name) means the same operation evaluated with that package current; export and unexport act on the variable and on the function of a symbol",
			"whether a malformed or impossible operation must be refused is not judged (an accepted one ends the history); a refused one must leave every resolution as it was",
		},
	})
}
