// Package model is the reference visibility model of check C13. It is written
// from the property statement and the Common Lisp package rules, not from
// slip's package.go: it stores only the graph (own definitions, export flags
// by name, use edges, imports) and recomputes what every name resolves to on
// every query. It does not import slip.
package model

import (
	"sort"
	"strings"
)

// Kind of a definition.
type Kind int

const (
	Var Kind = iota
	Fun
)

func (k Kind) String() string {
	if k == Var {
		return "var"
	}
	return "func"
}

// Tri is the export flag of a name in a package. Maybe is used where the
// property statement does not say whether the flag survives (the definition
// of an exported name was removed with makunbound/fmakunbound): visibility
// through a Maybe flag is optional.
type Tri int

const (
	No Tri = iota
	Yes
	Maybe
)

// Op is one step of a history. P is a package index, N a name.
type Op struct {
	K   string   `json:"k"`
	P   int      `json:"p,omitempty"`
	N   string   `json:"n,omitempty"`
	Use []int    `json:"u,omitempty"` // defpackage: packages used besides cl
	Exp []string `json:"e,omitempty"` // defpackage: exported names
	// T: 1 + the package the operation acts on when that is given explicitly
	// (the optional package argument of use-package, unuse-package, export,
	// unexport, intern, unintern; the q::name form of setq, defvar, defun,
	// makunbound, fmakunbound); 0: the current package. The meaning is that of
	// the same operation evaluated with that package current.
	T int `json:"t,omitempty"`
	// V: the spelling of the operation (designators, equivalent forms); it has
	// no meaning for the model.
	V int `json:"v,omitempty"`
}

// KindOf tells the kind a name is used for: names starting with f are
// function names, all others variable names.
func KindOf(name string) Kind {
	if strings.HasPrefix(name, "f") {
		return Fun
	}
	return Var
}

// Pkg is one package of the model.
type Pkg struct {
	Exists bool
	Uses   []int
	Exp    map[string]Tri
	Defs   [2]map[string]int // kind -> name -> value token
	Imp    [2]map[string]int // kind -> name -> package imported from (Go interface)
	// Interned: names made present by intern without a definition (an own
	// undefined symbol in CL terms): whether an inherited definition shows
	// through is left open, as for exported undefined names.
	Interned map[string]bool
	// history facts, used only to name the construct an operation is (never for a verdict)
	EverExp  map[string]bool
	EverUsed map[int]bool
}

// Cand is a definition a name may resolve to.
type Cand struct {
	Pkg int
	Val int
}

// Origin tells where a value token was created.
type Origin struct {
	Pkg  int
	Name string
	Step int
}

// World is the model state.
type World struct {
	Pkgs   []*Pkg
	Cur    int
	Origin map[int]Origin // every value token ever assigned -> package that owned the definition at that time
}

// New makes a world with n package slots of which the first init exist (bare).
func New(n, init int) *World {
	w := &World{Origin: map[int]Origin{}}
	for i := 0; i < n; i++ {
		p := newPkg()
		p.Exists = i < init
		w.Pkgs = append(w.Pkgs, p)
	}
	return w
}

func newPkg() *Pkg {
	p := &Pkg{Exp: map[string]Tri{}, Interned: map[string]bool{}, EverExp: map[string]bool{}, EverUsed: map[int]bool{}}
	for k := 0; k < 2; k++ {
		p.Defs[k] = map[string]int{}
		p.Imp[k] = map[string]int{}
	}
	return p
}

func (w *World) uses(p, q int) bool {
	for _, u := range w.Pkgs[p].Uses {
		if u == q {
			return true
		}
	}
	return false
}

// Users lists the packages that use p.
func (w *World) Users(p int) (out []int) {
	for i, pk := range w.Pkgs {
		if pk.Exists && i != p && w.uses(i, p) {
			out = append(out, i)
		}
	}
	return
}

// inherits tells whether package q sees some name only by inheritance.
func (w *World) inherits(q int) bool {
	for _, n := range Names {
		if _, own := w.Own(q, n); own {
			continue
		}
		if e := w.Resolve(q, n); 0 < len(e.Must) || 0 < len(e.May) {
			return true
		}
	}
	return false
}

// formerlyExported tells whether name was at some time exported by c or by a
// package connected to c through use edges that existed at some time (in
// either direction, transitively), c not being alone.
func (w *World) formerlyExported(c int, name string) bool {
	seen := map[int]bool{c: true}
	todo := []int{c}
	for 0 < len(todo) {
		p := todo[0]
		todo = todo[1:]
		for q, pk := range w.Pkgs {
			if seen[q] {
				continue
			}
			if w.Pkgs[p].EverUsed[q] || pk.EverUsed[p] {
				seen[q] = true
				todo = append(todo, q)
			}
		}
	}
	if len(seen) < 2 {
		return false
	}
	for q := range seen {
		if w.Pkgs[q].EverExp[name] {
			return true
		}
	}
	return false
}

// imported tells whether another package imported t's definition of name.
func (w *World) imported(t int, name string) bool {
	for i, pk := range w.Pkgs {
		if q, imp := pk.Imp[KindOf(name)][name]; imp && pk.Exists && i != t && q == t {
			return true
		}
	}
	return false
}

// uncovers tells whether some package using t, without a definition of its
// own, has another source for the name besides t's definition.
func (w *World) uncovers(t int, name string) bool {
	k := KindOf(name)
	v, had := w.Pkgs[t].Defs[k][name]
	delete(w.Pkgs[t].Defs[k], name)
	defer func() {
		if had {
			w.Pkgs[t].Defs[k][name] = v
		}
	}()
	for _, u := range w.Users(t) {
		if _, own := w.Own(u, name); own {
			continue
		}
		if e := w.Resolve(u, name); 0 < len(e.Must) || 0 < len(e.May) {
			return true
		}
	}
	return false
}

// Names is the name universe of the histories. vb and fb are the variable
// and the function of one symbol (spelled b0 in the interpreter): two
// independent definitions whose export flag is set and cleared together.
var Names = []string{"v0", "v1", "f0", "f1", "vb", "fb"}

// Sibling returns the other definition kind of a symbol that is used as a
// variable and as a function, or "".
func Sibling(name string) string {
	switch name {
	case "vb":
		return "fb"
	case "fb":
		return "vb"
	}
	return ""
}

// Exp tells the export flag of a name in a package.
func (w *World) Exp(p int, name string) Tri { return w.Pkgs[p].Exp[name] }

// Own returns the package's own definition of name.
func (w *World) Own(p int, name string) (int, bool) {
	v, ok := w.Pkgs[p].Defs[KindOf(name)][name]
	return v, ok
}

// Expect is the set of acceptable outcomes of one resolution.
type Expect struct {
	Must []Cand // if non-empty the outcome must be one of Must or May
	May  []Cand // outcomes the statement leaves open (re-export, Maybe flags)
}

// UnboundOK tells whether "unbound / undefined / not accessible" is acceptable.
func (e Expect) UnboundOK() bool { return len(e.Must) == 0 }

// Accepts tells whether a value is acceptable.
func (e Expect) Accepts(val int) bool {
	for _, c := range e.Must {
		if c.Val == val {
			return true
		}
	}
	for _, c := range e.May {
		if c.Val == val {
			return true
		}
	}
	return false
}

func addCand(cs []Cand, c Cand) []Cand {
	for _, x := range cs {
		if x == c {
			return cs
		}
	}
	return append(cs, c)
}

// Resolve computes what the unqualified name means in package p: its own
// definition, else an imported one, else an exported definition of a used
// package. Where several used packages supply one, any of them is acceptable.
func (w *World) Resolve(p int, name string) Expect {
	return w.resolve(p, name, map[int]bool{})
}

func (w *World) resolve(p int, name string, seen map[int]bool) (e Expect) {
	if seen[p] {
		return
	}
	seen[p] = true
	defer delete(seen, p)
	k := KindOf(name)
	pk := w.Pkgs[p]
	if v, ok := pk.Defs[k][name]; ok {
		e.Must = []Cand{{p, v}}
		return
	}
	if q, ok := pk.Imp[k][name]; ok {
		if v, has := w.Pkgs[q].Defs[k][name]; has {
			e.Must = []Cand{{q, v}}
			return
		}
	}
	// A package that exports a name it does not define holds (in CL terms) an
	// own undefined symbol of that name; whether an inherited definition still
	// shows through is left open.
	open := pk.Exp[name] != No || pk.Interned[name]
	defer func() {
		if open {
			e.May = append(e.Must, e.May...)
			e.Must = nil
		}
	}()
	for _, q := range pk.Uses {
		qk := w.Pkgs[q]
		if !qk.Exists {
			continue
		}
		flag := qk.Exp[name]
		if flag == No {
			continue
		}
		if v, ok := qk.Defs[k][name]; ok {
			if flag == Yes {
				e.Must = addCand(e.Must, Cand{q, v})
			} else {
				e.May = addCand(e.May, Cand{q, v})
			}
			continue
		}
		// q exports a name it does not define itself: whether what q inherits
		// is passed on is not stated by the property (CL says yes).
		sub := w.resolve(q, name, seen)
		for _, c := range sub.Must {
			e.May = addCand(e.May, c)
		}
		for _, c := range sub.May {
			e.May = addCand(e.May, c)
		}
	}
	return
}

// External computes what q:name means when evaluated in package from.
func (w *World) External(from, q int, name string) (e Expect) {
	k := KindOf(name)
	qk := w.Pkgs[q]
	flag := qk.Exp[name]
	if v, ok := qk.Defs[k][name]; ok {
		switch {
		case flag == Yes:
			e.Must = []Cand{{q, v}}
		case flag == Maybe, from == q:
			// inside q itself slip documents no difference between q:name and
			// name; not a leak to another package: tolerated
			e.May = []Cand{{q, v}}
		}
		return
	}
	// q:name of a name q only inherits reaches (if anything) a definition that
	// is exported by its own package: tolerated
	sub := w.Resolve(q, name)
	e.May = append(append(e.May, sub.Must...), sub.May...)
	return
}

// Internal computes what q::name means (from any package).
func (w *World) Internal(q int, name string) (e Expect) {
	k := KindOf(name)
	if v, ok := w.Pkgs[q].Defs[k][name]; ok {
		e.Must = []Cand{{q, v}}
		return
	}
	// q::name of a name q only inherits: CL reaches it, the statement says
	// "any definition of that package": left open.
	sub := w.Resolve(q, name)
	e.May = append(append(e.May, sub.Must...), sub.May...)
	return
}

// Target tells which package's definition a defining or undefining form
// evaluated in the current package acts on. class is own, inherited, new
// (define) or none (undefine); ok is false where the property statement does
// not determine the answer (several candidates, optional candidates, or a
// used package exports the name without defining it).
func (w *World) Target(name string) (pkg int, class string, ok bool) {
	c := w.Cur
	if _, has := w.Own(c, name); has {
		return c, "own", true
	}
	e := w.Resolve(c, name)
	switch {
	case len(e.Must) == 1 && len(e.May) == 0:
		return e.Must[0].Pkg, "inherited", true
	case len(e.Must) == 0 && len(e.May) == 0:
		k := KindOf(name)
		if _, imp := w.Pkgs[c].Imp[k][name]; imp {
			return c, "new", false
		}
		// A used package may export the name without defining it. CL would
		// define the accessible symbol in that package; the statement ("resolves
		// to nothing, so the definition is the package's own") and slip since
		// 4c81ce2 (placeholders are not handed to users) make it the current
		// package's own: judged that way, class qualifier +used-exports-undefined.
		return c, "new", true
	}
	return c, "ambiguous", false
}

// Classify names the construct an operation is, given the state before it,
// and tells whether its outcome is determined by the property (ok).
func (w *World) Classify(op Op) (class string, ok bool) {
	if op.T != 0 {
		t := op.T - 1
		if len(w.Pkgs) <= t || !w.Pkgs[t].Exists {
			return op.K + "/target-missing", false
		}
		if !TakesTarget(op.K) {
			return op.K + "/target-unsupported", false
		}
		save := w.Cur
		w.Cur = t
		defer func() { w.Cur = save }()
		op.T = 0
	}
	c := w.Cur
	switch op.K {
	case "locked":
		// an operation aimed at a name of the locked package cl: without effect
		return "locked/" + op.N, true
	case "fail":
		// an operation that must be refused (unknown package, bad argument,
		// failing value form): nothing changes
		if op.N == "rename" && !w.Pkgs[op.P].Exists {
			return "fail/invalid", false
		}
		return "fail/" + op.N, true
	case "in":
		if !w.Pkgs[op.P].Exists {
			return "in/missing", false
		}
		return "in", true
	case "use":
		if !w.Pkgs[op.P].Exists {
			return "use/invalid", false
		}
		if op.P == c {
			return "use/self", true // a package does not use itself: nothing changes
		}
		if w.uses(c, op.P) {
			return "use/again", true
		}
		// conflict: the used package exports a defined name that the current
		// package defines itself or already inherits
		if w.inherits(op.P) {
			return "use/transitive", true
		}
		for _, name := range sortedKeys(w.Pkgs[op.P].Exp) {
			if _, imp := w.Pkgs[c].Imp[KindOf(name)][name]; imp && w.Pkgs[op.P].Exp[name] != No {
				return "use/import-conflict", true
			}
		}
		cls := "use/new"
		for _, name := range sortedKeys(w.Pkgs[op.P].Exp) {
			if w.Pkgs[op.P].Exp[name] == No {
				continue
			}
			if _, own := w.Own(c, name); own {
				return "use/own-conflict", true
			}
			if _, imp := w.Pkgs[c].Imp[KindOf(name)][name]; imp {
				return "use/import-conflict", true
			}
			if _, def := w.Own(op.P, name); !def {
				continue
			}
			if e := w.Resolve(c, name); 0 < len(e.Must) || 0 < len(e.May) {
				cls = "use/conflict"
			}
		}
		return cls, true
	case "unuse":
		if !w.Pkgs[op.P].Exists {
			return "unuse/invalid", false
		}
		if op.P == c {
			return "unuse/self", true
		}
		cls := "unuse/not-used"
		if w.uses(c, op.P) {
			cls = "unuse/used"
		}
		for _, q := range w.Pkgs[c].Uses {
			if q != op.P && w.inherits(q) {
				cls += "+transitive" // a package that stays used passes on names it only inherits
				break
			}
		}
		return cls, true
	case "export", "unexport":
		cls := "undefined"
		if _, own := w.Own(c, op.N); own {
			cls = "own"
		} else if e := w.Resolve(c, op.N); 0 < len(e.Must) || 0 < len(e.May) {
			cls = "inherited"
		}
		if op.K == "export" && cls == "inherited" {
			// CL imports the inherited symbol and re-exports it; slip documents
			// nothing; the property statement is silent: not judged
			return "export/inherited", false
		}
		if op.K == "unexport" && cls == "own" && w.imported(c, op.N) {
			cls += "+imported"
		}
		if op.K == "unexport" && strings.HasPrefix(cls, "own") && w.Pkgs[c].Exp[op.N] != No && w.uncovers(c, op.N) {
			cls += "+uncovers"
		}
		return op.K + "/" + cls, true
	case "setq", "defvar", "defun":
		t, cls, ok := w.Target(op.N)
		if !ok {
			return op.K + "/" + cls, false
		}
		switch cls {
		case "new":
			for _, q := range w.Pkgs[c].Uses {
				if w.Pkgs[q].Exists && w.Pkgs[q].Exp[op.N] != No {
					cls += "+used-exports-undefined"
					break
				}
			}
			if w.formerlyExported(c, op.N) {
				cls += "+formerly-exported-name"
			}
			if w.Pkgs[c].Exp[op.N] != No {
				cls += "+exported"
			}
		default:
			if w.Pkgs[t].Exp[op.N] == No && 0 < len(w.Users(t)) {
				cls += "+private-used"
			}
			if cls == "inherited" && 0 < len(w.Users(c)) {
				cls += "+via-used"
			}
		}
		return op.K + "/" + cls, true
	case "makunbound", "fmakunbound":
		t, cls, ok := w.Target(op.N)
		if cls == "new" {
			return op.K + "/none", true
		}
		if !ok {
			return op.K + "/" + cls, false
		}
		if cls == "inherited" {
			if _, imp := w.Pkgs[c].Imp[KindOf(op.N)][op.N]; imp {
				cls += "+via-import"
			}
			if w.imported(t, op.N) {
				cls += "+imported" // a third package imported the definition
			}
		}
		if cls == "own" {
			if w.imported(t, op.N) {
				cls += "+imported" // another package imported this definition
			}
			// would an inherited definition show once the own one is gone?
			k := KindOf(op.N)
			v := w.Pkgs[t].Defs[k][op.N]
			delete(w.Pkgs[t].Defs[k], op.N)
			e := w.Resolve(t, op.N)
			w.Pkgs[t].Defs[k][op.N] = v
			if 0 < len(e.Must) || 0 < len(e.May) {
				cls += "+unshadows"
			}
			if w.Pkgs[t].Exp[op.N] != No && w.uncovers(t, op.N) {
				cls += "+uncovers"
			}
			if w.Pkgs[t].Exp[op.N] != No && 0 < len(w.Users(t)) {
				cls += "+exported-used"
			}
		}
		return op.K + "/" + cls, true
	case "defpackage":
		if w.Pkgs[op.P].Exists {
			return "defpackage/exists", true // refused: defpackage defines a new package
		}
		for _, u := range op.Use {
			if !w.Pkgs[u].Exists || u == op.P {
				return "defpackage/invalid", false
			}
		}
		for _, n := range op.Exp {
			for _, u := range op.Use {
				if w.Pkgs[u].Exp[n] != No {
					return "defpackage/export-inherited", false // as export/inherited: not judged
				}
				if e := w.Resolve(u, n); w.inherits(u) && (0 < len(e.Must) || 0 < len(e.May)) {
					return "defpackage/export-inherited", false
				}
			}
		}
		cls := "defpackage/bare"
		switch {
		case 0 < len(op.Use) && 0 < len(op.Exp):
			cls = "defpackage/use+export"
		case 0 < len(op.Use):
			cls = "defpackage/use"
		case 0 < len(op.Exp):
			cls = "defpackage/export"
		}
		for _, u := range op.Use {
			if w.inherits(u) {
				cls += "+transitive"
				break
			}
		}
		return cls, true
	case "import":
		// Go extension interface: current package imports name from op.P
		if !w.Pkgs[op.P].Exists || op.P == c {
			return "import/invalid", false
		}
		if _, def := w.Own(op.P, op.N); !def {
			return "import/undefined", false
		}
		if _, own := w.Own(c, op.N); own {
			return "import/own-conflict", false // CL signals a conflict; the statement gives the own definition precedence
		}
		if w.Pkgs[c].Exp[op.N] != No || w.Pkgs[c].Interned[op.N] {
			return "import/present-undefined", false
		}
		cls := "import/var"
		if KindOf(op.N) == Fun {
			cls = "import/func"
			if w.Pkgs[op.P].EverExp[op.N] {
				cls += "+formerly-exported-name"
			}
		}
		if e := w.Resolve(c, op.N); 0 < len(e.Must) || 0 < len(e.May) {
			cls += "+over-inherited"
		}
		return cls, true
	case "delete":
		if !w.Pkgs[op.P].Exists || op.P == c {
			return "delete/invalid", false
		}
		for _, pk := range w.Pkgs {
			for k := 0; k < 2; k++ {
				for _, q := range pk.Imp[k] {
					if pk.Exists && q == op.P {
						return "delete/imported-from", false
					}
				}
			}
		}
		if 0 < len(w.Users(op.P)) {
			return "delete/in-use", true // documented: refused with a package-error
		}
		if 2 <= len(w.Pkgs[op.P].Uses) {
			return "delete/unused+uses-several", true
		}
		return "delete/unused", true
	case "rename":
		if !w.Pkgs[op.P].Exists {
			return "rename/invalid", false
		}
		if op.P == c {
			return "rename/current", true
		}
		return "rename/other", true
	case "intern":
		_, cls, ok := w.Target(op.N)
		if !ok {
			return "intern/" + cls, false
		}
		return "intern/" + cls, true
	case "unintern":
		cls, ok := w.Classify(Op{K: "makunbound", N: op.N})
		return "unintern" + strings.TrimPrefix(cls, "makunbound"), ok
	}
	return op.K + "/unknown", false
}

// Apply performs the operation; val is the fresh value token a defining
// operation assigns. Classify must have said ok.
func (w *World) Apply(op Op, val, step int) {
	if op.T != 0 {
		save := w.Cur
		w.Cur = op.T - 1
		defer func() { w.Cur = save }()
		op.T = 0
	}
	c := w.Cur
	switch op.K {
	case "fail", "locked":
	case "in":
		w.Cur = op.P
	case "use":
		if op.P == c {
			return
		}
		if !w.uses(c, op.P) {
			w.Pkgs[c].Uses = append(w.Pkgs[c].Uses, op.P)
		}
		w.Pkgs[c].EverUsed[op.P] = true
	case "unuse":
		if op.P == c {
			return
		}
		us := w.Pkgs[c].Uses[:0:0]
		for _, u := range w.Pkgs[c].Uses {
			if u != op.P {
				us = append(us, u)
			}
		}
		w.Pkgs[c].Uses = us
	case "export":
		w.Pkgs[c].Exp[op.N] = Yes
		w.Pkgs[c].EverExp[op.N] = true
	case "unexport":
		w.Pkgs[c].Exp[op.N] = No
	case "setq", "defun":
		t, _, _ := w.Target(op.N)
		w.Pkgs[t].Defs[KindOf(op.N)][op.N] = val
		w.Origin[val] = Origin{Pkg: t, Name: op.N, Step: step}
	case "defvar":
		t, cls, _ := w.Target(op.N)
		if cls == "new" {
			w.Pkgs[t].Defs[Var][op.N] = val
			w.Origin[val] = Origin{Pkg: t, Name: op.N, Step: step}
		}
	case "makunbound", "fmakunbound":
		t, cls, _ := w.Target(op.N)
		if cls == "own" || cls == "inherited" {
			delete(w.Pkgs[t].Defs[KindOf(op.N)], op.N)
			if w.Pkgs[t].Exp[op.N] == Yes {
				w.Pkgs[t].Exp[op.N] = Maybe
			}
		}
		// whether the export flag of the name survives is not stated
		if w.Pkgs[c].Exp[op.N] == Yes {
			w.Pkgs[c].Exp[op.N] = Maybe
		}
		// nor, for a symbol with two definition kinds, whether the flag of the
		// other kind survives when that kind is not defined (a defined one
		// stays exported)
		if sib := Sibling(op.N); sib != "" {
			for _, q := range []int{t, c} {
				if _, has := w.Own(q, sib); !has && w.Pkgs[q].Exp[sib] == Yes {
					w.Pkgs[q].Exp[sib] = Maybe
				}
			}
		}
	case "defpackage":
		p := w.Pkgs[op.P]
		if p.Exists {
			return
		}
		p.Exists = true
		p.Uses = append([]int{}, op.Use...)
		for _, u := range op.Use {
			p.EverUsed[u] = true
		}
		for _, n := range op.Exp {
			p.Exp[n] = Yes
			p.EverExp[n] = true
		}
	case "import":
		w.Pkgs[c].Imp[KindOf(op.N)][op.N] = op.P
	case "delete":
		if len(w.Users(op.P)) == 0 {
			w.Pkgs[op.P] = newPkg()
		}
	case "rename":
		// the name is not part of the model
	case "intern":
		if _, cls, _ := w.Target(op.N); cls == "new" {
			w.Pkgs[c].Interned[op.N] = true
		}
	case "unintern":
		// CL: removes the symbol if it is present in the package (own);
		// an inherited symbol is left alone
		t, cls, _ := w.Target(op.N)
		if cls == "own" {
			delete(w.Pkgs[t].Defs[KindOf(op.N)], op.N)
		}
		delete(w.Pkgs[c].Interned, op.N)
		if w.Pkgs[c].Exp[op.N] == Yes {
			w.Pkgs[c].Exp[op.N] = Maybe
		}
	}
}

// ExpectError tells whether the operation is documented to be refused.
func (w *World) ExpectError(op Op) bool {
	switch op.K {
	case "fail":
		return true
	case "defpackage":
		return w.Pkgs[op.P].Exists
	}
	return op.K == "delete" && w.Pkgs[op.P].Exists && 0 < len(w.Users(op.P))
}

// TakesTarget tells whether an operation kind can name the package it acts on.
func TakesTarget(k string) bool {
	switch k {
	case "use", "unuse", "export", "unexport", "intern", "unintern",
		"setq", "defvar", "defun", "makunbound", "fmakunbound":
		return true
	}
	return false
}

// Clone returns an independent copy of the model state.
func (w *World) Clone() *World {
	n := &World{Cur: w.Cur, Origin: make(map[int]Origin, len(w.Origin))}
	for k, v := range w.Origin {
		n.Origin[k] = v
	}
	for _, p := range w.Pkgs {
		q := newPkg()
		q.Exists = p.Exists
		q.Uses = append([]int{}, p.Uses...)
		for k, v := range p.Exp {
			q.Exp[k] = v
		}
		for k := 0; k < 2; k++ {
			for n, v := range p.Defs[k] {
				q.Defs[k][n] = v
			}
			for n, v := range p.Imp[k] {
				q.Imp[k][n] = v
			}
		}
		for k, v := range p.Interned {
			q.Interned[k] = v
		}
		for k, v := range p.EverExp {
			q.EverExp[k] = v
		}
		for k, v := range p.EverUsed {
			q.EverUsed[k] = v
		}
		n.Pkgs = append(n.Pkgs, q)
	}
	return n
}

// UseList lists the packages p uses, in the order they were added.
func (w *World) UseList(p int) []int { return append([]int{}, w.Pkgs[p].Uses...) }

func sortedKeys(m map[string]Tri) []string {
	ks := make([]string, 0, len(m))
	for k := range m {
		ks = append(ks, k)
	}
	sort.Strings(ks)
	return ks
}

// Existing lists the indices of the packages that exist.
func (w *World) Existing() (out []int) {
	for i, p := range w.Pkgs {
		if p.Exists {
			out = append(out, i)
		}
	}
	return
}

// Live tells whether val is the current value of some definition and of which package.
func (w *World) Live(val int) (pkg int, live bool) {
	o, ok := w.Origin[val]
	if !ok {
		return -1, false
	}
	for i, p := range w.Pkgs {
		if v, has := p.Defs[KindOf(o.Name)][o.Name]; has && v == val {
			return i, true
		}
	}
	return o.Pkg, false
}

// Summary renders the graph compactly (for messages).
func (w *World) Summary(names []string) string {
	var b strings.Builder
	for i, p := range w.Pkgs {
		if !p.Exists {
			continue
		}
		if 0 < b.Len() {
			b.WriteString("; ")
		}
		b.WriteString("p")
		b.WriteByte(byte('0' + i))
		if i == w.Cur {
			b.WriteByte('*')
		}
		if 0 < len(p.Uses) {
			b.WriteString(" uses")
			for _, u := range p.Uses {
				b.WriteString(" p")
				b.WriteByte(byte('0' + u))
			}
		}
		ns := append([]string{}, names...)
		sort.Strings(ns)
		for _, n := range ns {
			v, has := p.Defs[KindOf(n)][n]
			flag := p.Exp[n]
			if !has && flag == No {
				continue
			}
			b.WriteString(" " + n)
			if has {
				b.WriteString("=" + itoa(v))
			}
			switch flag {
			case Yes:
				b.WriteString("(exp)")
			case Maybe:
				b.WriteString("(exp?)")
			}
		}
	}
	return b.String()
}

func itoa(v int) string {
	if v == 0 {
		return "0"
	}
	neg := v < 0
	if neg {
		v = -v
	}
	var d []byte
	for 0 < v {
		d = append([]byte{byte('0' + v%10)}, d...)
		v /= 10
	}
	if neg {
		return "-" + string(d)
	}
	return string(d)
}
