package c13

import (
	"testing"

	"verif/internal/fw"
)

func TestProf(t *testing.T) {
	fw.WorkerMain(fw.WorkerOpts{ID: "C13", Tier: "quick", Seed: 1, From: 30000, To: 31000, Out: "/tmp/c13w/prof.jsonl"})
}
