package c07

import (
	"fmt"
	"strings"
)

// The reference evaluator. It is written from the Common Lisp definition of
// the forms below (plus the documented slip forms recover, with-mutex-lock and
// panic-free ignore-errors) and shares no code with slip: environments are
// linked frames, block and tagbody instances are Go objects found lexically,
// and every transfer of control is a Go panic carrying the instance it is
// aimed at, so an exit can only ever land on its lexically matching target.

type rval interface{} // nil, int, rtrue, rsym, rstr, rlist, *rcond, *rmv, *rmutex, *rstream, *rclosure

type (
	rtrue    struct{}
	rsym     string
	rstr     string
	rlist    []rval
	rcond    struct{ src int }     // condition made by error source src
	rmv      struct{ vals []rval } // multiple values
	rmutex   struct{ idx int }     // mutex variable m<idx>
	rstream  struct{ open bool }   // stream opened by with-open-file
	rclosure struct {
		params []string
		body   []*sx
		env    *env
		name   string // non-empty for defun: implicit block
	}
)

// error sources
const (
	srcError   = iota // (error "c07")
	srcDiv            // (/ 1 0)
	srcCar            // (car 1)
	srcUnbound        // reference to an unbound variable
	srcControl        // exit with no lexically visible target: some error, class not pinned
)

type env struct {
	parent *env
	vars   map[string]rval
	block  *blockInst
	tb     *tbInst
}

type blockInst struct {
	name string
	live bool
}

type tbInst struct {
	tags map[string]int
	live bool
}

type (
	retExit struct {
		b *blockInst
		v rval
	}
	goExit struct {
		tb  *tbInst
		idx int
	}
	errExit struct{ c *rcond }
	// refAbort: the program is outside what the oracle judges.
	refAbort struct{ why string }
)

// event is one observation made by a trace primitive.
type event struct {
	K     int    `json:"k"`
	Locks uint32 `json:"locks,omitempty"` // bit i-1: mutex m<i> is held
	Open  uint32 `json:"open,omitempty"`  // bit i-1: registered stream <i> is open
	Class string `json:"class,omitempty"` // vcl: source index of the condition ("src0"...) resolved by the harness
}

type refRun struct {
	trace   []event
	held    map[int]bool
	streams map[int]*rstream
	all     []*rstream
	hits    map[int]int
	steps   int
	funcs   map[string]*rclosure
	global  *env
}

type refResult struct {
	Value   string // rendering of the primary value
	ErrSrc  int    // -1: value; otherwise the error source that surfaced
	Trace   []event
	Held    uint32 // mutexes still held at the end
	OpenEnd int    // streams still open at the end
	Abort   string // non-empty: outside the oracle
	Steps   int
}

func newRefRun(nMutex int) *refRun {
	r := &refRun{held: map[int]bool{}, streams: map[int]*rstream{}, hits: map[int]int{}, funcs: map[string]*rclosure{}}
	r.global = &env{vars: map[string]rval{"sv": 0}}
	for i := 1; i <= nMutex; i++ {
		r.global.vars[fmt.Sprintf("m%d", i)] = &rmutex{idx: i}
	}
	return r
}

// runRef evaluates the program forms in order.
func runRef(forms []*sx, nMutex int) (res refResult) {
	r := newRefRun(nMutex)
	res.ErrSrc = -1
	defer func() {
		res.Trace = r.trace
		res.Steps = r.steps
		for i := range r.held {
			if r.held[i] {
				res.Held |= 1 << uint(i-1)
			}
		}
		for _, s := range r.all {
			if s.open {
				res.OpenEnd++
			}
		}
		if rec := recover(); rec != nil {
			switch tr := rec.(type) {
			case *errExit:
				res.ErrSrc = tr.c.src
			case *refAbort:
				res.Abort = tr.why
			case *retExit, *goExit:
				res.Abort = "exit escaped to top level"
			default:
				panic(rec)
			}
		}
	}()
	var v rval
	for _, f := range forms {
		v = r.eval(f, r.global)
	}
	res.Value = showR(topPrimary(v))
	return
}

// primary is the value a single-value position receives. The only multiple
// values the subset can produce are the (nil, condition) of ignore-errors; how
// slip narrows them belongs to another property (C01), so the oracle does not
// judge programs in which they are consumed rather than discarded or returned.
func primary(v rval) rval {
	if _, ok := v.(*rmv); ok {
		abort("multiple values consumed by a single-value position")
	}
	return v
}

func topPrimary(v rval) rval {
	if mv, ok := v.(*rmv); ok {
		if len(mv.vals) == 0 {
			return nil
		}
		return mv.vals[0]
	}
	return v
}

func showR(v rval) string {
	switch tv := v.(type) {
	case nil:
		return "nil"
	case int:
		return fmt.Sprint(tv)
	case rtrue:
		return "t"
	case rsym:
		return string(tv)
	case rstr:
		return string(tv)
	case rlist:
		if len(tv) == 0 {
			return "nil"
		}
		parts := make([]string, len(tv))
		for i, e := range tv {
			parts[i] = showR(e)
		}
		return "(" + strings.Join(parts, " ") + ")"
	case *rcond:
		return "#<condition>"
	case *rmutex:
		return "#<mutex>"
	case *rstream:
		return "#<file-stream>"
	case *rclosure:
		return "#<function>"
	}
	return fmt.Sprintf("#<%T>", v)
}

func abort(format string, a ...any) { panic(&refAbort{why: fmt.Sprintf(format, a...)}) }

func (r *refRun) signal(src int) { panic(&errExit{c: &rcond{src: src}}) }

func (r *refRun) record(k int, class string) {
	e := event{K: k, Class: class}
	for i, h := range r.held {
		if h {
			e.Locks |= 1 << uint(i-1)
		}
	}
	for i, s := range r.streams {
		if s.open {
			e.Open |= 1 << uint(i-1)
		}
	}
	r.trace = append(r.trace, e)
}

func (e *env) lookup(name string) (rval, bool) {
	for f := e; f != nil; f = f.parent {
		if f.vars != nil {
			if v, ok := f.vars[name]; ok {
				return v, true
			}
		}
	}
	return nil, false
}

func (e *env) assign(name string, v rval) bool {
	for f := e; f != nil; f = f.parent {
		if f.vars != nil {
			if _, ok := f.vars[name]; ok {
				f.vars[name] = v
				return true
			}
		}
	}
	return false
}

func (e *env) findBlock(name string) *blockInst {
	for f := e; f != nil; f = f.parent {
		if f.block != nil && f.block.name == name {
			return f.block
		}
	}
	return nil
}

func (e *env) findTag(tag string) (*tbInst, int) {
	for f := e; f != nil; f = f.parent {
		if f.tb != nil {
			if idx, ok := f.tb.tags[tag]; ok {
				return f.tb, idx
			}
		}
	}
	return nil, 0
}

// truth evaluates a value in a test position.
func truth(v rval) bool {
	if mv, ok := v.(*rmv); ok {
		// Multiple values in a test position: only the primary value counts in
		// CL; slip's handling of that belongs to another property, so the
		// oracle does not judge programs that depend on it.
		abort("multiple values reach a test position")
		_ = mv
	}
	return v != nil
}

func (r *refRun) body(forms []*sx, e *env) (v rval) {
	for _, f := range forms {
		v = r.eval(f, e)
	}
	return
}

// inBlock runs fn inside a fresh block instance named name.
func (r *refRun) inBlock(name string, e *env, fn func(e *env) rval) (v rval) {
	b := &blockInst{name: name, live: true}
	ne := &env{parent: e, block: b}
	defer func() {
		b.live = false
		if rec := recover(); rec != nil {
			if re, ok := rec.(*retExit); ok && re.b == b {
				v = re.v
				return
			}
			panic(rec)
		}
	}()
	return fn(ne)
}

// tagbody runs statements with tags; atoms are tags and are never evaluated.
func (r *refRun) tagbody(stmts []*sx, e *env) {
	tb := &tbInst{tags: map[string]int{}, live: true}
	for i, s := range stmts {
		if !s.IsL {
			tb.tags[s.Atom] = i
		}
	}
	ne := &env{parent: e, tb: tb}
	defer func() { tb.live = false }()
	pc := 0
	for pc < len(stmts) {
		next := r.tbStep(stmts, pc, tb, ne)
		pc = next
	}
}

func (r *refRun) tbStep(stmts []*sx, pc int, tb *tbInst, e *env) (next int) {
	defer func() {
		if rec := recover(); rec != nil {
			if ge, ok := rec.(*goExit); ok && ge.tb == tb {
				next = ge.idx + 1
				return
			}
			panic(rec)
		}
	}()
	for ; pc < len(stmts); pc++ {
		if stmts[pc].IsL && 0 < len(stmts[pc].List) {
			r.eval(stmts[pc], e)
		}
	}
	return pc
}

// protect runs fn and then cleanup, on every way out of fn.
func (r *refRun) protect(fn func() rval, cleanup func()) (v rval) {
	var pending any
	func() {
		defer func() { pending = recover() }()
		v = fn()
	}()
	if _, isAbort := pending.(*refAbort); isAbort {
		panic(pending)
	}
	cleanup()
	if pending != nil {
		panic(pending)
	}
	return v
}

func (r *refRun) call(c *rclosure, args []rval) rval {
	if len(args) != len(c.params) {
		abort("arity")
	}
	ne := &env{parent: c.env, vars: map[string]rval{}}
	for i, p := range c.params {
		ne.vars[p] = args[i]
	}
	if c.name != "" {
		return r.inBlock(c.name, ne, func(be *env) rval { return r.body(c.body, be) })
	}
	return r.body(c.body, ne)
}

func (r *refRun) args(forms []*sx, e *env) []rval {
	out := make([]rval, len(forms))
	for i, f := range forms {
		out[i] = primary(r.eval(f, e))
	}
	return out
}

func needInt(v rval) int {
	n, ok := v.(int)
	if !ok {
		abort("integer expected, got %s", showR(v))
	}
	return n
}

func symList(s *sx) []string {
	var out []string
	for _, p := range s.List {
		out = append(out, p.Atom)
	}
	return out
}

func (r *refRun) eval(f *sx, e *env) rval {
	r.steps++
	if 200000 < r.steps {
		abort("reference step budget")
	}
	if !f.IsL {
		if n, ok := f.isInt(); ok {
			return n
		}
		switch {
		case f.Atom == "nil":
			return nil
		case f.Atom == "t":
			return rtrue{}
		case strings.HasPrefix(f.Atom, "\""):
			return rstr(f.Atom)
		case strings.HasPrefix(f.Atom, ":"):
			return rsym(f.Atom)
		}
		if v, ok := e.lookup(f.Atom); ok {
			return v
		}
		r.signal(srcUnbound)
	}
	if len(f.List) == 0 {
		return nil
	}
	h := f.head()
	a := f.List[1:]
	switch h {
	case "quote":
		return quoted(a[0])
	case "progn":
		return r.body(a, e)
	case "let", "let*":
		ne := &env{parent: e, vars: map[string]rval{}}
		for _, b := range a[0].List {
			var name string
			var v rval
			if b.IsL {
				name = b.List[0].Atom
				if 1 < len(b.List) {
					if h == "let" {
						v = primary(r.eval(b.List[1], e))
					} else {
						v = primary(r.eval(b.List[1], ne))
					}
				}
			} else {
				name = b.Atom
			}
			ne.vars[name] = v
		}
		return r.body(a[1:], ne)
	case "setq":
		v := primary(r.eval(a[1], e))
		if !e.assign(a[0].Atom, v) {
			abort("setq of unbound %s", a[0].Atom)
		}
		return v
	case "when":
		if truth(r.eval(a[0], e)) {
			return r.body(a[1:], e)
		}
		return nil
	case "unless":
		if !truth(r.eval(a[0], e)) {
			return r.body(a[1:], e)
		}
		return nil
	case "if":
		if truth(r.eval(a[0], e)) {
			return r.eval(a[1], e)
		}
		if 2 < len(a) {
			return r.eval(a[2], e)
		}
		return nil
	case "cond":
		for _, cl := range a {
			tv := r.eval(cl.List[0], e)
			if truth(tv) {
				if len(cl.List) == 1 {
					return primary(tv)
				}
				return r.body(cl.List[1:], e)
			}
		}
		return nil
	case "case":
		key := primary(r.eval(a[0], e))
		for _, cl := range a[1:] {
			k := cl.List[0]
			match := false
			switch {
			case !k.IsL && (k.Atom == "t" || k.Atom == "otherwise"):
				match = true
			case k.IsL:
				for _, kk := range k.List {
					if eqlR(quoted(kk), key) {
						match = true
					}
				}
			default:
				match = eqlR(quoted(k), key)
			}
			if match {
				return r.body(cl.List[1:], e)
			}
		}
		return nil
	case "and":
		var v rval = rtrue{}
		for i, x := range a {
			v = r.eval(x, e)
			if i < len(a)-1 {
				if !truth(v) {
					return nil
				}
			}
		}
		return v
	case "or":
		for i, x := range a {
			v := r.eval(x, e)
			if i == len(a)-1 {
				return v
			}
			if truth(v) {
				return primary(v)
			}
		}
		return nil
	case "block":
		name := a[0].Atom
		return r.inBlock(name, e, func(be *env) rval { return r.body(a[1:], be) })
	case "return-from", "return":
		name := "nil"
		rest := a
		if h == "return-from" {
			name = a[0].Atom
			rest = a[1:]
		}
		b := e.findBlock(name)
		if b == nil || !b.live {
			// No lexically visible block: not a conforming program. Whatever
			// the implementation does, it must not transfer control anywhere.
			r.signal(srcControl)
		}
		var v rval
		if 0 < len(rest) {
			v = r.eval(rest[0], e)
		}
		panic(&retExit{b: b, v: v})
	case "tagbody":
		r.tagbody(a, e)
		return nil
	case "go":
		tb, idx := e.findTag(a[0].Atom)
		if tb == nil || !tb.live {
			r.signal(srcControl)
		}
		panic(&goExit{tb: tb, idx: idx})
	case "unwind-protect":
		return r.protect(func() rval { return r.eval(a[0], e) }, func() { r.body(a[1:], e) })
	case "with-mutex-lock":
		m, ok := primary(r.eval(a[0], e)).(*rmutex)
		if !ok {
			abort("with-mutex-lock on a non-mutex")
		}
		if r.held[m.idx] {
			abort("mutex taken twice (deadlock)")
		}
		r.held[m.idx] = true
		return r.protect(func() rval { return r.body(a[1:], e) }, func() { r.held[m.idx] = false })
	case "with-open-file":
		spec := a[0].List
		st := &rstream{open: true}
		r.all = append(r.all, st)
		ne := &env{parent: e, vars: map[string]rval{spec[0].Atom: st}}
		return r.protect(func() rval { return r.body(a[1:], ne) }, func() { st.open = false })
	case "ignore-errors":
		return r.catching(func() rval { return r.body(a, e) }, func(c *rcond) rval {
			return &rmv{vals: []rval{nil, c}}
		})
	case "recover":
		return r.catching(func() rval { return r.body(a[2:], e) }, func(c *rcond) rval {
			ne := &env{parent: e, vars: map[string]rval{a[0].Atom: c}}
			return r.eval(a[1], ne)
		})
	case "dolist":
		spec := a[0].List
		return r.inBlock("nil", e, func(be *env) rval {
			lv := primary(r.eval(spec[1], be))
			var items rlist
			switch tv := lv.(type) {
			case nil:
			case rlist:
				items = tv
			default:
				abort("dolist over a non-list")
			}
			ne := &env{parent: be, vars: map[string]rval{spec[0].Atom: nil}}
			for _, it := range items {
				ne.vars[spec[0].Atom] = it
				r.tagbody(a[1:], ne)
			}
			ne.vars[spec[0].Atom] = nil
			if 2 < len(spec) {
				return r.eval(spec[2], ne)
			}
			return nil
		})
	case "dotimes":
		spec := a[0].List
		return r.inBlock("nil", e, func(be *env) rval {
			n := needInt(primary(r.eval(spec[1], be)))
			if 50 < n {
				abort("dotimes count too large")
			}
			ne := &env{parent: be, vars: map[string]rval{spec[0].Atom: 0}}
			for i := 0; i < n; i++ {
				ne.vars[spec[0].Atom] = i
				r.tagbody(a[1:], ne)
			}
			ne.vars[spec[0].Atom] = n
			if 2 < len(spec) {
				return r.eval(spec[2], ne)
			}
			return nil
		})
	case "do", "do*":
		seq := h == "do*"
		return r.inBlock("nil", e, func(be *env) rval {
			ne := &env{parent: be, vars: map[string]rval{}}
			binds := a[0].List
			inits := make([]rval, len(binds))
			for i, b := range binds {
				if b.IsL && 1 < len(b.List) {
					if seq {
						inits[i] = primary(r.eval(b.List[1], ne))
						ne.vars[b.List[0].Atom] = inits[i]
					} else {
						inits[i] = primary(r.eval(b.List[1], be))
					}
				} else if seq {
					if b.IsL {
						ne.vars[b.List[0].Atom] = nil
					} else {
						ne.vars[b.Atom] = nil
					}
				}
			}
			if !seq {
				for i, b := range binds {
					if b.IsL {
						ne.vars[b.List[0].Atom] = inits[i]
					} else {
						ne.vars[b.Atom] = nil
					}
				}
			}
			end := a[1].List
			for iter := 0; ; iter++ {
				if 60 < iter {
					abort("do loop too long")
				}
				if truth(r.eval(end[0], ne)) {
					return r.body(end[1:], ne)
				}
				r.tagbody(a[2:], ne)
				type kv struct {
					k string
					v rval
				}
				var steps []kv
				for _, b := range binds {
					if b.IsL && 2 < len(b.List) {
						v := primary(r.eval(b.List[2], ne))
						if seq {
							ne.vars[b.List[0].Atom] = v
						} else {
							steps = append(steps, kv{b.List[0].Atom, v})
						}
					}
				}
				for _, st := range steps {
					ne.vars[st.k] = st.v
				}
			}
		})
	case "multiple-value-bind":
		v := r.eval(a[1], e)
		var vals []rval
		if mv, ok := v.(*rmv); ok {
			vals = mv.vals
		} else {
			vals = []rval{v}
		}
		ne := &env{parent: e, vars: map[string]rval{}}
		for i, p := range a[0].List {
			if i < len(vals) {
				ne.vars[p.Atom] = vals[i]
			} else {
				ne.vars[p.Atom] = nil
			}
		}
		return r.body(a[2:], ne)
	case "lambda":
		return &rclosure{params: symList(a[0]), body: a[1:], env: e}
	case "defun":
		// (a defun that is not at top level closes over the blocks and variables around it)
		r.funcs[a[0].Atom] = &rclosure{params: symList(a[1]), body: a[2:], env: e, name: a[0].Atom}
		return rsym(a[0].Atom)
	case "funcall":
		vs := r.args(a, e)
		c, ok := vs[0].(*rclosure)
		if !ok {
			abort("funcall of a non-function")
		}
		return r.call(c, vs[1:])
	case "prog", "prog*":
		return r.inBlock("nil", e, func(be *env) rval {
			ne := &env{parent: be, vars: map[string]rval{}}
			for _, b := range a[0].List {
				var v rval
				name := b.Atom
				if b.IsL {
					name = b.List[0].Atom
					if 1 < len(b.List) {
						if h == "prog" {
							v = primary(r.eval(b.List[1], be))
						} else {
							v = primary(r.eval(b.List[1], ne))
						}
					}
				}
				ne.vars[name] = v
			}
			r.tagbody(a[1:], ne)
			return nil
		})
	case "loop":
		return r.inBlock("nil", e, func(be *env) rval {
			for iter := 0; iter < 60; iter++ {
				r.body(a, be)
			}
			abort("loop too long")
			return nil
		})
	case "mapc", "maplist", "mapl":
		vs := r.args(a, e)
		c, ok := vs[0].(*rclosure)
		if !ok {
			abort("%s of a non-function", h)
		}
		items, _ := vs[1].(rlist)
		var out rlist
		for i, it := range items {
			arg := it
			if h != "mapc" {
				arg = items[i:]
			}
			out = append(out, primary(r.call(c, []rval{arg})))
		}
		if h == "maplist" {
			if len(out) == 0 {
				return nil
			}
			return out
		}
		return vs[1]
	case "mapcar":
		vs := r.args(a, e)
		c, ok := vs[0].(*rclosure)
		if !ok {
			abort("mapcar of a non-function")
		}
		var out rlist
		items, _ := vs[1].(rlist)
		for _, it := range items {
			out = append(out, primary(r.call(c, []rval{it})))
		}
		if len(out) == 0 {
			return nil
		}
		return out
	case "list":
		vs := r.args(a, e)
		if len(vs) == 0 {
			return nil
		}
		return rlist(vs)
	case "error":
		r.args(a, e)
		r.signal(srcError)
	case "/":
		vs := r.args(a, e)
		x, y := needInt(vs[0]), needInt(vs[1])
		if y == 0 {
			r.signal(srcDiv)
		}
		if x%y != 0 {
			abort("non-integer quotient")
		}
		return x / y
	case "car":
		vs := r.args(a, e)
		switch tv := vs[0].(type) {
		case nil:
			return nil
		case rlist:
			return tv[0]
		}
		r.signal(srcCar)
	case "+":
		s := 0
		for _, v := range r.args(a, e) {
			s += needInt(v)
		}
		return s
	case "1+":
		return needInt(r.args(a, e)[0]) + 1
	case "eql", "=":
		vs := r.args(a, e)
		if eqlR(vs[0], vs[1]) {
			return rtrue{}
		}
		return nil
	case "<", ">=":
		vs := r.args(a, e)
		x, y := needInt(vs[0]), needInt(vs[1])
		if (h == "<" && x < y) || (h == ">=" && x >= y) {
			return rtrue{}
		}
		return nil
	case "not", "null":
		if r.args(a, e)[0] == nil {
			return rtrue{}
		}
		return nil
	case "vmx":
		v, ok := r.global.vars[fmt.Sprintf("m%d", needInt(r.args(a, e)[0]))]
		if !ok {
			abort("no such mutex")
		}
		return v
	case "vtr":
		k := needInt(r.args(a, e)[0])
		r.record(k, "")
		return k
	case "vtn":
		k := needInt(r.args(a, e)[0])
		r.record(k, "")
		return nil
	case "vhit":
		vs := r.args(a, e)
		k, n := needInt(vs[0]), needInt(vs[1])
		r.hits[k]++
		r.record(k, "")
		if r.hits[k] == n {
			return rtrue{}
		}
		return nil
	case "vreg":
		vs := r.args(a, e)
		n := needInt(vs[0])
		st, ok := vs[1].(*rstream)
		if !ok {
			abort("vreg of a non-stream")
		}
		r.streams[n] = st
		r.record(900+n, "")
		return nil
	case "vcl":
		vs := r.args(a, e)
		k := needInt(vs[0])
		c, ok := vs[1].(*rcond)
		if !ok {
			abort("vcl of a non-condition")
		}
		r.record(k, fmt.Sprintf("src%d", c.src))
		return k
	default:
		if c, ok := r.funcs[h]; ok {
			return r.call(c, r.args(a, e))
		}
		abort("form %s is not modelled", h)
	}
	return nil
}

// catching runs fn; an error (and only an error) is handed to handler.
func (r *refRun) catching(fn func() rval, handler func(c *rcond) rval) (v rval) {
	var caught *rcond
	func() {
		defer func() {
			if rec := recover(); rec != nil {
				if ee, ok := rec.(*errExit); ok {
					caught = ee.c
					return
				}
				panic(rec)
			}
		}()
		v = fn()
	}()
	if caught != nil {
		return handler(caught)
	}
	return v
}

func quoted(s *sx) rval {
	if !s.IsL {
		if n, ok := s.isInt(); ok {
			return n
		}
		switch s.Atom {
		case "nil":
			return nil
		case "t":
			return rtrue{}
		}
		return rsym(s.Atom)
	}
	if len(s.List) == 0 {
		return nil
	}
	out := make(rlist, len(s.List))
	for i, e := range s.List {
		out[i] = quoted(e)
	}
	return out
}

func eqlR(a, b rval) bool {
	switch ta := a.(type) {
	case nil:
		return b == nil
	case int:
		tb, ok := b.(int)
		return ok && ta == tb
	case rsym:
		tb, ok := b.(rsym)
		return ok && ta == tb
	case rtrue:
		_, ok := b.(rtrue)
		return ok
	}
	return false
}
