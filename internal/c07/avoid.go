package c07

// avoid lists the constructs that fail on the current tree and are listed open in
// findings/C07.json. The clean stream of the generator does not produce them;
// the cell block and the dirty minority stream do.
var avoid = map[string]bool{
	"exit=go to=none": true,
}
