package c07

// avoid lists the constructs that fail on the current tree and are listed open in
// findings/C07.json. The clean stream of the generator does not produce them;
// the cell block and the dirty minority stream do.
var avoid = map[string]bool{
	"exit=go through=mapc-lambda.body":             true,
	"exit=go through=mapc-lambda.last":             true,
	"exit=go through=mapl-lambda.body":             true,
	"exit=go through=mapl-lambda.last":             true,
	"exit=go through=maplist-lambda.body":          true,
	"exit=go through=maplist-lambda.last":          true,
	"exit=go to=none":                              true,
	"exit=return through=mapc-lambda.body":         true,
	"exit=return through=mapc-lambda.last":         true,
	"exit=return through=mapl-lambda.body":         true,
	"exit=return through=mapl-lambda.last":         true,
	"exit=return through=maplist-lambda.body":      true,
	"exit=return through=maplist-lambda.last":      true,
	"exit=return-from through=mapc-lambda.body":    true,
	"exit=return-from through=mapc-lambda.last":    true,
	"exit=return-from through=mapl-lambda.body":    true,
	"exit=return-from through=mapl-lambda.last":    true,
	"exit=return-from through=maplist-lambda.body": true,
	"exit=return-from through=maplist-lambda.last": true,
}
