// Package c07 monitors non-local exits (return-from, return, go, errors) and
// the cleanups they must run (unwind-protect, with-mutex-lock, with-open-file)
// in the real interpreter against an independent reference evaluator.
package c07

import (
	"fmt"
	"math/rand/v2"
	"os"
	"sort"
	"strings"
	"sync"

	"github.com/ohler55/slip"
	"github.com/ohler55/slip/pkg/gi"

	"verif/internal/fw"
	"verif/internal/sl"
)

// Case is one program. Everything the monitor needs is recomputed from Src.
type Case struct {
	Src    string `json:"src"`
	Stream string `json:"stream"` // cell | pair | triple | random | special
	Label  string `json:"label,omitempty"`
}

// ---------------------------------------------------------------------------
// trace primitives registered in the real interpreter

type realState struct {
	trace   []event
	mutexes []*gi.Mutex
	streams map[int]*slip.FileStream
	all     []*slip.FileStream
	hits    map[int]int
	steps   int
	budget  bool
	expect  []event // trace of the reference run
	stopped bool
}

var cur realState

// the real run may take this many evaluation steps (set per program from the
// reference run: 40 x its steps + 2000)
var stepBudget = 60000

func lockBits() (bits uint32) {
	for i, m := range cur.mutexes {
		sm := (*sync.Mutex)(m)
		if sm.TryLock() {
			sm.Unlock()
		} else {
			bits |= 1 << uint(i)
		}
	}
	return
}

func streamOpen(fs *slip.FileStream) bool {
	_, err := (*os.File)(fs).Stat()
	return err == nil
}

func openBits() (bits uint32) {
	for i, fs := range cur.streams {
		if streamOpen(fs) {
			bits |= 1 << uint(i-1)
		}
	}
	return
}

func record(k int, class string) {
	e := event{K: k, Locks: lockBits(), Open: openBits(), Class: class}
	i := len(cur.trace)
	cur.trace = append(cur.trace, e)
	// A mutex that is held where the reference run has it free would turn the
	// next with-mutex-lock on it into a deadlock (a hung worker instead of a
	// verdict): stop the run at the first such marker; the trace comparison
	// reports it as mutex-state.
	if i < len(cur.expect) && cur.expect[i].K == k && e.Locks&^cur.expect[i].Locks != 0 {
		cur.stopped = true
	}
	if cur.stopped {
		panic(&slip.Panic{Message: "c07 run stopped: a mutex is held that must be free"})
	}
}

type prim struct {
	slip.Function
	fn func(s *slip.Scope, args slip.List, depth int) slip.Object
}

func (p *prim) Call(s *slip.Scope, args slip.List, depth int) slip.Object {
	return p.fn(s, args, depth)
}

func intArg(s *slip.Scope, depth int, args slip.List, i int) int {
	if len(args) <= i {
		slip.ErrorPanic(s, depth, "c07 primitive: missing argument %d", i)
	}
	n, ok := args[i].(slip.Fixnum)
	if !ok {
		slip.TypePanic(s, depth, "k", args[i], "fixnum")
	}
	return int(n)
}

func define(name string, fn func(s *slip.Scope, args slip.List, depth int) slip.Object) {
	slip.Define(
		func(args slip.List) slip.Object {
			p := &prim{Function: slip.Function{Name: name, Args: args}, fn: fn}
			p.Self = p
			return p
		},
		&slip.FuncDoc{
			Name: name,
			Args: []*slip.DocArg{{Name: "&rest"}, {Name: "args", Type: "object", Text: "arguments"}},
			Text: "verification trace primitive",
		}, &slip.UserPkg)
}

var initOnce sync.Once

func initReal() {
	initOnce.Do(func() {
		define("vtr", func(s *slip.Scope, args slip.List, depth int) slip.Object {
			k := intArg(s, depth, args, 0)
			record(k, "")
			return slip.Fixnum(k)
		})
		define("vmx", func(s *slip.Scope, args slip.List, depth int) slip.Object {
			n := intArg(s, depth, args, 0)
			if n < 1 || len(cur.mutexes) < n {
				slip.ErrorPanic(s, depth, "c07 primitive: no mutex %d", n)
			}
			sm := (*sync.Mutex)(cur.mutexes[n-1])
			if !sm.TryLock() {
				// entering with-mutex-lock now would deadlock
				cur.stopped = true
				panic(&slip.Panic{Message: "c07 run stopped: a mutex is held that must be free"})
			}
			sm.Unlock()
			return cur.mutexes[n-1]
		})
		define("vtn", func(s *slip.Scope, args slip.List, depth int) slip.Object {
			record(intArg(s, depth, args, 0), "")
			return nil
		})
		define("vhit", func(s *slip.Scope, args slip.List, depth int) slip.Object {
			k, n := intArg(s, depth, args, 0), intArg(s, depth, args, 1)
			cur.hits[k]++
			record(k, "")
			if cur.hits[k] == n {
				return slip.True
			}
			return nil
		})
		define("vreg", func(s *slip.Scope, args slip.List, depth int) slip.Object {
			n := intArg(s, depth, args, 0)
			fs, ok := args[1].(*slip.FileStream)
			if !ok {
				slip.TypePanic(s, depth, "stream", args[1], "file-stream")
			}
			cur.streams[n] = fs
			cur.all = append(cur.all, fs)
			record(900+n, "")
			return nil
		})
		define("vcl", func(s *slip.Scope, args slip.List, depth int) slip.Object {
			k := intArg(s, depth, args, 0)
			class := "?"
			if 1 < len(args) && args[1] != nil {
				if h := args[1].Hierarchy(); 0 < len(h) {
					class = string(h[0])
				}
			}
			record(k, class)
			return slip.Fixnum(k)
		})
		if err := os.WriteFile(inFile, []byte("c07 input\n"), 0o644); err != nil {
			panic(err)
		}
		calibrate()
	})
}

// calib[src] is the class the error source signals when evaluated alone at
// top level: the "original condition class" nested programs must surface.
var calib [4]string

func calibrate() {
	for i, mk := range errSites {
		_, err := sl.Eval(slip.NewScope(), mk().String())
		if err == nil {
			calib[i] = "<no error>"
			continue
		}
		calib[i] = err.Class
	}
}

// ---------------------------------------------------------------------------

type realResult struct {
	Value    string
	Err      *sl.Err
	Trace    []event
	Held     uint32
	OpenEnd  int
	Budget   bool
	Stopped  bool   // stopped early: a mutex was held where it must be free
	Leftover string // an exit marker object came back as the value
}

func runReal(src string, nMutex int, expect []event) (res realResult) {
	initReal()
	cur = realState{streams: map[int]*slip.FileStream{}, hits: map[int]int{}, expect: expect}
	scope := slip.NewScope()
	for i := 1; i <= nMutex; i++ {
		m := (*gi.Mutex)(&sync.Mutex{})
		cur.mutexes = append(cur.mutexes, m)
		scope.Let(slip.Symbol(fmt.Sprintf("m%d", i)), m)
	}
	scope.Let(slip.Symbol("sv"), slip.Fixnum(0))
	scope.InterruptCheck = func() {
		cur.steps++
		if cur.stopped {
			panic(&slip.Panic{Message: "c07 run stopped: a mutex is held that must be free"})
		}
		if stepBudget < cur.steps {
			cur.budget = true
			// a *slip.Panic passes through slip's own unwinding untouched
			panic(&slip.Panic{Message: "c07 step budget exhausted"})
		}
	}
	var val slip.Object
	func() {
		defer func() {
			if r := recover(); r != nil {
				res.Err = sl.Classify(r)
			}
		}()
		code := slip.ReadString(src, scope)
		val = code.Eval(scope, nil)
	}()
	res.Budget = res.Budget || cur.budget
	res.Stopped = cur.stopped
	sl.Reset()
	res.Trace = cur.trace
	res.Held = lockBits()
	for _, m := range cur.mutexes { // leave nothing locked behind
		sm := (*sync.Mutex)(m)
		sm.TryLock()
		sm.Unlock()
	}
	for _, fs := range cur.all {
		if streamOpen(fs) {
			res.OpenEnd++
			_ = fs.Close()
		}
	}
	if res.Err == nil && !res.Budget {
		if vs, ok := val.(slip.Values); ok {
			if len(vs) == 0 {
				val = nil
			} else {
				val = vs[0]
			}
		}
		switch tv := val.(type) {
		case *slip.ReturnResult:
			res.Leftover = "return-result"
			res.Value = "#<return-result " + sl.Show(tv.Tag) + ">"
		default:
			res.Value = sl.Show(val)
			if strings.HasPrefix(res.Value, "#<") && strings.Contains(fmt.Sprintf("%T", val), "GoTo") {
				res.Leftover = "go-to"
			}
		}
	}
	return
}

func showTrace(t []event) string {
	var b strings.Builder
	for i, e := range t {
		if 0 < i {
			b.WriteByte(' ')
		}
		fmt.Fprintf(&b, "%d", e.K)
		if e.Locks != 0 {
			fmt.Fprintf(&b, "L%b", e.Locks)
		}
		if e.Open != 0 {
			fmt.Fprintf(&b, "S%b", e.Open)
		}
		if e.Class != "" {
			fmt.Fprintf(&b, "<%s>", e.Class)
		}
		if 60 < i {
			fmt.Fprintf(&b, " …(%d events)", len(t))
			break
		}
	}
	return "[" + b.String() + "]"
}

type verdict struct {
	fail   string // "" = agrees
	detail string
	ref    refResult
	real   realResult
	abort  string
}

// judge runs src in the reference evaluator and in the real interpreter and
// compares everything the property speaks about.
func judge(src string) (v verdict, an *analysis) {
	// the reference reads the text with every name folded to lower case: names of blocks, tags,
	// functions and variables are not case sensitive (the generators write lower case only; the
	// letter-case specials spell one occurrence of a name differently)
	forms, err := parseAll(foldCase(src))
	if err != nil {
		v.abort = "harness parse: " + err.Error()
		return
	}
	an = analyze(forms)
	if an.outside != "" {
		v.abort = an.outside
		return
	}
	v.ref = runRef(forms, an.nMutex)
	if v.ref.Abort != "" {
		v.abort = v.ref.Abort
		return
	}
	for i := range v.ref.Trace {
		if c := v.ref.Trace[i].Class; strings.HasPrefix(c, "src") {
			n := int(c[3] - '0')
			if n < len(calib) {
				initReal()
				v.ref.Trace[i].Class = calib[n]
			} else {
				v.ref.Trace[i].Class = "*"
			}
		}
	}
	stepBudget = 2000 + 40*v.ref.Steps
	v.real = runReal(src, an.nMutex, v.ref.Trace)
	ref, real := v.ref, v.real
	set := func(fail, format string, a ...any) {
		if v.fail == "" {
			v.fail = fail
			v.detail = fmt.Sprintf(format, a...)
		}
	}
	wantOutcome := "value " + ref.Value
	if 0 <= ref.ErrSrc {
		if ref.ErrSrc < len(calib) {
			wantOutcome = "error of class " + calib[ref.ErrSrc]
		} else {
			wantOutcome = "an error"
		}
	}
	switch {
	case real.Stopped:
		set("mutex-left-locked", "a mutex is still held after its with-mutex-lock was left: trace so far %s, expected %s", showTrace(real.Trace), showTrace(ref.Trace))
	case real.Budget:
		set("no-termination", "still running after %d evaluation steps; expected %s with trace %s", stepBudget, wantOutcome, showTrace(ref.Trace))
	case real.Err != nil && real.Err.Internal:
		set("internal-fault", "%s; expected %s", real.Err, wantOutcome)
	case 0 <= ref.ErrSrc && real.Err == nil:
		set("error-lost", "returned %s, expected %s", real.Value, wantOutcome)
	case ref.ErrSrc < 0 && real.Err != nil:
		set("spurious-error", "signalled %s, expected %s", real.Err, wantOutcome)
	case 0 <= ref.ErrSrc && ref.ErrSrc < len(calib) && real.Err.Class != calib[ref.ErrSrc]:
		set("error-class", "surfaced as %s, the original condition is a %s", real.Err, calib[ref.ErrSrc])
	case ref.ErrSrc < 0 && real.Leftover != "":
		set("exit-object-as-value", "the exit object %s came back as the value, expected %s", real.Value, ref.Value)
	case ref.ErrSrc < 0 && real.Value != ref.Value:
		set("value", "returned %s, expected %s", real.Value, ref.Value)
	}
	if !real.Budget {
		if d := traceDiff(ref.Trace, real.Trace); d != "" {
			set(d, "%s: trace %s, expected %s", d, showTrace(real.Trace), showTrace(ref.Trace))
		}
		if real.Held != 0 {
			set("mutex-left-locked", "mutex mask %b still locked after the program ended", real.Held)
		}
		if real.OpenEnd != 0 {
			set("stream-left-open", "%d stream(s) opened by with-open-file still open after the program ended", real.OpenEnd)
		}
	}
	return
}

// traceDiff classifies the first difference between the two traces.
func traceDiff(want, got []event) string {
	n := len(want)
	if len(got) < n {
		n = len(got)
	}
	for i := 0; i < n; i++ {
		w, g := want[i], got[i]
		if w.K != g.K {
			return classifyOrder(want, got, i)
		}
		if w.Locks != g.Locks {
			return "mutex-state"
		}
		if w.Open != g.Open {
			return "stream-state"
		}
		if w.Class != g.Class && w.Class != "*" {
			return "handler-class"
		}
	}
	if len(want) != len(got) {
		return classifyOrder(want, got, n)
	}
	return ""
}

func isCleanup(k int) bool { return 100 < k && k < 200 }

func classifyOrder(want, got []event, at int) string {
	count := func(t []event) map[int]int {
		m := map[int]int{}
		for _, e := range t {
			m[e.K]++
		}
		return m
	}
	cw, cg := count(want), count(got)
	for k, n := range cw {
		if isCleanup(k) && cg[k] < n {
			return "cleanup-skipped"
		}
	}
	for k, n := range cg {
		if isCleanup(k) && cw[k] < n {
			return "cleanup-repeated"
		}
	}
	same := len(cw) == len(cg)
	for k, n := range cw {
		if cg[k] != n {
			same = false
		}
	}
	if same {
		return "order"
	}
	if at < len(got) && (len(want) <= at || cw[got[at].K] < cg[got[at].K]) {
		return "ran-past-exit"
	}
	return "skipped-forms"
}

// ---------------------------------------------------------------------------
// blame: which construct of the program is the one that fails on its own?

var probeCache = map[string]bool{}

// cellProgram is the program that exercises one cell for one exit kind.
// variant 0 has the cell directly inside the target; variant 1 puts a let
// between the two, because a form may forward an exit only when it sits
// directly inside a block (do and prog do, on the pinned tree).
func cellProgram(cell string, k exitKind, variant int) (string, bool) {
	if variant == 1 {
		if k.target == nil {
			return "", false
		}
		return chainProgram([]string{cell, "let.body"}, k, 2)
	}
	if src, ok := chainProgram([]string{cell}, k, 1); ok {
		return src, true
	}
	return chainProgram([]string{cell, "block.body"}, k, 2)
}

func probeFor(feat string, variant int) (string, bool) {
	var k, rel, cell string
	if feat == "normal through=tagbody.symtag" {
		if 0 < variant {
			return "", false
		}
		return "(list (vtr 1) (tagbody (vtr 2) ta (vtr 3)) (vtr 4))", true
	}
	if n, _ := fmt.Sscanf(feat, "exit=%s %s", &k, &rel); n != 2 {
		return "", false
	}
	eq := strings.IndexByte(rel, '=')
	rel, cell = rel[:eq], rel[eq+1:]
	kinds := map[string]exitKind{}
	for _, ek := range enumKinds() {
		kinds[ek.name] = ek
	}
	base := map[string]string{"return-from": "return-from", "return": "return", "go": "go-fwd", "error": "error2"}[k]
	if rel == "through" {
		if _, ok := cellByName[cell]; !ok {
			return "", false
		}
		return cellProgram(cell, kinds[base], variant)
	}
	if 0 < variant {
		return "", false
	}
	// rel == "to"
	switch cell {
	case "none":
		if k == "go" {
			return "(defun c07-g (p) (vtr 2) (go 8) (vtr 3))\n(tagbody (vtr 1) (c07-g 1) (vtr 4) 8 (vtr 5))", true
		}
		name := "zz"
		if k == "return" {
			name = "nil"
		}
		return fmt.Sprintf("(defun c07-g (p) (vtr 2) (return-from %s 9) (vtr 3))\n(block %s (vtr 1) (c07-g 1) (vtr 4))", name, name), true
	case "top":
		return "(list (vtr 1) (error \"c07\"))", true
	case "tagbody.fwd":
		return chainProgram(nil, kinds["go-fwd"], 0)
	case "tagbody.back":
		return "(tagbody (vtr 1) (go 8) (vtr 2) 4 (vtr 3) (go 9) 8 (vtr 4) (go 4) 9 (vtr 5))", true
	}
	if _, ok := cellByName[cell]; !ok {
		return "", false
	}
	ek := kinds[base]
	switch formOf(cell) {
	case "block":
		ek.target = nil
		name := "a"
		if k == "return" {
			name = "nil"
		}
		b := newBuilder()
		return render(b, []layer{{Cell: cell, Name: name}}, ek.exit), true
	case "defun":
		b := newBuilder()
		return render(b, []layer{{Cell: cell}}, exitSpec{Kind: "return-from", Name: "c07-f1"}), true
	default:
		b := newBuilder()
		L := layer{Cell: cell}
		fill(&L, 0, b, nil)
		return render(b, []layer{L}, ek.exit), true
	}
}

func featureBroken(feat string) bool {
	if b, ok := probeCache[feat]; ok {
		return b
	}
	try := func(variant int) bool {
		if src, ok := probeFor(feat, variant); ok {
			v, _ := judge(src)
			return v.abort == "" && v.fail != ""
		}
		return false
	}
	broken := try(0)
	probeCache[feat] = broken
	if !broken {
		// variant 1 separates the cell from its target with a let; only
		// meaningful while let itself forwards this kind of exit
		var k string
		if n, _ := fmt.Sscanf(feat, "exit=%s", &k); n == 1 {
			sep := fmt.Sprintf("exit=%s through=let.body", k)
			if feat == sep || !featureBroken(sep) {
				broken = try(1)
			}
		}
	}
	probeCache[feat] = broken
	return broken
}

// ---------------------------------------------------------------------------

var (
	listOnce                           sync.Once
	kindsAll                           []exitKind
	kindsPair                          []exitKind
	nCells, nPairs, nTriples, nSpecial int
	tripleKinds                        []exitKind
)

var specials = []Case{
	{Stream: "special", Label: "return-from in a global function must not reach a caller's block", Src: "(defun c07-g (p) (vtr 2) (return-from zz 9) (vtr 3))\n(block zz (vtr 1) (c07-g 1) (vtr 4))"},
	{Stream: "special", Label: "return in a global function must not reach a caller's nil block", Src: "(defun c07-g (p) (vtr 2) (return 9) (vtr 3))\n(block nil (vtr 1) (c07-g 1) (vtr 4))"},
	{Stream: "special", Label: "go in a global function must not reach a caller's tag", Src: "(defun c07-g (p) (vtr 2) (go 8) (vtr 3))\n(tagbody (vtr 1) (c07-g 1) (vtr 4) 8 (vtr 5))"},
	{Stream: "special", Label: "inner block of the same name shadows", Src: "(block a (vtr 1) (block a (vtr 2) (return-from a 3) (vtr 4)) (vtr 5))"},
	{Stream: "special", Label: "function with a block named like the caller's", Src: "(defun c07-g (p) (block zz (vtr 2) (return-from zz 9) (vtr 3)) (vtr 4))\n(block zz (vtr 1) (c07-g 1) (vtr 5))"},
	{Stream: "special", Label: "backward go without guard", Src: "(tagbody (vtr 1) (go 8) (vtr 2) 4 (vtr 3) (go 9) 8 (vtr 4) (go 4) 9 (vtr 5))"},
	{Stream: "special", Label: "go to an outer tag from a nested tagbody with the same inner tag names", Src: "(tagbody (vtr 1) (tagbody (vtr 2) (go 9) (vtr 3) 8 (vtr 4)) (vtr 5) 9 (vtr 6))"},
	{Stream: "special", Label: "symbol tags", Src: "(tagbody (vtr 1) (go tb) (vtr 2) tb (vtr 3))"},
	{Stream: "special", Label: "closure-exit-shadowed-block", Src: "(block a (vtr 1) (funcall (lambda (f) (block a (vtr 2) (funcall f 0) (vtr 3)) (vtr 4)) (lambda (q) (vtr 5) (return-from a 41))) (vtr 6))"},
	{Stream: "special", Label: "closure-exit-shadowed-nil-block", Src: "(block nil (vtr 1) (funcall (lambda (f) (dolist (v '(1 2)) (vtr 2) (funcall f 0) (vtr 3)) (vtr 4)) (lambda (q) (vtr 5) (return 41))) (vtr 6))"},
	{Stream: "special", Label: "closure-exit-shadowed-tag", Src: "(tagbody (vtr 1) (funcall (lambda (f) (tagbody (vtr 2) (funcall f 0) (vtr 3) 8 (vtr 4)) (vtr 5)) (lambda (q) (vtr 6) (go 8))) (vtr 7) 8 (vtr 9))"},
	{Stream: "special", Label: "let-bound-closure-exit-shadowed-block", Src: "(block a (vtr 1) (let ((f (lambda (q) (vtr 5) (return-from a 41)))) (block a (vtr 2) (funcall f 0) (vtr 3)) (vtr 4)) (vtr 6))"},
	{Stream: "special", Label: "let-bound-closure-exit-other-block-between", Src: "(block a (vtr 1) (let ((f (lambda (q) (vtr 5) (return-from a 41)))) (block b (vtr 2) (funcall f 0) (vtr 3)) (vtr 4)) (vtr 6))"},
	{Stream: "special", Label: "nested cleanups innermost first on error", Src: "(unwind-protect (unwind-protect (unwind-protect (error \"c07\") (vtr 101)) (vtr 102)) (vtr 103))"},
	{Stream: "special", Label: "nested cleanups innermost first on return-from", Src: "(block a (unwind-protect (let ((u 1)) (unwind-protect (let ((w 2)) (vtr 1) (return-from a 7)) (vtr 101))) (vtr 102)) (vtr 2))"},
	{Stream: "special", Label: "mutex released on error and re-taken", Src: "(list (ignore-errors (with-mutex-lock (vmx 1) (vtr 1) (error \"c07\"))) (with-mutex-lock (vmx 1) (vtr 2)))"},
	{Stream: "special", Label: "letter case: block written in upper case, return-from in lower case", Src: "(block ZZ (vtr 1) (return-from zz 3) (vtr 2))"},
	{Stream: "special", Label: "letter case: block written in lower case, return-from in upper case", Src: "(block zz (vtr 1) (let ((u 1)) (return-from ZZ 3)) (vtr 2))"},
	{Stream: "special", Label: "letter case: function defined in upper case, return-from its name in lower case", Src: "(defun C07-G (p) (vtr 2) (return-from c07-g 9) (vtr 3))\n(list (vtr 1) (c07-g 1) (vtr 4))"},
	{Stream: "special", Label: "letter case: function defined in lower case, return-from its name in upper case", Src: "(defun c07-g (p) (vtr 2) (return-from C07-G 9) (vtr 3))\n(list (vtr 1) (c07-g 1) (vtr 4))"},
	{Stream: "special", Label: "letter case: go to a tag written in another case", Src: "(tagbody (vtr 1) (go TB) (vtr 2) tb (vtr 3))"},
	{Stream: "special", Label: "letter case: go to a tag written in another case inside dotimes", Src: "(dotimes (i 2) (vtr 1) (go tb) (vtr 2) TB (vtr 3))"},
	{Stream: "special", Label: "go to an integer tag of a dolist body", Src: "(dolist (v '(1 2)) (vtr 1) (go 10) (vtr 2) 10 (vtr 3))"},
	{Stream: "special", Label: "integer tag of a dolist body shadows the tag of an outer tagbody", Src: "(tagbody (dolist (v '(1 2)) (vtr 1) (go 10) (vtr 2) 10 (vtr 3)) (vtr 4) 10 (vtr 5))"},
	{Stream: "special", Label: "go to a symbol tag of a dolist body", Src: "(dolist (v '(1 2)) (vtr 1) (go tb) (vtr 2) tb (vtr 3))"},
	{Stream: "special", Label: "symbol tag of a dolist body shadows the tag of an outer tagbody", Src: "(tagbody (dolist (v '(1 2)) (vtr 1) (go tb) (vtr 2) tb (vtr 3)) (vtr 4) tb (vtr 5))"},
	{Stream: "special", Label: "go to an integer tag of a dotimes body", Src: "(dotimes (i 2) (vtr 1) (go 10) (vtr 2) 10 (vtr 3))"},
	{Stream: "special", Label: "integer tag of a dotimes body shadows the tag of an outer tagbody", Src: "(tagbody (dotimes (i 2) (vtr 1) (go 10) (vtr 2) 10 (vtr 3)) (vtr 4) 10 (vtr 5))"},
	{Stream: "special", Label: "go to a symbol tag of a dotimes body", Src: "(dotimes (i 2) (vtr 1) (go tb) (vtr 2) tb (vtr 3))"},
	{Stream: "special", Label: "symbol tag of a dotimes body shadows the tag of an outer tagbody", Src: "(tagbody (dotimes (i 2) (vtr 1) (go tb) (vtr 2) tb (vtr 3)) (vtr 4) tb (vtr 5))"},
	{Stream: "special", Label: "go to an integer tag of a do body", Src: "(do ((i 0 (1+ i))) ((= i 2)) (vtr 1) (go 10) (vtr 2) 10 (vtr 3))"},
	{Stream: "special", Label: "integer tag of a do body shadows the tag of an outer tagbody", Src: "(tagbody (do ((i 0 (1+ i))) ((= i 2)) (vtr 1) (go 10) (vtr 2) 10 (vtr 3)) (vtr 4) 10 (vtr 5))"},
	{Stream: "special", Label: "go to a symbol tag of a do body", Src: "(do ((i 0 (1+ i))) ((= i 2)) (vtr 1) (go tb) (vtr 2) tb (vtr 3))"},
	{Stream: "special", Label: "symbol tag of a do body shadows the tag of an outer tagbody", Src: "(tagbody (do ((i 0 (1+ i))) ((= i 2)) (vtr 1) (go tb) (vtr 2) tb (vtr 3)) (vtr 4) tb (vtr 5))"},
	{Stream: "special", Label: "go to an integer tag of a do* body", Src: "(do* ((i 0 (1+ i))) ((= i 2)) (vtr 1) (go 10) (vtr 2) 10 (vtr 3))"},
	{Stream: "special", Label: "integer tag of a do* body shadows the tag of an outer tagbody", Src: "(tagbody (do* ((i 0 (1+ i))) ((= i 2)) (vtr 1) (go 10) (vtr 2) 10 (vtr 3)) (vtr 4) 10 (vtr 5))"},
	{Stream: "special", Label: "go to a symbol tag of a do* body", Src: "(do* ((i 0 (1+ i))) ((= i 2)) (vtr 1) (go tb) (vtr 2) tb (vtr 3))"},
	{Stream: "special", Label: "symbol tag of a do* body shadows the tag of an outer tagbody", Src: "(tagbody (do* ((i 0 (1+ i))) ((= i 2)) (vtr 1) (go tb) (vtr 2) tb (vtr 3)) (vtr 4) tb (vtr 5))"},
	{Stream: "special", Label: "go to an integer tag of a prog body", Src: "(prog ((a 1)) (vtr 1) (go 10) (vtr 2) 10 (vtr 3))"},
	{Stream: "special", Label: "backward go to an integer tag of a dolist body", Src: "(let ((n 0)) (dolist (v '(1 2)) (vtr 1) 10 (setq n (1+ n)) (vtr 2) (if (< n 2) (go 10)) (vtr 3)))"},
	{Stream: "special", Label: "return-from re-entered by its own cleanup, closure called twice", Src: "(let ((f nil)) (setq f (lambda (k) (block b (unwind-protect (return-from b k) (vtr 1) (if (eql k 2) (funcall f 1)) (if (eql k 1) (funcall f 0)))))) (list (funcall f 2) (funcall f 2) (funcall f 1)))"},
	{Stream: "special", Label: "one return-from form run by a closure in the protected form and in the cleanup", Src: "(defun c07-g (k) (block b (return-from b k)))\n(list (block a (unwind-protect (return-from a (c07-g 30)) (vtr (c07-g 10)))) (block a (unwind-protect (return-from a (c07-g 30)) (vtr (c07-g 10)))))"},
	{Stream: "special", Label: "defun inside a block returns from that block, evaluated a second time (redefinition)", Src: "(list (block b (defun c07-g (p) (vtr 2) (return-from b 7) (vtr 9)) (vtr 1) (c07-g 1) (vtr 3)) (block b (defun c07-g (p) (vtr 5) (return-from b 8) (vtr 9)) (vtr 4) (c07-g 1) (vtr 6)))"},
	{Stream: "special", Label: "defun inside a block and a let, exit through cleanups, evaluated three times", Src: "(let ((acc nil)) (dotimes (i 3) (push (block outer (let ((u i)) (defun c07-g (p) (unwind-protect (return-from outer (+ p 10)) (vtr 101))) (unwind-protect (progn (vtr 1) (c07-g u) (vtr 2)) (vtr 102)))) acc)) acc)"},
	{Stream: "special", Label: "defun inside a nil block uses return, evaluated twice", Src: "(list (dolist (v '(1 2)) (defun c07-g (p) (vtr 2) (return 7) (vtr 9)) (vtr 1) (c07-g 1) (vtr 3)) (dolist (v '(1 2)) (defun c07-g (p) (vtr 5) (return 8) (vtr 9)) (vtr 4) (c07-g 1) (vtr 6)))"},
	{Stream: "special", Label: "stream closed on return-from", Src: "(block a (let ((u 1)) (with-open-file (f1 \"c07-in.txt\" :direction :input) (vreg 1 f1) (vtr 1) (return-from a 5))) (vtr 2))"},
}

// foldCase lower-cases everything outside string literals.
func foldCase(src string) string {
	b := []byte(src)
	in := false
	for i, c := range b {
		switch {
		case c == '"' && (i == 0 || b[i-1] != '\\'):
			in = !in
		case !in && 'A' <= c && c <= 'Z':
			b[i] = c + 'a' - 'A'
		}
	}
	return string(b)
}

func setup() {
	listOnce.Do(func() {
		kindsAll = enumKinds()
		want := map[string]bool{"normal": true, "return-from": true, "return": true, "go-fwd": true, "go-back": true,
			"error0": true, "error1/ignore-errors": true, "error2/recover": true, "error3": true}
		for _, k := range kindsAll {
			if want[k.name] {
				kindsPair = append(kindsPair, k)
			}
			switch k.name {
			case "return-from", "go-fwd", "error1/recover", "return":
				tripleKinds = append(tripleKinds, k)
			}
		}
		nc := len(cellDefs)
		nCells = nc * len(kindsAll) * 2
		nPairs = nc * nc * len(kindsPair) * 2
		nTriples = nc * nc * nc * len(tripleKinds)
		nSpecial = len(specials)
	})
}

func nCases(tier string) int {
	setup()
	if tier == "thorough" {
		return nSpecial + nCells + nPairs + nTriples + 1500000
	}
	return nSpecial + nCells + nPairs + 60000
}

func oneLine(s string) string { return strings.ReplaceAll(s, "\n", " ") }

func dirty(src string) bool {
	d, o := classify(src)
	return d || o
}

// classify: dirty = contains a construct of the avoid set; outside = not
// judged at all.
func classify(src string) (isDirty, outside bool) {
	forms, err := parseAll(src)
	if err != nil {
		return true, true
	}
	an := analyze(forms)
	if an.outside != "" {
		return true, true
	}
	for _, f := range an.feats {
		if avoid[f] {
			return true, false
		}
	}
	return false, false
}

func cleanRandom(r *rand.Rand) string {
	for try := 0; try < 30; try++ {
		src := randomProgram(r, true)
		if dirty(src) {
			continue
		}
		forms, _ := parseAll(src)
		if runRef(forms, 8).Abort != "" {
			continue
		}
		return src
	}
	return "(unwind-protect (vtr 1) (vtr 101))"
}

func gen(r *rand.Rand, i int, tier string) Case {
	setup()
	if i < nSpecial {
		return specials[i]
	}
	i -= nSpecial
	nc := len(cellDefs)
	if i < nCells {
		c := cellDefs[i%nc].name
		variant := (i / nc) % 2
		k := kindsAll[i/(2*nc)]
		src, ok := cellProgram(c, k, variant)
		if !ok {
			src, _ = cellProgram(c, k, 0)
		}
		if _, outside := classify(src); outside {
			return Case{Src: cleanRandom(r), Stream: "random"}
		}
		return Case{Src: src, Stream: "cell", Label: fmt.Sprintf("%s %s v%d", k.name, c, variant)}
	}
	i -= nCells
	if i < nPairs {
		shape := i % 2
		j := i / 2
		k := kindsPair[j/(nc*nc)]
		c1, c2 := cellDefs[(j/nc)%nc].name, cellDefs[j%nc].name
		src, ok := chainProgram([]string{c1, c2}, k, 2-shape)
		isDirty, outside := false, false
		if ok {
			isDirty, outside = classify(src)
		}
		if !ok || outside || (k.target == nil && shape == 1) || (isDirty && j%16 != 0) {
			return Case{Src: cleanRandom(r), Stream: "random"}
		}
		return Case{Src: src, Stream: "pair", Label: fmt.Sprintf("%s %s %s at=%d", k.name, c1, c2, 2-shape)}
	}
	i -= nPairs
	if tier == "thorough" && i < nTriples {
		k := tripleKinds[i/(nc*nc*nc)]
		c1, c2, c3 := cellDefs[(i/(nc*nc))%nc].name, cellDefs[(i/nc)%nc].name, cellDefs[i%nc].name
		src, ok := chainProgram([]string{c1, c2, c3}, k, 3)
		if !ok || dirty(src) {
			return Case{Src: cleanRandom(r), Stream: "random"}
		}
		return Case{Src: src, Stream: "triple", Label: fmt.Sprintf("%s %s %s %s", k.name, c1, c2, c3)}
	}
	if r.IntN(8) == 0 {
		return Case{Src: randomProgram(r, false), Stream: "random-dirty"}
	}
	return Case{Src: cleanRandom(r), Stream: "random"}
}

func exec(x *fw.Ctx, c Case) {
	initReal()
	v, an := judge(c.Src)
	x.Cover("stream:" + c.Stream)
	if v.abort != "" {
		x.Trivial()
		x.Cover("outside-oracle:" + v.abort)
		return
	}
	obs := map[string]any{"src": c.Src, "expected_trace": showTrace(v.ref.Trace), "observed_trace": showTrace(v.real.Trace)}
	if v.real.Err != nil {
		obs["observed"] = v.real.Err.String()
	} else {
		obs["observed"] = v.real.Value
	}
	x.Observe(obs)
	if len(v.ref.Trace) < 2 {
		x.Trivial()
	}
	isDirty := false
	for _, f := range an.feats {
		x.Cover("cell:" + f)
		if avoid[f] {
			isDirty = true
		}
	}
	if isDirty {
		x.Cover("avoided:program contains a construct listed as a finding (minority stream)")
	} else {
		x.Cover("clean-program")
	}
	for f, n := range an.forms {
		switch f {
		case "vtr", "vtn", "vhit", "vreg", "vcl", "quote", "list", "1+", ">=", "not":
		default:
			x.CoverN("form:"+f, n)
		}
	}
	x.CoverN("events:trace-markers", len(v.real.Trace))
	x.CoverN("events:exit-sites", an.sites)
	cleanups := 0
	for _, e := range v.ref.Trace {
		if isCleanup(e.K) {
			cleanups++
		}
		if e.Locks != 0 {
			x.Cover("events:marker-under-mutex")
		}
		if e.Open != 0 {
			x.Cover("events:marker-with-open-stream")
		}
		if e.Class != "" {
			x.Cover("events:handler-saw-class:" + e.Class)
		}
	}
	x.CoverN("events:cleanup-forms-run", cleanups)
	if 0 <= v.ref.ErrSrc {
		if v.ref.ErrSrc < len(calib) {
			x.Cover("outcome:error-surfaces:" + calib[v.ref.ErrSrc])
		} else {
			x.Cover("outcome:error-required(no lexical target)")
		}
	} else {
		x.Cover("outcome:value")
	}
	if v.fail == "" {
		return
	}
	// blame the first construct of the program that fails in isolation
	for _, f := range an.feats {
		if featureBroken(f) {
			x.Fail(f, "%s  =>  %s", oneLine(c.Src), v.detail)
			return
		}
	}
	if c.Stream == "special" {
		x.Fail("special="+strings.ReplaceAll(c.Label, " ", "-"), "%s  =>  %s\n  (no construct of the program fails on its own; constructs: %s)",
			oneLine(c.Src), v.detail, strings.Join(an.feats, "; "))
		return
	}
	inner := "none"
	if 0 < len(an.feats) {
		inner = an.feats[0]
	}
	x.Fail(fmt.Sprintf("fail=%s first=%s", v.fail, strings.ReplaceAll(inner, " ", ",")), "%s  =>  %s\n  (no construct of the program fails on its own; constructs: %s)",
		oneLine(c.Src), v.detail, strings.Join(an.feats, "; "))
}

func init() {
	keys := make([]string, 0, len(avoid))
	for k := range avoid {
		keys = append(keys, k)
	}
	sort.Strings(keys)
	fw.Register(fw.Spec[Case]{
		ID: "C07",
		Rule: "programs = an exit site (normal completion, return-from, return, go forward/backward, error of 4 classes) wrapped in a chain of (form kind, position) cells " +
			"(let let* progn when unless if cond case and or dolist dotimes do do* prog prog* loop multiple-value-bind setq, call argument, funcall/mapcar/mapc/mapl/maplist lambda body, defun body, closure passed to another function, " +
			"block tagbody unwind-protect with-mutex-lock ignore-errors recover with-open-file; every evaluated position of each); every other evaluated position holds a trace marker, cleanup forms hold cleanup markers. " +
			"block 1: fixed lexical-scoping, shadowing and cleanup-order programs; block 2: every cell x every exit kind with one intervening form, directly inside the target and separated from it by a let " +
			"(the coverage table; includes the constructs listed as findings); block 3: every ordered pair of cells x 9 exit kinds, exit through both, or through the first with normal completion through the second " +
			"(pairs containing a listed construct are kept 1 in 16, the others replaced by clean random programs); thorough adds every triple of cells for 4 exit kinds; " +
			"then seeded random chains of up to 9 layers (at most 5 nesting forms) with guards (exit taken on the Nth evaluation inside loops), a second exit after the first has landed, " +
			"side trees with their own self-contained exits in sibling and cleanup positions, input and output streams; 1 in 8 random programs ignores the avoid set. " +
			"distinct = distinct program text; non-trivial = the oracle judges the program and its trace has at least 2 markers. " +
			"avoid set: the " + fmt.Sprint(len(keys)) + " (exit kind, cell) construct still listed open in findings/C07.json (go in a global function with no lexical target; counter avoided:...); " +
			"every cell repaired in /repo is in the clean stream; exits out of unwind-protect cleanup forms and return-from value forms are outside the property and not judged",
		N:        nCases,
		Gen:      gen,
		Exec:     exec,
		Init:     initReal,
		Batch:    3000,
		HangSecs: 120,
		Assumptions: []string{
			"the reference evaluator (internal/c07/ref.go) implements the CL semantics of the generated subset correctly",
			"the original class of an error source is what the source signals when evaluated alone at top level (calibrated per process)",
			"lock state is observed with sync.Mutex.TryLock on the exported gi.Mutex, stream state with os.File.Stat on the exported slip.FileStream",
			"programs in which the (nil, condition) values of ignore-errors reach a test position are not judged (multiple-value handling belongs to C01)",
		},
	})
}
