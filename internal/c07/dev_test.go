package c07

import (
	"fmt"
	"os"
	"strings"
	"testing"
)

// TestDev judges the program in $C07_SRC (development aid):
//
//	C07_SRC='(block a ...)' go test -tags verif -run TestDev ./internal/c07/ -v
func TestDev(t *testing.T) {
	src := os.Getenv("C07_SRC")
	if src == "" {
		t.Skip("C07_SRC not set")
	}
	dir := t.TempDir()
	_ = os.Chdir(dir)
	v, an := judge(src)
	fmt.Printf("src:    %s\nabort:  %q\nfail:   %q\ndetail: %s\n", src, v.abort, v.fail, v.detail)
	fmt.Printf("ref:    value=%s errsrc=%d trace=%s\n", v.ref.Value, v.ref.ErrSrc, showTrace(v.ref.Trace))
	fmt.Printf("real:   value=%s err=%v trace=%s budget=%v\n", v.real.Value, v.real.Err, showTrace(v.real.Trace), v.real.Budget)
	if an != nil {
		fmt.Printf("feats:  %s\n", strings.Join(an.feats, "; "))
		for _, f := range an.feats {
			fmt.Printf("  broken(%s) = %v\n", f, featureBroken(f))
		}
	}
}
