package c07

import (
	"fmt"
	"strings"
)

// Static analysis of a program: for every exit site (return-from, return, go,
// an error source) the lexical target and the chain of (form kind, position)
// cells the exit has to pass through to get there. The result, an ordered list
// of "features", is what signatures are built from and what the avoid set of
// the generator is expressed in.

type pcell struct {
	cell string // e.g. "progn.body"
	idx  int    // statement index for tagbody cells
}

type ablock struct {
	name  string
	depth int
}

type atb struct {
	tags  map[string]int
	depth int
}

type acatch struct {
	depth int
}

type actx struct {
	blocks  []ablock
	tbs     []atb
	catches []acatch
}

func (c actx) withBlock(name string, depth int) actx {
	n := c
	n.blocks = append(append([]ablock{}, c.blocks...), ablock{name, depth})
	return n
}

func (c actx) withTB(tags map[string]int, depth int) actx {
	n := c
	n.tbs = append(append([]atb{}, c.tbs...), atb{tags, depth})
	return n
}

func (c actx) withCatch(depth int) actx {
	n := c
	n.catches = append(append([]acatch{}, c.catches...), acatch{depth})
	return n
}

// lexicalReset: a global function body sees no block or tag of its caller,
// but errors still propagate to the caller's handlers.
func (c actx) lexicalReset() actx {
	return actx{catches: c.catches}
}

type analysis struct {
	feats  []string
	seen   map[string]bool
	defuns map[string]*sx
	nMutex int
	sites  int
	forms  map[string]int
	// outside: the program has an exit that leaves the cleanup forms of an
	// unwind-protect or the value form of a return-from; the property does
	// not speak about those positions
	outside string
}

func (a *analysis) add(f string) {
	if !a.seen[f] {
		a.seen[f] = true
		a.feats = append(a.feats, f)
	}
}

// exitFeats records the features of an exit of kind k from a site reached by
// path to a target whose form was entered at depth d (d < 0: no target).
func (a *analysis) exitFeats(k string, path []pcell, d int, toName string) {
	a.sites++
	if d < 0 {
		d = -1
	}
	for i := len(path) - 1; d < i; i-- {
		switch path[i].cell {
		case "unwind-protect.cleanup", "return-from.value", "return.value":
			a.outside = "exit out of " + path[i].cell
		}
		a.add(fmt.Sprintf("exit=%s through=%s", k, path[i].cell))
	}
	a.add(fmt.Sprintf("exit=%s to=%s", k, toName))
}

func analyze(forms []*sx) *analysis {
	a := &analysis{seen: map[string]bool{}, defuns: map[string]*sx{}, forms: map[string]int{}}
	for _, f := range forms {
		if f.head() == "defun" {
			a.defuns[f.List[1].Atom] = f
		}
	}
	for _, f := range forms {
		if f.head() == "defun" {
			continue
		}
		a.walk(f, nil, actx{})
	}
	return a
}

func bodyCells(form string, n int) func(i int) string {
	return func(i int) string {
		if i == n-1 {
			return form + ".last"
		}
		return form + ".body"
	}
}

func (a *analysis) walkBody(form string, forms []*sx, path []pcell, c actx) {
	name := bodyCells(form, len(forms))
	for i, f := range forms {
		a.walk(f, append(path[:len(path):len(path)], pcell{cell: name(i)}), c)
	}
}

func (a *analysis) sub(f *sx, cell string, path []pcell, c actx) {
	a.walk(f, append(path[:len(path):len(path)], pcell{cell: cell}), c)
}

func (a *analysis) errorSite(path []pcell, c actx) {
	if n := len(c.catches); 0 < n {
		d := c.catches[n-1].depth
		a.exitFeats("error", path, d, path[d].cell)
		return
	}
	a.exitFeats("error", path, -1, "top")
}

func (a *analysis) walk(f *sx, path []pcell, c actx) {
	depth := len(path)
	if !f.IsL {
		if f.Atom == unboundName {
			a.errorSite(path, c)
		}
		return
	}
	if len(f.List) == 0 {
		return
	}
	h := f.head()
	args := f.List[1:]
	a.forms[h]++
	switch h {
	case "quote":
	case "let", "let*":
		for _, b := range args[0].List {
			if b.IsL && 1 < len(b.List) {
				a.sub(b.List[1], h+".init", path, c)
			}
		}
		a.walkBody(h, args[1:], path, c)
	case "progn", "ignore-errors":
		cc := c
		if h == "ignore-errors" {
			cc = c.withCatch(depth)
		}
		a.walkBody(h, args, path, cc)
	case "when", "unless":
		a.sub(args[0], h+".test", path, c)
		a.walkBody(h, args[1:], path, c)
	case "if":
		for i, x := range args {
			a.sub(x, []string{"if.test", "if.then", "if.else"}[i], path, c)
		}
	case "cond":
		for _, cl := range args {
			a.sub(cl.List[0], "cond.test", path, c)
			a.walkBody("cond", cl.List[1:], path, c)
		}
	case "case":
		a.sub(args[0], "case.key", path, c)
		for _, cl := range args[1:] {
			a.walkBody("case", cl.List[1:], path, c)
		}
	case "and", "or":
		for i, x := range args {
			cell := h + ".arg"
			if i == len(args)-1 {
				cell = h + ".last"
			}
			a.sub(x, cell, path, c)
		}
	case "setq":
		a.sub(args[1], "setq.value", path, c)
	case "block":
		a.walkBody("block", args[1:], path, c.withBlock(args[0].Atom, depth))
	case "return-from", "return":
		name := "nil"
		rest := args
		if h == "return-from" {
			name = args[0].Atom
			rest = args[1:]
		}
		if 0 < len(rest) {
			a.sub(rest[0], h+".value", path, c)
		}
		d := -1
		for i := len(c.blocks) - 1; 0 <= i; i-- {
			if c.blocks[i].name == name {
				d = c.blocks[i].depth
				break
			}
		}
		k := "return-from"
		if name == "nil" {
			k = "return"
		}
		if d < 0 {
			a.sites++
			a.add(fmt.Sprintf("exit=%s to=none", k))
			return
		}
		a.exitFeats(k, path, d, path[d].cell)
	case "tagbody":
		tags := map[string]int{}
		symtag := false
		for i, s := range args {
			if !s.IsL {
				tags[s.Atom] = i
				if _, isInt := s.isInt(); !isInt {
					symtag = true
				}
			}
		}
		if symtag {
			a.add("normal through=tagbody.symtag")
		}
		cc := c.withTB(tags, depth)
		for i, s := range args {
			if s.IsL {
				a.walk(s, append(path[:len(path):len(path)], pcell{cell: "tagbody.stmt", idx: i}), cc)
			}
		}
	case "go":
		tag := args[0].Atom
		for i := len(c.tbs) - 1; 0 <= i; i-- {
			if ti, ok := c.tbs[i].tags[tag]; ok {
				d := c.tbs[i].depth
				dir := "tagbody.fwd"
				if ti < path[d].idx {
					dir = "tagbody.back"
				}
				a.exitFeats("go", path, d, dir)
				return
			}
		}
		a.sites++
		a.add("exit=go to=none")
	case "unwind-protect":
		a.sub(args[0], "unwind-protect.protected", path, c)
		for _, x := range args[1:] {
			a.sub(x, "unwind-protect.cleanup", path, c)
		}
	case "with-mutex-lock":
		var n int
		if args[0].head() == "vmx" {
			n, _ = args[0].List[1].isInt()
		} else {
			_, _ = fmt.Sscanf(args[0].Atom, "m%d", &n)
		}
		if a.nMutex < n {
			a.nMutex = n
		}
		a.walkBody(h, args[1:], path, c)
	case "with-open-file":
		a.walkBody(h, args[1:], path, c)
	case "recover":
		a.sub(args[1], "recover.handler", path, c)
		a.walkBody("recover", args[2:], path, c.withCatch(depth))
	case "dolist", "dotimes":
		spec := args[0].List
		cc := c.withBlock("nil", depth)
		first := map[string]string{"dolist": ".list", "dotimes": ".count"}[h]
		a.sub(spec[1], h+first, path, cc)
		if 2 < len(spec) {
			a.sub(spec[2], h+".result", path, cc)
		}
		for _, x := range args[1:] {
			a.sub(x, h+".body", path, cc)
		}
	case "multiple-value-bind":
		a.sub(args[1], h+".values", path, c)
		a.walkBody(h, args[2:], path, c)
	case "do", "do*":
		cc := c.withBlock("nil", depth)
		for _, b := range args[0].List {
			if b.IsL {
				if 1 < len(b.List) {
					a.sub(b.List[1], h+".init", path, cc)
				}
				if 2 < len(b.List) {
					a.sub(b.List[2], h+".step", path, cc)
				}
			}
		}
		end := args[1].List
		a.sub(end[0], h+".test", path, cc)
		for _, x := range end[1:] {
			a.sub(x, h+".result", path, cc)
		}
		for _, x := range args[2:] {
			a.sub(x, h+".body", path, cc)
		}
	case "lambda":
		// a closure that is not called on the spot: its body runs later, when
		// the position the lambda expression sits in has long completed, so
		// that cell is replaced by closure.body; the enclosing cells are still
		// active when the closure is called inside their extent
		if depth == 0 {
			return
		}
		p2 := append(path[:depth:depth], pcell{cell: "closure.body"})
		if last := path[depth-1].cell; last == "call.arg" || strings.HasSuffix(last, ".init") {
			p2 = append(path[:depth-1:depth-1], pcell{cell: "closure.body"})
		}
		for _, x := range args[1:] {
			a.walk(x, p2, c)
		}
	case "prog", "prog*":
		cc := c.withBlock("nil", depth)
		for _, b := range args[0].List {
			if b.IsL && 1 < len(b.List) {
				a.sub(b.List[1], h+".init", path, cc)
			}
		}
		tags := map[string]int{}
		for i, st := range args[1:] {
			if !st.IsL {
				tags[st.Atom] = i
			}
		}
		cc = cc.withTB(tags, depth)
		for i, st := range args[1:] {
			if st.IsL {
				a.walk(st, append(path[:len(path):len(path)], pcell{cell: h + ".body", idx: i}), cc)
			}
		}
	case "loop":
		cc := c.withBlock("nil", depth)
		for _, x := range args {
			a.sub(x, "loop.body", path, cc)
		}
	case "funcall", "mapcar", "mapc", "maplist", "mapl":
		for i, x := range args {
			if i == 0 && x.head() == "lambda" {
				a.walkBody(h+"-lambda", x.List[2:], path, c)
				continue
			}
			a.sub(x, "call.arg", path, c)
		}
	case "error":
		for _, x := range args {
			a.sub(x, "call.arg", path, c)
		}
		a.errorSite(path, c)
	case "/":
		for _, x := range args {
			a.sub(x, "call.arg", path, c)
		}
		if len(args) == 2 && args[1].Atom == "0" {
			a.errorSite(path, c)
		}
	case "car":
		for _, x := range args {
			a.sub(x, "call.arg", path, c)
		}
		if _, isInt := args[0].isInt(); isInt && !args[0].IsL {
			a.errorSite(path, c)
		}
	default:
		for _, x := range args {
			a.sub(x, "call.arg", path, c)
		}
		if d, ok := a.defuns[h]; ok {
			// a call of a global function: its body runs here dynamically, in
			// an empty lexical environment plus its own implicit block
			p2 := append(path[:len(path):len(path)], pcell{})
			cc := c.lexicalReset().withBlock(h, depth)
			body := d.List[3:]
			name := bodyCells("defun", len(body))
			for i, x := range body {
				p2[depth] = pcell{cell: name(i)}
				a.walk(x, p2[:depth+1:depth+1], cc)
			}
		}
	}
}
