package c07

import (
	"fmt"
	"strconv"
	"strings"
)

// sx is the harness's own s-expression: an atom (Atom != "" or IsNil) or a list.
// It shares nothing with slip's reader or object types.
type sx struct {
	Atom string // symbol, integer or string literal text (strings keep their quotes)
	List []*sx
	IsL  bool
}

func atom(s string) *sx    { return &sx{Atom: s} }
func num(n int) *sx        { return &sx{Atom: strconv.Itoa(n)} }
func lst(items ...*sx) *sx { return &sx{List: items, IsL: true} }

// call builds (head args...).
func call(head string, args ...*sx) *sx {
	return &sx{List: append([]*sx{atom(head)}, args...), IsL: true}
}

func (s *sx) head() string {
	if s != nil && s.IsL && 0 < len(s.List) && !s.List[0].IsL {
		return s.List[0].Atom
	}
	return ""
}

func (s *sx) isInt() (int, bool) {
	if s.IsL || s.Atom == "" {
		return 0, false
	}
	n, err := strconv.Atoi(s.Atom)
	return n, err == nil
}

func (s *sx) String() string {
	var b strings.Builder
	s.write(&b)
	return b.String()
}

func (s *sx) write(b *strings.Builder) {
	if !s.IsL {
		b.WriteString(s.Atom)
		return
	}
	if s.head() == "quote" && len(s.List) == 2 {
		b.WriteByte('\'')
		s.List[1].write(b)
		return
	}
	b.WriteByte('(')
	for i, e := range s.List {
		if 0 < i {
			b.WriteByte(' ')
		}
		e.write(b)
	}
	b.WriteByte(')')
}

// parse reads one s-expression (the subset the generator emits: lists,
// symbols, integers, "strings", 'quote).
func parse(src string) (*sx, error) {
	p := &parser{src: src}
	v, err := p.read()
	if err != nil {
		return nil, err
	}
	p.skip()
	if p.pos != len(p.src) {
		return nil, fmt.Errorf("trailing text at %d", p.pos)
	}
	return v, nil
}

type parser struct {
	src string
	pos int
}

func (p *parser) skip() {
	for p.pos < len(p.src) && strings.ContainsRune(" \t\n\r", rune(p.src[p.pos])) {
		p.pos++
	}
}

func (p *parser) read() (*sx, error) {
	p.skip()
	if len(p.src) <= p.pos {
		return nil, fmt.Errorf("unexpected end")
	}
	switch c := p.src[p.pos]; c {
	case '(':
		p.pos++
		out := &sx{IsL: true}
		for {
			p.skip()
			if len(p.src) <= p.pos {
				return nil, fmt.Errorf("unclosed list")
			}
			if p.src[p.pos] == ')' {
				p.pos++
				return out, nil
			}
			e, err := p.read()
			if err != nil {
				return nil, err
			}
			out.List = append(out.List, e)
		}
	case ')':
		return nil, fmt.Errorf("unexpected ) at %d", p.pos)
	case '\'':
		p.pos++
		e, err := p.read()
		if err != nil {
			return nil, err
		}
		return call("quote", e), nil
	case '"':
		start := p.pos
		p.pos++
		for p.pos < len(p.src) && p.src[p.pos] != '"' {
			p.pos++
		}
		if len(p.src) <= p.pos {
			return nil, fmt.Errorf("unclosed string")
		}
		p.pos++
		return atom(p.src[start:p.pos]), nil
	default:
		start := p.pos
		for p.pos < len(p.src) && !strings.ContainsRune(" \t\n\r()'\"", rune(p.src[p.pos])) {
			p.pos++
		}
		return atom(p.src[start:p.pos]), nil
	}
}
