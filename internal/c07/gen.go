package c07

import (
	"fmt"
	"math/rand/v2"
	"strings"
)

const (
	unboundName = "c07-unbound"
	inFile      = "c07-in.txt"
)

// cellDef is one (form kind, position) pair an exit can be placed in.
type cellDef struct {
	name      string
	wrapper   bool // one of the property's nesting forms (counts toward depth 5)
	needsExit bool // the position constrains the value: only used where X never completes normally
}

var cellDefs = []cellDef{
	{name: "let.init"}, {name: "let.body"}, {name: "let.last"},
	{name: "let*.init"}, {name: "let*.body"}, {name: "let*.last"},
	{name: "progn.body"}, {name: "progn.last"},
	{name: "when.test"}, {name: "when.body"}, {name: "when.last"},
	{name: "unless.test"}, {name: "unless.body"}, {name: "unless.last"},
	{name: "if.test"}, {name: "if.then"}, {name: "if.else"},
	{name: "cond.test"}, {name: "cond.body"}, {name: "cond.last"},
	{name: "case.key"}, {name: "case.body"}, {name: "case.last"},
	{name: "and.arg"}, {name: "and.last"}, {name: "or.arg"}, {name: "or.last"},
	{name: "dolist.list", needsExit: true}, {name: "dolist.body"}, {name: "dolist.result"},
	{name: "dotimes.count", needsExit: true}, {name: "dotimes.body"}, {name: "dotimes.result"},
	{name: "do.init"}, {name: "do.step"}, {name: "do.test", needsExit: true}, {name: "do.result"}, {name: "do.body"},
	{name: "do*.init"}, {name: "do*.step"}, {name: "do*.test", needsExit: true}, {name: "do*.result"}, {name: "do*.body"},
	{name: "multiple-value-bind.values"}, {name: "multiple-value-bind.body"}, {name: "multiple-value-bind.last"},
	{name: "call.arg"}, {name: "setq.value"},
	{name: "funcall-lambda.body"}, {name: "funcall-lambda.last"},
	{name: "mapcar-lambda.body"}, {name: "mapcar-lambda.last"},
	{name: "mapc-lambda.body"}, {name: "mapc-lambda.last"},
	{name: "maplist-lambda.body"}, {name: "maplist-lambda.last"},
	{name: "mapl-lambda.body"}, {name: "mapl-lambda.last"},
	{name: "prog.init"}, {name: "prog.body"}, {name: "prog*.init"}, {name: "prog*.body"},
	{name: "loop.body"},
	{name: "defun.body"}, {name: "defun.last"}, {name: "closure.body"},
	{name: "block.body", wrapper: true}, {name: "block.last", wrapper: true},
	{name: "tagbody.stmt", wrapper: true},
	{name: "unwind-protect.protected", wrapper: true}, {name: "unwind-protect.cleanup", wrapper: true},
	{name: "with-mutex-lock.body", wrapper: true}, {name: "with-mutex-lock.last", wrapper: true},
	{name: "ignore-errors.body", wrapper: true}, {name: "ignore-errors.last", wrapper: true},
	{name: "recover.body", wrapper: true}, {name: "recover.last", wrapper: true}, {name: "recover.handler", wrapper: true},
	{name: "with-open-file.body", wrapper: true}, {name: "with-open-file.last", wrapper: true},
}

var cellByName = map[string]*cellDef{}

func init() {
	for i := range cellDefs {
		cellByName[cellDefs[i].name] = &cellDefs[i]
	}
}

func formOf(cell string) string { return cell[:strings.LastIndexByte(cell, '.')] }

// layer is one level of nesting around the exit site.
type layer struct {
	Cell   string
	Name   string // block name; for return-from.value the name of the block returned from
	T1, T2 string // tagbody: tag before and after the nested form
	Idx    int    // mutex / stream / function index
	Before *sx    // replaces the marker evaluated just before the nested form
	After  *sx    // replaces the marker evaluated just after the nested form
}

// builder hands out marker numbers: body markers 1.., cleanup markers 100..,
// handler markers 200.., guard counters 300...
type builder struct {
	m, c, h, g int
	mutexes    int
	streams    int
	fns        int
	defuns     []*sx
	extra      func() *sx // optional producer of side trees for cleanup positions
}

func newBuilder() *builder { return &builder{m: 0, c: 100, h: 200, g: 300} }

func (b *builder) M() *sx { b.m++; return call("vtr", num(b.m)) }
func (b *builder) N() *sx { b.m++; return call("vtn", num(b.m)) }
func (b *builder) C() *sx {
	b.c++
	m := call("vtr", num(b.c))
	if b.extra != nil {
		if side := b.extra(); side != nil {
			// a cleanup that does more than leave a marker: a self-contained
			// form with its own exit, running while the outer exit is in flight
			return call("progn", m, side)
		}
	}
	return m
}
func (b *builder) HM() *sx { b.h++; return call("vcl", num(b.h), atom("rv")) }

func (b *builder) before(L *layer) *sx {
	if L.Before != nil {
		return L.Before
	}
	return b.M()
}

func (b *builder) after(L *layer) *sx {
	if L.After != nil {
		return L.After
	}
	return b.M()
}

func q(items ...*sx) *sx { return call("quote", lst(items...)) }

// wrap builds the form of L.Cell with X at the named position and markers at
// every other evaluated position.
func (b *builder) wrap(L *layer, X *sx) *sx {
	form := formOf(L.Cell)
	pos := L.Cell[len(form)+1:]
	P := func() *sx { return b.before(L) }
	A := func() *sx { return b.after(L) }
	seq := func(prefix ...*sx) *sx { // prefix P X [A]
		out := append(prefix, P(), X)
		if pos != "last" {
			out = append(out, A())
		}
		return lst(out...)
	}
	loop12 := q(num(1), num(2))
	iBind := lst(atom("i"), num(0), call("1+", atom("i")))
	iEnd := func(res ...*sx) *sx { return lst(append([]*sx{call(">=", atom("i"), num(2))}, res...)...) }
	switch form {
	case "let", "let*":
		if pos == "init" {
			return call(form, lst(lst(atom("u1"), P()), lst(atom("u2"), X), lst(atom("u3"), b.M())), A())
		}
		return seq(atom(form), lst(lst(atom("u1"), b.M())))
	case "progn":
		return seq(atom("progn"))
	case "when":
		if pos == "test" {
			return call("when", X, A())
		}
		return seq(atom("when"), b.M())
	case "unless":
		if pos == "test" {
			return call("unless", X, A())
		}
		return seq(atom("unless"), b.N())
	case "if":
		switch pos {
		case "test":
			return call("if", X, b.M(), b.M())
		case "then":
			return call("if", b.M(), X, b.M())
		}
		return call("if", b.N(), b.M(), X)
	case "cond":
		first := lst(b.N(), b.M())
		if pos == "test" {
			return call("cond", first, lst(X, A()), lst(atom("t"), b.M()))
		}
		cl := seq(b.M())
		if pos == "last" {
			return call("cond", first, cl)
		}
		return call("cond", first, cl, lst(atom("t"), b.M()))
	case "case":
		if pos == "key" {
			return call("case", X, lst(num(1), b.M()), lst(atom("t"), A()))
		}
		cl := seq(num(2))
		if pos == "last" {
			return call("case", num(2), lst(num(1), b.M()), cl)
		}
		return call("case", num(2), lst(num(1), b.M()), cl, lst(atom("t"), b.M()))
	case "and":
		if pos == "last" {
			return call("and", P(), X)
		}
		return call("and", P(), X, A())
	case "or":
		if pos == "last" {
			return call("or", b.N(), X)
		}
		return call("or", b.N(), X, A())
	case "dolist":
		switch pos {
		case "list":
			return call("dolist", lst(atom("v"), X), b.M())
		case "result":
			return call("dolist", lst(atom("v"), loop12, X), b.M())
		}
		return call("dolist", lst(atom("v"), loop12), P(), X, A())
	case "dotimes":
		switch pos {
		case "count":
			return call("dotimes", lst(atom("i"), X), b.M())
		case "result":
			return call("dotimes", lst(atom("i"), num(2), X), b.M())
		}
		return call("dotimes", lst(atom("i"), num(2)), P(), X, A())
	case "multiple-value-bind":
		if pos == "values" {
			return call(form, lst(atom("w1"), atom("w2")), X, A())
		}
		return seq(atom(form), lst(atom("w1"), atom("w2")), b.M())
	case "do", "do*":
		switch pos {
		case "init":
			return call(form, lst(iBind, lst(atom("j"), X)), iEnd(b.M()), b.M())
		case "step":
			return call(form, lst(iBind, lst(atom("j"), num(0), X)), iEnd(b.M()), b.M())
		case "test":
			return call(form, lst(iBind), lst(X, b.M()), b.M())
		case "result":
			return call(form, lst(iBind), iEnd(P(), X, A()), b.M())
		}
		return call(form, lst(iBind), iEnd(b.M()), P(), X, A())
	case "call":
		return call("list", P(), X, A())
	case "setq":
		return call("setq", atom("sv"), X)
	case "funcall-lambda":
		return call("funcall", seq(atom("lambda"), lst(atom("p"))), num(1))
	case "mapcar-lambda", "mapc-lambda", "maplist-lambda", "mapl-lambda":
		return call(strings.TrimSuffix(form, "-lambda"), seq(atom("lambda"), lst(atom("p"))), loop12)
	case "prog", "prog*":
		if pos == "init" {
			return call(form, lst(lst(atom("u1"), P()), lst(atom("u2"), X), lst(atom("u3"), b.M())), A())
		}
		return call(form, lst(lst(atom("u1"), b.M())), P(), X, A())
	case "loop":
		b.m++
		return call("loop", P(), X, A(), call("return", num(b.m+40)))
	case "closure":
		// the closure is handed to another function and called from there
		return call("funcall",
			call("lambda", lst(atom("f")), P(), call("funcall", atom("f"), num(0)), A()),
			call("lambda", lst(atom("q")), b.M(), X))
	case "defun":
		b.fns++
		name := fmt.Sprintf("c07-f%d", b.fns)
		b.defuns = append(b.defuns, seq(atom("defun"), atom(name), lst(atom("p"))))
		return call(name, num(1))
	case "block":
		return seq(atom("block"), atom(L.Name))
	case "tagbody":
		return call("tagbody", P(), atom(L.T1), b.M(), X, A(), atom(L.T2), b.M())
	case "unwind-protect":
		if pos == "cleanup" {
			return call("unwind-protect", b.M(), b.C(), X, b.C())
		}
		return call("unwind-protect", X, b.C(), b.C())
	case "with-mutex-lock":
		// (vmx n) yields mutex n; in the real run it first makes sure the mutex
		// is free, so that a mutex left locked gives a verdict, not a deadlock
		return seq(atom("with-mutex-lock"), call("vmx", num(L.Idx)))
	case "ignore-errors":
		return seq(atom("ignore-errors"))
	case "recover":
		if pos == "handler" {
			return call("recover", atom("rv"), X, b.M(), call("error", atom("\"c07h\"")), b.M())
		}
		return seq(atom("recover"), atom("rv"), b.HM())
	case "with-open-file":
		f := fmt.Sprintf("f%d", L.Idx)
		spec := lst(atom(f), atom("\""+inFile+"\""), atom(":direction"), atom(":input"))
		if L.Idx%2 == 0 {
			spec = lst(atom(f), atom(fmt.Sprintf("\"c07-out-%d.txt\"", L.Idx)), atom(":direction"), atom(":output"),
				atom(":if-exists"), atom(":supersede"), atom(":if-does-not-exist"), atom(":create"))
		}
		return seq(atom("with-open-file"), spec, call("vreg", num(L.Idx), atom(f)))
	case "return-from":
		return call("return-from", atom(L.Name), X)
	case "return":
		return call("return", X)
	}
	panic("no template for " + L.Cell)
}

// exitSpec describes the exit site.
type exitSpec struct {
	Kind  string // normal | return-from | return | go | error
	Name  string // block name or tag
	Src   int    // error source
	Guard string // "" or the conditional form the exit sits in
	Nth   int    // with a guard: the exit is taken on the Nth evaluation
	Via   bool   // return: written (return-from nil v)
}

var errSites = []func() *sx{
	func() *sx { return call("error", atom("\"c07\"")) },
	func() *sx { return call("/", num(1), num(0)) },
	func() *sx { return call("car", num(1)) },
	func() *sx { return call("1+", atom(unboundName)) },
}

var guardForms = []string{"if", "when", "cond", "and", "unless", "or"}

func (b *builder) site(e exitSpec) *sx {
	var x *sx
	switch e.Kind {
	case "normal":
		return b.M()
	case "return-from":
		b.m++
		x = call("return-from", atom(e.Name), num(b.m+40))
	case "return":
		b.m++
		if e.Via {
			x = call("return-from", atom("nil"), num(b.m+40))
		} else {
			x = call("return", num(b.m+40))
		}
	case "go":
		x = call("go", atom(e.Name))
	case "error":
		x = errSites[e.Src]()
	}
	if e.Guard == "" {
		return x
	}
	b.g++
	hit := call("vhit", num(b.g), num(e.Nth))
	switch e.Guard {
	case "if":
		return call("if", hit, x)
	case "when":
		return call("when", hit, x)
	case "cond":
		return call("cond", lst(hit, x))
	case "and":
		return call("and", hit, x)
	case "unless":
		return call("unless", call("not", hit), x)
	case "or":
		return call("or", call("not", hit), x)
	}
	panic("guard " + e.Guard)
}

// render builds the program text of a chain: layers[0] is innermost.
func render(b *builder, layers []layer, e exitSpec) string {
	x := b.site(e)
	for i := range layers {
		x = b.wrap(&layers[i], x)
	}
	return b.finish(x)
}

func (b *builder) finish(x *sx) string {
	var sb strings.Builder
	for _, d := range b.defuns {
		sb.WriteString(d.String())
		sb.WriteByte('\n')
	}
	sb.WriteString(x.String())
	return sb.String()
}

func parseAll(src string) ([]*sx, error) {
	p := &parser{src: src}
	var out []*sx
	for {
		p.skip()
		if len(p.src) <= p.pos {
			return out, nil
		}
		f, err := p.read()
		if err != nil {
			return nil, err
		}
		out = append(out, f)
	}
}

// ---------------------------------------------------------------------------
// exit kinds used by the enumerated blocks

type exitKind struct {
	name   string   // label
	exit   exitSpec // site
	target *layer   // layer that receives the exit (nil: top level)
}

func enumKinds() []exitKind {
	blk := func(cell, name string) *layer { return &layer{Cell: cell, Name: name} }
	ks := []exitKind{
		{name: "normal", exit: exitSpec{Kind: "normal"}},
		{name: "return-from", exit: exitSpec{Kind: "return-from", Name: "a"}, target: blk("block.body", "a")},
		{name: "return-from/last", exit: exitSpec{Kind: "return-from", Name: "a"}, target: blk("block.last", "a")},
		{name: "return", exit: exitSpec{Kind: "return"}, target: blk("block.body", "nil")},
		{name: "return-from-nil", exit: exitSpec{Kind: "return", Via: true}, target: blk("block.body", "nil")},
		{name: "go-fwd", exit: exitSpec{Kind: "go", Name: "8"}, target: &layer{Cell: "tagbody.stmt", T1: "4", T2: "8"}},
		{name: "go-back", exit: exitSpec{Kind: "go", Name: "4", Guard: "if", Nth: 1}, target: &layer{Cell: "tagbody.stmt", T1: "4", T2: "8"}},
	}
	ks = append(ks,
		exitKind{name: "go-fwd-sym", exit: exitSpec{Kind: "go", Name: "tb"}, target: &layer{Cell: "tagbody.stmt", T1: "ta", T2: "tb"}},
		exitKind{name: "go-back-sym", exit: exitSpec{Kind: "go", Name: "ta", Guard: "when", Nth: 1}, target: &layer{Cell: "tagbody.stmt", T1: "ta", T2: "tb"}})
	for s := 0; s < 4; s++ {
		ks = append(ks,
			exitKind{name: fmt.Sprintf("error%d", s), exit: exitSpec{Kind: "error", Src: s}},
			exitKind{name: fmt.Sprintf("error%d/ignore-errors", s), exit: exitSpec{Kind: "error", Src: s}, target: &layer{Cell: "ignore-errors.body"}},
			exitKind{name: fmt.Sprintf("error%d/recover", s), exit: exitSpec{Kind: "error", Src: s}, target: &layer{Cell: "recover.body"}},
		)
	}
	return ks
}

// fill gives a layer the names and indexes its template needs.
func fill(L *layer, pos int, b *builder, blockNames []string) {
	switch formOf(L.Cell) {
	case "block":
		if L.Name == "" {
			L.Name = []string{"b", "c", "d", "e", "g"}[pos%5]
		}
	case "tagbody":
		if L.T1 == "" {
			L.T1 = fmt.Sprint(10 + 2*pos)
			L.T2 = fmt.Sprint(11 + 2*pos)
		}
	case "with-mutex-lock":
		b.mutexes++
		L.Idx = b.mutexes
	case "with-open-file":
		b.streams++
		L.Idx = b.streams
	case "return-from":
		if L.Name == "" && 0 < len(blockNames) {
			L.Name = blockNames[len(blockNames)-1]
		}
	}
}

// chainProgram renders cells (innermost first) around the exit of kind k; the
// target layer of k is inserted at index at (len(cells): outermost).
func chainProgram(cells []string, k exitKind, at int) (src string, ok bool) {
	b := newBuilder()
	var layers []layer
	for i, c := range cells {
		if i == at && k.target != nil {
			layers = append(layers, *k.target)
		}
		layers = append(layers, layer{Cell: c})
	}
	if len(cells) <= at && k.target != nil {
		layers = append(layers, *k.target)
	}
	// names visible from layer i are those of block layers above it
	for i := range layers {
		var names []string
		for j := len(layers) - 1; i < j; j-- {
			if formOf(layers[j].Cell) == "block" {
				n := layers[j].Name
				if n == "" {
					n = []string{"b", "c", "d", "e", "g"}[j%5]
				}
				names = append(names, n)
			}
		}
		fill(&layers[i], i, b, names)
	}
	return render(b, layers, k.exit), true
}

// ---------------------------------------------------------------------------
// random programs

type rgen struct {
	r     *rand.Rand
	b     *builder
	clean bool
	noIE  bool // do not draw ignore-errors (its values would be consumed)
}

var blockPool = []string{"a", "b", "nil", "a", "c"}

func pickCell(r *rand.Rand, ok func(d *cellDef) bool) (string, bool) {
	for try := 0; try < 40; try++ {
		d := &cellDefs[r.IntN(len(cellDefs))]
		// the property's nesting forms are drawn more often
		if !d.wrapper && r.IntN(3) == 0 {
			continue
		}
		if ok(d) {
			return d.name, true
		}
	}
	return "", false
}

// sideTree is a small self-contained form for a sibling position: whatever
// exit it contains is received inside it.
func (g *rgen) sideTree(depth int) *sx {
	r := g.r
	b := g.b
	g.noIE = true
	defer func() { g.noIE = false }()
	var layers []layer
	var e exitSpec
	n := 1 + r.IntN(2)
	switch r.IntN(6) {
	case 0: // protected normal completion
		layers = append(layers, layer{Cell: "unwind-protect.protected"})
		e = exitSpec{Kind: "normal"}
	case 1: // return-from received by an own block, through a protect
		e = exitSpec{Kind: "return-from", Name: "s"}
		for i := 0; i < n; i++ {
			c, ok := pickCell(r, func(d *cellDef) bool { return g.usable(d, "return-from", true) })
			if ok {
				layers = append(layers, layer{Cell: c})
			}
		}
		layers = append(layers, layer{Cell: "block.body", Name: "s"})
	case 2: // error received by an own ignore-errors
		e = exitSpec{Kind: "error", Src: r.IntN(4)}
		for i := 0; i < n; i++ {
			c, ok := pickCell(r, func(d *cellDef) bool { return g.usable(d, "error", true) })
			if ok {
				layers = append(layers, layer{Cell: c})
			}
		}
		layers = append(layers, layer{Cell: "ignore-errors.body"})
		layers = append(layers, layer{Cell: "progn.body"}) // keeps the (nil, condition) values out of test positions
	case 3: // error received by an own recover
		e = exitSpec{Kind: "error", Src: r.IntN(4)}
		for i := 0; i < n; i++ {
			c, ok := pickCell(r, func(d *cellDef) bool { return g.usable(d, "error", true) })
			if ok {
				layers = append(layers, layer{Cell: c})
			}
		}
		layers = append(layers, layer{Cell: "recover.body"})
	case 4: // forward go inside an own tagbody
		e = exitSpec{Kind: "go", Name: "98"}
		for i := 0; i < n; i++ {
			c, ok := pickCell(r, func(d *cellDef) bool { return g.usable(d, "go", true) })
			if ok {
				layers = append(layers, layer{Cell: c})
			}
		}
		layers = append(layers, layer{Cell: "tagbody.stmt", T1: "97", T2: "98"})
	default:
		c, _ := pickCell(r, func(d *cellDef) bool { return g.usable(d, "normal", false) })
		if c == "" {
			c = "progn.body"
		}
		layers = append(layers, layer{Cell: c})
		e = exitSpec{Kind: "normal"}
	}
	g.fillAll(layers)
	x := b.site(e)
	for i := range layers {
		x = b.wrap(&layers[i], x)
	}
	return x
}

// usable tells whether cell d may sit between an exit of kind k and its target.
func (g *rgen) usable(d *cellDef, k string, exits bool) bool {
	if formOf(d.name) == "defun" && k != "error" && k != "normal" {
		return false
	}
	if g.noIE && formOf(d.name) == "ignore-errors" {
		return false
	}
	if d.needsExit && !exits {
		return false
	}
	if g.clean && avoid[fmt.Sprintf("exit=%s through=%s", k, d.name)] {
		return false
	}
	return true
}

func (g *rgen) fillAll(layers []layer) {
	for i := range layers {
		fill(&layers[i], i+g.r.IntN(3), g.b, nil)
	}
}

// randomProgram draws a chain of up to 9 layers (at most 5 of them nesting
// forms) with one exit, optionally a second exit after the first has landed,
// and small side trees in sibling positions.
func randomProgram(r *rand.Rand, clean bool) string {
	g := &rgen{r: r, b: newBuilder(), clean: clean}
	sideDepth := 0
	g.b.extra = func() *sx {
		if 0 < sideDepth || r.IntN(6) != 0 {
			return nil
		}
		sideDepth++
		defer func() { sideDepth-- }()
		return g.sideTree(0)
	}
	kinds := []string{"return-from", "return-from", "return", "go", "go", "error", "error", "error", "normal"}
	k := kinds[r.IntN(len(kinds))]
	e := exitSpec{Kind: k}
	guarded := r.IntN(4) == 0
	if guarded {
		e.Guard = guardForms[r.IntN(len(guardForms))]
		e.Nth = 1 + r.IntN(2)
	}
	wrappers := 0
	pick := func(kind string, exits bool) (string, bool) {
		return pickCell(r, func(d *cellDef) bool {
			if d.wrapper && 5 <= wrappers {
				return false
			}
			return g.usable(d, kind, exits)
		})
	}
	var layers []layer
	curKind := k
	add := func(L layer) {
		if cellByName[L.Cell].wrapper {
			wrappers++
		}
		layers = append(layers, L)
		if formOf(L.Cell) == "ignore-errors" {
			// keep the (nil, condition) values of ignore-errors in a position
			// that discards them
			for _, sep := range []string{"let.body", "progn.body", "let*.body"} {
				if g.usable(cellByName[sep], curKind, false) {
					layers = append(layers, layer{Cell: sep})
					break
				}
			}
		}
	}
	inner := r.IntN(5)
	if k == "normal" {
		inner = 0
	}
	for i := 0; i < inner; i++ {
		if c, ok := pick(k, !guarded); ok {
			add(layer{Cell: c})
		}
	}
	// the target
	switch k {
	case "return-from":
		e.Name = []string{"a", "b", "c"}[r.IntN(3)]
		add(layer{Cell: []string{"block.body", "block.last"}[r.IntN(2)], Name: e.Name})
	case "return":
		e.Via = r.IntN(4) == 0
		t := []string{"block.body", "block.body", "block.last", "dolist.body", "dotimes.body", "do.body", "do.result", "dolist.result", "dotimes.result"}[r.IntN(9)]
		if g.clean && avoid["exit=return to="+t] {
			t = "block.body"
		}
		add(layer{Cell: t, Name: "nil"})
	case "go":
		back := r.IntN(3) == 0
		t1, t2 := fmt.Sprint(20+r.IntN(3)), fmt.Sprint(30+r.IntN(3))
		if r.IntN(2) == 0 { // symbol tags (a finding until 2dd5996; the avoid set decides)
			t1, t2 = "ta", "tb"
		}
		if back && !(g.clean && avoid["exit=go to=tagbody.back"]) {
			e.Name = t1
			if e.Guard == "" {
				e.Guard = guardForms[r.IntN(len(guardForms))]
				e.Nth = 1
			}
		} else {
			e.Name = t2
		}
		add(layer{Cell: "tagbody.stmt", T1: t1, T2: t2})
	case "error":
		switch r.IntN(5) {
		case 0:
			curKind = "normal"
			add(layer{Cell: []string{"ignore-errors.body", "ignore-errors.last"}[r.IntN(2)]})
		case 1, 2:
			add(layer{Cell: []string{"recover.body", "recover.last"}[r.IntN(2)]})
		}
		e.Src = r.IntN(4)
	}
	// the continuation: forms the landed exit completes through normally
	curKind = "normal"
	outer := r.IntN(4)
	for i := 0; i < outer; i++ {
		if c, ok := pick("normal", false); ok {
			add(layer{Cell: c})
		}
	}
	// re-draw guards that the avoid set excludes
	if clean && e.Guard != "" {
		for try := 0; try < 10; try++ {
			cell := map[string]string{"if": "if.then", "when": "when.last", "cond": "cond.last", "and": "and.last", "unless": "unless.last", "or": "or.last"}[e.Guard]
			if !avoid[fmt.Sprintf("exit=%s through=%s", k, cell)] {
				break
			}
			e.Guard = guardForms[r.IntN(len(guardForms))]
		}
	}
	for i := range layers {
		var names []string
		for j := len(layers) - 1; i < j; j-- {
			if formOf(layers[j].Cell) == "block" && layers[j].Name != "" {
				names = append(names, layers[j].Name)
			}
		}
		if formOf(layers[i].Cell) == "block" && layers[i].Name == "" {
			layers[i].Name = blockPool[r.IntN(len(blockPool))]
		}
		fill(&layers[i], r.IntN(6), g.b, names)
	}
	// sibling positions
	for i := range layers {
		if r.IntN(7) == 0 {
			layers[i].Before = g.sideTree(0)
		}
		if r.IntN(7) == 0 {
			layers[i].After = g.sideTree(0)
		}
	}
	// a second exit once the first has been received
	if 0 < len(layers) && r.IntN(4) == 0 {
		at := r.IntN(len(layers))
		k2 := []string{"return-from", "error", "error", "go"}[r.IntN(4)]
		e2 := exitSpec{Kind: k2, Src: r.IntN(4)}
		switch k2 {
		case "return-from":
			for j := len(layers) - 1; at < j; j-- {
				if formOf(layers[j].Cell) == "block" {
					e2.Name = layers[j].Name
				}
			}
			if e2.Name == "nil" {
				e2.Kind = "return"
			}
		case "go":
			for j := len(layers) - 1; at < j; j-- {
				if formOf(layers[j].Cell) == "tagbody" {
					e2.Name = layers[j].T2
				}
			}
		}
		if e2.Name != "" || k2 == "error" {
			layers[at].After = g.b.site(e2)
		}
	}
	return render(g.b, layers, e)
}
