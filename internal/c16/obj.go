package c16

import (
	"fmt"
	"math"
	"math/big"
	"reflect"
	"strconv"
	"strings"
	"unicode"

	"github.com/ohler55/slip"

	"verif/internal/sl"
)

// Obj is the harness-side description of an object: a small tree the harness
// fully understands. slip builds the real object from Src(); the harness
// derives what the predicates must say from the tree alone.
//
//	fix big ratio single double long : V = exact decimal / rational text
//	char str sym key                 : V = the character, text, name
//	nil t                            : the two constants
//	list                             : proper list of C (non-empty)
//	dot                              : dotted list, last element of C is the tail
//	vec                              : simple vector of C
//	tab                              : hash table, C = key value key value ... (keys: distinct fixnums, strings, symbols, characters)
//	arr                              : 2-dimensional array, V = "RxC", C = the R*C elements in row-major order
//	inst                             : instance of the harness class named V (c16-k, c16-k2) with one slot holding C[0]
//	opq                              : V = source expression of an object only its identity is known of
type Obj struct {
	K string `json:"k"`
	V string `json:"v,omitempty"`
	C []Obj  `json:"c,omitempty"`
}

func num(k, v string) Obj      { return Obj{K: k, V: v} }
func fix(v int) Obj            { return Obj{K: "fix", V: strconv.Itoa(v)} }
func str(v string) Obj         { return Obj{K: "str", V: v} }
func chr(v string) Obj         { return Obj{K: "char", V: v} }
func sym(v string) Obj         { return Obj{K: "sym", V: v} }
func key(v string) Obj         { return Obj{K: "key", V: v} }
func list(c ...Obj) Obj        { return Obj{K: "list", C: c} }
func dot(c ...Obj) Obj         { return Obj{K: "dot", C: c} }
func vec(c ...Obj) Obj         { return Obj{K: "vec", C: c} }
func opq(v string) Obj         { return Obj{K: "opq", V: v} }
func tab(c ...Obj) Obj         { return Obj{K: "tab", C: c} }
func arr(dims string, c ...Obj) Obj { return Obj{K: "arr", V: dims, C: c} }
func inst(class string, v Obj) Obj  { return Obj{K: "inst", V: class, C: []Obj{v}} }

func (o Obj) dims() (int, int) {
	var r, c int
	fmt.Sscanf(o.V, "%dx%d", &r, &c)
	return r, c
}
func (o Obj) isNum() bool      { return group(o.K) == "num" }
func (o Obj) withC(c []Obj) Obj { return Obj{K: o.K, V: o.V, C: c} }

var objNil = Obj{K: "nil"}
var objT = Obj{K: "t"}

// group is the coarse kind used in signatures.
func group(k string) string {
	switch k {
	case "fix", "big", "ratio", "single", "double", "long":
		return "num"
	case "sym", "key", "t":
		return "sym"
	case "list", "dot":
		return "list"
	}
	return k // char str nil vec opq
}

// Src renders the slip source that builds the object.
func (o Obj) Src() string {
	switch o.K {
	case "fix", "big", "ratio":
		return o.V
	case "single":
		return o.V + "f0"
	case "double":
		return o.V + "d0"
	case "long":
		return o.V + "L0"
	case "char":
		return `#\` + o.V
	case "str":
		return `"` + o.V + `"`
	case "sym":
		return "(quote " + o.V + ")"
	case "key":
		return ":" + o.V
	case "nil":
		return "nil"
	case "t":
		return "t"
	case "list", "vec":
		var b strings.Builder
		if o.K == "list" {
			b.WriteString("(list")
		} else {
			b.WriteString("(vector")
		}
		for _, c := range o.C {
			b.WriteByte(' ')
			b.WriteString(c.Src())
		}
		b.WriteByte(')')
		return b.String()
	case "dot":
		n := len(o.C)
		s := o.C[n-1].Src()
		for i := n - 2; 0 <= i; i-- {
			s = "(cons " + o.C[i].Src() + " " + s + ")"
		}
		return s
	case "opq":
		return o.V
	case "arr":
		r, c := o.dims()
		var b strings.Builder
		fmt.Fprintf(&b, "(make-array (list %d %d) :initial-contents (list", r, c)
		for i := 0; i < r; i++ {
			b.WriteString(" (list")
			for j := 0; j < c; j++ {
				b.WriteString(" " + o.C[i*c+j].Src())
			}
			b.WriteString(")")
		}
		b.WriteString("))")
		return b.String()
	case "inst":
		return "(make-instance (quote " + o.V + ") :v " + o.C[0].Src() + ")"
	case "tab":
		var b strings.Builder
		b.WriteString("(let ((h (make-hash-table)))")
		for i := 0; i+1 < len(o.C); i += 2 {
			b.WriteString(" (setf (gethash " + o.C[i].Src() + " h) " + o.C[i+1].Src() + ")")
		}
		b.WriteString(" h)")
		return b.String()
	}
	panic("bad Obj kind " + o.K)
}

// Text is a short rendering for messages.
func (o Obj) Text() string {
	s := o.Src()
	if 80 < len(s) {
		s = s[:77] + "..."
	}
	return s
}

// hv is a built harness value: the description, the exact numeric value, a
// unique identity, and the real object slip built for it.
type hv struct {
	o    Obj
	q    *big.Rat
	id   int
	kids []*hv
	obj  slip.Object
	okay bool // the object slip built matches the description
	tied bool // obj is set (sub-objects are tied to their description by matches)
}

var nextID int

// exact value of a numeric description.
func exactValue(o Obj) *big.Rat {
	switch o.K {
	case "fix", "big", "ratio":
		q, ok := new(big.Rat).SetString(o.V)
		if !ok {
			panic("bad number " + o.V)
		}
		return q
	case "single":
		f, err := strconv.ParseFloat(o.V, 32)
		if err != nil {
			panic(err)
		}
		return new(big.Rat).SetFloat64(float64(float32(f)))
	case "double":
		f, err := strconv.ParseFloat(o.V, 64)
		if err != nil {
			panic(err)
		}
		return new(big.Rat).SetFloat64(f)
	case "long":
		q, ok := new(big.Rat).SetString(o.V)
		if !ok {
			panic("bad number " + o.V)
		}
		return q
	}
	return nil
}

// describe builds the harness value tree (no slip involved).
func describe(o Obj) *hv {
	nextID++
	h := &hv{o: o, id: nextID}
	if o.isNum() {
		h.q = exactValue(o)
	}
	for _, c := range o.C {
		h.kids = append(h.kids, describe(c))
	}
	return h
}

// build makes slip construct the object and ties the sub-objects to the
// description by walking both.
func build(scope *slip.Scope, o Obj) (*hv, *sl.Err) {
	h := describe(o)
	obj, err := sl.Eval(scope, o.Src())
	if err != nil {
		return h, err
	}
	if vs, ok := obj.(slip.Values); ok && 0 < len(vs) {
		obj = vs[0]
	}
	h.okay = matches(obj, h)
	return h, nil
}

// matches verifies, with the harness's own type switch, that slip built what
// the description says (reader defects belong to other properties: a
// mismatch makes the case trivial, not failing).
func matches(obj slip.Object, h *hv) bool {
	h.obj, h.tied = obj, true
	switch h.o.K {
	case "fix":
		v, ok := obj.(slip.Fixnum)
		return ok && new(big.Rat).SetInt64(int64(v)).Cmp(h.q) == 0
	case "big":
		v, ok := obj.(*slip.Bignum)
		return ok && new(big.Rat).SetInt((*big.Int)(v)).Cmp(h.q) == 0
	case "ratio":
		v, ok := obj.(*slip.Ratio)
		return ok && (*big.Rat)(v).Cmp(h.q) == 0
	case "single":
		v, ok := obj.(slip.SingleFloat)
		return ok && !math.IsInf(float64(v), 0) && new(big.Rat).SetFloat64(float64(v)).Cmp(h.q) == 0
	case "double":
		v, ok := obj.(slip.DoubleFloat)
		return ok && !math.IsInf(float64(v), 0) && new(big.Rat).SetFloat64(float64(v)).Cmp(h.q) == 0
	case "long":
		v, ok := obj.(*slip.LongFloat)
		if !ok || (*big.Float)(v).IsInf() {
			return false
		}
		r, _ := (*big.Float)(v).Rat(nil)
		return r.Cmp(h.q) == 0
	case "char":
		v, ok := obj.(slip.Character)
		return ok && string(rune(v)) == h.o.V
	case "str":
		v, ok := obj.(slip.String)
		return ok && string(v) == h.o.V
	case "sym":
		v, ok := obj.(slip.Symbol)
		return ok && strings.EqualFold(string(v), h.o.V)
	case "key":
		v, ok := obj.(slip.Symbol)
		return ok && strings.EqualFold(string(v), ":"+h.o.V)
	case "nil":
		if obj == nil {
			return true
		}
		l, ok := obj.(slip.List)
		return ok && len(l) == 0
	case "t":
		return obj == slip.True
	case "list":
		l, ok := obj.(slip.List)
		if !ok || len(l) != len(h.kids) {
			return false
		}
		for i, e := range l {
			if _, isTail := e.(slip.Tail); isTail || !matches(e, h.kids[i]) {
				return false
			}
		}
		return true
	case "dot":
		l, ok := obj.(slip.List)
		if !ok || len(l) != len(h.kids) {
			return false
		}
		for i, e := range l {
			if i == len(l)-1 {
				t, isTail := e.(slip.Tail)
				if !isTail || !matches(t.Value, h.kids[i]) {
					return false
				}
				continue
			}
			if !matches(e, h.kids[i]) {
				return false
			}
		}
		return true
	case "vec":
		v, ok := obj.(*slip.Vector)
		if !ok {
			return false
		}
		l := v.AsList()
		if len(l) != len(h.kids) {
			return false
		}
		for i, e := range l {
			if !matches(e, h.kids[i]) {
				return false
			}
		}
		return true
	case "opq":
		return obj != nil
	case "tab":
		t, ok := obj.(slip.HashTable)
		return ok && 2*len(t) == len(h.kids)
	case "arr":
		a, ok := obj.(*slip.Array)
		if !ok || a.Rank() != 2 {
			return false
		}
		r, c := h.o.dims()
		rows := a.AsList()
		if len(rows) != r {
			return false
		}
		for i, row := range rows {
			rl, ok := row.(slip.List)
			if !ok || len(rl) != c {
				return false
			}
			for j, e := range rl {
				if !matches(e, h.kids[i*c+j]) {
					return false
				}
			}
		}
		return true
	case "inst":
		if obj == nil {
			return false
		}
		hy := obj.Hierarchy()
		return 0 < len(hy) && strings.EqualFold(string(hy[0]), h.o.V)
	}
	return false
}

// ---- the harness definition of the four predicates ------------------------
//
// Written from the FuncDoc texts of eq, eql, equal, equalp (slip is a dialect:
// eql and equal compare numbers by value across representations - "(eql 5
// 5.0) => t" - eql compares strings case-sensitively, equal and equalp
// compare strings case-insensitively) and ANSI CL elsewhere. Three-valued:
// where neither source pins the answer the verdict is "unspecified" and the
// observation is not judged against the definition (the relation monitors
// still apply to it).

type tv int

const (
	fF tv = iota
	fT
	fU
)

func (v tv) String() string { return [...]string{"nil", "t", "unspecified"}[v] }

func and3(a, b tv) tv {
	switch {
	case a == fF || b == fF:
		return fF
	case a == fU || b == fU:
		return fU
	}
	return fT
}

func b3(b bool) tv {
	if b {
		return fT
	}
	return fF
}

func isNilH(h *hv) bool { return h.o.K == "nil" }

func foldEq(a, b string) bool { return strings.EqualFold(a, b) }

func charFoldEq(a, b string) bool {
	ra, rb := []rune(a), []rune(b)
	if len(ra) != 1 || len(rb) != 1 {
		return a == b
	}
	return ra[0] == rb[0] || unicode.ToLower(ra[0]) == unicode.ToLower(rb[0]) || unicode.ToUpper(ra[0]) == unicode.ToUpper(rb[0])
}

func wantEq(a, b *hv) tv {
	if a.id == b.id {
		return fT
	}
	ga, gb := group(a.o.K), group(b.o.K)
	if ga != gb {
		return fF
	}
	switch ga {
	case "nil":
		return fT
	case "sym":
		return b3(a.o.K == b.o.K && strings.EqualFold(a.o.V, b.o.V))
	case "num":
		if a.o.K == b.o.K && a.q.Cmp(b.q) == 0 {
			return fU // implementation-dependent for numbers of the same type and value
		}
		return fF
	case "char":
		if a.o.V == b.o.V {
			return fU
		}
		return fF
	case "str":
		if a.o.V == b.o.V {
			return fU // literals may be coalesced
		}
		return fF
	}
	return fF // separately built conses, vectors, tables, instances
}

func wantEql(a, b *hv) tv {
	if e := wantEq(a, b); e == fT {
		return fT
	}
	ga, gb := group(a.o.K), group(b.o.K)
	if ga != gb {
		return fF
	}
	switch ga {
	case "num":
		return b3(a.q.Cmp(b.q) == 0)
	case "char":
		return b3(a.o.V == b.o.V)
	case "str":
		return b3(a.o.V == b.o.V)
	}
	return fF
}

func wantEqual(a, b *hv) tv { return wantStruct(a, b, false) }
func wantEqualp(a, b *hv) tv { return wantStruct(a, b, true) }

func wantStruct(a, b *hv, p bool) tv {
	if e := wantEql(a, b); e == fT {
		return fT
	}
	ga, gb := group(a.o.K), group(b.o.K)
	if (ga == "str" && gb == "vec") || (ga == "vec" && gb == "str") {
		// "Strings and Vectors: equal if each element is equal": whether a
		// string equals a general vector of its characters is not pinned.
		return fU
	}
	if ga != gb {
		return fF
	}
	switch ga {
	case "num":
		return fF // eql already said no
	case "char":
		if p {
			return b3(charFoldEq(a.o.V, b.o.V))
		}
		return fF
	case "str":
		return b3(foldEq(a.o.V, b.o.V))
	case "list":
		if a.o.K != b.o.K || len(a.kids) != len(b.kids) {
			return fF
		}
		r := fT
		for i := range a.kids {
			r = and3(r, wantStruct(a.kids[i], b.kids[i], p))
		}
		return r
	case "vec":
		if len(a.kids) != len(b.kids) {
			return fF
		}
		r := fT
		for i := range a.kids {
			r = and3(r, wantStruct(a.kids[i], b.kids[i], p))
		}
		return r
	case "opq":
		if p {
			return fU // equalp descends into tables and instances
		}
		return fF
	case "arr":
		// equal names strings and vectors only; "Arrays: equalp if both have the
		// same dimensions and each element is equalp".
		if !p {
			return fF
		}
		if a.o.V != b.o.V || len(a.kids) != len(b.kids) {
			return fF
		}
		r := fT
		for i := range a.kids {
			r = and3(r, wantStruct(a.kids[i], b.kids[i], true))
		}
		return r
	case "inst":
		// "Instances: equalp if both are of the same flavor and all
		// instance-variables are equalp"; equal if eq.
		if !p {
			return fF
		}
		if a.o.V != b.o.V {
			return fF
		}
		return wantStruct(a.kids[0], b.kids[0], true)
	case "tab":
		// equal: "Others (Hash-Tables, Instances, ...): equal if eq".
		// equalp: same keys, element values equalp.
		if !p {
			return fF
		}
		if len(a.kids) != len(b.kids) {
			return fF
		}
		r := fT
		for i := 0; i+1 < len(a.kids); i += 2 {
			at := -1
			for j := 0; j+1 < len(b.kids); j += 2 {
				if wantEql(a.kids[i], b.kids[j]) == fT {
					at = j
				}
			}
			if at < 0 {
				return fF
			}
			r = and3(r, wantStruct(a.kids[i+1], b.kids[at+1], true))
		}
		return r
	}
	return fF
}

var wantFns = map[string]func(a, b *hv) tv{"eq": wantEq, "eql": wantEql, "equal": wantEqual, "equalp": wantEqualp}

var preds = []string{"eq", "eql", "equal", "equalp"}

// truth classifies a slip result as t / nil / other.
func truth(o slip.Object) (bool, bool) {
	if o == nil {
		return false, true
	}
	if o == slip.True {
		return true, true
	}
	if l, ok := o.(slip.List); ok && len(l) == 0 {
		return false, true
	}
	return false, false
}

func fmtErr(e *sl.Err) string {
	s := e.String()
	if 160 < len(s) {
		s = s[:160] + "..."
	}
	return s
}

// identical tells whether two slip values are the same object, decided by the
// harness (Go identity of pointer-shaped values, value identity of immediates).
func identical(a, b slip.Object) (same bool) {
	defer func() {
		if recover() != nil {
			same = false
		}
	}()
	if a == nil || b == nil {
		return a == nil && b == nil
	}
	ta, tb := reflect.TypeOf(a), reflect.TypeOf(b)
	if ta != tb || !ta.Comparable() {
		return false
	}
	return a == b
}

func reflectComparable(a slip.Object) bool {
	return a != nil && reflect.TypeOf(a).Comparable() && reflect.TypeOf(a).Kind() == reflect.Ptr
}

var _ = fmt.Sprintf
