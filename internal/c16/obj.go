package c16

import (
	"fmt"
	"math"
	"math/big"
	"reflect"
	"strconv"
	"strings"
	"unicode"

	"github.com/ohler55/slip"

	"verif/internal/sl"
)

// Obj is the harness-side description of an object: a small tree the harness
// fully understands. slip builds the real object from Src(); the harness
// derives what the predicates must say from the tree alone.
//
//	fix big ratio single double long : V = exact decimal / rational text
//	complex                          : V = "RE IM", two decimals exactly representable as double-floats
//	octet sbyte ubyte bit            : V = the integer; built by (coerce V 'octet / 'signed-byte / 'unsigned-byte / 'bit)
//	bitv                             : bit vector, V = the bits as 0/1 text
//	octs                             : octets vector, V = the ASCII text whose bytes it holds
//	char str sym key                 : V = the character, text, name
//	nil t                            : the two constants; a nil with a V is the empty list reached by evaluating V
//	                                   (slip has two representations of it: no object at all and a list of length 0)
//	list                             : proper list of C (non-empty)
//	dot                              : dotted list, last element of C is the tail
//	vec                              : simple vector of C
//	tab                              : hash table, C = key value key value ... (keys: distinct fixnums, strings, symbols, characters)
//	arr                              : 2-dimensional array, V = "RxC", C = the R*C elements in row-major order
//	inst                             : instance of the harness class named V (c16-k, c16-k2) with one slot holding C[0]
//	opq                              : V = source expression of an object only its identity is known of
type Obj struct {
	K string `json:"k"`
	V string `json:"v,omitempty"`
	C []Obj  `json:"c,omitempty"`
}

func num(k, v string) Obj           { return Obj{K: k, V: v} }
func fix(v int) Obj                 { return Obj{K: "fix", V: strconv.Itoa(v)} }
func str(v string) Obj              { return Obj{K: "str", V: v} }
func chr(v string) Obj              { return Obj{K: "char", V: v} }
func sym(v string) Obj              { return Obj{K: "sym", V: v} }
func key(v string) Obj              { return Obj{K: "key", V: v} }
func list(c ...Obj) Obj             { return Obj{K: "list", C: c} }
func dot(c ...Obj) Obj              { return Obj{K: "dot", C: c} }
func vec(c ...Obj) Obj              { return Obj{K: "vec", C: c} }
func opq(v string) Obj              { return Obj{K: "opq", V: v} }
func tab(c ...Obj) Obj              { return Obj{K: "tab", C: c} }
func arr(dims string, c ...Obj) Obj { return Obj{K: "arr", V: dims, C: c} }
func inst(class string, v Obj) Obj  { return Obj{K: "inst", V: class, C: []Obj{v}} }

func (o Obj) dims() (int, int) {
	var r, c int
	fmt.Sscanf(o.V, "%dx%d", &r, &c)
	return r, c
}
func (o Obj) isNum() bool       { return group(o.K) == "num" }
func (o Obj) withC(c []Obj) Obj { return Obj{K: o.K, V: o.V, C: c} }

var objNil = Obj{K: "nil"}
var objT = Obj{K: "t"}

// group is the coarse kind used in signatures.
func group(k string) string {
	switch k {
	case "fix", "big", "ratio", "single", "double", "long", "complex", "octet", "sbyte", "ubyte", "bit":
		return "num"
	case "sym", "key", "t":
		return "sym"
	case "list", "dot":
		return "list"
	}
	return k // char str nil vec opq bitv octs
}

// vectorish: the groups whose members are vectors of some kind ("Strings and
// Vectors: equal if each element is equal" leaves open whether vectors of
// different kinds with equal elements are equal).
func vectorish(g string) bool { return g == "str" || g == "vec" || g == "bitv" || g == "octs" }

// Src renders the slip source that builds the object.
func (o Obj) Src() string {
	switch o.K {
	case "fix", "big", "ratio":
		return o.V
	case "single":
		return o.V + "f0"
	case "double":
		return o.V + "d0"
	case "long":
		return o.V + "L0"
	case "complex":
		return "#C(" + o.V + ")"
	case "octet":
		return "(coerce " + o.V + " (quote octet))"
	case "sbyte":
		return "(coerce " + o.V + " (quote signed-byte))"
	case "ubyte":
		return "(coerce " + o.V + " (quote unsigned-byte))"
	case "bit":
		return "(coerce " + o.V + " (quote bit))"
	case "bitv":
		return "#*" + o.V
	case "octs":
		return "(coerce \"" + o.V + "\" (quote octets))"
	case "char":
		return `#\` + o.V
	case "str":
		return `"` + o.V + `"`
	case "sym":
		return "(quote " + o.V + ")"
	case "key":
		return ":" + o.V
	case "nil":
		if o.V != "" {
			return o.V
		}
		return "nil"
	case "t":
		return "t"
	case "list", "vec":
		var b strings.Builder
		if o.K == "list" {
			b.WriteString("(list")
		} else {
			b.WriteString("(vector")
		}
		for _, c := range o.C {
			b.WriteByte(' ')
			b.WriteString(c.Src())
		}
		b.WriteByte(')')
		return b.String()
	case "dot":
		n := len(o.C)
		s := o.C[n-1].Src()
		for i := n - 2; 0 <= i; i-- {
			s = "(cons " + o.C[i].Src() + " " + s + ")"
		}
		return s
	case "opq":
		return o.V
	case "arr":
		r, c := o.dims()
		var b strings.Builder
		fmt.Fprintf(&b, "(make-array (list %d %d) :initial-contents (list", r, c)
		for i := 0; i < r; i++ {
			b.WriteString(" (list")
			for j := 0; j < c; j++ {
				b.WriteString(" " + o.C[i*c+j].Src())
			}
			b.WriteString(")")
		}
		b.WriteString("))")
		return b.String()
	case "inst":
		return "(make-instance (quote " + o.V + ") :v " + o.C[0].Src() + ")"
	case "tab":
		var b strings.Builder
		b.WriteString("(let ((h (make-hash-table)))")
		for i := 0; i+1 < len(o.C); i += 2 {
			b.WriteString(" (setf (gethash " + o.C[i].Src() + " h) " + o.C[i+1].Src() + ")")
		}
		b.WriteString(" h)")
		return b.String()
	}
	panic("bad Obj kind " + o.K)
}

// Text is a short rendering for messages.
func (o Obj) Text() string {
	s := o.Src()
	if 80 < len(s) {
		s = s[:77] + "..."
	}
	return s
}

// hv is a built harness value: the description, the exact numeric value, a
// unique identity, and the real object slip built for it.
type hv struct {
	o    Obj
	q    *big.Rat
	qi   *big.Rat // imaginary part of a complex, nil for a real
	id   int
	kids []*hv
	obj  slip.Object
	okay bool // the object slip built matches the description
	tied bool // obj is set (sub-objects are tied to their description by matches)
}

var nextID int

// exact value of a numeric description.
func exactValue(o Obj) *big.Rat {
	switch o.K {
	case "fix", "big", "ratio", "octet", "sbyte", "ubyte", "bit":
		q, ok := new(big.Rat).SetString(o.V)
		if !ok {
			panic("bad number " + o.V)
		}
		return q
	case "complex":
		re, _ := complexParts(o)
		return re
	case "single":
		f, err := strconv.ParseFloat(o.V, 32)
		if err != nil {
			panic(err)
		}
		return new(big.Rat).SetFloat64(float64(float32(f)))
	case "double":
		f, err := strconv.ParseFloat(o.V, 64)
		if err != nil {
			panic(err)
		}
		return new(big.Rat).SetFloat64(f)
	case "long":
		q, ok := new(big.Rat).SetString(o.V)
		if !ok {
			panic("bad number " + o.V)
		}
		return q
	}
	return nil
}

// complexParts gives the exact parts of a complex description (the reader
// makes double-floats of them).
func complexParts(o Obj) (*big.Rat, *big.Rat) {
	f := strings.Fields(o.V)
	if len(f) != 2 {
		panic("bad complex " + o.V)
	}
	var parts [2]*big.Rat
	for i, t := range f {
		v, err := strconv.ParseFloat(t, 64)
		if err != nil {
			panic(err)
		}
		parts[i] = new(big.Rat).SetFloat64(v)
	}
	return parts[0], parts[1]
}

// exactImag is the imaginary part of a numeric description (zero for a real).
func exactImag(o Obj) *big.Rat {
	if o.K == "complex" {
		_, im := complexParts(o)
		return im
	}
	return new(big.Rat)
}

// sameNumber tells whether two numeric descriptions denote one value.
func sameNumber(a, b Obj) bool {
	return exactValue(a).Cmp(exactValue(b)) == 0 && exactImag(a).Cmp(exactImag(b)) == 0
}

func (h *hv) imag() *big.Rat {
	if h.qi != nil {
		return h.qi
	}
	return new(big.Rat)
}

// numEq: the two numbers have the same value.
func numEq(a, b *hv) bool { return a.q.Cmp(b.q) == 0 && a.imag().Cmp(b.imag()) == 0 }

// describe builds the harness value tree (no slip involved).
func describe(o Obj) *hv {
	nextID++
	h := &hv{o: o, id: nextID}
	if o.isNum() {
		h.q = exactValue(o)
		if o.K == "complex" {
			h.qi = exactImag(o)
		}
	}
	for _, c := range o.C {
		h.kids = append(h.kids, describe(c))
	}
	return h
}

// build makes slip construct the object and ties the sub-objects to the
// description by walking both.
func build(scope *slip.Scope, o Obj) (*hv, *sl.Err) {
	h := describe(o)
	obj, err := sl.Eval(scope, o.Src())
	if err != nil {
		return h, err
	}
	if vs, ok := obj.(slip.Values); ok && 0 < len(vs) {
		obj = vs[0]
	}
	h.okay = matches(obj, h)
	return h, nil
}

// matches verifies, with the harness's own type switch, that slip built what
// the description says (reader defects belong to other properties: a
// mismatch makes the case trivial, not failing).
func matches(obj slip.Object, h *hv) bool {
	h.obj, h.tied = obj, true
	switch h.o.K {
	case "fix":
		v, ok := obj.(slip.Fixnum)
		return ok && new(big.Rat).SetInt64(int64(v)).Cmp(h.q) == 0
	case "big":
		v, ok := obj.(*slip.Bignum)
		return ok && new(big.Rat).SetInt((*big.Int)(v)).Cmp(h.q) == 0
	case "ratio":
		v, ok := obj.(*slip.Ratio)
		return ok && (*big.Rat)(v).Cmp(h.q) == 0
	case "single":
		v, ok := obj.(slip.SingleFloat)
		return ok && !math.IsInf(float64(v), 0) && new(big.Rat).SetFloat64(float64(v)).Cmp(h.q) == 0
	case "double":
		v, ok := obj.(slip.DoubleFloat)
		return ok && !math.IsInf(float64(v), 0) && new(big.Rat).SetFloat64(float64(v)).Cmp(h.q) == 0
	case "long":
		v, ok := obj.(*slip.LongFloat)
		if !ok || (*big.Float)(v).IsInf() {
			return false
		}
		r, _ := (*big.Float)(v).Rat(nil)
		return r.Cmp(h.q) == 0
	case "complex":
		v, ok := obj.(slip.Complex)
		if !ok || math.IsInf(real(complex128(v)), 0) || math.IsInf(imag(complex128(v)), 0) || math.IsNaN(real(complex128(v))) || math.IsNaN(imag(complex128(v))) {
			return false
		}
		return new(big.Rat).SetFloat64(real(complex128(v))).Cmp(h.q) == 0 && new(big.Rat).SetFloat64(imag(complex128(v))).Cmp(h.imag()) == 0
	case "octet":
		v, ok := obj.(slip.Octet)
		return ok && new(big.Rat).SetInt64(int64(v)).Cmp(h.q) == 0
	case "bit":
		v, ok := obj.(slip.Bit)
		return ok && new(big.Rat).SetInt64(v.Int64()).Cmp(h.q) == 0
	case "sbyte":
		v, ok := obj.(*slip.SignedByte)
		return ok && v != nil && intObjIs(v.AsFixOrBig(), h.q)
	case "ubyte":
		v, ok := obj.(*slip.UnsignedByte)
		return ok && v != nil && intObjIs(v.AsFixOrBig(), h.q)
	case "bitv":
		v, ok := obj.(*slip.BitVector)
		if !ok || v == nil || int(v.Len) != len(h.o.V) {
			return false
		}
		for i := range h.o.V {
			if v.At(uint(i)) != (h.o.V[i] == '1') {
				return false
			}
		}
		return true
	case "octs":
		v, ok := obj.(slip.Octets)
		return ok && string(v) == h.o.V
	case "char":
		v, ok := obj.(slip.Character)
		return ok && string(rune(v)) == h.o.V
	case "str":
		v, ok := obj.(slip.String)
		return ok && string(v) == h.o.V
	case "sym":
		v, ok := obj.(slip.Symbol)
		return ok && strings.EqualFold(string(v), h.o.V)
	case "key":
		v, ok := obj.(slip.Symbol)
		return ok && strings.EqualFold(string(v), ":"+h.o.V)
	case "nil":
		if obj == nil {
			return true
		}
		l, ok := obj.(slip.List)
		return ok && len(l) == 0
	case "t":
		return obj == slip.True
	case "list":
		l, ok := obj.(slip.List)
		if !ok || len(l) != len(h.kids) {
			return false
		}
		for i, e := range l {
			if _, isTail := e.(slip.Tail); isTail || !matches(e, h.kids[i]) {
				return false
			}
		}
		return true
	case "dot":
		l, ok := obj.(slip.List)
		if !ok || len(l) != len(h.kids) {
			return false
		}
		for i, e := range l {
			if i == len(l)-1 {
				t, isTail := e.(slip.Tail)
				if !isTail || !matches(t.Value, h.kids[i]) {
					return false
				}
				continue
			}
			if !matches(e, h.kids[i]) {
				return false
			}
		}
		return true
	case "vec":
		v, ok := obj.(*slip.Vector)
		if !ok {
			return false
		}
		l := v.AsList()
		if len(l) != len(h.kids) {
			return false
		}
		for i, e := range l {
			if !matches(e, h.kids[i]) {
				return false
			}
		}
		return true
	case "opq":
		return obj != nil
	case "tab":
		t, ok := obj.(slip.HashTable)
		return ok && 2*len(t) == len(h.kids)
	case "arr":
		a, ok := obj.(*slip.Array)
		if !ok || a.Rank() != 2 {
			return false
		}
		r, c := h.o.dims()
		rows := a.AsList()
		if len(rows) != r {
			return false
		}
		for i, row := range rows {
			rl, ok := row.(slip.List)
			if !ok || len(rl) != c {
				return false
			}
			for j, e := range rl {
				if !matches(e, h.kids[i*c+j]) {
					return false
				}
			}
		}
		return true
	case "inst":
		if obj == nil {
			return false
		}
		hy := obj.Hierarchy()
		return 0 < len(hy) && strings.EqualFold(string(hy[0]), h.o.V)
	}
	return false
}

// intObjIs: the fixnum or bignum o has the value q.
func intObjIs(o slip.Object, q *big.Rat) bool {
	switch v := o.(type) {
	case slip.Fixnum:
		return new(big.Rat).SetInt64(int64(v)).Cmp(q) == 0
	case *slip.Bignum:
		return new(big.Rat).SetInt((*big.Int)(v)).Cmp(q) == 0
	}
	return false
}

// ---- the harness definition of the four predicates ------------------------
//
// Written from the FuncDoc texts of eq, eql, equal, equalp (slip is a dialect:
// eql and equal compare numbers by value across representations - "(eql 5
// 5.0) => t" - eql compares strings case-sensitively, equal and equalp
// compare strings case-insensitively) and ANSI CL elsewhere. Three-valued:
// where neither source pins the answer the verdict is "unspecified" and the
// observation is not judged against the definition (the relation monitors
// still apply to it).

type tv int

const (
	fF tv = iota
	fT
	fU
)

func (v tv) String() string { return [...]string{"nil", "t", "unspecified"}[v] }

func and3(a, b tv) tv {
	switch {
	case a == fF || b == fF:
		return fF
	case a == fU || b == fU:
		return fU
	}
	return fT
}

func b3(b bool) tv {
	if b {
		return fT
	}
	return fF
}

func isNilH(h *hv) bool { return h.o.K == "nil" }

func foldEq(a, b string) bool { return strings.EqualFold(a, b) }

func charFoldEq(a, b string) bool {
	ra, rb := []rune(a), []rune(b)
	if len(ra) != 1 || len(rb) != 1 {
		return a == b
	}
	return ra[0] == rb[0] || unicode.ToLower(ra[0]) == unicode.ToLower(rb[0]) || unicode.ToUpper(ra[0]) == unicode.ToUpper(rb[0])
}

func wantEq(a, b *hv) tv {
	if a.id == b.id {
		return fT
	}
	ga, gb := group(a.o.K), group(b.o.K)
	if ga != gb {
		return fF
	}
	switch ga {
	case "nil":
		return fT
	case "sym":
		return b3(a.o.K == b.o.K && strings.EqualFold(a.o.V, b.o.V))
	case "num":
		if a.o.K == b.o.K && numEq(a, b) {
			return fU // implementation-dependent for numbers of the same type and value
		}
		return fF
	case "char":
		if a.o.V == b.o.V {
			return fU
		}
		return fF
	case "str":
		if a.o.V == b.o.V {
			return fU // literals may be coalesced
		}
		return fF
	}
	return fF // separately built conses, vectors, tables, instances
}

func wantEql(a, b *hv) tv {
	if e := wantEq(a, b); e == fT {
		return fT
	}
	ga, gb := group(a.o.K), group(b.o.K)
	if ga != gb {
		return fF
	}
	switch ga {
	case "num":
		if (a.o.K == "complex") != (b.o.K == "complex") && numEq(a, b) {
			// "numbers and have the same value" (eql's FuncDoc) against ANSI's
			// "of the same type": a complex with a zero imaginary part and the
			// real of that value is pinned by neither
			return fU
		}
		return b3(numEq(a, b))
	case "char":
		return b3(a.o.V == b.o.V)
	case "str":
		return b3(a.o.V == b.o.V)
	}
	return fF
}

func wantEqual(a, b *hv) tv  { return wantStruct(a, b, false) }
func wantEqualp(a, b *hv) tv { return wantStruct(a, b, true) }

func wantStruct(a, b *hv, p bool) tv {
	if e := wantEql(a, b); e == fT {
		return fT
	}
	ga, gb := group(a.o.K), group(b.o.K)
	if ga != gb && vectorish(ga) && vectorish(gb) {
		// "Strings and Vectors: equal if each element is equal": whether a
		// string equals a general vector of its characters (or a bit vector /
		// octets vector a general vector of its elements) is not pinned.
		return fU
	}
	if ga != gb {
		return fF
	}
	switch ga {
	case "num":
		return wantEql(a, b) // nil, or unspecified for a complex against a real
	case "char":
		if p {
			return b3(charFoldEq(a.o.V, b.o.V))
		}
		return fF
	case "str":
		return b3(foldEq(a.o.V, b.o.V))
	case "bitv", "octs":
		// vectors of bits / of integers: equal when the elements are
		return b3(a.o.V == b.o.V)
	case "list":
		if a.o.K != b.o.K || len(a.kids) != len(b.kids) {
			return fF
		}
		r := fT
		for i := range a.kids {
			r = and3(r, wantStruct(a.kids[i], b.kids[i], p))
		}
		return r
	case "vec":
		if len(a.kids) != len(b.kids) {
			return fF
		}
		r := fT
		for i := range a.kids {
			r = and3(r, wantStruct(a.kids[i], b.kids[i], p))
		}
		return r
	case "opq":
		if p {
			return fU // equalp descends into tables and instances
		}
		return fF
	case "arr":
		// equal names strings and vectors only; "Arrays: equalp if both have the
		// same dimensions and each element is equalp".
		if !p {
			return fF
		}
		if a.o.V != b.o.V || len(a.kids) != len(b.kids) {
			return fF
		}
		r := fT
		for i := range a.kids {
			r = and3(r, wantStruct(a.kids[i], b.kids[i], true))
		}
		return r
	case "inst":
		// "Instances: equalp if both are of the same flavor and all
		// instance-variables are equalp"; equal if eq.
		if !p {
			return fF
		}
		if a.o.V != b.o.V {
			return fF
		}
		return wantStruct(a.kids[0], b.kids[0], true)
	case "tab":
		// equal: "Others (Hash-Tables, Instances, ...): equal if eq".
		// equalp: same keys, element values equalp.
		if !p {
			return fF
		}
		if len(a.kids) != len(b.kids) {
			return fF
		}
		r := fT
		for i := 0; i+1 < len(a.kids); i += 2 {
			at := -1
			for j := 0; j+1 < len(b.kids); j += 2 {
				if wantEql(a.kids[i], b.kids[j]) == fT {
					at = j
				}
			}
			if at < 0 {
				return fF
			}
			r = and3(r, wantStruct(a.kids[i+1], b.kids[at+1], true))
		}
		return r
	}
	return fF
}

// whyNot names, coarsely, why two containers of one kind are not
// equal/equalp by the definition: size, keys (tables), elem (a pair of
// corresponding parts is not), kind (instances of different classes). It is
// part of the signature of a wrong t, so that a second way of wrongly
// answering t for the same kind of container is a different signature.
func whyNot(a, b *hv, p bool) string {
	if a.o.K != b.o.K || len(a.kids) == 0 && len(b.kids) == 0 {
		return ""
	}
	switch a.o.K {
	case "list", "dot", "vec":
		if len(a.kids) != len(b.kids) {
			return "size"
		}
		return "elem"
	case "arr":
		if a.o.V != b.o.V {
			return "size"
		}
		return "elem"
	case "inst":
		if a.o.V != b.o.V {
			return "kind"
		}
		return "elem"
	case "tab":
		if len(a.kids) != len(b.kids) {
			return "size"
		}
		for i := 0; i+1 < len(a.kids); i += 2 {
			found := false
			for j := 0; j+1 < len(b.kids); j += 2 {
				if wantEql(a.kids[i], b.kids[j]) == fT {
					found = true
				}
			}
			if !found {
				return "keys"
			}
		}
		return "elem"
	}
	return ""
}

var wantFns = map[string]func(a, b *hv) tv{"eq": wantEq, "eql": wantEql, "equal": wantEqual, "equalp": wantEqualp}

var preds = []string{"eq", "eql", "equal", "equalp"}

// truth classifies a slip result as t / nil / other.
func truth(o slip.Object) (bool, bool) {
	if o == nil {
		return false, true
	}
	if o == slip.True {
		return true, true
	}
	if l, ok := o.(slip.List); ok && len(l) == 0 {
		return false, true
	}
	return false, false
}

func fmtErr(e *sl.Err) string {
	s := e.String()
	if 160 < len(s) {
		s = s[:160] + "..."
	}
	return s
}

// identical tells whether two slip values are the same object, decided by the
// harness (Go identity of pointer-shaped values, value identity of immediates).
func identical(a, b slip.Object) (same bool) {
	defer func() {
		if recover() != nil {
			same = false
		}
	}()
	if a == nil || b == nil {
		return a == nil && b == nil
	}
	ta, tb := reflect.TypeOf(a), reflect.TypeOf(b)
	if ta != tb || !ta.Comparable() {
		return false
	}
	return a == b
}

func reflectComparable(a slip.Object) bool {
	return a != nil && reflect.TypeOf(a).Comparable() && reflect.TypeOf(a).Kind() == reflect.Ptr
}

var _ = fmt.Sprintf
