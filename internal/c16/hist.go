package c16

import (
	"fmt"
	"math/rand/v2"
	"reflect"
	"sort"
	"strings"

	"github.com/ohler55/slip"

	"verif/internal/fw"
	"verif/internal/sl"
)

// Op is one hash-table operation: O in set get rem clr map cnt, and
//
//	mapdel : maphash with a function that removes the entry it is called with when its value is odd
//	mapinc : maphash with a function that stores value+1000 under the key it is called with
//	bad    : a store whose value form signals an error - the table must be unchanged
//
// S the key slot; I which of the two separately built key objects of the slot
// is used; V the value stored (0 = nil); T the table: 0 = the table, 1 = a
// second, independent table made by another make-hash-table (it shares the key
// objects), 2 = the first table again, reached through a second variable.
type Op struct {
	O string `json:"o"`
	S int    `json:"s,omitempty"`
	I int    `json:"i,omitempty"`
	V int    `json:"v,omitempty"`
	T int    `json:"t,omitempty"`
}

// the table tests; "" = make-hash-table without :test
var tests = []string{"", "eq", "eql", "equal", "equalp"}

const nSlots = 6

// ---- key pools --------------------------------------------------------------

var cleanKeys = []Obj{
	fix(0), fix(1), fix(7), fix(-3), fix(65), fix(97), fix(1000000),
	num("single", "0.5"), num("single", "1.5"), num("double", "2.5"), num("double", "0.1"), num("double", "-4.0"),
	chr("a"), chr("A"), chr("k"), chr("1"),
	str("a"), str("A"), str("key"), str("KEY"), str(""), str("1"), str("7"),
	sym("a"), sym("alpha"), key("a"), key("alpha"), objNil, objT,
	vec(fix(1), fix(2)), vec(), vec(str("a")),
	opq("(make-instance 'c16-pt :x 1)"), opq("(lambda (x) x)"), opq("(make-instance 'c16-fl)"),
	opq("(make-c16-st :a 1)"), opq("(make-condition 'c16-cond)"), opq("(make-array (list 2 2))"), opq("(make-string-output-stream)"),
	vec(list(fix(1), fix(2)), str("x")), vec(vec(fix(1))), chr("é"), chr("É"), str("é"), str("abc"), str("ABC"), str("Abc"),
	num("octet", "9"), num("octet", "200"), num("bit", "0"), num("complex", "1 2"), num("complex", "1 3"), num("complex", "3.5 0"), Obj{K: "bitv", V: "101"},
}

// keys the pinned tree is known to mishandle, one hazard class each
var dirtyKeys = map[string][]Obj{
	"ptrnum:big":            {num("big", p70), num("big", "-"+p64)},
	"ptrnum:ratio":          {num("ratio", "1/2"), num("ratio", "-7/3")},
	"ptrnum:long":           {num("long", "1.5"), num("long", "10.0")},
	"ptrnum:sbyte":          {num("sbyte", "11"), num("sbyte", "-11")},
	"ptrnum:ubyte":          {num("ubyte", "11")},
	"unhashable:list":       {list(fix(1), fix(2)), dot(fix(1), fix(2)), list(str("a"))},
	"unhashable:emptylist":  {{K: "nil", V: "(cdr (list 1))"}, {K: "nil", V: "(list)"}},
	"unhashable:hash-table": {opq("(make-hash-table)")},
	"unhashable:octets":     {opq("(coerce \"ab\" 'octets)")},
}

var crossPairs = [][2]Obj{
	{fix(5), num("double", "5.0")},
	{fix(5), num("single", "5.0")},
	{num("single", "0.25"), num("double", "0.25")},
	{fix(2), num("double", "2.0")},
	{fix(5), num("octet", "5")},
	{fix(1), num("bit", "1")},
}

var dirtyNames = []string{"ptrnum:big", "ptrnum:ratio", "ptrnum:long", "ptrnum:sbyte", "ptrnum:ubyte", "unhashable:list", "unhashable:emptylist", "unhashable:hash-table", "unhashable:octets", "crossrepr"}

// hazardOf names what a key set contains that the avoid set keeps out of
// most histories. Computed from the case itself, not taken from a label.
func hazardOf(keys []Obj) string {
	set := map[string]bool{}
	for i, k := range keys {
		switch k.K {
		case "big", "ratio", "long", "sbyte", "ubyte":
			set["ptrnum:"+k.K] = true
		case "list", "dot":
			set["unhashable:list"] = true
		case "nil":
			if k.V != "" {
				set["unhashable:emptylist"] = true // the empty list as a list of length 0
			}
		case "opq":
			if strings.Contains(k.V, "make-hash-table") {
				set["unhashable:hash-table"] = true
			}
			if strings.Contains(k.V, "octets") {
				set["unhashable:octets"] = true
			}
		}
		if k.isNum() {
			for _, k2 := range keys[:i] {
				if k2.isNum() && k2.K != k.K && sameNumber(k2, k) {
					set["crossrepr"] = true
				}
			}
		}
	}
	if len(set) == 0 {
		return "none"
	}
	var hs []string
	for h := range set {
		hs = append(hs, h)
	}
	sort.Strings(hs)
	return strings.Join(hs, "+")
}

// distinctKeys tells whether no two slots are the same key under the
// documented eql (slots must be different keys; the two objects of one slot
// are the equivalent ones).
func sameKeyDesc(a, b Obj) bool {
	ha, hb := describe(a), describe(b)
	if group(a.K) == "opq" || group(a.K) == "vec" || group(a.K) == "list" || group(a.K) == "bitv" {
		return false
	}
	return wantEql(ha, hb) == fT
}

func pickKeys(r *rand.Rand, pool []Obj, n int, have []Obj) []Obj {
	out := append([]Obj{}, have...)
	for len(out) < n {
		k := fw.Pick(r, pool)
		dup := false
		for _, o := range out {
			if sameKeyDesc(o, k) || (o.isNum() && k.isNum() && sameNumber(o, k)) {
				dup = true
			}
		}
		if !dup {
			out = append(out, k)
		}
	}
	return out
}

// ---- generators -------------------------------------------------------------

var exhKeys = []Obj{fix(7), str("key"), sym("alpha"), chr("k"), num("double", "2.5"), vec(fix(1), fix(2))}

// the second exhaustive key set: one name as string in both cases, as
// character, symbol and keyword, and the character's code
var exhKeys2 = []Obj{str("a"), str("A"), chr("a"), sym("a"), key("a"), fix(97)}

const exhAlphabet = 2*nSlots + 1

func exhCount(depth int) int {
	n := 1
	for i := 0; i < depth; i++ {
		n *= exhAlphabet
	}
	return n
}

// exhHistory enumerates every history of exactly depth operations (the
// observation after each operation covers all shorter ones) x every test.
func exhHistory(i, depth int, keys []Obj) Case {
	test := tests[i%len(tests)]
	i /= len(tests)
	ops := make([]Op, depth)
	for t := 0; t < depth; t++ {
		a := i % exhAlphabet
		i /= exhAlphabet
		switch {
		case a < nSlots:
			ops[t] = Op{O: "set", S: a, I: (t + a) % 2, V: 100 + t}
			if (t+a)%3 == 2 {
				ops[t].V = 0 // some stores store nil: an entry whose value is nil is an entry
			}
		case a < 2*nSlots:
			ops[t] = Op{O: "rem", S: a - nSlots, I: (t + a + 1) % 2}
		default:
			ops[t] = Op{O: "clr"}
		}
	}
	return Case{Kind: "hist", Test: test, Objs: keys, Ops: ops}
}

// probeHistories: fixed histories over each hazard class (so that every known
// finding is re-observed at every seed) and a few boundary situations.
func probeHistories() []Case {
	var cs []Case
	script := []Op{{O: "set", S: 0, I: 0, V: 101}, {O: "set", S: 0, I: 1, V: 102}, {O: "cnt"}, {O: "rem", S: 0, I: 1}, {O: "set", S: 1, I: 0, V: 103},
		{O: "set", S: 0, I: 0, V: 104}, {O: "map"}, {O: "rem", S: 0, I: 0}, {O: "clr"}, {O: "set", S: 0, I: 1}}
	ti := 0
	for _, h := range dirtyNames {
		if h == "crossrepr" {
			for _, p := range crossPairs {
				keys := []Obj{p[0], p[1], str("key"), sym("alpha"), chr("k"), vec(fix(1))}
				cs = append(cs, Case{Kind: "hist", Test: tests[ti%len(tests)], Objs: keys, Ops: script})
				ti++
			}
			continue
		}
		for _, k := range dirtyKeys[h] {
			keys := []Obj{k, fix(7), str("key"), sym("alpha"), chr("k"), vec(fix(1))}
			cs = append(cs, Case{Kind: "hist", Test: tests[ti%len(tests)], Objs: keys, Ops: script})
			ti++
			// the hazardous key is only ever looked up, never stored
			keys2 := []Obj{fix(7), k, str("key"), sym("alpha"), chr("k"), vec(fix(1))}
			cs = append(cs, Case{Kind: "hist", Test: tests[ti%len(tests)], Objs: keys2, Ops: []Op{{O: "set", S: 0, V: 101}, {O: "get", S: 1}, {O: "rem", S: 1}}})
			ti++
		}
	}
	// clean boundary histories x every test: nil/t keys, nil values, strings
	// differing in case, a character vs the one-char string, vectors by identity
	for _, t := range tests {
		keys := []Obj{objNil, objT, str("a"), str("A"), chr("a"), sym("a")}
		cs = append(cs, Case{Kind: "hist", Test: t, Objs: keys, Ops: []Op{{O: "set", S: 0, V: 0}, {O: "set", S: 2, I: 0, V: 102}, {O: "set", S: 3, I: 1, V: 103},
			{O: "set", S: 4, V: 104}, {O: "set", S: 5, V: 105}, {O: "set", S: 1, V: 106}, {O: "rem", S: 2, I: 1}, {O: "set", S: 0, I: 1, V: 107}, {O: "rem", S: 0}, {O: "clr"}, {O: "cnt"}}})
		keys = []Obj{vec(fix(1), fix(2)), vec(), opq("(make-instance 'c16-pt :x 1)"), opq("(lambda (x) x)"), num("single", "0.5"), num("double", "2.5")}
		cs = append(cs, Case{Kind: "hist", Test: t, Objs: keys, Ops: []Op{{O: "set", S: 0, I: 0, V: 101}, {O: "set", S: 0, I: 1, V: 102}, {O: "set", S: 1, I: 0, V: 103},
			{O: "set", S: 2, I: 1, V: 104}, {O: "set", S: 3, V: 105}, {O: "set", S: 4, I: 0, V: 106}, {O: "set", S: 4, I: 1, V: 107}, {O: "set", S: 5, V: 108},
			{O: "rem", S: 0, I: 0}, {O: "rem", S: 4, I: 0}, {O: "map"}, {O: "clr"}}})
	}
	return cs
}

// sweepHistories: for every table test, key sets that hold every hashable
// kind (one kind per set, with its near-collisions: case variants, the same
// name as string/character/symbol/keyword, nested vectors, instances of
// classes, flavors, structures and conditions), each driven through two fixed
// scripts that store, overwrite through the equivalent object, remove, count,
// map and clear. make-hash-table documents :test as ignored ("eql always
// used"), so the model is the documented eql for every test: "abc" and "ABC"
// are different keys also in an equalp table.
func sweepHistories() []Case {
	groups := [][]Obj{
		{chr("a"), chr("A"), chr("b"), chr("1"), chr("é"), chr("É")},
		{str("abc"), str("ABC"), str("Abc"), str("abd"), str(""), str("abc ")},
		{str("a"), chr("a"), sym("a"), key("a"), str("A"), chr("A")},
		{fix(0), fix(1), fix(-1), fix(65), fix(97), fix(1000000)},
		{num("single", "0.5"), num("single", "1.5"), num("double", "2.5"), num("double", "0.1"), num("double", "-4.0"), num("single", "100.0")},
		{sym("a"), sym("b"), sym("alpha"), key("a"), key("alpha"), objNil},
		{objNil, objT, fix(0), str(""), str("nil"), sym("nil1")},
		{num("octet", "5"), num("octet", "200"), num("bit", "0"), num("bit", "1"), num("complex", "1 2"), num("complex", "2.5 0")},
		{vec(fix(1), fix(2)), vec(), vec(str("a")), vec(list(fix(1), fix(2)), str("x")), vec(vec(fix(1))), vec(sym("a"))},
		{opq("(make-instance 'c16-pt :x 1)"), opq("(make-instance 'c16-fl)"), opq("(make-c16-st :a 1)"), opq("(make-c16-st2 :a 1 :c 2)"),
			opq("(make-condition 'c16-cond)"), opq("(lambda (x) x)")},
		{opq("(make-array (list 2 2))"), opq("(make-string-output-stream)"), opq("#*101"), opq("(make-instance 'c16-k :v 1)"),
			opq("(make-instance 'c16-k2 :v 1)"), opq("(make-condition 'simple-error)")},
	}
	scripts := [][]Op{
		{{O: "set", S: 0, I: 0, V: 101}, {O: "set", S: 1, I: 1, V: 102}, {O: "set", S: 2, I: 0, V: 103}, {O: "get", S: 0, I: 1}, {O: "set", S: 0, I: 1, V: 104},
			{O: "rem", S: 1, I: 0}, {O: "set", S: 3, I: 1, V: 0}, {O: "set", S: 4, I: 0, V: 106}, {O: "set", S: 5, I: 1, V: 107}, {O: "rem", S: 0, I: 1},
			{O: "cnt"}, {O: "map"}, {O: "clr"}, {O: "set", S: 5, I: 0, V: 108}},
		{{O: "set", S: 5, I: 1, V: 101}, {O: "set", S: 4, I: 0, V: 102}, {O: "set", S: 3, I: 1, V: 103}, {O: "set", S: 2, I: 0, V: 104}, {O: "set", S: 1, I: 1, V: 105},
			{O: "set", S: 0, I: 0, V: 106}, {O: "map"}, {O: "rem", S: 2, I: 1}, {O: "rem", S: 2, I: 0}, {O: "set", S: 1, I: 0, V: 107}, {O: "get", S: 4, I: 1},
			{O: "rem", S: 5, I: 0}, {O: "cnt"}, {O: "set", S: 2, I: 1, V: 108}},
	}
	var cs []Case
	for _, t := range tests {
		for _, g := range groups {
			for _, sc := range scripts {
				cs = append(cs, Case{Kind: "hist", Test: t, Objs: g, Ops: sc})
			}
		}
	}
	return cs
}

func genHistory(r *rand.Rand) Case {
	c := Case{Kind: "hist", Test: fw.Pick(r, tests)}
	if r.IntN(8) == 0 {
		// the minority stream: one hazard class
		h := fw.Pick(r, dirtyNames)
		var have []Obj
		if h == "crossrepr" {
			p := fw.Pick(r, crossPairs)
			have = []Obj{p[0], p[1]}
		} else {
			have = []Obj{fw.Pick(r, dirtyKeys[h])}
		}
		c.Objs = pickKeys(r, cleanKeys, nSlots, have)
		r.Shuffle(len(c.Objs), func(i, j int) { c.Objs[i], c.Objs[j] = c.Objs[j], c.Objs[i] })
	} else {
		c.Objs = pickKeys(r, cleanKeys, nSlots, nil)
	}
	// one history in four runs over two tables that share the key objects
	// (and addresses the first one through a second variable as well)
	two := r.IntN(4) == 0
	n := 5 + r.IntN(8)
	for t := 0; t < n; t++ {
		var op Op
		switch k := r.IntN(24); {
		case k < 9:
			op = Op{O: "set", S: r.IntN(nSlots), I: r.IntN(2), V: 100 + t}
			if r.IntN(8) == 0 {
				op.V = 0
			}
		case k < 13:
			op = Op{O: "rem", S: r.IntN(nSlots), I: r.IntN(2)}
		case k < 14:
			op = Op{O: "clr"}
		case k < 17:
			op = Op{O: "get", S: r.IntN(nSlots), I: r.IntN(2)}
		case k < 19:
			op = Op{O: "map"}
		case k < 20:
			op = Op{O: "cnt"}
		case k < 21:
			op = Op{O: "mapdel"}
		case k < 22:
			op = Op{O: "mapinc"}
		case k < 23:
			op = Op{O: "bad", S: r.IntN(nSlots), I: r.IntN(2)}
		default:
			op = Op{O: "set", S: r.IntN(nSlots), I: r.IntN(2), V: 100 + t}
		}
		if two {
			op.T = r.IntN(3)
		}
		c.Ops = append(c.Ops, op)
	}
	return c
}

// twoTableHistories: fixed histories (x every test, over both exhaustive key
// sets) in which two tables made by two calls of make-hash-table share their
// key objects and the first table is also reached through a second variable:
// an operation on one table leaves the other as it was; maphash functions
// that remove or re-store the entry they are called with; a store whose value
// form fails.
func twoTableHistories() []Case {
	scripts := [][]Op{
		{{O: "set", S: 0, I: 0, V: 101}, {O: "set", S: 0, I: 1, V: 201, T: 1}, {O: "get", S: 0, I: 0, T: 2}, {O: "rem", S: 0, I: 0, T: 1}, {O: "set", S: 1, I: 1, V: 102, T: 2},
			{O: "set", S: 2, I: 0, V: 203, T: 1}, {O: "clr", T: 1}, {O: "cnt"}, {O: "set", S: 3, I: 0, V: 204, T: 1}, {O: "clr", T: 2}, {O: "cnt", T: 1},
			{O: "set", S: 3, I: 1, V: 105}, {O: "rem", S: 3, I: 0, T: 1}, {O: "get", S: 3, I: 0}},
		{{O: "set", S: 0, V: 101}, {O: "set", S: 1, V: 102}, {O: "set", S: 2, V: 103}, {O: "set", S: 3, V: 0}, {O: "set", S: 0, I: 1, V: 301, T: 1}, {O: "set", S: 1, I: 1, V: 302, T: 1},
			{O: "mapdel"}, {O: "mapinc", T: 1}, {O: "mapinc", T: 2}, {O: "mapdel", T: 1}, {O: "bad", S: 1, I: 1}, {O: "bad", S: 4, T: 1}, {O: "mapdel", T: 2}, {O: "mapdel"}, {O: "cnt"}},
		{{O: "bad", S: 0}, {O: "mapdel"}, {O: "mapinc"}, {O: "set", S: 5, I: 1, V: 101}, {O: "bad", S: 5, I: 0}, {O: "mapinc"}, {O: "mapinc"}, {O: "mapdel"}, {O: "set", S: 5, I: 0, V: 102},
			{O: "set", S: 4, I: 0, V: 103}, {O: "mapdel"}, {O: "clr"}, {O: "mapdel"}, {O: "mapinc"}},
	}
	var cs []Case
	for _, t := range tests {
		for _, ks := range [][]Obj{exhKeys, exhKeys2} {
			for _, sc := range scripts {
				cs = append(cs, Case{Kind: "hist", Test: t, Objs: ks, Ops: sc})
			}
		}
	}
	return cs
}

// ---- large tables ---------------------------------------------------------------

// bigSizes: table sizes around the points where a map implementation changes
// its layout (an empty table, one entry, a full first bucket, one more, and
// sizes that force several growth steps).
var bigSizes = []int{0, 1, 7, 8, 9, 16, 17, 64, 65, 200, 1000}

var bigKeyKinds = []string{"fix", "str", "sym", "char", "double", "mix"}

// bigKey is key i of a large table of the given kind of keys: all keys of one
// table are different keys under eql (and under every other test: no two
// differ in case only).
func bigKey(kind string, i int) Obj {
	switch kind {
	case "fix":
		return fix(i*7 - 300)
	case "str":
		return str(fmt.Sprintf("k%d", i))
	case "sym":
		return sym(fmt.Sprintf("c16s%d", i))
	case "char":
		return chr(string(rune(0x4e00 + i))) // CJK ideographs: no case
	case "double":
		return num("double", fmt.Sprintf("%d.5", i-20))
	}
	return bigKey([]string{"fix", "str", "sym", "char", "double"}[i%5], i)
}

func bigCases() []Case {
	var cs []Case
	for _, t := range tests {
		for ki, kind := range bigKeyKinds {
			for si, n := range bigSizes {
				if 200 <= n && (ki+si)%2 == 1 && kind != "mix" {
					continue // the largest sizes for half of the kinds
				}
				cs = append(cs, Case{Kind: "big", Test: t, I: n, Ty: kind})
			}
		}
	}
	return cs
}

// execBig: n different keys stored by a loop in one form, looked up through
// separately built equivalent keys, visited by maphash, every third removed,
// some stored again, the table cleared and used again; after each step the
// count, every lookup and the set of visited entries are compared with the
// harness's array of what is stored.
func execBig(x *fw.Ctx, c Case) {
	n := c.I
	if n < 0 || 5000 < n {
		x.Trivial()
		return
	}
	known := false
	for _, k := range bigKeyKinds {
		known = known || k == c.Ty
	}
	if !known {
		x.Trivial()
		return
	}
	scope := slip.NewScope()
	fail := func(obs, detail, format string, a ...any) {
		x.Fail(fmt.Sprintf("ht-big obs=%s fail=%s", obs, detail), "test=%q keys=%s n=%d "+format, append([]any{c.Test, c.Ty, n}, a...)...)
	}
	descs := make([]Obj, n)
	for i := range descs {
		descs[i] = bigKey(c.Ty, i)
	}
	// the keys are built twice: ks1 is stored, ks2 is looked up
	var lists [2]slip.List
	for b := 0; b < 2; b++ {
		lists[b] = make(slip.List, n)
		for i, d := range descs {
			h, err := build(scope, d)
			if err != nil || !h.okay {
				x.Cover("build-mismatch")
				x.Trivial()
				return
			}
			lists[b][i] = h.obj
		}
	}
	scope.Let(slip.Symbol("ks1"), lists[0])
	scope.Let(slip.Symbol("ks2"), lists[1])
	mk := "(make-hash-table)"
	if c.Test != "" {
		mk = "(make-hash-table :test (quote " + c.Test + "))"
	}
	tab, err := sl.Eval(scope, mk)
	if err != nil {
		fail("make", "error", "%s => %s", mk, fmtErr(err))
		return
	}
	scope.Let(slip.Symbol("h"), tab)
	x.Cover("big-size:" + fmt.Sprint(n))
	x.Cover("big-keys:" + c.Ty)
	x.Cover("test:" + c.Test)

	val := make([]int, n) // -1 = absent
	for i := range val {
		val[i] = -1
	}
	check := func(after string) bool {
		stored := 0
		for _, v := range val {
			if 0 <= v {
				stored++
			}
		}
		res, err := sl.Eval(scope, "(list (hash-table-count h) (mapcar (lambda (k) (multiple-value-list (gethash k h))) ks2) "+
			"(let ((acc nil)) (maphash (lambda (k v) (setq acc (cons (list k v) acc))) h) acc))")
		if err != nil {
			fail("observe", "error", "after %s: %s", after, fmtErr(err))
			return false
		}
		l, _ := res.(slip.List)
		if len(l) != 3 {
			fail("observe", "shape", "after %s: %s", after, sl.Show(res))
			return false
		}
		x.Cover("observed:hash-table-count")
		if sl.Show(l[0]) != fmt.Sprint(stored) {
			fail("count", "wrong", "after %s: hash-table-count => %s, %d distinct keys are stored", after, sl.Show(l[0]), stored)
			return false
		}
		gets, _ := l[1].(slip.List)
		if len(gets) != n {
			fail("get", "shape", "after %s: %d lookups answered for %d keys", after, len(gets), n)
			return false
		}
		for i, g := range gets {
			x.Cover("observed:gethash")
			want := "(nil nil)"
			if 0 <= val[i] {
				want = fmt.Sprintf("(%d t)", val[i])
			}
			if got := sl.Show(g); got != want {
				detail := "stale"
				switch {
				case val[i] < 0:
					detail = "phantom"
				case got == "(nil nil)":
					detail = "missing"
				}
				fail("get", detail, "after %s: (gethash %s h) => %s, the table holds %s", after, descs[i].Text(), got, want)
				return false
			}
		}
		x.Cover("observed:maphash")
		pairs, _ := l[2].(slip.List)
		seen := make([]bool, n)
		okMap := len(pairs) == stored
		for _, p := range pairs {
			kv, _ := p.(slip.List)
			if len(kv) != 2 {
				okMap = false
				break
			}
			v, isFix := kv[1].(slip.Fixnum)
			i := int(v) % 100000
			if !isFix || i < 0 || n <= i || seen[i] || val[i] != int(v) || !matches(kv[0], describe(descs[i])) {
				okMap = false
				break
			}
			seen[i] = true
		}
		if !okMap {
			s := sl.Show(l[2])
			if 300 < len(s) {
				s = s[:300] + "..."
			}
			fail("map", "wrong", "after %s: maphash did not visit each of the %d stored entries exactly once with its key and value: %s", after, stored, s)
			return false
		}
		x.Cover("big-states")
		return true
	}
	run := func(what, src, want string) bool {
		res, err := sl.Eval(scope, src)
		if err != nil {
			k := "error"
			if err.Internal {
				k = "internal"
			}
			fail("op-"+what, k, "%s => %s", src, fmtErr(err))
			return false
		}
		if got := sl.Show(res); got != want {
			fail("ret-"+what, "wrong", "%s returned %s, expected %s", src, got, want)
			return false
		}
		return true
	}
	if !check("make-hash-table") {
		return
	}
	// store all: the value of key i is i
	for i := range val {
		val[i] = i
	}
	if !run("set", "(let ((i 0)) (dolist (k ks1) (setf (gethash k h) i) (setq i (+ i 1))) i)", fmt.Sprint(n)) || !check("storing all keys") {
		return
	}
	// store all again through the equivalent keys: value i+100000, no new entries
	for i := range val {
		val[i] = i + 100000
	}
	if !run("set", "(let ((i 0)) (dolist (k ks2) (setf (gethash k h) (+ i 100000)) (setq i (+ i 1))) (hash-table-count h))", fmt.Sprint(n)) || !check("storing all keys again through equivalent keys") {
		return
	}
	// remove every third, counting the t answers
	removed := 0
	for i := range val {
		if i%3 == 0 {
			val[i] = -1
			removed++
		}
	}
	if !run("rem", "(let ((i 0) (r 0)) (dolist (k ks2) (when (and (= 0 (mod i 3)) (remhash k h)) (setq r (+ r 1))) (setq i (+ i 1))) r)", fmt.Sprint(removed)) || !check("removing every third key") {
		return
	}
	// removing them again answers nil every time
	if !run("rem", "(let ((i 0) (r 0)) (dolist (k ks1) (when (and (= 0 (mod i 3)) (remhash k h)) (setq r (+ r 1))) (setq i (+ i 1))) r)", "0") || !check("removing the same keys again") {
		return
	}
	// a maphash function that removes the entries with an odd value
	for i := range val {
		if 0 <= val[i] && val[i]%2 == 1 {
			val[i] = -1
		}
	}
	if !run("mapdel", "(maphash (lambda (k v) (when (oddp v) (remhash k h))) h)", "nil") || !check("a maphash that removes the entries with an odd value") {
		return
	}
	// store every sixth again
	for i := range val {
		if i%6 == 0 {
			val[i] = i
		}
	}
	if !run("set", "(let ((i 0)) (dolist (k ks1) (when (= 0 (mod i 6)) (setf (gethash k h) i)) (setq i (+ i 1))) i)", fmt.Sprint(n)) || !check("storing every sixth key again") {
		return
	}
	for i := range val {
		val[i] = -1
	}
	if !run("clr", "(eq (clrhash h) h)", "t") || !check("clrhash") {
		return
	}
	if 0 < n {
		val[n-1] = n - 1
		if !run("set", fmt.Sprintf("(setf (gethash (nth %d ks2) h) %d)", n-1, n-1), fmt.Sprint(n-1)) || !check("a store after clrhash") {
			return
		}
	}
	x.Observe(map[string]any{"test": c.Test, "keys": c.Ty, "size": n})
}

// ---- execution and the model --------------------------------------------------

type entry struct {
	key *hv
	val int
}

type model struct{ es []entry }

func (m *model) find(k *hv) int {
	for i, e := range m.es {
		if wantEql(e.key, k) == fT {
			return i
		}
	}
	return -1
}

// keyIs tells whether the object handed to a maphash function is the key k:
// the same object for kinds whose key identity is object identity, the same
// value (by description) for numbers, characters, strings and symbols.
func keyIs(got slip.Object, k *hv) bool {
	switch group(k.o.K) {
	case "opq", "vec", "list", "bitv":
		return identical(got, k.obj)
	}
	return matches(got, describe(k.o))
}

func valText(v int) string {
	if v == 0 {
		return "nil"
	}
	return fmt.Sprint(v)
}

func keyVar(s, i int) string { return fmt.Sprintf("k%d%c", s, 'a'+i) }

func execHist(x *fw.Ctx, c Case) {
	if len(c.Objs) == 0 || len(c.Ops) == 0 {
		x.Trivial()
		return
	}
	scope := slip.NewScope()
	keys := make([][2]*hv, len(c.Objs))
	for s, o := range c.Objs {
		for i := 0; i < 2; i++ {
			h, err := build(scope, o)
			if err != nil || !h.okay {
				x.Cover("build-mismatch")
				x.Trivial()
				return
			}
			keys[s][i] = h
			scope.Let(slip.Symbol(keyVar(s, i)), h.obj)
		}
	}
	haz := hazardOf(c.Objs)
	if haz == "none" {
		x.Cover("history:clean")
	} else {
		x.Cover("minority:" + haz)
		x.Cover("avoided-in-clean-stream:" + haz)
	}
	x.Cover("test:" + c.Test)
	for _, o := range c.Objs {
		x.Cover("key-kind:" + o.K)
	}
	fail := func(obs, detail, format string, a ...any) {
		x.Fail(fmt.Sprintf("ht haz=%s obs=%s fail=%s", haz, obs, detail), "test=%q "+format, append([]any{c.Test}, a...)...)
	}
	errKind := func(e *sl.Err) string {
		if e.Internal {
			return "internal"
		}
		return "error"
	}
	mk := "(make-hash-table)"
	if c.Test != "" {
		mk = "(make-hash-table :test (quote " + c.Test + "))"
	}
	// the tables: h, and h2 when an operation addresses a second table; ha is
	// a second variable holding h
	nTabs := 1
	for _, op := range c.Ops {
		if op.T == 1 {
			nTabs = 2
		}
		if op.T < 0 || 2 < op.T {
			x.Trivial()
			return
		}
	}
	tabVars := []string{"h", "h2"}
	var tabObjs []slip.Object
	for t := 0; t < nTabs; t++ {
		tab, err := sl.Eval(scope, mk)
		if err != nil {
			fail("make", errKind(err), "%s => %s", mk, fmtErr(err))
			return
		}
		if _, ok := tab.(slip.HashTable); !ok {
			fail("make", "not-a-table", "%s => %s", mk, sl.Show(tab))
			return
		}
		scope.Let(slip.Symbol(tabVars[t]), tab)
		tabObjs = append(tabObjs, tab)
	}
	scope.Let(slip.Symbol("ha"), tabObjs[0])
	if nTabs == 2 {
		x.Cover("history:two-tables")
		if reflect.ValueOf(tabObjs[0]).Pointer() == reflect.ValueOf(tabObjs[1]).Pointer() {
			fail("make", "shared", "two calls of %s returned one and the same table", mk)
			return
		}
	}

	// the observation form of one table
	obsSrc := func(tv string) string {
		var ob strings.Builder
		ob.WriteString("(list")
		for s := range keys {
			for i := 0; i < 2; i++ {
				fmt.Fprintf(&ob, " (multiple-value-list (gethash %s %s))", keyVar(s, i), tv)
			}
		}
		ob.WriteString(" (hash-table-count " + tv + ") (let ((acc nil)) (maphash (lambda (k v) (setq acc (cons (list k v) acc))) " + tv + ") acc))")
		return ob.String()
	}

	models := make([]model, nTabs)
	var trace []string
	observe1 := func(after string, ti int) bool {
		m := &models[ti]
		tv := tabVars[ti]
		good := true
		res, err := sl.Eval(scope, obsSrc(tv))
		var gets []slip.Object
		var count, pairs slip.Object
		if err == nil {
			l, _ := res.(slip.List)
			if len(l) != 2*len(keys)+2 {
				fail("shape", "harness", "observation returned %s", sl.Show(res))
				return false
			}
			gets, count, pairs = l[:2*len(keys)], l[2*len(keys)], l[2*len(keys)+1]
		} else {
			// attribute: evaluate the pieces one by one
			for s := range keys {
				for i := 0; i < 2; i++ {
					src := fmt.Sprintf("(multiple-value-list (gethash %s %s))", keyVar(s, i), tv)
					g, e := sl.Eval(scope, src)
					if e != nil {
						fail("get", errKind(e), "after %s: (gethash %s %s) => %s", after, keys[s][i].o.Text(), tv, fmtErr(e))
						good = false
					}
					gets = append(gets, g)
				}
			}
			var e *sl.Err
			if count, e = sl.Eval(scope, "(hash-table-count "+tv+")"); e != nil {
				fail("count", errKind(e), "after %s: hash-table-count => %s", after, fmtErr(e))
				good = false
			}
			if pairs, e = sl.Eval(scope, "(let ((acc nil)) (maphash (lambda (k v) (setq acc (cons (list k v) acc))) "+tv+") acc)"); e != nil {
				fail("map", errKind(e), "after %s: maphash => %s", after, fmtErr(e))
				good = false
			}
			if good {
				fail("observe", errKind(err), "after %s: %s", after, fmtErr(err))
			}
			return false
		}
		for s := range keys {
			for i := 0; i < 2; i++ {
				k := keys[s][i]
				want := "(nil nil)"
				at := m.find(k)
				if 0 <= at {
					want = "(" + valText(m.es[at].val) + " t)"
				}
				got := sl.Show(gets[2*s+i])
				x.Cover("observed:gethash")
				if got != want {
					detail := "stale"
					switch {
					case at < 0:
						detail = "phantom"
					case got == "(nil nil)":
						detail = "missing"
					}
					fail("get", detail, "after %s: (gethash %s %s) => %s, the table as a finite map under eql holds %s [keys are built twice; this is object #%d of slot %d]",
						after, k.o.Text(), tv, got, want, i, s)
					good = false
				}
			}
		}
		x.Cover("observed:hash-table-count")
		x.Cover(fmt.Sprintf("table-size:%d", len(m.es)))
		if sl.Show(count) != fmt.Sprint(len(m.es)) {
			fail("count", "wrong", "after %s: (hash-table-count %s) => %s, %d distinct keys are stored", after, tv, sl.Show(count), len(m.es))
			good = false
		}
		x.Cover("observed:maphash")
		pl, _ := pairs.(slip.List)
		used := make([]bool, len(m.es))
		okMap := len(pl) == len(m.es)
		for _, p := range pl {
			kv, _ := p.(slip.List)
			if len(kv) != 2 {
				okMap = false
				continue
			}
			found := false
			for ei, e := range m.es {
				if used[ei] || sl.Show(kv[1]) != valText(e.val) {
					continue
				}
				// the key handed to the function must be a key equivalent to the stored one
				for s := range keys {
					for i := 0; i < 2; i++ {
						if !found && wantEql(keys[s][i], e.key) == fT && keyIs(kv[0], keys[s][i]) {
							found = true
							used[ei] = true
						}
					}
				}
				if found {
					break
				}
			}
			if !found {
				okMap = false
			}
		}
		if !okMap {
			var ws []string
			for _, e := range m.es {
				ws = append(ws, "("+e.key.o.Text()+" "+valText(e.val)+")")
			}
			fail("map", "wrong", "after %s: maphash over %s visited %s, the table holds (%s)", after, tv, sl.Show(pairs), strings.Join(ws, " "))
			good = false
		}
		return good
	}
	observe := func(after string) bool {
		for ti := 0; ti < nTabs; ti++ {
			if !observe1(after, ti) {
				return false
			}
		}
		if nTabs == 2 {
			x.Cover("observed:other-table-after-op")
		}
		return true
	}

	if !observe("make-hash-table") {
		return
	}
	for t, op := range c.Ops {
		if len(keys) <= op.S || op.I < 0 || 1 < op.I {
			x.Trivial()
			return
		}
		k := keys[op.S][op.I]
		kv := keyVar(op.S, op.I)
		tv := []string{"h", "h2", "ha"}[op.T]
		m := &models[op.T%2]
		if op.T == 2 {
			x.Cover("op-through-second-variable")
		}
		var src, want string
		wantErr := false
		switch op.O {
		case "set":
			src = fmt.Sprintf("(setf (gethash %s %s) %s)", kv, tv, valText(op.V))
			want = valText(op.V)
			if at := m.find(k); 0 <= at {
				m.es[at].val = op.V
			} else {
				m.es = append(m.es, entry{key: k, val: op.V})
			}
		case "bad":
			src = fmt.Sprintf("(setf (gethash %s %s) (car 3))", kv, tv)
			wantErr = true
		case "get":
			src = fmt.Sprintf("(multiple-value-list (gethash %s %s))", kv, tv)
			want = "(nil nil)"
			if at := m.find(k); 0 <= at {
				want = "(" + valText(m.es[at].val) + " t)"
			}
		case "rem":
			src = fmt.Sprintf("(remhash %s %s)", kv, tv)
			want = "nil"
			if at := m.find(k); 0 <= at {
				want = "t"
				m.es = append(m.es[:at:at], m.es[at+1:]...)
			}
		case "clr":
			src = "(eq (clrhash " + tv + ") " + tv + ")"
			want = "t"
			m.es = nil
		case "map":
			src = "(maphash (lambda (k v) (list k v)) " + tv + ")"
			want = "nil"
		case "mapdel":
			src = "(maphash (lambda (k v) (when (and v (oddp v)) (remhash k " + tv + "))) " + tv + ")"
			want = "nil"
			var keep []entry
			for _, e := range m.es {
				if e.val%2 == 0 {
					keep = append(keep, e)
				}
			}
			m.es = keep
		case "mapinc":
			src = "(maphash (lambda (k v) (when v (setf (gethash k " + tv + ") (+ v 1000)))) " + tv + ")"
			want = "nil"
			for i := range m.es {
				if m.es[i].val != 0 {
					m.es[i].val += 1000
				}
			}
		case "cnt":
			src = "(hash-table-count " + tv + ")"
			want = fmt.Sprint(len(m.es))
		default:
			x.Trivial()
			return
		}
		x.Cover("op:" + op.O)
		shown := strings.Replace(src, kv, k.o.Text(), 1)
		trace = append(trace, shown)
		res, err := sl.Eval(scope, src)
		switch {
		case wantErr:
			if err == nil {
				fail("ret-"+op.O, "wrong", "op %d %s returned %s, an error was expected [history: %s]", t, shown, sl.Show(res), strings.Join(trace, " "))
				return
			}
			if err.Internal {
				fail("op-"+op.O, "internal", "op %d %s => %s [history: %s]", t, shown, fmtErr(err), strings.Join(trace, " "))
				return
			}
			x.Cover("failed-store-then-observed")
		case err != nil:
			fail("op-"+op.O, errKind(err), "op %d %s => %s [history: %s]", t, shown, fmtErr(err), strings.Join(trace, " "))
			return
		default:
			if got := sl.Show(res); got != want {
				fail("ret-"+op.O, "wrong", "op %d %s returned %s, expected %s [history: %s]", t, shown, got, want, strings.Join(trace, " "))
				return
			}
		}
		if !observe(fmt.Sprintf("[%s]", strings.Join(trace, " "))) {
			return
		}
	}
	x.CoverN("model-states", len(c.Ops))
	final := len(models[0].es)
	x.Observe(map[string]any{"test": c.Test, "history": trace, "final-count": final, "hazard": haz, "tables": nTabs})
}
