package c16

import (
	"fmt"
	"sort"
	"strings"

	"github.com/ohler55/slip"

	"verif/internal/fw"
	"verif/internal/sl"
)

// typeObjects is the fixed object list of the type block: every distinct
// description of the universe plus objects of the other built-in, standard,
// flavor and condition classes.
func typeObjects() []Obj {
	seen := map[string]bool{}
	var out []Obj
	for _, o := range universe {
		if s := o.Src(); !seen[s] {
			seen[s] = true
			out = append(out, o)
		}
	}
	for _, s := range []string{
		"(make-instance 'c16-base :x 1)", "(make-instance 'c16-pt3 :x 1)", "(make-instance 'vanilla-flavor)", "(make-instance 'c16-fl0)",
		"(make-condition 'c16-cond)", "(make-condition 'simple-error)", "(make-condition 'warning)", "(make-condition 'unbound-variable :name 'x)",
		"(find-class 'c16-pt)", "(find-class 'vanilla-flavor)", "(find-class 'error)", "(find-class 'c16-fl)",
		"*standard-output*", "(make-string-output-stream)", "(make-string-input-stream \"abc\")",
		"#C(1 2)", "#C(3 0)", "#*101", "#*", "(coerce \"ab\" 'octets)", "(make-array '(2 2))", "(make-array 3)", "(make-string 2)",
		"@2024-01-01T00:00:00Z", "(make-channel 1)", "(find-package 'cl)", "(find-package 'keyword)",
		"(coerce 5 'signed-byte)", "(coerce -5 'signed-byte)", "(coerce 5 'unsigned-byte)", "(coerce 200 'octet)", "(coerce 1 'bit)", "(coerce 0 'bit)",
		"(coerce 1.5 'short-float)", "(make-instance 'bag-flavor)", "(function +)", "(lambda () 1)",
		"(list (cons 1 2) (cons 3 4))", "(list (list (list 1) 2))", "(list (list 'a 1) (list 'b 2))", "(list 1 0 1)", "(vector 1 0 1)", "(vector 65 66)", "(list 65 66)",
		"(list #\\a #\\b)", "(quote car)", "\"car\"", "255", "256", "-1", "65", "1114112", "3.0", "3.5", "7/1", "#C(2.5 0)",
	} {
		if !seen[s] {
			seen[s] = true
			out = append(out, opq(s))
		}
	}
	return out
}

// coerce targets: the columns of the documented table, plus t.
var coerceTargets = []string{"list", "string", "vector", "octets", "bit-vector", "character", "integer", "fixnum", "octet", "byte", "bignum",
	"float", "short-float", "single-float", "double-float", "long-float", "rational", "ratio", "complex", "symbol", "assoc", "hash-table",
	"function", "signed-byte", "unsigned-byte", "bit", "t"}

// allowedKinds: the representation classes (sl.Kind) an object of the named
// type can have, per the type's definition. nil = not judged by kind.
var allowedKinds = map[string][]string{
	"list":          {"null", "cons"},
	"string":        {"string"},
	"vector":        {"vector", "string", "octets", "bit-vector"},
	"octets":        {"octets"},
	"bit-vector":    {"bit-vector"},
	"character":     {"character"},
	"integer":       {"fixnum", "bignum", "octet", "byte", "signed-byte", "unsigned-byte", "bit"},
	"fixnum":        {"fixnum"},
	"octet":         {"octet", "byte"},
	"byte":          {"octet", "byte"},
	"bignum":        {"bignum"},
	"float":         {"single-float", "double-float", "long-float", "short-float"},
	"short-float":   {"short-float", "single-float"},
	"single-float":  {"single-float"},
	"double-float":  {"double-float"},
	"long-float":    {"long-float"},
	"rational":      {"fixnum", "bignum", "ratio", "octet", "byte", "signed-byte", "unsigned-byte", "bit"},
	"ratio":         {"ratio"},
	"complex":       {"complex"},
	"symbol":        {"symbol", "keyword", "null", "t"},
	"assoc":         {"null", "cons"},
	"hash-table":    {"hash-table"},
	"signed-byte":   {"signed-byte"},
	"unsigned-byte": {"unsigned-byte"},
	"bit":           {"bit"},
}

// targets that name a coercion but not a type typep knows about
var notTypeNames = map[string]bool{"assoc": true, "byte": true}

// ---- the class registry, enumerated at run time ---------------------------------

type registry struct {
	names []string
	index map[string]int
	sub   [][]int8            // 1 t, 0 nil, -1 error
	sub2  [][]bool            // second value
	cpl   map[string][]string // class precedence list, by class
	err   string
}

var reg *registry

func theRegistry() *registry {
	if reg != nil {
		return reg
	}
	reg = &registry{index: map[string]int{}, cpl: map[string][]string{}}
	if setupErr != "" {
		reg.err = "setup failed: " + setupErr
		return reg
	}
	scope := slip.NewScope()
	res, err := sl.Eval(scope, "(mapcar (quote class-name) (list-all-classes))")
	if err != nil {
		reg.err = "list-all-classes: " + err.String()
		return reg
	}
	l, _ := res.(slip.List)
	for _, e := range l {
		if s, ok := e.(slip.Symbol); ok && !strings.HasPrefix(strings.ToLower(string(s)), "c16u") {
			reg.names = append(reg.names, strings.ToLower(string(s))) // (classes of the "user" cases are judged there)
		}
	}
	sort.Strings(reg.names)
	for i, n := range reg.names {
		reg.index[n] = i
	}
	n := len(reg.names)
	reg.sub = make([][]int8, n)
	reg.sub2 = make([][]bool, n)
	t1, t2 := slip.Symbol("t1"), slip.Symbol("t2")
	for i, a := range reg.names {
		reg.sub[i] = make([]int8, n)
		reg.sub2[i] = make([]bool, n)
		scope.Let(t1, slip.Symbol(a))
		for j, b := range reg.names {
			scope.Let(t2, slip.Symbol(b))
			r, e := sl.Eval(scope, "(multiple-value-list (subtypep t1 t2))")
			if e != nil {
				reg.sub[i][j] = -1
				continue
			}
			rl, _ := r.(slip.List)
			if 0 < len(rl) {
				if v, _ := truth(rl[0]); v {
					reg.sub[i][j] = 1
				}
			}
			if 1 < len(rl) {
				reg.sub2[i][j], _ = truth(rl[1])
			}
		}
		if r, e := sl.Eval(scope, "(class-precedence (find-class t1))"); e == nil {
			if rl, ok := r.(slip.List); ok {
				for _, s := range rl {
					if sy, ok := s.(slip.Symbol); ok {
						reg.cpl[a] = append(reg.cpl[a], strings.ToLower(string(sy)))
					} else if c, ok := s.(slip.Class); ok {
						reg.cpl[a] = append(reg.cpl[a], strings.ToLower(c.Name()))
					} else if s == slip.True {
						reg.cpl[a] = append(reg.cpl[a], "t")
					}
				}
			}
		}
	}
	return reg
}

var symX, symTy = slip.Symbol("x"), slip.Symbol("ty")

// typepOf evaluates (typep x ty) on the real code with ty bound to the symbol.
func typepOf(scope *slip.Scope, ty string) (bool, *sl.Err) {
	scope.Let(symTy, slip.Symbol(ty))
	res, err := sl.Eval(scope, "(typep x ty)")
	if err != nil {
		return false, err
	}
	v, _ := truth(res)
	return v, nil
}

func execType(x *fw.Ctx, c Case) {
	r := theRegistry()
	if r.err != "" {
		x.Fail("harness registry", "%s", r.err)
		return
	}
	if len(c.Objs) != 1 {
		x.Trivial()
		return
	}
	scope := slip.NewScope()
	h, err := build(scope, c.Objs[0])
	if err != nil || !h.okay {
		x.Cover("type-object-unbuildable")
		x.Trivial()
		x.Observe(map[string]any{"src": c.Objs[0].Src(), "build": fmt.Sprint(err)})
		return
	}
	obj := h.obj
	src := c.Objs[0].Text()
	kind := sl.Kind(obj)
	scope.Let(symX, obj)
	x.Cover("object-kind:" + kind)
	x.CoverN("registry-classes", len(r.names))

	// type-of
	res, err := sl.Eval(scope, "(type-of x)")
	if err != nil {
		x.Fail("type-of fail=error kind="+kind, "(type-of %s) => %s", src, fmtErr(err))
		return
	}
	ts, ok := res.(slip.Symbol)
	if !ok {
		x.Fail("type-of fail=not-a-symbol kind="+kind, "(type-of %s) => %s", src, sl.Show(res))
		return
	}
	tof := strings.ToLower(string(ts))
	x.Cover("type-of:" + tof)
	if v, e := typepOf(scope, tof); e != nil || !v {
		x.Fail("typep-own type="+tof, "(typep x (type-of x)) is not t for x = %s, (type-of x) = %s", src, tof)
	}
	// every object is of type t
	if v, e := typepOf(scope, "t"); e != nil || !v {
		x.Fail("typep-t kind="+kind, "(typep x <the symbol t>) is not t for x = %s", src)
	}
	if h.o.K == "nil" {
		for _, ty := range []string{"null", "list", "symbol", "sequence"} {
			if v, e := typepOf(scope, ty); e != nil || !v {
				x.Fail("typep-nil type="+ty, "(typep x '%s) is not t for x = %s, the empty list", ty, src)
			}
		}
	}
	// the literal route a program takes
	if res, e := sl.Eval(scope, "(typep x (quote t))"); e != nil {
		x.Fail("typep-literal-t fail=error", "(typep x 't) => %s for x = %s", fmtErr(e), src)
	} else if v, _ := truth(res); !v {
		x.Fail("typep-literal-t fail=nil kind="+kind, "(typep x 't) => nil for x = %s", src)
	}

	// typep against every class of the registry
	tp := make([]bool, len(r.names))
	for i, n := range r.names {
		v, e := typepOf(scope, n)
		x.Cover("observed:typep")
		if e != nil {
			x.Fail("typep fail=error type="+n, "(typep %s '%s) => %s", src, n, fmtErr(e))
			continue
		}
		tp[i] = v
		if v {
			x.Cover("typep-true:" + n)
		}
	}
	// typep(x,T1) and subtypep(T1,T2) => typep(x,T2)
	for i, a := range r.names {
		if !tp[i] {
			continue
		}
		for j, b := range r.names {
			if r.sub[i][j] == 1 {
				x.Cover("typep-subtypep-checked")
				if !tp[j] {
					x.Fail(fmt.Sprintf("typep-vs-subtypep t1=%s t2=%s", a, b), "(typep x '%s) and (subtypep '%s '%s) are t but (typep x '%s) is nil for x = %s", a, a, b, b, src)
				}
			}
		}
	}
	// supertypes of type-of: the class precedence list, and agreement of
	// subtypep with what typep says about the object
	if ti, known := r.index[tof]; known {
		for _, s := range r.cpl[tof] {
			x.Cover("supertype-checked")
			if v, e := typepOf(scope, s); e != nil || !v {
				x.Fail(fmt.Sprintf("typep-cpl type=%s super=%s", tof, s), "%s is in the class precedence list of %s = (type-of x) but (typep x '%s) is not t for x = %s", s, tof, s, src)
			}
		}
		for j, b := range r.names {
			if tp[j] {
				x.Cover("subtypep-agreement-checked")
				if r.sub[ti][j] != 1 {
					x.Fail(fmt.Sprintf("subtypep-misses type=%s super=%s", tof, b), "(type-of x) = %s and (typep x '%s) is t but (subtypep '%s '%s) is nil for x = %s", tof, b, tof, b, src)
				}
			}
		}
	} else {
		x.Cover("type-of-not-a-registered-class:" + tof)
	}

	// coerce
	for _, target := range coerceTargets {
		judgeCoerce(x, scope, h, src, kind, target)
	}
	x.Observe(map[string]any{"object": src, "type-of": tof, "kind": kind})
}

// judgeCoerce runs (coerce x target) on the real code (x is bound in scope)
// and judges the type of what comes back: by the real typep and by the
// representation class the harness sees. It reports whether coerce returned
// and, if not, the condition.
func judgeCoerce(x *fw.Ctx, scope *slip.Scope, h *hv, src, kind, target string) (bool, *sl.Err) {
	scope.Let(symTy, slip.Symbol(target))
	res, err := sl.Eval(scope, "(coerce x ty)")
	if err != nil {
		if err.Internal {
			x.Fail(fmt.Sprintf("coerce fail=internal target=%s from=%s", target, kind), "(coerce %s '%s) => %s", src, target, fmtErr(err))
		} else {
			x.Cover("coerce:refused")
		}
		return false, err
	}
	x.Cover("coerce:returned")
	x.Cover("coerce-to:" + target)
	rs := slip.NewScope()
	rs.Let(symX, res)
	got := sl.Kind(res)
	okKind := true
	if allowed := allowedKinds[target]; allowed != nil {
		okKind = false
		for _, a := range allowed {
			if a == got {
				okKind = true
			}
		}
	}
	typepSays := true
	if !notTypeNames[target] && !(got == "null" && okKind) { // what typep says about nil is judged on its own (typep-nil)
		v, e := typepOf(rs, target)
		typepSays = e == nil && v
	}
	switch {
	case !typepSays:
		x.Fail(fmt.Sprintf("coerce-typep target=%s got=%s", target, got), "(coerce %s '%s) => %s, a %s, which is not typep %s", src, target, sl.Show(res), got, target)
	case !okKind:
		x.Fail(fmt.Sprintf("coerce-kind target=%s got=%s", target, got), "(coerce %s '%s) => %s, whose representation is %s", src, target, sl.Show(res), got)
	}
	if target == "t" {
		if h.o.K != "opq" && !matches(res, describe(h.o)) {
			x.Fail("coerce-t fail=changed", "(coerce %s 't) => %s", src, sl.Show(res))
		}
		if h.o.K == "opq" && reflectComparable(h.obj) && !identical(res, h.obj) {
			x.Fail("coerce-t fail=changed", "(coerce %s 't) => %s, not the object itself", src, sl.Show(res))
		}
	}
	return true, nil
}

func execSub(x *fw.Ctx, c Case) {
	r := theRegistry()
	if r.err != "" {
		x.Fail("harness registry", "%s", r.err)
		return
	}
	rows := 0
	scope := slip.NewScope()
	if c.I == 0 {
		// the literal route for the universal supertype
		res, err := sl.Eval(scope, "(multiple-value-list (subtypep (quote fixnum) (quote t)))")
		if err != nil {
			x.Fail("subtypep-literal-t fail=error", "(subtypep 'fixnum 't) => %s", fmtErr(err))
		} else if sl.Show(res) != "(t t)" {
			x.Fail("subtypep-literal-t fail=nil", "(subtypep 'fixnum 't) => %s", sl.Show(res))
		}
	}
	for i := c.I; i < len(r.names); i += subRows {
		rows++
		a := r.names[i]
		x.Cover("subtypep-row")
		x.CoverN("subtypep-triples-examined", len(r.names)*len(r.names))
		for j := range r.names {
			x.Cover("observed:subtypep")
			if r.sub[i][j] < 0 {
				x.Fail("subtypep fail=error", "(subtypep '%s '%s) signals an error", a, r.names[j])
			}
			if !r.sub2[i][j] {
				x.Cover("subtypep:not-certain")
			}
		}
		if r.sub[i][i] != 1 {
			x.Fail("subtypep-reflexive type="+a, "(subtypep '%s '%s) is not t", a, a)
		}
		// the same two types reached through their class objects: subtypep
		// takes a class wherever it takes the name of one
		scope.Let(slip.Symbol("t1"), slip.Symbol(a))
		for j, b := range r.names {
			scope.Let(slip.Symbol("t2"), slip.Symbol(b))
			res, err := sl.Eval(scope, "(list (subtypep (find-class t1) (find-class t2)) (subtypep t1 (find-class t2)) (subtypep (find-class t1) t2))")
			x.Cover("subtypep-class-object-route-checked")
			if err != nil {
				x.Fail("subtypep-route fail=error", "(subtypep (find-class '%s) (find-class '%s)) and its mixed forms => %s", a, b, fmtErr(err))
				continue
			}
			l, _ := res.(slip.List)
			for ri, e := range l {
				if v, _ := truth(e); v != (r.sub[i][j] == 1) {
					x.Fail("subtypep-route fail=differs", "(subtypep '%s '%s) => %v but the same question asked with class objects (form %d of class/class, name/class, class/name) => %v",
						a, b, r.sub[i][j] == 1, ri, v)
				}
			}
		}
		for j, b := range r.names {
			if r.sub[i][j] != 1 {
				continue
			}
			x.Cover("subtypep-true")
			for k, cn := range r.names {
				if r.sub[j][k] == 1 {
					x.Cover("subtypep-transitivity-checked")
					if r.sub[i][k] != 1 {
						x.Fail(fmt.Sprintf("subtypep-transitive a=%s b=%s c=%s", a, b, cn), "(subtypep '%s '%s) and (subtypep '%s '%s) are t but (subtypep '%s '%s) is nil", a, b, b, cn, a, cn)
					}
				}
			}
		}
		for _, s := range r.cpl[a] {
			if j, known := r.index[s]; known {
				x.Cover("subtypep-cpl-checked")
				if r.sub[i][j] != 1 {
					x.Fail(fmt.Sprintf("subtypep-cpl type=%s super=%s", a, s), "%s is in the class precedence list of %s but (subtypep '%s '%s) is nil", s, a, a, s)
				}
			}
		}
	}
	if rows == 0 {
		x.Trivial()
	}
	x.Observe(map[string]any{"rows": rows, "registry": len(r.names)})
}
