package c16

import (
	"fmt"
	"runtime"
	"sort"
	"strings"

	"github.com/ohler55/slip"

	"verif/internal/fw"
	"verif/internal/sl"
)

// outcome of one predicate application on the real code.
type outcome struct {
	val bool
	err *sl.Err
	odd string // neither t nor nil
}

func (o outcome) ok() bool { return o.err == nil && o.odd == "" }

var symA, symB = slip.Symbol("a"), slip.Symbol("b")

// apply1 evaluates (p a b) in the real interpreter with a and b bound to the objects.
func apply1(p string, a, b slip.Object) outcome {
	scope := slip.NewScope()
	scope.Let(symA, a)
	scope.Let(symB, b)
	res, err := sl.Eval(scope, "("+p+" a b)")
	if err != nil {
		return outcome{err: err}
	}
	v, isBool := truth(res)
	if !isBool {
		return outcome{odd: sl.Show(res)}
	}
	return outcome{val: v}
}

// applyAll evaluates the four predicates; one form when nothing fails.
func applyAll(a, b slip.Object) [4]outcome {
	var out [4]outcome
	scope := slip.NewScope()
	scope.Let(symA, a)
	scope.Let(symB, b)
	res, err := sl.Eval(scope, "(list (eq a b) (eql a b) (equal a b) (equalp a b))")
	if err == nil {
		if l, ok := res.(slip.List); ok && len(l) == 4 {
			for i, e := range l {
				v, isBool := truth(e)
				if !isBool {
					out[i] = outcome{odd: sl.Show(e)}
				} else {
					out[i] = outcome{val: v}
				}
			}
			return out
		}
	}
	for i, p := range preds {
		out[i] = apply1(p, a, b)
	}
	return out
}

type hashObs struct {
	code     int64
	err      *sl.Err
	odd      string
	unstable string // "" or when the code changed: same-form, next-form, after-gc
}

func sxhash(a slip.Object) hashObs {
	scope := slip.NewScope()
	scope.Let(symA, a)
	res, err := sl.Eval(scope, "(list (sxhash a) (sxhash a))")
	if err != nil {
		return hashObs{err: err}
	}
	l, _ := res.(slip.List)
	if len(l) != 2 {
		return hashObs{odd: sl.Show(res)}
	}
	h1, ok1 := l[0].(slip.Fixnum)
	h2, ok2 := l[1].(slip.Fixnum)
	if !ok1 || !ok2 || h1 < 0 {
		return hashObs{odd: "not a non-negative fixnum: " + sl.Show(res)}
	}
	if h1 != h2 {
		return hashObs{odd: "two calls in one form gave " + sl.Show(res), unstable: "same-form"}
	}
	return hashObs{code: int64(h1)}
}

// sxhashAgain hashes the same object again, in a new evaluation and optionally
// after a garbage collection, and reports a changed code.
func sxhashAgain(a slip.Object, first hashObs, gc bool) hashObs {
	if first.err != nil || first.odd != "" {
		return first
	}
	if gc {
		runtime.GC()
	}
	second := sxhash(a)
	if second.err != nil || second.odd != "" {
		return second
	}
	if second.code != first.code {
		when := "next-form"
		if gc {
			when = "after-gc"
		}
		return hashObs{odd: fmt.Sprintf("code %d became %d", first.code, second.code), unstable: when}
	}
	return first
}

// kindsSig names the kinds of a tuple: fine kinds when all are numbers
// (the representation is what matters there), coarse groups otherwise.
func kindsSig(sorted bool, hs ...*hv) string {
	allNum := true
	for _, h := range hs {
		if !h.o.isNum() {
			allNum = false
		}
	}
	ks := make([]string, len(hs))
	for i, h := range hs {
		if allNum {
			ks[i] = h.o.K
		} else {
			ks[i] = group(h.o.K)
		}
	}
	if sorted {
		sort.Strings(ks)
		// a set: transitivity over (num num num) and (num num) is one cell
		var u []string
		for _, k := range ks {
			if len(u) == 0 || u[len(u)-1] != k {
				u = append(u, k)
			}
		}
		ks = u
	}
	return strings.Join(ks, "/")
}

// fineSig names a pair by the fine kinds, order-free.
func fineSig(a, b *hv) string {
	ks := []string{a.o.K, b.o.K}
	sort.Strings(ks)
	return strings.Join(ks, "/")
}

// culprit descends from a pair that shows a failure into the first pair of
// corresponding elements that shows the same failure on its own (bad tells
// that, by running the real code on the sub-objects), so that the signature
// names the innermost construct that fails rather than whatever contains it.
func culprit(a, b *hv, bad func(ka, kb *hv) bool) (*hv, *hv) {
	for depth := 0; depth < 50; depth++ {
		// (a proper and a dotted list of one length are walked element by element
		// by the real predicates too: same group is enough to descend)
		if len(a.kids) == 0 || (a.o.K != b.o.K && !(group(a.o.K) == "list" && group(b.o.K) == "list")) || len(a.kids) != len(b.kids) {
			return a, b
		}
		found := false
		for i := range a.kids {
			ka, kb := a.kids[i], b.kids[i]
			if !ka.tied || !kb.tied {
				return a, b
			}
			if bad(ka, kb) {
				a, b, found = ka, kb, true
				break
			}
		}
		if !found {
			return a, b
		}
	}
	return a, b
}

// matrix holds the observations over a set of built objects.
type matrix struct {
	x    *fw.Ctx
	gc   bool // re-hash every object after a garbage collection
	objs []*hv
	rows map[int][][4]outcome // forward row i: p(i, j) for all j
	hash map[int]hashObs
}

func newMatrix(x *fw.Ctx, objs []*hv) *matrix {
	return &matrix{x: x, objs: objs, rows: map[int][][4]outcome{}, hash: map[int]hashObs{}}
}

func (m *matrix) row(i int) [][4]outcome {
	if r, ok := m.rows[i]; ok {
		return r
	}
	r := make([][4]outcome, len(m.objs))
	for j := range m.objs {
		r[j] = applyAll(m.objs[i].obj, m.objs[j].obj)
	}
	m.rows[i] = r
	return r
}

func (m *matrix) sx(i int) hashObs {
	if h, ok := m.hash[i]; ok {
		return h
	}
	h := sxhash(m.objs[i].obj)
	h = sxhashAgain(m.objs[i].obj, h, false)
	m.x.Cover("sxhash-stable-checked:next-form")
	if m.gc {
		h = sxhashAgain(m.objs[i].obj, h, true)
		m.x.Cover("sxhash-stable-checked:after-gc")
	}
	m.hash[i] = h
	return h
}

// judgeRow applies every monitor that involves object i as the first element.
func (m *matrix) judgeRow(i int) {
	x := m.x
	a := m.objs[i]
	ri := m.row(i)
	hi := m.sx(i)
	if hi.err != nil {
		k := "error"
		if hi.err.Internal {
			k = "internal"
		}
		x.Fail("sxhash fail="+k+" kind="+a.o.K, "(sxhash %s) => %s", a.o.Text(), fmtErr(hi.err))
	} else if hi.unstable != "" {
		x.Fail("sxhash fail=unstable when="+hi.unstable+" kind="+a.o.K, "(sxhash x) of one and the same object changed, x = %s: %s", a.o.Text(), hi.odd)
	} else if hi.odd != "" {
		x.Fail("sxhash fail=bad-code kind="+a.o.K, "(sxhash %s): %s", a.o.Text(), hi.odd)
	}
	m.judgeRoutes(a)
	for j, b := range m.objs {
		for pi, p := range preds {
			o := ri[j][pi]
			x.Cover("applied:" + p)
			switch {
			case o.err != nil:
				k := "error"
				if o.err.Internal {
					k = "internal"
				}
				x.Cover("outcome:error")
				ca, cb := culprit(a, b, func(ka, kb *hv) bool { return apply1(p, ka.obj, kb.obj).err != nil })
				x.Fail(fmt.Sprintf("pred=%s fail=%s at=%s", p, k, fineSig(ca, cb)), "(%s %s %s) => %s [innermost pair that fails on its own: %s , %s]", p, a.o.Text(), b.o.Text(), fmtErr(o.err),
					ca.o.Text(), cb.o.Text())
				continue
			case o.odd != "":
				x.Fail(fmt.Sprintf("pred=%s fail=non-boolean", p), "(%s %s %s) => %s", p, a.o.Text(), b.o.Text(), o.odd)
				continue
			}
			// the definition
			want := wantFns[p](a, b)
			if want == fU {
				x.Cover("definition:unspecified")
			} else {
				x.Cover("definition:judged")
				if (want == fT) != o.val {
					ca, cb := culprit(a, b, func(ka, kb *hv) bool {
						if wantFns[p](ka, kb) != want {
							return false
						}
						so := apply1(p, ka.obj, kb.obj)
						return so.ok() && so.val != (want == fT)
					})
					why := ""
					if want == fF {
						if w := whyNot(ca, cb, p == "equalp"); w != "" {
							why = " why=" + w
						}
					}
					x.Fail(fmt.Sprintf("pred=%s fail=wrong-truth want=%s at=%s%s", p, want, fineSig(ca, cb), why),
						"(%s %s %s) => %v, the documented definition gives %s [innermost disagreeing pair: %s , %s]", p, a.o.Text(), b.o.Text(), o.val, want,
						ca.o.Text(), cb.o.Text())
				}
			}
			if o.val {
				x.Cover("true:" + p)
			}
			// reflexive
			if i == j {
				x.Cover("reflexivity-checked:" + p)
			}
			if i == j && !o.val {
				x.Fail(fmt.Sprintf("rel=reflexive pred=%s kind=%s", p, a.o.K), "(%s x x) is nil for x = %s", p, a.o.Text())
			}
			// implication chain
			if o.val && pi < 3 {
				nx := ri[j][pi+1]
				if nx.ok() && !nx.val {
					x.Fail(fmt.Sprintf("rel=chain %s=>%s kinds=%s", p, preds[pi+1], kindsSig(false, a, b)),
						"(%s x y) is t but (%s x y) is nil for x = %s, y = %s", p, preds[pi+1], a.o.Text(), b.o.Text())
				}
				x.Cover("chain-checked")
				x.Cover("chain-checked:" + p + "=>" + preds[pi+1])
			}
			// symmetric
			if i != j {
				back := m.row(j)[i][pi]
				if back.ok() && back.val != o.val {
					x.Fail(fmt.Sprintf("rel=symmetric pred=%s kinds=%s", p, kindsSig(true, a, b)),
						"(%s x y) => %v but (%s y x) => %v for x = %s, y = %s", p, o.val, p, back.val, a.o.Text(), b.o.Text())
				}
				x.Cover("symmetry-checked")
				x.Cover("symmetry-checked:" + p)
			}
			// transitive through j
			if o.val && i != j {
				rj := m.row(j)
				for k, c := range m.objs {
					jk := rj[k][pi]
					ik := ri[k][pi]
					if jk.ok() && jk.val && ik.ok() {
						x.Cover("transitivity-checked")
						x.Cover("transitivity-checked:" + p)
						if !ik.val {
							x.Fail(fmt.Sprintf("rel=transitive pred=%s kinds=%s", p, kindsSig(true, a, b, c)),
								"(%s x y) and (%s y z) are t but (%s x z) is nil for x = %s, y = %s, z = %s", p, p, p, a.o.Text(), b.o.Text(), c.o.Text())
						}
					}
				}
			}
		}
		// equal => same sxhash
		// (where the definition says the pair is not equal, the wrong answer of
		// equal is already reported and the codes need not agree)
		if eq := ri[j][2]; eq.ok() && eq.val && i != j && wantEqual(a, b) != fF {
			hj := m.sx(j)
			if hi.err == nil && hi.odd == "" && hj.err == nil && hj.odd == "" {
				x.Cover("sxhash-checked")
				if hi.code != hj.code {
					ca, cb := culprit(a, b, func(ka, kb *hv) bool {
						if so := apply1("equal", ka.obj, kb.obj); !so.ok() || !so.val {
							return false
						}
						ha, hb := sxhash(ka.obj), sxhash(kb.obj)
						return ha.err == nil && hb.err == nil && ha.odd == "" && hb.odd == "" && ha.code != hb.code
					})
					x.Fail("rel=sxhash at="+fineSig(ca, cb), "(equal x y) is t but (sxhash x) = %d and (sxhash y) = %d for x = %s, y = %s [innermost such pair: %s , %s]",
						hi.code, hj.code, a.o.Text(), b.o.Text(), ca.o.Text(), cb.o.Text())
				}
			}
		}
	}
}

// routes by which an object comes back as the very object it was: out of a
// fresh list, vector, array, hash table and instance, through a function call,
// values, and a second variable.
var routes = []struct{ name, src string }{
	{"list", "(car (list a))"},
	{"nth", "(nth 1 (list 0 a))"},
	{"vector", "(svref (vector a) 0)"},
	{"array", "(aref (make-array 1 :initial-element a) 0)"},
	{"hash-table", "(let ((h (make-hash-table))) (setf (gethash 1 h) a) (gethash 1 h))"},
	{"instance", "(slot-value (make-instance (quote c16-k) :v a) (quote v))"},
	{"funcall", "(funcall (lambda (y) y) a)"},
	{"values", "(values a)"},
	{"variable", "(let ((b a)) b)"},
}

var routesSrc = func() string {
	var b strings.Builder
	b.WriteString("(list")
	for _, r := range routes {
		b.WriteString(" (let ((r " + r.src + ")) (list (eq a r) (eql a r) (equal a r) (equalp a r)))")
	}
	b.WriteString(")")
	return b.String()
}()

// judgeRoutes: the same object reached through another route is eq to itself
// (eql for numbers and characters, for which the language leaves eq open).
func (m *matrix) judgeRoutes(a *hv) {
	x := m.x
	scope := slip.NewScope()
	scope.Let(symA, a.obj)
	res, err := sl.Eval(scope, routesSrc)
	if err != nil {
		// which route fails is found one by one
		for _, r := range routes {
			if _, e := sl.Eval(scope, r.src); e != nil {
				k := "error"
				if e.Internal {
					k = "internal"
				}
				x.Fail(fmt.Sprintf("route fail=%s via=%s kind=%s", k, r.name, a.o.K), "with a = %s: %s => %s", a.o.Text(), r.src, fmtErr(e))
				return
			}
		}
		return // a predicate failed: reported by the pair monitors
	}
	l, _ := res.(slip.List)
	if len(l) != len(routes) {
		return
	}
	first := 0
	if g := group(a.o.K); g == "num" || g == "char" {
		first = 1
	}
	for ri, e := range l {
		vals, _ := e.(slip.List)
		if len(vals) != 4 {
			continue
		}
		for pi := first; pi < 4; pi++ {
			x.Cover("route-identity-checked:" + preds[pi])
			if v, isBool := truth(vals[pi]); isBool && !v {
				x.Fail(fmt.Sprintf("route-identity kind=%s pred=%s via=%s", a.o.K, preds[pi], routes[ri].name),
					"with a = %s: (%s a %s) => nil, the object is not %s to itself once it went through that route", a.o.Text(), preds[pi], routes[ri].src, preds[pi])
			}
		}
		x.Cover("route:" + routes[ri].name)
	}
}

// ---- the fixed universe, built once per worker -----------------------------

var (
	uniBuilt  []*hv
	uniMatrix *matrix
	uniErr    string
)

func builtUniverse() ([]*hv, string) {
	if uniBuilt != nil || uniErr != "" {
		return uniBuilt, uniErr
	}
	scope := slip.NewScope()
	for i, o := range universe {
		h, err := build(scope, o)
		if err != nil {
			uniErr = fmt.Sprintf("universe[%d] %s cannot be built: %s", i, o.Text(), fmtErr(err))
			return nil, uniErr
		}
		if !h.okay {
			uniErr = fmt.Sprintf("universe[%d] %s was built as %s", i, o.Text(), sl.Show(h.obj))
			return nil, uniErr
		}
		uniBuilt = append(uniBuilt, h)
	}
	return uniBuilt, ""
}

func execRow(x *fw.Ctx, c Case) {
	objs, bad := builtUniverse()
	if bad != "" {
		x.Fail("harness universe", "%s", bad)
		return
	}
	if uniMatrix == nil {
		uniMatrix = newMatrix(x, objs)
		uniMatrix.gc = true
	}
	uniMatrix.x = x
	if c.I < 0 || len(objs) <= c.I {
		x.Trivial()
		return
	}
	x.Cover("row-kind:" + objs[c.I].o.K)
	uniMatrix.judgeRow(c.I)
	x.Observe(map[string]any{"object": objs[c.I].o.Src(), "compared-with": len(objs)})
}

func execMini(x *fw.Ctx, c Case) {
	scope := slip.NewScope()
	var objs []*hv
	for _, o := range c.Objs {
		h, err := build(scope, o)
		if err != nil || !h.okay {
			// building belongs to the reader/evaluator properties
			x.Cover("build-mismatch")
			continue
		}
		objs = append(objs, h)
	}
	if len(objs) < 2 {
		x.Trivial()
		return
	}
	m := newMatrix(x, objs)
	m.gc = x.Index%8 == 0
	trues := 0
	for i := range objs {
		m.judgeRow(i)
	}
	for i := range objs {
		for j := range objs {
			if i != j && m.row(i)[j][3].val {
				trues++
			}
		}
	}
	if trues == 0 {
		x.Trivial() // nothing related to anything: relations hold vacuously
	}
	x.CoverN("mini:related-pairs", trues)
	var srcs []string
	for _, h := range objs {
		srcs = append(srcs, h.o.Src())
	}
	x.Observe(map[string]any{"objects": srcs, "equalp-pairs": trues})
}
