package c16

import (
	"fmt"
	"math/rand/v2"
	"sort"
	"strings"

	"github.com/ohler55/slip"

	"verif/internal/fw"
	"verif/internal/sl"
)

// UDef is one freshly defined type: a standard class, a flavor, a condition
// or a structure, with its direct supertypes among the earlier definitions
// of the same case (most specific first).
type UDef struct {
	Name   string   `json:"name"`
	Meta   string   `json:"meta"` // class flavor cond struct
	Supers []string `json:"supers,omitempty"`
}

var userMetas = []string{"class", "flavor", "cond", "struct"}

func (d UDef) src(k int) string {
	switch d.Meta {
	case "class":
		return fmt.Sprintf("(defclass %s (%s) ((s%d :initarg :s%d)))", d.Name, strings.Join(d.Supers, " "), k, k)
	case "flavor":
		return fmt.Sprintf("(defflavor %s (v%d) (%s))", d.Name, k, strings.Join(d.Supers, " "))
	case "cond":
		parent := "error"
		if 0 < len(d.Supers) {
			parent = strings.Join(d.Supers, " ")
		}
		return fmt.Sprintf("(define-condition %s (%s) ())", d.Name, parent)
	case "struct":
		if 0 < len(d.Supers) {
			return fmt.Sprintf("(defstruct (%s (:include %s)) f%d)", d.Name, d.Supers[0], k)
		}
		return fmt.Sprintf("(defstruct %s f%d)", d.Name, k)
	}
	return "nil"
}

func (d UDef) instSrc() string {
	switch d.Meta {
	case "cond":
		return "(make-condition (quote " + d.Name + "))"
	case "struct":
		return "(make-" + d.Name + ")"
	}
	return "(make-instance (quote " + d.Name + "))"
}

// what every instance of the meta kind is, besides its own classes, per the
// language definition and slip's documentation of the kind
var metaBase = map[string][]string{
	"class":  {"standard-object"},
	"flavor": {"vanilla-flavor"},
	"cond":   {"error", "serious-condition", "condition"},
	"struct": {},
}

// genUser: 2-6 definitions of one meta kind; tag makes the names unique.
func genUser(r *rand.Rand, tag int) Case {
	meta := fw.Pick(r, userMetas)
	n := 2 + r.IntN(5)
	return Case{Kind: "user", I: tag, Defs: userDefs(r, meta, n, fmt.Sprintf("c16u%d", tag))}
}

func userDefs(r *rand.Rand, meta string, n int, prefix string) []UDef {
	defs := make([]UDef, n)
	for k := range defs {
		d := UDef{Name: fmt.Sprintf("%s-%d", prefix, k), Meta: meta}
		maxSup := 2
		if meta == "cond" || meta == "struct" {
			maxSup = 1
		}
		if 0 < k {
			ns := r.IntN(maxSup + 1)
			picked := map[int]bool{}
			for len(picked) < ns && len(picked) < k {
				picked[r.IntN(k)] = true
			}
			var idx []int
			for i := range picked {
				idx = append(idx, i)
			}
			sort.Sort(sort.Reverse(sort.IntSlice(idx))) // most specific (latest) first: a consistent precedence order
			for _, i := range idx {
				d.Supers = append(d.Supers, defs[i].Name)
			}
		}
		defs[k] = d
	}
	return defs
}

// fixedUserCases: for each meta kind a chain of depth 4, a diamond and a
// forest, the same at every seed.
func fixedUserCases() []Case {
	var cs []Case
	for mi, meta := range userMetas {
		p := fmt.Sprintf("c16uf%d", mi)
		chain := []UDef{{Name: p + "a-0", Meta: meta}, {Name: p + "a-1", Meta: meta, Supers: []string{p + "a-0"}},
			{Name: p + "a-2", Meta: meta, Supers: []string{p + "a-1"}}, {Name: p + "a-3", Meta: meta, Supers: []string{p + "a-2"}}}
		cs = append(cs, Case{Kind: "user", I: 1000000 + mi, Defs: chain})
		forest := []UDef{{Name: p + "b-0", Meta: meta}, {Name: p + "b-1", Meta: meta}, {Name: p + "b-2", Meta: meta, Supers: []string{p + "b-0"}},
			{Name: p + "b-3", Meta: meta, Supers: []string{p + "b-1"}}, {Name: p + "b-4", Meta: meta, Supers: []string{p + "b-0"}}}
		cs = append(cs, Case{Kind: "user", I: 1000100 + mi, Defs: forest})
		if meta == "class" || meta == "flavor" {
			diamond := []UDef{{Name: p + "c-0", Meta: meta}, {Name: p + "c-1", Meta: meta, Supers: []string{p + "c-0"}},
				{Name: p + "c-2", Meta: meta, Supers: []string{p + "c-0"}}, {Name: p + "c-3", Meta: meta, Supers: []string{p + "c-2", p + "c-1"}}}
			cs = append(cs, Case{Kind: "user", I: 1000200 + mi, Defs: diamond})
		}
	}
	return cs
}

var userDefined = map[string]bool{}

func execUser(x *fw.Ctx, c Case) {
	if len(c.Defs) == 0 {
		x.Trivial()
		return
	}
	scope := slip.NewScope()
	meta := c.Defs[0].Meta
	x.Cover("user-meta:" + meta)
	// the harness's own supertype relation: reflexive-transitive closure of the declared supers
	index := map[string]int{}
	for k, d := range c.Defs {
		index[d.Name] = k
	}
	anc := make([]map[string]bool, len(c.Defs))
	for k, d := range c.Defs {
		anc[k] = map[string]bool{d.Name: true}
		for _, s := range d.Supers {
			j, ok := index[s]
			if !ok || k <= j || d.Meta != meta {
				x.Trivial()
				return
			}
			for a := range anc[j] {
				anc[k][a] = true
			}
		}
	}
	fail := func(check, format string, a ...any) {
		x.Fail("user meta="+meta+" check="+check, format, a...)
	}
	for k, d := range c.Defs {
		if userDefined[d.Name] {
			continue // replay in the same process
		}
		if _, err := sl.Eval(scope, d.src(k)); err != nil {
			fail("define", "%s => %s", d.src(k), fmtErr(err))
			return
		}
		userDefined[d.Name] = true
		x.Cover("user-defined:" + meta)
	}
	var defsText []string
	for k, d := range c.Defs {
		defsText = append(defsText, d.src(k))
	}
	ctx := strings.Join(defsText, " ")
	for k, d := range c.Defs {
		inst, err := sl.Eval(scope, d.instSrc())
		if err != nil {
			fail("make", "%s => %s [%s]", d.instSrc(), fmtErr(err), ctx)
			continue
		}
		scope.Let(symX, inst)
		x.Cover("user-instance:" + meta)
		// type-of
		res, err := sl.Eval(scope, "(type-of x)")
		if err != nil {
			fail("type-of", "(type-of %s) => %s", d.instSrc(), fmtErr(err))
		} else if ts, ok := res.(slip.Symbol); !ok || !strings.EqualFold(string(ts), d.Name) {
			fail("type-of", "(type-of %s) => %s [%s]", d.instSrc(), sl.Show(res), ctx)
		}
		// typep and subtypep against every definition of the case
		for _, e := range c.Defs {
			want := anc[k][e.Name]
			v, terr := typepOf(scope, e.Name)
			x.Cover("user-typep-checked")
			switch {
			case terr != nil:
				fail("typep-error", "(typep %s '%s) => %s", d.instSrc(), e.Name, fmtErr(terr))
			case v != want && want:
				fail("typep-ancestor", "(typep %s '%s) => nil although %s is a supertype of %s [%s]", d.instSrc(), e.Name, e.Name, d.Name, ctx)
			case v != want:
				fail("typep-unrelated", "(typep %s '%s) => t although %s is not a supertype of %s [%s]", d.instSrc(), e.Name, e.Name, d.Name, ctx)
			}
			scope.Let(slip.Symbol("t1"), slip.Symbol(d.Name))
			scope.Let(slip.Symbol("t2"), slip.Symbol(e.Name))
			sres, serr := sl.Eval(scope, "(multiple-value-list (subtypep t1 t2))")
			x.Cover("user-subtypep-checked")
			if serr != nil {
				fail("subtypep-error", "(subtypep '%s '%s) => %s", d.Name, e.Name, fmtErr(serr))
			} else {
				sv := false
				if l, ok := sres.(slip.List); ok && 0 < len(l) {
					sv, _ = truth(l[0])
				}
				switch {
				case sv != want && want:
					fail("subtypep-ancestor", "(subtypep '%s '%s) => nil although %s is a supertype of %s [%s]", d.Name, e.Name, e.Name, d.Name, ctx)
				case sv != want:
					fail("subtypep-unrelated", "(subtypep '%s '%s) => t although %s is not a supertype of %s [%s]", d.Name, e.Name, e.Name, d.Name, ctx)
				}
			}
		}
		// the kind's own base types, and t
		for _, b := range append(append([]string{}, metaBase[meta]...), "t") {
			if v, e := typepOf(scope, b); e != nil || !v {
				fail("typep-base:"+b, "(typep %s '%s) is not t", d.instSrc(), b)
			}
		}
		// class precedence list: holds every ancestor, and the instance is typep of every member
		scope.Let(slip.Symbol("t1"), slip.Symbol(d.Name))
		if r, e := sl.Eval(scope, "(class-precedence (find-class t1))"); e != nil {
			fail("cpl-error", "(class-precedence (find-class '%s)) => %s", d.Name, fmtErr(e))
		} else {
			in := map[string]bool{}
			if rl, ok := r.(slip.List); ok {
				for _, s := range rl {
					name := ""
					switch ts := s.(type) {
					case slip.Symbol:
						name = strings.ToLower(string(ts))
					case slip.Class:
						name = strings.ToLower(ts.Name())
					}
					if name == "" {
						continue
					}
					in[name] = true
					x.Cover("user-cpl-member-checked")
					if v, e := typepOf(scope, name); e != nil || !v {
						fail("typep-cpl", "%s is in the class precedence list of %s but (typep %s '%s) is not t [%s]", name, d.Name, d.instSrc(), name, ctx)
					}
				}
			}
			for a := range anc[k] {
				if !in[a] {
					fail("cpl-misses-ancestor", "the class precedence list of %s does not hold its supertype %s: %s [%s]", d.Name, a, sl.Show(r), ctx)
				}
			}
		}
		if meta == "struct" {
			if v, e := typepOf(scope, "structure-object"); e == nil && v {
				x.Cover("struct-is-structure-object")
			} else {
				x.Cover("struct-is-not-typep-structure-object")
			}
		}
	}
	x.Observe(map[string]any{"definitions": defsText})
}
