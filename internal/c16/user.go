package c16

import (
	"fmt"
	"math/rand/v2"
	"sort"
	"strings"

	"github.com/ohler55/slip"

	"verif/internal/fw"
	"verif/internal/sl"
)

// UDef is one freshly defined type: a standard class, a flavor, a condition
// or a structure, with its direct supertypes among the earlier definitions
// of the same case (most specific first). A name that was defined earlier in
// the case is a REDEFINITION (standard classes and conditions only: flavors
// refuse it and the language leaves redefined structures undefined): its
// supertypes are then among the names first defined before it.
type UDef struct {
	Name   string   `json:"name"`
	Meta   string   `json:"meta"` // class flavor cond struct
	Supers []string `json:"supers,omitempty"`
}

var userMetas = []string{"class", "flavor", "cond", "struct"}

func (d UDef) src(k int) string {
	switch d.Meta {
	case "class":
		return fmt.Sprintf("(defclass %s (%s) ((s%d :initarg :s%d)))", d.Name, strings.Join(d.Supers, " "), k, k)
	case "flavor":
		return fmt.Sprintf("(defflavor %s (v%d) (%s))", d.Name, k, strings.Join(d.Supers, " "))
	case "cond":
		parent := "error"
		if 0 < len(d.Supers) {
			parent = strings.Join(d.Supers, " ")
		}
		return fmt.Sprintf("(define-condition %s (%s) ())", d.Name, parent)
	case "struct":
		if 0 < len(d.Supers) {
			return fmt.Sprintf("(defstruct (%s (:include %s)) f%d)", d.Name, d.Supers[0], k)
		}
		return fmt.Sprintf("(defstruct %s f%d)", d.Name, k)
	}
	return "nil"
}

func (d UDef) instSrc() string {
	switch d.Meta {
	case "cond":
		return "(make-condition (quote " + d.Name + "))"
	case "struct":
		return "(make-" + d.Name + ")"
	}
	return "(make-instance (quote " + d.Name + "))"
}

// what every instance of the meta kind is, besides its own classes, per the
// language definition and slip's documentation of the kind
var metaBase = map[string][]string{
	"class":  {"standard-object"},
	"flavor": {"vanilla-flavor"},
	"cond":   {"error", "serious-condition", "condition"},
	"struct": {},
}

// genUser: 2-6 definitions of one meta kind; tag makes the names unique.
func genUser(r *rand.Rand, tag int) Case {
	meta := fw.Pick(r, userMetas)
	n := 2 + r.IntN(5)
	defs := userDefs(r, meta, n, fmt.Sprintf("c16u%d", tag))
	if (meta == "class" || meta == "cond") && r.IntN(2) == 0 {
		// a history: 1-3 of the types are defined again with other supertypes
		for k := 1 + r.IntN(3); 0 < k; k-- {
			j := r.IntN(n)
			d := UDef{Name: defs[j].Name, Meta: meta}
			maxSup := 2
			if meta == "cond" {
				maxSup = 1
			}
			if 0 < j {
				picked := map[int]bool{}
				for ns := r.IntN(maxSup + 1); len(picked) < ns && len(picked) < j; {
					picked[r.IntN(j)] = true
				}
				var idx []int
				for i := range picked {
					idx = append(idx, i)
				}
				sort.Sort(sort.Reverse(sort.IntSlice(idx)))
				for _, i := range idx {
					d.Supers = append(d.Supers, defs[i].Name)
				}
			}
			defs = append(defs, d)
		}
	}
	return Case{Kind: "user", I: tag, Defs: defs}
}

func userDefs(r *rand.Rand, meta string, n int, prefix string) []UDef {
	defs := make([]UDef, n)
	for k := range defs {
		d := UDef{Name: fmt.Sprintf("%s-%d", prefix, k), Meta: meta}
		maxSup := 2
		if meta == "cond" || meta == "struct" {
			maxSup = 1
		}
		if 0 < k {
			ns := r.IntN(maxSup + 1)
			picked := map[int]bool{}
			for len(picked) < ns && len(picked) < k {
				picked[r.IntN(k)] = true
			}
			var idx []int
			for i := range picked {
				idx = append(idx, i)
			}
			sort.Sort(sort.Reverse(sort.IntSlice(idx))) // most specific (latest) first: a consistent precedence order
			for _, i := range idx {
				d.Supers = append(d.Supers, defs[i].Name)
			}
		}
		defs[k] = d
	}
	return defs
}

// fixedUserCases: for each meta kind a chain of depth 4, a diamond and a
// forest, the same at every seed.
func fixedUserCases() []Case {
	var cs []Case
	for mi, meta := range userMetas {
		p := fmt.Sprintf("c16uf%d", mi)
		chain := []UDef{{Name: p + "a-0", Meta: meta}, {Name: p + "a-1", Meta: meta, Supers: []string{p + "a-0"}},
			{Name: p + "a-2", Meta: meta, Supers: []string{p + "a-1"}}, {Name: p + "a-3", Meta: meta, Supers: []string{p + "a-2"}}}
		cs = append(cs, Case{Kind: "user", I: 1000000 + mi, Defs: chain})
		forest := []UDef{{Name: p + "b-0", Meta: meta}, {Name: p + "b-1", Meta: meta}, {Name: p + "b-2", Meta: meta, Supers: []string{p + "b-0"}},
			{Name: p + "b-3", Meta: meta, Supers: []string{p + "b-1"}}, {Name: p + "b-4", Meta: meta, Supers: []string{p + "b-0"}}}
		cs = append(cs, Case{Kind: "user", I: 1000100 + mi, Defs: forest})
		if meta == "class" || meta == "flavor" {
			diamond := []UDef{{Name: p + "c-0", Meta: meta}, {Name: p + "c-1", Meta: meta, Supers: []string{p + "c-0"}},
				{Name: p + "c-2", Meta: meta, Supers: []string{p + "c-0"}}, {Name: p + "c-3", Meta: meta, Supers: []string{p + "c-2", p + "c-1"}}}
			cs = append(cs, Case{Kind: "user", I: 1000200 + mi, Defs: diamond})
		}
		if meta == "class" || meta == "cond" {
			// define / use / redefine / use: the middle of a chain moves under
			// another root, then loses its supertype, then gets the first one back
			d := func(name string, supers ...string) UDef {
				return UDef{Name: p + name, Meta: meta, Supers: prefixed(p, supers)}
			}
			cs = append(cs, Case{Kind: "user", I: 1000300 + mi, Defs: []UDef{d("d-0"), d("d-1"), d("d-2", "d-0"), d("d-3", "d-2"), d("d-4", "d-3"), d("d-2", "d-1")}})
			cs = append(cs, Case{Kind: "user", I: 1000400 + mi, Defs: []UDef{d("e-0"), d("e-1", "e-0"), d("e-2", "e-1"), d("e-1")}})
			cs = append(cs, Case{Kind: "user", I: 1000500 + mi, Defs: []UDef{d("f-0"), d("f-1"), d("f-2", "f-0"), d("f-3", "f-2"), d("f-2", "f-1"), d("f-2"), d("f-2", "f-0")}})
			// the root of a chain is defined again unchanged
			cs = append(cs, Case{Kind: "user", I: 1000600 + mi, Defs: []UDef{d("g-0"), d("g-1", "g-0"), d("g-2", "g-1"), d("g-0")}})
		}
		if meta == "class" {
			d := func(name string, supers ...string) UDef {
				return UDef{Name: p + name, Meta: meta, Supers: prefixed(p, supers)}
			}
			// a leaf gains a second supertype; a diamond loses one side
			cs = append(cs, Case{Kind: "user", I: 1000700 + mi, Defs: []UDef{d("h-0"), d("h-1"), d("h-2", "h-0"), d("h-3", "h-2"), d("h-2", "h-1", "h-0")}})
			cs = append(cs, Case{Kind: "user", I: 1000800 + mi, Defs: []UDef{d("i-0"), d("i-1", "i-0"), d("i-2", "i-0"), d("i-3", "i-2", "i-1"), d("i-4", "i-3"), d("i-3", "i-1")}})
		}
	}
	return cs
}

func prefixed(p string, names []string) []string {
	var out []string
	for _, n := range names {
		out = append(out, p+n)
	}
	return out
}

var userDefined = map[string]bool{}

func execUser(x *fw.Ctx, c Case) {
	if len(c.Defs) == 0 {
		x.Trivial()
		return
	}
	scope := slip.NewScope()
	meta := c.Defs[0].Meta
	x.Cover("user-meta:" + meta)
	// the harness's own supertype relation: reflexive-transitive closure of
	// the declared supers, the LAST definition of a name counting
	first := map[string]int{} // position of the first definition of a name
	var names []string        // in order of first definition
	final := map[string]UDef{}
	redefs := 0
	for k, d := range c.Defs {
		if d.Meta != meta {
			x.Trivial()
			return
		}
		if _, seen := first[d.Name]; seen {
			if meta != "class" && meta != "cond" {
				x.Trivial() // only standard classes and conditions are redefinable
				return
			}
			redefs++
		} else {
			first[d.Name] = k
			names = append(names, d.Name)
		}
		for _, s := range d.Supers {
			j, ok := first[s]
			if !ok || first[d.Name] <= j { // supers come from names first defined earlier: no cycles
				x.Trivial()
				return
			}
		}
		final[d.Name] = d
	}
	ancOf := map[string]map[string]bool{}
	for _, n := range names {
		a := map[string]bool{n: true}
		for _, s := range final[n].Supers {
			for t := range ancOf[s] {
				a[t] = true
			}
		}
		ancOf[n] = a
	}
	if 0 < redefs {
		x.Cover("user-history:with-redefinition")
		x.CoverN("user-redefinitions:"+meta, redefs)
	}
	fail := func(check, format string, a ...any) {
		x.Fail("user meta="+meta+" check="+check, format, a...)
	}
	// instances made before a later redefinition ("old" instances)
	old := map[string]slip.Object{}
	replayed := false
	for k, d := range c.Defs {
		gk := fmt.Sprintf("%s#%d", d.Name, k)
		if userDefined[gk] {
			replayed = true
			continue // replay in the same process
		}
		if _, err := sl.Eval(scope, d.src(k)); err != nil {
			fail("define", "%s => %s", d.src(k), fmtErr(err))
			return
		}
		userDefined[gk] = true
		x.Cover("user-defined:" + meta)
		if first[d.Name] != k {
			x.Cover("user-redefined:" + meta)
		}
		if 0 < redefs && first[d.Name] == k {
			if inst, err := sl.Eval(scope, d.instSrc()); err == nil {
				old[d.Name] = inst
			}
		}
	}
	if replayed {
		old = map[string]slip.Object{}
	}
	// the definitions the checks below run over: one per name, the final one
	var defs []UDef
	anc := make([]map[string]bool, 0, len(names))
	for _, n := range names {
		defs = append(defs, final[n])
		anc = append(anc, ancOf[n])
	}
	allDefs := c.Defs
	c.Defs = defs
	// an instance made before the redefinitions is an instance of the class as
	// it is now (standard classes: the language definition has instances
	// updated; conditions are only required to stay coherent, which the
	// relation checks of the fresh instances and the registry cover)
	if meta == "class" {
		for k, d := range defs {
			inst, has := old[d.Name]
			if !has {
				continue
			}
			scope.Let(symX, inst)
			for _, e := range defs {
				want := anc[k][e.Name]
				v, terr := typepOf(scope, e.Name)
				x.Cover("user-old-instance-typep-checked")
				// what the real subtypep says about (type-of x) and the type
				scope.Let(slip.Symbol("t2"), slip.Symbol(e.Name))
				sres, serr := sl.Eval(scope, "(list (type-of x) (subtypep (type-of x) t2))")
				sl2, _ := sres.(slip.List)
				if serr != nil || len(sl2) != 2 {
					continue
				}
				if ts, ok := sl2[0].(slip.Symbol); !ok || !strings.EqualFold(string(ts), d.Name) {
					continue
				}
				sv, _ := truth(sl2[1])
				if terr == nil && v != want && sv == want {
					if want {
						fail("typep-old-instance-ancestor", "x = an instance of %s made before %s was defined again: (type-of x) is %s and (subtypep '%s '%s) is t, but (typep x '%s) => nil [%s]",
							d.Name, d.Name, d.Name, d.Name, e.Name, e.Name, defsSrc(allDefs))
					} else {
						fail("typep-old-instance-unrelated", "x = an instance of %s made before %s was defined again: (typep x '%s) => t, but (type-of x) is %s and (subtypep '%s '%s) is nil [%s]",
							d.Name, d.Name, e.Name, d.Name, d.Name, e.Name, defsSrc(allDefs))
					}
				}
			}
		}
	}
	var defsText []string
	for k, d := range allDefs {
		defsText = append(defsText, d.src(k))
	}
	ctx := strings.Join(defsText, " ")
	for k, d := range c.Defs {
		inst, err := sl.Eval(scope, d.instSrc())
		if err != nil {
			fail("make", "%s => %s [%s]", d.instSrc(), fmtErr(err), ctx)
			continue
		}
		scope.Let(symX, inst)
		x.Cover("user-instance:" + meta)
		// type-of
		res, err := sl.Eval(scope, "(type-of x)")
		if err != nil {
			fail("type-of", "(type-of %s) => %s", d.instSrc(), fmtErr(err))
		} else if ts, ok := res.(slip.Symbol); !ok || !strings.EqualFold(string(ts), d.Name) {
			fail("type-of", "(type-of %s) => %s [%s]", d.instSrc(), sl.Show(res), ctx)
		}
		// typep and subtypep against every definition of the case
		for _, e := range c.Defs {
			want := anc[k][e.Name]
			v, terr := typepOf(scope, e.Name)
			x.Cover("user-typep-checked")
			switch {
			case terr != nil:
				fail("typep-error", "(typep %s '%s) => %s", d.instSrc(), e.Name, fmtErr(terr))
			case v != want && want:
				fail("typep-ancestor", "(typep %s '%s) => nil although %s is a supertype of %s [%s]", d.instSrc(), e.Name, e.Name, d.Name, ctx)
			case v != want:
				fail("typep-unrelated", "(typep %s '%s) => t although %s is not a supertype of %s [%s]", d.instSrc(), e.Name, e.Name, d.Name, ctx)
			}
			scope.Let(slip.Symbol("t1"), slip.Symbol(d.Name))
			scope.Let(slip.Symbol("t2"), slip.Symbol(e.Name))
			sres, serr := sl.Eval(scope, "(multiple-value-list (subtypep t1 t2))")
			x.Cover("user-subtypep-checked")
			if serr != nil {
				fail("subtypep-error", "(subtypep '%s '%s) => %s", d.Name, e.Name, fmtErr(serr))
			} else {
				sv := false
				if l, ok := sres.(slip.List); ok && 0 < len(l) {
					sv, _ = truth(l[0])
				}
				switch {
				case sv != want && want:
					fail("subtypep-ancestor", "(subtypep '%s '%s) => nil although %s is a supertype of %s [%s]", d.Name, e.Name, e.Name, d.Name, ctx)
				case sv != want:
					fail("subtypep-unrelated", "(subtypep '%s '%s) => t although %s is not a supertype of %s [%s]", d.Name, e.Name, e.Name, d.Name, ctx)
				}
			}
		}
		// the kind's own base types, and t
		for _, b := range append(append([]string{}, metaBase[meta]...), "t") {
			if v, e := typepOf(scope, b); e != nil || !v {
				fail("typep-base:"+b, "(typep %s '%s) is not t", d.instSrc(), b)
			}
		}
		// class precedence list: holds every ancestor, and the instance is typep of every member
		scope.Let(slip.Symbol("t1"), slip.Symbol(d.Name))
		if r, e := sl.Eval(scope, "(class-precedence (find-class t1))"); e != nil {
			fail("cpl-error", "(class-precedence (find-class '%s)) => %s", d.Name, fmtErr(e))
		} else {
			in := map[string]bool{}
			if rl, ok := r.(slip.List); ok {
				for _, s := range rl {
					name := ""
					switch ts := s.(type) {
					case slip.Symbol:
						name = strings.ToLower(string(ts))
					case slip.Class:
						name = strings.ToLower(ts.Name())
					}
					if name == "" {
						continue
					}
					in[name] = true
					x.Cover("user-cpl-member-checked")
					if v, e := typepOf(scope, name); e != nil || !v {
						fail("typep-cpl", "%s is in the class precedence list of %s but (typep %s '%s) is not t [%s]", name, d.Name, d.instSrc(), name, ctx)
					}
				}
			}
			for a := range anc[k] {
				if !in[a] {
					fail("cpl-misses-ancestor", "the class precedence list of %s does not hold its supertype %s: %s [%s]", d.Name, a, sl.Show(r), ctx)
				}
			}
		}
		if meta == "struct" {
			if v, e := typepOf(scope, "structure-object"); e == nil && v {
				x.Cover("struct-is-structure-object")
			} else {
				x.Cover("struct-is-not-typep-structure-object")
			}
		}
	}
	x.Observe(map[string]any{"definitions": defsText})
}

func defsSrc(defs []UDef) string {
	var t []string
	for k, d := range defs {
		t = append(t, d.src(k))
	}
	return strings.Join(t, " ")
}
