package c16

import (
	"fmt"
	"math/rand/v2"

	"verif/internal/fw"
)

// universe is the fixed object universe of the deterministic block: value
// families with deliberate near-collisions. The order is part of the case
// identity (case "row i" is about universe[i]).
var universe = buildUniverse()

const (
	p70  = "1180591620717411303424" // 2^70
	p64  = "18446744073709551616"   // 2^64
	p53  = "9007199254740992"       // 2^53
	p53b = "9007199254740993"       // 2^53+1
)

func buildUniverse() []Obj {
	var u []Obj
	add := func(o ...Obj) { u = append(u, o...) }
	// numbers: equal values in different representations, and each pointer
	// representation built twice
	add(fix(1), fix(1), num("single", "1.0"), num("double", "1.0"), num("long", "1.0"))
	add(num("ratio", "1/2"), num("ratio", "1/2"), num("single", "0.5"), num("double", "0.5"), num("long", "0.5"))
	add(num("big", p70), num("big", p70), num("double", p70+".0"), num("long", p70+".0"))
	add(fix(0), num("double", "0.0"), num("single", "0.0"))
	add(fix(2), num("double", "2.0"), fix(3), fix(-1), num("double", "-1.0"), fix(65), fix(97))
	add(num("double", "1.5"), num("single", "1.5"), num("ratio", "3/2"), num("long", "1.5"), num("long", "1.5"))
	add(num("single", "0.1"), num("double", "0.1"), num("double", "0.1"), num("ratio", "1/8"), num("double", "0.125"))
	add(num("big", p64), num("double", p64+".0"), fix(100), num("single", "100.0"))
	// a single-float that is no dyadic fraction of few bits and the double-float of exactly its
	// value (what coerce gives): equal under every predicate that compares numbers by value
	add(num("double", "0.100000001490116119384765625"), num("single", "2.7"), num("double", "2.7000000476837158203125"), num("double", "2.7"),
		list(num("single", "0.1"), fix(1)), list(num("double", "0.100000001490116119384765625"), fix(1)))
	// characters and strings differing in case; characters vs one-char strings
	add(chr("a"), chr("A"), chr("a"), chr("b"), chr("1"), chr("é"), chr("É"))
	add(str("a"), str("A"), str("a"), str("b"), str(""), str(""), str("abc"), str("ABC"), str("aBc"), str("abc"),
		str("1"), str("é"), str("É"), str("nil"), str("t"), str("abd"), str("ab"), str("az"), str("AZ"), list(str("fizz"), fix(1)), list(str("FIZZ"), fix(1)))
	// symbols
	add(sym("a"), sym("a"), sym("b"), sym("abc"), key("a"), key("abc"), objT, objNil, objNil, sym("nil1"))
	// lists built twice, differing in number representation, case, length, tail
	l12 := list(fix(1), fix(2))
	add(l12, l12, list(fix(1), num("double", "2.0")), list(num("single", "1.0"), fix(2)), list(fix(1), fix(2), fix(3)), list(fix(1)),
		list(fix(2), fix(1)))
	add(list(str("a"), str("b")), list(str("A"), str("B")), list(chr("a")), list(chr("A")), list(sym("a"), sym("b")), list(sym("a"), sym("b")))
	add(list(l12, fix(3)), list(l12, fix(3)), list(list(fix(1), num("double", "2.0")), fix(3)), list(vec(fix(1), fix(2)), fix(3)))
	add(dot(fix(1), fix(2)), dot(fix(1), fix(2)), dot(fix(1), num("double", "2.0")), dot(fix(1), fix(2), fix(3)), dot(fix(1), chr("a")), dot(fix(1), chr("A")))
	add(list(objNil), list(objNil, objNil), list(fix(1), list(fix(2), list(fix(3)))), list(fix(1), list(fix(2), list(fix(3)))),
		list(str("a"), list(chr("a"), num("double", "1.0"))), list(str("A"), list(chr("A"), fix(1))))
	add(list(num("big", p70)), list(num("big", p70)), list(num("ratio", "1/2")), list(num("double", "0.5")))
	// vectors
	v12 := vec(fix(1), fix(2))
	add(v12, v12, vec(fix(1), num("double", "2.0")), vec(fix(1), fix(2), fix(3)), vec(), vec(), vec(fix(1)))
	add(vec(chr("a"), chr("b")), vec(chr("A"), chr("B")), vec(str("a")), vec(str("A")), vec(l12), vec(l12), vec(v12), vec(v12))
	add(vec(fix(1), list(fix(2), str("x"))), vec(num("double", "1.0"), list(fix(2), str("X"))), vec(sym("a")), vec(objNil))
	add(str("ab"), vec(chr("a"), chr("b")), list(chr("a"), chr("b")))
	// objects only their identity is known of
	add(opq("(lambda (x) x)"), opq("(lambda (x) x)"), opq("(function car)"),
		opq("*package*"), opq("(make-instance 'c16-pt :x 1)"), opq("(make-instance 'c16-pt :x 1)"), opq("(make-instance 'c16-fl)"),
		opq("(find-class 'fixnum)"))
	// hash tables with content (equalp descends into them)
	add(tab(), tab(), tab(fix(1), str("a")), tab(fix(1), str("a")), tab(fix(1), str("A")), tab(fix(1), str("a"), sym("x"), fix(2)),
		tab(sym("x"), fix(2), fix(1), str("a")), tab(str("k"), l12), tab(str("k"), list(fix(1), num("double", "2.0"))), tab(str("k"), list(fix(1), fix(3))),
		tab(str("K"), l12), tab(chr("c"), chr("a")), tab(chr("c"), chr("A")))
	// 2-dimensional arrays and instances (equalp descends into them)
	add(arr("2x2", fix(1), fix(2), fix(3), fix(4)), arr("2x2", fix(1), fix(2), fix(3), fix(4)), arr("2x2", fix(1), fix(2), fix(3), num("double", "4.0")),
		arr("2x2", fix(1), fix(2), fix(3), fix(5)), arr("1x4", fix(1), fix(2), fix(3), fix(4)), arr("4x1", fix(1), fix(2), fix(3), fix(4)),
		arr("1x2", str("a"), chr("b")), arr("1x2", str("A"), chr("B")), vec(fix(1), fix(2), fix(3), fix(4)))
	add(inst("c16-k", str("a")), inst("c16-k", str("a")), inst("c16-k", str("A")), inst("c16-k", str("b")), inst("c16-k2", str("a")),
		inst("c16-k", fix(1)), inst("c16-k", num("double", "1.0")), inst("c16-k", l12), inst("c16-k", l12), inst("c16-k", list(fix(1), fix(3))))
	// values that differ but collide once converted to a float format
	add(num("fix", p53b), num("double", p53+".0"), num("fix", p53), num("ratio", "1/10"), num("double", "0.1"),
		num("ratio", "1/3"), num("double", "0.3333333333333333"), fix(16777217), num("single", "16777216.0"), fix(16777216),
		num("big", "1180591620717411303425"), num("long", p70+".5"))
	add(list(num("fix", p53b)), list(num("double", p53+".0")), vec(num("ratio", "1/10")), vec(num("double", "0.1")),
		dot(fix(1), num("ratio", "1/3")), dot(fix(1), num("double", "0.3333333333333333")))
	// ... and the same three-way collision inside every container equal/equalp descends into
	f24, s24, g24 := fix(16777216), num("single", "16777216.0"), fix(16777217)
	for _, w := range []func(Obj) Obj{
		func(o Obj) Obj { return vec(o) },
		func(o Obj) Obj { return list(vec(o)) },
		func(o Obj) Obj { return list(o, fix(2)) },
		func(o Obj) Obj { return arr("1x1", o) },
		func(o Obj) Obj { return inst("c16-k", o) },
		func(o Obj) Obj { return tab(fix(1), o) },
	} {
		add(w(f24), w(s24), w(g24))
	}
	// the other number representations: complex, and the integer objects only
	// coerce makes (octet, signed-byte, unsigned-byte, bit), each built twice,
	// against the fixnum / float / bignum of the same value and a neighbour
	cx := func(v string) Obj { return num("complex", v) }
	add(cx("1 0"), cx("1 0"), cx("1 2"), cx("1 2"), cx("1 3"), cx("2 2"), cx("0.5 0"), cx("0 0"), cx("0 1"), cx("-1 0"), cx(p53+" 0"))
	add(num("octet", "1"), num("octet", "1"), num("octet", "0"), num("octet", "65"), num("octet", "97"), num("octet", "255"), fix(255))
	add(num("sbyte", "1"), num("sbyte", "1"), num("sbyte", "-1"), num("sbyte", "65"), num("sbyte", "0"), num("sbyte", p70), num("sbyte", "-"+p64))
	add(num("ubyte", "1"), num("ubyte", "1"), num("ubyte", "65"), num("ubyte", "0"), num("ubyte", p70), num("big", "-"+p64))
	add(num("bit", "1"), num("bit", "1"), num("bit", "0"))
	add(list(num("octet", "1")), list(cx("1 0")), vec(num("sbyte", "1")), vec(num("ubyte", "1")), list(num("bit", "1")), dot(fix(1), num("octet", "65")),
		list(cx("1 2"), str("a")), list(cx("1 2"), str("A")), tab(fix(1), num("sbyte", "1")), inst("c16-k", num("octet", "1")))
	// bit vectors and octets vectors (vectors of bits / of integers), built twice, against general vectors, strings and lists of the same elements
	bv := func(v string) Obj { return Obj{K: "bitv", V: v} }
	oc := func(v string) Obj { return Obj{K: "octs", V: v} }
	add(bv("101"), bv("101"), bv("100"), bv("1010"), bv(""), bv(""), vec(fix(1), fix(0), fix(1)), list(fix(1), fix(0), fix(1)), vec(num("bit", "1"), num("bit", "0"), num("bit", "1")))
	add(oc("ab"), oc("ab"), oc("AB"), oc("ac"), oc("a"), oc(""), vec(fix(97), fix(98)), list(fix(97), fix(98)), vec(num("octet", "97"), num("octet", "98")),
		list(bv("101"), oc("ab")), list(bv("101"), oc("ab")), list(bv("100"), oc("ab")), vec(oc("ab")), vec(oc("ab")))
	// equal numbers in two of the coerce-made representations inside every container equal/equalp descends into
	for _, w := range []func(Obj) Obj{
		func(o Obj) Obj { return vec(o) },
		func(o Obj) Obj { return list(vec(o)) },
		func(o Obj) Obj { return dot(vec(o), fix(2)) },
		func(o Obj) Obj { return arr("1x1", o) },
		func(o Obj) Obj { return inst("c16-k", o) },
		func(o Obj) Obj { return tab(fix(1), o) },
	} {
		add(w(num("sbyte", "5")), w(num("double", "5.0")), w(num("octet", "200")), w(num("ubyte", "200")))
	}
	// the empty list reached through operations (the object nil through other routes)
	nilBy := func(src string) Obj { return Obj{K: "nil", V: src} }
	add(nilBy("(list)"), nilBy("(cdr (list 1))"), nilBy("(quote ())"), nilBy("(remove 1 (list 1))"), nilBy("(coerce \"\" (quote list))"), nilBy("(reverse nil)"),
		list(fix(1), nilBy("(cdr (list 1))")), list(fix(1), objNil), vec(nilBy("(list)")), dot(fix(1), str("x")), list(sym("nil1"), objNil))
	// tables holding nil values: same size, other keys; a stored nil against no entry
	add(tab(fix(1), objNil), tab(fix(1), objNil), tab(fix(2), objNil), tab(sym("x"), objNil, fix(1), str("a")), tab(sym("y"), objNil, fix(1), str("a")),
		tab(fix(1), objNil, fix(2), objNil), tab(fix(1), objNil, fix(3), objNil), tab(fix(1), fix(0)), tab(str("k"), objNil), tab(chr("k"), objNil),
		inst("c16-k", objNil), inst("c16-k", objNil), inst("c16-k2", objNil), vec(objNil, objNil), arr("1x1", objNil), arr("1x2", objNil, objNil))
	return u
}

// ---- seeded small universes ------------------------------------------------

var numFamilies = [][]Obj{
	{fix(1), num("single", "1.0"), num("double", "1.0"), num("long", "1.0"), num("bit", "1")},
	{num("ratio", "1/2"), num("single", "0.5"), num("double", "0.5"), num("long", "0.5")},
	{fix(2), num("double", "2.0"), num("single", "2.0")},
	{fix(-3), num("single", "-3.0"), num("long", "-3.0")},
	{num("big", p70), num("double", p70+".0"), num("long", p70+".0")},
	{num("ratio", "3/4"), num("double", "0.75"), num("single", "0.75")},
	{fix(0), num("double", "0.0"), num("single", "0.0"), num("bit", "0")},
	{fix(10), num("long", "10.0"), num("double", "10.0")},
	{num("ratio", "-7/8"), num("double", "-0.875")},
	{num("big", "-"+p64), num("double", "-"+p64+".0")},
	{fix(7)}, {num("double", "2.25")}, {num("ratio", "5/3")},
	// near misses: different values that collide once converted to a float format
	{num("fix", p53b)}, {num("fix", p53), num("double", p53+".0")}, {num("ratio", "1/10")}, {num("double", "0.1")}, {num("single", "0.1")},
	{num("ratio", "1/3")}, {num("double", "0.3333333333333333")}, {fix(16777217)}, {fix(16777216), num("single", "16777216.0")},
	// the representations only coerce makes, and complex
	{fix(5), num("octet", "5"), num("sbyte", "5"), num("ubyte", "5"), num("double", "5.0")},
	{fix(-6), num("sbyte", "-6"), num("single", "-6.0")},
	{fix(200), num("octet", "200"), num("ubyte", "200")},
	{num("complex", "1 2")}, {num("complex", "1 -2")}, {num("complex", "4 0"), fix(4), num("double", "4.0")},
}

// nearMiss maps a number to values that differ from it but collide with it
// under a lossy conversion; used to derive related objects.
var nearMiss = map[string][]Obj{
	"fix:" + p53b:               {num("double", p53+".0"), num("fix", p53)},
	"fix:" + p53:                {num("fix", p53b)},
	"double:" + p53 + ".0":      {num("fix", p53b)},
	"ratio:1/10":                {num("double", "0.1"), num("single", "0.1")},
	"double:0.1":                {num("ratio", "1/10"), num("single", "0.1")},
	"single:0.1":                {num("ratio", "1/10"), num("double", "0.1")},
	"ratio:1/3":                 {num("double", "0.3333333333333333")},
	"double:0.3333333333333333": {num("ratio", "1/3")},
	"fix:16777217":              {num("single", "16777216.0"), fix(16777216)},
	"fix:16777216":              {fix(16777217)},
	"single:16777216.0":         {fix(16777217)},
}

func nearOf(r *rand.Rand, o Obj) Obj {
	if len(o.C) == 0 {
		if n := nearMiss[o.K+":"+o.V]; n != nil {
			return fw.Pick(r, n)
		}
		return o
	}
	kids := make([]Obj, len(o.C))
	for i, c := range o.C {
		if o.K == "tab" && i%2 == 0 {
			kids[i] = c
			continue
		}
		kids[i] = nearOf(r, c)
	}
	return o.withC(kids)
}

var strFamilies = [][]Obj{
	{str("a"), str("A")}, {str("abc"), str("ABC"), str("Abc")}, {str("x1"), str("X1")}, {str("")}, {str("é"), str("É")},
	{str("b")}, {str("hello world"), str("Hello World")}, {str("fizz"), str("FIZZ"), str("fiZz")},
}

var charFamilies = [][]Obj{
	{chr("a"), chr("A")}, {chr("z"), chr("Z")}, {chr("é"), chr("É")}, {chr("1")}, {chr("b"), chr("B")},
}

var symFamilies = [][]Obj{
	{sym("a")}, {sym("b")}, {sym("foo")}, {key("a")}, {key("foo")}, {objNil, {K: "nil", V: "(list)"}, {K: "nil", V: "(cdr (list 1))"}}, {objT},
}

var allFamilies = func() [][]Obj {
	var f [][]Obj
	f = append(f, numFamilies...)
	f = append(f, strFamilies...)
	f = append(f, charFamilies...)
	f = append(f, symFamilies...)
	return f
}()

func familyOf(o Obj) []Obj {
	for _, f := range allFamilies {
		for _, m := range f {
			if m.K == o.K && m.V == o.V {
				return f
			}
		}
	}
	return nil
}

func randAtom(r *rand.Rand) Obj {
	switch r.IntN(10) {
	case 0, 1, 2, 3:
		return fw.Pick(r, fw.Pick(r, numFamilies))
	case 4, 5:
		return fw.Pick(r, fw.Pick(r, strFamilies))
	case 6, 7:
		return fw.Pick(r, fw.Pick(r, charFamilies))
	}
	return fw.Pick(r, fw.Pick(r, symFamilies))
}

func randObj(r *rand.Rand, depth int) Obj {
	k := r.IntN(10)
	if depth <= 0 || k < 4 {
		return randAtom(r)
	}
	n := 1 + r.IntN(3)
	kids := make([]Obj, n)
	for i := range kids {
		kids[i] = randObj(r, depth-1)
	}
	switch {
	case k < 7:
		return list(kids...)
	case k < 8 && r.IntN(3) == 0:
		return inst(fw.Pick(r, []string{"c16-k", "c16-k", "c16-k2"}), kids[0])
	case k < 8 && r.IntN(3) == 0:
		if n == 3 {
			kids = append(kids, randAtom(r))
		}
		switch d := r.IntN(3); {
		case d == 0 && len(kids) == 4:
			return arr("2x2", kids...)
		case d == 1:
			return arr(fmt.Sprintf("%dx1", len(kids)), kids...)
		}
		return arr(fmt.Sprintf("1x%d", len(kids)), kids...)
	case k < 8 && r.IntN(2) == 0:
		keys := []Obj{fix(1), str("k"), sym("x"), chr("c")}
		var c []Obj
		for i, v := range kids {
			c = append(c, keys[i], v)
		}
		return tab(c...)
	case k < 9:
		return vec(kids...)
	}
	tail := randAtom(r)
	for tail.K == "nil" {
		tail = randAtom(r)
	}
	return dot(append(kids, tail)...)
}

// sibling replaces atoms by members of the same value family (the result is
// equalp to the original, and equal/eql to it or not depending on the member).
func sibling(r *rand.Rand, o Obj, p int) Obj {
	if o.K == "tab" {
		kids := append([]Obj{}, o.C...)
		for i := 1; i < len(kids); i += 2 {
			kids[i] = sibling(r, kids[i], p)
		}
		return o.withC(kids)
	}
	if len(o.C) == 0 {
		if f := familyOf(o); f != nil && r.IntN(p) == 0 {
			return fw.Pick(r, f)
		}
		return o
	}
	kids := make([]Obj, len(o.C))
	for i, c := range o.C {
		kids[i] = sibling(r, c, p)
	}
	return o.withC(kids)
}

func mutate(r *rand.Rand, o Obj) Obj {
	if n := nearOf(r, o); r.IntN(2) == 0 && n.Src() != o.Src() {
		return n
	}
	switch r.IntN(8) {
	case 0, 1:
		return o // rebuilt copy: same description, another object
	case 2, 3:
		return sibling(r, o, 1)
	case 4:
		return sibling(r, o, 2)
	case 5: // another container kind
		switch o.K {
		case "list":
			return Obj{K: "vec", C: o.C}
		case "vec":
			if 0 < len(o.C) {
				return Obj{K: "list", C: o.C}
			}
		}
		return sibling(r, o, 2)
	case 6: // one more or one less element
		switch o.K {
		case "list", "vec":
			if 1 < len(o.C) && r.IntN(2) == 0 {
				return o.withC(append([]Obj{}, o.C[:len(o.C)-1]...))
			}
			return o.withC(append(append([]Obj{}, o.C...), randAtom(r)))
		}
		return randAtom(r)
	}
	// change one leaf to something of another family
	if len(o.C) == 0 {
		return randAtom(r)
	}
	kids := append([]Obj{}, o.C...)
	i := r.IntN(len(kids))
	if o.K == "tab" {
		i |= 1 // values only: keys stay distinct
	}
	if o.K == "dot" && i == len(kids)-1 {
		i = 0
	}
	kids[i] = mutate(r, kids[i])
	if kids[i].K == "nil" && o.K == "dot" && i == len(kids)-1 {
		kids[i] = fix(9)
	}
	return o.withC(kids)
}

func genMini(r *rand.Rand) []Obj {
	var objs []Obj
	bases := 2 + r.IntN(2)
	for b := 0; b < bases; b++ {
		base := randObj(r, 1+r.IntN(3))
		objs = append(objs, base)
		m1 := mutate(r, base)
		objs = append(objs, m1)
		if r.IntN(2) == 0 {
			objs = append(objs, mutate(r, m1))
		}
		if r.IntN(2) == 0 {
			objs = append(objs, mutate(r, base))
		}
	}
	return objs
}
