// Package c16 monitors the coherence of equality (eq, eql, equal, equalp),
// hashing (sxhash, hash tables) and type predicates (type-of, typep,
// subtypep, coerce) of the real interpreter.
package c16

import (
	"math/rand/v2"

	"github.com/ohler55/slip"

	"verif/internal/fw"
	"verif/internal/sl"
)

// Case is one unit of work.
//
//	row  : object I of the fixed universe against every object of it
//	mini : a seeded small universe of related objects, all pairs and triples
//	hist : a hash-table history
//	big  : a table of I keys of kind Ty driven through a fixed script (sizes around the growth points of a map)
//	type : one object against every type symbol of the class registry, and coerce
//	sub  : rows I, I+subRows, ... of the subtypep matrix over the class registry
//	coerce : one source object x one documented coerce target (deterministic grid)
//	ccoerce : row I of the grid of compound type specifiers as coerce targets
//	user : freshly defined classes / flavors / conditions / structures (Defs) and an instance of each
type Case struct {
	Kind string `json:"kind"`
	I    int    `json:"i,omitempty"`
	Objs []Obj  `json:"objs,omitempty"`
	Test string `json:"test,omitempty"`
	Haz  string `json:"haz,omitempty"`
	Ops  []Op   `json:"ops,omitempty"`
	Ty   string `json:"ty,omitempty"`
	Defs []UDef `json:"defs,omitempty"`
}

const subRows = 64

type plan struct {
	rows, sub, typeFixed, histProbe, coerceGrid, userFixed, sweep, histExh2, histExh, twoTab, big, compound, typeSeeded, user, mini, hist int
	depth, depth2                                                                                                                         int
}

func planOf(tier string) plan {
	p := plan{rows: len(universe), sub: subRows, typeFixed: len(typeObjects()), histProbe: len(probeHistories()),
		coerceGrid: len(coerceSources) * len(coerceTargets), userFixed: len(fixedUserCases()), sweep: len(sweepHistories()),
		twoTab: len(twoTableHistories()), big: len(bigCases()), compound: len(compoundGrid)}
	if tier == "thorough" {
		p.depth, p.depth2 = 4, 3
		p.typeSeeded = 1500
		p.user = 6000
		p.mini = 40000
		p.hist = 100000
	} else {
		p.depth, p.depth2 = 3, 2
		p.typeSeeded = 150
		p.user = 600
		p.mini = 5000
		p.hist = 12000
	}
	p.histExh = exhCount(p.depth) * len(tests)
	p.histExh2 = exhCount(p.depth2) * len(tests)
	return p
}

func nCases(tier string) int {
	p := planOf(tier)
	return p.rows + p.sub + p.typeFixed + p.histProbe + p.coerceGrid + p.userFixed + p.sweep + p.histExh2 + p.histExh + p.twoTab + p.big + p.compound + p.typeSeeded + p.user + p.mini + p.hist
}

func gen(r *rand.Rand, i int, tier string) Case {
	p := planOf(tier)
	if i < p.rows {
		return Case{Kind: "row", I: i}
	}
	i -= p.rows
	if i < p.sub {
		return Case{Kind: "sub", I: i}
	}
	i -= p.sub
	if i < p.typeFixed {
		return Case{Kind: "type", Objs: []Obj{typeObjects()[i]}}
	}
	i -= p.typeFixed
	if i < p.histProbe {
		return probeHistories()[i]
	}
	i -= p.histProbe
	if i < p.coerceGrid {
		src := opq(coerceSources[i/len(coerceTargets)])
		if src.V == "nil" {
			src = Obj{K: "nil", V: "nil"} // (an opaque object is one that exists: nil is described as what it is)
		}
		return Case{Kind: "coerce", Objs: []Obj{src}, Ty: coerceTargets[i%len(coerceTargets)]}
	}
	i -= p.coerceGrid
	if i < p.userFixed {
		return fixedUserCases()[i]
	}
	i -= p.userFixed
	if i < p.sweep {
		return sweepHistories()[i]
	}
	i -= p.sweep
	if i < p.histExh2 {
		return exhHistory(i, p.depth2, exhKeys2)
	}
	i -= p.histExh2
	if i < p.histExh {
		return exhHistory(i, p.depth, exhKeys)
	}
	i -= p.histExh
	if i < p.twoTab {
		return twoTableHistories()[i]
	}
	i -= p.twoTab
	if i < p.big {
		return bigCases()[i]
	}
	i -= p.big
	if i < p.compound {
		return Case{Kind: "ccoerce", I: i}
	}
	i -= p.compound
	if i < p.typeSeeded {
		return Case{Kind: "type", Objs: []Obj{randObj(r, 1+r.IntN(3))}}
	}
	i -= p.typeSeeded
	if i < p.user {
		return genUser(r, i)
	}
	i -= p.user
	if i < p.mini {
		return Case{Kind: "mini", Objs: genMini(r)}
	}
	return genHistory(r)
}

func exec(x *fw.Ctx, c Case) {
	sl.Reset()
	switch c.Kind {
	case "row":
		execRow(x, c)
	case "mini":
		execMini(x, c)
	case "hist":
		execHist(x, c)
	case "big":
		execBig(x, c)
	case "type":
		execType(x, c)
	case "sub":
		execSub(x, c)
	case "coerce":
		execCoerce(x, c)
	case "ccoerce":
		execCompound(x, c)
	case "user":
		execUser(x, c)
	default:
		x.Trivial()
	}
}

// classes and flavors of the harness: instances with a non-trivial
// supertype chain, defined once per worker.
const setupSrc = `
(defclass c16-base () ((x :initarg :x)))
(defclass c16-pt (c16-base) ((y :initarg :y)))
(defclass c16-pt3 (c16-pt) ((z :initarg :z)))
(defflavor c16-fl0 (a) ())
(defflavor c16-fl (b) (c16-fl0))
(define-condition c16-cond (error) ())
(defclass c16-k () ((v :initarg :v)))
(defflavor c16-k2 ((v 1)) () :initable-instance-variables)
(defstruct c16-st a b)
(defstruct (c16-st2 (:include c16-st)) c)
`

var setupErr string

func initWorker() {
	sl.Reset()
	if _, err := sl.Eval(slip.NewScope(), setupSrc); err != nil {
		setupErr = err.String()
	}
}

func init() {
	fw.Register(fw.Spec[Case]{
		ID: "C16",
		Rule: "nine case kinds. row: object i of a fixed 325-object universe of near-collisions (equal numbers in every representation incl. complex and the integer objects only coerce makes - " +
			"octet, signed-byte, unsigned-byte, bit -, values that differ but collide after float conversion, pointer representations built twice, strings/characters differing in case, " +
			"lists/vectors/bit vectors/octets/hash tables (also with nil values and other keys)/2-d arrays/instances built twice and differing in one leaf, the empty list reached through six operations) " +
			"against every object, all four predicates in both directions, every triple through each related pair, sxhash of each equal pair, sxhash of the same object again in a new form " +
			"and after a garbage collection, and the object against itself after a trip through a list, vector, array, hash table, instance, function call, values, second variable " +
			"(exhaustive, same for every seed). " +
			"mini: a seeded universe of 4-12 objects derived from 2-3 random nested objects by copy / same-value-family substitution / float-collision substitution / one-leaf change / " +
			"container change, all pairs and triples; non-trivial = at least one related (equalp) pair of distinct objects. " +
			"hist: a hash-table history over 6 key slots, each key built twice (so that lookups use an equivalent, not the identical, key), x 5 table tests; " +
			"fixed probe histories; a sweep of 11 key sets holding every hashable kind with its near-collisions (characters and strings differing in case, one name as string/character/symbol/keyword, " +
			"octet/bit/complex numbers, nested vectors, instances of classes/flavors/structures/conditions, arrays, streams) x 2 scripts x 5 tests; every history of <= 3 (quick) / 4 (thorough) operations out of " +
			"{setf-gethash k (every third stores nil), remhash k, clrhash} over a fixed key set and of <= 2 / 3 over a second (a A #\\a 'a :a 97) (exhaustive); fixed two-table histories " +
			"(two tables from two make-hash-table calls sharing the key objects, the first also reached through a second variable; maphash functions that remove / re-store the entry they are called with; " +
			"a store whose value form fails); then seeded histories of 5-12 operations incl. gethash/maphash/hash-table-count/those three (one in four over two tables); " +
			"after EVERY operation gethash of all 12 key objects, hash-table-count and the maphash contents of every table are compared with an association-list model. " +
			"Avoided in most histories (known broken on the pinned tree, kept in a minority: 1 seeded history in 8 and the probe block): bignum/ratio/long-float/signed-byte/unsigned-byte keys, numbers equal by value " +
			"in different representations, list/empty-list-of-length-0/hash-table/octets keys. " +
			"big: tables of 0 1 7 8 9 16 17 64 65 200 1000 keys x 6 kinds of keys x 5 tests driven through one script (store all in a loop, store again through equivalent keys, remove every third, remove again, " +
			"a removing maphash, store every sixth, clrhash, store one): count, every lookup and the visited set after each step. " +
			"type: one object (fixed list incl. instances of classes, flavors, conditions, streams...; plus seeded nested objects) x every class of the registry " +
			"(enumerated at run time) for typep, subtypep agreement and class-precedence supertypes, x 27 coerce targets. " +
			"coerce: deterministic grid of 53 source objects (every documented source row, every float format integral and fractional) x 27 targets; result type judged by typep and by " +
			"representation; where the documented table (parsed from coerce's FuncDoc at run time) marks the cell supported and the value is convertible, a refusal is a failure. " +
			"ccoerce: 68 (source, compound type specifier) cells - (integer lo hi) and the other numeric heads with bounds on and next to the value, (signed-byte n), (unsigned-byte n), (vector elt n), (bit-vector n): " +
			"result typep the head and inside the specifier, no refusal of a value inside it. " +
			"user: 2-6 freshly defined standard classes / flavors / conditions / structures with random direct supertypes (fixed chain, forest, diamond per kind first), an instance of each: " +
			"type-of, typep and subtypep against every definition vs the harness's closure of the declared supertypes, base types, class precedence list; for standard classes and conditions half of the " +
			"cases (and 10 fixed ones) define 1-3 of the types AGAIN with other supertypes: the closure of the last definitions is the oracle, and instances made before the redefinition are judged for " +
			"typep/subtypep agreement. " +
			"sub: every row of the subtypep matrix over the registry: reflexive, second value, transitivity over ALL class triples (both tiers), and the same answers when the types are given as class objects.",
		N:        nCases,
		Gen:      gen,
		Exec:     exec,
		Init:     initWorker,
		Batch:    400,
		HangSecs: 120,
		Assumptions: []string{
			"the harness definition of the predicates is read off the FuncDoc texts of eq/eql/equal/equalp (slip dialect: eql/equal compare numbers by value across representations, equal/equalp compare strings case-insensitively) and ANSI CL elsewhere; where neither pins the answer the pair is only relation-checked",
			"make-hash-table documents that :test is ignored and eql is always used: the table model uses the documented eql for every :test",
			"objects are built by the real reader/evaluator and verified against their description by a harness type switch; a mismatch makes the case trivial (reader defects are C02/C03)",
		},
	})
}
