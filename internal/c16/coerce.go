package c16

import (
	"fmt"
	"regexp"
	"strings"

	"github.com/ohler55/slip"

	"verif/internal/fw"
	"verif/internal/sl"
)

// cSrc is one source object of the deterministic coerce grid: row names the
// row of the documented table the object belongs to; must lists the targets
// to which this particular value can unquestionably be converted (so that,
// where the documented table marks row x target as supported, a refusal is
// a failure and not a value-dependent "not possible").
type cSrc struct {
	src  string
	row  string
	must string // space separated
}

const numTargets = "float short-float single-float double-float long-float rational complex"

var coerceGrid = []cSrc{
	// integers
	{"3", "fixnum", "character integer fixnum octet bignum ratio signed-byte unsigned-byte bit-vector " + numTargets},
	{"1", "fixnum", "character integer fixnum octet bignum ratio signed-byte unsigned-byte bit-vector " + numTargets},
	{"0", "fixnum", "integer fixnum octet bignum signed-byte unsigned-byte " + numTargets},
	{"-7", "fixnum", "integer fixnum bignum ratio signed-byte " + numTargets},
	{"1180591620717411303424", "integer", "integer bignum rational float double-float long-float signed-byte unsigned-byte bit-vector"},
	{"(coerce 3 'octet)", "octet", "character integer fixnum octet bignum " + numTargets},
	{"(coerce 5 'signed-byte)", "signed-byte", "integer fixnum bignum signed-byte unsigned-byte bit-vector"},
	{"(coerce -5 'signed-byte)", "signed-byte", "integer fixnum bignum signed-byte"},
	{"(coerce 5 'unsigned-byte)", "unsigned-byte", "integer fixnum bignum signed-byte unsigned-byte bit-vector"},
	// every float format, integral and fractional
	{"3.0f0", "float", "character integer fixnum octet bignum ratio " + numTargets},
	{"3.0d0", "float", "character integer fixnum octet bignum ratio " + numTargets},
	{"3.0L0", "float", "integer fixnum octet bignum " + numTargets},
	{"(coerce 3 'short-float)", "float", "character integer fixnum octet bignum ratio " + numTargets},
	{"1.5f0", "float", "ratio " + numTargets},
	{"1.5d0", "float", "ratio " + numTargets},
	{"1.5L0", "float", numTargets},
	{"(coerce 1.5 'short-float)", "float", "ratio " + numTargets},
	{"0.1f0", "float", numTargets},
	{"0.1d0", "float", numTargets},
	{"-2.5d0", "float", numTargets},
	{"1/2", "ratio", "ratio " + numTargets},
	{"-7/3", "ratio", "ratio " + numTargets},
	{"#C(3 0)", "complex", "complex integer fixnum float double-float"},
	{"#C(1 2)", "complex", "complex"},
	{"#\\A", "character", "character integer fixnum octet bignum " + numTargets},
	// strings, symbols
	{"\"ab\"", "string", "list string vector octets symbol"},
	{"\"car\"", "string", "list string vector octets symbol function"},
	{"\"\"", "string", "list string vector octets symbol"},
	{"(quote ab)", "symbol", "list string vector octets symbol"},
	{"(quote car)", "symbol", "list string vector octets symbol function"},
	{":kw", "symbol", "string symbol"},
	// lists, vectors, octets, bit vectors
	{"(list #\\a #\\b)", "list", "list string vector"},
	{"(list 1 0 1)", "list", "list vector octets bit-vector"},
	{"(list 65 66)", "list", "list vector octets"},
	{"nil", "list", "list"},
	{"(vector #\\a #\\b)", "vector", "list string vector"},
	{"(vector 1 0 1)", "vector", "list vector octets bit-vector"},
	{"(vector)", "vector", "list vector octets"},
	{"(coerce \"ab\" 'octets)", "octets", "list string vector octets"},
	{"(coerce (list 1 0 1) 'octets)", "octets", "list vector octets bit-vector"},
	{"#*101", "bit-vector", "list vector octets bit-vector integer fixnum bignum signed-byte unsigned-byte"},
	{"#*", "bit-vector", "list vector bit-vector"},
	// association lists and tables
	{"(list (cons 1 2) (cons 3 4))", "assoc", "list assoc hash-table"},
	{"(list (list 'a 1) (list 'b 2))", "assoc", "list assoc hash-table"},
	{"(make-hash-table)", "hash-table", "assoc hash-table"},
	{"(let ((h (make-hash-table))) (setf (gethash 1 h) 2) (setf (gethash 'a h) \"x\") h)", "hash-table", "assoc hash-table"},
	// objects outside the table
	{"(lambda (x) x)", "", "function"},
	{"(function car)", "", "function"},
	{"(make-instance 'c16-pt :x 1)", "", ""},
	{"(make-c16-st :a 1)", "", ""},
	{"t", "", ""},
	{"@2024-01-01T00:00:00Z", "", ""},
	{"(make-array (list 2 2))", "", ""},
}

var coerceSources = func() []string {
	out := make([]string, len(coerceGrid))
	for i, g := range coerceGrid {
		out[i] = g.src
	}
	return out
}()

var coerceInfo = func() map[string]cSrc {
	m := map[string]cSrc{}
	for _, g := range coerceGrid {
		m[g.src] = g
	}
	return m
}()

// docTable is the support table of coerce, parsed at run time from the
// function's own documentation: docTable[row][target].
var (
	docTable    map[string]map[string]bool
	docTableErr string
)

var rowRe = regexp.MustCompile(`^\s*([a-z-]+)\s*\|((?:[x ]\|)+)\s*$`)

func theDocTable() map[string]map[string]bool {
	if docTable != nil || docTableErr != "" {
		return docTable
	}
	var text string
	if err := sl.Catch(func() {
		if fd := slip.DescribeFunction(slip.Symbol("coerce")); fd != nil {
			text = fd.Text
		}
	}); err != nil || text == "" {
		docTableErr = "no documentation text for coerce"
		return nil
	}
	cols := map[int]string{}
	tab := map[string]map[string]bool{}
	for _, line := range strings.Split(text, "\n") {
		if m := rowRe.FindStringSubmatch(line); m != nil {
			cells := strings.Split(strings.TrimSuffix(m[2], "|"), "|")
			row := map[string]bool{}
			for i, c := range cells {
				if name, ok := cols[i]; ok && c == "x" {
					row[name] = true
				}
			}
			tab[m[1]] = row
			continue
		}
		// header line: k times "| " then "|name"
		t := strings.TrimSpace(line)
		if strings.HasPrefix(t, "|") {
			k := strings.Count(t, "|") - 1
			name := strings.TrimSpace(t[strings.LastIndex(t, "|")+1:])
			if f := strings.Fields(name); 0 < len(f) && len(tab) == 0 { // the header comes before the rows
				cols[k] = f[0]
			}
		}
	}
	if len(tab) < 10 || len(cols) < 20 {
		docTableErr = fmt.Sprintf("coerce documentation table not understood (%d rows, %d columns)", len(tab), len(cols))
		return nil
	}
	docTable = tab
	return docTable
}

func execCoerce(x *fw.Ctx, c Case) {
	if setupErr != "" {
		x.Fail("harness registry", "setup failed: %s", setupErr)
		return
	}
	if len(c.Objs) != 1 || c.Ty == "" {
		x.Trivial()
		return
	}
	tab := theDocTable()
	if tab == nil {
		x.Fail("harness doc-table", "%s", docTableErr)
		return
	}
	scope := slip.NewScope()
	h, err := build(scope, c.Objs[0])
	if err != nil || !h.okay {
		x.Cover("type-object-unbuildable")
		x.Trivial()
		x.Observe(map[string]any{"src": c.Objs[0].Src(), "build": fmt.Sprint(err)})
		return
	}
	src := c.Objs[0].Text()
	kind := sl.Kind(h.obj)
	scope.Let(symX, h.obj)
	info := coerceInfo[c.Objs[0].V]
	x.Cover("grid-source-kind:" + kind)
	x.Cover("grid-target:" + c.Ty)
	x.Cover("grid-cell:" + kind + "->" + c.Ty)
	returned, cerr := judgeCoerce(x, scope, h, src, kind, c.Ty)
	documented := c.Ty == "t" || (info.row != "" && tab[info.row][c.Ty])
	if documented {
		x.Cover("grid:documented-as-supported")
	}
	must := c.Ty == "t"
	for _, m := range strings.Fields(info.must) {
		if m == c.Ty {
			must = true
		}
	}
	if must && documented {
		x.Cover("grid:must-convert")
		if !returned && cerr != nil && !cerr.Internal {
			x.Fail(fmt.Sprintf("coerce-refused row=%s target=%s", info.row, c.Ty),
				"(coerce %s '%s) => %s, although the documented table marks %s -> %s as supported and this value is convertible", src, c.Ty, fmtErr(cerr), info.row, c.Ty)
		}
	}
	if !returned && !documented {
		x.Cover("grid:refused-and-not-documented")
	}
	if returned && !documented && c.Ty != "bit" && c.Ty != "byte" {
		x.Cover("grid:returned-though-not-documented")
	}
	x.Observe(map[string]any{"source": src, "target": c.Ty, "returned": returned, "documented": documented})
}
