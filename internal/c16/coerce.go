package c16

import (
	"fmt"
	"math"
	"math/big"
	"regexp"
	"strings"

	"github.com/ohler55/slip"

	"verif/internal/fw"
	"verif/internal/sl"
)

// cSrc is one source object of the deterministic coerce grid: row names the
// row of the documented table the object belongs to; must lists the targets
// to which this particular value can unquestionably be converted (so that,
// where the documented table marks row x target as supported, a refusal is
// a failure and not a value-dependent "not possible").
type cSrc struct {
	src  string
	row  string
	must string // space separated
}

const numTargets = "float short-float single-float double-float long-float rational complex"

var coerceGrid = []cSrc{
	// integers
	{"3", "fixnum", "character integer fixnum octet bignum ratio signed-byte unsigned-byte bit-vector " + numTargets},
	{"1", "fixnum", "character integer fixnum octet bignum ratio signed-byte unsigned-byte bit-vector " + numTargets},
	{"0", "fixnum", "integer fixnum octet bignum signed-byte unsigned-byte " + numTargets},
	{"-7", "fixnum", "integer fixnum bignum ratio signed-byte " + numTargets},
	{"1180591620717411303424", "integer", "integer bignum rational float double-float long-float signed-byte unsigned-byte bit-vector"},
	{"(coerce 3 'octet)", "octet", "character integer fixnum octet bignum " + numTargets},
	{"(coerce 5 'signed-byte)", "signed-byte", "integer fixnum bignum signed-byte unsigned-byte bit-vector"},
	{"(coerce -5 'signed-byte)", "signed-byte", "integer fixnum bignum signed-byte"},
	{"(coerce 5 'unsigned-byte)", "unsigned-byte", "integer fixnum bignum signed-byte unsigned-byte bit-vector"},
	// every float format, integral and fractional
	{"3.0f0", "float", "character integer fixnum octet bignum ratio " + numTargets},
	{"3.0d0", "float", "character integer fixnum octet bignum ratio " + numTargets},
	{"3.0L0", "float", "integer fixnum octet bignum " + numTargets},
	{"(coerce 3 'short-float)", "float", "character integer fixnum octet bignum ratio " + numTargets},
	{"1.5f0", "float", "ratio " + numTargets},
	{"1.5d0", "float", "ratio " + numTargets},
	{"1.5L0", "float", numTargets},
	{"(coerce 1.5 'short-float)", "float", "ratio " + numTargets},
	{"0.1f0", "float", numTargets},
	{"0.1d0", "float", numTargets},
	{"-2.5d0", "float", numTargets},
	{"1/2", "ratio", "ratio " + numTargets},
	{"-7/3", "ratio", "ratio " + numTargets},
	{"#C(3 0)", "complex", "complex integer fixnum float double-float"},
	{"#C(1 2)", "complex", "complex"},
	{"#\\A", "character", "character integer fixnum octet bignum " + numTargets},
	// strings, symbols
	{"\"ab\"", "string", "list string vector octets symbol"},
	{"\"car\"", "string", "list string vector octets symbol function"},
	{"\"\"", "string", "list string vector octets symbol"},
	{"(quote ab)", "symbol", "list string vector octets symbol"},
	{"(quote car)", "symbol", "list string vector octets symbol function"},
	{":kw", "symbol", "string symbol"},
	// lists, vectors, octets, bit vectors
	{"(list #\\a #\\b)", "list", "list string vector"},
	{"(list 1 0 1)", "list", "list vector octets bit-vector"},
	{"(list 65 66)", "list", "list vector octets"},
	{"nil", "list", "list"},
	{"(vector #\\a #\\b)", "vector", "list string vector"},
	{"(vector 1 0 1)", "vector", "list vector octets bit-vector"},
	{"(vector)", "vector", "list vector octets"},
	{"(coerce \"ab\" 'octets)", "octets", "list string vector octets"},
	{"(coerce (list 1 0 1) 'octets)", "octets", "list vector octets bit-vector"},
	{"#*101", "bit-vector", "list vector octets bit-vector integer fixnum bignum signed-byte unsigned-byte"},
	{"#*", "bit-vector", "list vector bit-vector"},
	// association lists and tables
	{"(list (cons 1 2) (cons 3 4))", "assoc", "list assoc hash-table"},
	{"(list (list 'a 1) (list 'b 2))", "assoc", "list assoc hash-table"},
	{"(make-hash-table)", "hash-table", "assoc hash-table"},
	{"(let ((h (make-hash-table))) (setf (gethash 1 h) 2) (setf (gethash 'a h) \"x\") h)", "hash-table", "assoc hash-table"},
	// objects outside the table
	{"(lambda (x) x)", "", "function"},
	{"(function car)", "", "function"},
	{"(make-instance 'c16-pt :x 1)", "", ""},
	{"(make-c16-st :a 1)", "", ""},
	{"t", "", ""},
	{"@2024-01-01T00:00:00Z", "", ""},
	{"(make-array (list 2 2))", "", ""},
}

var coerceSources = func() []string {
	out := make([]string, len(coerceGrid))
	for i, g := range coerceGrid {
		out[i] = g.src
	}
	return out
}()

var coerceInfo = func() map[string]cSrc {
	m := map[string]cSrc{}
	for _, g := range coerceGrid {
		m[g.src] = g
	}
	return m
}()

// docTable is the support table of coerce, parsed at run time from the
// function's own documentation: docTable[row][target].
var (
	docTable    map[string]map[string]bool
	docTableErr string
)

var rowRe = regexp.MustCompile(`^\s*([a-z-]+)\s*\|((?:[x ]\|)+)\s*$`)

func theDocTable() map[string]map[string]bool {
	if docTable != nil || docTableErr != "" {
		return docTable
	}
	var text string
	if err := sl.Catch(func() {
		if fd := slip.DescribeFunction(slip.Symbol("coerce")); fd != nil {
			text = fd.Text
		}
	}); err != nil || text == "" {
		docTableErr = "no documentation text for coerce"
		return nil
	}
	cols := map[int]string{}
	tab := map[string]map[string]bool{}
	for _, line := range strings.Split(text, "\n") {
		if m := rowRe.FindStringSubmatch(line); m != nil {
			cells := strings.Split(strings.TrimSuffix(m[2], "|"), "|")
			row := map[string]bool{}
			for i, c := range cells {
				if name, ok := cols[i]; ok && c == "x" {
					row[name] = true
				}
			}
			tab[m[1]] = row
			continue
		}
		// header line: k times "| " then "|name"
		t := strings.TrimSpace(line)
		if strings.HasPrefix(t, "|") {
			k := strings.Count(t, "|") - 1
			name := strings.TrimSpace(t[strings.LastIndex(t, "|")+1:])
			if f := strings.Fields(name); 0 < len(f) && len(tab) == 0 { // the header comes before the rows
				cols[k] = f[0]
			}
		}
	}
	if len(tab) < 10 || len(cols) < 20 {
		docTableErr = fmt.Sprintf("coerce documentation table not understood (%d rows, %d columns)", len(tab), len(cols))
		return nil
	}
	docTable = tab
	return docTable
}

func execCoerce(x *fw.Ctx, c Case) {
	if setupErr != "" {
		x.Fail("harness registry", "setup failed: %s", setupErr)
		return
	}
	if len(c.Objs) != 1 || c.Ty == "" {
		x.Trivial()
		return
	}
	tab := theDocTable()
	if tab == nil {
		x.Fail("harness doc-table", "%s", docTableErr)
		return
	}
	scope := slip.NewScope()
	h, err := build(scope, c.Objs[0])
	if err != nil || !h.okay {
		x.Cover("type-object-unbuildable")
		x.Trivial()
		x.Observe(map[string]any{"src": c.Objs[0].Src(), "build": fmt.Sprint(err)})
		return
	}
	src := c.Objs[0].Text()
	kind := sl.Kind(h.obj)
	scope.Let(symX, h.obj)
	info := coerceInfo[c.Objs[0].V]
	x.Cover("grid-source-kind:" + kind)
	x.Cover("grid-target:" + c.Ty)
	x.Cover("grid-cell:" + kind + "->" + c.Ty)
	returned, cerr := judgeCoerce(x, scope, h, src, kind, c.Ty)
	documented := c.Ty == "t" || (info.row != "" && tab[info.row][c.Ty])
	if documented {
		x.Cover("grid:documented-as-supported")
	}
	must := c.Ty == "t"
	for _, m := range strings.Fields(info.must) {
		if m == c.Ty {
			must = true
		}
	}
	if must && documented {
		x.Cover("grid:must-convert")
		if !returned && cerr != nil && !cerr.Internal {
			x.Fail(fmt.Sprintf("coerce-refused row=%s target=%s", info.row, c.Ty),
				"(coerce %s '%s) => %s, although the documented table marks %s -> %s as supported and this value is convertible", src, c.Ty, fmtErr(cerr), info.row, c.Ty)
		}
	}
	if !returned && !documented {
		x.Cover("grid:refused-and-not-documented")
	}
	if returned && !documented && c.Ty != "bit" && c.Ty != "byte" {
		x.Cover("grid:returned-though-not-documented")
	}
	x.Observe(map[string]any{"source": src, "target": c.Ty, "returned": returned, "documented": documented})
}

// ---- compound type specifiers as coerce targets ------------------------------------
//
// (coerce x '(integer lo hi)), '(double-float lo hi), '(signed-byte n),
// '(unsigned-byte n), '(vector elt n), '(bit-vector n): the result must be of
// the requested type, i.e. typep of the head and inside the bounds (inclusive,
// as in the language definition: slip documents nothing else); a value that is
// inside the bounds and that the plain head accepts must not be refused.

type cCoerce struct {
	src  string // the source object
	spec string // the compound specifier, as source text (quoted by the harness)
	in   bool   // the converted value lies inside the specifier
}

var compoundGrid = []cCoerce{
	{"3", "(integer 0 10)", true}, {"3", "(integer 3 3)", true}, {"3", "(integer 3 *)", true}, {"3", "(integer * 3)", true}, {"3", "(integer 0)", true},
	{"11", "(integer 0 10)", false}, {"3", "(integer 4 *)", false}, {"-1", "(integer 0 *)", false}, {"3.0d0", "(integer 0 10)", true}, {"#\\A", "(integer 65 65)", true},
	{"1180591620717411303424", "(integer 0 *)", true}, {"1180591620717411303424", "(integer 1180591620717411303424 *)", true},
	{"1180591620717411303424", "(integer * 1180591620717411303424)", true}, {"1180591620717411303424", "(integer 0 1180591620717411303423)", false},
	{"3", "(fixnum 0 3)", true}, {"3", "(fixnum 4 9)", false}, {"3", "(bignum 0 10)", true}, {"3", "(bignum 3 3)", true}, {"3", "(bignum 4 10)", false},
	{"3", "(float 0 10)", true}, {"3", "(float 3 3)", true}, {"3", "(float 4 *)", false},
	{"3", "(single-float 0 3)", true}, {"1.5d0", "(single-float 1.5 1.5)", true}, {"3", "(single-float * 2)", false},
	{"1.5f0", "(double-float 1.5 2)", true}, {"1.5L0", "(double-float 0 1.5)", true}, {"3", "(double-float 0 10)", true}, {"3", "(double-float 3.5 10)", false},
	{"3", "(long-float 0 10)", true}, {"3", "(long-float 0 3)", true}, {"3", "(long-float 3 4)", true}, {"1.5L0", "(long-float 1.5L0 2)", true}, {"3", "(long-float 4 5)", false},
	{"1/2", "(rational 0 1)", true}, {"1/2", "(rational 1/2 1)", true}, {"1/2", "(rational 0 1/2)", true}, {"3", "(rational 0 10)", true}, {"1/2", "(rational 1 2)", false},
	{"1/2", "(ratio 0 1)", true}, {"1/2", "(ratio 1/2 1)", true}, {"0.5d0", "(ratio 0 1/2)", true}, {"1/2", "(ratio 1 2)", false},
	{"5", "(signed-byte 8)", true}, {"127", "(signed-byte 8)", true}, {"-128", "(signed-byte 8)", true}, {"128", "(signed-byte 8)", false}, {"200", "(signed-byte 8)", false},
	{"-129", "(signed-byte 8)", false}, {"5", "(signed-byte *)", true}, {"-300", "(signed-byte 16)", true},
	{"5", "(unsigned-byte 8)", true}, {"255", "(unsigned-byte 8)", true}, {"256", "(unsigned-byte 8)", false}, {"0", "(unsigned-byte 1)", true}, {"2", "(unsigned-byte 1)", false},
	{"(list 1 2)", "(vector * 2)", true}, {"(list 1 2)", "(vector * *)", true}, {"(list 1 2)", "(vector * 3)", false}, {"\"ab\"", "(vector character 2)", true},
	{"(vector 1 2 3)", "(vector * 3)", true}, {"nil", "(vector * 0)", true}, {"(list 1 2)", "(vector fixnum 2)", true},
	{"(list 1 0 1)", "(bit-vector 3)", true}, {"(list 1 0 1)", "(bit-vector 2)", false}, {"#*101", "(bit-vector 3)", true}, {"5", "(bit-vector 3)", true}, {"5", "(bit-vector 4)", false},
}

// ratOfObj is the exact value of a real number object (harness type switch).
func ratOfObj(o slip.Object) *big.Rat {
	switch v := o.(type) {
	case slip.Fixnum:
		return new(big.Rat).SetInt64(int64(v))
	case slip.Octet:
		return new(big.Rat).SetInt64(int64(v))
	case slip.Bit:
		return new(big.Rat).SetInt64(v.Int64())
	case *slip.Bignum:
		return new(big.Rat).SetInt((*big.Int)(v))
	case *slip.Ratio:
		return new(big.Rat).Set((*big.Rat)(v))
	case slip.SingleFloat:
		if math.IsInf(float64(v), 0) || math.IsNaN(float64(v)) {
			return nil
		}
		return new(big.Rat).SetFloat64(float64(v))
	case slip.DoubleFloat:
		if math.IsInf(float64(v), 0) || math.IsNaN(float64(v)) {
			return nil
		}
		return new(big.Rat).SetFloat64(float64(v))
	case *slip.LongFloat:
		if (*big.Float)(v).IsInf() {
			return nil
		}
		r, _ := (*big.Float)(v).Rat(nil)
		return r
	case *slip.SignedByte:
		return ratOfObj(v.AsFixOrBig())
	case *slip.UnsignedByte:
		return ratOfObj(v.AsFixOrBig())
	}
	return nil
}

// inSpec judges a coerce result against the compound specifier (a parsed
// list): true/false, or judged=false when the harness cannot tell.
func inSpec(res slip.Object, spec slip.List) (in, judged bool) {
	head, _ := spec[0].(slip.Symbol)
	bound := func(i int) (*big.Rat, bool) { // nil = unbounded
		if len(spec) <= i {
			return nil, true
		}
		if s, ok := spec[i].(slip.Symbol); ok && string(s) == "*" {
			return nil, true
		}
		r := ratOfObj(spec[i])
		return r, r != nil
	}
	switch strings.ToLower(string(head)) {
	case "integer", "fixnum", "bignum", "float", "single-float", "double-float", "long-float", "rational", "ratio":
		v := ratOfObj(res)
		lo, ok1 := bound(1)
		hi, ok2 := bound(2)
		if v == nil || !ok1 || !ok2 {
			return false, false
		}
		return (lo == nil || lo.Cmp(v) <= 0) && (hi == nil || v.Cmp(hi) <= 0), true
	case "signed-byte", "unsigned-byte":
		v := ratOfObj(res)
		if v == nil {
			return false, false
		}
		if len(spec) < 2 {
			return true, true
		}
		if s, ok := spec[1].(slip.Symbol); ok && string(s) == "*" {
			return strings.ToLower(string(head)) == "signed-byte" || 0 <= v.Sign(), true
		}
		n, ok := spec[1].(slip.Fixnum)
		if !ok || n < 1 || 62 < n {
			return false, false
		}
		if strings.ToLower(string(head)) == "unsigned-byte" {
			return 0 <= v.Sign() && v.Cmp(new(big.Rat).SetInt64(int64(1)<<uint(n))) < 0, true
		}
		half := new(big.Rat).SetInt64(int64(1) << uint(n-1))
		return new(big.Rat).Neg(half).Cmp(v) <= 0 && v.Cmp(half) < 0, true
	case "vector", "bit-vector":
		at := 2
		if strings.ToLower(string(head)) == "bit-vector" {
			at = 1
		}
		length := -1
		switch v := res.(type) {
		case *slip.Vector:
			length = len(v.AsList())
		case *slip.BitVector:
			length = int(v.Len)
		case slip.Octets:
			length = len(v)
		case slip.String:
			length = len([]rune(string(v)))
		}
		if length < 0 {
			return false, false
		}
		if len(spec) <= at {
			return true, true
		}
		if s, ok := spec[at].(slip.Symbol); ok && string(s) == "*" {
			return true, true
		}
		n, ok := spec[at].(slip.Fixnum)
		return ok && int(n) == length, ok
	}
	return false, false
}

func execCompound(x *fw.Ctx, c Case) {
	if c.I < 0 || len(compoundGrid) <= c.I {
		x.Trivial()
		return
	}
	g := compoundGrid[c.I]
	scope := slip.NewScope()
	obj, err := sl.Eval(scope, g.src)
	if err != nil {
		x.Cover("type-object-unbuildable")
		x.Trivial()
		return
	}
	specObj, err := sl.Eval(scope, "(quote "+g.spec+")")
	spec, isList := specObj.(slip.List)
	if err != nil || !isList || len(spec) == 0 {
		x.Trivial()
		return
	}
	head, _ := spec[0].(slip.Symbol)
	hd := strings.ToLower(string(head))
	scope.Let(symX, obj)
	scope.Let(symTy, spec)
	x.Cover("compound-head:" + hd)
	res, cerr := sl.Eval(scope, "(coerce x ty)")
	if cerr != nil {
		if cerr.Internal {
			x.Fail("coerce-compound fail=internal head="+hd, "(coerce %s '%s) => %s", g.src, g.spec, fmtErr(cerr))
			return
		}
		x.Cover("compound:refused")
		if g.in {
			// does the plain head accept the object?
			scope.Let(symTy, slip.Symbol(hd))
			if _, e := sl.Eval(scope, "(coerce x ty)"); e == nil {
				x.Fail("coerce-compound fail=refused-in-range head="+hd, "(coerce %s '%s) => %s, although (coerce %s '%s) returns and the value lies inside the bounds", g.src, g.spec, fmtErr(cerr), g.src, hd)
			}
		} else {
			x.Cover("compound:refused-out-of-range")
		}
		x.Observe(map[string]any{"source": g.src, "spec": g.spec, "returned": false})
		return
	}
	x.Cover("compound:returned")
	rs := slip.NewScope()
	rs.Let(symX, res)
	got := sl.Kind(res)
	if !(got == "null" && (hd == "vector")) {
		if v, e := typepOf(rs, hd); e != nil || !v {
			x.Fail(fmt.Sprintf("coerce-typep target=%s got=%s", hd, got), "(coerce %s '%s) => %s, a %s, which is not typep %s", g.src, g.spec, sl.Show(res), got, hd)
		}
	}
	if in, judged := inSpec(res, spec); judged {
		x.Cover("compound:range-judged")
		if !in {
			x.Fail("coerce-compound fail=out-of-range head="+hd, "(coerce %s '%s) => %s, which is not of type %s", g.src, g.spec, sl.Show(res), g.spec)
		}
	}
	x.Observe(map[string]any{"source": g.src, "spec": g.spec, "returned": true, "result": sl.Show(res)})
}
