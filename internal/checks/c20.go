//go:build !only || only_c20

package checks

import _ "verif/internal/c20"
