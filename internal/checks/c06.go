//go:build !only || only_c06

package checks

import _ "verif/internal/c06"
