//go:build !only || only_c16

package checks

import _ "verif/internal/c16"
