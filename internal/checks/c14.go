//go:build !only || only_c14

package checks

import _ "verif/internal/c14"
