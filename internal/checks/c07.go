//go:build !only || only_c07

package checks

import _ "verif/internal/c07"
