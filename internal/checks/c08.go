//go:build !only || only_c08

package checks

import _ "verif/internal/c08"
