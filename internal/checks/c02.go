//go:build !only || only_c02

package checks

import _ "verif/internal/c02"
