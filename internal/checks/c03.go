//go:build !only || only_c03

package checks

import _ "verif/internal/c03"
