//go:build !only || only_c05

package checks

import _ "verif/internal/c05"
