//go:build !only || only_c09

package checks

import _ "verif/internal/c09"
