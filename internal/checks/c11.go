//go:build !only || only_c11

package checks

import _ "verif/internal/c11"
