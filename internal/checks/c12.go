//go:build !only || only_c12

package checks

import _ "verif/internal/c12"
