//go:build !only || only_c01

package checks

import _ "verif/internal/c01"
