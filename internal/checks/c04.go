//go:build !only || only_c04

package checks

import _ "verif/internal/c04"
