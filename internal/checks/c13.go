//go:build !only || only_c13

package checks

import _ "verif/internal/c13"
