//go:build !only || only_c19

package checks

import _ "verif/internal/c19"
