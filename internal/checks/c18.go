//go:build !only || only_c18

package checks

import _ "verif/internal/c18"
