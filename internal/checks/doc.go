// Package checks links every check into the vcheck binary: one file per
// check, each a blank import guarded so that a single check can be built on
// its own (-tags "verif only only_cNN").
package checks
