//go:build !only || only_c17

package checks

import _ "verif/internal/c17"
