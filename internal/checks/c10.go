//go:build !only || only_c10

package checks

import _ "verif/internal/c10"
