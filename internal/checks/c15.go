//go:build !only || only_c15

package checks

import _ "verif/internal/c15"
