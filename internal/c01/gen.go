package c01

import (
	"fmt"
	"math/rand/v2"
	"strings"

	"verif/internal/c01/ref"
)

// static result types of generated expressions
type typ int

const (
	tI  typ = iota // small integer
	tL             // proper list of small integers (nil included)
	tA             // anything printable (integer, nil/t, symbol, list)
	tF1            // function of one integer returning an integer
	tF2            // function of two integers returning an integer
)

type gvar struct {
	name  string
	t     typ
	capt  bool // may be referenced from nested lambda bodies (unique name)
	ro    bool // loop counter, never assigned by generated code
	level int  // function nesting level of the binding
}

type gfunc struct {
	name  string
	arity int
	mv    int // number of values returned (0 = an ordinary single value)
	list  bool
}

type force struct {
	parent, pos, child string
	used, failed       bool
}

type gen struct {
	r        *rand.Rand
	dirty    map[string]bool
	compile  bool
	budget   int
	maxDepth int
	marker   int64
	markP    float64
	vars     []gvar
	level    int
	funcs    []gfunc
	globals  []string
	defs     []*ref.V
	nfun     int
	ncap     int
	force    *force
	where    string // nearest single-value consumer of the form being generated ("top": all values are the result)
	fnWhere  string // consumer of the values of the next function body ("" = the current one)
	shadow   bool   // every variable is visible from nested function bodies and names are reused
}

// consumer names the note suffix of the single-value position (parent,pos).
func consumer(parent, pos string) string {
	switch pos {
	case "arg":
		switch parent {
		case "and", "or":
			return parent
		}
		return "arg"
	case "fn", "list", "count":
		switch parent {
		case "dolist", "dotimes":
			return parent + "-" + pos
		}
		return "arg"
	case "test":
		return "test"
	case "key":
		return "case-key"
	case "first":
		return "prog1"
	case "value":
		return "setq"
	case "init", "step":
		switch parent {
		case "let", "let*":
			return parent + "-init"
		case "do", "do*":
			return parent + "-" + pos
		}
		return "arg"
	case "body":
		return "discard"
	}
	return "" // then / else / last / result: values are passed on
}

var (
	sym  = ref.Sym
	num  = ref.Int
	form = ref.L
	list = ref.List
)

// ok tells whether a construct labelled with note may be generated: always,
// unless it is on the avoid list and this case does not ask for it.
func (g *gen) ok(note string) bool {
	if isBroken(note) {
		return g.dirty[note]
	}
	return true
}

// okFamily: as ok, for a family of notes sharing a prefix.
func (g *gen) okFamily(prefix string) bool {
	broken := false
	for _, k := range dirtyKeys {
		if strings.HasPrefix(k, prefix) {
			broken = true
			if g.dirty[k] {
				return true
			}
		}
	}
	return !broken
}

// want: probability gate for a construct labelled note - never when it is
// avoided, often when this (dirty) case asks for it, else the base rate.
func (g *gen) want(note string, base float64) bool {
	if !g.ok(note) {
		return false
	}
	if g.dirty[note] {
		return g.chance(0.6)
	}
	return g.chance(base)
}

func (g *gen) chance(p float64) bool { return g.r.Float64() < p }

func (g *gen) pick(xs ...string) string { return xs[g.r.IntN(len(xs))] }

func (g *gen) lit() *ref.V { return num(int64(g.r.IntN(8) - 2)) }

func (g *gen) mark(e *ref.V) *ref.V {
	g.marker++
	return form("vtr", num(g.marker), e)
}

func (g *gen) bare() *ref.V {
	g.marker++
	return form("vtr", num(g.marker))
}

var poolNames = []string{"x", "y", "z", "a", "b", "k"}

func (g *gen) visible(v *gvar) bool {
	return v.level == g.level || v.capt || g.shadow
}

// candidates returns the innermost visible variables of one of the types.
func (g *gen) candidates(write bool, ts ...typ) []gvar {
	seen := map[string]bool{}
	var out []gvar
	for i := len(g.vars) - 1; 0 <= i; i-- {
		v := &g.vars[i]
		if seen[v.name] {
			continue
		}
		seen[v.name] = true
		if !g.visible(v) || (write && v.ro) {
			continue
		}
		for _, t := range ts {
			if v.t == t {
				out = append(out, *v)
			}
		}
	}
	return out
}

func (g *gen) pickVar(write bool, ts ...typ) (gvar, bool) {
	c := g.candidates(write, ts...)
	if len(c) == 0 {
		return gvar{}, false
	}
	return c[g.r.IntN(len(c))], true
}

// newName chooses a variable name for a new binding from a small pool, so
// that names are reused between nested bindings, function parameters,
// closure-creating scopes and the scopes closures are called from.
func (g *gen) newName(avoid map[string]bool) (string, bool) {
	if !g.shadow && g.chance(0.35) {
		g.ncap++
		return fmt.Sprintf("c%d", g.ncap), true
	}
	for k := 0; k < 8; k++ {
		n := poolNames[g.r.IntN(len(poolNames))]
		if !avoid[n] {
			return n, g.shadow
		}
	}
	g.ncap++
	return fmt.Sprintf("c%d", g.ncap), true
}

// reuseName picks the name of a visible, uncaptured integer variable bound
// in the current function, so that a new binding shadows it: an init form
// of the same binding form that reads the name then tells parallel from
// sequential binding.
func (g *gen) reuseName(avoid map[string]bool) (string, bool) {
	var names []string
	for _, v := range g.candidates(false, tI) {
		if !avoid[v.name] {
			names = append(names, v.name)
		}
	}
	if len(names) == 0 {
		return "", false
	}
	return names[g.r.IntN(len(names))], true
}

// echo reads one of the shadowed names (through a marker).
func (g *gen) echo(shadowed []string) *ref.V {
	n := sym(shadowed[g.r.IntN(len(shadowed))])
	if g.chance(0.5) {
		return g.mark(n)
	}
	return g.mark(form("+", n, g.lit()))
}

// freshName: a name no visible variable has.
func (g *gen) freshName() string {
	g.ncap++
	return fmt.Sprintf("c%d", g.ncap)
}

func (g *gen) push(name string, t typ, capt, ro bool) {
	g.vars = append(g.vars, gvar{name: name, t: t, capt: capt, ro: ro, level: g.level})
}

func (g *gen) global() string {
	if len(g.globals) == 0 || (len(g.globals) < 2 && g.chance(0.3)) {
		n := fmt.Sprintf("*ug%d*", len(g.globals)+1)
		g.globals = append(g.globals, n)
		return n
	}
	return g.globals[g.r.IntN(len(g.globals))]
}

// leaf produces a smallest expression of a type.
func (g *gen) leaf(t typ) *ref.V {
	switch t {
	case tI:
		if v, ok := g.pickVar(false, tI); ok && g.chance(0.6) {
			return sym(v.name)
		}
		if g.chance(0.1) {
			return sym(g.global())
		}
		return g.lit()
	case tL:
		if v, ok := g.pickVar(false, tL); ok && g.chance(0.6) {
			return sym(v.name)
		}
		switch g.r.IntN(4) {
		case 0:
			return ref.Nil
		case 1:
			return g.quoted(g.intList())
		case 2:
			return form("quote", g.intList())
		}
		return form("list", g.lit(), g.lit())
	case tA:
		switch g.r.IntN(6) {
		case 0:
			return ref.T
		case 1:
			return ref.Nil
		case 2:
			return ref.Quote(sym(g.pick("p", "q", "r")))
		case 3:
			return g.leaf(tL)
		}
		if v, ok := g.pickVar(false, tI, tL, tA); ok && g.chance(0.5) {
			return sym(v.name)
		}
		return g.leaf(tI)
	case tF1:
		if v, ok := g.pickVar(false, tF1); ok && g.chance(0.5) {
			return sym(v.name)
		}
		for _, f := range g.funcs {
			if f.arity == 1 && f.mv == 0 && !f.list && g.chance(0.3) {
				if g.chance(0.3) {
					return ref.Quote(sym(f.name))
				}
				return form("function", sym(f.name))
			}
		}
		if g.chance(0.4) {
			return form("lambda", list(sym("w")), form(g.pick("+", "-"), sym("w"), g.lit()))
		}
		return form("function", sym(g.pick("1+", "1-", "-")))
	case tF2:
		if v, ok := g.pickVar(false, tF2); ok && g.chance(0.5) {
			return sym(v.name)
		}
		if g.chance(0.3) {
			return form("lambda", list(sym("w"), sym("v")), form(g.pick("+", "-"), sym("v"), sym("w")))
		}
		return form("function", sym(g.pick("+", "-", "max", "min")))
	}
	return ref.Nil
}

// quoted writes 'd when the shorthand is usable for this kind of datum,
// (quote d) otherwise.
func (g *gen) quoted(d *ref.V) *ref.V {
	if g.ok("quote-shorthand:" + ref.TypeName(d)) {
		return ref.Quote(d)
	}
	return form("quote", d)
}

func (g *gen) intList() *ref.V {
	n := g.r.IntN(4)
	es := make([]*ref.V, n)
	for i := range es {
		es[i] = g.lit()
	}
	return list(es...)
}

// all form kinds of the generator
var allKinds = []string{"lit", "var", "quote", "call", "ucall", "progn", "prog1", "if", "when", "unless", "cond", "case",
	"and", "or", "let", "let*", "setq", "lambda", "lambda-call", "funcall", "apply", "mapcar", "closure", "rec", "fnlist", "ll", "loopclosure",
	"dolist", "dotimes", "do", "do*", "mvb", "mvl", "values"}

// expr produces an expression of type t at depth d.
func (g *gen) expr(t typ, d int) *ref.V {
	g.budget--
	if g.maxDepth <= d || g.budget <= 0 {
		return g.leaf(t)
	}
	if g.chance(0.12) {
		return g.leaf(t)
	}
	if g.where != "" && g.dirty["mv-into:"+g.where] && g.chance(0.5) {
		if e := g.kindExpr("values", t, d); e != nil {
			return e
		}
	}
	for try := 0; try < 6; try++ {
		k := allKinds[2+g.r.IntN(len(allKinds)-2)]
		if e := g.kindExpr(k, t, d); e != nil {
			return e
		}
	}
	return g.leaf(t)
}

// sub generates the child at position pos of a parent form.
func (g *gen) sub(parent, pos string, t typ, d int) *ref.V {
	var e *ref.V
	if f := g.force; f != nil && !f.used && f.parent == parent && f.pos == pos {
		f.used = true
		if e = g.kindExpr(f.child, t, d+1); e == nil {
			f.failed = true
		}
		// the forced child stays the direct child: no marker around it
		if e != nil {
			return e
		}
	}
	saved := g.where
	marked := g.chance(g.markP)
	if marked {
		g.where = "arg"
	} else if w := consumer(parent, pos); w != "" {
		g.where = w
	}
	e = g.expr(t, d+1)
	g.where = saved
	if marked {
		e = g.mark(e)
	}
	return e
}

func (g *gen) stmt(parent string, d int) *ref.V {
	if f := g.force; f != nil && !f.used && f.parent == parent && f.pos == "body" {
		return g.sub(parent, "body", tA, d)
	}
	switch g.r.IntN(10) {
	case 0, 1, 2:
		return g.bare()
	case 3, 4, 5, 6:
		if e := g.kindExpr("setq", tA, d+1); e != nil {
			return e
		}
		return g.bare()
	}
	return g.sub(parent, "body", tA, d)
}

func (g *gen) stmts(parent string, d, max int) []*ref.V {
	n := g.r.IntN(max + 1)
	if f := g.force; f != nil && !f.used && f.parent == parent && f.pos == "body" && n == 0 {
		n = 1
	}
	out := make([]*ref.V, 0, n)
	for i := 0; i < n; i++ {
		out = append(out, g.stmt(parent, d))
	}
	return out
}

func (g *gen) truthy(d int) *ref.V {
	switch g.r.IntN(5) {
	case 0:
		return ref.T
	case 1:
		return form("<", num(1), num(2))
	case 2:
		return g.mark(num(int64(g.r.IntN(5))))
	case 3:
		return form("not", ref.Nil)
	}
	return form("list", g.lit())
}

func (g *gen) falsy(d int) *ref.V {
	switch g.r.IntN(4) {
	case 0:
		return ref.Nil
	case 1:
		return form(">", num(1), num(2))
	case 2:
		return g.mark(ref.Nil)
	}
	return form("null", form("list", g.lit()))
}

// test produces a test form; for typed results the selected branch must be
// known, so sel tells whether it has to be true (1), false (-1) or free (0).
func (g *gen) test(parent string, d, sel int) *ref.V {
	if f := g.force; f != nil && !f.used && f.parent == parent && f.pos == "test" {
		if sel == 0 {
			return g.sub(parent, "test", tA, d)
		}
		f.used, f.failed = true, true
	}
	switch sel {
	case 1:
		return g.truthy(d)
	case -1:
		return g.falsy(d)
	}
	if g.chance(0.5) {
		saved := g.where
		g.where = "arg"
		e := form(g.pick("<", "=", ">", "<=", ">="), g.expr(tI, d+1), g.expr(tI, d+1))
		g.where = saved
		if g.chance(g.markP) {
			e = g.mark(e)
		}
		return e
	}
	return g.sub(parent, "test", tA, d)
}

func append2(head []*ref.V, more ...*ref.V) []*ref.V {
	return append(append([]*ref.V{}, head...), more...)
}

// bodyForms: statements followed by the value form.
func (g *gen) bodyForms(parent string, t typ, d, max int) []*ref.V {
	st := g.stmts(parent, d, max)
	return append(st, g.sub(parent, "last", t, d))
}

func isData(t typ) bool { return t == tI || t == tL || t == tA }

// kindExpr produces a form of the given kind with result type t, or nil
// when the kind cannot produce that type here.
func (g *gen) kindExpr(kind string, t typ, d int) *ref.V {
	mark := len(g.vars)
	defer func() { g.vars = g.vars[:mark] }()
	switch kind {
	case "lit":
		switch t {
		case tI:
			return g.lit()
		case tA:
			return g.pick2(ref.T, ref.Nil, g.lit())
		case tL:
			return ref.Nil
		}
		return nil
	case "var":
		if t == tA {
			if v, ok := g.pickVar(false, tI, tL, tA); ok {
				return sym(v.name)
			}
			return nil
		}
		if v, ok := g.pickVar(false, t); ok {
			return sym(v.name)
		}
		if t == tI {
			return sym(g.global())
		}
		return nil
	case "quote":
		switch t {
		case tL:
			if g.chance(0.5) {
				return g.quoted(g.intList())
			}
			return form("quote", g.intList())
		case tA:
			if g.chance(0.4) {
				// 'x / (quote x) before a datum of any kind
				for try := 0; try < 6; try++ {
					var q *ref.V
					if dat := datum(g.r, 1); g.chance(0.6) {
						q = ref.Quote(dat)
					} else {
						q = form("quote", dat)
					}
					notes := map[string]bool{}
					ref.StaticNotes([]*ref.V{q}, notes)
					usable := true
					for n := range notes {
						if !g.ok(n) {
							usable = false
						}
					}
					if usable {
						return q
					}
				}
			}
			dat := g.pick2(sym("p"), list(sym("q"), num(1), list(sym("r"))), ref.Str("s"), list(sym("car"), sym("x")),
				ref.Dotted(num(2), num(1)), sym(":k"))
			if g.chance(0.5) {
				return g.quoted(dat)
			}
			return form("quote", dat)
		}
		return nil
	case "call":
		return g.builtinCall(t, d)
	case "ucall":
		if t != tI && t != tA {
			return nil
		}
		f := g.userFunc(d)
		if f == nil {
			return nil
		}
		args := []*ref.V{sym(f.name)}
		for i := 0; i < f.arity; i++ {
			args = append(args, g.sub("ucall", "arg", tI, d))
		}
		return list(args...)
	case "progn":
		if !isData(t) {
			return nil
		}
		if t == tA && g.chance(0.05) {
			return form("progn")
		}
		return form("progn", g.bodyForms("progn", t, d, 2)...)
	case "prog1":
		if !isData(t) {
			return nil
		}
		first := g.sub("prog1", "first", t, d)
		return form("prog1", append2([]*ref.V{first}, g.stmts("prog1", d, 2)...)...)
	case "if":
		if t == tA && g.chance(0.2) {
			return form("if", g.test("if", d, 0), g.sub("if", "then", t, d))
		}
		return form("if", g.test("if", d, 0), g.sub("if", "then", t, d), g.sub("if", "else", t, d))
	case "when", "unless":
		if !isData(t) {
			return nil
		}
		sel := 0
		if t != tA {
			sel = 1
			if kind == "unless" {
				sel = -1
			}
		}
		tst := g.test(kind, d, sel)
		if t == tA && g.chance(0.1) {
			return form(kind, tst)
		}
		return form(kind, append2([]*ref.V{tst}, g.bodyForms(kind, t, d, 2)...)...)
	case "cond":
		n := 1 + g.r.IntN(3)
		var cls []*ref.V
		for i := 0; i < n; i++ {
			tst := g.test("cond", d, 0)
			if t == tA && g.chance(0.15) {
				cls = append(cls, list(tst))
				continue
			}
			cls = append(cls, list(append2([]*ref.V{tst}, g.bodyForms("cond", t, d, 1)...)...))
		}
		if t != tA || g.chance(0.6) {
			cls = append(cls, list(append2([]*ref.V{ref.T}, g.bodyForms("cond", t, d, 1)...)...))
		}
		return form("cond", cls...)
	case "case":
		var key *ref.V
		symKeys := g.chance(0.2)
		if symKeys {
			key = ref.Quote(sym(g.pick("p", "q", "r")))
			if f := g.force; f != nil && !f.used && f.parent == "case" && f.pos == "key" {
				key = g.sub("case", "key", tA, d)
			}
		} else {
			key = g.sub("case", "key", tI, d)
		}
		n := 1 + g.r.IntN(3)
		cls := []*ref.V{key}
		used := map[int64]bool{}
		for i := 0; i < n; i++ {
			mk := func() *ref.V {
				if symKeys {
					return sym(g.pick("p", "q", "r", "s"))
				}
				for {
					k := int64(g.r.IntN(7) - 1)
					if !used[k] {
						used[k] = true
						return num(k)
					}
				}
			}
			var k *ref.V
			if g.chance(0.3) {
				k = list(mk(), mk())
			} else {
				k = mk()
			}
			if t == tA && g.chance(0.08) {
				cls = append(cls, list(k))
				continue
			}
			cls = append(cls, list(append2([]*ref.V{k}, g.bodyForms("case", t, d, 1)...)...))
		}
		if t != tA || g.chance(0.6) {
			other := ref.T
			if g.chance(0.4) {
				other = sym("otherwise")
			}
			cls = append(cls, list(append2([]*ref.V{other}, g.bodyForms("case", t, d, 1)...)...))
		}
		return form("case", cls...)
	case "and", "or":
		if !isData(t) {
			return nil
		}
		n := g.r.IntN(3)
		var args []*ref.V
		if t == tA {
			if g.chance(0.05) {
				return form(kind)
			}
			for i := 0; i < n; i++ {
				args = append(args, g.sub(kind, "arg", tA, d))
			}
			args = append(args, g.sub(kind, "last", tA, d))
			return form(kind, args...)
		}
		for i := 0; i < n; i++ {
			if kind == "and" {
				args = append(args, g.truthy(d))
				continue
			}
			// or: earlier arguments are nil or already of the result type
			switch g.r.IntN(3) {
			case 0:
				args = append(args, g.falsy(d))
			case 1:
				args = append(args, form("and", g.test("and", d, 0), g.sub(kind, "arg", t, d)))
			default:
				if t == tI {
					args = append(args, form("car", g.sub("call", "arg", tL, d)))
				} else {
					args = append(args, g.sub(kind, "arg", t, d))
				}
			}
		}
		args = append(args, g.sub(kind, "last", t, d))
		return form(kind, args...)
	case "let", "let*":
		return g.letForm(kind, t, d)
	case "setq":
		return g.setqForm(t, d)
	case "lambda":
		if t != tF1 && t != tF2 {
			return nil
		}
		n := 1
		if t == tF2 {
			n = 2
		}
		g.fnWhere = "any" // a function object: called from anywhere
		ps, body := g.lambdaParts("lambda", n, tI, d)
		return form("lambda", append2([]*ref.V{ps}, body...)...)
	case "lambda-call":
		n := 1 + g.r.IntN(2)
		args := make([]*ref.V, n)
		for i := range args {
			args[i] = g.sub("lambda-call", "arg", tI, d)
		}
		ps, body := g.lambdaParts("lambda", n, t, d)
		if g.level > 0 && g.chance(0.2) {
			// the body ends in a bare (often free) variable
			if v, ok := g.pickVar(false, t); ok {
				body[len(body)-1] = sym(v.name)
			}
		}
		lam := form("lambda", append2([]*ref.V{ps}, body...)...)
		return list(append2([]*ref.V{lam}, args...)...)
	case "funcall":
		switch {
		case t == tI && g.chance(0.6):
			if g.chance(0.5) {
				return form("funcall", g.sub("funcall", "fn", tF1, d), g.sub("funcall", "arg", tI, d))
			}
			return form("funcall", g.sub("funcall", "fn", tF2, d), g.sub("funcall", "arg", tI, d), g.sub("funcall", "arg", tI, d))
		case g.chance(0.15):
			_, body := g.lambdaParts("lambda", 0, t, d)
			return form("funcall", form("lambda", append2([]*ref.V{ref.Nil}, body...)...))
		}
		n := 1 + g.r.IntN(2)
		args := make([]*ref.V, n)
		for i := range args {
			args[i] = g.sub("funcall", "arg", tI, d)
		}
		ps, body := g.lambdaParts("lambda", n, t, d)
		lam := form("lambda", append2([]*ref.V{ps}, body...)...)
		if g.chance(0.3) {
			lam = form("function", lam)
		}
		return form("funcall", append2([]*ref.V{lam}, args...)...)
	case "apply":
		switch t {
		case tI:
			switch g.r.IntN(4) {
			case 0:
				return form("apply", form("function", sym(g.pick("+", "max"))), g.sub("apply", "arg", tI, d), g.sub("apply", "list", tL, d))
			case 1:
				return form("apply", g.sub("apply", "fn", tF2, d), g.sub("apply", "arg", tI, d), form("list", g.sub("call", "arg", tI, d)))
			case 2:
				return form("apply", g.sub("apply", "fn", tF1, d), form("list", g.sub("call", "arg", tI, d)))
			}
			return form("apply", form("function", sym("+")), g.sub("apply", "list", tL, d))
		case tL:
			if g.chance(0.5) {
				return form("apply", form("function", sym("list")), g.sub("apply", "arg", tI, d), g.sub("apply", "list", tL, d))
			}
			return form("apply", ref.Quote(sym("list")), g.sub("apply", "list", tL, d))
		case tA:
			ps, body := g.lambdaParts("lambda", 2, tA, d)
			lam := form("lambda", append2([]*ref.V{ps}, body...)...)
			return form("apply", lam, form("list", g.sub("call", "arg", tI, d), g.sub("call", "arg", tI, d)))
		}
		return nil
	case "mapcar":
		// the list arguments: non-empty by construction unless the
		// empty-list finding is asked for (or a template forces the child)
		ml := func() *ref.V {
			forced := g.force != nil && !g.force.used && g.force.parent == "mapcar" && g.force.pos == "list"
			_ = forced
			return g.sub("mapcar", "list", tL, d)
		}
		switch t {
		case tL:
			if g.chance(0.35) {
				return form("mapcar", g.sub("mapcar", "fn", tF2, d), ml(), ml())
			}
			return form("mapcar", g.sub("mapcar", "fn", tF1, d), ml())
		case tA:
			g.fnWhere = "mapcar-result"
			ps, body := g.lambdaParts("lambda", 1, tA, d)
			lam := form("lambda", append2([]*ref.V{ps}, body...)...)
			return form("mapcar", lam, ml())
		}
		return nil
	case "closure":
		return g.closureForm(t, d)
	case "fnlist":
		return g.fnListForm(t, d)
	case "ll":
		return g.lambdaListForm(t, d)
	case "loopclosure":
		return g.loopClosureForm(t, d)
	case "rec":
		return g.recForm(t, d)
	case "dolist":
		if !isData(t) {
			return nil
		}
		lst := g.sub("dolist", "list", tL, d)
		name, capt := g.loopName()
		forcedList := g.force != nil && g.force.parent == "dolist" && g.force.pos == "list"
		if v, ok := g.pickVar(false, tL); ok && !forcedList && g.chance(0.3) {
			// the loop variable takes the name of the list variable its own
			// list form reads (evaluated in the enclosing scope)
			name = v.name
			lst = sym(v.name)
			if g.chance(0.4) {
				lst = form(g.pick("cdr", "reverse"), lst)
			}
			if g.chance(0.5) {
				lst = g.mark(lst)
			}
		}
		spec := []*ref.V{sym(name), lst}
		if t != tA || g.chance(0.6) {
			// the result form sees the variable (as nil)
			g.push(name, tA, capt, true)
			spec = append(spec, g.sub("dolist", "result", t, d))
			g.vars = g.vars[:len(g.vars)-1]
		}
		g.push(name, tI, capt, true)
		return form("dolist", append2([]*ref.V{list(spec...)}, g.loopBody("dolist", d)...)...)
	case "dotimes":
		if !isData(t) {
			return nil
		}
		var cnt *ref.V
		switch g.r.IntN(10) {
		case 0, 1:
			cnt = form("length", g.sub("dotimes", "count", tL, d))
		case 2:
			cnt = form("min", num(3), form("max", num(0), g.sub("dotimes", "count", tI, d)))
		case 3:
			// a negative count: no iteration (the result form sees the count)
			cnt = form("-", num(int64(g.r.IntN(3))), num(2))
		default:
			cnt = num(int64(g.r.IntN(4)))
			if f := g.force; f != nil && !f.used && f.parent == "dotimes" && f.pos == "count" {
				cnt = form("min", num(2), form("max", num(0), g.sub("dotimes", "count", tI, d)))
			}
		}
		name, capt := g.loopName()
		forcedCnt := g.force != nil && g.force.parent == "dotimes" && g.force.pos == "count"
		if v, ok := g.pickVar(false, tI); ok && !forcedCnt && g.chance(0.3) {
			// the loop variable takes the name of a variable its count form reads
			name = v.name
			cnt = g.mark(form("min", num(3), form("max", num(0), sym(v.name))))
		}
		g.push(name, tI, capt, true)
		spec := []*ref.V{sym(name), cnt}
		if t != tA || g.chance(0.6) {
			spec = append(spec, g.sub("dotimes", "result", t, d))
		}
		return form("dotimes", append2([]*ref.V{list(spec...)}, g.loopBody("dotimes", d)...)...)
	case "do", "do*":
		return g.doForm(kind, t, d)
	case "mvb":
		if !isData(t) {
			return nil
		}
		nv := 1 + g.r.IntN(3)
		nvals := 2 + g.r.IntN(2)
		mv := g.mvExpr("mvb", nvals, d)
		var names []*ref.V
		avoid := map[string]bool{}
		type nb struct {
			n string
			c bool
		}
		var bound []nb
		for i := 0; i < nv; i++ {
			n, c := g.newName(avoid)
			if rn, ok := g.reuseName(avoid); ok && g.chance(0.3) {
				n = rn // shadows a variable the values form (already generated) may read
			}
			avoid[n] = true
			names = append(names, sym(n))
			bound = append(bound, nb{n, c})
		}
		for i, b := range bound {
			// a variable beyond the number of values is nil: type "any"
			if i < nvals {
				g.push(b.n, tI, b.c, false)
			} else {
				g.push(b.n, tA, b.c, false)
			}
		}
		return form("multiple-value-bind", append2([]*ref.V{list(names...), mv}, g.bodyForms("mvb", t, d, 2)...)...)
	case "mvl":
		if t != tL && t != tA {
			return nil
		}
		return form("multiple-value-list", g.mvExpr("mvl", 1+g.r.IntN(3), d))
	case "values":
		// in a single-value position only the primary value counts
		if t != tI && t != tA {
			return nil
		}
		if !g.mvOK() {
			return nil
		}
		if g.chance(0.4) {
			return form("values", g.sub("values", "arg", t, d))
		}
		return form("values", g.sub("values", "arg", t, d), g.sub("values", "arg", tI, d))
	}
	return nil
}

// mvOK: may a VALUES form stand here, given the nearest single-value
// consumer (an open finding about that consumer keeps it out of the clean
// stream; "any" = the consumer is not known, e.g. a function body).
func (g *gen) mvOK() bool {
	if g.where == "any" {
		return g.okFamily("mv-into:")
	}
	return g.ok("mv-into:" + g.where)
}

func (g *gen) pick2(xs ...*ref.V) *ref.V { return xs[g.r.IntN(len(xs))] }

func (g *gen) loopName() (string, bool) {
	n, _ := g.newName(nil)
	return n, g.shadow
}

func (g *gen) loopBody(kind string, d int) []*ref.V {
	n := 1 + g.r.IntN(2)
	out := make([]*ref.V, 0, n)
	for i := 0; i < n; i++ {
		s := g.stmt(kind, d)
		if s.K != ref.KList {
			s = g.bare()
		}
		out = append(out, s)
	}
	return out
}

func (g *gen) builtinCall(t typ, d int) *ref.V {
	a := func(tt typ) *ref.V { return g.sub("call", "arg", tt, d) }
	switch t {
	case tI:
		switch g.r.IntN(9) {
		case 0, 1:
			return form("+", a(tI), a(tI))
		case 2:
			return form("-", a(tI), a(tI))
		case 3:
			return form("*", a(tI), num(int64(g.r.IntN(3)+1)))
		case 4:
			return form(g.pick("1+", "1-", "-"), a(tI))
		case 5:
			return form(g.pick("max", "min"), a(tI), a(tI))
		case 6:
			return form("length", a(tL))
		case 7:
			return form("+", a(tI), a(tI), a(tI))
		}
		return form("+")
	case tL:
		switch g.r.IntN(6) {
		case 0:
			return form("list", a(tI), a(tI))
		case 1:
			return form("cons", a(tI), a(tL))
		case 2:
			return form(g.pick("cdr", "rest"), a(tL))
		case 3:
			return form("append", a(tL), a(tL))
		case 4:
			return form("reverse", a(tL))
		}
		return form("list", a(tI), a(tI), a(tI))
	case tA:
		switch g.r.IntN(9) {
		case 0:
			return form("list", a(tA), a(tA))
		case 1:
			return form("cons", a(tA), a(tA))
		case 2:
			return form(g.pick("car", "first", "second"), a(tL))
		case 3:
			return form("nth", num(int64(g.r.IntN(3))), a(tL))
		case 4:
			return form(g.pick("<", "=", ">", "<=", ">="), a(tI), a(tI))
		case 5:
			return form(g.pick("null", "not"), a(tA))
		case 6:
			return form(g.pick("evenp", "zerop"), a(tI))
		case 7:
			return form(g.pick("eql", "equal"), a(tI), a(tI))
		}
		return form("list", a(tA), a(tI), a(tA))
	}
	return nil
}

// lambdaParts generates a parameter list and a body of result type t.
func (g *gen) lambdaParts(parent string, n int, t typ, d int) (*ref.V, []*ref.V) {
	mark := len(g.vars)
	savedWhere := g.where
	if g.fnWhere != "" {
		g.where, g.fnWhere = g.fnWhere, ""
	}
	defer func() { g.where = savedWhere }()
	g.level++
	var ps []*ref.V
	avoid := map[string]bool{}
	for i := 0; i < n; i++ {
		nm, c := g.newName(avoid)
		avoid[nm] = true
		ps = append(ps, sym(nm))
		g.push(nm, tI, c, false)
	}
	body := g.bodyForms(parent, t, d, 1)
	g.level--
	g.vars = g.vars[:mark]
	return list(ps...), body
}

func (g *gen) letForm(kind string, t typ, d int) *ref.V {
	n := g.r.IntN(4)
	var binds []*ref.V
	avoid := map[string]bool{}
	type nb struct {
		n string
		t typ
		c bool
	}
	var pending []nb
	var shadowed []string
	sawFn := false
	for i := 0; i < n; i++ {
		var av map[string]bool
		if kind == "let" {
			av = avoid // duplicate names in one let are not defined
		}
		nm, c := g.newName(av)
		reused := false
		if g.chance(0.35) {
			if rn, ok := g.reuseName(avoid); ok {
				nm, c, reused = rn, g.shadow, true
			}
		}
		if kind == "let*" && sawFn && !g.ok("sequential-binding-later-variable") {
			// open finding: a closure made by an earlier init form must not
			// be able to name this variable - take a name not yet in use
			nm, c, reused = g.freshName(), g.shadow, false
		}
		avoid[nm] = true
		var bt typ
		switch g.r.IntN(10) {
		case 0, 1:
			bt = tL
		case 2:
			bt = tF1
		case 3:
			if g.chance(0.5) {
				bt = tF2
			} else {
				bt = tA
			}
		default:
			bt = tI
		}
		if reused {
			bt = tI
		}
		var b *ref.V
		if bt == tI && 0 < len(shadowed) && g.chance(0.5) {
			// reads a name this same form has (re)bound before: the outer
			// binding in let, the new one in let*
			b = list(sym(nm), g.echo(shadowed))
		} else if (bt == tL || bt == tA) && g.chance(0.15) {
			if g.chance(0.5) {
				b = sym(nm)
			} else {
				b = list(sym(nm))
			}
		} else {
			b = list(sym(nm), g.sub(kind, "init", bt, d))
		}
		binds = append(binds, b)
		if bt == tF1 || bt == tF2 || strings.Contains(b.String(), "(lambda") || strings.Contains(b.String(), "(uf") {
			sawFn = true
		}
		if reused {
			shadowed = append(shadowed, nm)
		}
		if kind == "let*" {
			g.push(nm, bt, c, false)
		} else {
			pending = append(pending, nb{nm, bt, c})
		}
	}
	for _, p := range pending {
		g.push(p.n, p.t, p.c, false)
	}
	return form(kind, append2([]*ref.V{list(binds...)}, g.bodyForms(kind, t, d, 2)...)...)
}

func (g *gen) setqForm(t typ, d int) *ref.V {
	if !isData(t) {
		return nil
	}
	one := func(tt typ) (*ref.V, *ref.V, bool) {
		var v gvar
		var ok bool
		if tt == tA {
			v, ok = g.pickVar(true, tI, tL, tA)
		} else {
			v, ok = g.pickVar(true, tt)
		}
		if !ok {
			if tt == tL {
				return nil, nil, false
			}
			return sym(g.global()), g.sub("setq", "value", tI, d), true
		}
		return sym(v.name), g.sub("setq", "value", v.t, d), true
	}
	n, v, ok := one(t)
	if !ok {
		return nil
	}
	if g.chance(0.15) {
		if n0, v0, ok0 := one(tA); ok0 {
			return form("setq", n0, v0, n, v)
		}
	}
	return form("setq", n, v)
}

// userFunc returns an existing top-level function or defines a new one.
func (g *gen) userFunc(d int) *gfunc {
	var plain []int
	for i, f := range g.funcs {
		if f.mv == 0 && !f.list {
			plain = append(plain, i)
		}
	}
	if 0 < len(plain) && (2 <= len(plain) || g.chance(0.5)) {
		return &g.funcs[plain[g.r.IntN(len(plain))]]
	}
	if g.budget < 4 {
		return nil
	}
	return g.defineFunc(1+g.r.IntN(2), 0, d)
}

// defineFunc generates (defun ufN (params) body) in an empty lexical
// environment. mv > 0 makes the body end in a form returning mv values.
func (g *gen) defineFunc(arity, mv, d int) *gfunc {
	g.nfun++
	name := fmt.Sprintf("uf%d", g.nfun)
	saved, lvl, savedWhere := g.vars, g.level, g.where
	g.vars, g.level, g.where = nil, 0, "any"
	var ps []*ref.V
	avoid := map[string]bool{}
	for i := 0; i < arity; i++ {
		nm, c := g.newName(avoid)
		avoid[nm] = true
		ps = append(ps, sym(nm))
		g.push(nm, tI, c, false)
	}
	var body []*ref.V
	if 0 < mv {
		body = append(g.stmts("defun", d, 1), g.mvExpr("defun", mv, d))
	} else {
		body = g.bodyForms("defun", tI, d, 1)
	}
	g.vars, g.level, g.where = saved, lvl, savedWhere
	g.defs = append(g.defs, form("defun", append2([]*ref.V{sym(name), list(ps...)}, body...)...))
	g.funcs = append(g.funcs, gfunc{name: name, arity: arity, mv: mv})
	return &g.funcs[len(g.funcs)-1]
}

// recForm: a recursive function on a decreasing counter, and a call of it.
func (g *gen) recForm(t typ, d int) *ref.V {
	if t != tI && t != tL && t != tA {
		return nil
	}
	if g.budget < 5 {
		return nil
	}
	g.nfun++
	name := fmt.Sprintf("uf%d", g.nfun)
	saved, lvl, savedWhere := g.vars, g.level, g.where
	g.vars, g.level, g.where = nil, 0, "any"
	g.push("n", tI, false, true)
	var def *ref.V
	wantList := t == tL || (t == tA && g.chance(0.3))
	down := form(name, form("-", sym("n"), num(1)))
	if wantList {
		def = form("defun", sym(name), list(sym("n")),
			form("if", form("<", sym("n"), num(1)), g.sub("rec", "base", tL, d),
				form("cons", g.sub("rec", "step", tI, d), down)))
	} else {
		g.push("acc", tI, false, false)
		down = form(name, form("-", sym("n"), num(1)), g.sub("rec", "step", tI, d))
		switch g.r.IntN(3) {
		case 0: // accumulator passing (tail call)
			def = form("defun", sym(name), list(sym("n"), sym("acc")),
				form("if", form("<", sym("n"), num(1)), g.sub("rec", "base", tI, d), down))
		case 1: // work after the recursive call returns
			def = form("defun", sym(name), list(sym("n"), sym("acc")),
				form("cond", list(form("<=", sym("n"), num(0)), g.sub("rec", "base", tI, d)),
					list(ref.T, form("+", sym("n"), down))))
		default: // two recursive calls (tree recursion)
			def = form("defun", sym(name), list(sym("n"), sym("acc")),
				form("if", form("<", sym("n"), num(1)), g.sub("rec", "base", tI, d),
					form("+", down, form(name, form("-", sym("n"), num(2)), sym("acc")))))
		}
	}
	g.vars, g.level, g.where = saved, lvl, savedWhere
	g.defs = append(g.defs, def)
	g.funcs = append(g.funcs, gfunc{name: name, arity: 2, list: true})
	cnt := num(int64(g.r.IntN(4)))
	if wantList {
		return form(name, cnt)
	}
	return form(name, cnt, g.sub("rec", "arg", tI, d))
}

// closureForm: the canonical closure situations - a counter, two counters
// from one maker, two closures sharing a binding, closures made in a loop.
func (g *gen) closureForm(t typ, d int) *ref.V {
	cap1 := func() string { g.ncap++; return fmt.Sprintf("c%d", g.ncap) }
	usedNames := map[string]bool{}
	poolName := func() string {
		for {
			n := g.pick(poolNames...)
			if !usedNames[n] {
				usedNames[n] = true
				return n
			}
		}
	}
	fname := func() string {
		if g.shadow {
			return poolName()
		}
		return cap1()
	}
	if t == tF1 {
		c := cap1()
		if g.shadow {
			c = poolName()
		}
		init := g.sub("closure", "init", tI, d)
		return form("let", list(list(sym(c), init)),
			form("lambda", list(sym("d")), g.bare(), form("setq", sym(c), form("+", sym(c), sym("d")))))
	}
	if t != tI && t != tA && t != tL {
		return nil
	}
	arg := func() *ref.V { return g.sub("closure", "arg", tI, d) }
	if g.shadow && g.chance(0.3) {
		// the closure is called where its free variable has another binding
		c, f := poolName(), poolName()
		lam := form("lambda", list(sym("d")), form("setq", sym(c), form("+", sym(c), sym("d"))))
		switch g.r.IntN(3) {
		case 0:
			return g.wrapType(t, form("let", list(list(sym(c), g.sub("closure", "init", tI, d))),
				form("let", list(list(sym(f), lam)),
					form("list", form("let", list(list(sym(c), g.lit())), form("funcall", sym(f), arg()), sym(c)), form("funcall", sym(f), num(1)), sym(c)))))
		case 1:
			// passed to a function whose parameter has the same name
			g.nfun++
			name := fmt.Sprintf("uf%d", g.nfun)
			g.defs = append(g.defs, form("defun", sym(name), list(sym("fn"), sym(c)), form("list", form("funcall", sym("fn"), num(2)), sym(c))))
			g.funcs = append(g.funcs, gfunc{name: name, arity: 2, list: true})
			return g.wrapType(t, form("let", list(list(sym(c), g.sub("closure", "init", tI, d))),
				form("append", form(name, lam, g.lit()), form("list", sym(c)))))
		}
		return g.wrapType(t, form("let", list(list(sym(c), g.sub("closure", "init", tI, d))),
			form("let", list(list(sym(f), lam)),
				form("append", form("mapcar", form("lambda", list(sym(c)), form("funcall", sym(f), sym(c))), form("list", arg(), g.lit())), form("list", sym(c))))))
	}
	switch g.r.IntN(5) {
	case 0: // counter, read back through the variable
		c, f := cap1(), fname()
		if g.shadow {
			c = poolName()
		}
		res := form("list", form("funcall", sym(f), arg()), form("funcall", sym(f), arg()), sym(c))
		return g.wrapType(t, form("let", list(list(sym(c), g.sub("closure", "init", tI, d))),
			form("let", list(list(sym(f), form("lambda", list(sym("d")), form("setq", sym(c), form("+", sym(c), sym("d")))))),
				res)))
	case 1: // maker function: two independent counters
		mk := g.makerFunc(d)
		f1, f2 := fname(), fname()
		if f1 == f2 {
			f2 = cap1()
		}
		res := form("list", form("funcall", sym(f1), arg()), form("funcall", sym(f2), arg()), form("funcall", sym(f1), num(1)),
			form("funcall", sym(f2), num(1)))
		return g.wrapType(t, form("let", list(list(sym(f1), form(mk, g.sub("closure", "init", tI, d))), list(sym(f2), form(mk, g.lit()))), res))
	case 2: // two closures over one binding
		c, inc, get := cap1(), fname(), fname()
		if inc == get {
			get = cap1()
		}
		if g.shadow {
			c = poolName()
		}
		res := form("list", form("funcall", sym(get), num(0)), form("funcall", sym(inc), arg()), form("funcall", sym(get), num(0)),
			form("setq", sym(c), g.lit()), form("funcall", sym(get), num(0)))
		return g.wrapType(t, form("let*", list(list(sym(c), g.sub("closure", "init", tI, d)),
			list(sym(inc), form("lambda", list(sym("d")), form("setq", sym(c), form("+", sym(c), sym("d"))))),
			list(sym(get), form("lambda", list(sym("v")), g.bare(), sym(c)))), res))
	case 3: // closures made in a loop, each over its own binding
		fs, ce, e := cap1(), cap1(), cap1()
		body := form("let", list(list(sym(ce), sym(e))),
			form("setq", sym(fs), form("cons", form("lambda", list(sym("d")), form("setq", sym(ce), form("+", sym(ce), sym("d")))), sym(fs))))
		call := form("lambda", list(sym("fn")), form("funcall", sym("fn"), arg()))
		res := form("list", form("mapcar", call, sym(fs)), form("mapcar", call, sym(fs)))
		return g.wrapType(t, form("let", list(list(sym(fs), ref.Nil)),
			form("dolist", list(sym(e), g.sub("closure", "list", tL, d)), body), res))
	}
	// closure defined by defun inside a binding (in compiled mode the calls
	// are forward references)
	g.nfun++
	name := fmt.Sprintf("uf%d", g.nfun)
	if g.chance(0.5) {
		// redefine a function that already exists at top level: the new
		// definition must read the binding of this let
		for _, f := range g.funcs {
			if f.arity == 1 && f.mv == 0 && !f.list {
				name = f.name
			}
		}
	}
	c := cap1()
	if g.shadow {
		c = poolName()
	}
	res := form("list", form(name, arg()), form(name, arg()), sym(c))
	return g.wrapType(t, form("let", list(list(sym(c), g.sub("closure", "init", tI, d))),
		form("defun", sym(name), list(sym("d")), form("setq", sym(c), form("+", sym(c), sym("d")))), res))
}

// wrapType converts a list-of-integers result to the requested type.
func (g *gen) wrapType(t typ, e *ref.V) *ref.V {
	if t == tI {
		return form("apply", form("function", sym("+")), e)
	}
	return e
}

func (g *gen) makerFunc(d int) string {
	g.nfun++
	name := fmt.Sprintf("uf%d", g.nfun)
	c := "s"
	var def *ref.V
	if g.chance(0.5) {
		// the parameter itself is the captured variable
		def = form("defun", sym(name), list(sym(c)), form("lambda", list(sym("d")), form("setq", sym(c), form("+", sym(c), sym("d")))))
	} else {
		def = form("defun", sym(name), list(sym(c)),
			form("let", list(list(sym("k"), form("*", sym(c), num(2)))),
				form("lambda", list(sym("d")), g.bare(), form("setq", sym("k"), form("+", sym("k"), sym("d"))))))
	}
	g.defs = append(g.defs, def)
	g.funcs = append(g.funcs, gfunc{name: name, arity: 1, list: true})
	return name
}

func (g *gen) doForm(kind string, t typ, d int) *ref.V {
	if !isData(t) {
		return nil
	}
	mark := len(g.vars)
	defer func() { g.vars = g.vars[:mark] }()
	i, _ := g.newName(nil)
	sawFn := false
	var shadowed []string
	if g.chance(0.4) {
		if rn, ok := g.reuseName(nil); ok {
			i = rn
			shadowed = append(shadowed, rn)
		}
	}
	avoid := map[string]bool{i: true}
	limit := int64(g.r.IntN(4))
	var specs []*ref.V
	step := form("1+", sym(i))
	if g.chance(0.3) {
		step = form("+", sym(i), num(int64(1+g.r.IntN(2))))
	}
	type nb struct {
		n string
		t typ
	}
	// variable specs: inits see the outer scope (do) or earlier variables
	// (do*); steps see all the loop variables
	specs = append(specs, nil)
	var extra []nb
	var stepsTodo []int
	if kind == "do*" {
		g.push(i, tI, g.shadow, true)
	}
	ne := g.r.IntN(3)
	for k := 0; k < ne; k++ {
		nm, _ := g.newName(avoid)
		reused := false
		if g.chance(0.3) {
			if rn, ok := g.reuseName(avoid); ok {
				nm, reused = rn, true
			}
		}
		if kind == "do*" && sawFn && !g.ok("sequential-binding-later-variable") {
			nm, reused = g.freshName(), false
		}
		avoid[nm] = true
		bt := tI
		if !reused && g.chance(0.25) {
			bt = tL
		}
		var init *ref.V
		if bt == tI && 0 < len(shadowed) && g.chance(0.6) {
			// reads a name an earlier variable of this loop rebinds: the
			// outer binding in do, the loop variable in do*
			init = g.echo(shadowed)
		} else {
			init = g.sub(kind, "init", bt, d)
		}
		if reused {
			shadowed = append(shadowed, nm)
		}
		if strings.Contains(init.String(), "(lambda") || strings.Contains(init.String(), "(uf") {
			sawFn = true
		}
		if g.chance(0.2) {
			specs = append(specs, list(sym(nm), init))
		} else {
			specs = append(specs, list(sym(nm), init, nil))
			stepsTodo = append(stepsTodo, len(specs)-1)
		}
		extra = append(extra, nb{nm, bt})
		if kind == "do*" {
			g.push(nm, bt, g.shadow, false)
		}
	}
	if kind == "do" {
		g.push(i, tI, g.shadow, true)
		for _, e := range extra {
			g.push(e.n, e.t, g.shadow, false)
		}
	}
	specs[0] = list(sym(i), num(0), step)
	for _, k := range stepsTodo {
		sp := specs[k]
		var bt typ
		for _, e := range extra {
			if e.n == sp.L[0].S {
				bt = e.t
			}
		}
		sp.L[2] = g.sub(kind, "step", bt, d)
	}
	test := form(g.pick(">=", ">"), sym(i), num(limit))
	if g.chance(0.2) {
		test = g.mark(test)
	}
	if g.chance(0.15) {
		// the end test is an atom: a variable holding the test value
		specs = append(specs, list(sym("done"), ref.Nil, test))
		test = sym("done")
	}
	end := []*ref.V{test}
	if t != tA || g.chance(0.7) {
		end = append(end, g.stmts(kind, d, 1)...)
		end = append(end, g.sub(kind, "result", t, d))
	}
	return form(kind, append2([]*ref.V{list(specs...), list(end...)}, g.loopBody(kind, d)...)...)
}

// mvExpr produces a form returning n values (integers), reached through
// the forms that pass multiple values on.
func (g *gen) mvExpr(parent string, n, d int) *ref.V {
	g.budget--
	vals := func() *ref.V {
		if n == 0 || g.chance(0.05) {
			return form("values")
		}
		args := make([]*ref.V, n)
		for i := range args {
			args[i] = g.sub("values", "arg", tI, d)
		}
		return form("values", args...)
	}
	if g.maxDepth <= d || g.budget <= 0 || g.chance(0.35) {
		return vals()
	}
	mark := len(g.vars)
	defer func() { g.vars = g.vars[:mark] }()
	through := []string{"progn", "if", "when", "unless", "cond", "case", "and", "or", "let", "let*", "function-body", "lambda-call",
		"dolist-result", "dotimes-result", "do-result", "do*-result", "multiple-value-bind", "prog1", "setq", "apply"}
	for try := 0; try < 4; try++ {
		k := through[g.r.IntN(len(through))]
		for _, th := range through {
			if g.dirty["mv-through:"+th] && g.chance(0.5) {
				k = th
			}
		}
		if !g.ok("mv-through:"+k) || !g.ok("mv-into:"+k) {
			continue
		}
		inner := func() *ref.V { return g.mvExpr(k, n, d+1) }
		switch k {
		case "progn":
			return form("progn", append(g.stmts("progn", d, 1), inner())...)
		case "if":
			return form("if", g.test("if", d, 0), inner(), inner())
		case "when":
			return form("when", g.truthy(d), inner())
		case "unless":
			return form("unless", g.falsy(d), inner())
		case "cond":
			return form("cond", list(g.test("cond", d, 0), inner()), list(ref.T, inner()))
		case "case":
			return form("case", g.sub("case", "key", tI, d), list(num(0), inner()), list(ref.T, inner()))
		case "and":
			return form("and", g.truthy(d), inner())
		case "or":
			return form("or", g.falsy(d), inner())
		case "let", "let*":
			nm, c := g.newName(nil)
			init := g.sub(k, "init", tI, d)
			g.push(nm, tI, c, false)
			return form(k, list(list(sym(nm), init)), inner())
		case "function-body":
			if g.chance(0.5) {
				f := g.defineFunc(1, n, d)
				return form(f.name, g.sub("ucall", "arg", tI, d))
			}
			nm, c := g.newName(nil)
			arg := g.sub("funcall", "arg", tI, d)
			g.level++
			g.push(nm, tI, c, false)
			b := inner()
			g.level--
			return form("funcall", form("lambda", list(sym(nm)), b), arg)
		case "lambda-call":
			nm, c := g.newName(nil)
			arg := g.sub("lambda-call", "arg", tI, d)
			g.level++
			g.push(nm, tI, c, false)
			b := inner()
			g.level--
			return list(form("lambda", list(sym(nm)), b), arg)
		case "apply":
			nm, c := g.newName(nil)
			arg := g.sub("apply", "arg", tI, d)
			g.level++
			g.push(nm, tI, c, false)
			b := inner()
			g.level--
			return form("apply", form("lambda", list(sym(nm)), b), form("list", arg))
		case "dolist-result":
			nm, _ := g.loopName()
			lst := g.sub("dolist", "list", tL, d)
			g.push(nm, tA, g.shadow, true)
			return form("dolist", list(sym(nm), lst, inner()), g.bare())
		case "dotimes-result":
			nm, _ := g.loopName()
			g.push(nm, tI, g.shadow, true)
			return form("dotimes", list(sym(nm), num(int64(g.r.IntN(3))), inner()), g.bare())
		case "do-result", "do*-result":
			nm, _ := g.loopName()
			g.push(nm, tI, g.shadow, true)
			return form(strings.TrimSuffix(k, "-result"), list(list(sym(nm), num(0), form("1+", sym(nm)))), list(form(">=", sym(nm), num(int64(g.r.IntN(3)))), inner()), g.bare())
		case "multiple-value-bind":
			nm, c := g.newName(nil)
			src := g.mvExpr("mvb", 2, d+1)
			g.push(nm, tA, c, false)
			return form("multiple-value-bind", list(sym(nm)), src, inner())
		case "prog1":
			// prog1 returns the primary value of its first form only
			return form("prog1", inner(), g.bare())
		case "setq":
			if v, ok := g.pickVar(true, tI); ok {
				return form("setq", sym(v.name), inner())
			}
		}
	}
	return vals()
}

// program generates a whole program: definitions followed by a main form.
func (g *gen) program(parentKind string, t typ) []*ref.V {
	var main *ref.V
	if parentKind != "" {
		main = g.kindExpr(parentKind, t, 0)
		if main == nil {
			return nil
		}
	} else {
		main = g.expr(t, 0)
		var extra []*ref.V
		for _, k := range dirtyKeys {
			if g.dirty[k] {
				if sn := g.snippet(k); sn != nil {
					extra = append(extra, sn)
				}
			}
		}
		if 0 < len(extra) {
			main = form("list", append(extra, main)...)
		}
	}
	var forms []*ref.V
	for _, n := range g.globals {
		forms = append(forms, form("defvar", sym(n), num(0)))
	}
	forms = append(forms, g.defs...)
	// the main form's value and the final state of the globals
	res := []*ref.V{main}
	for _, n := range g.globals {
		res = append(res, sym(n))
	}
	if 1 < len(res) {
		main = form("list", res...)
	}
	return append(forms, main)
}

// snippet builds a small form around the listed construct a dirty case asks
// for, so that the construct is really present next to the random program.
func (g *gen) snippet(note string) *ref.V {
	d := g.maxDepth - 2
	if d < 0 {
		d = 0
	}
	i := func() *ref.V { return g.sub("call", "arg", tI, d) }
	vals := func() *ref.V { return form("values", i(), i()) }
	switch note {
	case "cond-test-only":
		return form("cond", list(g.sub("cond", "test", tA, d)), list(ref.T, i()))
	case "do-nostep", "do-test-atom":
		return g.kindExpr("do", tA, d)
	case "do*-nostep", "do*-test-atom":
		return g.kindExpr("do*", tA, d)
	case "funcall-0":
		return form("funcall", form("lambda", ref.Nil, g.bare(), i()))
	case "values-0":
		return form("list", i(), form("values"))
	case "mapcar-empty-list":
		return form("mapcar", g.leaf(tF1), form("cdr", form("list", i())))
	case "mv-through:progn":
		return form("multiple-value-list", form("progn", g.bare(), vals()))
	case "mv-into:setq":
		return form("let", list(list(sym("z"), num(0))), form("multiple-value-list", form("setq", sym("z"), vals())))
	case "mv-into:test":
		return form(g.pick("if", "when", "unless"), form("values", g.sub("if", "test", tA, d), i()), g.mark(num(1)), g.mark(num(2)))
	case "mv-into:and", "mv-into:or":
		return form(note[len("mv-into:"):], form("values", g.sub("and", "arg", tA, d), i()), g.mark(num(1)))
	case "mv-into:let-init", "mv-into:let*-init":
		k := note[len("mv-into:") : len(note)-len("-init")]
		return form(k, list(list(sym("z"), vals())), form("multiple-value-list", sym("z")))
	case "mv-into:mapcar-result":
		return form("mapcar", form("lambda", list(sym("w")), form("values", sym("w"), i())), form("list", i(), i()))
	case "sequential-binding-later-variable":
		k, f := g.pick(poolNames...), g.freshName()
		lam := form("lambda", ref.Nil, g.bare(), sym(k))
		if g.chance(0.5) {
			return form("let", list(list(sym(k), i())), form("let*", list(list(sym(f), lam), list(sym(k), i())), form("list", form("funcall", sym(f)), sym(k))))
		}
		return form("let", list(list(sym(k), i())),
			form("do*", list(list(sym(f), lam), list(sym(k), i()), list(sym("n"), num(0), form("1+", sym("n")))), list(form(">", sym("n"), num(0)), form("list", form("funcall", sym(f)), sym(k)))))
	case "dynleak":
		return g.closureForm(tA, d)
	case "lambda-call-bare-free-variable":
		return form("funcall", form("lambda", list(sym("a")), list(form("lambda", list(sym("b")), g.bare(), sym("a")), i())), i())
	}
	if strings.HasPrefix(note, "quote-shorthand") {
		for try := 0; try < 200; try++ {
			dat := datum(g.r, 0)
			fs := []*ref.V{ref.Quote(dat)}
			notes := map[string]bool{}
			ref.StaticNotes(fs, notes)
			if notes[note] {
				return form("list", fs[0], g.bare())
			}
		}
	}
	return nil
}

// fnListForm: functions as data - held in a list, taken out with car / nth /
// second or mapped over, then called.
func (g *gen) fnListForm(t typ, d int) *ref.V {
	if !isData(t) {
		return nil
	}
	n := 2 + g.r.IntN(2)
	arg := func() *ref.V { return g.sub("fnlist", "arg", tI, d) }
	if t == tI && g.chance(0.3) {
		fs := make([]*ref.V, n)
		for i := range fs {
			fs[i] = g.sub("fnlist", "fn", tF2, d)
		}
		return form("apply", form("nth", num(int64(g.r.IntN(n))), form("list", fs...)), arg(), form("list", arg()))
	}
	fs := make([]*ref.V, n)
	for i := range fs {
		fs[i] = g.sub("fnlist", "fn", tF1, d)
	}
	lst := form("list", fs...)
	f, _ := g.newName(nil)
	switch t {
	case tI:
		switch g.r.IntN(3) {
		case 0:
			return form("funcall", form("nth", num(int64(g.r.IntN(n))), lst), arg())
		case 1:
			return form("funcall", form(g.pick("car", "second"), lst), arg())
		}
		return form("apply", form("car", form("cdr", lst)), form("list", arg()))
	case tL:
		a := arg()
		return form("mapcar", form("lambda", list(sym(f)), form("funcall", sym(f), a)), lst)
	}
	// a list of functions bound to a variable, used several times
	return form("let", list(list(sym(f), lst)),
		form("list", form("funcall", form("car", sym(f)), arg()), form("mapcar", form("second", sym(f)), g.sub("fnlist", "list", tL, d)),
			form("mapcar", form("lambda", list(sym("fn")), form("funcall", sym("fn"), num(1))), sym(f))))
}

// lambdaListForm: a function with &optional / &rest / &key parameters whose
// init forms see the parameters to their left, called with some of the
// arguments absent.
func (g *gen) lambdaListForm(t typ, d int) *ref.V {
	if !isData(t) {
		return nil
	}
	style := g.r.IntN(3) // 0 funcall of a lambda, 1 lambda in operator position, 2 defun
	saved, lvl, savedWhere := g.vars, g.level, g.where
	mark := len(g.vars)
	if style == 2 {
		g.vars, g.level, g.where = nil, 0, "any"
	} else {
		g.level++
	}
	// parameter names differ from every visible variable: an init form may
	// then not mention a parameter to its right (how slip orders supplied
	// keyword arguments and defaults there is C04's subject)
	avoid := map[string]bool{}
	for _, v := range g.vars {
		avoid[v.name] = true
	}
	name := func() string {
		n, _ := g.newName(avoid)
		avoid[n] = true
		return n
	}
	p1 := name()
	g.push(p1, tI, true, false)
	ll := []*ref.V{sym(p1)}
	variant := g.r.IntN(4)
	var ints, anys []string // parameters that are integers / anything
	var rest string
	var keys []string
	ints = append(ints, p1)
	opt := func(kw bool) {
		p2 := name()
		ll = append(ll, list(sym(p2), g.sub("ll", "init", tI, d)))
		g.push(p2, tI, true, false)
		ints = append(ints, p2)
		if kw {
			keys = append(keys, p2)
		}
		if g.chance(0.5) {
			p3 := name()
			if g.chance(0.5) {
				ll = append(ll, sym(p3))
			} else {
				ll = append(ll, list(sym(p3), ref.Nil))
			}
			g.push(p3, tA, true, false)
			anys = append(anys, p3)
			if kw {
				keys = append(keys, p3)
			}
		}
	}
	nopt := 0
	switch variant {
	case 0:
		ll = append(ll, sym("&optional"))
		opt(false)
		nopt = len(ll) - 2
	case 1:
		rest = name()
		ll = append(ll, sym("&rest"), sym(rest))
	case 2:
		ll = append(ll, sym("&key"))
		opt(true)
	default:
		ll = append(ll, sym("&optional"))
		opt(false)
		nopt = len(ll) - 2
		rest = name()
		ll = append(ll, sym("&rest"), sym(rest))
	}
	if rest != "" {
		g.push(rest, tL, true, false)
	}
	body := g.stmts("lambda", d, 1)
	var parts []*ref.V
	for _, n := range ints {
		parts = append(parts, sym(n))
	}
	switch t {
	case tI:
		if rest != "" {
			parts = append(parts, form("length", sym(rest)))
		}
		body = append(body, form("+", parts...))
	case tL:
		if rest != "" {
			body = append(body, form("append", form("list", parts...), sym(rest)))
		} else {
			body = append(body, form("list", parts...))
		}
	default:
		for _, n := range anys {
			parts = append(parts, sym(n))
		}
		if rest != "" {
			parts = append(parts, sym(rest))
		}
		body = append(body, form("list", parts...))
	}
	g.vars, g.level, g.where = saved, lvl, savedWhere
	g.vars = g.vars[:mark]
	// the arguments
	args := []*ref.V{g.sub("ll", "arg", tI, d)}
	for i := 0; i < nopt && g.chance(0.5); i++ {
		args = append(args, g.sub("ll", "arg", tI, d))
	}
	if rest != "" && len(args) == 1+nopt {
		for i := g.r.IntN(4); 0 < i; i-- {
			args = append(args, g.sub("ll", "arg", tI, d))
		}
	}
	perm := g.r.Perm(len(keys))
	for _, k := range perm {
		if g.chance(0.5) {
			args = append(args, sym(":"+keys[k]), g.sub("ll", "arg", tI, d))
		}
	}
	lam := append2([]*ref.V{list(ll...)}, body...)
	switch style {
	case 0:
		return form("funcall", append2([]*ref.V{form("lambda", lam...)}, args...)...)
	case 1:
		return list(append2([]*ref.V{form("lambda", lam...)}, args...)...)
	}
	g.nfun++
	fname := fmt.Sprintf("uf%d", g.nfun)
	g.defs = append(g.defs, form("defun", append2([]*ref.V{sym(fname)}, lam...)...))
	g.funcs = append(g.funcs, gfunc{name: fname, arity: 1, list: true})
	return list(append2([]*ref.V{sym(fname)}, args...)...)
}

// loopClosureForm: closures over loop variables. do/do* assign one binding
// (specified); within one dolist/dotimes iteration the variable is the
// element (specified); a dolist/dotimes variable used after its iteration
// is judged under both rules the language permits.
func (g *gen) loopClosureForm(t typ, d int) *ref.V {
	if t != tL && t != tA {
		return nil
	}
	fs, _ := g.newName(nil)
	v, _ := g.newName(map[string]bool{fs: true})
	arg := g.sub("loopclosure", "arg", tI, d)
	call := form("mapcar", form("lambda", list(sym("fn")), form("funcall", sym("fn"), arg)), sym(fs))
	lim := num(int64(1 + g.r.IntN(3)))
	switch g.r.IntN(5) {
	case 0: // do: every closure sees the one binding and its final value
		return form("let", list(list(sym(fs), ref.Nil)),
			form("do", list(list(sym(v), num(0), form("1+", sym(v)))), list(form(">=", sym(v), lim)),
				form("setq", sym(fs), form("cons", form("lambda", list(sym("d")), g.bare(), form("+", sym(v), sym("d"))), sym(fs)))),
			call)
	case 1: // do*: closures also assign a stepped variable
		w, _ := g.newName(map[string]bool{fs: true, v: true})
		return form("let", list(list(sym(fs), ref.Nil)),
			form("do*", list(list(sym(v), num(0), form("1+", sym(v))), list(sym(w), g.lit(), form("+", sym(w), sym(v)))), list(form(">=", sym(v), lim), call),
				form("setq", sym(fs), form("cons", form("lambda", list(sym("d")), form("setq", sym(w), form("+", sym(w), sym("d")))), sym(fs)))))
	case 2: // dolist: created and called within the iteration
		return form("let", list(list(sym(fs), ref.Nil)),
			form("dolist", list(sym(v), g.sub("loopclosure", "list", tL, d), form("reverse", sym(fs))),
				form("setq", sym(fs), form("cons", form("funcall", form("lambda", list(sym("d")), g.bare(), form("+", sym(v), sym("d"))), arg), sym(fs)))))
	case 3: // dolist: called after the loop (either permitted rule)
		return form("let", list(list(sym(fs), ref.Nil)),
			form("dolist", list(sym(v), g.sub("loopclosure", "list", tL, d)),
				form("setq", sym(fs), form("cons", form("lambda", list(sym("d")), form("list", sym(v), sym("d"))), sym(fs)))),
			call)
	}
	// dotimes: called after the loop (either permitted rule)
	return form("let", list(list(sym(fs), ref.Nil)),
		form("dotimes", list(sym(v), lim),
			form("setq", sym(fs), form("cons", form("lambda", list(sym("d")), form("+", sym(v), sym("d"))), sym(fs)))),
		call)
}
