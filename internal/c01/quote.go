package c01

import (
	"math/rand/v2"

	"verif/internal/c01/ref"
)

// datum builds a random datum over every kind the quote clause names.
func datum(r *rand.Rand, d int) *ref.V {
	pick := func(xs ...string) string { return xs[r.IntN(len(xs))] }
	n := 16
	if 2 <= d {
		n = 11 // atoms only
	}
	switch r.IntN(n) {
	case 0:
		return ref.Int(int64(r.IntN(2001) - 1000))
	case 1:
		return ref.Num(pick("12345678901234567890123", "-98765432109876543210", "18446744073709551616"))
	case 2:
		return ref.Num(pick("3/4", "-7/3", "1/1000", "22/7"))
	case 3:
		return ref.Num(pick("1.5d0", "-0.25d0", "1.0d10", "2.5f0", "-1.25f0", "1.5L0", "0.5d0", "3.0f0"))
	case 4:
		return ref.Str(pick("", "abc", "a b", "q\"uote", "back\\slash", "(not a list)", "'x"))
	case 5:
		return ref.Char([]rune("aZ1+")[r.IntN(4)])
	case 6:
		return ref.Sym(pick("foo", "bar-baz", "*star*", "+", "x", "car", "lambda", "quote", "if", "let", "setq", "defun", "otherwise"))
	case 7:
		return ref.Sym(pick(":k", ":key-word", ":test"))
	case 8:
		return ref.Nil
	case 9:
		return ref.T
	case 10:
		return ref.Int(int64(r.IntN(5)))
	case 11: // proper list
		k := r.IntN(4)
		es := make([]*ref.V, k)
		for i := range es {
			es[i] = datum(r, d+1)
		}
		return ref.List(es...)
	case 12: // dotted list
		k := 1 + r.IntN(2)
		es := make([]*ref.V, k)
		for i := range es {
			es[i] = datum(r, d+1)
		}
		tail := datum(r, 2)
		for tail.IsNil() {
			tail = datum(r, 2)
		}
		return ref.Dotted(tail, es...)
	case 13: // vector
		k := r.IntN(4)
		es := make([]*ref.V, k)
		for i := range es {
			es[i] = datum(r, d+1)
		}
		return ref.Vec(es...)
	case 14: // nested quote
		if r.IntN(2) == 0 {
			return ref.Quote(datum(r, d+1))
		}
		return ref.L("quote", datum(r, d+1))
	}
	// data that look like forms
	switch r.IntN(8) {
	case 0:
		return ref.L("car", ref.Sym("x"))
	case 1:
		return ref.L("lambda", ref.List(ref.Sym("x")), ref.Sym("x"))
	case 2:
		return ref.L("if", ref.Sym("a"), ref.Sym("b"), ref.Sym("c"))
	case 3:
		return ref.L("let", ref.List(ref.List(ref.Sym("a"), ref.Int(1))), ref.Sym("a"))
	case 4:
		return ref.L("setq", ref.Sym("q"), ref.Int(1))
	case 5:
		return ref.L("vtr", ref.Int(99))
	case 6:
		return ref.L("list", ref.Int(1), ref.L("vtr", ref.Int(98), ref.Int(2)))
	}
	return ref.L("undefined-function-zz", ref.Int(1), datum(r, d+1))
}

// quoteCase: a program whose value is made of quoted data only.
func quoteCase(r *rand.Rand, compile bool) Case {
	d := datum(r, 0)
	q := func() *ref.V {
		if r.IntN(2) == 0 {
			return ref.Quote(d.Clone())
		}
		return ref.L("quote", d.Clone())
	}
	var forms []*ref.V
	switch r.IntN(10) {
	case 0:
		forms = []*ref.V{ref.Quote(d)}
	case 1:
		forms = []*ref.V{ref.L("quote", d)}
	case 2:
		forms = []*ref.V{ref.L("list", q(), q())}
	case 3:
		forms = []*ref.V{ref.L("let", ref.List(ref.List(ref.Sym("x"), q())), ref.Sym("x"))}
	case 4:
		forms = []*ref.V{ref.L("funcall", ref.L("lambda", ref.List(ref.Sym("a")), ref.Sym("a")), q())}
	case 5: // the same quote form evaluated repeatedly
		forms = []*ref.V{ref.L("let", ref.List(ref.List(ref.Sym("acc"), ref.Nil)),
			ref.L("dotimes", ref.List(ref.Sym("i"), ref.Int(3)), ref.L("setq", ref.Sym("acc"), ref.L("cons", q(), ref.Sym("acc")))),
			ref.Sym("acc"))}
	case 6:
		forms = []*ref.V{ref.L("defun", ref.Sym("uf1"), ref.Nil, q()), ref.L("list", ref.L("uf1"), ref.L("uf1"))}
	case 7:
		forms = []*ref.V{ref.L("if", ref.T, q(), ref.Quote(ref.Sym("other")))}
	case 8:
		forms = []*ref.V{ref.L("vtr", ref.Int(1), q())}
	default:
		forms = []*ref.V{ref.L("multiple-value-list", ref.L("values", q(), ref.Quote(datum(r, 1))))}
	}
	return Case{Kind: "quote", Src: srcOf(forms), Compile: compile}
}
