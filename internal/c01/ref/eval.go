package ref

import (
	"fmt"
	"sort"
	"strings"
)

// Func is a function object of the reference evaluator.
type Func struct {
	Name    string
	Params  []string
	Body    []*V
	Env     *Env
	Builtin func(ev *Ev, args []*V) []*V
	Opt     []Param
	Rest    string
	Keys    []Param
	HasKey  bool
	active  int
}

// Param is an &optional or &key parameter with its init form (or nil).
type Param struct {
	Name string
	Init *V
}

type cell struct{ v *V }

// Env is one frame of the lexical environment. lex is the enclosing frame.
// dyn is NOT part of the semantics: it records, for function-call frames,
// the frame of the call site, so that an execution in which "look in the
// caller first" would find a different binding than lexical lookup can be
// labelled (note "dynleak"); the verdict never depends on it.
type Env struct {
	names  []string
	cells  []*cell
	lex    *Env
	dyn    *Env
	call   bool      // frame of a function call (parameters)
	exited bool      // the form that made the frame has returned
	iter   bool      // frame of one iteration of dolist / dotimes
	grp    *seqGroup // frames of one sequential binding form (let*, do*, a lambda list)
	idx    int
}

// seqGroup: the frames a sequential binding form opens one after the other.
type seqGroup struct{ frames []*Env }

func (g *seqGroup) open(lex *Env) *Env {
	f := &Env{lex: lex, grp: g, idx: len(g.frames)}
	g.frames = append(g.frames, f)
	return f
}

// laterBinding tells whether the lexical search for name, starting at e,
// passes a frame of a sequential binding form whose form binds the same
// name further to the right: code that keeps all variables of such a form
// in one scope would find that later variable instead (labelling only).
func (e *Env) laterBinding(name string) bool {
	for f := e; f != nil; f = f.lex {
		if f.grp != nil {
			for _, l := range f.grp.frames[f.idx+1:] {
				if l.local(name) != nil {
					return true
				}
			}
		}
		if f.local(name) != nil {
			return false
		}
	}
	return false
}

func (e *Env) local(name string) *cell {
	for i := len(e.names) - 1; 0 <= i; i-- {
		if e.names[i] == name {
			return e.cells[i]
		}
	}
	return nil
}

func (e *Env) bind(name string, v *V) {
	e.names = append(e.names, name)
	e.cells = append(e.cells, &cell{v: v})
}

func (e *Env) lookup(name string) *cell {
	for f := e; f != nil; f = f.lex {
		if c := f.local(name); c != nil {
			return c
		}
	}
	return nil
}

// how describes a lexical access: through a function boundary (captured
// variable) and/or into a frame whose form has already returned (the
// closure escaped its binding form).
func (e *Env) how(name string) (captured, escaped bool) {
	for f := e; f != nil; f = f.lex {
		if c := f.local(name); c != nil {
			if f.iter && f.exited {
				staleIter = true
			}
			return captured, f.exited
		}
		if f.call {
			captured = true
		}
	}
	return false, false
}

// staleIter is raised when a dolist/dotimes variable is reached after its
// iteration ended: the language leaves open whether each iteration has its
// own binding (see Ev.LoopAssign).
var staleIter bool

// callerFirst finds the binding a "call-site frame first, then defining
// frame" search would reach (labelling only).
func (e *Env) callerFirst(name string, seen map[*Env]bool) *cell {
	if e == nil || seen[e] {
		return nil
	}
	seen[e] = true
	if c := e.local(name); c != nil {
		return c
	}
	if e.dyn != nil {
		if c := e.dyn.callerFirst(name, seen); c != nil {
			return c
		}
	}
	return e.lex.callerFirst(name, seen)
}

// TraceEntry is one observed side effect: marker K, and the value passed
// through the marker (Val == "-" for a bare marker).
type TraceEntry struct {
	K   int64
	Val string
}

func (t TraceEntry) String() string { return fmt.Sprintf("%d:%s", t.K, t.Val) }

// Error is a signalled condition (or a limit) in the reference evaluator.
type Error struct {
	Class string // program-error, type-error, unbound-variable, undefined-function, limit
	Msg   string
}

func (e *Error) Error() string { return e.Class + ": " + e.Msg }

// Ev is one evaluation context.
type Ev struct {
	Trace    []TraceEntry
	Notes    map[string]bool
	Steps    int
	MaxSteps int
	MaxInt   int64
	// LoopAssign: dolist and dotimes establish one binding and assign it on
	// every iteration (the other behaviour the language permits is a new
	// binding per iteration, the default here).
	LoopAssign bool
	globals    map[string]*cell
	funcs      map[string]*Func
	depth      int
}

// New creates an evaluator with the given step budget.
func New(maxSteps int) *Ev {
	return &Ev{Notes: map[string]bool{}, MaxSteps: maxSteps, MaxInt: 1 << 40,
		globals: map[string]*cell{}, funcs: map[string]*Func{}}
}

// NoteList returns the sorted notes.
func (ev *Ev) NoteList() []string {
	out := make([]string, 0, len(ev.Notes))
	for k := range ev.Notes {
		out = append(out, k)
	}
	sort.Strings(out)
	return out
}

func (ev *Ev) note(n string) { ev.Notes[n] = true }

func fail(class, format string, a ...any) {
	panic(&Error{Class: class, Msg: fmt.Sprintf(format, a...)})
}

// Run evaluates the top-level forms in order and returns the values of the
// last one.
func (ev *Ev) Run(forms []*V) (vals []*V, err *Error) {
	defer func() {
		if r := recover(); r != nil {
			if e, ok := r.(*Error); ok {
				err = e
				return
			}
			panic(r)
		}
	}()
	top := &Env{}
	vals = []*V{Nil}
	for _, f := range forms {
		vals = ev.eval(f, top)
	}
	return
}

func (ev *Ev) tick() {
	ev.Steps++
	if ev.MaxSteps < ev.Steps {
		fail("limit", "step budget exhausted")
	}
}

func one(v *V) []*V { return []*V{v} }

// isMV tells whether a result is not an ordinary single value: a count other
// than one, or a value list made by VALUES and handed on unchanged (VALUES
// allocates spare capacity, every other producer does not).
func isMV(vs []*V) bool { return len(vs) != 1 || len(vs) < cap(vs) }

func primary(vs []*V) *V {
	if len(vs) == 0 {
		return Nil
	}
	return vs[0]
}

func truth(b bool) *V {
	if b {
		return T
	}
	return Nil
}

// eval1 evaluates a form for its primary value; where names the consumer
// for the "multiple values reach a single-value position" note.
func (ev *Ev) eval1(f *V, env *Env, where string) *V {
	vs := ev.eval(f, env)
	if isMV(vs) {
		ev.note("mv-into:" + where)
	}
	return primary(vs)
}

func (ev *Ev) body(forms []*V, env *Env, kind string) []*V {
	vs := one(Nil)
	for _, f := range forms {
		vs = ev.eval(f, env)
	}
	if isMV(vs) {
		ev.note("mv-through:" + kind)
	}
	return vs
}

func (ev *Ev) getVar(name string, env *Env) *V {
	if c := env.lookup(name); c != nil {
		if d := env.callerFirst(name, map[*Env]bool{}); d != c {
			ev.note("dynleak")
		}
		staleIter = false
		cp, esc := env.how(name)
		if staleIter {
			ev.note("loop-variable-after-its-iteration")
		}
		if env.laterBinding(name) {
			ev.note("sequential-binding-later-variable")
		}
		if cp {
			ev.note("closure:captured-read")
			if esc {
				ev.note("closure:read-after-binding-form-returned")
			}
		}
		return c.v
	}
	if d := env.callerFirst(name, map[*Env]bool{}); d != nil {
		ev.note("dynleak")
	}
	if c := ev.globals[name]; c != nil {
		return c.v
	}
	fail("unbound-variable", "variable %s is unbound", name)
	return nil
}

func (ev *Ev) setVar(name string, v *V, env *Env) {
	if c := env.lookup(name); c != nil {
		if d := env.callerFirst(name, map[*Env]bool{}); d != c {
			ev.note("dynleak")
		}
		staleIter = false
		cp, esc := env.how(name)
		if staleIter {
			ev.note("loop-variable-after-its-iteration")
		}
		if env.laterBinding(name) {
			ev.note("sequential-binding-later-variable")
		}
		if cp {
			ev.note("closure:captured-write")
			if esc {
				ev.note("closure:write-after-binding-form-returned")
			}
		}
		c.v = v
		return
	}
	if d := env.callerFirst(name, map[*Env]bool{}); d != nil {
		ev.note("dynleak")
	}
	if c := ev.globals[name]; c != nil {
		c.v = v
		return
	}
	fail("unbound-variable", "setq of undeclared variable %s", name)
}

func symName(v *V, what string) string {
	if v.K != KSym || v == Nil || v == T || strings.HasPrefix(v.S, ":") {
		fail("program-error", "%s must be a variable name, not %s", what, v)
	}
	if _, isFn := builtins[v.S]; isFn || special[v.S] != nil || v.S == "e" || v.S == "pi" {
		// kept out of the subset: names of operators and of constants
		fail("program-error", "%s %s is the name of an operator or constant", what, v)
	}
	return v.S
}

func properList(v *V, what string) []*V {
	if v.IsNil() {
		return nil
	}
	if v.K != KList || v.Tail != nil {
		fail("type-error", "%s must be a proper list, not %s", what, v)
	}
	return v.L
}

func (ev *Ev) eval(f *V, env *Env) []*V {
	ev.Steps++
	if ev.MaxSteps < ev.Steps {
		fail("limit", "step budget exhausted")
	}
	switch f.K {
	case KInt, KStr, KChar, KNum, KVec, KFn:
		return one(f)
	case KSym:
		if f == Nil || f == T || strings.HasPrefix(f.S, ":") {
			return one(f)
		}
		return one(ev.getVar(f.S, env))
	case KQuote:
		return one(f.L[0])
	}
	// a list form
	if f.Tail != nil {
		fail("program-error", "dotted form %s", f)
	}
	ev.depth++
	if 400 < ev.depth {
		fail("limit", "recursion too deep")
	}
	defer func() { ev.depth-- }()
	head := f.L[0]
	args := f.L[1:]
	if head.K == KList && head.Head() == "lambda" {
		fn := ev.makeLambda(head.L[1:], env, "")
		ev.note("form:lambda-call")
		return ev.apply(fn, ev.evalArgs(args, env, "lambda-call"), env, "lambda-call")
	}
	if head.K != KSym {
		fail("program-error", "illegal function position %s", head)
	}
	if sf, ok := special[head.S]; ok {
		return sf(ev, args, env, f)
	}
	before := ev.funcs[head.S]
	argv := ev.evalArgs(args, env, "call")
	fn := ev.funcs[head.S]
	if fn != before {
		// the language does not say whether the operator of a function form
		// is looked up before or after its arguments are evaluated
		fail("unspecified", "function %s is (re)defined while its arguments are evaluated", head.S)
	}
	if fn == nil {
		fn = builtins[head.S]
	}
	if fn == nil {
		fail("undefined-function", "function %s is undefined", head.S)
	}
	return ev.applyFn(fn, argv, env, "call")
}

func (ev *Ev) evalArgs(forms []*V, env *Env, where string) []*V {
	out := make([]*V, len(forms))
	for i, a := range forms {
		out[i] = ev.eval1(a, env, "arg")
	}
	return out
}

func (ev *Ev) makeLambda(spec []*V, env *Env, name string) *V {
	if len(spec) < 1 {
		fail("program-error", "lambda needs a parameter list")
	}
	fn := &Func{Name: name, Body: spec[1:], Env: env}
	mode := 0 // required, &optional, &rest, &key
	seen := map[string]bool{}
	for _, p := range properList(spec[0], "lambda list") {
		if p.K == KSym && strings.HasPrefix(p.S, "&") {
			switch {
			case p.S == "&optional" && mode == 0:
				mode = 1
			case p.S == "&rest" && mode <= 1:
				mode = 2
			case p.S == "&key" && mode <= 3 && !fn.HasKey:
				mode, fn.HasKey = 4, true
			default:
				fail("program-error", "lambda list keyword %s misplaced or not supported", p.S)
			}
			continue
		}
		var nm string
		var init *V
		switch {
		case p.K == KSym:
			nm = symName(p, "parameter")
		case (mode == 1 || mode == 4) && p.K == KList && p.Tail == nil && len(p.L) == 2:
			nm, init = symName(p.L[0], "parameter"), p.L[1]
		default:
			fail("program-error", "bad parameter %s", p)
		}
		if seen[nm] {
			fail("program-error", "parameter %s occurs twice", nm)
		}
		seen[nm] = true
		switch mode {
		case 0:
			fn.Params = append(fn.Params, nm)
		case 1:
			fn.Opt = append(fn.Opt, Param{nm, init})
		case 2:
			fn.Rest, mode = nm, 3
		case 3:
			fail("program-error", "more than one &rest parameter")
		case 4:
			fn.Keys = append(fn.Keys, Param{nm, init})
		}
	}
	if mode == 2 {
		fail("program-error", "&rest without a parameter")
	}
	return &V{K: KFn, Fn: fn}
}

// bindArgs binds the arguments of a call according to the lambda list;
// init forms see the parameters to their left.
func (ev *Ev) bindArgs(fn *Func, args []*V, fr *Env) *Env {
	grp := &seqGroup{}
	fr.grp = grp
	grp.frames = append(grp.frames, fr)
	bind := func(name string, v *V) {
		fr = grp.open(fr)
		fr.bind(name, v)
	}
	n := len(fn.Params)
	if len(args) < n {
		fail("program-error", "function %s called with %d arguments, requires %d", fn.Name, len(args), n)
	}
	if fn.Rest == "" && !fn.HasKey && n+len(fn.Opt) < len(args) {
		fail("program-error", "function %s called with %d arguments, takes at most %d", fn.Name, len(args), n+len(fn.Opt))
	}
	for i, p := range fn.Params {
		fr.bind(p, args[i])
	}
	rest := args[n:]
	for _, o := range fn.Opt {
		switch {
		case 0 < len(rest):
			bind(o.Name, rest[0])
			rest = rest[1:]
		case o.Init != nil:
			ev.note("lambda-list:optional-default")
			bind(o.Name, ev.eval1(o.Init, fr, "parameter-init"))
		default:
			bind(o.Name, Nil)
		}
	}
	if fn.Rest != "" {
		ev.note("lambda-list:rest")
		bind(fn.Rest, List(append([]*V{}, rest...)...))
	}
	if fn.HasKey {
		if len(rest)%2 != 0 {
			fail("program-error", "odd number of keyword arguments")
		}
		for i := 0; i < len(rest); i += 2 {
			k := rest[i]
			known := false
			for _, kp := range fn.Keys {
				if k.K == KSym && k.S == ":"+kp.Name {
					known = true
				}
			}
			if !known {
				fail("program-error", "unknown keyword argument %s", k)
			}
		}
		for _, kp := range fn.Keys {
			found := false
			for i := 0; i < len(rest); i += 2 {
				if rest[i].S == ":"+kp.Name {
					if found {
						ev.note("lambda-list:key-twice")
						continue
					}
					bind(kp.Name, rest[i+1])
					found = true
				}
			}
			switch {
			case found:
				ev.note("lambda-list:key-given")
			case kp.Init != nil:
				ev.note("lambda-list:key-default")
				bind(kp.Name, ev.eval1(kp.Init, fr, "parameter-init"))
			default:
				bind(kp.Name, Nil)
			}
		}
	}
	return fr
}

// apply calls a function object with evaluated arguments. site is the
// environment of the call site (labelling only).
func (ev *Ev) apply(fv *V, args []*V, site *Env, via string) []*V {
	var fn *Func
	switch {
	case fv.K == KFn:
		fn = fv.Fn
	default:
		fail("type-error", "%s is not a function", fv)
	}
	return ev.applyFn(fn, args, site, via)
}

func (ev *Ev) applyFn(fn *Func, args []*V, site *Env, via string) []*V {
	if fn.Builtin != nil {
		return fn.Builtin(ev, args)
	}
	fr0 := &Env{lex: fn.Env, dyn: site, call: true}
	fr := ev.bindArgs(fn, args, fr0)
	ev.depth++
	if 400 < ev.depth {
		fail("limit", "recursion too deep")
	}
	fn.active++
	if 1 < fn.active {
		ev.note("recursion")
	}
	defer func() {
		ev.depth--
		fn.active--
		for f := fr; f != nil && f != fn.Env; f = f.lex {
			f.exited = true
		}
	}()
	if fn.Name != "" && fn.Builtin == nil && ev.funcs[fn.Name] != fn && ev.funcs[fn.Name] != nil {
		// kept out of the subset: slip's named functions are one object that a
		// redefinition updates, so #'f taken before a redefinition calls the
		// new definition (by design, see Package.DefLambda)
		fail("outside", "function object of %s called after the name was redefined", fn.Name)
	}
	return ev.body(fn.Body, fr, "function-body")
}

// designator resolves a function designator (function object or symbol).
func (ev *Ev) designator(v *V) *V {
	switch v.K {
	case KFn:
		return v
	case KSym:
		if fn := ev.funcs[v.S]; fn != nil {
			return &V{K: KFn, Fn: fn}
		}
		if fn := builtins[v.S]; fn != nil {
			return &V{K: KFn, Fn: fn}
		}
		fail("undefined-function", "function %s is undefined", v.S)
	}
	fail("type-error", "%s is not a function designator", v)
	return nil
}

type specialForm func(ev *Ev, args []*V, env *Env, whole *V) []*V

var special map[string]specialForm

func need(args []*V, min, max int, what string) {
	if len(args) < min || (0 <= max && max < len(args)) {
		fail("program-error", "%s: wrong number of subforms (%d)", what, len(args))
	}
}

// bindings parses a let/let* binding list into (name, init form or nil).
func bindings(spec *V, what string) (names []string, inits []*V) {
	for _, b := range properList(spec, what+" bindings") {
		switch {
		case b.K == KSym:
			names = append(names, symName(b, what+" variable"))
			inits = append(inits, nil)
		case b.K == KList && b.Tail == nil && (len(b.L) == 1 || len(b.L) == 2):
			names = append(names, symName(b.L[0], what+" variable"))
			if len(b.L) == 2 {
				inits = append(inits, b.L[1])
			} else {
				inits = append(inits, nil)
			}
		default:
			fail("program-error", "%s: bad binding %s", what, b)
		}
	}
	return
}

// tagbody-style loop body: atoms are tags and are not evaluated.
func (ev *Ev) loopBody(forms []*V, env *Env, kind string) {
	for _, f := range forms {
		if f.K != KList && f.K != KQuote {
			ev.note("body-atom:" + kind)
			continue
		}
		ev.eval(f, env)
	}
}

type doVar struct {
	name string
	init *V
	step *V
}

func doSpec(args []*V, what string) (vars []doVar, test *V, results []*V, body []*V) {
	need(args, 2, -1, what)
	for _, b := range properList(args[0], what+" variables") {
		switch {
		case b.K == KSym:
			vars = append(vars, doVar{name: symName(b, what+" variable")})
		case b.K == KList && b.Tail == nil && 1 <= len(b.L) && len(b.L) <= 3:
			dv := doVar{name: symName(b.L[0], what+" variable")}
			if 1 < len(b.L) {
				dv.init = b.L[1]
			}
			if 2 < len(b.L) {
				dv.step = b.L[2]
			}
			vars = append(vars, dv)
		default:
			fail("program-error", "%s: bad variable spec %s", what, b)
		}
	}
	end := properList(args[1], what+" end clause")
	if len(end) < 1 {
		fail("program-error", "%s: missing end test", what)
	}
	return vars, end[0], end[1:], args[2:]
}

func (ev *Ev) doLoop(args []*V, env *Env, star bool) []*V {
	kind := "do"
	if star {
		kind = "do*"
	}
	vars, test, results, body := doSpec(args, kind)
	fr := &Env{lex: env}
	cells := make([]*cell, len(vars))
	if star {
		// like let*: every variable opens its own frame
		grp := &seqGroup{}
		fr = grp.open(env) // anchor: where the first init form is evaluated
		for i, dv := range vars {
			v := Nil
			if dv.init != nil {
				v = ev.eval1(dv.init, fr, kind+"-init")
			}
			fr = grp.open(fr)
			fr.bind(dv.name, v)
			cells[i] = fr.cells[0]
		}
	} else {
		vals := make([]*V, len(vars))
		for i, dv := range vars {
			vals[i] = Nil
			if dv.init != nil {
				vals[i] = ev.eval1(dv.init, env, kind+"-init")
			}
		}
		for i, dv := range vars {
			fr.bind(dv.name, vals[i])
			cells[i] = fr.cells[i]
		}
	}
	if test.K != KList {
		ev.note(kind + "-test-atom")
		// "tight": nothing in the loop is a list form either, so an
		// evaluator that never ends such a loop never reaches a function call
		tight := true
		for _, b := range body {
			if b.K == KList || b.K == KQuote {
				tight = false
			}
		}
		for _, dv := range vars {
			if dv.step != nil && (dv.step.K == KList || dv.step.K == KQuote) {
				tight = false
			}
		}
		if tight {
			ev.note(kind + "-test-atom-tight")
		}
	}
	iter := 0
	for {
		if !ev.eval1(test, fr, kind+"-test").IsNil() {
			break
		}
		iter++
		ev.tick()
		ev.loopBody(body, fr, kind)
		if star {
			for i, dv := range vars {
				if dv.step != nil {
					cells[i].v = ev.eval1(dv.step, fr, kind+"-step")
				} else {
					ev.note(kind + "-nostep")
				}
			}
		} else {
			vals := make([]*V, len(vars))
			for i, dv := range vars {
				if dv.step != nil {
					vals[i] = ev.eval1(dv.step, fr, kind+"-step")
				} else {
					ev.note(kind + "-nostep")
				}
			}
			for i, dv := range vars {
				if dv.step != nil {
					cells[i].v = vals[i]
				}
			}
		}
	}
	if len(results) == 0 {
		ev.note(kind + "-noresult")
	}
	return ev.body(results, fr, kind+"-result")
}

func init() {
	special = map[string]specialForm{
		"quote": func(ev *Ev, args []*V, env *Env, _ *V) []*V {
			need(args, 1, 1, "quote")
			return one(args[0])
		},
		"function": func(ev *Ev, args []*V, env *Env, _ *V) []*V {
			need(args, 1, 1, "function")
			if args[0].K == KList && args[0].Head() == "lambda" {
				return one(ev.makeLambda(args[0].L[1:], env, ""))
			}
			return one(ev.designator(args[0]))
		},
		"progn": func(ev *Ev, args []*V, env *Env, _ *V) []*V {
			return ev.body(args, env, "progn")
		},
		"prog1": func(ev *Ev, args []*V, env *Env, _ *V) []*V {
			need(args, 1, -1, "prog1")
			v := ev.eval1(args[0], env, "prog1")
			for _, f := range args[1:] {
				ev.eval(f, env)
			}
			return one(v)
		},
		"if": func(ev *Ev, args []*V, env *Env, _ *V) []*V {
			need(args, 2, 3, "if")
			var vs []*V
			if !ev.eval1(args[0], env, "test").IsNil() {
				vs = ev.eval(args[1], env)
			} else if len(args) == 3 {
				vs = ev.eval(args[2], env)
			} else {
				ev.note("if-no-else-taken")
				return one(Nil)
			}
			if isMV(vs) {
				ev.note("mv-through:if")
			}
			return vs
		},
		"when": func(ev *Ev, args []*V, env *Env, _ *V) []*V {
			need(args, 1, -1, "when")
			if !ev.eval1(args[0], env, "test").IsNil() {
				return ev.body(args[1:], env, "when")
			}
			return one(Nil)
		},
		"unless": func(ev *Ev, args []*V, env *Env, _ *V) []*V {
			need(args, 1, -1, "unless")
			if ev.eval1(args[0], env, "test").IsNil() {
				return ev.body(args[1:], env, "unless")
			}
			return one(Nil)
		},
		"cond": func(ev *Ev, args []*V, env *Env, _ *V) []*V {
			for _, cl := range args {
				c := properList(cl, "cond clause")
				if len(c) == 0 {
					fail("program-error", "empty cond clause")
				}
				tv := ev.eval1(c[0], env, "test")
				if tv.IsNil() {
					continue
				}
				if len(c) == 1 {
					ev.note("cond-test-only")
					return one(tv)
				}
				return ev.body(c[1:], env, "cond")
			}
			ev.note("cond-fallthrough")
			return one(Nil)
		},
		"case": func(ev *Ev, args []*V, env *Env, _ *V) []*V {
			need(args, 1, -1, "case")
			key := ev.eval1(args[0], env, "case-key")
			for i, cl := range args[1:] {
				c := properList(cl, "case clause")
				if len(c) == 0 {
					fail("program-error", "empty case clause")
				}
				hit := false
				k := c[0]
				switch {
				case k == T || k.IsSym("otherwise"):
					if i != len(args)-2 {
						fail("program-error", "otherwise clause is not last")
					}
					hit = true
				case k.K == KList:
					for _, kk := range properList(k, "case keys") {
						if eql(key, kk) {
							hit = true
						}
					}
				case k.IsNil():
					// empty key list: never matches
				default:
					hit = eql(key, k)
				}
				if hit {
					if len(c) == 1 {
						ev.note("case-empty-body")
					}
					return ev.body(c[1:], env, "case")
				}
			}
			ev.note("case-fallthrough")
			return one(Nil)
		},
		"and": func(ev *Ev, args []*V, env *Env, _ *V) []*V {
			if len(args) == 0 {
				ev.note("and-empty")
				return one(T)
			}
			for _, a := range args[:len(args)-1] {
				if ev.eval1(a, env, "and").IsNil() {
					return one(Nil)
				}
			}
			vs := ev.eval(args[len(args)-1], env)
			if isMV(vs) {
				ev.note("mv-through:and")
			}
			return vs
		},
		"or": func(ev *Ev, args []*V, env *Env, _ *V) []*V {
			if len(args) == 0 {
				ev.note("or-empty")
				return one(Nil)
			}
			for _, a := range args[:len(args)-1] {
				if v := ev.eval1(a, env, "or"); !v.IsNil() {
					return one(v)
				}
			}
			vs := ev.eval(args[len(args)-1], env)
			if isMV(vs) {
				ev.note("mv-through:or")
			}
			return vs
		},
		"let": func(ev *Ev, args []*V, env *Env, _ *V) []*V {
			need(args, 1, -1, "let")
			names, inits := bindings(args[0], "let")
			vals := make([]*V, len(names))
			for i, in := range inits {
				vals[i] = Nil
				if in != nil {
					vals[i] = ev.eval1(in, env, "let-init")
				}
			}
			fr := &Env{lex: env}
			for i, n := range names {
				fr.bind(n, vals[i])
			}
			defer func() { fr.exited = true }()
			return ev.body(args[1:], fr, "let")
		},
		"let*": func(ev *Ev, args []*V, env *Env, _ *V) []*V {
			need(args, 1, -1, "let*")
			names, inits := bindings(args[0], "let*")
			grp := &seqGroup{}
			cur := grp.open(env) // anchor: where the first init form is evaluated
			for i, n := range names {
				v := Nil
				if inits[i] != nil {
					v = ev.eval1(inits[i], cur, "let*-init")
				}
				// each binding opens its own frame: a closure made by a
				// later init sees the earlier variables only
				fr := grp.open(cur)
				fr.bind(n, v)
				cur = fr
			}
			defer func() {
				for f := cur; f != env && f != nil; f = f.lex {
					f.exited = true
				}
			}()
			return ev.body(args[1:], cur, "let*")
		},
		"setq": func(ev *Ev, args []*V, env *Env, _ *V) []*V {
			if len(args)%2 != 0 {
				fail("program-error", "setq: odd number of subforms")
			}
			if len(args) == 0 {
				ev.note("setq-empty")
			}
			if 2 < len(args) {
				ev.note("setq-multi")
			}
			v := Nil
			for i := 0; i < len(args); i += 2 {
				n := symName(args[i], "setq variable")
				v = ev.eval1(args[i+1], env, "setq")
				ev.setVar(n, v, env)
			}
			return one(v)
		},
		"lambda": func(ev *Ev, args []*V, env *Env, _ *V) []*V {
			return one(ev.makeLambda(args, env, ""))
		},
		"defun": func(ev *Ev, args []*V, env *Env, _ *V) []*V {
			need(args, 2, -1, "defun")
			name := symName(args[0], "function name")
			fv := ev.makeLambda(args[1:], env, name)
			if env.lex != nil || 0 < len(env.names) {
				ev.note("defun-in-binding")
			}
			ev.funcs[name] = fv.Fn
			return one(args[0])
		},
		"defvar": func(ev *Ev, args []*V, env *Env, _ *V) []*V {
			need(args, 2, 2, "defvar")
			name := symName(args[0], "variable name")
			if _, has := ev.globals[name]; !has {
				v := Nil
				if len(args) == 2 {
					v = ev.eval1(args[1], env, "defvar")
				}
				ev.globals[name] = &cell{v: v}
			}
			return one(args[0])
		},
		"dolist": func(ev *Ev, args []*V, env *Env, _ *V) []*V {
			need(args, 1, -1, "dolist")
			spec := properList(args[0], "dolist spec")
			if len(spec) < 2 || 3 < len(spec) {
				fail("program-error", "dolist: bad spec")
			}
			name := symName(spec[0], "dolist variable")
			lst := ev.eval1(spec[1], env, "dolist-list")
			one1 := &Env{lex: env}
			one1.bind(name, Nil)
			for _, e := range properList(lst, "dolist list") {
				fr := one1
				if ev.LoopAssign {
					fr.cells[0].v = e
				} else {
					fr = &Env{lex: env, iter: true}
					fr.bind(name, e)
				}
				ev.tick()
				ev.loopBody(args[1:], fr, "dolist")
				fr.exited = !ev.LoopAssign
			}
			if ev.LoopAssign {
				one1.cells[0].v = Nil
			}
			if len(spec) == 3 {
				fr := &Env{lex: env}
				fr.bind(name, Nil)
				if ev.LoopAssign {
					fr = one1
				}
				vs := ev.eval(spec[2], fr)
				if isMV(vs) {
					ev.note("mv-through:dolist-result")
				}
				return vs
			}
			ev.note("dolist-noresult")
			return one(Nil)
		},
		"dotimes": func(ev *Ev, args []*V, env *Env, _ *V) []*V {
			need(args, 1, -1, "dotimes")
			spec := properList(args[0], "dotimes spec")
			if len(spec) < 2 || 3 < len(spec) {
				fail("program-error", "dotimes: bad spec")
			}
			name := symName(spec[0], "dotimes variable")
			cnt := ev.eval1(spec[1], env, "dotimes-count")
			if cnt.K != KInt {
				fail("type-error", "dotimes count %s is not an integer", cnt)
			}
			one1 := &Env{lex: env}
			one1.bind(name, Int(0))
			for i := int64(0); i < cnt.I; i++ {
				fr := one1
				if ev.LoopAssign {
					fr.cells[0].v = Int(i)
				} else {
					fr = &Env{lex: env, iter: true}
					fr.bind(name, Int(i))
				}
				ev.tick()
				ev.loopBody(args[1:], fr, "dotimes")
				fr.exited = !ev.LoopAssign
			}
			if ev.LoopAssign {
				one1.cells[0].v = Int(cnt.I)
			}
			if len(spec) == 3 {
				fr := &Env{lex: env}
				if ev.LoopAssign {
					fr = &Env{lex: one1}
				}
				// slip documents: "var is bound to the value returned by
				// count-form" when the result form is evaluated (equal to
				// the CL rule for every count >= 0)
				if cnt.I < 0 {
					ev.note("dotimes-negative-count")
				}
				fr.bind(name, Int(cnt.I))
				vs := ev.eval(spec[2], fr)
				if isMV(vs) {
					ev.note("mv-through:dotimes-result")
				}
				return vs
			}
			ev.note("dotimes-noresult")
			return one(Nil)
		},
		"do": func(ev *Ev, args []*V, env *Env, _ *V) []*V {
			return ev.doLoop(args, env, false)
		},
		"do*": func(ev *Ev, args []*V, env *Env, _ *V) []*V {
			return ev.doLoop(args, env, true)
		},
		"multiple-value-bind": func(ev *Ev, args []*V, env *Env, _ *V) []*V {
			need(args, 2, -1, "multiple-value-bind")
			var names []string
			for _, n := range properList(args[0], "multiple-value-bind variables") {
				names = append(names, symName(n, "variable"))
			}
			vs := ev.eval(args[1], env)
			if len(vs) != len(names) {
				ev.note("mvb-count-mismatch")
			}
			fr := &Env{lex: env}
			for i, n := range names {
				if i < len(vs) {
					fr.bind(n, vs[i])
				} else {
					fr.bind(n, Nil)
				}
			}
			return ev.body(args[2:], fr, "multiple-value-bind")
		},
		"multiple-value-list": func(ev *Ev, args []*V, env *Env, _ *V) []*V {
			need(args, 1, 1, "multiple-value-list")
			return one(List(ev.eval(args[0], env)...))
		},
	}
}

// StaticNotes labels facts about the program text (as opposed to its
// execution): every 'x shorthand by the kind of x, and shorthands nested in
// literal data.
func StaticNotes(forms []*V, notes map[string]bool) {
	var walk func(v *V, inData bool)
	walk = func(v *V, inData bool) {
		switch v.K {
		case KQuote:
			if inData {
				notes["quote-shorthand-in-data"] = true
			} else {
				k := TypeName(v.L[0])
				if v.L[0].K == KQuote {
					k = "quote"
				}
				notes["quote-shorthand:"+k] = true
			}
			walk(v.L[0], true)
			return
		case KVec:
			inData = true
		case KList:
			if v.Head() == "quote" {
				inData = true
			}
			// ((lambda (p) ... free ...) args): a body form that is a bare
			// variable other than a parameter
			if h := v.L[0]; !inData && h.K == KList && h.Head() == "lambda" && 2 < len(h.L) {
				params := map[string]bool{}
				if h.L[1].K == KList {
					for _, p := range h.L[1].L {
						params[p.S] = true
					}
				}
				for _, b := range h.L[2:] {
					if b.K == KSym && b != Nil && b != T && !strings.HasPrefix(b.S, ":") && !params[b.S] {
						notes["lambda-call-bare-free-variable"] = true
					}
				}
			}
		}
		for _, e := range v.L {
			walk(e, inData)
		}
		if v.Tail != nil {
			walk(v.Tail, inData)
		}
	}
	for _, f := range forms {
		walk(f, false)
	}
}

func eql(a, b *V) bool {
	if a.K != b.K {
		return false
	}
	switch a.K {
	case KInt, KChar:
		return a.I == b.I
	case KSym:
		return a.S == b.S
	case KNum:
		return a.S == b.S
	}
	return a == b
}

func equal(a, b *V) bool {
	a, b = a.AsList(), b.AsList()
	if a.K != b.K {
		return false
	}
	switch a.K {
	case KList:
		if len(a.L) != len(b.L) || (a.Tail == nil) != (b.Tail == nil) {
			return false
		}
		for i := range a.L {
			if !equal(a.L[i], b.L[i]) {
				return false
			}
		}
		return a.Tail == nil || equal(a.Tail, b.Tail)
	case KStr:
		return a.S == b.S
	}
	return eql(a, b)
}

func (ev *Ev) intArg(v *V, fn string) int64 {
	if v.K != KInt {
		fail("type-error", "%s: %s is not an integer", fn, v)
	}
	return v.I
}

func (ev *Ev) mkInt(i int64) *V {
	if ev.MaxInt < i || i < -ev.MaxInt {
		fail("limit", "integer outside the small range")
	}
	return Int(i)
}

// cons cells are modelled on slices: car/cdr/cons on proper and dotted lists.
func car(v *V) *V {
	v = v.AsList()
	if v.IsNil() {
		return Nil
	}
	if v.K != KList {
		fail("type-error", "car: %s is not a list", v)
	}
	return v.L[0]
}

func cdr(v *V) *V {
	v = v.AsList()
	if v.IsNil() {
		return Nil
	}
	if v.K != KList {
		fail("type-error", "cdr: %s is not a list", v)
	}
	if len(v.L) == 1 {
		if v.Tail != nil {
			return v.Tail
		}
		return Nil
	}
	return &V{K: KList, L: v.L[1:], Tail: v.Tail}
}

func cons(a, d *V) *V {
	d = d.AsList()
	if d.IsNil() {
		return List(a)
	}
	if d.K == KList {
		return &V{K: KList, L: append([]*V{a}, d.L...), Tail: d.Tail}
	}
	return &V{K: KList, L: []*V{a}, Tail: d}
}

var builtins map[string]*Func

func defb(name string, min, max int, fn func(ev *Ev, a []*V) []*V) {
	builtins[name] = &Func{Name: name, Builtin: func(ev *Ev, a []*V) []*V {
		if len(a) < min || (0 <= max && max < len(a)) {
			fail("program-error", "%s: wrong number of arguments (%d)", name, len(a))
		}
		return fn(ev, a)
	}}
}

func init() {
	builtins = map[string]*Func{}
	defb("vtr", 1, 2, func(ev *Ev, a []*V) []*V {
		k := ev.intArg(a[0], "vtr")
		if len(a) == 1 {
			ev.Trace = append(ev.Trace, TraceEntry{K: k, Val: "-"})
			return one(Nil)
		}
		ev.Trace = append(ev.Trace, TraceEntry{K: k, Val: Show(a[1])})
		return one(a[1])
	})
	defb("+", 0, -1, func(ev *Ev, a []*V) []*V {
		s := int64(0)
		for _, x := range a {
			s = ev.mkInt(s + ev.intArg(x, "+")).I
		}
		return one(Int(s))
	})
	defb("*", 0, -1, func(ev *Ev, a []*V) []*V {
		s := int64(1)
		for _, x := range a {
			s = ev.mkInt(s * ev.intArg(ev.mkInt(ev.intArg(x, "*")), "*")).I
		}
		return one(Int(s))
	})
	defb("-", 1, -1, func(ev *Ev, a []*V) []*V {
		s := ev.intArg(a[0], "-")
		if len(a) == 1 {
			return one(ev.mkInt(-s))
		}
		for _, x := range a[1:] {
			s = ev.mkInt(s - ev.intArg(x, "-")).I
		}
		return one(Int(s))
	})
	defb("1+", 1, 1, func(ev *Ev, a []*V) []*V { return one(ev.mkInt(ev.intArg(a[0], "1+") + 1)) })
	defb("1-", 1, 1, func(ev *Ev, a []*V) []*V { return one(ev.mkInt(ev.intArg(a[0], "1-") - 1)) })
	defb("max", 1, -1, func(ev *Ev, a []*V) []*V {
		m := ev.intArg(a[0], "max")
		for _, x := range a[1:] {
			if y := ev.intArg(x, "max"); m < y {
				m = y
			}
		}
		return one(Int(m))
	})
	defb("min", 1, -1, func(ev *Ev, a []*V) []*V {
		m := ev.intArg(a[0], "min")
		for _, x := range a[1:] {
			if y := ev.intArg(x, "min"); y < m {
				m = y
			}
		}
		return one(Int(m))
	})
	cmp := func(name string, ok func(a, b int64) bool) {
		defb(name, 1, -1, func(ev *Ev, a []*V) []*V {
			res := true
			for i := range a {
				ev.intArg(a[i], name)
			}
			for i := 0; i+1 < len(a); i++ {
				if !ok(a[i].I, a[i+1].I) {
					res = false
				}
			}
			return one(truth(res))
		})
	}
	cmp("=", func(a, b int64) bool { return a == b })
	cmp("<", func(a, b int64) bool { return a < b })
	cmp(">", func(a, b int64) bool { return a > b })
	cmp("<=", func(a, b int64) bool { return a <= b })
	cmp(">=", func(a, b int64) bool { return a >= b })
	defb("zerop", 1, 1, func(ev *Ev, a []*V) []*V { return one(truth(ev.intArg(a[0], "zerop") == 0)) })
	defb("evenp", 1, 1, func(ev *Ev, a []*V) []*V { return one(truth(ev.intArg(a[0], "evenp")%2 == 0)) })
	defb("not", 1, 1, func(ev *Ev, a []*V) []*V { return one(truth(a[0].IsNil())) })
	defb("null", 1, 1, func(ev *Ev, a []*V) []*V { return one(truth(a[0].IsNil())) })
	defb("consp", 1, 1, func(ev *Ev, a []*V) []*V { return one(truth(a[0].K == KList)) })
	defb("eql", 2, 2, func(ev *Ev, a []*V) []*V { return one(truth(eql(a[0], a[1]))) })
	defb("equal", 2, 2, func(ev *Ev, a []*V) []*V { return one(truth(equal(a[0], a[1]))) })
	defb("list", 0, -1, func(ev *Ev, a []*V) []*V { return one(List(append([]*V{}, a...)...)) })
	defb("car", 1, 1, func(ev *Ev, a []*V) []*V { return one(car(a[0])) })
	defb("cdr", 1, 1, func(ev *Ev, a []*V) []*V { return one(cdr(a[0])) })
	defb("first", 1, 1, func(ev *Ev, a []*V) []*V { return one(car(a[0])) })
	defb("rest", 1, 1, func(ev *Ev, a []*V) []*V { return one(cdr(a[0])) })
	defb("second", 1, 1, func(ev *Ev, a []*V) []*V { return one(car(cdr(a[0]))) })
	defb("cons", 2, 2, func(ev *Ev, a []*V) []*V { return one(cons(a[0], a[1])) })
	defb("length", 1, 1, func(ev *Ev, a []*V) []*V {
		return one(Int(int64(len(properList(a[0].AsList(), "length argument")))))
	})
	defb("reverse", 1, 1, func(ev *Ev, a []*V) []*V {
		l := properList(a[0].AsList(), "reverse argument")
		r := make([]*V, len(l))
		for i, e := range l {
			r[len(l)-1-i] = e
		}
		return one(List(r...))
	})
	defb("append", 0, -1, func(ev *Ev, a []*V) []*V {
		var out []*V
		for _, x := range a {
			out = append(out, properList(x.AsList(), "append argument")...)
		}
		return one(List(out...))
	})
	defb("nth", 2, 2, func(ev *Ev, a []*V) []*V {
		n := ev.intArg(a[0], "nth")
		l := properList(a[1].AsList(), "nth list")
		if n < 0 {
			fail("type-error", "nth: negative index")
		}
		if int64(len(l)) <= n {
			return one(Nil)
		}
		return one(l[n])
	})
	defb("values", 0, -1, func(ev *Ev, a []*V) []*V {
		if len(a) == 0 {
			ev.note("values-0")
		}
		return append(make([]*V, 0, len(a)+1), a...)
	})
}

func init() {
	special["funcall"] = func(ev *Ev, args []*V, env *Env, _ *V) []*V {
		need(args, 1, -1, "funcall")
		a := ev.evalArgs(args, env, "funcall")
		if len(a) == 1 {
			ev.note("funcall-0")
		}
		return ev.apply(ev.designator(a[0]), a[1:], env, "funcall")
	}
	special["apply"] = func(ev *Ev, args []*V, env *Env, _ *V) []*V {
		need(args, 2, -1, "apply")
		a := ev.evalArgs(args, env, "apply")
		spread := append([]*V{}, a[1:len(a)-1]...)
		spread = append(spread, properList(a[len(a)-1].AsList(), "last argument of apply")...)
		if len(spread) == 0 {
			ev.note("apply-0")
		}
		return ev.apply(ev.designator(a[0]), spread, env, "apply")
	}
	special["mapcar"] = func(ev *Ev, args []*V, env *Env, _ *V) []*V {
		need(args, 2, -1, "mapcar")
		a := ev.evalArgs(args, env, "mapcar")
		fn := ev.designator(a[0])
		lists := make([][]*V, len(a)-1)
		n := -1
		for i, l := range a[1:] {
			lists[i] = properList(l.AsList(), "mapcar list")
			if len(lists[i]) == 0 {
				ev.note("mapcar-empty-list")
			}
			if n < 0 || len(lists[i]) < n {
				n = len(lists[i])
			}
		}
		out := make([]*V, n)
		for k := 0; k < n; k++ {
			ca := make([]*V, len(lists))
			for i := range lists {
				ca[i] = lists[i][k]
			}
			vs := ev.apply(fn, ca, env, "mapcar")
			if isMV(vs) {
				ev.note("mv-into:mapcar-result")
			}
			out[k] = primary(vs)
		}
		return one(List(out...))
	}
	// mapc: the calls of mapcar, the value is the first list
	special["mapc"] = func(ev *Ev, args []*V, env *Env, _ *V) []*V {
		need(args, 2, -1, "mapc")
		a := ev.evalArgs(args, env, "mapc")
		fn := ev.designator(a[0])
		lists := make([][]*V, len(a)-1)
		n := -1
		for i, l := range a[1:] {
			lists[i] = properList(l.AsList(), "mapc list")
			if n < 0 || len(lists[i]) < n {
				n = len(lists[i])
			}
		}
		for k := 0; k < n; k++ {
			ca := make([]*V, len(lists))
			for i := range lists {
				ca[i] = lists[i][k]
			}
			ev.apply(fn, ca, env, "mapc")
		}
		return one(a[1])
	}
}
