// Package ref is the reference evaluator of check C01: a small Lisp
// interpreter for the core forms named by the property, written from the
// language definition (ANSI CL semantics for the subset). It does not import
// slip and shares no code with it.
package ref

import (
	"fmt"
	"math"
	"math/big"
	"regexp"
	"strconv"
	"strings"
)

// Kind of a datum.
type Kind int

const (
	KInt Kind = iota
	KSym
	KStr
	KChar
	KList  // non-empty list, proper or dotted (Tail != nil)
	KVec   // simple vector
	KNum   // a non-fixnum number kept as literal text (bignum, ratio, float)
	KFn    // function object (evaluator only)
	KQuote // 'datum reader shorthand, equal to the list (quote datum)
)

// V is a datum / runtime value. nil and the empty list are the symbol nil.
type V struct {
	K    Kind
	I    int64
	S    string // symbol name (lower case), string contents, number text
	L    []*V   // list / vector elements; KQuote: one element
	Tail *V     // dotted tail
	Fn   *Func
}

var (
	Nil = &V{K: KSym, S: "nil"}
	T   = &V{K: KSym, S: "t"}
)

// Constructors.
func Int(i int64) *V     { return &V{K: KInt, I: i} }
func Sym(s string) *V    { return internSym(strings.ToLower(s)) }
func Str(s string) *V    { return &V{K: KStr, S: s} }
func Char(r rune) *V     { return &V{K: KChar, I: int64(r)} }
func Num(text string) *V { return &V{K: KNum, S: text} }
func Vec(e ...*V) *V     { return &V{K: KVec, L: e} }
func Quote(d *V) *V      { return &V{K: KQuote, L: []*V{d}} }

func internSym(s string) *V {
	switch s {
	case "nil":
		return Nil
	case "t":
		return T
	}
	return &V{K: KSym, S: s}
}

// List builds a proper list (Nil when empty).
func List(e ...*V) *V {
	if len(e) == 0 {
		return Nil
	}
	return &V{K: KList, L: e}
}

// Dotted builds a dotted list.
func Dotted(tail *V, e ...*V) *V {
	if len(e) == 0 {
		return tail
	}
	if tail == nil || tail.IsNil() {
		return List(e...)
	}
	if tail.K == KList {
		l := append(append([]*V{}, e...), tail.L...)
		return &V{K: KList, L: l, Tail: tail.Tail}
	}
	return &V{K: KList, L: e, Tail: tail}
}

// L is shorthand used by the generator: a list whose head is a symbol.
func L(head string, rest ...*V) *V {
	return List(append([]*V{Sym(head)}, rest...)...)
}

func (v *V) IsNil() bool { return v.K == KSym && v.S == "nil" }

func (v *V) IsSym(name string) bool { return v.K == KSym && v.S == name }

// Head returns the symbol name at the head of a list form, or "".
func (v *V) Head() string {
	if v.K == KList && 0 < len(v.L) && v.L[0].K == KSym {
		return v.L[0].S
	}
	return ""
}

// AsList views a KQuote as the list (quote d); other values unchanged.
func (v *V) AsList() *V {
	if v.K == KQuote {
		return List(Sym("quote"), v.L[0])
	}
	return v
}

// Clone makes a deep copy of a datum tree (function objects are shared).
func (v *V) Clone() *V {
	switch v.K {
	case KList, KVec, KQuote:
		c := &V{K: v.K, L: make([]*V, len(v.L))}
		for i, e := range v.L {
			c.L[i] = e.Clone()
		}
		if v.Tail != nil {
			c.Tail = v.Tail.Clone()
		}
		return c
	case KSym:
		return v
	}
	c := *v
	return &c
}

// Size counts the nodes of a datum tree.
func (v *V) Size() int {
	n := 1
	for _, e := range v.L {
		n += e.Size()
	}
	if v.Tail != nil {
		n += v.Tail.Size()
	}
	return n
}

// Source renders a datum as program text in slip/CL syntax. rename maps
// symbol names (used to make global names unique per execution).
func (v *V) Source(rename func(string) string) string {
	var b strings.Builder
	v.src(&b, rename)
	return b.String()
}

func (v *V) String() string { return v.Source(nil) }

func (v *V) src(b *strings.Builder, rename func(string) string) {
	switch v.K {
	case KInt:
		b.WriteString(strconv.FormatInt(v.I, 10))
	case KSym:
		s := v.S
		if rename != nil {
			s = rename(s)
		}
		b.WriteString(s)
	case KStr:
		b.WriteByte('"')
		for _, r := range v.S {
			if r == '"' || r == '\\' {
				b.WriteByte('\\')
			}
			b.WriteRune(r)
		}
		b.WriteByte('"')
	case KChar:
		b.WriteString("#\\")
		b.WriteRune(rune(v.I))
	case KNum:
		b.WriteString(v.S)
	case KQuote:
		b.WriteByte('\'')
		v.L[0].src(b, rename)
	case KVec:
		b.WriteString("#(")
		for i, e := range v.L {
			if 0 < i {
				b.WriteByte(' ')
			}
			e.src(b, rename)
		}
		b.WriteByte(')')
	case KList:
		if len(v.L) == 2 && v.Tail == nil && v.L[0].IsSym("function") {
			b.WriteString("#'")
			v.L[1].src(b, rename)
			return
		}
		// an empty binding / parameter list is written () rather than nil
		empty := -1
		switch v.Head() {
		case "let", "let*", "do", "do*", "lambda", "multiple-value-bind":
			empty = 1
		case "defun":
			empty = 2
		}
		b.WriteByte('(')
		for i, e := range v.L {
			if 0 < i {
				b.WriteByte(' ')
			}
			if i == empty && e.IsNil() {
				b.WriteString("()")
				continue
			}
			e.src(b, rename)
		}
		if v.Tail != nil {
			b.WriteString(" . ")
			v.Tail.src(b, rename)
		}
		b.WriteByte(')')
	case KFn:
		b.WriteString("#<function>")
	}
}

// Show renders a runtime value in the format of the harness printer
// (verif/internal/sl.Show), so that both sides can be compared as text.
func Show(v *V) string {
	var b strings.Builder
	show(&b, v)
	return b.String()
}

func show(b *strings.Builder, v *V) {
	if 1<<15 < b.Len() {
		// shared structure can print exponentially large
		panic(&Error{Class: "limit", Msg: "printed value too large"})
	}
	switch v.K {
	case KInt:
		b.WriteString(strconv.FormatInt(v.I, 10))
	case KSym:
		b.WriteString(v.S)
	case KStr:
		b.WriteString(strconv.Quote(v.S))
	case KChar:
		b.WriteString("#\\")
		r := rune(v.I)
		if r <= ' ' || r == 0x7f || r == 0xa0 {
			fmt.Fprintf(b, "U+%04X", r)
		} else {
			b.WriteRune(r)
		}
	case KNum:
		b.WriteString(showNum(v.S))
	case KQuote:
		show(b, v.AsList())
	case KVec:
		b.WriteString("#(")
		for i, e := range v.L {
			if 0 < i {
				b.WriteByte(' ')
			}
			show(b, e)
		}
		b.WriteByte(')')
	case KList:
		b.WriteByte('(')
		for i, e := range v.L {
			if 0 < i {
				b.WriteByte(' ')
			}
			show(b, e)
		}
		if v.Tail != nil {
			b.WriteString(" . ")
			show(b, v.Tail)
		}
		b.WriteByte(')')
	case KFn:
		b.WriteString("#<function>")
	}
}

// TypeName gives the harness kind name (sl.Kind) of a datum.
func TypeName(v *V) string {
	switch v.K {
	case KInt:
		return "fixnum"
	case KSym:
		switch {
		case v.S == "nil":
			return "null"
		case v.S == "t":
			return "t"
		case strings.HasPrefix(v.S, ":"):
			return "keyword"
		}
		return "symbol"
	case KStr:
		return "string"
	case KChar:
		return "character"
	case KList, KQuote:
		return "cons"
	case KVec:
		return "vector"
	case KNum:
		return numKind(v.S)
	}
	return "function"
}

func splitFloat(s string) (mant string, marker byte, exp string, ok bool) {
	ls := strings.ToLower(s)
	if strings.Contains(ls, "/") {
		return
	}
	if i := strings.IndexAny(ls, "esfdl"); 0 < i {
		return ls[:i], ls[i], ls[i+1:], true
	}
	if strings.Contains(ls, ".") {
		return ls, 'e', "0", true
	}
	return
}

func numKind(s string) string {
	if strings.Contains(s, "/") {
		return "ratio"
	}
	if _, m, _, ok := splitFloat(s); ok {
		switch m {
		case 's', 'f':
			return "single-float"
		case 'l':
			return "long-float"
		}
		return "double-float"
	}
	return "bignum"
}

func showNum(s string) string {
	if strings.Contains(s, "/") {
		q, _ := new(big.Rat).SetString(s)
		return q.Num().String() + "/" + q.Denom().String()
	}
	if mant, m, exp, ok := splitFloat(s); ok {
		txt := mant + "e" + exp
		switch m {
		case 's', 'f':
			f, _ := strconv.ParseFloat(txt, 32)
			return fmtFloat(f, 32) + "f"
		case 'l':
			bf, _, _ := big.ParseFloat(txt, 10, 128, big.ToNearestEven)
			return bf.Text('g', -1) + "L"
		}
		f, _ := strconv.ParseFloat(txt, 64)
		return fmtFloat(f, 64) + "d"
	}
	bi, _ := new(big.Int).SetString(s, 10)
	return bi.String()
}

func fmtFloat(f float64, bits int) string {
	s := strconv.FormatFloat(f, 'g', -1, bits)
	if f == 0 && math.Signbit(f) {
		s = "-0"
	}
	return s
}

// Parse reads program text of the subset back into data (used for replaying
// stored cases). It understands integers, symbols, strings, characters,
// 'x, #'x, lists, dotted lists and #( vectors.
func Parse(src string) (forms []*V, err error) {
	p := &parser{s: []rune(src)}
	defer func() {
		if r := recover(); r != nil {
			err = fmt.Errorf("parse: %v", r)
		}
	}()
	for {
		p.ws()
		if p.i >= len(p.s) {
			return
		}
		forms = append(forms, p.read())
	}
}

type parser struct {
	s []rune
	i int
}

func (p *parser) ws() {
	for p.i < len(p.s) && (p.s[p.i] == ' ' || p.s[p.i] == '\n' || p.s[p.i] == '\t') {
		p.i++
	}
}

func (p *parser) read() *V {
	p.ws()
	if p.i >= len(p.s) {
		panic("unexpected end")
	}
	c := p.s[p.i]
	switch {
	case c == '(':
		p.i++
		return p.readList()
	case c == ')':
		panic("unexpected )")
	case c == '\'':
		p.i++
		return Quote(p.read())
	case c == '"':
		p.i++
		var sb strings.Builder
		for p.i < len(p.s) && p.s[p.i] != '"' {
			if p.s[p.i] == '\\' {
				p.i++
			}
			sb.WriteRune(p.s[p.i])
			p.i++
		}
		p.i++
		return Str(sb.String())
	case c == '#' && p.i+1 < len(p.s) && p.s[p.i+1] == '\'':
		p.i += 2
		return List(Sym("function"), p.read())
	case c == '#' && p.i+1 < len(p.s) && p.s[p.i+1] == '(':
		p.i += 2
		l := p.readList()
		if l.IsNil() {
			return Vec()
		}
		return Vec(l.L...)
	case c == '#' && p.i+2 < len(p.s) && p.s[p.i+1] == '\\':
		r := p.s[p.i+2]
		p.i += 3
		return Char(r)
	}
	st := p.i
	for p.i < len(p.s) && !strings.ContainsRune(" \n\t()'\"", p.s[p.i]) {
		p.i++
	}
	return atom(string(p.s[st:p.i]))
}

var (
	reInt   = regexp.MustCompile(`^[+-]?[0-9]+$`)
	reRatio = regexp.MustCompile(`^[+-]?[0-9]+/[0-9]+$`)
	reFloat = regexp.MustCompile(`^[+-]?([0-9]+\.[0-9]*|\.[0-9]+|[0-9]+)([esfdlESFDL][+-]?[0-9]+)?$`)
)

func atom(tok string) *V {
	switch {
	case reInt.MatchString(tok):
		if i, err := strconv.ParseInt(tok, 10, 64); err == nil {
			return Int(i)
		}
		return Num(tok)
	case reRatio.MatchString(tok), reFloat.MatchString(tok):
		return Num(tok)
	}
	return Sym(tok)
}

func (p *parser) readList() *V {
	var es []*V
	var tail *V
	for {
		p.ws()
		if p.i >= len(p.s) {
			panic("unterminated list")
		}
		if p.s[p.i] == ')' {
			p.i++
			break
		}
		if p.s[p.i] == '.' && p.i+1 < len(p.s) && p.s[p.i+1] == ' ' {
			p.i++
			tail = p.read()
			continue
		}
		es = append(es, p.read())
	}
	if tail != nil {
		return Dotted(tail, es...)
	}
	return List(es...)
}
