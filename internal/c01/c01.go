// Package c01 monitors core evaluation (order, binding, control, closures,
// multiple values, quote) of the real interpreter against an independent
// reference evaluator (verif/internal/c01/ref) on generated programs in which
// evaluated positions carry side-effecting trace calls.
package c01

import (
	"fmt"
	"math/rand/v2"
	"regexp"
	"sort"
	"strings"
	"sync"

	"github.com/ohler55/slip"

	"verif/internal/c01/ref"
	"verif/internal/fw"
	"verif/internal/sl"
)

// Case is one program. Src is the program text (names uf<N> / *ug<N>* are
// made unique per execution before the text is handed to slip).
type Case struct {
	Kind    string   `json:"kind"` // probe | tmpl | quote | prog
	Src     string   `json:"src"`
	Compile bool     `json:"compile,omitempty"`
	Dirty   []string `json:"dirty,omitempty"`
	Tmpl    string   `json:"tmpl,omitempty"`
}

const (
	refSteps  = 20000
	slipSteps = 60000
)

// ---------------------------------------------------------------- slip side

type traceFn struct {
	slip.Function
}

var slipTrace []ref.TraceEntry

// Call records the marker (and the value passed through it).
func (f *traceFn) Call(s *slip.Scope, args slip.List, depth int) slip.Object {
	slip.CheckArgCount(s, depth, f, args, 1, 2)
	k, _ := args[0].(slip.Fixnum)
	if len(args) == 1 {
		slipTrace = append(slipTrace, ref.TraceEntry{K: int64(k), Val: "-"})
		return nil
	}
	slipTrace = append(slipTrace, ref.TraceEntry{K: int64(k), Val: render(args[1])})
	return args[1]
}

func initWorker() {
	slip.Define(
		func(args slip.List) slip.Object {
			f := traceFn{Function: slip.Function{Name: "vtr", Args: args}}
			f.Self = &f
			return &f
		},
		&slip.FuncDoc{
			Name: "vtr",
			Args: []*slip.DocArg{
				{Name: "marker", Type: "fixnum", Text: "marker"},
				{Name: "&optional"},
				{Name: "value", Type: "object", Text: "value passed through"},
			},
			Return: "object",
			Text:   "verification trace point",
		}, &slip.UserPkg)
}

// render is sl.Show with function objects shown as #<function>.
func render(obj slip.Object) string {
	var b strings.Builder
	renderTo(&b, obj, false)
	return b.String()
}

func renderTyped(obj slip.Object) string {
	var b strings.Builder
	renderTo(&b, obj, true)
	return b.String()
}

type renderLimit struct{}

func renderTo(b *strings.Builder, obj slip.Object, typed bool) {
	if 1<<16 < b.Len() {
		panic(renderLimit{})
	}
	switch to := obj.(type) {
	case slip.List:
		if len(to) == 0 {
			if typed {
				b.WriteString("null=")
			}
			b.WriteString("nil")
			return
		}
		b.WriteByte('(')
		for i, e := range to {
			if 0 < i {
				b.WriteByte(' ')
			}
			if t, ok := e.(slip.Tail); ok {
				b.WriteString(". ")
				renderTo(b, t.Value, typed)
				continue
			}
			renderTo(b, e, typed)
		}
		b.WriteByte(')')
		return
	case *slip.Vector:
		b.WriteString("#(")
		for i, e := range to.AsList() {
			if 0 < i {
				b.WriteByte(' ')
			}
			renderTo(b, e, typed)
		}
		b.WriteByte(')')
		return
	case *slip.Lambda, *slip.FuncInfo:
		b.WriteString("#<function>")
		return
	case slip.Funky:
		// a function-call object where a datum is expected, e.g. what the
		// reader makes of 'x inside quoted data
		b.WriteString("#<form " + to.GetName() + ">")
		return
	}
	if typed {
		b.WriteString(sl.Kind(obj) + "=")
	}
	b.WriteString(sl.Show(obj))
}

func typedRef(v *ref.V) string {
	var b strings.Builder
	var walk func(v *ref.V)
	walk = func(v *ref.V) {
		v = v.AsList()
		switch v.K {
		case ref.KList:
			b.WriteByte('(')
			for i, e := range v.L {
				if 0 < i {
					b.WriteByte(' ')
				}
				walk(e)
			}
			if v.Tail != nil {
				b.WriteString(" . ")
				walk(v.Tail)
			}
			b.WriteByte(')')
		case ref.KVec:
			b.WriteString("#(")
			for i, e := range v.L {
				if 0 < i {
					b.WriteByte(' ')
				}
				walk(e)
			}
			b.WriteByte(')')
		case ref.KFn:
			b.WriteString("#<function>")
		default:
			b.WriteString(ref.TypeName(v) + "=" + ref.Show(v))
		}
	}
	walk(v)
	return b.String()
}

var (
	runCounter int
	reFun      = regexp.MustCompile(`^uf[0-9]+$`)
	reGlob     = regexp.MustCompile(`^\*ug[0-9]+\*$`)
)

type budgetStop struct{}

type outcome struct {
	vals  []string
	trace []ref.TraceEntry
	err   *sl.Err
	src   string
}

// runSlip evaluates the program with the real interpreter.
// mixedNames: the names (lower case) the current deterministic program spells
// with upper-case letters; nil for every other program.
var mixedNames map[string]bool

var reMixedToken = regexp.MustCompile(`[A-Za-z][A-Za-z0-9*+-]*`)

func mixedNamesOf(src string) map[string]bool {
	out := map[string]bool{}
	for _, tok := range reMixedToken.FindAllString(foldStrings(src), -1) {
		if low := strings.ToLower(tok); low != tok {
			out[low] = true
		}
	}
	return out
}

// foldStrings blanks out string and character literals.
func foldStrings(src string) string {
	b := []byte(src)
	in := false
	for i := 0; i < len(b); i++ {
		c := b[i]
		switch {
		case c == '"' && (i == 0 || b[i-1] != '\\'):
			in = !in
			b[i] = ' '
		case in:
			b[i] = ' '
		case c == '#' && i+2 < len(b) && b[i+1] == '\\':
			b[i], b[i+1], b[i+2] = ' ', ' ', ' '
			i += 2
		}
	}
	return string(b)
}

func runSlip(forms []*ref.V, compile, typed bool, limit int) (o outcome) {
	if limit <= 0 || slipSteps < limit {
		limit = slipSteps
	}
	runCounter++
	suffix := fmt.Sprintf("-r7q%d", runCounter)
	occ := map[string]int{}
	rename := func(s string) string {
		if mixedNames[s] {
			// a name the deterministic program spells in mixed case: its occurrences
			// are written Capitalised, lower case, UPPER CASE by turns (the parser
			// of the reference folds case, the language does too)
			occ[s]++
			switch occ[s] % 3 {
			case 1:
				return strings.ToUpper(s[:1]) + s[1:]
			case 0:
				return strings.ToUpper(s)
			}
			return s
		}
		switch {
		case reFun.MatchString(s):
			return s + suffix
		case reGlob.MatchString(s):
			return s[:len(s)-1] + suffix + "*"
		}
		return s
	}
	var sb strings.Builder
	for _, f := range forms {
		sb.WriteString(f.Source(rename))
		sb.WriteByte('\n')
	}
	o.src = sb.String()
	slipTrace = nil
	scope := slip.NewScope()
	steps := 0
	stopped := false
	scope.InterruptCheck = func() {
		steps++
		if limit < steps && !stopped {
			// fires once: slip turns the panic into a condition (which
			// evaluates forms itself) and unwinds
			stopped = true
			panic(budgetStop{})
		}
	}
	var result slip.Object
	o.err = func() (err *sl.Err) {
		defer func() {
			if r := recover(); r != nil {
				if _, ok := r.(budgetStop); ok {
					return
				}
				err = sl.Classify(r)
			}
		}()
		code := slip.ReadString(o.src, scope)
		if compile {
			code.Compile()
		}
		// each read object goes through Scope.Eval (the property's
		// observation point); the value of the last one is the result
		for _, obj := range code {
			result = scope.Eval(obj, 0)
		}
		return nil
	}()
	sl.Reset()
	o.trace = slipTrace
	slipTrace = nil
	if stopped {
		o.err = &sl.Err{Class: "no-termination", Msg: fmt.Sprintf("more than %d evaluation steps (the reference evaluator needs %d)", limit, (limit-2000)/10)}
	}
	if o.err != nil {
		o.err.Msg = strings.ReplaceAll(o.err.Msg, suffix, "")
		return
	}
	rf := render
	if typed {
		rf = renderTyped
	}
	defer func() {
		if r := recover(); r != nil {
			if _, ok := r.(renderLimit); !ok {
				panic(r)
			}
			o.vals = nil
			o.err = &sl.Err{Class: "value-too-large", Msg: "the returned value prints to more than 64 KiB"}
		}
	}()
	if vs, ok := result.(slip.Values); ok {
		for _, v := range vs {
			o.vals = append(o.vals, strings.ReplaceAll(rf(v), suffix, ""))
		}
	} else {
		o.vals = []string{strings.ReplaceAll(rf(result), suffix, "")}
	}
	for i := range o.trace {
		o.trace[i].Val = strings.ReplaceAll(o.trace[i].Val, suffix, "")
	}
	return
}

// ---------------------------------------------------------------- reference

type expected struct {
	steps int
	vals  []string
	trace []ref.TraceEntry
	notes []string
	err   *ref.Error
}

func runRef(forms []*ref.V, typed bool) (e expected) { return runRefMode(forms, typed, false) }

// expectations returns what the language permits: the reference result, and
// - when a dolist/dotimes variable is used after its iteration ended, which
// the language leaves to the implementation - also the result under the
// other permitted rule (one binding assigned on every iteration).
func expectations(forms []*ref.V, typed bool) []expected {
	e := runRefMode(forms, typed, false)
	out := []expected{e}
	if e.err == nil {
		for _, n := range e.notes {
			if n == "loop-variable-after-its-iteration" {
				if a := runRefMode(forms, typed, true); a.err == nil || a.err.Class != "limit" {
					out = append(out, a)
				}
			}
		}
	}
	return out
}

// compareAny: agreement with any permitted expectation is agreement.
func compareAny(es []expected, o outcome) (kind, detail string) {
	for i := len(es) - 1; 0 <= i; i-- {
		if kind, detail = compare(es[i], o); kind == "" {
			return
		}
	}
	return
}

func runRefMode(forms []*ref.V, typed, loopAssign bool) (e expected) {
	ev := ref.New(refSteps)
	ev.LoopAssign = loopAssign
	vals, err := ev.Run(forms)
	e.err = err
	e.steps = ev.Steps
	ref.StaticNotes(forms, ev.Notes)
	e.notes = ev.NoteList()
	e.trace = ev.Trace
	if err == nil {
		defer func() {
			if r := recover(); r != nil {
				if le, ok := r.(*ref.Error); ok {
					e.err = le
					return
				}
				panic(r)
			}
		}()
		for _, v := range vals {
			if typed {
				e.vals = append(e.vals, typedRef(v))
			} else {
				e.vals = append(e.vals, ref.Show(v))
			}
		}
	}
	return
}

// budgetFor: the interpreter gets ten times the evaluation steps the
// reference evaluator needed (it counts fewer kinds of step), plus slack.
func budgetFor(e expected) int { return 10*e.steps + 2000 }

// compare returns "" when the observation equals the expectation, else the
// kind of divergence and a description.
func compare(e expected, o outcome) (kind, detail string) {
	if e.err != nil {
		// under this permitted rule the program signals an error
		if o.err != nil {
			return "", ""
		}
		return "no-error", "returned " + strings.Join(o.vals, " ; ") + ", an error is expected"
	}
	if o.err != nil {
		k := "error:" + o.err.Class
		if o.err.Internal {
			k = "internal-fault"
		}
		return k, "signalled " + o.err.String()
	}
	n := len(e.trace)
	if len(o.trace) < n {
		n = len(o.trace)
	}
	for i := 0; i < n; i++ {
		if e.trace[i] != o.trace[i] {
			k := "effects-order"
			if e.trace[i].K == o.trace[i].K {
				k = "effects-value"
			}
			return k, fmt.Sprintf("side effect #%d is %s, the language gives %s (observed %s, expected %s)",
				i+1, o.trace[i], e.trace[i], traceStr(o.trace), traceStr(e.trace))
		}
	}
	if len(o.trace) < len(e.trace) {
		return "effects-missing", fmt.Sprintf("side effects stop after %d of %d (observed %s, expected %s)",
			len(o.trace), len(e.trace), traceStr(o.trace), traceStr(e.trace))
	}
	if len(e.trace) < len(o.trace) {
		return "effects-extra", fmt.Sprintf("%d side effects beyond the %d the language gives, first extra %s (observed %s, expected %s)",
			len(o.trace)-len(e.trace), len(e.trace), o.trace[len(e.trace)], traceStr(o.trace), traceStr(e.trace))
	}
	if strings.Join(e.vals, " ; ") != strings.Join(o.vals, " ; ") {
		k := "value"
		if len(e.vals) != len(o.vals) {
			k = "value-count"
		}
		return k, fmt.Sprintf("returned %s, the language gives %s", strings.Join(o.vals, " ; "), strings.Join(e.vals, " ; "))
	}
	return "", ""
}

func traceStr(t []ref.TraceEntry) string {
	var sb strings.Builder
	sb.WriteByte('[')
	for i, e := range t {
		if 0 < i {
			sb.WriteByte(' ')
		}
		if 40 <= i {
			sb.WriteString("...")
			break
		}
		sb.WriteString(e.String())
	}
	sb.WriteByte(']')
	return sb.String()
}

// ---------------------------------------------------------------- analysis

var specialKinds = map[string]string{
	"quote": "quote", "function": "function", "progn": "progn", "prog1": "prog1", "if": "if", "when": "when", "unless": "unless",
	"cond": "cond", "case": "case", "and": "and", "or": "or", "let": "let", "let*": "let*", "setq": "setq", "lambda": "lambda",
	"defun": "defun", "defvar": "defvar", "dolist": "dolist", "dotimes": "dotimes", "do": "do", "do*": "do*",
	"multiple-value-bind": "mvb", "multiple-value-list": "mvl", "funcall": "funcall", "apply": "apply", "mapcar": "mapcar",
	"values": "values",
}

func kindOf(f *ref.V) string {
	switch f.K {
	case ref.KSym:
		if f == ref.Nil || f == ref.T || strings.HasPrefix(f.S, ":") {
			return "lit"
		}
		return "var"
	case ref.KQuote:
		return "quote"
	case ref.KList:
		h := f.Head()
		switch {
		case h == "vtr":
			if len(f.L) == 3 {
				return kindOf(f.L[2])
			}
			return "marker"
		case h == "":
			if f.L[0].K == ref.KList && f.L[0].Head() == "lambda" {
				return "lambda-call"
			}
			return "bad"
		case specialKinds[h] != "":
			return specialKinds[h]
		case reFun.MatchString(h):
			return "ucall"
		}
		return "call"
	}
	return "lit"
}

type child struct {
	pos string
	v   *ref.V
}

func bodyChildren(fs []*ref.V) []child {
	var out []child
	for i, f := range fs {
		if i == len(fs)-1 {
			out = append(out, child{"last", f})
		} else {
			out = append(out, child{"body", f})
		}
	}
	return out
}

func all(pos string, fs []*ref.V) []child {
	out := make([]child, len(fs))
	for i, f := range fs {
		out[i] = child{pos, f}
	}
	return out
}

// initChildren: the init forms of &optional / &key parameters.
func initChildren(ll *ref.V) []child {
	var out []child
	if isList(ll) {
		for _, p := range ll.L {
			if isList(p) && len(p.L) == 2 {
				out = append(out, child{"init", p.L[1]})
			}
		}
	}
	return out
}

func isList(v *ref.V) bool { return v.K == ref.KList && v.Tail == nil }

// children lists the evaluated subforms of a form with their positions.
func children(f *ref.V) []child {
	if f.K != ref.KList || f.Tail != nil {
		return nil
	}
	a := f.L[1:]
	switch kindOf(f) {
	case "call", "ucall", "values":
		if f.Head() == "vtr" {
			return nil
		}
		return all("arg", a)
	case "lambda-call":
		return append([]child{{"fn", f.L[0]}}, all("arg", a)...)
	case "funcall":
		if len(a) == 0 {
			return nil
		}
		return append([]child{{"fn", a[0]}}, all("arg", a[1:])...)
	case "apply":
		if len(a) < 2 {
			return all("fn", a)
		}
		out := append([]child{{"fn", a[0]}}, all("arg", a[1:len(a)-1])...)
		return append(out, child{"list", a[len(a)-1]})
	case "mapcar":
		if len(a) == 0 {
			return nil
		}
		return append([]child{{"fn", a[0]}}, all("list", a[1:])...)
	case "function":
		if len(a) == 1 && a[0].Head() == "lambda" {
			return []child{{"fn", a[0]}}
		}
		return nil
	case "progn":
		return bodyChildren(a)
	case "prog1":
		if len(a) == 0 {
			return nil
		}
		return append([]child{{"first", a[0]}}, all("body", a[1:])...)
	case "if":
		var out []child
		for i, x := range a {
			if i < 3 {
				out = append(out, child{[]string{"test", "then", "else"}[i], x})
			}
		}
		return out
	case "when", "unless":
		if len(a) == 0 {
			return nil
		}
		return append([]child{{"test", a[0]}}, bodyChildren(a[1:])...)
	case "cond":
		var out []child
		for _, cl := range a {
			if isList(cl) {
				out = append(out, child{"test", cl.L[0]})
				out = append(out, bodyChildren(cl.L[1:])...)
			}
		}
		return out
	case "case":
		if len(a) == 0 {
			return nil
		}
		out := []child{{"key", a[0]}}
		for _, cl := range a[1:] {
			if isList(cl) {
				out = append(out, bodyChildren(cl.L[1:])...)
			}
		}
		return out
	case "and", "or":
		if len(a) == 0 {
			return nil
		}
		return append(all("arg", a[:len(a)-1]), child{"last", a[len(a)-1]})
	case "let", "let*":
		if len(a) == 0 {
			return nil
		}
		var out []child
		if isList(a[0]) {
			for _, b := range a[0].L {
				if isList(b) && len(b.L) == 2 {
					out = append(out, child{"init", b.L[1]})
				}
			}
		}
		return append(out, bodyChildren(a[1:])...)
	case "setq":
		var out []child
		for i := 1; i < len(a); i += 2 {
			out = append(out, child{"value", a[i]})
		}
		return out
	case "lambda":
		if len(a) == 0 {
			return nil
		}
		return append(initChildren(a[0]), bodyChildren(a[1:])...)
	case "defun":
		if len(a) < 2 {
			return nil
		}
		return append(initChildren(a[1]), bodyChildren(a[2:])...)
	case "defvar":
		if len(a) == 2 {
			return []child{{"init", a[1]}}
		}
	case "dolist", "dotimes":
		if len(a) == 0 || !isList(a[0]) {
			return nil
		}
		var out []child
		sp := a[0].L
		if 1 < len(sp) {
			out = append(out, child{map[string]string{"dolist": "list", "dotimes": "count"}[f.Head()], sp[1]})
		}
		if 2 < len(sp) {
			out = append(out, child{"result", sp[2]})
		}
		return append(out, all("body", a[1:])...)
	case "do", "do*":
		if len(a) < 2 {
			return nil
		}
		var out []child
		if isList(a[0]) {
			for _, b := range a[0].L {
				if isList(b) {
					if 1 < len(b.L) {
						out = append(out, child{"init", b.L[1]})
					}
					if 2 < len(b.L) {
						out = append(out, child{"step", b.L[2]})
					}
				}
			}
		}
		if isList(a[1]) {
			out = append(out, child{"test", a[1].L[0]})
			out = append(out, all("result", a[1].L[1:])...)
		}
		return append(out, all("body", a[2:])...)
	case "mvb":
		if len(a) < 2 {
			return nil
		}
		return append([]child{{"values", a[1]}}, bodyChildren(a[2:])...)
	case "mvl":
		return all("values", a)
	}
	return nil
}

func unwrap(f *ref.V) *ref.V {
	for f.Head() == "vtr" && len(f.L) == 3 {
		f = f.L[2]
	}
	return f
}

// analyse collects form kinds and parent.position<-child edges.
func analyse(forms []*ref.V, kinds, edges map[string]int) (markers int) {
	var walk func(f *ref.V)
	walk = func(f *ref.V) {
		if f.Head() == "vtr" {
			markers++
		}
		f = unwrap(f)
		k := kindOf(f)
		kinds[k]++
		for _, c := range children(f) {
			if edges != nil {
				edges[k+"."+c.pos+"<-"+kindOf(c.v)]++
			}
			walk(c.v)
		}
	}
	for _, f := range forms {
		walk(f)
	}
	return
}

// ---------------------------------------------------------------- shrinking

func cloneForms(fs []*ref.V) []*ref.V {
	out := make([]*ref.V, len(fs))
	for i, f := range fs {
		out[i] = f.Clone()
	}
	return out
}

func size(fs []*ref.V) int {
	n := 0
	for _, f := range fs {
		n += f.Size()
	}
	return n
}

// nodes lists every list node of the program (pre-order) as a path.
type path []int

func listNodes(fs []*ref.V) []path {
	var out []path
	var walk func(v *ref.V, p path)
	walk = func(v *ref.V, p path) {
		if v.K != ref.KList {
			return
		}
		out = append(out, append(path{}, p...))
		for i, e := range v.L {
			walk(e, append(p, i))
		}
	}
	for i, f := range fs {
		walk(f, path{i})
	}
	return out
}

func nodeAt(fs []*ref.V, p path) *ref.V {
	v := fs[p[0]]
	for _, i := range p[1:] {
		v = v.L[i]
	}
	return v
}

func replaceAt(fs []*ref.V, p path, nv *ref.V) {
	if len(p) == 1 {
		fs[p[0]] = nv
		return
	}
	par := nodeAt(fs, p[:len(p)-1])
	par.L[p[len(p)-1]] = nv
}

// shrink greedily reduces a failing program while still(fs) holds.
func shrink(fs []*ref.V, still func([]*ref.V) bool, maxTries int) []*ref.V {
	tries := 0
	try := func(cand []*ref.V) bool {
		if maxTries <= tries {
			return false
		}
		tries++
		return still(cand)
	}
	// one attempt at node p: hoist a sub-form, replace by an atom, or drop
	// an element; returns the new program on success
	reduce := func(p path) []*ref.V {
		n := nodeAt(fs, p)
		var cands []*ref.V
		for j := 1; j < len(n.L); j++ {
			cands = append(cands, n.L[j])
			if n.L[j].K == ref.KList {
				for k := 1; k < len(n.L[j].L); k++ {
					cands = append(cands, n.L[j].L[k])
				}
			}
		}
		cands = append(cands, ref.Int(0), ref.Nil)
		for _, c := range cands {
			if n.Size() <= c.Size() {
				continue
			}
			cand := cloneForms(fs)
			replaceAt(cand, p, c.Clone())
			if try(cand) {
				return cand
			}
		}
		for j := len(n.L) - 1; 1 <= j; j-- {
			cand := cloneForms(fs)
			cn := nodeAt(cand, p)
			cn.L = append(cn.L[:j:j], cn.L[j+1:]...)
			if try(cand) {
				return cand
			}
		}
		return nil
	}
	progress := true
	for progress && tries < maxTries {
		progress = false
		for i := 0; i < len(fs)-1; i++ {
			cand := append(cloneForms(fs[:i]), cloneForms(fs[i+1:])...)
			if try(cand) {
				fs, progress = cand, true
				i--
			}
		}
		nodes := listNodes(fs)
		for i := 0; i < len(nodes) && tries < maxTries; i++ {
			for {
				cand := reduce(nodes[i])
				if cand == nil {
					break
				}
				fs, progress = cand, true
				nodes = listNodes(fs)
				if len(nodes) <= i || nodeAt(fs, nodes[i]).K != ref.KList {
					break
				}
			}
		}
	}
	return fs
}

// ---------------------------------------------------------------- exec

var seenKnown = map[string]int{}

func knownIn(notes []string) []string {
	var out []string
	for _, n := range notes {
		if isBroken(n) {
			out = append(out, n)
		}
	}
	return out
}

func subset(a, b []string) bool {
	for _, x := range a {
		found := false
		for _, y := range b {
			if x == y {
				found = true
			}
		}
		if !found {
			return false
		}
	}
	return true
}

func srcOf(fs []*ref.V) string {
	parts := make([]string, len(fs))
	for i, f := range fs {
		parts[i] = f.Source(nil)
	}
	return strings.Join(parts, " ")
}

func exec(x *fw.Ctx, c Case) {
	forms, perr := ref.Parse(c.Src)
	rforms := forms
	mixedNames = nil
	if c.Kind == "det" {
		mixedNames = mixedNamesOf(c.Src)
	}
	if perr != nil || len(forms) == 0 {
		x.Fail("harness-parse", "cannot parse generated program %q: %v", c.Src, perr)
		return
	}
	typed := c.Kind == "quote"
	x.Cover("stream:" + c.Kind)
	if strings.HasSuffix(c.Tmpl, "(not expressible)") {
		x.Cover("tmpl-not-expressible")
		x.Trivial()
		return
	}
	if c.Compile {
		x.Cover("mode:compiled")
	} else {
		x.Cover("mode:interpreted")
	}
	for _, d := range c.Dirty {
		x.Cover("dirty-stream:" + d)
	}
	if len(c.Dirty) == 0 && (c.Kind == "prog" || c.Kind == "tmpl") {
		// the clean stream: none of the listed constructs is generated
		for _, k := range dirtyKeys {
			x.Cover("avoided:" + k)
		}
	}
	exps := expectations(rforms, typed)
	exp := exps[0]
	if 1 < len(exps) {
		x.Cover("judged-under-both-loop-binding-rules")
	}
	obs := map[string]any{}
	x.Observe(obs)
	if exp.err != nil {
		// the generator aims at error-free programs; the rest is outside
		x.Trivial()
		x.Cover("skipped:ref-" + exp.err.Class)
		if c.Kind == "tmpl" {
			x.Cover("tmpl-skipped")
		}
		if exp.err.Class != "limit" && exp.err.Class != "type-error" && exp.err.Class != "unspecified" && exp.err.Class != "outside" {
			// a generator defect, not a slip defect: make it visible
			x.Cover("skipped-detail:" + exp.err.Msg)
		}
		return
	}
	kinds, edges := map[string]int{}, map[string]int{}
	markers := analyse(forms, kinds, edges)
	for k, n := range kinds {
		x.CoverN("kind:"+k, n)
	}
	for e := range edges {
		x.Cover("edge:" + e)
	}
	for _, n := range exp.notes {
		x.Cover("note:" + n)
	}
	known := knownIn(exp.notes)
	for _, n := range known {
		x.Cover("avoided-construct-present:" + n)
	}

	x.CoverN("markers-placed", markers)
	x.CoverN("side-effects-compared", len(exp.trace))
	if c.Kind == "tmpl" {
		x.Cover("tmpl-run")
	}
	nk := 0
	for k := range kinds {
		if k != "lit" && k != "var" && k != "marker" {
			nk++
		}
	}
	if c.Kind != "quote" && c.Kind != "probe" && c.Kind != "det" && (len(exp.trace) < 3 || nk < 2) {
		x.Trivial()
	}
	o := runSlip(forms, c.Compile, typed, budgetFor(exp))
	obs["src"] = o.src
	obs["expected"] = strings.Join(exp.vals, " ; ")
	obs["effects"] = len(exp.trace)
	if o.err != nil {
		obs["error"] = o.err.String()
	} else {
		obs["result"] = strings.Join(o.vals, " ; ")
	}
	kind, detail := compareAny(exps, o)
	if kind == "" {
		x.Cover("agree")
		if len(known) == 0 {
			x.Cover("agree-clean")
		}
		return
	}
	mode := "interpreted"
	if c.Compile {
		mode = "compiled"
	}
	if 0 < len(known) {
		// after enough minimised witnesses of the same listed constructs in
		// this process, later ones are attributed without minimising
		key := strings.Join(known, ",")
		if seenKnown[key]++; 12 < seenKnown[key] {
			sort.Slice(known, func(i, j int) bool { return knownBroken[known[i]].prio < knownBroken[known[j]].prio })
			x.Cover("attributed-without-minimising")
			x.Fail("construct="+known[0], "%s (%s): %s   [not minimised]", srcOf(forms), mode, detail)
			return
		}
	}
	// shrink to a minimal program that still diverges and does not touch
	// a listed construct the original did not touch
	still := func(cand []*ref.V) bool {
		es := expectations(cand, typed)
		e := es[0]
		kn := knownIn(e.notes)
		if e.err != nil || !subset(kn, known) || (0 < len(known) && len(kn) == 0) {
			// a case that touches listed constructs is minimised within
			// that class (it may not drift to an unrelated divergence)
			return false
		}
		k, _ := compareAny(es, runSlip(cand, c.Compile, typed, budgetFor(e)))
		return k != ""
	}
	small := shrink(cloneForms(forms), still, 2500)
	ses := expectations(small, typed)
	se := ses[0]
	so := runSlip(small, c.Compile, typed, budgetFor(se))
	skind, sdetail := compareAny(ses, so)
	if skind == "" { // cannot happen (shrink only accepts diverging programs)
		small, se, skind, sdetail = forms, exp, kind, detail
	}
	sig := signature(small, se, skind)
	x.Fail(sig, "%s (%s): %s   [smallest diverging program; case #%d originally: %s]", srcOf(small), mode, sdetail, x.Index, detail)
	obs["shrunk"] = srcOf(small)
}

// signature names the construct that fails: a listed construct present in
// the minimal program, else the divergence kind and the form kinds left in
// the minimal program.
func signature(small []*ref.V, se expected, kind string) string {
	if k := knownIn(se.notes); 0 < len(k) {
		sort.Slice(k, func(i, j int) bool { return knownBroken[k[i]].prio < knownBroken[k[j]].prio })
		return "construct=" + k[0]
	}
	kinds := map[string]int{}
	analyse(small, kinds, nil)
	var ks []string
	for k := range kinds {
		if k != "lit" && k != "var" && k != "marker" && k != "call" {
			ks = append(ks, k)
		}
	}
	sort.Strings(ks)
	if 5 < len(ks) {
		ks = append(ks[:5], "more")
	}
	if i := strings.IndexByte(kind, ':'); 0 < i && strings.HasPrefix(kind, "error:") {
		kind = "error"
	}
	return "diverge=" + kind + " forms=" + strings.Join(ks, ",")
}

// ---------------------------------------------------------------- cases

type brokenInfo struct {
	prio  int
	probe string // deterministic probe program re-observing the finding
}

// knownBroken: constructs the tree gets wrong, named by the note the
// reference evaluator attaches to a program that touches them. An entry only
// counts while findings/C01.json lists "construct=<note>" as OPEN (isBroken):
// then the clean stream does not generate it, a minority dirty stream does,
// and a minimised divergence touching it is attributed to it. Once the
// finding is marked fixed the construct is ordinary language again and its
// label cannot take the blame for anything.
var knownBroken = map[string]brokenInfo{
	"mv-into:let-init":                  {prio: 7, probe: "(let ((x (values 1 2))) (multiple-value-list x))"},
	"mv-into:let*-init":                 {prio: 7, probe: "(let* ((x (values 1 2))) (multiple-value-list x))"},
	"sequential-binding-later-variable": {prio: 9, probe: "(let ((k 0)) (let* ((f (lambda () (vtr 1 k))) (k 5)) (list (funcall f) k)))"},
	"quote-shorthand-in-data":           {prio: 20, probe: "(quote (a 'b))"},
	"quote-shorthand:quote":             {prio: 11, probe: "(list ''a)"},
}

var (
	setupOnce sync.Once
	dirtyKeys []string // the open constructs, sorted
	probes    []Case
	detCases  []Case
	tmplTable []string
)

func isBroken(note string) bool {
	setup()
	for _, k := range dirtyKeys {
		if k == note {
			return true
		}
	}
	return false
}

// detPrograms: deterministic block run on every seed in both modes -
// defun inside a binding, redefinition, forward reference, closures over
// loop variables, functions as data, lambda lists.
var detPrograms = []string{
	"(defun uf1 (d) (+ d 100)) (let ((c 5)) (defun uf1 (d) (setq c (+ c d)))) (list (uf1 1) (uf1 2))",
	"(let ((c 1)) (defun uf1 () (vtr 1 c))) (let ((c 2)) (defun uf1 () (vtr 2 c))) (list (uf1) (uf1))",
	"(let ((c 1)) (defun uf1 (d) (setq c (+ c d)))) (list (uf1 1) (let ((c 50)) (defun uf1 (d) (setq c (* c d)))) (uf1 2) (uf1 2))",
	"(defun uf2 (x) (uf1 (vtr 1 x))) (let ((k 10)) (defun uf1 (d) (+ d k))) (uf2 1)",
	"(defun uf1 (d) 1) (defun uf2 (d) (uf1 d)) (let ((c 7)) (defun uf1 (d) (+ c d))) (list (uf2 1) (funcall #'uf1 2) (funcall 'uf1 3) (mapcar #'uf1 (list 4 5)))",
	"(defun uf1 (a) a) (let ((c 3)) (defun uf1 (a b) (+ a b c))) (uf1 1 2)",
	"(defun uf2 (n) (if (< n 1) 0 (+ n (uf1 (- n 1))))) (let ((calls 0)) (defun uf1 (n) (setq calls (+ calls 1)) (if (< n 1) calls (uf2 (- n 1))))) (list (uf2 4) (uf1 0))",
	"(let ((x 1)) (defun uf1 () x) (let ((x 2)) (defun uf2 () (list x (uf1))) (let ((x 3)) (list x (uf1) (uf2)))))",
	"(let ((fs nil)) (do ((i 0 (1+ i))) ((>= i 3)) (setq fs (cons (lambda (d) (+ i d)) fs))) (mapcar (lambda (f) (funcall f 10)) fs))",
	"(let ((fs nil)) (do* ((i 0 (1+ i)) (j 5 (+ j i))) ((>= i 3) (mapcar (lambda (f) (funcall f)) fs)) (setq fs (cons (lambda () (setq j (+ j 1)) (list i j)) fs))))",
	"(let ((acc nil)) (dolist (el (list 1 2 3) acc) (setq acc (cons (funcall (lambda (d) (vtr 1 (+ el d))) 10) acc))))",
	"(let ((fs nil)) (dotimes (i 3) (let ((j i)) (setq fs (cons (lambda () (vtr 1 j)) fs)))) (mapcar (lambda (f) (funcall f)) fs))",
	"(mapcar (lambda (f) (funcall f 3)) (list #'1+ (lambda (x) (* x 2)) '1- (let ((k 5)) (lambda (x) (+ x k)))))",
	"(let ((fs (list #'+ #'- (lambda (a b) (list a b))))) (list (funcall (car fs) 1 2) (apply (second fs) (list 5 3)) (apply (nth 2 fs) 7 (list 8))))",
	"(funcall (lambda (a &optional (b (vtr 1 (+ a 1))) c &rest r) (list a b c r)) 1)",
	"(funcall (lambda (a &optional (b (vtr 1 (+ a 1))) c &rest r) (list a b c r)) 1 2 3 4 5)",
	"(defun uf1 (a &key (k (vtr 1 (* a 2))) m) (list a k m)) (list (uf1 1) (uf1 1 :m 3) (uf1 1 :m 3 :k 4) (uf1 2 :k (vtr 2 9)))",
	"(let ((b 100)) (funcall (lambda (a &optional (b a) (c (+ b 1))) (list a b c)) 1))",
	"(let ((x 1)) (let ((f (lambda (a) (+ x a)))) (let ((x 20)) (list (funcall f 0) (mapcar f (list x)) (apply f (list x))))))",
	"(do ((i 0 (1+ i)) (done nil (> i 1))) (done i) (vtr 1 i))",
	"(list (multiple-value-list (progn (values 1 2))) (if (values nil 1) 1 2) (and (values nil 1) 3) (or (values nil 1) 3) (let ((z 0)) (multiple-value-list (setq z (values 4 5)))) (list 1 (values)) (mapcar (lambda (a) (values a 2)) (list 1)))",
	// the value forms of a binding form are evaluated in the enclosing scope:
	// the new variable has the name of an enclosing variable its own
	// init / list / count / step / end / values form reads
	"(let ((x 1)) (let ((x (vtr 1 (+ x 10))) (y (vtr 2 x))) (list x y)))",
	"(let ((x 1)) (let* ((x (vtr 1 (+ x 10))) (y (vtr 2 x))) (list x y)))",
	"(let ((x 10)) (list (do ((x (vtr 1 (+ x 1)) (1+ x)) (y (vtr 2 x) (+ y x))) ((> x 12) (list x y)) (vtr 3 x)) x))",
	"(let ((x 10)) (list (do* ((x (vtr 1 (+ x 1)) (1+ x)) (y (vtr 2 x) (+ y x))) ((> x 12) (list x y)) (vtr 3 x)) x))",
	"(let ((n 2)) (do ((n (vtr 1 n) (1- n)) (acc nil (cons n acc))) ((< n 1) (vtr 2 (list n acc)))))",
	"(let ((xs (list 1 2 3))) (list (dolist (xs (vtr 1 xs) (vtr 3 xs)) (vtr 2 xs)) xs))",
	"(let ((item (list 0 4 5)) (acc nil)) (dolist (item (cdr item) (reverse acc)) (setq acc (cons (vtr 1 item) acc))))",
	"(let ((xs (list 1 2))) (list (dolist (xs xs xs) (vtr 1 xs)) xs))",
	"(let ((n 3)) (list (dotimes (n (vtr 1 n) (vtr 3 n)) (vtr 2 n)) n))",
	"(let ((x 2)) (list ((lambda (x y) (list x y)) (vtr 1 (+ x 1)) (vtr 2 x)) (funcall (lambda (x) (vtr 3 x)) (* x 5)) x))",
	"(let ((a 1) (b 2)) (list (multiple-value-bind (a b) (values (vtr 1 b) (vtr 2 a)) (list a b)) a b))",
	"(let ((b 5)) (funcall (lambda (a &optional (b (vtr 1 b))) (list a b)) 1))",
	"(let ((xs (list 1 2)) (f (lambda (xs) (let ((out nil)) (dolist (xs (vtr 1 xs) (reverse out)) (setq out (cons (* xs 2) out))))))) (let ((res nil)) (dolist (k (list xs (cdr xs)) (reverse res)) (setq res (cons (funcall f k) res)))))",
	"(let ((g (lambda (i) (dotimes (i (vtr 1 i) (vtr 2 i)) (vtr 3 i))))) (let ((r nil)) (dotimes (i 3 (reverse r)) (setq r (cons (funcall g i) r)))))",
	"(let ((h (lambda (x) (do ((x (vtr 1 x) (1- x)) (s 0 (+ s x))) ((< x 1) (vtr 2 s)))))) (let ((r nil)) (dolist (x (list 1 3) (reverse r)) (setq r (cons (funcall h x) r)))))",
	"(list 'nil 't '5 '3/4 '2.5f0 '\"s\" '#\\a '#(1 2) '(a . b))",
	// a &rest list kept after the call, the function called by a mapping function over several lists
	"(list (mapcar (lambda (&rest r) r) (list 1 2 3) (list 4 5 6)) (mapcar (lambda (a &rest r) (cons (vtr 1 a) r)) (list 1 2) (list 3 4) (list 5 6)))",
	"(let ((acc nil)) (mapc (lambda (&rest r) (setq acc (cons r acc))) (list 1 2) (list 3 4)) (defun uf1 (&rest r) r) (list (reverse acc) (mapcar #'uf1 (list 7 8) (list 9 10)) (mapcar 'uf1 (list 1 2))))",
	"(let ((fs (mapcar (lambda (&rest r) (lambda () r)) (list 1 2) (list 3 4)))) (list (funcall (car fs)) (funcall (car (cdr fs)))))",
	// argument values that are not self-evaluating (a symbol, a list that looks like a call) passed
	// to a function defined later and to the function being defined: evaluated once, by the caller
	"(defun uf2 (x) (list 'got (uf1 (vtr 1 x)))) (defun uf1 (y) y) (let ((foo 42)) (list (uf2 'foo) (uf2 '(+ 1 2)) (uf2 (list 'car foo)) (uf2 foo)))",
	"(defun uf1 (x acc) (if (consp x) (uf1 (cdr x) (cons (car x) acc)) acc)) (let ((a 1) (b 2)) (list (uf1 '(a b) nil) (uf1 '((+ a b) a) '(b)) (uf1 (list a 'a) (list b 'b))))",
	"(defun uf2 (x) (uf1 x x)) (defun uf1 (p &optional (q 'nq) &rest r) (list p q r)) (let ((s 5)) (list (uf2 's) (uf2 '(car s)) (funcall #'uf2 'uf2) (mapcar #'uf2 '(s (s)))))",
	// a variable written with another letter case where it is bound than where it is read
	"(list (dotimes (I 3 i) (vtr 1 i)) (let ((acc nil)) (dotimes (Count 3 acc) (setq acc (cons count acc)))) (dolist (El (list 1 2) el) (vtr 2 EL)))",
	"(list (do ((K 0 (1+ k)) (Acc nil (cons K acc))) ((>= k 3) ACC)) (do* ((K 0 (1+ k)) (S 0 (+ s K))) ((> k 2) (list K s))) (let ((X 1) (y 2)) (list x Y)) (let* ((A 1) (b (+ a 1))) (list a B)))",
	"(list (funcall (lambda (P &optional (Q 2)) (list p q)) 1) (mapcar (lambda (V) (* v 2)) (list 1 2)) (multiple-value-bind (Qa rb) (values 1 2) (list qa RB)))",
	// a self-evaluating object as the only or the last form of a function body
	"(defun uf1 () :circle) (list (uf1) (funcall (lambda () :sq)) ((lambda (a) :tri) 1) (uf1))",
	"(defun uf1 (a) (vtr 1 a) :sq) (defun uf2 () \"s\") (list (uf1 1) (uf2) (funcall (lambda () #\\a)) (funcall (lambda () 3/4)) (funcall (lambda () nil)) (funcall (lambda () t)) (uf1 2))",
	"(let ((k :a)) (defun uf1 () k) (defun uf2 () :b) (list (uf1) (uf2) (mapcar (lambda (x) :c) (list 1 2))))",
}

func setup() {
	setupOnce.Do(func() {
		for k := range knownBroken {
			if fw.FindingOpen("C01", "construct="+k) {
				dirtyKeys = append(dirtyKeys, k)
			}
		}
		sort.Strings(dirtyKeys)
		for _, k := range dirtyKeys {
			p := knownBroken[k].probe
			probes = append(probes, Case{Kind: "probe", Src: p, Dirty: []string{k}})
			probes = append(probes, Case{Kind: "probe", Src: p, Dirty: []string{k}, Compile: true})
		}
		for _, p := range detPrograms {
			detCases = append(detCases, Case{Kind: "det", Src: p}, Case{Kind: "det", Src: p, Compile: true})
		}
		for _, pp := range parentPositions {
			for _, ck := range allKinds {
				tmplTable = append(tmplTable, pp[0]+"."+pp[1]+"<-"+ck)
			}
		}
	})
}

var parentPositions = [][2]string{
	{"call", "arg"}, {"ucall", "arg"}, {"progn", "body"}, {"progn", "last"}, {"prog1", "first"}, {"prog1", "body"},
	{"if", "test"}, {"if", "then"}, {"if", "else"}, {"when", "test"}, {"when", "body"}, {"when", "last"},
	{"unless", "test"}, {"unless", "body"}, {"unless", "last"}, {"cond", "test"}, {"cond", "body"}, {"cond", "last"},
	{"case", "key"}, {"case", "body"}, {"case", "last"}, {"and", "arg"}, {"and", "last"}, {"or", "arg"}, {"or", "last"},
	{"let", "init"}, {"let", "body"}, {"let", "last"}, {"let*", "init"}, {"let*", "body"}, {"let*", "last"},
	{"setq", "value"}, {"lambda-call", "arg"}, {"lambda", "body"}, {"lambda", "last"}, {"funcall", "fn"}, {"funcall", "arg"},
	{"apply", "fn"}, {"apply", "arg"}, {"apply", "list"}, {"mapcar", "fn"}, {"mapcar", "list"},
	{"closure", "init"}, {"closure", "arg"}, {"closure", "list"}, {"rec", "base"}, {"rec", "step"}, {"rec", "arg"},
	{"defun", "body"}, {"defun", "last"}, {"dolist", "list"}, {"dolist", "result"}, {"dolist", "body"},
	{"dotimes", "count"}, {"dotimes", "result"}, {"dotimes", "body"}, {"do", "init"}, {"do", "step"}, {"do", "result"}, {"do", "body"},
	{"do*", "init"}, {"do*", "step"}, {"do*", "result"}, {"do*", "body"}, {"mvb", "body"}, {"mvb", "last"}, {"values", "arg"},
	{"fnlist", "fn"}, {"fnlist", "arg"}, {"ll", "init"}, {"ll", "arg"}, {"loopclosure", "arg"}, {"loopclosure", "list"},
}

var mainKindOf = map[string]string{"lambda": "funcall", "defun": "ucall", "values": "mvl"}

func counts(tier string) (nProbe, nTmpl, nQuote, nProg int) {
	setup()
	nProbe = len(probes) + len(detCases)
	if tier == "thorough" {
		return nProbe, len(tmplTable) * 4, 40000, 1000000
	}
	return nProbe, len(tmplTable), 4000, 60000
}

func nCases(tier string) int {
	a, b, c, d := counts(tier)
	return a + b + c + d
}

func newGen(r *rand.Rand, compile bool, dirty []string) *gen {
	g := &gen{r: r, compile: compile, dirty: map[string]bool{}, budget: 60, maxDepth: 6, markP: 0.5, shadow: true, where: "top"}
	for _, d := range dirty {
		g.dirty[d] = true
	}
	return g
}

func genCase(r *rand.Rand, i int, tier string) Case {
	nProbe, nTmpl, nQuote, _ := counts(tier)
	if i < len(probes) {
		return probes[i]
	}
	if i < nProbe {
		return detCases[i-len(probes)]
	}
	i -= nProbe
	compile := r.IntN(2) == 0
	if i < nTmpl {
		spec := tmplTable[i%len(tmplTable)]
		dot, arrow := strings.IndexByte(spec, '.'), strings.Index(spec, "<-")
		parent, pos, ck := spec[:dot], spec[dot+1:arrow], spec[arrow+2:]
		for try := 0; try < 8; try++ {
			g := newGen(r, compile, nil)
			g.maxDepth, g.budget, g.markP = 3, 30, 0.4
			g.force = &force{parent: parent, pos: pos, child: ck}
			mk := parent
			if m, ok := mainKindOf[parent]; ok {
				mk = m
			}
			t := []typ{tA, tI, tL}[try%3]
			forms := g.program(mk, t)
			if forms == nil || !g.force.used || g.force.failed {
				continue
			}
			return Case{Kind: "tmpl", Src: srcOf(forms), Compile: compile, Tmpl: spec}
		}
		// the combination is not expressible (type of the position)
		return Case{Kind: "tmpl", Src: "(vtr 1 0)", Tmpl: spec + " (not expressible)"}
	}
	i -= nTmpl
	if i < nQuote {
		return quoteCase(r, compile)
	}
	var dirty []string
	if 0 < len(dirtyKeys) && r.IntN(12) == 0 {
		// one open listed construct per dirty case
		dirty = []string{dirtyKeys[r.IntN(len(dirtyKeys))]}
	}
	g := newGen(r, compile, dirty)
	g.maxDepth = 3 + r.IntN(4)
	g.budget = 20 + r.IntN(50)
	t := []typ{tA, tI, tL, tA}[r.IntN(4)]
	forms := g.program("", t)
	return Case{Kind: "prog", Src: srcOf(forms), Compile: compile, Dirty: dirty}
}

func init() {
	fw.Register(fw.Spec[Case]{
		ID: "C01",
		Rule: "typed program generator over the core forms (builtin/user calls, progn, prog1, if/when/unless/cond/case, and/or, let/let*, " +
			"setq, lambda, lambda in operator position, closures (counter, maker, shared binding, made in a loop, called where the captured name is " +
			"rebound, defun inside a binding incl. redefinition of an existing function and forward references), defun + recursion, " +
			"dolist/dotimes/do/do* (variables without step, atom end tests), closures over loop variables, mapcar/apply/funcall incl. zero " +
			"arguments and functions held in lists, lambda lists with &optional/&rest/&key whose init forms see earlier parameters, " +
			"values/multiple-value-bind/-list with multiple values flowing through every position, quote and 'x before every datum kind), " +
			"depth <= 6, ~20-70 generated nodes; variable names come from a pool of six so bindings, parameters, closure-creating scopes and " +
			"calling scopes shadow one another; trace calls (vtr k form)/(vtr k) at evaluated positions. The reference evaluator's values and " +
			"trace must equal the interpreter's (interpreted and Code.Compile'd modes). Only what the language specifies is judged: a " +
			"dolist/dotimes variable used after its iteration is accepted under either permitted binding rule, a function redefined while " +
			"the arguments of a call to it are evaluated is skipped. Blocks: probes of the OPEN findings; a deterministic block (defun in a " +
			"binding, redefinition, forward reference, loop-variable closures, functions as data, lambda lists, multiple values, quote); two-level " +
			"templates (every form kind forced as direct child of every position of every form kind); quote programs over every datum kind in " +
			"10 contexts; seeded random programs. Constructs named by an OPEN entry of findings/C01.json (counters avoided:*) are kept out of " +
			"the clean stream and built on purpose by 1 in 12 random cases; a divergence is attributed to such a construct only while its " +
			"finding is open, otherwise the signature is the divergence kind plus the form kinds of the minimised program. " +
			"distinct = distinct program text + mode; non-trivial = reference run error-free with >= 3 trace events and >= 2 form kinds",
		N:        nCases,
		Gen:      genCase,
		Exec:     exec,
		Init:     initWorker,
		Batch:    1000,
		HangSecs: 120,
		Assumptions: []string{
			"the reference evaluator (internal/c01/ref, ANSI CL semantics of the subset, no slip code) is the trusted oracle",
			"integers stay below 2^40 (C05 owns overflow); programs the reference evaluator cannot finish in 20000 steps are skipped",
			"non-local exits, macros, special-variable rebinding are outside (C07, C08); lambda lists stay within what C04 repaired: no unknown or repeated keywords, init forms never mention a parameter to their right",
		},
	})
}
