package c01

import (
	"fmt"
	"os"
	"strings"
	"testing"
	"verif/internal/fw"

	"verif/internal/c01/ref"
)

// TestDev evaluates the program in $C01_SRC on both sides (development aid).
func TestDev(t *testing.T) {
	src := os.Getenv("C01_SRC")
	if src == "" {
		t.Skip("no C01_SRC")
	}
	initWorker()
	forms, err := ref.Parse(src)
	if err != nil {
		t.Fatal(err)
	}
	for _, compile := range []bool{false, true} {
		e := runRef(forms, true)
		o := runSlip(forms, compile, true, 0)
		fmt.Printf("compile=%v\n ref : vals=%v err=%v notes=%v\n       trace=%s\n slip: vals=%v err=%v\n       trace=%s\n", compile, e.vals, e.err, e.notes, traceStr(e.trace), o.vals, o.err, traceStr(o.trace))
		k, d := compare(e, o)
		fmt.Printf(" => %s %s\n", k, d)
	}
}

// TestDevShrink shrinks the diverging program in $C01_SRC.
func TestDevShrink(t *testing.T) {
	src := os.Getenv("C01_SRC")
	if src == "" {
		t.Skip("no C01_SRC")
	}
	initWorker()
	forms, _ := ref.Parse(src)
	compile := os.Getenv("C01_COMPILE") != ""
	n := 0
	still := func(cand []*ref.V) bool {
		n++
		e := runRef(cand, false)
		if e.err != nil {
			return false
		}
		k, _ := compare(e, runSlip(cand, compile, false, 0))
		return k != ""
	}
	fmt.Println("orig diverges:", still(forms))
	small := shrink(cloneForms(forms), still, 2500)
	fmt.Println("tries:", n, "shrunk:", srcOf(small))
}

// TestDevFind prints the indices of generated cases whose source contains $C01_FIND.
func TestDevFind(t *testing.T) {
	pat := os.Getenv("C01_FIND")
	if pat == "" {
		t.Skip("no C01_FIND")
	}
	tier := os.Getenv("C01_TIER")
	if tier == "" {
		tier = "quick"
	}
	n := nCases(tier)
	for i := 0; i < n; i++ {
		c := genCase(fw.CaseRand("C01", 1, i), i, tier)
		if strings.Contains(c.Src, pat) {
			fmt.Println("index", i, c.Kind, c.Compile)
		}
	}
}
