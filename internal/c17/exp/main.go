// Scratch driver (development only): evaluates a Lisp file in a race build.
package main

import (
	"fmt"
	"os"
	"runtime"
	"strconv"

	"github.com/ohler55/slip"
	_ "github.com/ohler55/slip/pkg"
)

func main() {
	src, _ := os.ReadFile(os.Args[1])
	if 2 < len(os.Args) {
		n, _ := strconv.Atoi(os.Args[2])
		runtime.GOMAXPROCS(n)
	}
	defer func() {
		if r := recover(); r != nil {
			fmt.Printf("PANIC: %v\n", r)
			os.Exit(3)
		}
	}()
	scope := slip.NewScope()
	res := slip.ReadString(string(src), scope).Eval(scope, nil)
	fmt.Println("RESULT:", slip.ObjectString(res))
}
