// Package c17 monitors slip's concurrency primitives (run, channels,
// mutexes, synchronized instances) and the interpreter's shared tables under
// concurrent load, in workers built with the Go race detector.
package c17

import (
	"fmt"
	"math/rand/v2"
	"os"
	"runtime"
	"sort"
	"strings"
	"sync"
	"sync/atomic"
	"time"

	"github.com/anishathalye/porcupine"
	"github.com/ohler55/slip"

	"verif/internal/fw"
	"verif/internal/sl"
)

// Case is one concurrent program plus a schedule configuration.
type Case struct {
	Kind    string `json:"kind"`  // workload kind
	N       int    `json:"n"`     // routines
	M       int    `json:"m"`     // operations per routine
	Cap     int    `json:"cap"`   // channel capacity (0 = unbuffered)
	Procs   int    `json:"procs"` // GOMAXPROCS
	Perturb string `json:"perturb"`
	Warm    bool   `json:"warm"`
	Salt    int    `json:"salt"`
	Shape   string `json:"shape,omitempty"` // variant within a kind of the second block
}

var kinds = []string{"prodcons", "mutex-let", "mutex-global", "sync-instance", "defvar-defun", "printing", "exit-lock", "generic", "mutex-hash", "exit-lock-global", "range-close", "select", "hash-register", "resync", "select-drain"}

// The case list has two blocks: the first (firstBlock cases) cycles through
// kinds, the second cycles through kinds2 (workloads whose routines all run
// the same function objects). The first block is generated exactly as before
// the second one existed, so that its cases stay the same.
var kinds2 = []string{"shared-code", "shared-pipe", "req-reply", "tables"}

var shapes2 = map[string][]string{"shared-code": {"defun", "lambda"}, "shared-pipe": {"pop", "range", "select"},
	"req-reply": {"per-request", "per-client"}, "tables": {"own", "redefine", "daemons", "flavor-methods", "method-rounds"}}

func firstBlock(tier string) int {
	if os.Getenv("C17_BLOCK") == "2" { // development aid: second block only
		return 0
	}
	if tier == "thorough" {
		return 2400
	}
	return 210
}

// block2 and block3 give the sizes of the second and third block.
func block2(tier string) int {
	if tier == "thorough" {
		return 480
	}
	return 48
}

func block3(tier string) int {
	if tier == "thorough" {
		return len(edges) + 16*len(kinds)
	}
	return len(edges) + len(kinds)
}

func nCases(tier string) int { return firstBlock(tier) + block2(tier) + block3(tier) + block4(tier) }

// block4: the late-global workload (added after the other blocks so that their cases keep
// their indices): routines define functions that read a global nobody has defined yet.
func block4(tier string) int {
	if tier == "thorough" {
		return 48
	}
	return 6
}

func gen4(r *rand.Rand, j int) Case {
	c := Case{Kind: "late-global", N: []int{8, 4, 2, 8, 6, 3}[j%6], M: 30 + r.IntN(31)}
	c.Procs = []int{16, 4, 2, 16}[j%4]
	c.Perturb = perturbs[(j/2)%4]
	c.Shape = []string{"defun", "lambda", "defmethod"}[j%3]
	c.Warm = true
	c.Salt = 400000 + j
	return c
}

// gen2 makes case j of the second block. Cases come in groups of four (one
// per kind); group a has GOMAXPROCS {16,4,2,1}[a%4]; groups 0-3 of every 12
// are cold (the first call of every shared function happens concurrently: the
// listed first-evaluation finding), the other 8 warm; perturbation and shape
// rotate so that 16 groups meet every GOMAXPROCS x perturbation. Groups 0 and
// 4 are fixed, seed-independent boundary programs (8 routines, 40 steps, all
// processors, no perturbation, cold and warm).
func gen2(r *rand.Rand, j int) Case {
	c := Case{Kind: kinds2[j%len(kinds2)]}
	if k := os.Getenv("C17_KIND"); k != "" {
		c.Kind = k
	}
	a := j / len(kinds2)
	c.Procs = []int{16, 4, 2, 1}[a%4]
	c.Warm = (a/4)%3 != 0
	sh := shapes2[c.Kind]
	c.Shape = sh[(a+a/4+a/2)%len(sh)]
	c.Perturb = perturbs[(a+a/4)%4]
	c.N = 2 + r.IntN(7)
	c.M = 5 + r.IntN(60)
	c.Cap = []int{0, 1, 2, 8, 64}[r.IntN(5)]
	if a == 0 || a == 4 {
		c.N, c.M, c.Cap, c.Perturb = 8, 40, 2, "off"
	}
	c.Salt = 100000 + j
	return c
}

var perturbs = []string{"off", "yield", "sleep", "prio"}

// edges: fixed, seed-independent programs at the capacity edges of a channel:
// a producer pushes exactly as many items as the buffer holds, one more, a
// single item; unbuffered with one item; 2 routines (more consumers than
// items), 3 and 8.
var edges = func() (out []Case) {
	n := 0
	for _, kind := range []string{"prodcons", "range-close", "shared-pipe"} {
		for _, cm := range [][2]int{{0, 1}, {1, 1}, {1, 2}, {2, 2}, {2, 3}, {8, 9}, {64, 64}, {64, 65}} {
			c := Case{Kind: kind, Cap: cm[0], M: cm[1], N: []int{2, 8, 3}[n%3], Procs: []int{16, 4, 2, 1}[n%4], Perturb: "off", Warm: true, Salt: 200000 + n}
			if kind == "shared-pipe" {
				c.Shape = shapes2[kind][n%3]
			}
			out = append(out, c)
			n++
		}
	}
	return
}()

// gen3 makes case j of the third block: the capacity edges, then the kinds of
// the first block under priority perturbation.
func gen3(r *rand.Rand, j int) Case {
	if j < len(edges) {
		return edges[j]
	}
	j -= len(edges)
	c := Case{Kind: kinds[j%len(kinds)]}
	c.N = 2 + r.IntN(7)
	c.M = 5 + r.IntN(60)
	c.Cap = []int{0, 1, 2, 8, 64}[r.IntN(5)]
	c.Procs = []int{1, 2, 4, 16}[(j+j/len(kinds))%4]
	c.Perturb = "prio"
	c.Warm = (j/len(kinds))%2 == 1
	c.Salt = 300000 + j
	return c
}

// selectDrainRounds: the stranding window is a few nanoseconds wide, so the
// kind gets more rounds than the other kinds get operations.
func selectDrainRounds(c Case) int { return 2*c.M + 20 }

func gen(r *rand.Rand, i int, tier string) Case {
	if b3 := firstBlock(tier) + block2(tier) + block3(tier); b3 <= i {
		return gen4(r, i-b3)
	}
	if fb := firstBlock(tier); fb+block2(tier) <= i {
		return gen3(r, i-fb-block2(tier))
	} else if fb <= i {
		return gen2(r, i-fb)
	}
	c := Case{Kind: kinds[i%len(kinds)]}
	if k := os.Getenv("C17_KIND"); k != "" { // development aid: one workload kind only
		c.Kind = k
	}
	c.N = 2 + r.IntN(7)
	c.M = 5 + r.IntN(60)
	if tier == "thorough" && r.IntN(4) == 0 {
		c.M = 100 + r.IntN(101)
	}
	c.Cap = []int{0, 1, 2, 8, 64}[r.IntN(5)]
	c.Procs = []int{1, 2, 4, 16}[(i/len(kinds))%4]
	c.Perturb = []string{"off", "yield", "sleep"}[(i/(len(kinds)*4))%3]
	c.Warm = (i/(len(kinds)*12))%2 == 1
	c.Salt = i
	return c
}

// ----- harness-side monitors reachable from Lisp -----

var (
	inside     [16]int32 // per mutex id: routines currently inside the region
	overlaps   int64
	enterCount int64
	perturbMu  sync.Mutex
	perturbRnd *rand.Rand
	perturbOn  atomic.Int32 // 0 off, 1 yield, 2 sleep, 3 prio
	prioSalt   atomic.Uint64
	prioCalls  atomic.Uint64
	pointsHit  int64
)

func perturb() {
	switch perturbOn.Load() {
	case 1:
		perturbMu.Lock()
		k := perturbRnd.IntN(3)
		perturbMu.Unlock()
		if k == 0 {
			runtime.Gosched()
		}
	case 2:
		perturbMu.Lock()
		k := perturbRnd.IntN(4)
		d := 10 + perturbRnd.IntN(190)
		perturbMu.Unlock()
		switch k {
		case 0:
			runtime.Gosched()
		case 1:
			time.Sleep(time.Duration(d) * time.Microsecond)
		}
	case 3:
		// priority-based: every routine has a priority (a hash of its goroutine
		// id and the current epoch); at each point a routine gives way as often
		// as its priority is low, the lowest also sleeps; the priorities are
		// drawn again at change points (every 512 points)
		epoch := prioCalls.Add(1) / 512
		h := goid()*0x9E3779B97F4A7C15 ^ prioSalt.Load() ^ epoch*0xBF58476D1CE4E5B9
		h ^= h >> 29
		switch prio := (h * 0x94D049BB133111EB >> 40) % 4; prio {
		case 0:
		case 3:
			runtime.Gosched()
			time.Sleep(20 * time.Microsecond)
		default:
			for k := uint64(0); k < prio; k++ {
				runtime.Gosched()
			}
		}
	}
}

// goid returns the id of the calling goroutine (from the first line of its
// stack trace: "goroutine 123 [running]:").
func goid() uint64 {
	var buf [40]byte
	n := runtime.Stack(buf[:], false)
	var id uint64
	for _, ch := range buf[len("goroutine "):n] {
		if ch < '0' || '9' < ch {
			break
		}
		id = id*10 + uint64(ch-'0')
	}
	return id
}

type enterFn struct{ slip.Function }

func (f *enterFn) Call(s *slip.Scope, args slip.List, depth int) slip.Object {
	id := int(args[0].(slip.Fixnum)) & 15
	atomic.AddInt64(&enterCount, 1)
	if atomic.AddInt32(&inside[id], 1) != 1 {
		atomic.AddInt64(&overlaps, 1)
	}
	perturb()
	return nil
}

type leaveFn struct{ slip.Function }

func (f *leaveFn) Call(s *slip.Scope, args slip.List, depth int) slip.Object {
	id := int(args[0].(slip.Fixnum)) & 15
	perturb()
	atomic.AddInt32(&inside[id], -1)
	return nil
}

type yieldFn struct{ slip.Function }

func (f *yieldFn) Call(s *slip.Scope, args slip.List, depth int) slip.Object {
	runtime.Gosched()
	perturb()
	return nil
}

// ----- recorded call/return history for the linearizability monitor -----

type regIn struct {
	Key   int64
	Write bool
	Val   int64
}

type histEv struct {
	client   int
	in       regIn
	out      int64
	call     int64
	ret      int64
	returned bool
}

var (
	histMu  sync.Mutex
	hist    []histEv
	histClk int64
)

type callFn struct{ slip.Function }

// (c17-call routine write key value) => token
func (f *callFn) Call(s *slip.Scope, args slip.List, depth int) slip.Object {
	histMu.Lock()
	histClk++
	hist = append(hist, histEv{client: int(args[0].(slip.Fixnum)), call: histClk,
		in: regIn{Write: args[1].(slip.Fixnum) == 1, Key: int64(args[2].(slip.Fixnum)), Val: int64(args[3].(slip.Fixnum))}})
	tok := len(hist) - 1
	histMu.Unlock()
	perturb()
	return slip.Fixnum(tok)
}

type retFn struct{ slip.Function }

// (c17-ret token result)
func (f *retFn) Call(s *slip.Scope, args slip.List, depth int) slip.Object {
	perturb()
	var out int64
	if v, ok := args[1].(slip.Fixnum); ok {
		out = int64(v)
	}
	histMu.Lock()
	histClk++
	ev := &hist[int(args[0].(slip.Fixnum))]
	ev.out, ev.ret, ev.returned = out, histClk, true
	histMu.Unlock()
	return nil
}

var regModel = porcupine.Model{
	Partition: func(h []porcupine.Operation) [][]porcupine.Operation {
		m := map[int64][]porcupine.Operation{}
		var keys []int64
		for _, op := range h {
			k := op.Input.(regIn).Key
			if _, has := m[k]; !has {
				keys = append(keys, k)
			}
			m[k] = append(m[k], op)
		}
		out := make([][]porcupine.Operation, 0, len(keys))
		for _, k := range keys {
			out = append(out, m[k])
		}
		return out
	},
	Init: func() any { return int64(0) },
	Step: func(st, in, out any) (bool, any) {
		i := in.(regIn)
		if i.Write {
			return true, i.Val
		}
		return out.(int64) == st.(int64), st
	},
	Equal: func(a, b any) bool { return a.(int64) == b.(int64) },
}

func initWorker() {
	slip.Define(func(args slip.List) slip.Object {
		f := callFn{Function: slip.Function{Name: "c17-call", Args: args}}
		f.Self = &f
		return &f
	}, &slip.FuncDoc{Name: "c17-call", Args: []*slip.DocArg{{Name: "routine"}, {Name: "write"}, {Name: "key"}, {Name: "value"}}, Text: "monitor: operation invoked"}, &slip.UserPkg)
	slip.Define(func(args slip.List) slip.Object {
		f := retFn{Function: slip.Function{Name: "c17-ret", Args: args}}
		f.Self = &f
		return &f
	}, &slip.FuncDoc{Name: "c17-ret", Args: []*slip.DocArg{{Name: "token"}, {Name: "result"}}, Text: "monitor: operation returned"}, &slip.UserPkg)
	slip.Define(func(args slip.List) slip.Object {
		f := enterFn{Function: slip.Function{Name: "c17-enter", Args: args}}
		f.Self = &f
		return &f
	}, &slip.FuncDoc{Name: "c17-enter", Args: []*slip.DocArg{{Name: "id", Type: "fixnum"}}, Text: "monitor: entering region id"}, &slip.UserPkg)
	slip.Define(func(args slip.List) slip.Object {
		f := leaveFn{Function: slip.Function{Name: "c17-leave", Args: args}}
		f.Self = &f
		return &f
	}, &slip.FuncDoc{Name: "c17-leave", Args: []*slip.DocArg{{Name: "id", Type: "fixnum"}}, Text: "monitor: leaving region id"}, &slip.UserPkg)
	slip.Define(func(args slip.List) slip.Object {
		f := yieldFn{Function: slip.Function{Name: "c17-yield", Args: args}}
		f.Self = &f
		return &f
	}, &slip.FuncDoc{Name: "c17-yield", Args: []*slip.DocArg{}, Text: "monitor: yield"}, &slip.UserPkg)
	slip.VerifHook = func(name string) {
		atomic.AddInt64(&pointsHit, 1)
		perturb()
	}
}

// ----- programs -----

func program(c Case) (src string, warm string) {
	u := fmt.Sprintf("c17k%d", c.Salt) // unique suffix for global names
	var b strings.Builder
	switch c.Kind {
	case "shared-code":
		return sharedCodeProgram(c, u)
	case "shared-pipe":
		return sharedPipeProgram(c, u)
	case "req-reply":
		return reqReplyProgram(c, u)
	case "tables":
		return tablesProgram(c, u)
	case "prodcons":
		// N producers, N consumers (at least 1), unique items p*100000+i
		nc := 1 + c.N/2
		np := c.N - c.N/2
		fmt.Fprintf(&b, "(let* ((ch (make-channel %d)) (out (make-channel %d)) (done (make-channel %d)) (res nil))\n", c.Cap, np*c.M+1, c.N+1)
		for p := 0; p < np; p++ {
			fmt.Fprintf(&b, " (run (progn (dotimes (i %d) (channel-push ch (+ %d i))) (channel-push done t)))\n", c.M, (p+1)*100000)
		}
		for k := 0; k < nc; k++ {
			fmt.Fprintf(&b, " (run (progn (do ((v (channel-pop ch) (channel-pop ch))) ((eq v 'stop)) (channel-push out (list %d v))) (channel-push done t)))\n", k)
		}
		fmt.Fprintf(&b, " (dotimes (i %d) (channel-pop done))\n (dotimes (i %d) (channel-push ch 'stop))\n (dotimes (i %d) (channel-pop done))\n", np, nc, nc)
		fmt.Fprintf(&b, " (dotimes (i %d) (setq res (cons (channel-pop out) res)))\n (reverse res))", np*c.M)
	case "hash-register":
		// a hash table used as three registers: unique-valued puts and gets, each
		// inside with-mutex-lock, with call/return events recorded around them
		fmt.Fprintf(&b, "(let* ((m (make-mutex)) (done (make-channel %d)) (h (make-hash-table)))\n (dotimes (k 3) (setf (gethash k h) 0))\n", c.N+1)
		mm := c.M
		if 40 < mm {
			mm = 40 // keep histories short: the checker is exponential in the worst case
		}
		for k := 0; k < c.N; k++ {
			fmt.Fprintf(&b, " (run (progn (dotimes (i %d) (let ((key (mod (+ i %d) 3))) (if (= 0 (mod (+ i %d) 2))"+
				" (let ((tk (c17-call %d 1 key (+ %d i)))) (with-mutex-lock m (setf (gethash key h) (+ %d i))) (c17-ret tk 0))"+
				" (let ((tk (c17-call %d 0 key 0))) (c17-ret tk (with-mutex-lock m (gethash key h))))))) (channel-push done t)))\n",
				mm, k, k/2, k, (k+1)*100000+1, (k+1)*100000+1, k)
		}
		fmt.Fprintf(&b, " (dotimes (i %d) (channel-pop done))\n (list (gethash 0 h) (gethash 1 h) (gethash 2 h)))", c.N)
	case "range-close":
		// consumers iterate with range until the channel is closed; the main
		// routine closes it after every producer is done
		nc := 1 + c.N/2
		np := c.N - c.N/2
		fmt.Fprintf(&b, "(let* ((ch (make-channel %d)) (out (make-channel %d)) (done (make-channel %d)) (res nil))\n", c.Cap, np*c.M+1, c.N+1)
		for p := 0; p < np; p++ {
			fmt.Fprintf(&b, " (run (progn (dotimes (i %d) (channel-push ch (+ %d i))) (channel-push done t)))\n", c.M, (p+1)*100000)
		}
		for k := 0; k < nc; k++ {
			fmt.Fprintf(&b, " (run (progn (range (lambda (v) (channel-push out (list %d v))) ch) (channel-push done t)))\n", k)
		}
		fmt.Fprintf(&b, " (dotimes (i %d) (channel-pop done))\n (channel-close ch)\n (dotimes (i %d) (channel-pop done))\n", np, nc)
		fmt.Fprintf(&b, " (dotimes (i %d) (setq res (cons (channel-pop out) res)))\n (reverse res))", np*c.M)
	case "select":
		// one consumer selects over one channel per producer; a producer ends its
		// stream with the symbol stop
		np := 2 + c.N%3
		fmt.Fprintf(&b, "(let* ((out (make-channel %d)) (done (make-channel 2)) (res nil)", np*c.M+1)
		for p := 0; p < np; p++ {
			fmt.Fprintf(&b, " (c%d (make-channel %d))", p, c.Cap)
		}
		b.WriteString(")\n")
		for p := 0; p < np; p++ {
			fmt.Fprintf(&b, " (run (progn (dotimes (i %d) (channel-push c%d (+ %d i))) (channel-push c%d 'stop)))\n", c.M, p, (p+1)*100000, p)
		}
		b.WriteString(" (run (let ((stops 0)) (do () ((= stops " + fmt.Sprint(np) + ")) (select")
		for p := 0; p < np; p++ {
			fmt.Fprintf(&b, " (c%d v (if (eq v 'stop) (setq stops (1+ stops)) (channel-push out (list %d v))))", p, p)
		}
		b.WriteString(")) (channel-push done t)))\n (channel-pop done)\n")
		fmt.Fprintf(&b, " (dotimes (i %d) (setq res (cons (channel-pop out) res)))\n (reverse res))", np*c.M)
	case "select-drain":
		// the usual data-plus-quit shape under contention: in every round fewer
		// items than consumers wait in a buffered channel when all consumers
		// arrive at select together (released by closing a gate); each consumer
		// loops on (select (data ..) (quit ..)); once the buffer is drained every
		// consumer is sent one quit token and must report. A consumer that stops
		// watching its other clauses never reports (the case hangs); globals and
		// per-routine lets only, so that no let scope is shared for writing.
		rounds := selectDrainRounds(c)
		fmt.Fprintf(&b, "(defvar *%s-data* (make-channel %d))\n(defvar *%s-quit* (make-channel %d))\n(defvar *%s-out* (make-channel %d))\n(defvar *%s-res* (make-channel %d))\n",
			u, c.N+1, u, c.N+1, u, c.N+1, u, rounds*c.N+1)
		// the rounds are written out one after the other: every (run ...) form is
		// evaluated once by one routine (re-evaluating one form object from several
		// routines is the listed Function.Eval first-evaluation finding)
		b.WriteString("(progn\n")
		for r := 1; r <= rounds; r++ {
			b.WriteString(" (let ((gate (make-channel 0)))\n")
			for i := 0; i < c.N-1; i++ {
				fmt.Fprintf(&b, "  (channel-push *%s-data* %d)\n", u, r*1000+i)
			}
			for k := 0; k < c.N; k++ {
				fmt.Fprintf(&b, "  (run (let ((got nil) (going t)) (channel-pop gate) (do () ((not going)) (select (*%s-data* x (setq got (cons x got))) (*%s-quit* q (setq going nil)))) (channel-push *%s-out* got)))\n", u, u, u)
			}
			fmt.Fprintf(&b, "  (channel-close gate)\n  (do () ((= 0 (length *%s-data*))) (c17-yield))\n  (dotimes (i %d) (channel-push *%s-quit* t))\n  (dotimes (i %d) (channel-push *%s-res* (channel-pop *%s-out*))))\n", u, c.N, u, c.N, u, u)
		}
		fmt.Fprintf(&b, " (let ((res nil)) (dotimes (i %d) (setq res (append (channel-pop *%s-res*) res))) res))", rounds*c.N, u)
	case "mutex-let":
		// the documented shape: a let variable updated under with-mutex-lock,
		// read-yield-write body so a broken lock loses updates
		fmt.Fprintf(&b, "(let* ((m (make-mutex)) (done (make-channel %d)) (n 0))\n", c.N+1)
		for k := 0; k < c.N; k++ {
			fmt.Fprintf(&b, " (run (progn (dotimes (i %d) (with-mutex-lock m (c17-enter 1) (let ((tmp n)) (c17-yield) (setq n (1+ tmp))) (c17-leave 1))) (channel-push done t)))\n", c.M)
		}
		fmt.Fprintf(&b, " (dotimes (i %d) (channel-pop done))\n (list n))", c.N)
	case "mutex-global":
		fmt.Fprintf(&b, "(defvar *%s-n* 0)\n(defvar *%s-m* (make-mutex))\n", u, u)
		fmt.Fprintf(&b, "(defun %s-bump () (with-mutex-lock *%s-m* (c17-enter 2) (let ((tmp *%s-n*)) (c17-yield) (setq *%s-n* (1+ tmp))) (c17-leave 2)))\n", u, u, u, u)
		warm = fmt.Sprintf("(%s-bump) (setq *%s-n* 0)", u, u)
		fmt.Fprintf(&b, "(let* ((done (make-channel %d)))\n", c.N+1)
		for k := 0; k < c.N; k++ {
			fmt.Fprintf(&b, " (run (progn (dotimes (i %d) (%s-bump)) (channel-push done t)))\n", c.M, u)
		}
		fmt.Fprintf(&b, " (dotimes (i %d) (channel-pop done))\n (list *%s-n*))", c.N, u)
	case "sync-instance":
		// a synchronized flavor instance: one counter slot bumped under a mutex,
		// plus one private slot per routine written without the mutex
		fmt.Fprintf(&b, "(defflavor %s-fl ((count 0)", u)
		for k := 0; k < c.N; k++ {
			fmt.Fprintf(&b, " (s%d 0)", k)
		}
		b.WriteString(") () :gettable-instance-variables :settable-instance-variables)\n")
		fmt.Fprintf(&b, "(let* ((m (make-mutex)) (done (make-channel %d)) (inst (make-instance '%s-fl)))\n (set-synchronized inst t)\n", c.N+1, u)
		for k := 0; k < c.N; k++ {
			fmt.Fprintf(&b, " (run (progn (dotimes (i %d) (send inst :set-s%d (1+ i)) (with-mutex-lock m (c17-enter 3) (let ((tmp (send inst :count))) (c17-yield) (send inst :set-count (1+ tmp))) (c17-leave 3))) (channel-push done t)))\n", c.M, k)
		}
		fmt.Fprintf(&b, " (dotimes (i %d) (channel-pop done))\n (list (send inst :count)", c.N)
		for k := 0; k < c.N; k++ {
			fmt.Fprintf(&b, " (send inst :s%d)", k)
		}
		b.WriteString("))")
	case "resync":
		// a synchronized instance (standard class or flavor by turns) whose
		// routines ask again for synchronization before every access, as a
		// defensive helper would: asking again must not disturb routines that
		// are inside an access; each routine owns one slot
		flavor := c.Salt/len(kinds)%3 == 1
		// third shape: the synchronized instance is given another class (change-class)
		// before the routines start; it stays synchronized without being asked again
		changed := c.Salt/len(kinds)%3 == 2
		if flavor {
			fmt.Fprintf(&b, "(defflavor %s-rf (", u)
			for k := 0; k < c.N; k++ {
				fmt.Fprintf(&b, " (s%d 0)", k)
			}
			b.WriteString(") () :gettable-instance-variables :settable-instance-variables)\n")
			fmt.Fprintf(&b, "(let* ((done (make-channel %d)) (inst (make-instance '%s-rf)))\n (set-synchronized inst t)\n", c.N+1, u)
		} else {
			fmt.Fprintf(&b, "(defclass %s-rc () (", u)
			for k := 0; k < c.N; k++ {
				fmt.Fprintf(&b, " (s%d :initform 0)", k)
			}
			b.WriteString("))\n")
			if changed {
				fmt.Fprintf(&b, "(defclass %s-rd () ((extra :initform 7)", u)
				for k := 0; k < c.N; k++ {
					fmt.Fprintf(&b, " (s%d :initform 0)", k)
				}
				b.WriteString("))\n")
			}
			fmt.Fprintf(&b, "(let* ((done (make-channel %d)) (inst (make-instance '%s-rc)))\n (set-synchronized inst t)\n", c.N+1, u)
			if changed {
				fmt.Fprintf(&b, " (change-class inst '%s-rd)\n", u)
			}
		}
		for k := 0; k < c.N; k++ {
			if changed {
				fmt.Fprintf(&b, " (run (progn (dotimes (i %d) (setf (slot-value inst 's%d) (1+ (slot-value inst 's%d)))) (channel-push done (synchronizedp inst))))\n", c.M, k, k)
				continue
			}
			if flavor {
				fmt.Fprintf(&b, " (run (progn (dotimes (i %d) (set-synchronized inst t) (send inst :set-s%d (1+ (send inst :s%d)))) (channel-push done (synchronizedp inst))))\n", c.M, k, k)
			} else {
				fmt.Fprintf(&b, " (run (progn (dotimes (i %d) (set-synchronized inst t) (setf (slot-value inst 's%d) (1+ (slot-value inst 's%d)))) (channel-push done (synchronizedp inst))))\n", c.M, k, k)
			}
		}
		fmt.Fprintf(&b, " (let ((still t)) (dotimes (i %d) (if (channel-pop done) nil (setq still nil)))\n (list (if still 1 0)", c.N)
		for k := 0; k < c.N; k++ {
			if flavor {
				fmt.Fprintf(&b, " (send inst :s%d)", k)
			} else {
				fmt.Fprintf(&b, " (slot-value inst 's%d)", k)
			}
		}
		b.WriteString(")))")
	case "mutex-hash":
		// a hash table of counters, every access under the mutex
		fmt.Fprintf(&b, "(let* ((m (make-mutex)) (done (make-channel %d)) (h (make-hash-table)))\n", c.N+1)
		b.WriteString(" (dotimes (k 4) (setf (gethash k h) 0))\n")
		for k := 0; k < c.N; k++ {
			fmt.Fprintf(&b, " (run (progn (dotimes (i %d) (with-mutex-lock m (c17-enter 4) (let ((tmp (gethash (mod i 4) h))) (c17-yield) (setf (gethash (mod i 4) h) (1+ tmp))) (c17-leave 4))) (channel-push done t)))\n", c.M)
		}
		fmt.Fprintf(&b, " (dotimes (i %d) (channel-pop done))\n (list (gethash 0 h) (gethash 1 h) (gethash 2 h) (gethash 3 h)))", c.N)
	case "defvar-defun":
		// every routine defines and sets its own globals and functions and calls them
		fmt.Fprintf(&b, "(let* ((done (make-channel %d)) (out (make-channel %d)))\n", c.N+1, c.N+1)
		for k := 0; k < c.N; k++ {
			fmt.Fprintf(&b, " (run (progn (defvar *%s-v%d* 0) (defun %s-f%d (x) (+ x %d)) (dotimes (i %d) (setq *%s-v%d* (%s-f%d i))) (channel-push out (list %d *%s-v%d*)) (channel-push done t)))\n",
				u, k, u, k, k, c.M, u, k, u, k, k, u, k)
		}
		fmt.Fprintf(&b, " (dotimes (i %d) (channel-pop done))\n (let ((res nil)) (dotimes (i %d) (setq res (cons (channel-pop out) res))) res))", c.N, c.N)
	case "late-global":
		// rounds: N routines at once define a function (defun, a lambda kept in a global, or a
		// method) whose body is the bare symbol of a global that does not exist yet; after they
		// are joined the global is defined and every one of the functions must see its value
		classes := []string{"fixnum", "string", "symbol", "double-float", "cons", "character", "vector", "hash-table"}
		samples := []string{"1", "\"s\"", "'a", "1.5", "'(1)", "#\\a", "(vector 1)", "(make-hash-table)"}
		fmt.Fprintf(&b, "(let* ((done (make-channel %d)) (res nil))\n", c.N+1)
		for r := 0; r < c.M; r++ {
			if c.Shape == "defmethod" {
				fmt.Fprintf(&b, " (defgeneric %s-gm%d (x))\n", u, r)
			}
			for k := 0; k < c.N; k++ {
				switch c.Shape {
				case "lambda":
					fmt.Fprintf(&b, " (run (progn (defvar *%s-l%d-%d* (lambda () *%s-g%d*)) (channel-push done t)))\n", u, k, r, u, r)
				case "defmethod":
					fmt.Fprintf(&b, " (run (progn (defmethod %s-gm%d ((x %s)) *%s-g%d*) (channel-push done t)))\n", u, r, classes[k%8], u, r)
				default:
					fmt.Fprintf(&b, " (run (progn (defun %s-f%d-%d () *%s-g%d*) (channel-push done t)))\n", u, k, r, u, r)
				}
			}
			fmt.Fprintf(&b, " (dotimes (i %d) (channel-pop done))\n (defvar *%s-g%d* %d)\n (setq res (cons (list", c.N, u, r, 100+r)
			for k := 0; k < c.N; k++ {
				switch c.Shape {
				case "lambda":
					fmt.Fprintf(&b, " (ignore-errors (funcall *%s-l%d-%d*))", u, k, r)
				case "defmethod":
					fmt.Fprintf(&b, " (ignore-errors (%s-gm%d %s))", u, r, samples[k%8])
				default:
					fmt.Fprintf(&b, " (ignore-errors (%s-f%d-%d))", u, k, r)
				}
			}
			b.WriteString(") res))\n")
		}
		b.WriteString(" (reverse res))")
	case "printing":
		// formatted and pretty output from all routines; each result is compared
		// with the same rendering done sequentially by the harness
		fmt.Fprintf(&b, "(let* ((done (make-channel %d)) (out (make-channel %d)) (data '((alpha beta (gamma delta) \"str\") #(1 2 3) (1 . 2) ((((deep)))) 12345678901234567890 1.5)))\n", c.N+1, c.N*c.M+1)
		for k := 0; k < c.N; k++ {
			fmt.Fprintf(&b, " (run (progn (dotimes (i %d) (channel-push out (list %d i (write-to-string data :pretty t :right-margin (+ 10 (mod (+ i %d) 40))) (format nil \"~a|~s|~d\" data data i)))) (channel-push done t)))\n", c.M, k, k*7)
		}
		fmt.Fprintf(&b, " (dotimes (i %d) (channel-pop done))\n (let ((res nil)) (dotimes (i %d) (setq res (cons (channel-pop out) res))) res))", c.N, c.N*c.M)
	case "exit-lock":
		// leave the locked region by an error (caught outside) and by return-from;
		// the mutex must be free again and the counter exact
		fmt.Fprintf(&b, "(let* ((m (make-mutex)) (done (make-channel %d)) (n 0))\n", c.N+1)
		for k := 0; k < c.N; k++ {
			fmt.Fprintf(&b, " (run (progn (dotimes (i %d) (ignore-errors (with-mutex-lock m (c17-enter 5) (setq n (1+ n)) (c17-leave 5) (when (= 0 (mod i 3)) (error \"leave by error\")))) (block b%d (with-mutex-lock m (c17-enter 5) (setq n (1+ n)) (c17-leave 5) (return-from b%d nil)))) (channel-push done t)))\n", c.M, k, k)
		}
		fmt.Fprintf(&b, " (dotimes (i %d) (channel-pop done))\n (with-mutex-lock m (list n)))", c.N)
	case "exit-lock-global":
		// same exits, counter in a package global (no shared let variable is written)
		fmt.Fprintf(&b, "(defvar *%s-n* 0)\n(defvar *%s-m* (make-mutex))\n", u, u)
		fmt.Fprintf(&b, "(let* ((done (make-channel %d)))\n", c.N+1)
		for k := 0; k < c.N; k++ {
			fmt.Fprintf(&b, " (run (progn (dotimes (i %d) (ignore-errors (with-mutex-lock *%s-m* (c17-enter 6) (setq *%s-n* (1+ *%s-n*)) (c17-leave 6) (when (= 0 (mod i 3)) (error \"leave by error\")))) (block b%d (with-mutex-lock *%s-m* (c17-enter 6) (setq *%s-n* (1+ *%s-n*)) (c17-leave 6) (return-from b%d nil)))) (channel-push done t)))\n", c.M, u, u, u, k, u, u, u, k)
		}
		fmt.Fprintf(&b, " (dotimes (i %d) (channel-pop done))\n (with-mutex-lock *%s-m* (list *%s-n*)))", c.N, u, u)
	case "generic":
		// calls of a generic function while methods are being added
		fmt.Fprintf(&b, "(defgeneric %s-g (x))\n(defmethod %s-g ((x t)) 0)\n(defmethod %s-g ((x fixnum)) 1)\n", u, u, u)
		warm = fmt.Sprintf("(%s-g 1) (%s-g \"s\")", u, u)
		fmt.Fprintf(&b, "(let* ((done (make-channel %d)) (out (make-channel %d)))\n", c.N+1, c.N+1)
		for k := 0; k < c.N; k++ {
			if k == 0 {
				fmt.Fprintf(&b, " (run (progn (defmethod %s-g ((x string)) 2) (defmethod %s-g ((x symbol)) 3) (channel-push out (list 0 0)) (channel-push done t)))\n", u, u)
				continue
			}
			fmt.Fprintf(&b, " (run (let ((bad 0)) (dotimes (i %d) (unless (= 1 (%s-g i)) (setq bad (1+ bad))) (unless (member (%s-g \"s\") '(0 2)) (setq bad (1+ bad)))) (channel-push out (list %d bad)) (channel-push done t)))\n", c.M, u, u, k)
		}
		fmt.Fprintf(&b, " (dotimes (i %d) (channel-pop done))\n (let ((res nil)) (dotimes (i %d) (setq res (cons (channel-pop out) res))) (list res (%s-g \"s\") (%s-g 'a) (%s-g 1))))", c.N, c.N, u, u, u)
	}
	return b.String(), warm
}

func ints(obj slip.Object) ([]int64, bool) {
	l, ok := obj.(slip.List)
	if !ok {
		return nil, obj == nil
	}
	out := make([]int64, len(l))
	for i, e := range l {
		f, ok := e.(slip.Fixnum)
		if !ok {
			return nil, false
		}
		out[i] = int64(f)
	}
	return out, true
}

func exec(x *fw.Ctx, c Case) {
	runtime.GOMAXPROCS(c.Procs)
	defer runtime.GOMAXPROCS(16)
	perturbMu.Lock()
	perturbRnd = rand.New(rand.NewPCG(uint64(x.Seed), uint64(c.Salt)+77))
	perturbMu.Unlock()
	perturbOn.Store(map[string]int32{"off": 0, "yield": 1, "sleep": 2, "prio": 3}[c.Perturb])
	prioSalt.Store(uint64(x.Seed)*1000003 + uint64(c.Salt))
	prioCalls.Store(0)
	defer perturbOn.Store(0)
	atomic.StoreInt64(&overlaps, 0)
	atomic.StoreInt64(&enterCount, 0)
	for i := range inside {
		atomic.StoreInt32(&inside[i], 0)
	}
	histMu.Lock()
	hist, histClk = hist[:0], 0
	histMu.Unlock()
	src, warm := program(c)
	scope := slip.NewScope()
	sig := func(f string) string { return fmt.Sprintf("kind=%s fail=%s", c.Kind, f) }
	cfg := fmt.Sprintf("n=%d m=%d cap=%d procs=%d perturb=%s warm=%v", c.N, c.M, c.Cap, c.Procs, c.Perturb, c.Warm)
	var res slip.Object
	var err *sl.Err
	if c.Warm && warm != "" {
		// definitions first, then one sequential call so that first-evaluation
		// rewriting of compiled forms is out of the way
		parts := strings.SplitN(src, "(let* ", 2)
		if strings.Contains(src, mainMarker) {
			parts = strings.SplitN(src, mainMarker, 2)
		} else {
			parts[1] = "(let* " + parts[1]
		}
		if _, err = sl.Eval(scope, parts[0]+"\n"+warm); err == nil {
			res, err = sl.Eval(scope, parts[1])
		}
	} else {
		res, err = sl.Eval(scope, src)
	}
	x.Cover("kind:" + c.Kind)
	x.Cover(fmt.Sprintf("procs:%d", c.Procs))
	x.Cover("perturb:" + c.Perturb)
	if c.Shape != "" {
		x.Cover(fmt.Sprintf("kind:%s shape=%s warm=%v", c.Kind, c.Shape, c.Warm))
	}
	x.CoverN("region-entries", int(atomic.LoadInt64(&enterCount)))
	x.CoverN("verif-points-hit", int(atomic.SwapInt64(&pointsHit, 0)))
	obs := map[string]any{"config": cfg}
	x.Observe(obs)
	if err != nil {
		x.Fail(sig("error"), "%s: program signalled %s\n%s", cfg, err, src)
		return
	}
	if n := atomic.LoadInt64(&overlaps); 0 < n {
		x.Fail(sig("mutual-exclusion"), "%s: %d entries into a with-mutex-lock region while another routine was inside", cfg, n)
	}
	shown := sl.Show(res)
	if len(shown) < 300 {
		obs["result"] = shown
	}
	switch c.Kind {
	case "shared-code":
		sharedCodeJudge(x, c, cfg, res)
	case "shared-pipe":
		sharedPipeJudge(x, c, cfg, res)
	case "req-reply":
		reqReplyJudge(x, c, cfg, res)
	case "tables":
		tablesJudge(x, c, cfg, res)
	case "prodcons", "range-close", "select":
		np := c.N - c.N/2
		if c.Kind == "select" {
			np = 2 + c.N%3
		}
		l, _ := res.(slip.List)
		seen := map[int64]int{}
		lastPerConsProd := map[[2]int64]int64{}
		fifoBad := ""
		for _, e := range l {
			pair, ok := ints(e)
			if !ok || len(pair) != 2 {
				x.Fail(sig("shape"), "%s: unexpected element %s", cfg, sl.Show(e))
				return
			}
			cons, item := pair[0], pair[1]
			seen[item]++
			p := item / 100000
			k := [2]int64{cons, p}
			// items of one producer received by one consumer must be in push order
			if last, has := lastPerConsProd[k]; has && item <= last && fifoBad == "" {
				fifoBad = fmt.Sprintf("consumer %d received %d after %d", cons, item, last)
			}
			lastPerConsProd[k] = item
		}
		x.CoverN("items-received", len(l))
		for p := 1; p <= np; p++ {
			for i := 0; i < c.M; i++ {
				it := int64(p*100000 + i)
				switch seen[it] {
				case 1:
				case 0:
					x.Fail(sig("item-lost"), "%s: item %d was pushed and never received", cfg, it)
					return
				default:
					x.Fail(sig("item-duplicated"), "%s: item %d received %d times", cfg, it, seen[it])
					return
				}
			}
		}
		if len(seen) != np*c.M {
			x.Fail(sig("item-invented"), "%s: %d distinct items received, %d pushed", cfg, len(seen), np*c.M)
		}
		if fifoBad != "" {
			x.Fail(sig("fifo"), "%s: %s", cfg, fifoBad)
		}
	case "hash-register":
		histMu.Lock()
		ops := make([]porcupine.Operation, 0, len(hist))
		open := 0
		for _, ev := range hist {
			if !ev.returned {
				open++
				continue
			}
			ops = append(ops, porcupine.Operation{ClientId: ev.client, Input: ev.in, Call: ev.call, Output: ev.out, Return: ev.ret})
		}
		histMu.Unlock()
		x.CoverN("history-operations", len(ops))
		if 0 < open {
			x.Fail(sig("operation-never-returned"), "%s: %d recorded operations have no return event", cfg, open)
			return
		}
		switch r, _ := porcupine.CheckOperationsVerbose(regModel, ops, 20*time.Second); r {
		case porcupine.Ok:
			x.Cover("porcupine:linearizable")
		case porcupine.Illegal:
			x.Fail(sig("not-linearizable"), "%s: the recorded history of %d put/get operations on the mutex-guarded hash table is not linearizable as per-key registers", cfg, len(ops))
		default:
			x.Cover("porcupine:unknown(timeout)") // inconclusive, never a violation
		}
		// final values must be values that were written
		if v, ok := ints(res); !ok || len(v) != 3 {
			x.Fail(sig("shape"), "%s: %s", cfg, shown)
		}
	case "mutex-let", "mutex-global":
		v, ok := ints(res)
		if !ok || len(v) != 1 || v[0] != int64(c.N*c.M) {
			x.Fail(sig("lost-update"), "%s: counter is %s after %d increments under the mutex", cfg, shown, c.N*c.M)
		}
		x.CoverN("increments", c.N*c.M)
	case "mutex-hash":
		v, ok := ints(res)
		var sum int64
		for _, e := range v {
			sum += e
		}
		if !ok || len(v) != 4 || sum != int64(c.N*c.M) {
			x.Fail(sig("lost-update"), "%s: hash counters %s do not sum to %d", cfg, shown, c.N*c.M)
		}
		x.CoverN("increments", c.N*c.M)
	case "sync-instance":
		v, ok := ints(res)
		if !ok || len(v) != 1+c.N {
			x.Fail(sig("shape"), "%s: %s", cfg, shown)
			return
		}
		if v[0] != int64(c.N*c.M) {
			x.Fail(sig("lost-update"), "%s: synchronized instance counter is %d after %d increments under the mutex", cfg, v[0], c.N*c.M)
		}
		for k := 0; k < c.N; k++ {
			if v[1+k] != int64(c.M) {
				x.Fail(sig("lost-slot-write"), "%s: slot s%d is %d, its only writer last stored %d", cfg, k, v[1+k], c.M)
			}
		}
		x.CoverN("increments", c.N*c.M)
	case "select-drain":
		v, ok := ints(res)
		if !ok {
			x.Fail(sig("shape"), "%s: %s", cfg, shown)
			return
		}
		seen := map[int64]int{}
		for _, it := range v {
			seen[it]++
		}
		for r := 1; r <= selectDrainRounds(c); r++ {
			for i := 0; i < c.N-1; i++ {
				it := int64(r*1000 + i)
				switch seen[it] {
				case 1:
				case 0:
					x.Fail(sig("item-lost"), "%s: item %d was pushed and never received", cfg, it)
					return
				default:
					x.Fail(sig("item-duplicated"), "%s: item %d received %d times", cfg, it, seen[it])
					return
				}
			}
		}
		if len(v) != selectDrainRounds(c)*(c.N-1) {
			x.Fail(sig("item-invented"), "%s: %d items received, %d pushed", cfg, len(v), selectDrainRounds(c)*(c.N-1))
		}
		x.CoverN("items-received", len(v))
		x.CoverN("contended-drains", selectDrainRounds(c))
	case "resync":
		v, ok := ints(res)
		if !ok || len(v) != 1+c.N {
			x.Fail(sig("shape"), "%s: %s", cfg, shown)
			return
		}
		if v[0] != 1 {
			x.Fail(sig("not-synchronized"), "%s: synchronizedp gave nil for an instance that was made synchronized (asked again by every routine, or given another class with change-class before the routines started)", cfg)
		}
		for k := 0; k < c.N; k++ {
			if v[1+k] != int64(c.M) {
				x.Fail(sig("lost-slot-write"), "%s: slot s%d is %d after its only writer incremented it %d times", cfg, k, v[1+k], c.M)
			}
		}
		x.CoverN("increments", c.N*c.M)
	case "late-global":
		l, _ := res.(slip.List)
		if len(l) != c.M {
			x.Fail(sig("shape"), "%s: %d rounds in the result, expected %d (%s)", cfg, len(l), c.M, shown)
			return
		}
		for r, e := range l {
			want := fmt.Sprint(100 + r)
			el, _ := e.(slip.List)
			for k, v := range el {
				if sl.Show(v) != want {
					x.Fail(sig("function-does-not-see-the-global shape="+c.Shape), "%s: round %d: the function routine %d defined before (defvar g %s) returns %s after it; the other functions of the round: %s", cfg, r, k, want, sl.Show(v), sl.Show(e))
					return
				}
			}
			if len(el) != c.N {
				x.Fail(sig("shape"), "%s: round %d has %d results, expected %d", cfg, r, len(el), c.N)
				return
			}
		}
		x.CoverN("late-global:functions-defined-concurrently", c.N*c.M)
	case "defvar-defun":
		l, _ := res.(slip.List)
		got := map[int64]int64{}
		for _, e := range l {
			p, ok := ints(e)
			if ok && len(p) == 2 {
				got[p[0]] = p[1]
			}
		}
		for k := 0; k < c.N; k++ {
			if got[int64(k)] != int64(c.M-1+k) {
				x.Fail(sig("wrong-global"), "%s: routine %d ended with its global = %d, expected %d (%s)", cfg, k, got[int64(k)], c.M-1+k, shown)
				break
			}
		}
	case "printing":
		l, _ := res.(slip.List)
		if len(l) != c.N*c.M {
			x.Fail(sig("shape"), "%s: %d results, expected %d", cfg, len(l), c.N*c.M)
			return
		}
		// sequential reference renderings by the same interpreter, after the
		// concurrent part finished
		ref := map[string]string{}
		var keys []string
		for _, e := range l {
			el, _ := e.(slip.List)
			if len(el) != 4 {
				x.Fail(sig("shape"), "%s: element %s", cfg, sl.Show(e))
				return
			}
			k, _ := el[0].(slip.Fixnum)
			i, _ := el[1].(slip.Fixnum)
			margin := 10 + (int(i)+int(k)*7)%40
			key := fmt.Sprintf("%d/%d", margin, i)
			if _, has := ref[key]; !has {
				r, e2 := sl.Eval(slip.NewScope(), fmt.Sprintf("(let ((data '((alpha beta (gamma delta) \"str\") #(1 2 3) (1 . 2) ((((deep)))) 12345678901234567890 1.5))) (list (write-to-string data :pretty t :right-margin %d) (format nil \"~a|~s|~d\" data data %d)))", margin, i))
				if e2 != nil {
					x.Fail(sig("error"), "%s: reference rendering failed: %s", cfg, e2)
					return
				}
				ref[key] = sl.Show(r)
				keys = append(keys, key)
			}
			if got := sl.Show(slip.List{el[2], el[3]}); got != ref[key] {
				x.Fail(sig("corrupted-output"), "%s: concurrent rendering differs from the sequential one\nconcurrent: %s\nsequential: %s", cfg, got, ref[key])
				return
			}
		}
		sort.Strings(keys)
		x.CoverN("renderings-compared", len(l))
	case "exit-lock", "exit-lock-global":
		v, ok := ints(res)
		if !ok || len(v) != 1 || v[0] != int64(2*c.N*c.M) {
			x.Fail(sig("lost-update"), "%s: counter is %s after %d increments in regions left by error/return-from", cfg, shown, 2*c.N*c.M)
		}
		for i := range inside {
			if atomic.LoadInt32(&inside[i]) != 0 {
				x.Fail(sig("region-not-left"), "%s: region %d still occupied at the end", cfg, i)
			}
		}
	case "generic":
		l, _ := res.(slip.List)
		if len(l) != 4 {
			x.Fail(sig("shape"), "%s: %s", cfg, shown)
			return
		}
		for _, e := range l[0].(slip.List) {
			p, ok := ints(e)
			if !ok || len(p) != 2 || p[1] != 0 {
				x.Fail(sig("wrong-dispatch"), "%s: a routine saw %s calls with a result no method set explains (%s)", cfg, sl.Show(e), shown)
				break
			}
		}
		if sl.Show(l[1]) != "2" || sl.Show(l[2]) != "3" || sl.Show(l[3]) != "1" {
			x.Fail(sig("stale-dispatch"), "%s: after all defmethods finished, (g \"s\") (g 'a) (g 1) = %s %s %s, expected 2 3 1", cfg, sl.Show(l[1]), sl.Show(l[2]), sl.Show(l[3]))
		}
	}
}

// caseTag goes in front of race, crash and hang signatures. Kinds of the
// second block say cold or warm: first-evaluation rewriting of shared code is
// a listed finding of cold cases only.
func caseTag(c Case) string {
	if c.Shape == "" || c.Shape == "own" {
		return "kind=" + c.Kind
	}
	if c.Warm {
		return "kind=" + c.Kind + "/warm"
	}
	return "kind=" + c.Kind + "/cold"
}

func init() {
	fw.Register(fw.Spec[Case]{
		ID: "C17",
		Rule: "a case = workload kind (15 kinds, one of them a hash table used as per-key registers whose recorded call/return history is checked for linearizability with porcupine: producers/consumers over channels, mutex-guarded let/global/hash counters with a read-yield-write body, synchronized instance, synchronized instance (class or flavor) whose routines re-apply set-synchronized before every access, rounds of N consumers released together onto N-1 buffered items each looping on select over data and quit (a stranded consumer hangs the case), " +
			"concurrent defvar/defun, concurrent printing, exits out of locked regions, generic calls during defmethod) x N<=8 routines x M<=200 ops x channel capacity x GOMAXPROCS {1,2,4,16} x " +
			"schedule perturbation {off, random yield, random 10-200us sleep at VerifPoints and monitor calls} x cold/warm, run in a race-detector build; " +
			"every case is non-trivial (>= 2 routines); distinct = distinct case JSON",
		N:                nCases,
		Gen:              gen,
		Exec:             exec,
		Init:             initWorker,
		Race:             true,
		Batch:            1,
		Tag:              caseTag,
		HangSecs:         90,
		CrashIsViolation: true,
		Parallel:         8,
		Assumptions: []string{"the Go race detector only reports races that occur in the executions produced",
			"programs share data only through channels, with-mutex-lock regions, synchronized instances and package globals (the supported shape)",
			"helgrind/valgrind are not used (useless on Go)"},
	})
}
