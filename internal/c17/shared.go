package c17

// Workloads in which EVERY routine of a case runs the same function objects
// (one set of defun'd functions, shared lambdas held in globals) with
// routine-specific values. Whatever the interpreter keeps per FORM of the
// compiled code tree is shared by all of them, so a per-form cache that holds
// a value in flight (a return value, a scope, a values list, a buffer) lets
// one routine see another routine's value. Two monitors look at it: the race
// detector (robust, needs no overlap in time) and a value monitor that
// compares what each routine computed with what its inputs predict.

import (
	"fmt"
	"strings"
	"sync/atomic"

	"github.com/ohler55/slip"

	"verif/internal/fw"
	"verif/internal/sl"
)

// mainMarker separates definitions from the concurrent part of a program; a
// warm run evaluates the definitions and the warm-up forms first.
const mainMarker = "\n;;main\n"

// sharedFn is one shared function: its definition (%[1]s = the case's unique
// prefix), the call made with the routine's value x, and the value a
// sequential evaluation gives for x (written from the definition, not by
// running slip).
type sharedFn struct {
	name    string // short name: also the fn= part of the signature
	through string // the control forms the value travels through
	def     string
	call    string
	want    func(x int64) any // int64 or string
	locks   int               // increments of the shared counter per call
}

var sharedFnsBase = []sharedFn{
	{"rf", "return-from with a value out of dolist",
		"(defun %[1]s-rf (x) (dolist (el (list 1 2 x 3)) (when (= el x) (return-from %[1]s-rf (+ el 1)))) -1)",
		"(%[1]s-rf x)", func(x int64) any { return x + 1 }, 0},
	{"rt", "return with a value out of dotimes",
		"(defun %[1]s-rt (x) (dotimes (i 9) (when (= i 2) (return (+ x i)))))",
		"(%[1]s-rt x)", func(x int64) any { return x + 2 }, 0},
	{"do", "return with a value out of do",
		"(defun %[1]s-do (x) (do ((i 0 (1+ i)) (acc x (1+ acc))) ((= i 50) -1) (when (= i 3) (return acc))))",
		"(%[1]s-do x)", func(x int64) any { return x + 3 }, 0},
	{"nb", "nested blocks left from the inner and from the outer one",
		"(defun %[1]s-nb (x) (block outer (+ 1000 (block inner (when (oddp x) (return-from outer (+ x 4))) (return-from inner (+ x 4))))))",
		"(%[1]s-nb x)", func(x int64) any {
			if x%2 != 0 {
				return x + 4
			}
			return x + 1004
		}, 0},
	{"mv", "values through return-from into multiple-value-bind",
		"(defun %[1]s-mv (x) (multiple-value-bind (a b c) (block b (return-from b (values x 2 3))) (+ a b c)))",
		"(%[1]s-mv x)", func(x int64) any { return x + 5 }, 0},
	{"tb", "tagbody/go loop whose count depends on x, let and setq of locals",
		"(defun %[1]s-tb (x) (let ((i 0) (acc x) (n (+ 3 (mod x 4)))) (tagbody top (when (< i n) (setq acc (+ acc 2)) (setq i (1+ i)) (go top))) (- acc (* 2 n) -6)))",
		"(%[1]s-tb x)", func(x int64) any { return x + 6 }, 0},
	{"up", "unwind-protect cleanups on return-from and on error",
		"(defun %[1]s-up (x) (let ((c 0)) (block b (unwind-protect (return-from b (- x)) (setq c (+ c x)))) (ignore-errors (unwind-protect (error \"e\") (setq c (+ c 7)))) c))",
		"(%[1]s-up x)", func(x int64) any { return x + 7 }, 0},
	{"ie", "ignore-errors around a signalled error",
		"(defun %[1]s-ie (x) (multiple-value-bind (v er) (ignore-errors (error \"boom ~d\" x)) (if (and (null v) er) (+ x 8) -1)))",
		"(%[1]s-ie x)", func(x int64) any { return x + 8 }, 0},
	{"cc", "case, cond and when",
		"(defun %[1]s-cc (x) (case (mod x 3) (0 (+ x 9)) (1 (cond ((< x 0) -1) ((= 1 (mod x 3)) (+ x 9)) (t -2))) (t (when (= 2 (mod x 3)) (+ x 9)))))",
		"(%[1]s-cc x)", func(x int64) any { return x + 9 }, 0},
	{"fa", "funcall and apply of a shared closure",
		"(defun %[1]s-fa (x) (funcall *%[1]s-add* x (apply *%[1]s-add* (list 4 6))))",
		"(%[1]s-fa x)", func(x int64) any { return x + 10 }, 0},
	{"mc", "mapcar with a shared lambda",
		"(defun %[1]s-mc (x) (let ((l (mapcar *%[1]s-inc* (list x (+ x 1) (+ x 2))))) (- (apply '+ l) (* 2 x) -5)))",
		"(%[1]s-mc x)", func(x int64) any { return x + 11 }, 0},
	{"rec", "recursion 12 deep",
		"(defun %[1]s-rec (x n) (if (= n 0) x (1+ (%[1]s-rec x (1- n)))))",
		"(%[1]s-rec x 12)", func(x int64) any { return x + 12 }, 0},
	{"fmt", "format to a string stream made in the call and to a string",
		"(defun %[1]s-fmt (x) (let ((s (make-string-output-stream))) (format s \"~d:~a\" x (list x)) (format s \"|~5,'0d~a\" (mod x 1000) (format nil \"<~d>\" x)) (get-output-stream-string s)))",
		"(%[1]s-fmt x)", func(x int64) any { return fmt.Sprintf("%d:(%d)|%05d<%d>", x, x, x%1000, x) }, 0},
	{"ls", "let, let* with shadowing, setq of locals",
		"(defun %[1]s-ls (x) (let* ((a x) (b (+ a 1)) (c 0)) (let ((a (+ b 1))) (setq c (+ a b))) (setq a (- c a b)) (+ x a 12)))",
		"(%[1]s-ls x)", func(x int64) any { return x + 14 }, 0},
	{"lp", "return with a value out of loop",
		"(defun %[1]s-lp (x) (let ((i 0)) (loop (setq i (1+ i)) (when (= i 5) (return (+ x 15))))))",
		"(%[1]s-lp x)", func(x int64) any { return x + 15 }, 0},
	{"ch", "push and pop on a channel made in the call",
		"(defun %[1]s-ch (x) (let ((ch (make-channel 1))) (channel-push ch (+ x 16)) (channel-pop ch)))",
		"(%[1]s-ch x)", func(x int64) any { return x + 16 }, 0},
	{"bump", "with-mutex-lock region left by return-from with a value",
		"(defun %[1]s-bump (x) (with-mutex-lock *%[1]s-m* (c17-enter 7) (let ((tmp *%[1]s-n*)) (c17-yield) (setq *%[1]s-n* (1+ tmp))) (c17-leave 7) (return-from %[1]s-bump (+ x 17))))",
		"(%[1]s-bump x)", func(x int64) any { return x + 17 }, 1},
	{"wos", "with-output-to-string, princ and prin1",
		"(defun %[1]s-wos (x) (with-output-to-string (s) (princ x s) (princ \"/\" s) (prin1 (list x \"a\") s)))",
		"(%[1]s-wos x)", func(x int64) any { return fmt.Sprintf("%d/(%d \"a\")", x, x) }, 0},
	// the locked region left in every way the language offers; the counter and
	// the occupancy monitor tell whether the mutex was held and was released
	{"lk-rt", "with-mutex-lock region left by return out of dotimes",
		"(defun %[1]s-lk-rt (x) (dotimes (i 3) (with-mutex-lock *%[1]s-m* (c17-enter 7) (setq *%[1]s-n* (1+ *%[1]s-n*)) (c17-leave 7) (return (+ x 19)))))",
		"(%[1]s-lk-rt x)", func(x int64) any { return x + 19 }, 1},
	{"lk-go", "with-mutex-lock region left by go",
		"(defun %[1]s-lk-go (x) (let ((r 0)) (tagbody (with-mutex-lock *%[1]s-m* (c17-enter 7) (setq *%[1]s-n* (1+ *%[1]s-n*)) (c17-leave 7) (setq r (+ x 20)) (go out)) (setq r -1) out) r))",
		"(%[1]s-lk-go x)", func(x int64) any { return x + 20 }, 1},
	{"lk-nest", "two nested with-mutex-lock regions left by one return-from",
		"(defun %[1]s-lk-nest (x) (block b (with-mutex-lock *%[1]s-m* (c17-enter 7) (with-mutex-lock *%[1]s-m2* (c17-enter 9) (setq *%[1]s-n* (1+ *%[1]s-n*)) (c17-leave 9) (c17-leave 7) (return-from b (+ x 21)))) -1))",
		"(%[1]s-lk-nest x)", func(x int64) any { return x + 21 }, 1},
	{"lk-err", "with-mutex-lock region left by an error through an unwind-protect cleanup",
		"(defun %[1]s-lk-err (x) (let ((c 0)) (ignore-errors (with-mutex-lock *%[1]s-m* (c17-enter 7) (unwind-protect (progn (setq *%[1]s-n* (1+ *%[1]s-n*)) (c17-leave 7) (error \"inside ~d\" x)) (setq c (+ x 22))))) c))",
		"(%[1]s-lk-err x)", func(x int64) any { return x + 22 }, 1},
	{"lk-arg", "the same mutex reached through a parameter",
		"(defun %[1]s-lk-arg (mm x) (with-mutex-lock mm (c17-enter 7) (let ((tmp *%[1]s-n*)) (c17-yield) (setq *%[1]s-n* (1+ tmp))) (c17-leave 7) (+ x 23)))",
		"(%[1]s-lk-arg *%[1]s-m* x)", func(x int64) any { return x + 23 }, 1},
}

// selFn is used only when select evaluates the channel of a clause at every
// call (see selectProbe): while the listed finding select-wrong-channel is
// open, every call after the first would wait on the first call's channel.
var selFn = sharedFn{"sel", "select on a channel made in the call",
	"(defun %[1]s-sel (x) (let ((ch (make-channel 1))) (channel-push ch (+ x 18)) (select (ch v v))))",
	"(%[1]s-sel x)", func(x int64) any { return x + 18 }, 0}

// selectProbeSrc calls one select form twice with different channels; both
// channels hold enough items, so nothing blocks whichever channel is used.
const selectProbeSrc = "(defun %[1]s-sel2 (ch) (select (ch v v)))\n"

const selectProbeCall = "(let ((a (make-channel 2)) (b (make-channel 2))) (channel-push a 1) (channel-push a 11) (channel-push b 2) (list (%[1]s-sel2 a) (%[1]s-sel2 b)))"

var selectOK = -1 // -1 unknown, 0 select keeps the first call's channel, 1 fine

// selectPerCall tells whether a select form called again with another
// channel uses that channel (sequential probe, once per process).
func selectPerCall() bool {
	if selectOK < 0 {
		selectOK = 0
		r, err := sl.Eval(slip.NewScope(), fmt.Sprintf(selectProbeSrc+selectProbeCall, "c17probe"))
		if err == nil && sl.Show(r) == "(1 2)" {
			selectOK = 1
		}
	}
	return selectOK == 1
}

func sharedFnSet() []sharedFn {
	if selectPerCall() {
		return append(append([]sharedFn{}, sharedFnsBase...), selFn)
	}
	return sharedFnsBase
}

// sharedX is the value routine k works on in its i-th step.
func sharedX(k, i int) int64 { return int64((k+1)*100000 + i) }

func sharedCodeProgram(c Case, u string) (src, warm string) {
	var b strings.Builder
	fmt.Fprintf(&b, "(defvar *%[1]s-out* (make-channel %[2]d))\n(defvar *%[1]s-gate* (make-channel 0))\n(defvar *%[1]s-m* (make-mutex))\n(defvar *%[1]s-m2* (make-mutex))\n(defvar *%[1]s-dead* (make-channel 2))\n(defvar *%[1]s-n* 0)\n", u, c.N+1)
	fmt.Fprintf(&b, "(defvar *%[1]s-add* (lambda (a b) (+ a b)))\n(defvar *%[1]s-inc* (lambda (a) (1+ a)))\n", u)
	var calls []string
	for _, f := range sharedFnSet() {
		fmt.Fprintf(&b, f.def+"\n", u)
		calls = append(calls, fmt.Sprintf(f.call, u))
	}
	fmt.Fprintf(&b, "(defun %s-all (x) (list %s))\n", u, strings.Join(calls, " "))
	body := fmt.Sprintf("(k m) (let ((acc nil)) (dotimes (i m) (setq acc (cons (%[1]s-all (+ (* (1+ k) 100000) i)) acc))) (channel-push *%[1]s-out* (cons k (reverse acc))))", u)
	if c.Shape == "lambda" {
		// the worker itself is one lambda object held in a global
		fmt.Fprintf(&b, "(defvar *%s-work* (lambda %s))\n", u, body)
	} else {
		fmt.Fprintf(&b, "(defun %s-work %s)\n", u, body)
	}
	fmt.Fprintf(&b, "(defun %[1]s-collect (n) (let ((res nil)) (dotimes (i n) (setq res (cons (channel-pop *%[1]s-out*) res))) res))\n", u)
	// warm-up: every function once with each residue its branches look at
	if c.Shape == "lambda" {
		warm = fmt.Sprintf("(funcall *%[1]s-work* 90 6) (channel-pop *%[1]s-out*) (setq *%[1]s-n* 0)", u)
	} else {
		warm = fmt.Sprintf("(%[1]s-work 90 6) (channel-pop *%[1]s-out*) (setq *%[1]s-n* 0)", u)
	}
	b.WriteString(mainMarker)
	b.WriteString("(progn\n")
	for k := 0; k < c.N; k++ {
		if c.Shape == "lambda" {
			fmt.Fprintf(&b, " (run (progn (channel-pop *%[1]s-gate*) (funcall *%[1]s-work* %[2]d %[3]d)))\n", u, k, c.M)
		} else {
			fmt.Fprintf(&b, " (run (progn (channel-pop *%[1]s-gate*) (%[1]s-work %[2]d %[3]d)))\n", u, k, c.M)
		}
	}
	// one more routine ends with an unhandled error inside the locked region:
	// the thread ends with a warning and the mutex must be free again
	fmt.Fprintf(&b, " (run (progn (channel-pop *%[1]s-gate*) (with-mutex-lock *%[1]s-m* (c17-enter 7) (setq *%[1]s-n* (1+ *%[1]s-n*)) (c17-leave 7) (channel-push *%[1]s-dead* t) (error \"routine ends inside the locked region\"))))\n", u)
	fmt.Fprintf(&b, " (channel-close *%[1]s-gate*)\n (list (%[1]s-collect %[2]d) (progn (channel-pop *%[1]s-dead*) (with-mutex-lock *%[1]s-m* (with-mutex-lock *%[1]s-m2* *%[1]s-n*)))))", u, c.N)
	return b.String(), warm
}

func sharedCodeJudge(x *fw.Ctx, c Case, cfg string, res slip.Object) {
	sig := func(f string) string { return fmt.Sprintf("kind=%s fail=%s", c.Kind, f) }
	top, _ := res.(slip.List)
	if len(top) != 2 {
		x.Fail(sig("shape"), "%s: %s", cfg, sl.Show(res))
		return
	}
	per, _ := top[0].(slip.List)
	if len(per) != c.N {
		x.Fail(sig("shape"), "%s: %d routine results, expected %d", cfg, len(per), c.N)
		return
	}
	seenK := map[int64]bool{}
	compared := 0
	sharedFns := sharedFnSet()
	if len(sharedFns) == len(sharedFnsBase) {
		x.Cover("avoided:select on a per-call channel in a shared function (listed finding select-wrong-channel)")
	}
	for _, e := range per {
		el, _ := e.(slip.List)
		if len(el) != 1+c.M {
			x.Fail(sig("shape"), "%s: a routine reported %d steps, expected %d", cfg, len(el)-1, c.M)
			return
		}
		kf, _ := el[0].(slip.Fixnum)
		k := int64(kf)
		if k < 0 || int64(c.N) <= k || seenK[k] {
			x.Fail(sig("wrong-result fn=work"), "%s: routine id %s reported twice or never started", cfg, sl.Show(el[0]))
			return
		}
		seenK[k] = true
		for i := 0; i < c.M; i++ {
			row, _ := el[1+i].(slip.List)
			if len(row) != len(sharedFns) {
				x.Fail(sig("shape"), "%s: step row %s", cfg, sl.Show(el[1+i]))
				return
			}
			xv := sharedX(int(k), i)
			for j, f := range sharedFns {
				ok := false
				switch w := f.want(xv).(type) {
				case int64:
					g, is := row[j].(slip.Fixnum)
					ok = is && int64(g) == w
				case string:
					g, is := row[j].(slip.String)
					ok = is && string(g) == w
				}
				compared++
				if !ok {
					x.Fail(sig("wrong-result fn="+f.name), "%s: routine %d step %d: shared function %s (%s) called with %d returned %s, a sequential evaluation gives %v%s",
						cfg, k, i, f.name, f.through, xv, sl.Show(row[j]), f.want(xv), foreign(row[j], k))
					return
				}
			}
		}
	}
	x.CoverN("shared-fn-results-compared", compared)
	x.CoverN("shared-fn-results-compared:worker="+c.Shape, compared)
	for _, f := range sharedFns {
		x.CoverN("shared-fn:"+f.name, c.N*c.M)
	}
	locks := 0
	for _, f := range sharedFns {
		locks += f.locks
		if 0 < f.locks {
			x.CoverN("locked-region-exit:"+f.name, c.N*c.M)
		}
	}
	x.Cover("locked-region-exit:unhandled error ends the routine")
	if n, _ := top[1].(slip.Fixnum); int(n) != c.N*c.M*locks+1 {
		x.Fail(sig("lost-update"), "%s: counter is %s after %d increments under the mutex in the shared functions", cfg, sl.Show(top[1]), c.N*c.M*locks+1)
	}
	for i := range inside {
		if atomic.LoadInt32(&inside[i]) != 0 {
			x.Fail(sig("region-not-left"), "%s: region %d still occupied at the end", cfg, i)
		}
	}
	x.CoverN("increments", c.N*c.M*locks+1)
}

// foreign says whose value a wrong result looks like.
func foreign(got slip.Object, k int64) string {
	if g, ok := got.(slip.Fixnum); ok {
		if o := int64(g)/100000 - 1; 0 <= o && o < 8 && o != k {
			return fmt.Sprintf(" (the value belongs to routine %d)", o)
		}
	}
	return ""
}

// sharedPipeProgram: producers and consumers that all run the same defun'd
// functions; every item travels through return/return-from/values forms of
// those functions on its way from the producer to the result.
func sharedPipeProgram(c Case, u string) (src, warm string) {
	nc := 1 + c.N/2
	np := c.N - c.N/2
	var b strings.Builder
	fmt.Fprintf(&b, "(defvar *%[1]s-ch* (make-channel %[2]d))\n(defvar *%[1]s-ch2* (make-channel %[2]d))\n(defvar *%[1]s-quit* (make-channel %[3]d))\n(defvar *%[1]s-out* (make-channel %[4]d))\n(defvar *%[1]s-done* (make-channel %[3]d))\n(defvar *%[1]s-m* (make-mutex))\n(defvar *%[1]s-got* nil)\n",
		u, c.Cap, c.N+1, np*c.M+8)
	fmt.Fprintf(&b, "(defun %[1]s-id (v) (block nil (dolist (el (list v)) (return el))))\n", u)
	fmt.Fprintf(&b, "(defun %[1]s-next () (loop (let ((v (channel-pop *%[1]s-ch*))) (when v (return-from %[1]s-next v)))))\n", u)
	fmt.Fprintf(&b, "(defun %[1]s-wrap (k v) (multiple-value-bind (a b) (values k v) (list a b)))\n", u)
	fmt.Fprintf(&b, "(defun %[1]s-record (v) (with-mutex-lock *%[1]s-m* (c17-enter 8) (let ((tmp *%[1]s-got*)) (setq *%[1]s-got* (cons v tmp))) (c17-leave 8) (return-from %[1]s-record v)))\n", u)
	fmt.Fprintf(&b, "(defun %[1]s-emit (k v) (channel-push *%[1]s-out* (%[1]s-wrap k (%[1]s-record (%[1]s-id v)))))\n", u)
	fmt.Fprintf(&b, "(defun %[1]s-produce (ch base m) (dotimes (i m) (channel-push ch (%[1]s-id (+ base i)))) (channel-push *%[1]s-done* t))\n", u)
	switch c.Shape {
	case "range":
		fmt.Fprintf(&b, "(defun %[1]s-mk (k) (lambda (v) (%[1]s-emit k v)))\n", u)
		fmt.Fprintf(&b, "(defun %[1]s-consume (k) (range (%[1]s-mk k) *%[1]s-ch*) (channel-push *%[1]s-done* t))\n", u)
	case "select":
		fmt.Fprintf(&b, "(defun %[1]s-consume (k) (let ((going t)) (do () ((not going)) (select (*%[1]s-ch* v (%[1]s-emit k v)) (*%[1]s-ch2* w (%[1]s-emit k w)) (*%[1]s-quit* q (setq going nil))))) (channel-push *%[1]s-done* t))\n", u)
	default: // pop
		fmt.Fprintf(&b, "(defun %[1]s-consume (k) (do ((v (%[1]s-next) (%[1]s-next))) ((eq v 'stop)) (%[1]s-emit k v)) (channel-push *%[1]s-done* t))\n", u)
	}
	if c.Shape == "select" {
		fmt.Fprintf(&b, selectProbeSrc, u)
	}
	fmt.Fprintf(&b, "(defun %[1]s-collect () (let ((res nil)) (dotimes (i (length *%[1]s-out*)) (setq res (cons (channel-pop *%[1]s-out*) res))) (reverse res)))\n", u)
	// warm-up before the routines of the case exist: one item per channel
	// through every function, one routine at a time in each function (the
	// channels may be unbuffered, so producer and consumer run as routines)
	var w strings.Builder
	fmt.Fprintf(&w, "(%[1]s-id 1) (run (%[1]s-consume 0)) (run (%[1]s-produce *%[1]s-ch* 5 1)) (channel-pop *%[1]s-done*) ", u)
	switch c.Shape {
	case "range":
		// a closed channel cannot be used again: the case gets a new one
		fmt.Fprintf(&w, "(channel-close *%[1]s-ch*) (channel-pop *%[1]s-done*) (setq *%[1]s-ch* (make-channel %[2]d)) ", u, c.Cap)
	case "select":
		fmt.Fprintf(&w, "(run (%[1]s-produce *%[1]s-ch2* 6 1)) (channel-pop *%[1]s-done*) (do () ((and (= 0 (length *%[1]s-ch*)) (= 0 (length *%[1]s-ch2*)))) (c17-yield)) (channel-push *%[1]s-quit* t) (channel-pop *%[1]s-done*) ", u)
	default:
		fmt.Fprintf(&w, "(channel-push *%[1]s-ch* 'stop) (channel-pop *%[1]s-done*) ", u)
	}
	fmt.Fprintf(&w, "(%[1]s-collect) (setq *%[1]s-got* nil)", u)
	warm = w.String()
	b.WriteString(mainMarker)
	b.WriteString("(progn\n")
	for p := 0; p < np; p++ {
		ch := "ch"
		if c.Shape == "select" && p%2 == 1 {
			ch = "ch2"
		}
		fmt.Fprintf(&b, " (run (%[1]s-produce *%[1]s-%[2]s* %[3]d %[4]d))\n", u, ch, (p+1)*100000, c.M)
	}
	for k := 0; k < nc; k++ {
		fmt.Fprintf(&b, " (run (%[1]s-consume %[2]d))\n", u, k)
	}
	fmt.Fprintf(&b, " (dotimes (i %d) (channel-pop *%s-done*))\n", np, u)
	switch c.Shape {
	case "range":
		// a push that fails (the channel is closed) while the consumers may still
		// be draining the buffer must not deliver anything
		fmt.Fprintf(&b, " (channel-close *%[1]s-ch*)\n (ignore-errors (channel-push *%[1]s-ch* 99900000))\n", u)
	case "select":
		fmt.Fprintf(&b, " (do () ((and (= 0 (length *%[1]s-ch*)) (= 0 (length *%[1]s-ch2*)))) (c17-yield))\n (dotimes (i %[2]d) (channel-push *%[1]s-quit* t))\n", u, nc)
	default:
		fmt.Fprintf(&b, " (dotimes (i %d) (channel-push *%s-ch* 'stop))\n", nc, u)
	}
	probe := "nil"
	if c.Shape == "select" {
		probe = fmt.Sprintf(selectProbeCall, u)
	}
	fmt.Fprintf(&b, " (dotimes (i %[2]d) (channel-pop *%[1]s-done*))\n (list (%[1]s-collect) (with-mutex-lock *%[1]s-m* *%[1]s-got*) %[3]s))", u, nc, probe)
	return b.String(), warm
}

func sharedPipeJudge(x *fw.Ctx, c Case, cfg string, res slip.Object) {
	sig := func(f string) string { return fmt.Sprintf("kind=%s fail=%s", c.Kind, f) }
	np := c.N - c.N/2
	top, _ := res.(slip.List)
	if len(top) != 3 {
		x.Fail(sig("shape"), "%s: %s", cfg, sl.Show(res))
		return
	}
	if c.Shape == "select" {
		x.Cover("select-form-called-with-two-channels")
		if got := sl.Show(top[2]); got != "(1 2)" {
			x.Fail(sig("select-wrong-channel"), "%s: (defun sel (ch) (select (ch v v))) called with channel a holding 1 11 and then with channel b holding 2 returned %s, expected (1 2): the second call did not receive from the channel it was given", cfg, got)
		}
	}
	l, _ := top[0].(slip.List)
	if !exactlyOnceFIFO(x, sig, cfg, l, np, c.M) {
		return
	}
	x.CoverN("items-received", len(l))
	x.CoverN("items-through-shared-functions:"+c.Shape, len(l))
	// the mutex guarded record of the same items
	got, ok := ints(top[1])
	if !ok {
		x.Fail(sig("shape"), "%s: record %s", cfg, sl.Show(top[1]))
		return
	}
	seen := map[int64]int{}
	for _, it := range got {
		seen[it]++
	}
	for p := 1; p <= np; p++ {
		for i := 0; i < c.M; i++ {
			it := int64(p*100000 + i)
			if seen[it] != 1 {
				x.Fail(sig("record-lost-update"), "%s: item %d is %d times in the list every consumer conses onto under the mutex (%d entries, %d items)", cfg, it, seen[it], len(got), np*c.M)
				return
			}
		}
	}
	if len(got) != np*c.M {
		x.Fail(sig("record-lost-update"), "%s: the mutex guarded list has %d entries for %d items", cfg, len(got), np*c.M)
	}
	x.CoverN("increments", len(got))
}

// exactlyOnceFIFO checks a list of (consumer item) pairs: every item
// p*100000+i (1<=p<=np, 0<=i<m) exactly once, items of one producer in push
// order at each consumer.
func exactlyOnceFIFO(x *fw.Ctx, sig func(string) string, cfg string, l slip.List, np, m int) bool {
	seen := map[int64]int{}
	lastPerConsProd := map[[2]int64]int64{}
	fifoBad := ""
	for _, e := range l {
		pair, ok := ints(e)
		if !ok || len(pair) != 2 {
			x.Fail(sig("shape"), "%s: unexpected element %s", cfg, sl.Show(e))
			return false
		}
		cons, item := pair[0], pair[1]
		seen[item]++
		k := [2]int64{cons, item / 100000}
		if last, has := lastPerConsProd[k]; has && item <= last && fifoBad == "" {
			fifoBad = fmt.Sprintf("consumer %d received %d after %d", cons, item, last)
		}
		lastPerConsProd[k] = item
	}
	for p := 1; p <= np; p++ {
		for i := 0; i < m; i++ {
			it := int64(p*100000 + i)
			switch seen[it] {
			case 1:
			case 0:
				x.Fail(sig("item-lost"), "%s: item %d was pushed and never received", cfg, it)
				return false
			default:
				x.Fail(sig("item-duplicated"), "%s: item %d received %d times", cfg, it, seen[it])
				return false
			}
		}
	}
	if len(seen) != np*m {
		x.Fail(sig("item-invented"), "%s: %d distinct items received, %d pushed", cfg, len(seen), np*m)
		return false
	}
	if fifoBad != "" {
		x.Fail(sig("fifo"), "%s: %s", cfg, fifoBad)
		return false
	}
	return true
}

// ----- request/reply: channels that travel over channels -----

// reqReplyShape: S servers and N-S clients all running the same functions; a
// request is a list (reply-channel x) pushed on the request channel, the
// answer x+7 comes back on the reply channel (made per request, or once per
// client). Every client must get the answers to its own questions, in order.
func reqReplyCounts(c Case) (servers, clients int) {
	servers = 1 + c.N/4
	return servers, c.N - servers
}

func reqReplyProgram(c Case, u string) (src, warm string) {
	ns, ncl := reqReplyCounts(c)
	var b strings.Builder
	fmt.Fprintf(&b, "(defvar *%[1]s-req* (make-channel %[2]d))\n(defvar *%[1]s-out* (make-channel %[3]d))\n(defvar *%[1]s-done* (make-channel %[3]d))\n", u, c.Cap, c.N+2)
	fmt.Fprintf(&b, "(defun %[1]s-serve1 (rq) (let ((reply (car rq)) (x (cadr rq))) (channel-push reply (block nil (return (+ x 7))))))\n", u)
	fmt.Fprintf(&b, "(defun %[1]s-server () (do ((rq (channel-pop *%[1]s-req*) (channel-pop *%[1]s-req*))) ((eq rq 'stop)) (%[1]s-serve1 rq)) (channel-push *%[1]s-done* t))\n", u)
	if c.Shape == "per-client" {
		fmt.Fprintf(&b, "(defun %[1]s-ask (reply x) (channel-push *%[1]s-req* (list reply x)) (channel-pop reply))\n", u)
		fmt.Fprintf(&b, "(defun %[1]s-client (k m) (let ((acc nil) (reply (make-channel %[2]d))) (dotimes (i m) (setq acc (cons (%[1]s-ask reply (+ (* (1+ k) 100000) i)) acc))) (channel-push *%[1]s-out* (cons k (reverse acc)))))\n", u, c.Cap%2)
	} else {
		fmt.Fprintf(&b, "(defun %[1]s-ask (x) (let ((reply (make-channel 1))) (channel-push *%[1]s-req* (list reply x)) (channel-pop reply)))\n", u)
		fmt.Fprintf(&b, "(defun %[1]s-client (k m) (let ((acc nil)) (dotimes (i m) (setq acc (cons (%[1]s-ask (+ (* (1+ k) 100000) i)) acc))) (channel-push *%[1]s-out* (cons k (reverse acc)))))\n", u)
	}
	fmt.Fprintf(&b, "(defun %[1]s-collect (n) (let ((res nil)) (dotimes (i n) (setq res (cons (channel-pop *%[1]s-out*) res))) res))\n", u)
	warm = fmt.Sprintf("(run (%[1]s-server)) (%[1]s-client 90 2) (%[1]s-collect 1) (channel-push *%[1]s-req* 'stop) (channel-pop *%[1]s-done*)", u)
	b.WriteString(mainMarker)
	b.WriteString("(progn\n")
	for i := 0; i < ns; i++ {
		fmt.Fprintf(&b, " (run (%s-server))\n", u)
	}
	for k := 0; k < ncl; k++ {
		fmt.Fprintf(&b, " (run (%s-client %d %d))\n", u, k, c.M)
	}
	fmt.Fprintf(&b, " (let ((res (%[1]s-collect %[2]d))) (dotimes (i %[3]d) (channel-push *%[1]s-req* 'stop)) (dotimes (i %[3]d) (channel-pop *%[1]s-done*)) (list res (length *%[1]s-req*))))", u, ncl, ns)
	return b.String(), warm
}

func reqReplyJudge(x *fw.Ctx, c Case, cfg string, res slip.Object) {
	sig := func(f string) string { return fmt.Sprintf("kind=%s fail=%s", c.Kind, f) }
	_, ncl := reqReplyCounts(c)
	top, _ := res.(slip.List)
	if len(top) != 2 {
		x.Fail(sig("shape"), "%s: %s", cfg, sl.Show(res))
		return
	}
	per, _ := top[0].(slip.List)
	if len(per) != ncl {
		x.Fail(sig("shape"), "%s: %d client results, expected %d", cfg, len(per), ncl)
		return
	}
	seen := map[int64]bool{}
	for _, e := range per {
		v, ok := ints(e)
		if !ok || len(v) != 1+c.M || v[0] < 0 || int64(ncl) <= v[0] || seen[v[0]] {
			x.Fail(sig("shape"), "%s: client result %s", cfg, sl.Show(e))
			return
		}
		seen[v[0]] = true
		for i := 0; i < c.M; i++ {
			if want := sharedX(int(v[0]), i) + 7; v[1+i] != want {
				x.Fail(sig("wrong-reply"), "%s: client %d asked %d in its request %d and received %d on its reply channel, expected %d%s",
					cfg, v[0], want-7, i, v[1+i], want, foreign(slip.Fixnum(v[1+i]), v[0]))
				return
			}
		}
	}
	if sl.Show(top[1]) != "0" {
		x.Fail(sig("request-left-over"), "%s: %s requests are still in the request channel after every client got all its answers and every server stopped", cfg, sl.Show(top[1]))
	}
	x.CoverN("replies-matched-to-requests", ncl*c.M)
	x.CoverN("replies-matched-to-requests:"+c.Shape, ncl*c.M)
	x.CoverN("items-received", 2*ncl*c.M)
}

// ----- the interpreter's tables -----

// tablesProgram, shape own: every routine defines a class, a flavor, a
// parameter, a generic function with a method and a package of its own, then
// uses them M times. Shape redefine: one routine redefines a function V times
// while the others call it; a result tells which version answered.
const redefineVersions = 6

const (
	methodClasses = 12
	methodRounds  = 60
)

func tablesProgram(c Case, u string) (src, warm string) {
	var b strings.Builder
	fmt.Fprintf(&b, "(defvar *%[1]s-out* (make-channel %[2]d))\n(defvar *%[1]s-gate* (make-channel 0))\n", u, c.N+2)
	fmt.Fprintf(&b, "(defun %[1]s-collect (n) (let ((res nil)) (dotimes (i n) (setq res (cons (channel-pop *%[1]s-out*) res))) res))\n", u)
	if c.Shape == "redefine" {
		fmt.Fprintf(&b, "(defun %[1]s-f (x) (+ x 0))\n", u)
		fmt.Fprintf(&b, "(defun %[1]s-reader (k m) (let ((acc nil)) (dotimes (i m) (setq acc (cons (%[1]s-f i) acc)) (c17-yield)) (channel-push *%[1]s-out* (cons k (reverse acc)))))\n", u)
		warm = fmt.Sprintf("(%[1]s-reader 90 2) (%[1]s-collect 1)", u)
		b.WriteString(mainMarker)
		b.WriteString("(progn\n")
		fmt.Fprintf(&b, " (run (progn (channel-pop *%s-gate*)", u)
		for v := 1; v <= redefineVersions; v++ {
			fmt.Fprintf(&b, " (defun %s-f (x) (+ x %d)) (c17-yield)", u, v*1000)
		}
		fmt.Fprintf(&b, " (channel-push *%s-out* (list -1))))\n", u)
		for k := 0; k < c.N-1; k++ {
			fmt.Fprintf(&b, " (run (progn (channel-pop *%[1]s-gate*) (%[1]s-reader %[2]d %[3]d)))\n", u, k, c.M)
		}
		fmt.Fprintf(&b, " (channel-close *%[1]s-gate*)\n (list (%[1]s-collect %[2]d) (%[1]s-f 0)))", u, c.N)
		return b.String(), warm
	}
	if c.Shape == "method-rounds" {
		// methodClasses classes, each with an instance; one routine defines and
		// then redefines the method for each class (methodRounds defmethods, the
		// value tells class and version) and calls it at once: it must see its
		// own method. The others call the generic function on all instances in a
		// tight loop, without yielding, until the definer is done: the mutex of
		// the generic function is contended all the time, which is what makes a
		// gap between two of its critical sections reachable. A call gives the
		// value of some version, and never an older one than a call before.
		for r := 0; r < methodClasses; r++ {
			fmt.Fprintf(&b, "(defclass %[1]s-k%[2]d () ((a :initform %[2]d)))\n(defvar *%[1]s-i%[2]d* (make-instance '%[1]s-k%[2]d))\n", u, r)
		}
		fmt.Fprintf(&b, "(defvar *%[1]s-stop* nil)\n(defgeneric %[1]s-g (x))\n(defmethod %[1]s-g ((x t)) 0)\n", u)
		fmt.Fprintf(&b, "(defun %[1]s-caller (k m) (let ((bad 0) (back 0) (calls 0)", u)
		for r := 0; r < methodClasses; r++ {
			fmt.Fprintf(&b, " (s%d 0)", r)
		}
		fmt.Fprintf(&b, ") (dotimes (i m) (when *%s-stop* (return nil)) (setq calls (1+ calls))", u)
		for r := 0; r < methodClasses; r++ {
			// 0 = the method on t; otherwise version*100 + class + 1
			fmt.Fprintf(&b, " (let ((v (%[1]s-g *%[1]s-i%[2]d*))) (cond ((and (/= v 0) (/= (mod v 100) %[3]d)) (setq bad (1+ bad))) ((< v s%[2]d) (setq back (1+ back))) (t (setq s%[2]d v))))", u, r, r+1)
		}
		fmt.Fprintf(&b, ") (channel-push *%s-out* (list k bad back calls))))\n", u)
		warm = fmt.Sprintf("(%[1]s-caller 90 2) (%[1]s-collect 1)", u)
		b.WriteString(mainMarker)
		b.WriteString("(progn\n")
		fmt.Fprintf(&b, " (run (let ((bad 0)) (channel-pop *%s-gate*)", u)
		for d := 0; d < methodRounds; d++ {
			r, v := d%methodClasses, (d/methodClasses)*100+d%methodClasses+1
			fmt.Fprintf(&b, " (defmethod %[1]s-g ((x %[1]s-k%[2]d)) %[3]d) (unless (= %[3]d (%[1]s-g *%[1]s-i%[2]d*)) (setq bad (1+ bad)))", u, r, v)
		}
		fmt.Fprintf(&b, " (setq *%[1]s-stop* t) (channel-push *%[1]s-out* (list -1 bad 0 0))))\n", u)
		for k := 0; k < c.N-1; k++ {
			fmt.Fprintf(&b, " (run (progn (channel-pop *%[1]s-gate*) (%[1]s-caller %[2]d 100000)))\n", u, k)
		}
		fmt.Fprintf(&b, " (channel-close *%[1]s-gate*)\n (list (%[1]s-collect %[2]d) (list", u, c.N)
		for r := 0; r < methodClasses; r++ {
			fmt.Fprintf(&b, " (%[1]s-g *%[1]s-i%[2]d*)", u, r)
		}
		b.WriteString(")))")
		return b.String(), warm
	}
	if c.Shape == "daemons" || c.Shape == "flavor-methods" {
		// one routine adds methods (new ones and :before/:after/:around daemons of
		// the method being called) while the others call: every call must give
		// the value every method set gives
		var defs []string
		if c.Shape == "daemons" {
			fmt.Fprintf(&b, "(defgeneric %[1]s-g (x))\n(defmethod %[1]s-g ((x fixnum)) (+ x 1))\n(defmethod %[1]s-g ((x t)) 0)\n", u)
			fmt.Fprintf(&b, "(defun %[1]s-caller (k m) (let ((bad 0)) (dotimes (i m) (unless (= (+ i 1) (%[1]s-g i)) (setq bad (1+ bad))) (unless (= 0 (%[1]s-g \"s\")) (setq bad (1+ bad))) (c17-yield)) (channel-push *%[1]s-out* (list k bad))))\n", u)
			defs = []string{"(defmethod %[1]s-g :before ((x fixnum)) nil)", "(defmethod %[1]s-g :after ((x fixnum)) nil)", "(defmethod %[1]s-g :around ((x fixnum)) (call-next-method))",
				"(defmethod %[1]s-g ((x fixnum)) (+ 1 x))", "(defmethod %[1]s-g :before ((x fixnum)) t)", "(defmethod %[1]s-g ((x symbol)) 3)", "(defmethod %[1]s-g :after ((x t)) nil)"}
		} else {
			fmt.Fprintf(&b, "(defflavor %[1]s-fl ((a 1)) () :gettable-instance-variables :settable-instance-variables)\n(defmethod (%[1]s-fl :get2) () (+ a 1))\n(defvar *%[1]s-inst* (make-instance '%[1]s-fl))\n", u)
			fmt.Fprintf(&b, "(defun %[1]s-caller (k m) (let ((bad 0) (o (make-instance '%[1]s-fl))) (dotimes (i m) (unless (= 2 (send o :get2)) (setq bad (1+ bad))) (unless (= 1 (send *%[1]s-inst* :a)) (setq bad (1+ bad))) (c17-yield)) (channel-push *%[1]s-out* (list k bad))))\n", u)
			defs = []string{"(defmethod (%[1]s-fl :m1) () 1)", "(defmethod (%[1]s-fl :m2) (x) x)", "(defmethod (%[1]s-fl :before :get2) () nil)", "(defmethod (%[1]s-fl :after :get2) () nil)",
				"(defmethod (%[1]s-fl :get2) () (+ 1 a))", "(defmethod (%[1]s-fl :m3) () 3)"}
		}
		warm = fmt.Sprintf("(%[1]s-caller 90 2) (%[1]s-collect 1)", u)
		b.WriteString(mainMarker)
		b.WriteString("(progn\n")
		fmt.Fprintf(&b, " (run (progn (channel-pop *%s-gate*)", u)
		for _, d := range defs {
			fmt.Fprintf(&b, " "+d+" (c17-yield)", u)
		}
		fmt.Fprintf(&b, " (channel-push *%s-out* (list -1 0))))\n", u)
		for k := 0; k < c.N-1; k++ {
			fmt.Fprintf(&b, " (run (progn (channel-pop *%[1]s-gate*) (%[1]s-caller %[2]d %[3]d)))\n", u, k, c.M)
		}
		if c.Shape == "daemons" {
			fmt.Fprintf(&b, " (channel-close *%[1]s-gate*)\n (list (%[1]s-collect %[2]d) (list (%[1]s-g 5) (%[1]s-g 'a) (%[1]s-g \"s\"))))", u, c.N)
		} else {
			fmt.Fprintf(&b, " (channel-close *%[1]s-gate*)\n (list (%[1]s-collect %[2]d) (list (send *%[1]s-inst* :get2) (send *%[1]s-inst* :m3) (send *%[1]s-inst* :m2 0))))", u, c.N)
		}
		return b.String(), warm
	}
	b.WriteString(mainMarker)
	b.WriteString("(progn\n")
	for k := 0; k < c.N; k++ {
		fmt.Fprintf(&b, " (run (let ((acc 0) (syms 0)) (channel-pop *%[1]s-gate*)\n"+
			"  (multiple-value-bind (v er) (ignore-errors\n"+
			"   (defclass %[1]s-c%[2]d () ((a :initarg :a :initform %[2]d)))\n"+
			"   (defflavor %[1]s-f%[2]d ((a %[2]d)) () :gettable-instance-variables)\n"+
			"   (defparameter *%[1]s-p%[2]d* %[2]d)\n"+
			"   (defgeneric %[1]s-g%[2]d (x))\n"+
			"   (defmethod %[1]s-g%[2]d ((x fixnum)) (+ x %[2]d))\n"+
			"   (make-package \"%[1]s-pk%[2]d\") (make-package \"%[1]s-pk%[2]db\") (make-package \"%[1]s-pk%[2]dc\")\n"+
			"   (dotimes (i %[3]d) (intern (format nil \"s~d\" i) \"%[1]s-pk%[2]d\")\n"+
			"    (setq acc (+ acc (slot-value (make-instance '%[1]s-c%[2]d) 'a) *%[1]s-p%[2]d* (%[1]s-g%[2]d 1) (send (make-instance '%[1]s-f%[2]d) :a))))\n"+
			"   (dotimes (i %[3]d) (when (find-symbol (format nil \"s~d\" i) \"%[1]s-pk%[2]d\") (setq syms (1+ syms))))\n"+
			"   t)\n"+
			"   (channel-push *%[1]s-out* (list %[2]d acc syms (if er (format nil \"~a: ~a\" (type-of er) (slot-value er 'message)) \"\"))))))\n", u, k, c.M)
	}
	fmt.Fprintf(&b, " (channel-close *%[1]s-gate*)\n (list (%[1]s-collect %[2]d) (list", u, c.N)
	for k := 0; k < c.N; k++ {
		fmt.Fprintf(&b, " (list (if (and (find-package \"%[1]s-pk%[2]d\") (find-package \"%[1]s-pk%[2]db\") (find-package \"%[1]s-pk%[2]dc\")) 1 0) (if (and (find-class '%[1]s-c%[2]d nil) (find-class '%[1]s-f%[2]d nil) (fboundp '%[1]s-g%[2]d) (boundp '*%[1]s-p%[2]d*)) 1 0))", u, k)
	}
	b.WriteString(")))")
	return b.String(), ""
}

func tablesJudge(x *fw.Ctx, c Case, cfg string, res slip.Object) {
	sig := func(f string) string { return fmt.Sprintf("kind=%s fail=%s", c.Kind, f) }
	top, _ := res.(slip.List)
	if len(top) != 2 {
		x.Fail(sig("shape"), "%s: %s", cfg, sl.Show(res))
		return
	}
	per, _ := top[0].(slip.List)
	if len(per) != c.N {
		x.Fail(sig("shape"), "%s: %d routine results, expected %d", cfg, len(per), c.N)
		return
	}
	if c.Shape == "redefine" {
		calls := 0
		for _, e := range per {
			v, ok := ints(e)
			if !ok || len(v) < 1 {
				x.Fail(sig("shape"), "%s: %s", cfg, sl.Show(e))
				return
			}
			if v[0] == -1 {
				continue
			}
			if len(v) != 1+c.M {
				x.Fail(sig("shape"), "%s: reader reported %d calls, expected %d", cfg, len(v)-1, c.M)
				return
			}
			last := int64(0)
			for i := 0; i < c.M; i++ {
				ver := (v[1+i] - int64(i)) / 1000
				if (v[1+i]-int64(i))%1000 != 0 || ver < 0 || redefineVersions < ver {
					x.Fail(sig("redefine-no-version"), "%s: reader %d call %d of the function being redefined returned %d, which no version (x + 1000*v, v=0..%d) gives for x=%d", cfg, v[0], i, v[1+i], redefineVersions, i)
					return
				}
				if ver < last {
					x.Fail(sig("redefine-went-back"), "%s: reader %d saw version %d of the function in call %d after version %d in an earlier call", cfg, v[0], ver, i, last)
					return
				}
				last = ver
				calls++
			}
		}
		if sl.Show(top[1]) != fmt.Sprint(redefineVersions*1000) {
			x.Fail(sig("redefine-final"), "%s: after the last defun finished a new call gives %s, expected %d", cfg, sl.Show(top[1]), redefineVersions*1000)
		}
		x.CoverN("calls-during-redefinition", calls)
		x.CoverN("redefinitions", redefineVersions)
		return
	}
	if c.Shape == "method-rounds" {
		calls := 0
		for _, e := range per {
			v, ok := ints(e)
			if !ok || len(v) != 4 {
				x.Fail(sig("shape"), "%s: %s", cfg, sl.Show(e))
				return
			}
			calls += int(v[3]) * methodClasses
			switch {
			case v[0] == -1 && v[1] != 0:
				x.Fail(sig("own-method-not-seen"), "%s: %d times a call made right after (defmethod g ((x k)) v) returned, by the routine that defined it, did not run the method just defined", cfg, v[1])
				return
			case v[1] != 0:
				x.Fail(sig("wrong-dispatch shape="+c.Shape), "%s: caller %d saw %d calls with a result no version of the method for the class of the instance gives", cfg, v[0], v[1])
				return
			case v[2] != 0:
				x.Fail(sig("dispatch-went-back"), "%s: caller %d saw %d calls run an older version of a method (or the method on t) than an earlier call on the same instance", cfg, v[0], v[2])
				return
			}
		}
		want := "("
		for r := 0; r < methodClasses; r++ {
			want += fmt.Sprintf("%d ", ((methodRounds-1-r)/methodClasses)*100+r+1)
		}
		if want = strings.TrimSpace(want) + ")"; sl.Show(top[1]) != want {
			x.Fail(sig("stale-dispatch shape="+c.Shape), "%s: after all defmethods finished the calls on the %d instances give %s, expected %s", cfg, methodClasses, sl.Show(top[1]), want)
		}
		x.CoverN("calls-during-defmethod:"+c.Shape, calls)
		x.CoverN("defmethods-during-calls:"+c.Shape, methodRounds)
		return
	}
	if c.Shape == "daemons" || c.Shape == "flavor-methods" {
		for _, e := range per {
			v, ok := ints(e)
			if !ok || len(v) != 2 {
				x.Fail(sig("shape"), "%s: %s", cfg, sl.Show(e))
				return
			}
			if v[1] != 0 {
				x.Fail(sig("wrong-dispatch shape="+c.Shape), "%s: caller %d saw %d calls with a result no set of the methods being defined explains", cfg, v[0], v[1])
				return
			}
		}
		if want := map[string]string{"daemons": "(6 3 0)", "flavor-methods": "(2 3 0)"}[c.Shape]; sl.Show(top[1]) != want {
			x.Fail(sig("stale-dispatch shape="+c.Shape), "%s: after all defmethods finished the three probe calls give %s, expected %s", cfg, sl.Show(top[1]), want)
		}
		x.CoverN("calls-during-defmethod:"+c.Shape, 2*(c.N-1)*c.M)
		x.CoverN("defmethods-during-calls:"+c.Shape, map[string]int{"daemons": 7, "flavor-methods": 6}[c.Shape])
		return
	}
	seen := map[int64]bool{}
	for _, e := range per {
		el, _ := e.(slip.List)
		if len(el) != 4 {
			x.Fail(sig("shape"), "%s: %s", cfg, sl.Show(e))
			return
		}
		kf, _ := el[0].(slip.Fixnum)
		k := int64(kf)
		seen[k] = true
		if msg, _ := el[3].(slip.String); strings.Contains(string(msg), "package") && strings.Contains(string(msg), "not found") {
			x.Fail(sig("package-lost"), "%s: routine %d made three packages of its own and interned symbols in the first: %q", cfg, k, string(msg))
			return
		} else if strings.Contains(string(msg), "runtime error") {
			x.Fail(sig("own-definitions-internal-error"), "%s: routine %d defining and using a class, flavor, parameter, generic function and packages of its own got a Go runtime fault dressed up as a condition: %q", cfg, k, string(msg))
			return
		} else if msg != "" {
			x.Fail(sig("own-definitions-error"), "%s: routine %d defining and using a class, flavor, parameter, generic function and package of its own got the error %q", cfg, k, string(msg))
			return
		}
		if acc, _ := el[1].(slip.Fixnum); int64(acc) != int64(c.M)*(4*k+1) {
			x.Fail(sig("own-definitions-wrong-result"), "%s: routine %d summed %s over %d uses of its own class, flavor, parameter and generic function, expected %d", cfg, k, sl.Show(el[1]), c.M, int64(c.M)*(4*k+1))
			return
		}
		if n, _ := el[2].(slip.Fixnum); int(n) != c.M {
			x.Fail(sig("symbol-lost"), "%s: routine %d finds %s of the %d symbols it interned in its own package", cfg, k, sl.Show(el[2]), c.M)
			return
		}
	}
	if len(seen) != c.N {
		x.Fail(sig("shape"), "%s: %d distinct routines reported", cfg, len(seen))
		return
	}
	flags, _ := top[1].(slip.List)
	for k, e := range flags {
		f, _ := ints(e)
		if len(f) != 2 {
			x.Fail(sig("shape"), "%s: %s", cfg, sl.Show(top[1]))
			return
		}
		if f[0] != 1 {
			x.Fail(sig("package-lost"), "%s: after all routines finished, find-package does not find one of the three packages routine %d made with make-package", cfg, k)
			return
		}
		if f[1] != 1 {
			x.Fail(sig("definition-lost"), "%s: after all routines finished, the class, flavor, generic function or parameter defined by routine %d is not there", cfg, k)
			return
		}
	}
	x.CoverN("definitions-made-concurrently", 8*c.N)
	x.CoverN("uses-of-own-definitions", 4*c.N*c.M)
	x.CoverN("symbols-interned-concurrently", c.N*c.M)
}
