package fw

import (
	"bytes"
	"fmt"
	"os"
	"os/exec"
	"time"
)

var subs = map[string]func(args []string) int{}

// RegisterSub registers a sub-process entry point: checks that need a fresh
// process per step (restart, crash, reload) re-exec the worker binary with
// "-sub <name> args...".
func RegisterSub(name string, fn func(args []string) int) { subs[name] = fn }

// SubMain dispatches a -sub invocation.
func SubMain(name string, args []string) int {
	fn, ok := subs[name]
	if !ok {
		fmt.Fprintf(os.Stderr, "unknown sub %s\n", name)
		return 2
	}
	return fn(args)
}

// SubResult is what a sub-process run produced.
type SubResult struct {
	Stdout   []byte
	Stderr   []byte
	Exit     int
	TimedOut bool
}

// RunSub runs this binary with -sub name args in dir, with extra env.
func RunSub(name string, args []string, env []string, dir string, timeout time.Duration) SubResult {
	exe, _ := os.Executable()
	cmd := exec.Command(exe, append([]string{"-sub", name}, args...)...)
	cmd.Dir = dir
	cmd.Env = append(os.Environ(), env...)
	var so, se bytes.Buffer
	cmd.Stdout = &so
	cmd.Stderr = &se
	if err := cmd.Start(); err != nil {
		return SubResult{Exit: -1, Stderr: []byte(err.Error())}
	}
	done := make(chan error, 1)
	go func() { done <- cmd.Wait() }()
	res := SubResult{}
	select {
	case <-done:
	case <-time.After(timeout):
		_ = cmd.Process.Kill()
		<-done
		res.TimedOut = true
	}
	res.Stdout = so.Bytes()
	res.Stderr = se.Bytes()
	res.Exit = cmd.ProcessState.ExitCode()
	return res
}

// GenMain prints case i.
func GenMain(id, tier string, seed int64, i int) int {
	ck, ok := registry[id]
	if !ok {
		return 2
	}
	fmt.Printf("%s\n", ck.genJSON(seed, i, tier))
	return 0
}
