package fw

import (
	"bufio"
	"encoding/json"
	"fmt"
	"os"
	"runtime/debug"
	"strconv"
)

// line types written by a worker to its output file
type wline struct {
	T       string            `json:"t"` // call | viol | sum
	I       int               `json:"i,omitempty"`
	V       *Viol             `json:"v,omitempty"`
	Evals   int               `json:"evals,omitempty"`
	Hashes  []uint64          `json:"hashes,omitempty"`
	Cover   map[string]int    `json:"cover,omitempty"`
	Samples []json.RawMessage `json:"samples,omitempty"`
	Trivial int               `json:"trivial,omitempty"`
}

type sample struct {
	Index int             `json:"index"`
	Case  json.RawMessage `json:"case"`
	Obs   any             `json:"observed,omitempty"`
}

// WorkerOpts configures one worker process.
type WorkerOpts struct {
	ID       string
	Tier     string
	Seed     int64
	From, To int
	Out      string
	// CasesFile: run the raw cases in this JSON file (array) instead of
	// generating; indices are -1-k.
	CasesFile string
}

// WorkerMain runs cases [From,To) of a check in this process.
func WorkerMain(o WorkerOpts) int {
	ck, ok := registry[o.ID]
	if !ok {
		fmt.Fprintf(os.Stderr, "unknown check %s\n", o.ID)
		return 2
	}
	f, err := os.OpenFile(o.Out, os.O_WRONLY|os.O_CREATE|os.O_TRUNC, 0o644)
	if err != nil {
		fmt.Fprintln(os.Stderr, err)
		return 2
	}
	defer f.Close()
	w := bufio.NewWriterSize(f, 1<<16)
	emit := func(l *wline) {
		b, _ := json.Marshal(l)
		_, _ = w.Write(b)
		_ = w.WriteByte('\n')
	}
	if init := ck.spec().Init; init != nil {
		init()
	}
	var cases []json.RawMessage
	if o.CasesFile != "" {
		data, err := os.ReadFile(o.CasesFile)
		if err != nil {
			fmt.Fprintln(os.Stderr, err)
			return 2
		}
		if err = json.Unmarshal(data, &cases); err != nil {
			fmt.Fprintln(os.Stderr, err)
			return 2
		}
		o.To = len(cases)
	}
	sum := wline{T: "sum", Cover: map[string]int{}}
	hashes := map[uint64]struct{}{}
	for i := o.From; i < o.To; i++ {
		idx := i
		var raw json.RawMessage
		if cases != nil {
			raw = cases[i]
			idx = -1 - i
		} else {
			raw = ck.genJSON(o.Seed, i, o.Tier)
		}
		// the call line is flushed to the kernel before slip is touched, so
		// a crash or hang is attributable to this case
		_, _ = w.WriteString(`{"t":"call","i":` + strconv.Itoa(idx) + "}\n")
		_ = w.Flush()
		x := &Ctx{Tier: o.Tier, Seed: o.Seed, Index: idx, cover: sum.Cover, Replay: cases != nil}
		runCase(ck, x, raw)
		sum.Evals++
		for k := range x.viols {
			v := x.viols[k]
			v.Case = raw
			emit(&wline{T: "viol", V: &v})
		}
		if x.trivial {
			sum.Trivial++
		} else {
			h := x.hash
			if !x.hashSet {
				h = Hash64(raw)
			}
			if _, has := hashes[h]; !has {
				hashes[h] = struct{}{}
				if len(sum.Samples) < 3 {
					sb, _ := json.Marshal(sample{Index: idx, Case: raw, Obs: x.obs})
					if len(sb) < 6000 {
						sum.Samples = append(sum.Samples, sb)
					}
				}
			}
		}
	}
	sum.Hashes = make([]uint64, 0, len(hashes))
	for h := range hashes {
		sum.Hashes = append(sum.Hashes, h)
	}
	emit(&sum)
	_ = w.Flush()
	return 0
}

func runCase(ck check, x *Ctx, raw json.RawMessage) {
	defer func() {
		if r := recover(); r != nil {
			x.Fail("harness-panic", "monitor or harness panicked: %v\n%s", r, debug.Stack())
		}
	}()
	if err := ck.execJSON(x, raw); err != nil {
		x.Fail("harness-decode", "cannot decode case: %v", err)
	}
}

// ReplayMain re-executes the case stored in a replay file and prints what
// the monitor says about it. Exit status 1 if it still violates.
func ReplayMain(id, path string) int {
	ck, ok := registry[id]
	if !ok {
		fmt.Fprintf(os.Stderr, "unknown check %s\n", id)
		return 2
	}
	data, err := os.ReadFile(path)
	if err != nil {
		fmt.Fprintln(os.Stderr, err)
		return 2
	}
	var rf replayFile
	if err = json.Unmarshal(data, &rf); err != nil || rf.Case == nil {
		// maybe a bare case
		rf.Case = data
	}
	if init := ck.spec().Init; init != nil {
		init()
	}
	x := &Ctx{Tier: "quick", Seed: rf.Seed, Index: rf.Index, cover: map[string]int{}, Replay: true}
	runCase(ck, x, rf.Case)
	fmt.Printf("case: %s\n", rf.Case)
	if x.obs != nil {
		ob, _ := json.MarshalIndent(x.obs, "", " ")
		fmt.Printf("observed: %s\n", ob)
	}
	if len(x.viols) == 0 {
		fmt.Println("no violation")
		return 0
	}
	for _, v := range x.viols {
		fmt.Printf("violation sig=%q\n  %s\n", v.Sig, v.Msg)
	}
	return 1
}
