// Package fw is the runtime-monitoring framework shared by all checks: a
// registry of checks, the per-case context handed to a check's monitor, the
// worker loop (runs cases in a child process) and the driver (spawns workers,
// attributes crashes and hangs, matches known findings, writes evidence).
package fw

import (
	"encoding/json"
	"fmt"
	"hash/fnv"
	"math/rand/v2"
	"sort"
	"sync"
)

// Spec describes one check. C is the JSON-serialisable case type.
type Spec[C any] struct {
	ID    string
	Level string // exploration | fault_enumeration
	Rule  string // how cases are generated and what makes one non-trivial
	// N returns the number of cases for the tier.
	N func(tier string) int
	// Gen produces case i. It must be a pure function of (r, i, tier).
	Gen func(r *rand.Rand, i int, tier string) C
	// Exec runs the case against the real code and judges it.
	Exec func(x *Ctx, c C)
	// Init runs once in each worker process before any case.
	Init func()
	// Race: run the workers from the -race build and count race reports.
	Race bool
	// Batch is the number of cases per worker process (default 500).
	Batch int
	// HangSecs is the no-progress watchdog in seconds (default 120).
	HangSecs int
	// Assumptions for the evidence file.
	Assumptions []string
	// CrashIsViolation: a worker death is a violation of the property (C09,
	// C17) rather than inconclusive.
	CrashIsViolation bool
	// Post is an optional driver-side step after all workers finished
	// (e.g. checks that need several processes per case).
	Post func(d *DriverCtx)
	// Parallel caps the number of concurrent workers (default 16).
	Parallel int
	// Env adds environment variables to worker processes.
	Env []string
	// Tag names the construct a case exercises; with Batch == 1 it is put in
	// front of race-report and crash signatures of that case's process.
	Tag func(c C) string
}

// Viol is one violation reported by a monitor.
type Viol struct {
	Index int             `json:"i"`
	Sig   string          `json:"sig"`
	Msg   string          `json:"msg"`
	Case  json.RawMessage `json:"case,omitempty"`
}

// Ctx is handed to Exec for one case.
type Ctx struct {
	Tier    string
	Seed    int64
	Index   int
	Replay  bool
	viols   []Viol
	cover   map[string]int
	trivial bool
	obs     any
	hash    uint64
	hashSet bool
}

// Fail records a violation with a narrow signature naming the construct that fails.
func (x *Ctx) Fail(sig, format string, a ...any) {
	x.viols = append(x.viols, Viol{Index: x.Index, Sig: sig, Msg: fmt.Sprintf(format, a...)})
}

// Failed tells whether the case already has a violation.
func (x *Ctx) Failed() bool { return 0 < len(x.viols) }

// Cover counts one occurrence of a coverage key.
func (x *Ctx) Cover(key string) { x.cover[key]++ }

// CoverN adds n to a coverage key.
func (x *Ctx) CoverN(key string, n int) { x.cover[key] += n }

// Trivial marks the case as trivial (not counted in distinct_nontrivial).
func (x *Ctx) Trivial() { x.trivial = true }

// Observe attaches what the monitor saw; used for evidence samples.
func (x *Ctx) Observe(v any) { x.obs = v }

// SetHash overrides the distinctness hash (default: hash of the case JSON).
func (x *Ctx) SetHash(h uint64) { x.hash = h; x.hashSet = true }

type check interface {
	id() string
	spec() *base
	n(tier string) int
	genJSON(seed int64, i int, tier string) json.RawMessage
	execJSON(x *Ctx, raw json.RawMessage) error
	tagJSON(raw json.RawMessage) string
}

type base struct {
	ID, Level, Rule  string
	Init             func()
	Race             bool
	Batch, HangSecs  int
	Assumptions      []string
	CrashIsViolation bool
	Post             func(d *DriverCtx)
	Parallel         int
	Env              []string
}

type wrap[C any] struct {
	s Spec[C]
	b base
}

func (w *wrap[C]) id() string        { return w.s.ID }
func (w *wrap[C]) spec() *base       { return &w.b }
func (w *wrap[C]) n(tier string) int { return w.s.N(tier) }
func (w *wrap[C]) genJSON(seed int64, i int, tier string) json.RawMessage {
	c := w.s.Gen(CaseRand(w.s.ID, seed, i), i, tier)
	raw, err := json.Marshal(c)
	if err != nil {
		panic(err)
	}
	return raw
}
func (w *wrap[C]) execJSON(x *Ctx, raw json.RawMessage) error {
	var c C
	if err := json.Unmarshal(raw, &c); err != nil {
		return err
	}
	w.s.Exec(x, c)
	return nil
}

func (w *wrap[C]) tagJSON(raw json.RawMessage) string {
	if w.s.Tag == nil {
		return ""
	}
	var c C
	if json.Unmarshal(raw, &c) != nil {
		return ""
	}
	return w.s.Tag(c)
}

var (
	regMu    sync.Mutex
	registry = map[string]check{}
)

// Register adds a check to the registry.
func Register[C any](s Spec[C]) {
	regMu.Lock()
	defer regMu.Unlock()
	if s.Batch == 0 {
		s.Batch = 500
	}
	if s.HangSecs == 0 {
		s.HangSecs = 120
	}
	if s.Level == "" {
		s.Level = "exploration"
	}
	if s.Parallel == 0 {
		s.Parallel = 16
	}
	registry[s.ID] = &wrap[C]{s: s, b: base{
		ID: s.ID, Level: s.Level, Rule: s.Rule, Init: s.Init, Race: s.Race, Batch: s.Batch,
		HangSecs: s.HangSecs, Assumptions: s.Assumptions, CrashIsViolation: s.CrashIsViolation,
		Post: s.Post, Parallel: s.Parallel, Env: s.Env,
	}}
}

// IDs lists the registered checks.
func IDs() []string {
	var ids []string
	for k := range registry {
		ids = append(ids, k)
	}
	sort.Strings(ids)
	return ids
}

// CaseRand returns the PRNG for case i of a check: a pure function of
// (check id, VERIF_SEED, i), so any case can be regenerated in isolation.
func CaseRand(id string, seed int64, i int) *rand.Rand {
	h := fnv.New64a()
	_, _ = h.Write([]byte(id))
	return rand.New(rand.NewPCG(uint64(seed)^h.Sum64(), uint64(i)*0x9E3779B97F4A7C15+1))
}

// Hash64 hashes bytes (FNV-1a).
func Hash64(b []byte) uint64 {
	h := fnv.New64a()
	_, _ = h.Write(b)
	return h.Sum64()
}

// Pick returns a random element.
func Pick[T any](r *rand.Rand, xs []T) T { return xs[r.IntN(len(xs))] }
