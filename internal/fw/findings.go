package fw

import (
	"encoding/json"
	"fmt"
	"os"
	"strings"
)

// Finding is one entry of known_findings.json. The file is committed and
// only ever read by the checks.
type Finding struct {
	Property  string          `json:"property"`
	Signature string          `json:"signature"` // exact, or prefix when it ends in '*'
	What      string          `json:"what"`
	Status    string          `json:"status"` // "open" or "fixed: property=<id> <commit> <what failed>"
	Witness   json.RawMessage `json:"witness,omitempty"`
}

// Open tells whether the finding is a listed, unrepaired defect.
func (f *Finding) Open() bool { return f.Status == "open" }

// Matches tells whether a violation signature is this finding. The listed
// signature is matched exactly; a '*' in it matches any run of characters.
func (f *Finding) Matches(sig string) bool {
	if !strings.Contains(f.Signature, "*") {
		return sig == f.Signature
	}
	parts := strings.Split(f.Signature, "*")
	if !strings.HasPrefix(sig, parts[0]) {
		return false
	}
	rest := sig[len(parts[0]):]
	for i := 1; i < len(parts); i++ {
		p := parts[i]
		if i == len(parts)-1 {
			return strings.HasSuffix(rest, p)
		}
		k := strings.Index(rest, p)
		if k < 0 {
			return false
		}
		rest = rest[k+len(p):]
	}
	return true
}

// LoadFindings reads the entries for one property.
func LoadFindings(path, id string) []*Finding {
	data, err := os.ReadFile(path)
	if err != nil {
		return nil
	}
	var all []*Finding
	if err = json.Unmarshal(data, &all); err != nil {
		fmt.Fprintf(os.Stderr, "known_findings.json: %v\n", err)
		return nil
	}
	var out []*Finding
	for _, f := range all {
		if f.Property == id {
			out = append(out, f)
		}
	}
	return out
}

// MatchFinding returns the open finding a signature belongs to, or nil.
func MatchFinding(fs []*Finding, sig string) *Finding {
	for _, f := range fs {
		if f.Open() && f.Matches(sig) {
			return f
		}
	}
	return nil
}

var openSigs map[string][]*Finding

// FindingOpen lets a generator ask whether a construct is on the avoid list
// (an open known finding with exactly this signature exists). Workers call
// it; the file is looked up in VERIF_ROOT or the current directory.
func FindingOpen(id, sig string) bool {
	if openSigs == nil {
		openSigs = map[string][]*Finding{}
	}
	fs, ok := openSigs[id]
	if !ok {
		root := os.Getenv("VERIF_ROOT")
		if root == "" {
			root = "."
		}
		fs = LoadFindings(root+"/known_findings.json", id)
		openSigs[id] = fs
	}
	return MatchFinding(fs, sig) != nil
}
