package fw

import (
	"bufio"
	"bytes"
	"encoding/json"
	"fmt"
	"os"
	"os/exec"
	"path/filepath"
	"sort"
	"strings"
	"sync"
	"syscall"
	"time"
)

// DriverCtx is reserved for driver-side extensions.
type DriverCtx struct{}

type replayFile struct {
	Property  string          `json:"property"`
	Signature string          `json:"signature"`
	Message   string          `json:"message"`
	Seed      int64           `json:"seed"`
	Tier      string          `json:"tier"`
	Index     int             `json:"index"`
	Case      json.RawMessage `json:"case"`
}

// DriverOpts configures a run of one check.
type DriverOpts struct {
	ID      string
	Tier    string
	Seed    int64
	Triage  bool // print every distinct signature, known or not
	Root    string
	Workers int
}

type incon struct {
	Index int    `json:"index"`
	Kind  string `json:"kind"` // crash | hang
	Info  string `json:"info,omitempty"`
	Tag   string `json:"tag,omitempty"`
}

type agg struct {
	mu       sync.Mutex
	evals    int
	trivial  int
	hashes   map[uint64]struct{}
	cover    map[string]int
	samples  []json.RawMessage
	viols    []Viol // only violations of witness cases (negative index)
	groups   map[string]*group
	incons   []incon
	races    []RaceReport
	nviolRaw int
}

type group struct {
	sig   string
	n     int
	first Viol
}

// addViol groups violations by signature, keeping the count and the
// smallest witness of each.
func (a *agg) addViol(v Viol) {
	a.nviolRaw++
	if a.groups == nil {
		a.groups = map[string]*group{}
	}
	g := a.groups[v.Sig]
	if g == nil {
		g = &group{sig: v.Sig, first: v}
		a.groups[v.Sig] = g
	}
	g.n++
	if 0 < len(v.Case) && (len(g.first.Case) == 0 || len(v.Case) < len(g.first.Case) ||
		(len(v.Case) == len(g.first.Case) && v.Index < g.first.Index)) {
		g.first = v
	}
	if v.Index < 0 { // witness runs: keep every (index, sig) pair
		a.viols = append(a.viols, v)
	}
}

// DriverMain runs the check and returns the process exit status.
func DriverMain(o DriverOpts) int {
	start := time.Now()
	ck, ok := registry[o.ID]
	if !ok {
		fmt.Fprintf(os.Stderr, "unknown check %s (have %v)\n", o.ID, IDs())
		return 2
	}
	sp := ck.spec()
	exe, _ := os.Executable()
	if sp.Race {
		exe = filepath.Join(filepath.Dir(exe), "vcheck-race")
	}
	scratch := os.Getenv("VERIF_SCRATCH")
	if scratch == "" {
		scratch = os.TempDir()
	}
	scratch, err := os.MkdirTemp(scratch, "verif-"+o.ID+"-")
	if err != nil {
		fmt.Fprintln(os.Stderr, err)
		return 2
	}
	defer os.RemoveAll(scratch)

	findings := LoadFindings(filepath.Join(o.Root, "known_findings.json"), o.ID)
	total := ck.n(o.Tier)
	a := &agg{hashes: map[uint64]struct{}{}, cover: map[string]int{}}

	type batch struct{ from, to int }
	var batches []batch
	for f := 0; f < total; f += sp.Batch {
		t := f + sp.Batch
		if total < t {
			t = total
		}
		batches = append(batches, batch{f, t})
	}
	par := sp.Parallel
	if 0 < o.Workers {
		par = o.Workers
	}
	if len(batches) < par {
		par = len(batches)
	}
	ch := make(chan int)
	var wg sync.WaitGroup
	for p := 0; p < par; p++ {
		wg.Add(1)
		go func() {
			defer wg.Done()
			for bi := range ch {
				b := batches[bi]
				runBatch(a, ck, exe, o, scratch, bi, b.from, b.to, "")
			}
		}()
	}
	for bi := range batches {
		ch <- bi
	}
	close(ch)
	wg.Wait()

	// re-execute the stored witnesses of open known findings
	wa := &agg{hashes: map[uint64]struct{}{}, cover: map[string]int{}}
	var witnessed []*Finding
	var wcases []json.RawMessage
	for _, f := range findings {
		if f.Open() && f.Witness != nil {
			witnessed = append(witnessed, f)
			wcases = append(wcases, f.Witness)
		}
	}
	if 0 < len(wcases) {
		cf := filepath.Join(scratch, "witness.json")
		wb, _ := json.Marshal(wcases)
		_ = os.WriteFile(cf, wb, 0o644)
		runBatch(wa, ck, exe, o, scratch, 1<<20, 0, len(wcases), cf)
	}
	return finish(a, wa, witnessed, findings, ck, o, start)
}

func runBatch(a *agg, ck check, exe string, o DriverOpts, scratch string, bi, from, to int, casesFile string) {
	sp := ck.spec()
	for attempt := 0; from < to && attempt < 200; attempt++ {
		dir := filepath.Join(scratch, fmt.Sprintf("b%d-%d", bi, attempt))
		_ = os.MkdirAll(filepath.Join(dir, "home"), 0o755)
		out := filepath.Join(dir, "out.jsonl")
		args := []string{"-worker", "-id", o.ID, "-tier", o.Tier, "-seed", fmt.Sprint(o.Seed),
			"-from", fmt.Sprint(from), "-to", fmt.Sprint(to), "-out", out}
		if casesFile != "" {
			args = append(args, "-cases", casesFile)
		}
		cmd := exec.Command(exe, args...)
		cmd.Dir = dir
		cmd.Stdin = nil
		errf, _ := os.Create(filepath.Join(dir, "stderr"))
		cmd.Stdout = errf
		cmd.Stderr = errf
		cmd.Env = append(os.Environ(), "HOME="+filepath.Join(dir, "home"), "VERIF_WORKDIR="+dir,
			"XDG_CONFIG_HOME="+filepath.Join(dir, "home", ".config"))
		cmd.Env = append(cmd.Env, sp.Env...)
		if sp.Race {
			cmd.Env = append(cmd.Env, "GORACE=halt_on_error=0 log_path="+filepath.Join(dir, "race"))
		}
		if err := cmd.Start(); err != nil {
			a.mu.Lock()
			a.incons = append(a.incons, incon{Index: from, Kind: "crash", Info: "cannot start worker: " + err.Error()})
			a.mu.Unlock()
			return
		}
		done := make(chan error, 1)
		go func() { done <- cmd.Wait() }()
		hung := false
		var lastSize int64 = -1
		lastChange := time.Now()
		tick := time.NewTicker(500 * time.Millisecond)
	wait:
		for {
			select {
			case <-done:
				break wait
			case <-tick.C:
				if fi, err := os.Stat(out); err == nil && fi.Size() != lastSize {
					lastSize = fi.Size()
					lastChange = time.Now()
				} else if time.Duration(sp.HangSecs)*time.Second < time.Since(lastChange) {
					hung = true
					_ = cmd.Process.Signal(syscall.SIGQUIT)
					select {
					case <-done:
					case <-time.After(5 * time.Second):
						_ = cmd.Process.Kill()
						<-done
					}
					break wait
				}
			}
		}
		tick.Stop()
		_ = errf.Close()
		last, complete := readWorkerOut(a, out)
		tag := ""
		if casesFile == "" && to-from == 1 {
			if tag = ck.tagJSON(ck.genJSON(o.Seed, from, o.Tier)); tag != "" {
				tag += " "
			}
		}
		if sp.Race {
			rr := ParseRaceLogs(dir)
			for k := range rr {
				rr[k].Sig = tag + rr[k].Sig
				rr[k].Index = from
			}
			a.mu.Lock()
			a.races = append(a.races, rr...)
			a.mu.Unlock()
		}
		if complete {
			_ = os.RemoveAll(dir)
			return
		}
		// the worker died or was killed: attribute to the last case it announced
		tail := tailFile(filepath.Join(dir, "stderr"), 3000)
		kind := "crash"
		if hung {
			kind = "hang"
		}
		idx := last
		if casesFile != "" {
			idx = -1 - last
		}
		a.mu.Lock()
		a.incons = append(a.incons, incon{Index: idx, Kind: kind, Info: tail, Tag: tag})
		a.mu.Unlock()
		_ = os.RemoveAll(dir)
		if last < from {
			last = from
		}
		from = last + 1
	}
}

func tailFile(path string, n int) string {
	b, err := os.ReadFile(path)
	if err != nil {
		return ""
	}
	// keep the head of a fatal error (most informative) rather than the tail
	if i := bytes.Index(b, []byte("fatal error:")); 0 <= i {
		b = b[i:]
	} else if i := bytes.Index(b, []byte("panic:")); 0 <= i {
		b = b[i:]
	}
	if n < len(b) {
		b = b[:n]
	}
	return string(b)
}

// readWorkerOut merges a worker's output; returns the last announced case
// index (position in the run, not negative witness index) and whether the
// summary line was seen.
func readWorkerOut(a *agg, path string) (last int, complete bool) {
	last = -1
	f, err := os.Open(path)
	if err != nil {
		return
	}
	defer f.Close()
	sc := bufio.NewScanner(f)
	sc.Buffer(make([]byte, 1<<20), 1<<30)
	a.mu.Lock()
	defer a.mu.Unlock()
	for sc.Scan() {
		var l wline
		if json.Unmarshal(sc.Bytes(), &l) != nil {
			continue
		}
		switch l.T {
		case "call":
			last = l.I
			if last < 0 {
				last = -1 - last
			}
		case "viol":
			if l.V != nil {
				a.addViol(*l.V)
			}
		case "sum":
			complete = true
			a.evals += l.Evals
			a.trivial += l.Trivial
			for _, h := range l.Hashes {
				a.hashes[h] = struct{}{}
			}
			for k, n := range l.Cover {
				a.cover[k] += n
			}
			for _, s := range l.Samples {
				if len(a.samples) < 5 {
					a.samples = append(a.samples, s)
				}
			}
		}
	}
	if !complete && 0 <= last {
		// cases before the last announced one were completed
		a.evals += 0
	}
	return
}

func finish(a, wa *agg, witnessed, findings []*Finding, ck check, o DriverOpts, start time.Time) int {
	sp := ck.spec()
	// crashes/hangs: violation for checks where that is the property
	for _, ic := range a.incons {
		// a worker that died or stalled before it announced any case (start-up on a loaded
		// machine) says nothing about the property: it stays inconclusive
		if sp.CrashIsViolation && 0 <= ic.Index {
			raw := json.RawMessage("null")
			if 0 <= ic.Index {
				raw = ck.genJSON(o.Seed, ic.Index, o.Tier)
			}
			a.addViol(Viol{Index: ic.Index, Sig: ic.Kind + ":" + ic.Tag + crashSig(ic.Info), Msg: ic.Kind + " of worker process\n" + ic.Info, Case: raw})
		}
	}
	for _, rr := range a.races {
		raw := json.RawMessage(nil)
		if sp.Batch == 1 && 0 <= rr.Index {
			raw = ck.genJSON(o.Seed, rr.Index, o.Tier)
		}
		a.addViol(Viol{Index: rr.Index, Sig: "race:" + rr.Sig, Msg: rr.Text, Case: raw})
	}
	groups := a.groups
	var order []string
	for sig := range groups {
		order = append(order, sig)
	}
	sort.Strings(order)

	knownSeen := map[*Finding]int{}
	var unknown []*group
	for _, sig := range order {
		g := groups[sig]
		if f := MatchFinding(findings, sig); f != nil {
			knownSeen[f] += g.n
		} else {
			unknown = append(unknown, g)
		}
	}
	// witnesses
	witnessHit := map[*Finding]bool{}
	for _, v := range wa.viols {
		k := -1 - v.Index
		if 0 <= k && k < len(witnessed) && witnessed[k].Matches(v.Sig) {
			witnessHit[witnessed[k]] = true
		}
	}
	for _, ic := range wa.incons {
		k := -1 - ic.Index
		if 0 <= k && k < len(witnessed) && sp.CrashIsViolation &&
			witnessed[k].Matches(ic.Kind+":"+ic.Tag+crashSig(ic.Info)) {
			witnessHit[witnessed[k]] = true
		}
	}
	nKnown := 0
	for _, f := range findings {
		if !f.Open() {
			continue
		}
		if witnessHit[f] || 0 < knownSeen[f] {
			nKnown++
			fmt.Printf("KNOWN-FINDING: property=%s %s [sig=%s; seen %d times in this run%s]\n", o.ID, f.What, f.Signature,
				knownSeen[f], map[bool]string{true: "; stored witness still fails", false: ""}[witnessHit[f]])
		} else {
			// every listed open finding gets its KNOWN-FINDING line; the NOTE tells
			// that this run did not meet it (schedule- or seed-dependent findings)
			fmt.Printf("KNOWN-FINDING: property=%s %s [sig=%s; not re-observed in this run]\n", o.ID, f.What, f.Signature)
			fmt.Printf("NOTE: listed finding not re-observed in this run (sig=%s)\n", f.Signature)
		}
	}
	if o.Triage {
		for _, sig := range order {
			g := groups[sig]
			k := "NEW"
			if MatchFinding(findings, sig) != nil {
				k = "known"
			}
			fmt.Printf("TRIAGE %s n=%d sig=%q\n   msg: %s\n   case: %s\n", k, g.n, sig, indent(g.first.Msg), trunc(string(g.first.Case), 1500))
		}
	}
	if ef := os.Getenv("VERIF_EMIT"); ef != "" {
		// candidate known-finding entries for review (never read back by checks)
		var cands []*Finding
		for _, g := range unknown {
			cands = append(cands, &Finding{Property: o.ID, Signature: g.sig, What: trunc(strings.SplitN(g.first.Msg, "\n", 2)[0], 300),
				Status: "open", Witness: g.first.Case})
		}
		cb, _ := json.MarshalIndent(cands, "", " ")
		_ = os.WriteFile(ef, cb, 0o644)
	}
	rc := 0
	replayDir := filepath.Join(o.Root, "replay", o.ID)
	for k, g := range unknown {
		if k == 25 {
			fmt.Printf("... %d more distinct violating signatures not printed\n", len(unknown)-k)
			break
		}
		_ = os.MkdirAll(replayDir, 0o755)
		path := filepath.Join(replayDir, fmt.Sprintf("%016x.json", Hash64([]byte(g.sig))))
		rb, _ := json.MarshalIndent(replayFile{Property: o.ID, Signature: g.sig, Message: g.first.Msg, Seed: o.Seed,
			Tier: o.Tier, Index: g.first.Index, Case: g.first.Case}, "", " ")
		_ = os.WriteFile(path, rb, 0o644)
		fmt.Printf("VIOLATION property=%s replay=%s\n   sig=%s (n=%d)\n   %s\n", o.ID, path, g.sig, g.n, indent(trunc(g.first.Msg, 1200)))
		rc = 1
	}
	distinct := len(a.hashes)
	inconN := 0
	if !sp.CrashIsViolation {
		inconN = len(a.incons)
		for k, ic := range a.incons {
			if k < 5 {
				fmt.Printf("INCONCLUSIVE case=%d %s: %s\n", ic.Index, ic.Kind, trunc(ic.Info, 600))
			}
		}
	} else {
		for _, ic := range a.incons {
			if ic.Index < 0 {
				inconN++
				fmt.Printf("INCONCLUSIVE case=none %s of a worker before it announced a case: %s\n", ic.Kind, trunc(ic.Info, 200))
			}
		}
	}
	if rc == 0 && (a.evals == 0 || distinct < 2) {
		fmt.Printf("INCONCLUSIVE property=%s nothing conclusive observed (evaluations=%d distinct=%d)\n", o.ID, a.evals, distinct)
		rc = 2
	}
	// evidence
	cov := map[string]any{
		"evaluations":         a.evals,
		"distinct_nontrivial": distinct,
		"rule":                sp.Rule,
		"samples":             a.samples,
		"trivial_cases":       a.trivial,
		"monitor_counters":    a.cover,
		"known_findings_seen": nKnown,
		"inconclusive":        inconN,
		"violating_signatures": func() []string {
			var s []string
			for _, g := range unknown {
				s = append(s, g.sig)
			}
			return s
		}(),
		"known_signatures_hit": func() map[string]int {
			m := map[string]int{}
			for f, n := range knownSeen {
				m[f.Signature] = n
			}
			return m
		}(),
		"exhaustive": false,
	}
	if sp.Race {
		cov["race_reports"] = len(a.races)
	}
	if len(a.samples) == 0 {
		cov["samples"] = []any{"(no non-trivial case completed)"}
	}
	ev := map[string]any{
		"property_id": o.ID,
		"tier":        o.Tier,
		"seed":        o.Seed,
		"level":       sp.Level,
		"coverage":    cov,
		"assumptions": sp.Assumptions,
		"wall_s":      time.Since(start).Seconds(),
		"violations":  len(unknown),
	}
	eb, _ := json.MarshalIndent(ev, "", " ")
	// VERIF_EVIDENCE_DIR is set by ./run only when the check is linked against another
	// checkout (VERIF_REPO, trial mutations): evidence/ holds runs against /repo only.
	evdir := filepath.Join(o.Root, "evidence")
	if d := os.Getenv("VERIF_EVIDENCE_DIR"); d != "" {
		evdir = d
	}
	_ = os.MkdirAll(evdir, 0o755)
	_ = os.WriteFile(filepath.Join(evdir, o.ID+".json"), append(eb, '\n'), 0o644)
	verdict := map[int]string{0: "HELD on what was observed", 1: "VIOLATED", 2: "INCONCLUSIVE"}[rc]
	fmt.Printf("%s %s tier=%s seed=%d: %s; evaluations=%d distinct_nontrivial=%d known_findings=%d new_signatures=%d inconclusive=%d wall=%.1fs\n",
		o.ID, verdict, o.Tier, o.Seed, coverLine(a.cover), a.evals, distinct, nKnown, len(unknown), inconN, time.Since(start).Seconds())
	return rc
}

func coverLine(c map[string]int) string {
	var keys []string
	for k := range c {
		keys = append(keys, k)
	}
	sort.Strings(keys)
	var b strings.Builder
	for i, k := range keys {
		if 12 <= i {
			fmt.Fprintf(&b, " …(%d keys)", len(keys))
			break
		}
		fmt.Fprintf(&b, " %s=%d", k, c[k])
	}
	return strings.TrimSpace(b.String())
}

// crashSig names a worker death: the fatal/panic line plus the innermost
// slip frame of the goroutine that died.
func crashSig(info string) string {
	lines := strings.Split(info, "\n")
	for i, ln := range lines {
		ln = strings.TrimSpace(ln)
		if strings.HasPrefix(ln, "fatal error:") || strings.HasPrefix(ln, "panic:") {
			if 100 < len(ln) {
				ln = ln[:100]
			}
			for _, fr := range lines[i+1:] {
				fr = strings.TrimSpace(fr)
				if strings.HasPrefix(fr, "github.com/ohler55/slip") && !strings.Contains(fr, "normalAfter") {
					if j := strings.LastIndex(fr, "("); 0 < j {
						fr = fr[:j]
					}
					return ln + " @ " + strings.TrimPrefix(fr, "github.com/ohler55/slip")
				}
			}
			return ln
		}
	}
	return "unknown"
}

func indent(s string) string { return strings.ReplaceAll(s, "\n", "\n   ") }

func trunc(s string, n int) string {
	if n < len(s) {
		return s[:n] + "…"
	}
	return s
}
