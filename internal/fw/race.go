package fw

import (
	"os"
	"path/filepath"
	"regexp"
	"sort"
	"strings"
)

// RaceReport is one "WARNING: DATA RACE" block from a GORACE log.
type RaceReport struct {
	Sig   string
	Text  string
	Index int
}

var frameRe = regexp.MustCompile(`^\s+([^\s(]+(?:\([^)]*\))?[^\s(]*)\(`)

// ParseRaceLogs reads race.* logs in dir and returns one report per block,
// with a signature made of the innermost github.com/ohler55/slip frame of
// each of the two conflicting accesses (sorted, line numbers stripped).
func ParseRaceLogs(dir string) (out []RaceReport) {
	files, _ := filepath.Glob(filepath.Join(dir, "race.*"))
	for _, f := range files {
		data, err := os.ReadFile(f)
		if err != nil {
			continue
		}
		blocks := strings.Split(string(data), "WARNING: DATA RACE")
		for _, b := range blocks[1:] {
			if i := strings.Index(b, "=================="); 0 <= i {
				b = b[:i]
			}
			out = append(out, RaceReport{Sig: raceSig(b), Text: "WARNING: DATA RACE" + trunc(b, 4000)})
		}
	}
	return
}

func raceSig(block string) string {
	// sections start with a non-indented line ("Write at", "Previous read at",
	// "Goroutine N (running) created at:"); only the first two are accesses.
	var sections [][]string
	for _, ln := range strings.Split(block, "\n") {
		if ln == "" {
			continue
		}
		if !strings.HasPrefix(ln, " ") {
			sections = append(sections, []string{ln})
		} else if 0 < len(sections) {
			sections[len(sections)-1] = append(sections[len(sections)-1], ln)
		}
	}
	var parts []string
	for si, sec := range sections {
		if 2 <= si {
			break
		}
		fn := "?"
		for _, ln := range sec[1:] {
			t := strings.TrimSpace(ln)
			if strings.HasPrefix(t, "github.com/ohler55/slip") {
				if j := strings.LastIndex(t, "("); 0 < j {
					t = t[:j]
				}
				fn = strings.TrimPrefix(t, "github.com/ohler55/slip")
				break
			}
		}
		kind := "R"
		if strings.Contains(strings.ToLower(sec[0]), "write") {
			kind = "W"
		}
		parts = append(parts, kind+":"+fn)
	}
	sort.Strings(parts)
	return strings.Join(parts, " <-> ")
}
